import NomtModel.Core.MultiTotal
import NomtModel.Core.TermHasher
import NomtModel.Core.Complete
import NomtModel.Core.MultiUpdateRoot
import NomtModel.Core.MultiHonest
/-!
# C07 — Multi-proofs are equivalent to (and as sound as) the path proofs they bundle

Property theorems about the executable mirrors of `core/src/proof/multi_proof.rs`
(`Core/MultiProof.lean`; helper lemmas in `Core/MultiSound.lean`, `Core/MultiAlign.lean`).
`verifyMulti`, `findIndexFor`, `confirmValue`, … follow the Rust code loop by loop, including the
branch-free `slice::binary_search_by` of the toolchain and every panic site; they are tied to the real
code by the `core-mp` differential run.

Completeness of `findIndexFor` (a key covered by some verified path is found, so the multi-proof answers
every query as the individual path proofs do) is T7.2d–h in `Props/C07_FindIndex.lean`.
Proved below: T7.4 `multiVerifyUpdate` returns the specified root of the updated set (T8.3 for
multi-proofs; that it never reaches a panic site is T18.5 in `Props/C18.lean`); T7.5 `fromPathProofs` of
honest path proofs succeeds and verifies (completeness); T7.6 the two together.
-/
namespace Nomt.C07
open Nomt
variable {Node VH : Type} [DecidableEq Node] [DecidableEq VH] (H : Hasher Node VH)

/-- T7.2a **lookup**: an index returned by `find_index_for` denotes a verified path whose first `depth`
bits are the first `depth` bits of the key (no slice out of range on the way), and `confirm_value` /
`confirm_nonexistence` are exactly the terminal test of that path. -/
theorem T7_2a_find_index_covers (v : VerifiedMulti Node VH) (key : Key) (i : Nat)
    (h : findIndexFor v key = .ok i) :
    ∃ vp, v.inner[i]? = some vp ∧ vp.covers key ∧
      (∀ vh, confirmValue v key vh = .ok (match vp.terminal with
          | .terminator _ => false
          | .leaf k vh' => decide (k = key ∧ vh' = vh))) ∧
      confirmNonexistence v key = .ok (match vp.terminal with
          | .terminator _ => true
          | .leaf k _ => decide (k ≠ key)) := by
  obtain ⟨vp, hget, hcov⟩ := findIndexFor_ok v key i h
  refine ⟨vp, hget, hcov, ?_, ?_⟩
  · intro vh
    cases ht : vp.terminal <;>
      simp [confirmValue, h, confirmValueInner, getIdx_some _ _ _ _ hget, ht]
  · cases ht : vp.terminal <;>
      simp [confirmNonexistence, h, confirmNonexistenceInner, getIdx_some _ _ _ _ hget, ht]

/-- T7.2b **out of scope is an error, not a guess**: when `find_index_for` fails, both confirmations
fail with `KeyOutOfScope`. -/
theorem T7_2b_out_of_scope (v : VerifiedMulti Node VH) (key : Key) (vh : VH)
    (h : findIndexFor v key = .err .keyOutOfScope) :
    confirmValue v key vh = .err .keyOutOfScope ∧ confirmNonexistence v key = .err .keyOutOfScope := by
  simp [confirmValue, confirmNonexistence, h]

/-- T7.2c **the covering path is unique**: in an accepted multi-proof (any prover-supplied object, any
root) at most one verified path has the key in scope — so the index `find_index_for` returns is *the*
path for the key, and `…_with_index` can succeed for no other index. -/
theorem T7_2c_covering_path_unique (mp : MultiProof Node VH) (root : Node) (v : VerifiedMulti Node VH)
    (hv : verifyMulti H mp root = .ok v) (key : Key) (i j : Nat) (vi vj : VPath VH)
    (hi : v.inner[i]? = some vi) (hj : v.inner[j]? = some vj)
    (hci : vi.covers key) (hcj : vj.covers key) : i = j :=
  verifyMulti_cover_unique H mp root v hv key i j vi vj hi hj hci hcj

/-- T18.2 (multi-proof lookups are total): on an accepted multi-proof, for a key at least as long as
every verified depth (true for 256-bit keys: `depth ≤ |terminal path| ≤ 256`), `find_index_for`,
`confirm_value` and `confirm_nonexistence` never reach a panic site. -/
theorem T18_2_multi_lookups_total (mp : MultiProof Node VH) (root : Node) (v : VerifiedMulti Node VH)
    (hv : verifyMulti H mp root = .ok v) (key : Key) (hk : ∀ vp ∈ v.inner, vp.depth ≤ key.length) (vh : VH) :
    (findIndexFor v key).isPanic = false ∧ (confirmValue v key vh).isPanic = false ∧
    (confirmNonexistence v key).isPanic = false :=
  multi_lookups_total H mp root v hv key hk vh

/-- T7.1 **alignment**: whatever object the prover supplied and whatever the root, every path of an
accepted multi-proof was hashed to the root along the first `depth` bits of its own terminal path
(the bisection of `verify_range` never files a terminal under a foreign prefix). -/
theorem T7_1_verified_paths_aligned (mp : MultiProof Node VH) (root : Node) (v : VerifiedMulti Node VH)
    (hv : verifyMulti H mp root = .ok v) :
    ∀ vp ∈ v.inner, vp.route = vp.terminal.path.take vp.depth :=
  verifyMulti_aligned H mp root v hv

/-- T8.2a **every verified terminal is the true terminal**: if a multi-proof object verifies against the
root of `S`, then for each verified path the terminal is exactly the content of `S` below the first
`depth` bits of the terminal's path (a leaf: that single entry; a terminator: nothing). -/
theorem T8_2a_multi_terminals_true (hs : H.Sound) (L : Nat) (S : List (Key × VH)) (hc : Canon L 0 S)
    (mp : MultiProof Node VH) (v : VerifiedMulti Node VH)
    (hv : verifyMulti H mp (nodeAt H L 0 S) = .ok v) :
    ∀ vp ∈ v.inner, vp.depth ≤ L ∧ TermOK vp.terminal (restrict 0 (vp.terminal.path.take vp.depth) S) := by
  intro vp hvp
  have hal := verifyMulti_aligned H mp _ v hv vp hvp
  obtain ⟨hlen, hterm⟩ := verifyMulti_routes H hs L S hc mp v hv vp hvp
  have hal' : vp.route = vp.terminal.path.take vp.depth := hal
  rw [hal'] at hterm hlen
  refine ⟨?_, hterm⟩
  -- `depth ≤ |path|` (slice succeeded), so the take has length `depth`
  obtain ⟨_, r, hr, _, _, hinner, _⟩ := verifyMulti_ok H mp _ v hv
  have hd := verifyRange_vdepths H _ _ _ _ _ _ r hr vp (hinner ▸ hvp)
  rw [List.length_take] at hlen
  omega

/-- T8.2 **multi-proof soundness**: for every set `S` and every multi-proof object (whatever bytes the
prover supplied): if it verifies against the root of `S`, every statement it confirms — value,
different-or-absent value, non-existence, existence — is true of `S`. -/
theorem T8_2_multi_proof_sound (hs : H.Sound) (L : Nat) (S : List (Key × VH)) (hc : Canon L 0 S)
    (mp : MultiProof Node VH) (v : VerifiedMulti Node VH)
    (hv : verifyMulti H mp (nodeAt H L 0 S) = .ok v) (k : Key) (vh : VH) :
    (confirmValue v k vh = .ok true → (k, vh) ∈ S) ∧
    (confirmValue v k vh = .ok false → (k, vh) ∉ S) ∧
    (confirmNonexistence v k = .ok true → ∀ vh', (k, vh') ∉ S) ∧
    (confirmNonexistence v k = .ok false → ∃ vh', (k, vh') ∈ S) :=
  multi_confirm_sound H hs L S hc mp v hv (verifyMulti_aligned H mp _ v hv) k vh

/-- T7.3 **the bisection search is the partition point**: on a list whose predicate is monotone
(`false … false true … true`), the mirrored `binary_search_by` returns `Err(first true index)`. -/
theorem T7_3_binary_search_partition {ε α : Type} (f : α → Outcome ε Ordering) (l : List α) (g : α → Bool)
    (hf : ∀ x ∈ l, f x = .ok (if !g x then .lt else .gt))
    (hmono : ∀ (i j : Nat) (x y : α), i < j → l[i]? = some x → l[j]? = some y → g x = true → g y = true) :
    ∃ idx, binarySearchBy f l = .ok (.notFound idx) ∧ idx ≤ l.length ∧
      (∀ j x, j < idx → l[j]? = some x → g x = false) ∧
      (∀ j x, idx ≤ j → l[j]? = some x → g x = true) :=
  binarySearchBy_partition f l g hf hmono

/-! Non-vacuity (term hasher `TH`, which is `Sound`): a three-key set, the multi-proof built by
`fromPathProofs` from two specified path proofs verifies against the specified root, finds the path of
a key and confirms a true statement; a depth-mutated object is rejected with `InvalidDepth`
(before /repo commit 2b65ee4 `verify_range` sliced out of range on it and panicked). -/
example :
    let S : List (Key × Nat) := [([false, false], 7), ([false, true], 8), ([true, true], 9)]
    let p1 := proveSpec TH 2 S [false, true]
    let p2 := proveSpec TH 2 S [true, false]
    (match fromPathProofs [p1, p2] with
     | .ok mp =>
       (match verifyMulti TH mp (nodeAt TH 2 0 S) with
        | .ok v =>
          decide (findIndexFor v [false, true] = .ok 0) &&
          decide (confirmValue v [false, true] 8 = .ok true) &&
          decide (confirmNonexistence v [true, false] = .ok true) &&
          decide (confirmValue v [true, true] 9 = .ok true) &&
          decide (confirmValue v [false, false] 7 = .err .keyOutOfScope)
        | _ => false) &&
       (match verifyMulti TH { mp with paths := mp.paths.map (fun p => { p with depth := p.depth + 1 }) }
          (nodeAt TH 2 0 S) with
        | .err .invalidDepth => true
        | _ => false)
     | _ => false) = true := by decide


/-- T7.4 **root correctness of the multi-proof update.**  `H` sound, `S` a canonical set of `L`-bit keys,
`mp` ANY proof object that `verify` accepts against the root of `S`.  For ops with `L`-bit keys, strictly
ascending, each in scope of some verified path (`key[..depth] = path()[..depth]`, what `terminal_contains`
tests): `verify_update` (multi_proof.rs:688) returns exactly the root of the updated set
`kvApply S ops` — the sequential model's batch application (`Api/KV.lean`), the same right-hand side as
T8.3 for path proofs. -/
theorem T7_4_multi_update_root (hs : H.Sound) (L : Nat) (S : List (Key × VH)) (hc : Canon L 0 S)
    (hlen : ∀ kv ∈ S, kv.1.length = L) (mp : MultiProof Node VH) (v : VerifiedMulti Node VH)
    (hv : verifyMulti H mp (nodeAt H L 0 S) = .ok v) (ops : List (Key × Option VH))
    (hol : ∀ o ∈ ops, o.1.length = L) (hsorted : ops.Pairwise KeyLt)
    (hscope : ∀ o ∈ ops, ∃ (j : Nat) (t : VPath VH), v.inner[j]? = some t ∧
      o.1.take t.depth = t.terminal.path.take t.depth) :
    multiVerifyUpdate H L v ops = .ok (nodeAt H L 0 (kvApply S ops)) :=
  multiVerifyUpdate_eq_root hs S hc hlen mp hv ops hol hsorted hscope

/-- T7.4a **soundness form**: whatever ops the caller supplies (any order, any scope), an `ok` verdict of
the multi-proof update is the root of `kvApply S ops`; every other outcome is an error verdict
(`OpsOutOfOrder` / `OpOutOfScope`), never a wrong root and never a panic (T18.5). -/
theorem T7_4a_multi_update_sound (hs : H.Sound) (L : Nat) (S : List (Key × VH)) (hc : Canon L 0 S)
    (hlen : ∀ kv ∈ S, kv.1.length = L) (mp : MultiProof Node VH) (v : VerifiedMulti Node VH)
    (hv : verifyMulti H mp (nodeAt H L 0 S) = .ok v) (ops : List (Key × Option VH))
    (hol : ∀ o ∈ ops, o.1.length = L) (r : Node) (h : multiVerifyUpdate H L v ops = .ok r) :
    r = nodeAt H L 0 (kvApply S ops) :=
  multiVerifyUpdate_sound hs S hc hlen mp hv ops hol r h

/-- T7.4b **the multi-proof update is the path-proof update on the bundled path proofs** (no hash
assumption, any root).  An accepted multi-proof is the pre-order layout of a recursion tree `T`
(`TreeOf`); from it one path proof per verified terminal is reconstructed (`PTree.pins`: the route, the
terminal, and the full sibling list — the common siblings of the enclosing bisections and the unique
siblings from the proof, the other side of each bisection from the verified hashes).  Then

1. each reconstructed path proof is accepted by `PathProof::verify` against the same root, with path =
   the route of the verified multi-path;
2. an `ok` verdict of `verify_update` (multi_proof.rs) on non-empty ops IS `verify_update`
   (path_proof.rs, its hashing core `verifyUpdate`) on these path proofs, path `i` carrying the ops
   `A i`, where the `A i` concatenate to the caller's ops, are strictly ascending and lie under terminal
   `i`.

(That the stack of `CommonSiblings` holds, for every terminal, exactly the proof-supplied siblings of the
individual path proof is `advanceLoop_first` / `ingest_block` in `Core/MultiBlock.lean`.) -/
theorem T7_4b_multi_update_is_path_update (L : Nat) (mp : MultiProof Node VH) (root : Node)
    (v : VerifiedMulti Node VH) (hv : verifyMulti H mp root = .ok v)
    (hleaf : ∀ vp ∈ v.inner, ∀ k x, vp.terminal = .leaf k x → k.length = L)
    (hdepth : ∀ vp ∈ v.inner, vp.depth ≤ L) :
    ∃ T : PTree Node VH, TreeOf H v T ∧
      (∀ (A : Nat → List (Key × Option VH)), ∀ p ∈ T.pins H A root [] [] 0,
        (∃ P, verify H L P p.inner.path root = .ok p.inner) ∧
        ∃ (k : Nat) (vp : VPath VH), v.inner[k]? = some vp ∧ p.inner.path = vp.route ∧
          p.inner.terminal = vp.terminal.asLeaf ∧ p.ops = A k) ∧
      ∀ (ops : List (Key × Option VH)), (∀ o ∈ ops, o.1.length = L) → ops ≠ [] →
        ∀ r, multiVerifyUpdate H L v ops = .ok r →
          ∃ A : Nat → List (Key × Option VH), opsUpTo A v.inner.length = ops ∧ ops.Pairwise KeyLt ∧
            (∀ i t, v.inner[i]? = some t → ∀ o ∈ A i, o.1.take t.depth = t.terminal.path.take t.depth) ∧
            r = verifyUpdate H root ((T.pins H A root [] [] 0).map (toUpd H)) := by
  obtain ⟨T, hT, _⟩ := verifyMulti_tree H mp root v hv
  have hroot : v.root = root := (verifyMulti_ok H mp _ v hv).2.choose_spec.2.2.2.2.2.2
  refine ⟨T, hT, ?_, ?_⟩
  · intro A p hp
    obtain ⟨k, vp, _, hget, h1, h2, h3⟩ := PTree.pins_spec H A root T [] [] 0 0 p hp
    rw [← hT.inner] at hget
    have hd : p.inner.path.length ≤ L := by
      have hmem := List.mem_of_getElem? hget
      have hmem' := hmem
      rw [hT.inner] at hmem'
      obtain ⟨_, h4, _⟩ := PTree.vpaths_route T [] 0 hT.al vp hmem'
      rw [h1, h4]; exact hdepth vp hmem
    exact ⟨PTree.pins_verified H A L root T [] [] 0 hT.wf rfl (by rw [← hroot, hT.root]; rfl) p hp hd,
      k, vp, hget, h1, h2, by rw [h3, Nat.zero_add]⟩
  · intro ops hol hne r hr
    obtain ⟨A, _, hops, hsorted, hcover, hreq⟩ := (multiVerifyUpdate_spec ⟨hT, hleaf, hdepth⟩ ops hol).2.1 r hr hne
    exact ⟨A, hops, hsorted, hcover, by rw [hreq, PTree.pins_map_toUpd, hroot]⟩

/-! Non-vacuity of T7.4 (term hasher): a four-key set of 3-bit keys; the multi-proof of the two keys
`010`, `011` has a recorded bisection (two common bits, two common siblings); a write, a delete and an
insert below the two verified terminals give the root of the updated set. -/
def exS4 : List (Key × Nat) :=
  [([false, false, false], 1), ([false, true, false], 2), ([false, true, true], 3), ([true, false, false], 4)]
def exMP4 : MultiProof T Nat :=
  match fromPathProofs [proveSpec TH 3 exS4 [false, true, false], proveSpec TH 3 exS4 [false, true, true]] with
  | .ok mp => mp
  | _ => ⟨[], []⟩
def exVM4 : VerifiedMulti T Nat :=
  match verifyMulti TH exMP4 (nodeAt TH 3 0 exS4) with
  | .ok v => v
  | _ => ⟨[], [], [], T.term⟩
theorem exVM4_ok : verifyMulti TH exMP4 (nodeAt TH 3 0 exS4) = .ok exVM4 := by rfl
example : exVM4.bisections = [{ startDepth := 0, cStart := 0, cEnd := 2 }] := by decide

example : multiVerifyUpdate TH 3 exVM4 [([false, true, false], some 9), ([false, true, true], none)]
    = .ok (nodeAt TH 3 0 (kvApply exS4 [([false, true, false], some 9), ([false, true, true], none)])) := by
  apply T7_4_multi_update_root TH TH_sound 3 exS4 (by simp [exS4, Canon, side]) (by simp [exS4]) exMP4 exVM4 exVM4_ok
  · decide
  · simp [KeyLt, bitsLt]
  · intro o ho
    simp only [List.mem_cons, List.not_mem_nil, or_false] at ho
    rcases ho with rfl | rfl
    · exact ⟨0, _, rfl, by decide⟩
    · exact ⟨1, _, rfl, by decide⟩
/-- the value computed by the mirror, evaluated: the deleted leaf's sibling is compacted upwards -/
example : multiVerifyUpdate TH 3 exVM4 [([false, true, false], some 9), ([false, true, true], none)]
    = .ok (.node (.node (.leaf [false, false, false] 1) (.leaf [false, true, false] 9)) (.leaf [true, false, false] 4)) := by
  decide


/-- T7.5 **completeness of `from_path_proofs` / `verify`.**  `S` a canonical set of `L`-bit keys, `ks` a
non-empty list of `L`-bit keys whose specified path proofs (`proveSpec`, the proofs an honest prover
reads off the trie; they are what the real prover emits — `core-pp`) have strictly ascending terminal
paths (sorted, pairwise distinct terminals; that none is a prefix of another then follows).  Then

* `MultiProof::from_path_proofs` succeeds on them (no panic site of the explicit-stack bisection loop is
  reached, the fuel of the Lean loop suffices) and its terminals are those of the path proofs, in order;
* `verify` accepts the result against the root of `S` (no hash assumption is needed for this direction);
* the verified terminals are those of the path proofs, each at depth = the number of siblings of its path
  proof; every proved key is in scope of the verified multi-proof (`terminal_contains` holds for its own
  terminal), so the lookups and the update can be used for exactly the proved keys. -/
theorem T7_5_from_path_proofs_complete (L : Nat) (S : List (Key × VH)) (hc : Canon L 0 S)
    (hlen : ∀ kv ∈ S, kv.1.length = L) (ks : List Key) (hne : ks ≠ []) (hkl : ∀ k ∈ ks, k.length = L)
    (hasc : (ks.map (fun k => (proveSpec H L S k).terminal.path)).Pairwise (fun a b => bitsLt a b = true)) :
    ∃ (mp : MultiProof Node VH) (v : VerifiedMulti Node VH),
      fromPathProofs (ks.map (proveSpec H L S)) = .ok mp ∧
      verifyMulti H mp (nodeAt H L 0 S) = .ok v ∧
      v.inner.map (·.terminal) = (ks.map (proveSpec H L S)).map (·.terminal) ∧
      v.inner.map (·.depth) = (ks.map (proveSpec H L S)).map (·.siblings.length) ∧
      mp.paths.map (·.terminal) = (ks.map (proveSpec H L S)).map (·.terminal) ∧
      v.siblings = mp.siblings ∧ v.root = nodeAt H L 0 S ∧
      (∀ k ∈ ks, ∃ (j : Nat) (t : VPath VH), v.inner[j]? = some t ∧
        k.take t.depth = t.terminal.path.take t.depth) :=
  fromPathProofs_complete H L S hc hlen ks hne hkl hasc

/-- T7.5a (structural half, no trie involved): the pre-order layout of ANY well-formed aligned recursion
tree is accepted by `verify` against the tree's own hash, with the tree's verified paths and
bisections. -/
theorem T7_5a_tree_layout_verifies (T : PTree Node VH) (hwf : T.WF) (hal : T.Aligned []) :
    verifyMulti H { paths := T.mpaths [], siblings := T.flat } (T.hash H) =
      .ok { inner := T.vpaths [] 0, bisections := T.vbis [] 0, siblings := T.flat, root := T.hash H } :=
  verifyMulti_complete H T hwf hal

/-- T7.6 **prove – bundle – verify – update, end to end.**  `H` sound, `S` canonical with `L`-bit keys.
The specified path proofs of the keys `ks` (ascending terminals) are bundled by `from_path_proofs`, the
bundle is accepted by `verify`, and for any strictly ascending ops on keys among `ks` the multi-proof
update returns the root of `kvApply S ops`. -/
theorem T7_6_multi_proof_end_to_end (hs : H.Sound) (L : Nat) (S : List (Key × VH)) (hc : Canon L 0 S)
    (hlen : ∀ kv ∈ S, kv.1.length = L) (ks : List Key) (hne : ks ≠ []) (hkl : ∀ k ∈ ks, k.length = L)
    (hasc : (ks.map (fun k => (proveSpec H L S k).terminal.path)).Pairwise (fun a b => bitsLt a b = true))
    (ops : List (Key × Option VH)) (hops : ∀ o ∈ ops, o.1 ∈ ks) (hsorted : ops.Pairwise KeyLt) :
    ∃ (mp : MultiProof Node VH) (v : VerifiedMulti Node VH),
      fromPathProofs (ks.map (proveSpec H L S)) = .ok mp ∧
      verifyMulti H mp (nodeAt H L 0 S) = .ok v ∧
      multiVerifyUpdate H L v ops = .ok (nodeAt H L 0 (kvApply S ops)) := by
  obtain ⟨mp, v, hfrom, hver, _, _, _, _, _, hscope⟩ := fromPathProofs_complete H L S hc hlen ks hne hkl hasc
  exact ⟨mp, v, hfrom, hver, multiVerifyUpdate_eq_root hs S hc hlen mp hver ops
    (fun o ho => hkl _ (hops o ho)) hsorted (fun o ho => hscope _ (hops o ho))⟩

/-! Non-vacuity of T7.5 / T7.6 on the four-key set `exS4`: the keys `010`, `011`, `110` (the last one
absent: its proof ends in the leaf `100`). -/
example : ∃ mp v, fromPathProofs ([[false, true, false], [false, true, true], [true, true, false]].map
      (proveSpec TH 3 exS4)) = .ok mp ∧ verifyMulti TH mp (nodeAt TH 3 0 exS4) = .ok v ∧
    multiVerifyUpdate TH 3 v [([false, true, true], some 7), ([true, true, false], some 8)]
      = .ok (nodeAt TH 3 0 (kvApply exS4 [([false, true, true], some 7), ([true, true, false], some 8)])) :=
  T7_6_multi_proof_end_to_end TH TH_sound 3 exS4 (by simp [exS4, Canon, side]) (by simp [exS4]) _ (by simp)
    (by decide) (by decide) _ (by decide) (by simp [KeyLt, bitsLt])

end Nomt.C07
