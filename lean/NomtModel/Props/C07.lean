import NomtModel.Core.MultiTotal
import NomtModel.Core.TermHasher
import NomtModel.Core.Complete
/-!
# C07 — Multi-proofs are equivalent to (and as sound as) the path proofs they bundle

Property theorems about the executable mirrors of `core/src/proof/multi_proof.rs`
(`Core/MultiProof.lean`; helper lemmas in `Core/MultiSound.lean`, `Core/MultiAlign.lean`).
`verifyMulti`, `findIndexFor`, `confirmValue`, … follow the Rust code loop by loop, including the
branch-free `slice::binary_search_by` of the toolchain and every panic site; they are tied to the real
code by the `core-mp` differential run.

Not proved here (held by the differential run and its oracles only):
* completeness of `findIndexFor` (a key covered by some verified path is found) — needs monotonicity of
  the comparison over `inner`;
* `multiVerifyUpdate` returns the specified root of the updated set (T8.3 for multi-proofs) and never
  reaches one of its panic sites on a verified multi-proof;
* `fromPathProofs` of ordered honest path proofs verifies (completeness).
-/
namespace Nomt.C07
open Nomt
variable {Node VH : Type} [DecidableEq Node] [DecidableEq VH] (H : Hasher Node VH)

/-- T7.2a **lookup**: an index returned by `find_index_for` denotes a verified path whose first `depth`
bits are the first `depth` bits of the key (no slice out of range on the way), and `confirm_value` /
`confirm_nonexistence` are exactly the terminal test of that path. -/
theorem T7_2a_find_index_covers (v : VerifiedMulti Node VH) (key : Key) (i : Nat)
    (h : findIndexFor v key = .ok i) :
    ∃ vp, v.inner[i]? = some vp ∧ vp.covers key ∧
      (∀ vh, confirmValue v key vh = .ok (match vp.terminal with
          | .terminator _ => false
          | .leaf k vh' => decide (k = key ∧ vh' = vh))) ∧
      confirmNonexistence v key = .ok (match vp.terminal with
          | .terminator _ => true
          | .leaf k _ => decide (k ≠ key)) := by
  obtain ⟨vp, hget, hcov⟩ := findIndexFor_ok v key i h
  refine ⟨vp, hget, hcov, ?_, ?_⟩
  · intro vh
    cases ht : vp.terminal <;>
      simp [confirmValue, h, confirmValueInner, getIdx_some _ _ _ _ hget, ht]
  · cases ht : vp.terminal <;>
      simp [confirmNonexistence, h, confirmNonexistenceInner, getIdx_some _ _ _ _ hget, ht]

/-- T7.2b **out of scope is an error, not a guess**: when `find_index_for` fails, both confirmations
fail with `KeyOutOfScope`. -/
theorem T7_2b_out_of_scope (v : VerifiedMulti Node VH) (key : Key) (vh : VH)
    (h : findIndexFor v key = .err .keyOutOfScope) :
    confirmValue v key vh = .err .keyOutOfScope ∧ confirmNonexistence v key = .err .keyOutOfScope := by
  simp [confirmValue, confirmNonexistence, h]

/-- T7.2c **the covering path is unique**: in an accepted multi-proof (any prover-supplied object, any
root) at most one verified path has the key in scope — so the index `find_index_for` returns is *the*
path for the key, and `…_with_index` can succeed for no other index. -/
theorem T7_2c_covering_path_unique (mp : MultiProof Node VH) (root : Node) (v : VerifiedMulti Node VH)
    (hv : verifyMulti H mp root = .ok v) (key : Key) (i j : Nat) (vi vj : VPath VH)
    (hi : v.inner[i]? = some vi) (hj : v.inner[j]? = some vj)
    (hci : vi.covers key) (hcj : vj.covers key) : i = j :=
  verifyMulti_cover_unique H mp root v hv key i j vi vj hi hj hci hcj

/-- T18.2 (multi-proof lookups are total): on an accepted multi-proof, for a key at least as long as
every verified depth (true for 256-bit keys: `depth ≤ |terminal path| ≤ 256`), `find_index_for`,
`confirm_value` and `confirm_nonexistence` never reach a panic site. -/
theorem T18_2_multi_lookups_total (mp : MultiProof Node VH) (root : Node) (v : VerifiedMulti Node VH)
    (hv : verifyMulti H mp root = .ok v) (key : Key) (hk : ∀ vp ∈ v.inner, vp.depth ≤ key.length) (vh : VH) :
    (findIndexFor v key).isPanic = false ∧ (confirmValue v key vh).isPanic = false ∧
    (confirmNonexistence v key).isPanic = false :=
  multi_lookups_total H mp root v hv key hk vh

/-- T7.1 **alignment**: whatever object the prover supplied and whatever the root, every path of an
accepted multi-proof was hashed to the root along the first `depth` bits of its own terminal path
(the bisection of `verify_range` never files a terminal under a foreign prefix). -/
theorem T7_1_verified_paths_aligned (mp : MultiProof Node VH) (root : Node) (v : VerifiedMulti Node VH)
    (hv : verifyMulti H mp root = .ok v) :
    ∀ vp ∈ v.inner, vp.route = vp.terminal.path.take vp.depth :=
  verifyMulti_aligned H mp root v hv

/-- T8.2a **every verified terminal is the true terminal**: if a multi-proof object verifies against the
root of `S`, then for each verified path the terminal is exactly the content of `S` below the first
`depth` bits of the terminal's path (a leaf: that single entry; a terminator: nothing). -/
theorem T8_2a_multi_terminals_true (hs : H.Sound) (L : Nat) (S : List (Key × VH)) (hc : Canon L 0 S)
    (mp : MultiProof Node VH) (v : VerifiedMulti Node VH)
    (hv : verifyMulti H mp (nodeAt H L 0 S) = .ok v) :
    ∀ vp ∈ v.inner, vp.depth ≤ L ∧ TermOK vp.terminal (restrict 0 (vp.terminal.path.take vp.depth) S) := by
  intro vp hvp
  have hal := verifyMulti_aligned H mp _ v hv vp hvp
  obtain ⟨hlen, hterm⟩ := verifyMulti_routes H hs L S hc mp v hv vp hvp
  have hal' : vp.route = vp.terminal.path.take vp.depth := hal
  rw [hal'] at hterm hlen
  refine ⟨?_, hterm⟩
  -- `depth ≤ |path|` (slice succeeded), so the take has length `depth`
  obtain ⟨_, r, hr, _, _, hinner, _⟩ := verifyMulti_ok H mp _ v hv
  have hd := verifyRange_vdepths H _ _ _ _ _ _ r hr vp (hinner ▸ hvp)
  rw [List.length_take] at hlen
  omega

/-- T8.2 **multi-proof soundness**: for every set `S` and every multi-proof object (whatever bytes the
prover supplied): if it verifies against the root of `S`, every statement it confirms — value,
different-or-absent value, non-existence, existence — is true of `S`. -/
theorem T8_2_multi_proof_sound (hs : H.Sound) (L : Nat) (S : List (Key × VH)) (hc : Canon L 0 S)
    (mp : MultiProof Node VH) (v : VerifiedMulti Node VH)
    (hv : verifyMulti H mp (nodeAt H L 0 S) = .ok v) (k : Key) (vh : VH) :
    (confirmValue v k vh = .ok true → (k, vh) ∈ S) ∧
    (confirmValue v k vh = .ok false → (k, vh) ∉ S) ∧
    (confirmNonexistence v k = .ok true → ∀ vh', (k, vh') ∉ S) ∧
    (confirmNonexistence v k = .ok false → ∃ vh', (k, vh') ∈ S) :=
  multi_confirm_sound H hs L S hc mp v hv (verifyMulti_aligned H mp _ v hv) k vh

/-- T7.3 **the bisection search is the partition point**: on a list whose predicate is monotone
(`false … false true … true`), the mirrored `binary_search_by` returns `Err(first true index)`. -/
theorem T7_3_binary_search_partition {ε α : Type} (f : α → Outcome ε Ordering) (l : List α) (g : α → Bool)
    (hf : ∀ x ∈ l, f x = .ok (if !g x then .lt else .gt))
    (hmono : ∀ (i j : Nat) (x y : α), i < j → l[i]? = some x → l[j]? = some y → g x = true → g y = true) :
    ∃ idx, binarySearchBy f l = .ok (.notFound idx) ∧ idx ≤ l.length ∧
      (∀ j x, j < idx → l[j]? = some x → g x = false) ∧
      (∀ j x, idx ≤ j → l[j]? = some x → g x = true) :=
  binarySearchBy_partition f l g hf hmono

/-! Non-vacuity (term hasher `TH`, which is `Sound`): a three-key set, the multi-proof built by
`fromPathProofs` from two specified path proofs verifies against the specified root, finds the path of
a key and confirms a true statement; a depth-mutated object is rejected with `InvalidDepth`
(before /repo commit 2b65ee4 `verify_range` sliced out of range on it and panicked). -/
example :
    let S : List (Key × Nat) := [([false, false], 7), ([false, true], 8), ([true, true], 9)]
    let p1 := proveSpec TH 2 S [false, true]
    let p2 := proveSpec TH 2 S [true, false]
    (match fromPathProofs [p1, p2] with
     | .ok mp =>
       (match verifyMulti TH mp (nodeAt TH 2 0 S) with
        | .ok v =>
          decide (findIndexFor v [false, true] = .ok 0) &&
          decide (confirmValue v [false, true] 8 = .ok true) &&
          decide (confirmNonexistence v [true, false] = .ok true) &&
          decide (confirmValue v [true, true] 9 = .ok true) &&
          decide (confirmValue v [false, false] 7 = .err .keyOutOfScope)
        | _ => false) &&
       (match verifyMulti TH { mp with paths := mp.paths.map (fun p => { p with depth := p.depth + 1 }) }
          (nodeAt TH 2 0 S) with
        | .err .invalidDepth => true
        | _ => false)
     | _ => false) = true := by decide

end Nomt.C07
