import NomtModel.Store.TraceOrderToy
import NomtModel.Store.ConcToyLog
/-!
# C04 (and C03) — from the real CONCURRENT I/O trace to the crash theorems

T4.1 / T4.2 (`Props/C04.lean`) are about SEQUENTIAL traces `pre ++ [meta write, meta fsync] ++ post` of the disk model,
in which `fsync f` makes ALL earlier effects of `f` durable, under the hypothesis `hflushed` (nothing is volatile when the
meta page is written).  The real code issues writes and fsyncs from several threads; the order monitor
(`Store/TraceOrder.lean`, run by the driver on the real Begin / End trace of every operation) uses the precise rule: an
effect is covered by an fsync of its file iff it ENDED before that fsync BEGAN and the fsync ended.

This file is the bridge:

* `Store/ConcDisk.lean` — the concurrent disk machine with exactly that rule; images = durable ⊕ ANY sub-list of the
  volatile effects (an issued effect may reach the disk at any time after its Begin, ended or not).
* T4.3 — **linearisation**: every concurrent trace has a sequential trace of the same effects (each once) and fsyncs
  that reaches the same durable disk and the same volatile effects, hence has the same crash images.
* T4.4 — **the order discipline yields the hypotheses of T4.1** for the linearisation of every prefix.
* T4.5 — **power-loss atomicity for concurrent traces**: order discipline + the content clauses of T4.1 ⇒ EVERY image
  of EVERY prefix of the concurrent execution recovers to the old or to the new state.
* T4.6 — the negative example the monitor exists for: the fsync of `ln` begins before an `ln` write has ended, the meta
  page is written: some image is neither old nor new; the discipline rejects the trace.
* T4.9 — T4.5 with the rollback log and a WAL truncation before the switch-over (the clauses of T4.2c).
* T4.7 / T4.8 (from `Store/TraceOrderLemmas.lean`, `Store/TraceOrderSim.lean`) — `checkOrder` accepting the real trace
  implies the order discipline for its abstraction; end-to-end statement.
-/
namespace Nomt.C04
open NomtDisk Nomt.Store
variable {Content MetaRec WalRec LogRec TreeAbs : Type} (P : Params Content MetaRec WalRec TreeAbs)

/-- T4.3 **linearisation of a concurrent trace**.  For every concurrent trace `ct` of Begin / End events of effects and
fsyncs (no well-formedness needed) started on the flushed disk `d0`, the sequential trace `lin d0 ct`
(i) run in the sequential model of T4.1 reaches the same durable disk and the same list of volatile effects as the
concurrent machine, (ii) therefore has exactly the same crash images, (iii) consists of `Ev.fsync` events and of the
effects begun in `ct`, each once, and (iv) the volatile effects are in Begin order (a sub-list of the effects begun).  For the Rust code: whatever interleaving of `io_uring` completions, `fsyncer` threads
and the sync thread produced the trace, its crash behaviour is that of a sequential trace of the same writes in which
an fsync that did not cover an overlapping write comes BEFORE that write. -/
theorem T4_3_linearisation (d0 : Disk Content MetaRec WalRec LogRec) (ct : List (CEv Content MetaRec WalRec LogRec)) :
    run ⟨d0, []⟩ (lin d0 ct) = ⟨(crun (cinit d0) ct).dur, (crun (cinit d0) ct).volEffs⟩ ∧
    (∀ img, IsCImage (crun (cinit d0) ct) img ↔ IsImage (run ⟨d0, []⟩ (lin d0 ct)) img) ∧
    List.Perm (effsOf (lin d0 ct)) (begun ct) ∧
    List.Sublist (crun (cinit d0) ct).volEffs (begun ct) :=
  ⟨run_lin d0 ct, isCImage_lin d0 ct, lin_perm d0 ct, by simpa [cinit, CState.volEffs] using volEffs_sublist_begun (cinit d0) ct⟩

/-- T4.3a consequently every per-effect predicate that holds of all effects begun in `ct` (such as `AllowedPre`, the
placement clause decided by the C17 monitor) holds of all events of the linearisation. -/
theorem T4_3a_linearisation_preserves_effect_clauses (A : Eff Content MetaRec WalRec LogRec → Prop)
    (d0 : Disk Content MetaRec WalRec LogRec) (ct : List (CEv Content MetaRec WalRec LogRec))
    (h : ∀ e ∈ begun ct, A e) : ∀ ev ∈ lin d0 ct, EvA A ev :=
  lin_all A d0 ct h

/-- non-vacuity of T4.3: in `CToy.good` the first fsync of `ln` overlaps the write of page 2 and covers nothing; the
linearisation of the part before the meta write puts that write after the WAL write and its fsync, and is flushed. -/
example :
    lin CToy.d0 CToy.cpre =
      [Ev.eff (.walSet (some Toy.w1)), Ev.fsync File.fWal, Ev.eff (.page File.fLn 2 7), Ev.fsync File.fLn] ∧
    (run ⟨CToy.d0, []⟩ (lin CToy.d0 CToy.cpre)).vol = [] := by
  constructor
  · simp [lin, linDRun, linDStep, flushedBy, block, CToy.cpre, crun, cstep, cinit, markEnded, takeCSync, flush,
      covered, coverable, Eff.file, CState.volEffs]
  · rw [run_lin]
    simp [CState.toExec, CState.volEffs, CToy.cpre_flushed]

/-- T4.4 **the order discipline yields the hypotheses of T4.1**.  Let the concurrent trace
`cpre ++ [Begin of the meta write] ++ crest` pass the order discipline `ordChk` (decided on the real trace by
`checkOrder`, T4.7) and the content clauses (`AllowedPre` for every effect begun before the meta write; after it
`AllowedPost`, and the WAL truncation begins only when the table as the process sees it holds every diff of the WAL).
Then `pre := lin d0 cpre` satisfies `hpre` and `hflushed` of T4.1 and reaches the durable disk of the concurrent state,
and the linearisation of EVERY prefix `cp` of the trace is — according to the phase `cp` ends in — a list of `EvPre`
events, or `pre ++ [meta write]`, or `pre ++ [meta write, meta fsync] ++ post` with `PostOK … post`: a sequential trace
accepted by T4.1. -/
theorem T4_4_order_discipline_gives_T4_1_hypotheses
    (d0 : Disk Content MetaRec WalRec LogRec)
    (cpre crest : List (CEv Content MetaRec WalRec LogRec)) (id : Nat) (m1 : MetaRec) (w1 : WalRec)
    (hord : cAll ordChk 0 (cinit d0) (cpre ++ CEv.effBegin id (.setMeta m1) :: crest))
    (hcont : cAll (contChk (AllowedPre P d0) (contPost P w1)) 0 (cinit d0)
      (cpre ++ CEv.effBegin id (.setMeta m1) :: crest)) :
    (∀ ev ∈ lin d0 cpre, EvPre P d0 ev) ∧
    (run ⟨d0, []⟩ (lin d0 cpre)).vol = [] ∧
    (run ⟨d0, []⟩ (lin d0 cpre)).dur = (crun (cinit d0) cpre).dur ∧
    ∀ cp, cp <+: cpre ++ CEv.effBegin id (.setMeta m1) :: crest →
      (phRun 0 (cinit d0) cp = 0 ∧ ∀ ev ∈ lin d0 cp, EvPre P d0 ev) ∨
      (phRun 0 (cinit d0) cp = 1 ∧ lin d0 cp = lin d0 cpre ++ [Ev.eff (.setMeta m1)]) ∨
      (phRun 0 (cinit d0) cp = 2 ∧ ∃ post,
        lin d0 cp = lin d0 cpre ++ ([Ev.eff (.setMeta m1), Ev.fsync File.fMeta] ++ post) ∧
        PostOK P w1 ⟨applyEff (run ⟨d0, []⟩ (lin d0 cpre)).dur (.setMeta m1), []⟩ post) := by
  have hacc : cAll (accChk (AllowedPre P d0) (okPost P w1)) 0 (cinit d0)
      (cpre ++ CEv.effBegin id (.setMeta m1) :: crest) :=
    cAll_mono _ _ (fun ph s ev h => acc_of_ord_cont P d0 w1 ph s ev h.1 h.2) _ _ _ (cAll_and _ _ _ _ _ hord hcont)
  obtain ⟨hpreA, hfl, hdur, hshape⟩ :=
    accepted_bridge (AllowedPre P d0) (okPost P w1) (okPost_stab P w1) d0 cpre crest id m1 hacc
  refine ⟨fun ev hev => evA_evPre P d0 ev (hpreA ev hev), hfl, hdur, ?_⟩
  intro cp hcp
  have hs := hshape cp hcp
  generalize hl : lin d0 cp = l at hs
  generalize phRun 0 (cinit d0) cp = ph at hs
  cases hs with
  | before _ h => exact Or.inl ⟨rfl, fun ev hev => evA_evPre P d0 ev (h ev hev)⟩
  | issued => exact Or.inr (Or.inl ⟨rfl, rfl⟩)
  | durable post h =>
    refine Or.inr (Or.inr ⟨rfl, post, rfl, ?_⟩)
    rw [hdur]
    exact postG_postOK P w1 post _ h

/-- T4.5 **power-loss atomicity of a sync, for the concurrent trace**.  For a concurrent trace
`cpre ++ [Begin of the meta write] ++ crest` that passes the order discipline and whose effects satisfy the content
clauses of T4.1 (hypotheses as in T4.4; `hwal`: the WAL `w1` is durable when the meta write begins; `hseq`: its sequence
number is the new meta's; `hinert`: redo is inert on the old image): EVERY image — durable part plus ANY sub-list of the
volatile effects, whether ended or not, whether covered by an in-flight fsync or not — of EVERY prefix of the concurrent
execution recovers to the old state or to the new state; and if the trace ends with the switch-over durable (phase 2,
which `checkOrder` demands of a trace that wrote the meta page), every image at its end recovers to the new state.
This is what makes the order monitor meaningful: its acceptance (T4.7) is hypothesis `hord`. -/
theorem T4_5_concurrent_powerloss_atomic
    (d0 : Disk Content MetaRec WalRec LogRec)
    (hinert : ∀ b, htView P d0 b = d0.pages File.fHt b)
    (cpre crest : List (CEv Content MetaRec WalRec LogRec)) (id : Nat) (m1 : MetaRec) (w1 : WalRec)
    (hord : cAll ordChk 0 (cinit d0) (cpre ++ CEv.effBegin id (.setMeta m1) :: crest))
    (hcont : cAll (contChk (AllowedPre P d0) (contPost P w1)) 0 (cinit d0)
      (cpre ++ CEv.effBegin id (.setMeta m1) :: crest))
    (hwal : (crun (cinit d0) cpre).dur.wal = some w1)
    (hseq : P.walSeqn w1 = P.seqn m1) :
    (∀ cp, cp <+: cpre ++ CEv.effBegin id (.setMeta m1) :: crest →
       ∀ img, IsCImage (crun (cinit d0) cp) img →
         absOf P img = absOf P d0 ∨ absOf P img = absNew P (crun (cinit d0) cpre).dur m1 w1) ∧
    (phRun 0 (cinit d0) (cpre ++ CEv.effBegin id (.setMeta m1) :: crest) = 2 →
       ∀ img, IsCImage (crun (cinit d0) (cpre ++ CEv.effBegin id (.setMeta m1) :: crest)) img →
         absOf P img = absNew P (crun (cinit d0) cpre).dur m1 w1) :=
  conc_sync_crash_atomic P d0 hinert cpre crest id m1 w1 hord hcont hwal hseq

/-- non-vacuity of T4.5: `CToy.good` — three threads; the fsync of `ln` by `t3` begins while the write of the new root
page is in flight and therefore covers nothing, `ln` is fsynced again before the meta write — satisfies every
hypothesis; all images of all its prefixes are old or new, at its end they are new, and old ≠ new. -/
example :
    (∀ cp, cp <+: CToy.good → ∀ img, IsCImage (crun (cinit CToy.d0) cp) img →
       absOf Toy.P img = absOf Toy.P CToy.d0 ∨ absOf Toy.P img = CToy.newAbs) ∧
    (∀ img, IsCImage (crun (cinit CToy.d0) CToy.good) img → absOf Toy.P img = CToy.newAbs) ∧
    absOf Toy.P CToy.d0 ≠ CToy.newAbs :=
  have h := T4_5_concurrent_powerloss_atomic Toy.P CToy.d0 CToy.hinert CToy.cpre CToy.crest 10 Toy.m1 Toy.w1
    CToy.good_ord CToy.good_cont CToy.hwal Toy.hseq
  ⟨h.1, h.2 CToy.good_phase, CToy.old_ne_new⟩

/-- non-vacuity of T4.3a / T4.4 on `CToy.good`: the linearisation of the part before the meta write consists of `EvPre`
events, is flushed, and the linearisation of the whole trace is `pre ++ [meta write, meta fsync] ++ post` with `PostOK`. -/
example :
    (∀ ev ∈ lin CToy.d0 CToy.cpre, EvPre Toy.P CToy.d0 ev) ∧ (run ⟨CToy.d0, []⟩ (lin CToy.d0 CToy.cpre)).vol = [] ∧
    ∃ post, lin CToy.d0 CToy.good = lin CToy.d0 CToy.cpre ++ ([Ev.eff (.setMeta Toy.m1), Ev.fsync File.fMeta] ++ post) ∧
      PostOK Toy.P Toy.w1 ⟨applyEff (run ⟨CToy.d0, []⟩ (lin CToy.d0 CToy.cpre)).dur (.setMeta Toy.m1), []⟩ post := by
  obtain ⟨h1, h2, _, h4⟩ := T4_4_order_discipline_gives_T4_1_hypotheses Toy.P CToy.d0 CToy.cpre CToy.crest 10 Toy.m1
    Toy.w1 CToy.good_ord CToy.good_cont
  refine ⟨h1, h2, ?_⟩
  rcases h4 CToy.good (List.prefix_refl _) with h | h | h
  · have h1 := h.1; rw [CToy.good_phase] at h1; cases h1
  · have h1 := h.1; rw [CToy.good_phase] at h1; cases h1
  · exact h.2

/-- T4.6 **what the order monitor exists for**: in `CToy.bad` the fsync of `ln` BEGINS before the write of the new root
page has ENDED (so it does not cover it) and the meta page is written without a further fsync of `ln`.  Every effect
satisfies its content clause, every file was "fsynced after it was written" in Begin order — yet there is a crash image
(new meta page on disk, new root page lost) that recovers to NEITHER the old NOR the new state.  The order discipline
rejects the trace (at the Begin of the meta write: an effect is volatile). -/
theorem T4_6_overlapped_fsync_breaks_atomicity :
    (∃ img, IsCImage (crun (cinit CToy.d0) CToy.bad) img ∧
      absOf Toy.P img ≠ absOf Toy.P CToy.d0 ∧ absOf Toy.P img ≠ CToy.newAbs) ∧
    ¬ cAll ordChk 0 (cinit CToy.d0) CToy.bad :=
  ⟨⟨CToy.badImg, CToy.bad_image, CToy.bad_image_neither⟩, CToy.bad_rejected⟩

/-! ## With the rollback log and the real shape of `wal.write` -/

/-- T4.9 **power-loss atomicity of a sync for the concurrent trace, including the rollback log** — T4.5 with the clauses
of T4.2c instead of T4.1: before the meta write also a WAL truncation (`AllowedPreL'`: the real `wal.write` first sets
the length of the WAL file to 0, trace line `SetLen wal 0 wal.write.set_len`) and appends to the rollback log beyond the
old live range; after it also pruning of the rollback log outside the new live range.  EVERY image of EVERY prefix of the
concurrent execution recovers — tree, hash-table view and live rollback records — to exactly the old or exactly the new
state, and to the new state once the switch-over is durable at the end of the trace. -/
theorem T4_9_concurrent_powerloss_atomic_with_rollback_log (L : LogParams MetaRec LogRec)
    (d0 : Disk Content MetaRec WalRec LogRec)
    (hinert : ∀ b, htView P d0 b = d0.pages File.fHt b)
    (cpre crest : List (CEv Content MetaRec WalRec LogRec)) (id : Nat) (m1 : MetaRec) (w1 : WalRec)
    (hord : cAll ordChk 0 (cinit d0) (cpre ++ CEv.effBegin id (.setMeta m1) :: crest))
    (hcont : cAll (contChk (AllowedPreL' P L d0) (contPostL P L (crun (cinit d0) cpre).dur m1 w1)) 0 (cinit d0)
      (cpre ++ CEv.effBegin id (.setMeta m1) :: crest))
    (hwal : (crun (cinit d0) cpre).dur.wal = some w1)
    (hseq : P.walSeqn w1 = P.seqn m1) :
    (∀ cp, cp <+: cpre ++ CEv.effBegin id (.setMeta m1) :: crest →
       ∀ img, IsCImage (crun (cinit d0) cp) img →
         absOfL P L img = absOfL P L d0 ∨
         absOfL P L img = (absNew P (crun (cinit d0) cpre).dur m1 w1, absLog L m1 (crun (cinit d0) cpre).dur.log)) ∧
    (phRun 0 (cinit d0) (cpre ++ CEv.effBegin id (.setMeta m1) :: crest) = 2 →
       ∀ img, IsCImage (crun (cinit d0) (cpre ++ CEv.effBegin id (.setMeta m1) :: crest)) img →
         absOfL P L img = (absNew P (crun (cinit d0) cpre).dur m1 w1, absLog L m1 (crun (cinit d0) cpre).dur.log)) :=
  conc_sync_crash_atomic_log P L d0 hinert cpre crest id m1 w1 hord hcont hwal hseq

/-- non-vacuity of T4.9: `CToy.goodL` has the shape of a real commit trace — the rollback record is appended and
fsynced, `wal.write` (thread `t12`) sets the length of the WAL to 0 and appends while a worker's write of the new root
page is in flight, `wal` and `ln` are fsynced, then the meta write and its fsync, the lagging rollback record is pruned,
the table page written and fsynced, the WAL truncated.  All images of all prefixes are old or new, at the end new, and
old ≠ new. -/
example :
    (∀ cp, cp <+: CToy.goodL → ∀ img, IsCImage (crun (cinit CToy.d0L) cp) img →
       absOfL Toy.P Toy.L img = absOfL Toy.P Toy.L CToy.d0L ∨ absOfL Toy.P Toy.L img = CToy.newAbsL) ∧
    (∀ img, IsCImage (crun (cinit CToy.d0L) CToy.goodL) img → absOfL Toy.P Toy.L img = CToy.newAbsL) ∧
    absOfL Toy.P Toy.L CToy.d0L ≠ CToy.newAbsL :=
  have h := T4_9_concurrent_powerloss_atomic_with_rollback_log Toy.P Toy.L CToy.d0L CToy.hinertL CToy.cpreL CToy.crestL
    14 Toy.m1 Toy.w1 CToy.goodL_ord CToy.goodL_cont CToy.hwalL Toy.hseq
  ⟨h.1, h.2 CToy.goodL_phase, CToy.oldL_ne_newL⟩

/-- T4.9b **… started in a state with pending effects**.  An operation does not start on a flushed disk: every sync
leaves the truncation of its WAL un-synced (`bitbox` calls `truncate_wal(.., false)`; the monitor reports
`left_volatile=1`).  `s0` is the concurrent state the operation starts in: `s0.dur` is the durable disk — the OLD state —
and the pending effects `s0.volEffs` satisfy `AllowedPreL'` (WAL truncations do).  Same conclusion as T4.9, for every
image of every prefix of the concurrent execution from `s0`; the pending effects are covered by the discipline like the
operation's own (nothing may be volatile when the meta write begins). -/
theorem T4_9b_concurrent_powerloss_atomic_pending_effects (L : LogParams MetaRec LogRec)
    (s0 : CState Content MetaRec WalRec LogRec)
    (hvol0 : ∀ e ∈ s0.volEffs, AllowedPreL' P L s0.dur e)
    (hinert : ∀ b, htView P s0.dur b = s0.dur.pages File.fHt b)
    (cpre crest : List (CEv Content MetaRec WalRec LogRec)) (id : Nat) (m1 : MetaRec) (w1 : WalRec)
    (hord : cAll ordChk 0 s0 (cpre ++ CEv.effBegin id (.setMeta m1) :: crest))
    (hcont : cAll (contChk (AllowedPreL' P L s0.dur) (contPostL P L (crun s0 cpre).dur m1 w1)) 0 s0
      (cpre ++ CEv.effBegin id (.setMeta m1) :: crest))
    (hwal : (crun s0 cpre).dur.wal = some w1)
    (hseq : P.walSeqn w1 = P.seqn m1) :
    (∀ cp, cp <+: cpre ++ CEv.effBegin id (.setMeta m1) :: crest →
       ∀ img, IsCImage (crun s0 cp) img →
         absOfL P L img = absOfL P L s0.dur ∨
         absOfL P L img = (absNew P (crun s0 cpre).dur m1 w1, absLog L m1 (crun s0 cpre).dur.log)) ∧
    (phRun 0 s0 (cpre ++ CEv.effBegin id (.setMeta m1) :: crest) = 2 →
       ∀ img, IsCImage (crun s0 (cpre ++ CEv.effBegin id (.setMeta m1) :: crest)) img →
         absOfL P L img = (absNew P (crun s0 cpre).dur m1 w1, absLog L m1 (crun s0 cpre).dur.log)) :=
  conc_sync_crash_atomic_log_from P L s0 hvol0 hinert cpre crest id m1 w1 hord hcont hwal hseq

/-- non-vacuity of T4.9b: `CToy.goodL` started in `CToy.s0P` — the previous (applied) WAL is still on disk, its
truncation (effect 100) is pending; the fsync of `wal` by `t12` covers it together with the new WAL. -/
example :
    (∀ cp, cp <+: CToy.goodL → ∀ img, IsCImage (crun CToy.s0P cp) img →
       absOfL Toy.P Toy.L img = absOfL Toy.P Toy.L CToy.s0P.dur ∨ absOfL Toy.P Toy.L img = CToy.newAbsP) ∧
    (∀ img, IsCImage (crun CToy.s0P CToy.goodL) img → absOfL Toy.P Toy.L img = CToy.newAbsP) ∧
    absOfL Toy.P Toy.L CToy.s0P.dur ≠ CToy.newAbsP :=
  have h := T4_9b_concurrent_powerloss_atomic_pending_effects Toy.P Toy.L CToy.s0P CToy.hvol0P CToy.hinertP CToy.cpreL
    CToy.crestL 14 Toy.m1 Toy.w1 CToy.goodP_ord CToy.goodP_cont CToy.hwalP Toy.hseq
  ⟨h.1, h.2 CToy.goodP_phase, CToy.oldP_ne_newP⟩

/-! ## The monitor on the real trace -/

/-- T4.7 **acceptance by the order monitor ⇒ the order discipline**.  If `checkOrder` (run by the driver on the real
Begin / End trace of every operation, several threads) accepts the trace `tr`, then for EVERY choice `C` of the contents
the trace does not carry and every start disk, the abstracted concurrent trace `absTrace C {} 0 tr` — page writes of
`ln` / `bbn` / `ht`, WAL writes and truncations, the meta write, the fsyncs of these files, each End line paired with
the effect the monitor pairs it with — passes the order discipline `ordChk` (hypothesis `hord` of T4.4 / T4.5); it ends
in the monitor's phase, which is not 1: an operation that wrote the meta page returns only with it durable; and the
effects left volatile are the ones the monitor reports as pending. -/
theorem T4_7_monitor_implies_order_discipline (C : Contents Content MetaRec WalRec)
    (tr : List IoEv2) (st : OrderSt) (h : checkOrder tr = .ok st) (d0 : Disk Content MetaRec WalRec LogRec) :
    cAll ordChk 0 (cinit d0) (absTrace C {} 0 tr) ∧
    phRun 0 (cinit d0) (absTrace (LogRec := LogRec) C {} 0 tr) = st.phase ∧ st.phase ≠ 1 ∧
    (crun (cinit d0) (absTrace C {} 0 tr)).vol = st.pend.filterMap (absP C) :=
  checkOrder_ok_ordChk C tr st h d0

/-- T4.7b **acceptance by the order monitor ⇒ `hflushed`**: if `checkOrder` accepts the real trace and `cpre` is the part
of its abstraction before the Begin of the meta write, then the concurrent state when the meta write begins has NO
volatile effect, and the linearisation of `cpre` — the `pre` of T4.1 / T4.2 — satisfies their hypothesis `hflushed`
and reaches the durable disk of the concurrent state. -/
theorem T4_7b_monitor_implies_hflushed (C : Contents Content MetaRec WalRec)
    (tr : List IoEv2) (st : OrderSt) (h : checkOrder tr = .ok st) (d0 : Disk Content MetaRec WalRec LogRec)
    (cpre crest : List (CEv Content MetaRec WalRec LogRec)) (id : Nat) (m1 : MetaRec)
    (hsplit : absTrace C {} 0 tr = cpre ++ CEv.effBegin id (.setMeta m1) :: crest) :
    (crun (cinit d0) cpre).vol = [] ∧
    (run ⟨d0, []⟩ (lin d0 cpre)).vol = [] ∧
    (run ⟨d0, []⟩ (lin d0 cpre)).dur = (crun (cinit d0) cpre).dur := by
  have hord := (checkOrder_ok_ordChk C tr st h d0).1
  rw [hsplit, cAll_append] at hord
  have hv : (crun (cinit d0) cpre).vol = [] := by
    have := hord.2.1
    simp only [ordChk, Eff.isMeta, if_true] at this
    exact this.2
  refine ⟨hv, ?_, ?_⟩
  · rw [run_lin]; simp [CState.toExec, CState.volEffs, hv]
  · rw [run_lin]; rfl

/-- T4.7c **… started with pending effects**: the driver runs `checkOrder` on every operation's trace from the empty
monitor state; an operation really starts with what the previous one left volatile.  The simulation holds from any such
start: if the monitor's scan started with the pending list `pend0` (ids below `nid`, distinct) accepts the trace, the
abstracted concurrent trace passes the order discipline from the concurrent state in which the abstraction of `pend0` is
volatile (hypothesis `hord` of T4.9b). -/
theorem T4_7c_monitor_implies_order_discipline_pending_effects (C : Contents Content MetaRec WalRec)
    (pend0 : List Pend) (nid : Nat) (hlt : ∀ p ∈ pend0, p.id < nid) (hnd : (pend0.map (·.id)).Nodup)
    (tr : List IoEv2) (st : OrderSt) (h : orderRun { pend := pend0 } nid tr = .ok st)
    (d0 : Disk Content MetaRec WalRec LogRec) :
    cAll ordChk 0 ⟨d0, pend0.filterMap (absP C), []⟩ (absTrace C { pend := pend0 } nid tr) ∧
    phRun 0 ⟨d0, pend0.filterMap (absP (LogRec := LogRec) C), []⟩ (absTrace C { pend := pend0 } nid tr) = st.phase ∧
    (crun ⟨d0, pend0.filterMap (absP C), []⟩ (absTrace C { pend := pend0 } nid tr)).vol =
      st.pend.filterMap (absP C) :=
  orderRun_ok_ordChk_from C pend0 nid hlt hnd tr st h d0

/-- non-vacuity of T4.7c: started with the pending WAL truncation of the previous sync, an fsync of `wal` covers it. -/
example :
    ∃ st, orderRun { pend := [OToy.pendingTrunc] } 1
      [OToy.ln true "Fsync" "wal" 0 "t12", OToy.ln false "Fsync" "wal" 0 "t12"] = .ok st ∧ st.pend.length = 0 := by
  refine ⟨_, rfl, ?_⟩
  decide

/-- T4.7a the same for the recovery performed by `open` (`checkRecoveryOrder`, C03): the abstracted trace passes the
discipline of the post-switch-over phase — hash-table pages may be rewritten, the WAL is truncated only when no
hash-table write is volatile, the meta page and the tree files are not written. -/
theorem T4_7a_recovery_monitor_implies_order_discipline (C : Contents Content MetaRec WalRec)
    (tr : List IoEv2) (st : OrderSt) (h : checkRecoveryOrder tr = .ok st) (d : Disk Content MetaRec WalRec LogRec) :
    cAll ordChk 2 (cinit d) (absTrace C { phase := 2, walWritten := true } 0 tr) ∧
    (crun (cinit d) (absTrace C { phase := 2, walWritten := true } 0 tr)).vol = st.pend.filterMap (absP C) :=
  checkRecoveryOrder_ok_ordChk C tr st h d

/-- T4.8 **the monitor's verdict, end to end**: the real trace `tr` is accepted by `checkOrder`; its abstraction writes
the meta page (`hsplit`); the abstracted effects satisfy the content clauses of T4.1 (`hcont`; the placement half of
`AllowedPre` is what the C17 monitor decides, T17.4), the WAL is durable at the switch-over (`hwal`).  Then every crash
image of every prefix of the concurrent execution recovers to the old or to the new state, and every crash image once
the operation has returned recovers to the new state. -/
theorem T4_8_accepted_real_trace_powerloss_atomic (C : Contents Content MetaRec WalRec)
    (tr : List IoEv2) (st : OrderSt) (hacc : checkOrder tr = .ok st)
    (d0 : Disk Content MetaRec WalRec LogRec)
    (hinert : ∀ b, htView P d0 b = d0.pages File.fHt b)
    (cpre crest : List (CEv Content MetaRec WalRec LogRec)) (id : Nat) (m1 : MetaRec) (w1 : WalRec)
    (hsplit : absTrace C {} 0 tr = cpre ++ CEv.effBegin id (.setMeta m1) :: crest)
    (hcont : cAll (contChk (AllowedPre P d0) (contPost P w1)) 0 (cinit d0) (absTrace C {} 0 tr))
    (hwal : (crun (cinit d0) cpre).dur.wal = some w1)
    (hseq : P.walSeqn w1 = P.seqn m1) :
    (∀ cp, cp <+: absTrace C {} 0 tr → ∀ img, IsCImage (crun (cinit d0) cp) img →
       absOf P img = absOf P d0 ∨ absOf P img = absNew P (crun (cinit d0) cpre).dur m1 w1) ∧
    (∀ img, IsCImage (crun (cinit d0) (absTrace C {} 0 tr)) img →
       absOf P img = absNew P (crun (cinit d0) cpre).dur m1 w1) := by
  obtain ⟨hord, hph, hne1, _⟩ := checkOrder_ok_ordChk C tr st hacc d0
  rw [hsplit] at hord hcont hph
  have h45 := T4_5_concurrent_powerloss_atomic P d0 hinert cpre crest id m1 w1 hord hcont hwal hseq
  have hph2 : phRun 0 (cinit d0) (cpre ++ CEv.effBegin id (.setMeta m1) :: crest) = 2 := by
    -- the trace wrote the meta page, so it does not end in phase 0; the monitor excludes phase 1
    have h1 := phRun_pos_of_meta cpre crest id m1 0 (cinit d0)
    have h2 := phRun_le_two 0 (cinit d0) (cpre ++ CEv.effBegin id (.setMeta m1) :: crest) (by omega)
    rw [hph] at h1 h2 ⊢
    omega
  rw [hsplit]
  exact ⟨h45.1, h45.2 hph2⟩

/-- T4.8b the same with the rollback log and the real shape of `wal.write` (clauses of T4.2c, as in T4.9). -/
theorem T4_8b_accepted_real_trace_powerloss_atomic_with_rollback_log (L : LogParams MetaRec LogRec)
    (C : Contents Content MetaRec WalRec)
    (tr : List IoEv2) (st : OrderSt) (hacc : checkOrder tr = .ok st)
    (d0 : Disk Content MetaRec WalRec LogRec)
    (hinert : ∀ b, htView P d0 b = d0.pages File.fHt b)
    (cpre crest : List (CEv Content MetaRec WalRec LogRec)) (id : Nat) (m1 : MetaRec) (w1 : WalRec)
    (hsplit : absTrace C {} 0 tr = cpre ++ CEv.effBegin id (.setMeta m1) :: crest)
    (hcont : cAll (contChk (AllowedPreL' P L d0) (contPostL P L (crun (cinit d0) cpre).dur m1 w1)) 0 (cinit d0)
      (absTrace C {} 0 tr))
    (hwal : (crun (cinit d0) cpre).dur.wal = some w1)
    (hseq : P.walSeqn w1 = P.seqn m1) :
    (∀ cp, cp <+: absTrace C {} 0 tr → ∀ img, IsCImage (crun (cinit d0) cp) img →
       absOfL P L img = absOfL P L d0 ∨
       absOfL P L img = (absNew P (crun (cinit d0) cpre).dur m1 w1, absLog L m1 (crun (cinit d0) cpre).dur.log)) ∧
    (∀ img, IsCImage (crun (cinit d0) (absTrace C {} 0 tr)) img →
       absOfL P L img = (absNew P (crun (cinit d0) cpre).dur m1 w1, absLog L m1 (crun (cinit d0) cpre).dur.log)) := by
  obtain ⟨hord, hph, hne1, _⟩ := checkOrder_ok_ordChk C tr st hacc d0
  rw [hsplit] at hord hcont hph
  have h49 := T4_9_concurrent_powerloss_atomic_with_rollback_log P L d0 hinert cpre crest id m1 w1 hord hcont hwal hseq
  have hph2 : phRun 0 (cinit d0) (cpre ++ CEv.effBegin id (.setMeta m1) :: crest) = 2 := by
    have h1 := phRun_pos_of_meta cpre crest id m1 0 (cinit d0)
    have h2 := phRun_le_two 0 (cinit d0) (cpre ++ CEv.effBegin id (.setMeta m1) :: crest) (by omega)
    rw [hph] at h1 h2 ⊢
    omega
  rw [hsplit]
  exact ⟨h49.1, h49.2 hph2⟩

/-- non-vacuity of T4.7 / T4.8: `OToy.goodLines` is a trace in the format of the real hook (three threads, an fsync of
`ln` issued while a write of `ln` is in flight and repeated afterwards); `checkOrder` accepts it, its abstraction is
`CToy.good`, and T4.8 applies: all crash images of all prefixes are old or new, at the end new. -/
example :
    (checkOrder OToy.goodLines).toBool = true ∧
    absTrace (LogRec := Nat) OToy.C {} 0 OToy.goodLines = CToy.good ∧
    (∀ cp, cp <+: absTrace (LogRec := Nat) OToy.C {} 0 OToy.goodLines → ∀ img,
      IsCImage (crun (cinit CToy.d0) cp) img →
        absOf Toy.P img = absOf Toy.P CToy.d0 ∨ absOf Toy.P img = CToy.newAbs) := by
  refine ⟨OToy.good_accepted, OToy.good_abs, ?_⟩
  cases hc : checkOrder OToy.goodLines with
  | error msg => have := OToy.good_accepted; rw [hc] at this; cases this
  | ok st =>
    have hcont : cAll (contChk (AllowedPre Toy.P CToy.d0) (contPost Toy.P Toy.w1)) 0 (cinit CToy.d0)
        (absTrace (LogRec := Nat) OToy.C {} 0 OToy.goodLines) := by rw [OToy.good_abs]; exact CToy.good_cont
    exact (T4_8_accepted_real_trace_powerloss_atomic Toy.P OToy.C OToy.goodLines st hc CToy.d0 CToy.hinert
      CToy.cpre CToy.crest 10 Toy.m1 Toy.w1 OToy.good_abs hcont CToy.hwal Toy.hseq).1

/-- non-vacuity of T4.7b / T4.8b on the same rendering: when the meta write of `OToy.goodLines` begins nothing is
volatile, and with the clauses of T4.2c (which the clauses of T4.1 imply, `contChk_weaken`) all crash images of all
prefixes recover — rollback log included — to the old or the new state. -/
example :
    (crun (cinit CToy.d0) CToy.cpre).vol = [] ∧
    (∀ cp, cp <+: absTrace (LogRec := Nat) OToy.C {} 0 OToy.goodLines → ∀ img,
      IsCImage (crun (cinit CToy.d0) cp) img →
        absOfL Toy.P Toy.L img = absOfL Toy.P Toy.L CToy.d0 ∨
        absOfL Toy.P Toy.L img = (absNew Toy.P (crun (cinit CToy.d0) CToy.cpre).dur Toy.m1 Toy.w1,
          absLog Toy.L Toy.m1 (crun (cinit CToy.d0) CToy.cpre).dur.log)) := by
  cases hc : checkOrder OToy.goodLines with
  | error msg => have := OToy.good_accepted; rw [hc] at this; cases this
  | ok st =>
    refine ⟨(T4_7b_monitor_implies_hflushed OToy.C OToy.goodLines st hc CToy.d0 CToy.cpre CToy.crest 10 Toy.m1
      OToy.good_abs).1, ?_⟩
    have hcont : cAll (contChk (AllowedPreL' Toy.P Toy.L CToy.d0)
        (contPostL Toy.P Toy.L (crun (cinit CToy.d0) CToy.cpre).dur Toy.m1 Toy.w1)) 0 (cinit CToy.d0)
        (absTrace (LogRec := Nat) OToy.C {} 0 OToy.goodLines) := by
      rw [OToy.good_abs]
      exact cAll_mono _ _ (fun ph s ev h => contChk_weaken Toy.P Toy.L CToy.d0 _ Toy.m1 Toy.w1 ph s ev h) _ _ _
        CToy.good_cont
    exact (T4_8b_accepted_real_trace_powerloss_atomic_with_rollback_log Toy.P Toy.L OToy.C OToy.goodLines st hc CToy.d0
      CToy.hinert CToy.cpre CToy.crest 10 Toy.m1 Toy.w1 OToy.good_abs hcont CToy.hwal Toy.hseq).1

/-- … and `OToy.badLines`, the rendering of the trace of T4.6 (the second fsync of `ln` is missing), is REJECTED by
`checkOrder`; its abstraction up to the rejected line is the prefix `CToy.badCut` of `CToy.bad`, which violates the
order discipline and already has the crash image that is neither old nor new. -/
example :
    (checkOrder OToy.badLines).toBool = false ∧
    absTrace (LogRec := Nat) OToy.C {} 0 OToy.badLines = CToy.badCut ∧ CToy.badCut <+: CToy.bad ∧
    ¬ cAll ordChk 0 (cinit CToy.d0) CToy.badCut ∧
    (∃ img, IsCImage (crun (cinit CToy.d0) CToy.badCut) img ∧
      absOf Toy.P img ≠ absOf Toy.P CToy.d0 ∧ absOf Toy.P img ≠ CToy.newAbs) :=
  ⟨OToy.bad_rejected, OToy.bad_abs, CToy.badCut_prefix, CToy.badCut_rejected,
    ⟨CToy.badImg, CToy.badCut_image, CToy.bad_image_neither⟩⟩

end Nomt.C04
