import NomtModel.Store.OpenPathLemmas
import NomtModel.Core.TermHasher
/-!
# C10 — the OPEN path: `Nomt::open`, `compute_root_node`, `Store::open`, `Meta`, `ht_file`, `Options`

Mirror: `Store/OpenPath.lean` (every panic site a value; the parts modelled elsewhere — `Tree::open`, `bitbox::recover`,
`Rollback::read`, `load_page` — are parameters).  Tie: the `openpath` differential (hook H23
`nomt::verif_api::openpath`, `harness/src/openpath.rs`, driver mode `openpath`).
-/
namespace Nomt.C10
open Nomt Nomt.Store Nomt.Ovl Nomt.OpenPath

variable {Node VH B : Type} [DecidableEq Node]

/-- **T10_root_at_open**: let the B-tree be well formed (`TreeOK`: leaves in order, first separator the all-zero key,
256-bit keys) with content `S` (inline values and overflow cells), and let the root page obey `RootInv` — with two or
more items it is stored and its two top slots are `nodeAt` of the two halves (what `checkMerkle` checks on every accepted
image, `T10_root_invariant_is_monitor_clause`); with fewer it is absent or holds two terminators.  Then for a sound
hasher the mirrored `compute_root_node` reaches no panic site and returns `nodeAt` of the committed set, where the value
hash of an inline value is `hash_value(bytes)` and that of an overflow value is the hash STORED in its cell.  The three
cases — empty store, one item (inline or overflow), internal root — are the corollaries below. -/
theorem T10_root_at_open (H : Hasher Node VH) (hs : H.Sound) (hv : B → VH) (rootPage : Option (Node × Node))
    (leaves : List (Leaf (Stored VH B))) (ht : TreeOK leaves) (hr : RootInv H (trieSet hv (flat leaves)) rootPage) :
    computeRootNode {} H hv rootPage leaves = .ok (nodeAt H 256 0 (trieSet hv (flat leaves))) :=
  computeRootNode_spec H hs hv rootPage leaves ht hr

/-- case 1: the empty store (no root page, or a root page of two terminators) has the terminator as root -/
theorem T10_root_at_open_empty (H : Hasher Node VH) (hs : H.Sound) (hv : B → VH) (rootPage : Option (Node × Node))
    (hr : rootPage = none ∨ rootPage = some (H.term, H.term)) :
    computeRootNode {} H hv rootPage ([] : List (Leaf (Stored VH B))) = .ok H.term := by
  have ht : TreeOK ([] : List (Leaf (Stored VH B))) := ⟨trivial, by simp, by simp [flat]⟩
  have := computeRootNode_spec H hs hv rootPage [] ht ⟨by simp [trieSet, flat], fun _ => hr⟩
  simpa [trieSet, flat, nodeAt] using this

/-- case 2: ONE item — inline: `hash_leaf(key, hash_value(bytes))`; overflow: `hash_leaf(key, stored hash)`, so the root
is the canonical one iff the cell's stored hash is the hash of the chained value (`wfImage` checks exactly that) -/
theorem T10_root_at_open_single (H : Hasher Node VH) (hs : H.Sound) (hv : B → VH) (k : Key) (hk : k.length = 256)
    (v : Stored VH B) (rootPage : Option (Node × Node)) (hr : rootPage = none ∨ rootPage = some (H.term, H.term)) :
    computeRootNode {} H hv rootPage [{ sep := zeroKey, entries := [(k, v)] }] = .ok (H.leaf k (vhOf hv v)) := by
  have ht : TreeOK [({ sep := zeroKey, entries := [(k, v)] } : Leaf (Stored VH B))] := by
    refine ⟨⟨List.pairwise_singleton _ _, ?_, by simp, trivial⟩, ?_, ?_⟩
    · intro e he
      simp only [List.mem_singleton] at he
      subst he
      exact bitsLt_replicate_false k 256 (by omega)
    · intro l hl
      simp only [List.head?_cons, Option.mem_def, Option.some.injEq] at hl
      subst hl
      exact bitsLt_replicate_false zeroKey 256 (by rw [zeroKey, List.length_replicate]; exact Nat.le_refl _)
    · intro e he
      simp only [flat, List.flatMap_cons, List.flatMap_nil, List.append_nil, List.mem_singleton] at he
      subst he; exact hk
  have := computeRootNode_spec H hs hv rootPage _ ht ⟨by simp [trieSet, flat], fun _ => hr⟩
  simpa [trieSet, flat, nodeAt] using this

/-- `RootInv` is the clause of the image monitor for the root page: `checkPage` compares slot 0 / slot 1 of the stored
root page with exactly these two reference nodes (and `walkPages` demands the page iff there are two or more keys) -/
theorem T10_root_invariant_is_monitor_clause (s : List KVH) :
    (0, nodeAt blakeHasher 255 1 (side 0 false s)) ∈ pageChecks [] s ∧
    (1, nodeAt blakeHasher 255 1 (side 0 true s)) ∈ pageChecks [] s :=
  rootInv_is_monitor_clause s

/-! ### counterexamples (free hasher `TH`, 256-bit keys) -/

def k10 : Key := true :: false :: List.replicate 254 false
def k11 : Key := true :: true :: List.replicate 254 false
/-- two keys, both in the RIGHT half of the trie -/
def twoRight : List (Leaf (Stored Nat Nat)) :=
  [{ sep := zeroKey, entries := [(k10, .inline 5), (k11, .overflow 7 1000)] }]
def twoRightSet : KVL Nat := trieSet id (flat twoRight)
def twoRightPage : Option (T × T) :=
  some (nodeAt TH 255 1 (side 0 false twoRightSet), nodeAt TH 255 1 (side 0 true twoRightSet))

/-- **T10_root_left_only_counterexample**: the variant that tests only the LEFT slot (`if left != TERMINATOR`) is wrong
on a store whose keys all start with bit 1: the left slot is a terminator, the variant falls through to the B-tree and
answers the leaf hash of the first item, while the code (both slots tested) answers the reference root -/
theorem T10_root_left_only_counterexample :
    computeRootNode {} TH id twoRightPage twoRight = .ok (nodeAt TH 256 0 twoRightSet) ∧
    computeRootNode { leftOnly := true } TH id twoRightPage twoRight = .ok (TH.leaf k10 5) ∧
    TH.leaf k10 5 ≠ nodeAt TH 256 0 twoRightSet := by
  decide +kernel

/-- **T10_root_missing_page_counterexample** (the invariant is needed, and the other tempting variant is wrong too): if
the root page is MISSING although two items are stored (a table opened with a wrong seed, a lost page), the code hashes
the first item and reports a root that is not the reference root; and the variant "a missing root page means an empty
store" is wrong on a ONE-item store, whose root page is legitimately absent -/
theorem T10_root_missing_page_counterexample :
    computeRootNode {} TH id none twoRight = .ok (TH.leaf k10 5) ∧
    TH.leaf k10 5 ≠ nodeAt TH 256 0 twoRightSet ∧
    computeRootNode (B := Nat) { missingMeansEmpty := true } TH id none [{ sep := zeroKey, entries := [(k10, .inline 5)] }] =
      .ok TH.term ∧
    computeRootNode (B := Nat) {} TH id none [{ sep := zeroKey, entries := [(k10, .inline 5)] }] = .ok (TH.leaf k10 5) := by
  decide +kernel

/-! ### `Store::open` reads its parameters from the manifest -/

variable {Tree Log : Type}

/-- **T10_open_uses_manifest**: on an existing directory whose lock is free, whenever `Store::open` succeeds — for
EVERY `Options` — the manifest `m` it read validates, and the opened store's sync sequence number, bucket count and
seed (both the ones the table is probed with and the ones `Sync` will write into the next manifest), the frontiers and
free-list heads handed to `Tree::open`, and the live range handed to `Rollback::read` are `m`'s; of `Options` only
`rollback` (whether the log is opened at all), `max_rollback_log_len` and `panic_on_sync` get through -/
theorem T10_open_uses_manifest (dbg : Bool) (P : Parts Tree Log) (o : Options) (d : Dir) (hp : d.present = true)
    (hne : d.files.isEmpty = false) (hl : d.lockedByOther = false) (r : Opened Tree Log)
    (h : (storeOpen {} dbg P o d).1 = .ok r) :
    ∃ metaF m, d.get .manifest = some metaF ∧ metaRead metaF = .ok m ∧ validate m = .ok () ∧
      r.syncSeqn = m.syncSeqn ∧ r.syncNumPages = m.bitboxNumPages ∧ r.capacity = m.bitboxNumPages ∧
      r.syncSeed0 = m.seed0 ∧ r.syncSeed1 = m.seed1 ∧ r.bitboxSeed0 = m.seed0 ∧ r.bitboxSeed1 = m.seed1 ∧
      r.treeArgs = (m.lnFreelistPn, m.bbnFreelistPn, m.lnBump, m.bbnBump) ∧
      r.rollbackArgs = (if o.rollback then some (o.maxRollbackLogLen, m.rollbackStartLive, m.rollbackEndLive) else none) := by
  rw [storeOpen_existing {} dbg P o d hp hne hl] at h
  obtain ⟨metaF, m, h1, h2, h3, h4, h5, h6, h7, h8, h9, h10, h11, h12, _⟩ := openFiles_ok {} dbg P o d r h
  exact ⟨metaF, m, h1, h2, h3, h4, h5, by simpa using h10, by simpa using h6, by simpa using h7, h8, h9, h11, h12⟩

/-- … hence two opens of one directory under ANY two `Options` run with the same seqn / buckets / seed / frontiers -/
theorem T10_open_config_independent (dbg : Bool) (P : Parts Tree Log) (o1 o2 : Options) (d : Dir)
    (hp : d.present = true) (hne : d.files.isEmpty = false) (hl : d.lockedByOther = false) (r1 r2 : Opened Tree Log)
    (h1 : (storeOpen {} dbg P o1 d).1 = .ok r1) (h2 : (storeOpen {} dbg P o2 d).1 = .ok r2) :
    r1.syncSeqn = r2.syncSeqn ∧ r1.syncNumPages = r2.syncNumPages ∧ r1.capacity = r2.capacity ∧
    r1.syncSeed0 = r2.syncSeed0 ∧ r1.syncSeed1 = r2.syncSeed1 ∧ r1.bitboxSeed0 = r2.bitboxSeed0 ∧
    r1.bitboxSeed1 = r2.bitboxSeed1 ∧ r1.treeArgs = r2.treeArgs := by
  obtain ⟨f1, m1, a1, a2, _, a4, a5, a6, a7, a8, a9, a10, a11, _⟩ := T10_open_uses_manifest dbg P o1 d hp hne hl r1 h1
  obtain ⟨f2, m2, b1, b2, _, b4, b5, b6, b7, b8, b9, b10, b11, _⟩ := T10_open_uses_manifest dbg P o2 d hp hne hl r2 h2
  rw [a1] at b1
  injection b1 with e
  subst e
  rw [a2] at b2
  injection b2 with e
  subst e
  exact ⟨by rw [a4, b4], by rw [a5, b5], by rw [a6, b6], by rw [a7, b7], by rw [a8, b8], by rw [a9, b9],
    by rw [a10, b10], by rw [a11, b11]⟩

/-- **T10_validate_exact**: `Meta::validate` accepts a manifest iff its magic is `NOMT`, its version is 1 and its
rollback live range is nil or non-nil as a whole — nothing else is looked at (not the bucket count, not the frontiers,
not `start ≤ end`).  Every manifest a store writes (`StoreMeta`: `create_new`, `Sync::sync`) is accepted and read back
from the page `Meta::write` wrote exactly as it was (`Meta::read ∘ Meta::write = id`); `validate` and `read` never panic;
`read` fails exactly on a file shorter than one page. -/
theorem T10_validate_exact (m : Meta) :
    (validate m = .ok () ↔ m.magic = MAGIC ∧ m.version = VERSION ∧ (m.rollbackStartLive = 0 ↔ m.rollbackEndLive = 0)) ∧
    (StoreMeta m → metaRead (metaPage m) = .ok m ∧ validate m = .ok ()) ∧
    (∀ s, validate m ≠ .panic s) ∧
    (∀ file : ByteArray, (file.size < PAGE ∧ ∃ e, metaRead file = .err e) ∨ (PAGE ≤ file.size ∧ ∃ m', metaRead file = .ok m')) :=
  ⟨validate_ok_iff m, fun h => ⟨metaRead_metaPage m h.1, (validate_ok_iff m).2 h.2⟩, validate_no_panic m, metaRead_total⟩

/-- what `validate` does NOT check (kernel-checked instances; the real code was run on each, notes/Q37.md (e)): a
manifest with zero buckets, with frontiers 0, with an inverted live range passes -/
theorem T10_validate_accepts_degenerate :
    validate { createNew 0 0 0 with lnBump := 0, bbnBump := 0, rollbackStartLive := 9, rollbackEndLive := 3 } = .ok () := by
  decide

/-- **T10_open_total** (the glue of the open sequence).
(a) On the directory a completed `create` leaves — and in general on every directory whose manifest page is the one
`Meta::write` wrote for a store manifest `m` with a bucket count for which `ht_file.rs` does not overflow, whose table
file has the length `ht_file::create` gave it — `Meta::read`, `validate` and `ht_file::open` succeed in both build modes:
no panic site, no error (the remaining steps are the parts: `Tree::open`, recovery, `Rollback::read`, whose totality on
such images is `T9_seglog_open_total_on_crash_images`, `T3_recover_is_redo` / `T3_wal_reader_total`, …).
(b) On an ARBITRARY manifest file and table length: `Meta::read` and `validate` never panic; `ht_file::open` never panics
in a release build; in a debug build it panics iff `⌈n/4096⌉ + n ≥ 2^32` (bucket count `n` of the manifest above
2^32 − 2^20 − 1: the `u32` additions of `num_meta_byte_pages` / `expected_file_len` overflow), and otherwise returns
`Err` unless the file length is exactly the expected one. -/
theorem T10_open_total (dbg : Bool) (m : Meta) (n len : Nat) :
    (StoreMeta m → PagesOK m.bitboxNumPages →
      metaRead (metaPage m) = .ok m ∧ validate m = .ok () ∧
      htCreateLen dbg m.bitboxNumPages = .ok (((m.bitboxNumPages + 4095) / 4096 + m.bitboxNumPages) * 4096) ∧
      htOpenCore dbg m.bitboxNumPages (((m.bitboxNumPages + 4095) / 4096 + m.bitboxNumPages) * 4096) =
        .ok ((m.bitboxNumPages + 4095) / 4096)) ∧
    (∀ s, htOpenCore false n len ≠ .panic s) ∧
    ((∃ s, htOpenCore true n len = .panic s) ↔ ¬ PagesOK n) ∧
    (PagesOK n → len ≠ ((n + 4095) / 4096 + n) * 4096 → ∃ e, htOpenCore true n len = .err e) := by
  refine ⟨fun hm hp => ⟨metaRead_metaPage m hm.1, (validate_ok_iff m).2 hm.2, (htCreate_then_open dbg _ hp).1,
    (htCreate_then_open dbg _ hp).2⟩, htOpenCore_release_no_panic n len, ?_, ?_⟩
  · rw [htOpenCore_dbg]
    by_cases h : PagesOK n
    · simp only [h, if_true, not_true_eq_false, iff_false]
      rintro ⟨s, hs⟩
      split at hs <;> cases hs
    · simp only [h, if_false, not_false_eq_true, iff_true]
      exact ⟨_, rfl⟩
  · intro hp hl
    rw [htOpenCore_dbg]
    simp only [hp, if_true, hl, if_false]
    exact ⟨_, rfl⟩

/-- **T10_options_clamp**: the effective configuration is a TOTAL function of `Options`: `commit_concurrency = 0` is
the error value, every other value is clamped into 1…64; with cache sizes below 2^44 MiB (`size · 2^20` fits `usize`;
above, the debug build panics on the multiplication — `Store/CacheModel.lean`) the page cache gets one shard per worker,
each with a limit of at least one page, and the leaf cache 32 shards; nothing else of `Options` can make `open` fail. -/
theorem T10_options_clamp (dbg : Bool) (o : Options) (hp : o.pageCacheSize * 1024 * 1024 ≤ Cache.usizeMax)
    (hlc : o.leafCacheSize * 1024 * 1024 ≤ Cache.usizeMax) :
    (o.commitConcurrency = 0 → ∃ e, effective dbg o = .err e) ∧
    (1 ≤ o.commitConcurrency → ∃ e, effective dbg o = .ok e ∧ e.workers = min o.commitConcurrency 64 ∧
      1 ≤ e.workers ∧ e.workers ≤ 64 ∧ e.pageLimits.length = e.workers ∧ (∀ l ∈ e.pageLimits, 1 ≤ l) ∧
      e.leafMaxItems.length = 32 ∧ e.fixedLevels = o.upperLevels ∧ e.warmUp = o.warmUp ∧ e.rollback = o.rollback) := by
  constructor
  · intro h0
    exact ⟨"commit concurrency must be greater than zero", by simp [effective, clampOptions, h0]⟩
  · intro h1
    have hne : o.commitConcurrency ≠ 0 := by omega
    by_cases hgt : o.commitConcurrency > 64
    · have hc : clampOptions o = .ok { o with commitConcurrency := 64 } := by
        simp [clampOptions, hne, MAX_COMMIT_CONCURRENCY, hgt]
      have hl := Cache.LeafCache.new_ok (L := Unit) dbg 32 o.leafCacheSize (by omega) hlc
      have hpc := Cache.PageCache.new_ok (P := Unit) dbg none 64 o.pageCacheSize o.upperLevels (by omega) (by omega) hp
      refine ⟨_, by simp only [effective, hc, hl, liftU, hpc]; rfl, ?_⟩
      simp only [Cache.freshShards_length, List.length_map, List.length_replicate, List.map_replicate]
      refine ⟨by omega, by omega, by omega, trivial, ?_, trivial, trivial, trivial, trivial⟩
      intro l hl'
      obtain ⟨s, hs, rfl⟩ := List.mem_map.1 hl'
      exact Cache.freshShards_limit_pos 64 _ s hs
    · have hc : clampOptions o = .ok o := by simp [clampOptions, hne, MAX_COMMIT_CONCURRENCY, hgt]
      have hl := Cache.LeafCache.new_ok (L := Unit) dbg 32 o.leafCacheSize (by omega) hlc
      have hpc := Cache.PageCache.new_ok (P := Unit) dbg none o.commitConcurrency o.pageCacheSize o.upperLevels h1 (by omega) hp
      refine ⟨_, by simp only [effective, hc, hl, liftU, hpc]; rfl, ?_⟩
      simp only [Cache.freshShards_length, List.length_map, List.length_replicate, List.map_replicate]
      refine ⟨by omega, by omega, by omega, trivial, ?_, trivial, trivial, trivial, trivial⟩
      intro l hl'
      obtain ⟨s, hs, rfl⟩ := List.mem_map.1 hl'
      exact Cache.freshShards_limit_pos _ _ s hs

/-! ### non-vacuity -/

/-- T10_root_at_open: three leaves, five items (inline and overflow), an internal root whose root page obeys `RootInv` -/
example : ∃ (leaves : List (Leaf (Stored Nat Nat))) (rp : Option (T × T)),
    (flat leaves).length = 2 ∧ computeRootNode {} TH id rp leaves = .ok (nodeAt TH 256 0 (trieSet id (flat leaves))) :=
  ⟨twoRight, twoRightPage, by decide, T10_root_left_only_counterexample.1⟩

/-- T10_root_at_open_single: one key with an overflow value -/
example : computeRootNode (B := Nat) {} TH id none [{ sep := zeroKey, entries := [(k10, (.overflow 77 1000))] }] =
    .ok (TH.leaf k10 77) :=
  T10_root_at_open_single TH TH_sound id k10 (by simp only [k10, List.length_cons, List.length_replicate]) ((.overflow 77 1000)) none (.inl rfl)

/-- T10_open_uses_manifest / T10_open_config_independent: the directory `create` leaves for 300 buckets, opened under
other Options (another bucket count, another seed, rollback on) -/
def exParts : Parts Unit Unit :=
  { treeOpen := fun _ _ _ _ _ _ => (.ok (), []), recover := fun _ _ _ ht _ h => (.ok (ht, h.metaBytes), []),
    rollbackRead := fun _ _ _ _ => (.ok (), []) }

/-- T10_validate_exact / T10_open_total: `create_new` is a store manifest and 64 000 buckets do not overflow -/
example : StoreMeta (createNew 3 4 64000) ∧ PagesOK 64000 :=
  ⟨createNew_storeMeta 3 4 64000 (by decide) (by decide) (by decide), by decide⟩

/-- T10_open_total (b): a manifest with 2^32 − 1 buckets makes a debug build panic -/
example : ∃ s, htOpenCore true (2 ^ 32 - 1) 4096 = .panic s := ((T10_open_total true (createNew 0 0 0) (2 ^ 32 - 1) 4096).2.2.1).2 (by decide)

/-- T10_options_clamp: 100 workers are clamped to 64 shards of at least one page each, also with a cache of 0 MiB -/
example : ∃ e, effective true { commitConcurrency := 100, pageCacheSize := 0 } = .ok e ∧ e.workers = 64 := by
  obtain ⟨e, h, hw, _⟩ := (T10_options_clamp true { commitConcurrency := 100, pageCacheSize := 0 } (by decide) (by decide)).2 (by decide)
  exact ⟨e, h, by simpa using hw⟩

end Nomt.C10
