import NomtModel.Api.Reopen
import NomtModel.Api.ExecRollback
import NomtModel.Store.ProbeInv
/-!
# C10 — Reopening is transparent

In the API model closing and reopening forgets only the in-memory objects of the old handle.  The
theorems say that nothing a user can observe of the committed state changes and that later operations
behave the same; that the *directory* really holds that committed state is C03/C04/C16's subject and is
tied by the reopen-at-every-position histories (values, root, proofs, seqn, hash-table occupancy, and the
results of subsequent commits and rollbacks compared with a model that ignores close/open).
-/
namespace Nomt.C10
open Nomt Nomt.Api
variable {Node VH : Type} [DecidableEq Node] [DecidableEq VH] (H : Hasher Node VH)

/-- T10.1: values, root, rollback log and sequence number are untouched by a reopen -/
theorem T10_1_reopen_keeps_committed_state (s : St Node VH) :
    (reopen s).kv = s.kv ∧ (reopen s).root = s.root ∧ (reopen s).log = s.log ∧ (reopen s).seqn = s.seqn ∧
    (reopen s).maxLog = s.maxLog ∧ (reopen s).rollbackOn = s.rollbackOn := by
  simp [reopen]

/-- T10.2: every direct read and every read of a fresh session is the same before and after -/
theorem T10_2_reads_same (s : St Node VH) (k : Key) :
    viewGet (reopen s) [] k = viewGet s [] k := by
  simp [viewGet, reopen]

/-- T10.3: a rollback behaves the same whether or not the store was closed in between: same verdict,
same values, root, log and sequence number afterwards -/
theorem T10_3_rollback_same (s : St Node VH) (n : Nat) :
    (rollback H (reopen s) n).1 = (rollback H s n).1 ∧
    (rollback H (reopen s) n).2.kv = (rollback H s n).2.kv ∧
    (rollback H (reopen s) n).2.root = (rollback H s n).2.root ∧
    (rollback H (reopen s) n).2.log = (rollback H s n).2.log ∧
    (rollback H (reopen s) n).2.seqn = (rollback H s n).2.seqn := by
  unfold rollback
  by_cases h0 : n = 0
  · simp [h0, reopen]
  · by_cases h1 : s.rollbackOn = true
    · by_cases h2 : n > s.log.length
      · simp [h0, h1, h2, reopen]
      · simp [h0, h1, h2, reopen]
    · simp [h0, h1, reopen]

/-- T10.4: a session begun after the reopen computes the same new root for the same batch -/
theorem T10_4_finish_same_root (s : St Node VH) (ws : Writes VH) :
    rootOfKV H (kvApply (viewKV (reopen s) []) ws) = rootOfKV H (kvApply (viewKV s []) ws) := by
  simp [viewKV, reopen]

example : (reopen ({ root := (0 : Nat), kv := [([true], (5 : Nat))], seqn := 3 } : St Nat Nat)).seqn = 3 := rfl

/-- T10.5 **occupancy survives a reopen**: while a handle is open `hash_table_utilization().occupied`
is a counter changed by `+1` per freshly allocated and `-1` per freed bucket (`occupied_buckets_delta`);
opening recomputes it as `MetaMap::full_count` of the meta bytes.  In the bitbox model
(`Store/ProbeModel.lean`) `occupied` IS `full_count`, and every operation of `prepare_sync` changes
it by exactly that delta — so the counter of the old handle and the recount of the new one agree. -/
theorem T10_5_occupancy_counter_is_full_count (hash : Nat → Nat) (lim : Nat) (T : Nomt.Store.Probe.Table)
    (hn : 0 < T.n) (p : Nat) :
    Nomt.Store.Probe.occupied (Nomt.Store.Probe.step hash lim T (.insert p)) =
      Nomt.Store.Probe.occupied T +
        (if Nomt.Store.Probe.find hash T p = none ∧ (Nomt.Store.Probe.alloc hash lim T p).isSome then 1 else 0) ∧
    Nomt.Store.Probe.occupied (Nomt.Store.Probe.step hash lim T (.remove p)) +
        (if (Nomt.Store.Probe.find hash T p).isSome then 1 else 0) = Nomt.Store.Probe.occupied T :=
  ⟨Nomt.Store.Probe.occupied_step_insert hn p, Nomt.Store.Probe.occupied_step_remove p⟩

end Nomt.C10
