import NomtModel.Props.C05_Seek
import NomtModel.Props.C05_SeekMutants
import NomtModel.Store.SeekWalkerRecon
/-!
# C05 — the seek with the MIRROR of `page_walker::reconstruct_pages` in place of the contract

`T5_seek_is_proveSpec` (`Props/C05_Seek.lean`) assumes `World.OK`, one field of which is the contract `ReconOK` about
`reconstruct_pages`.  Here `Env.recon` is `Seek.walkerRecon` = the statement-by-statement mirror `Walker.reconstructPages` of
`page_walker.rs` run on the working map of the seek's page set + the insert loop of `continue_leaves_fetch`, with pool pages
holding ANY content.  `T5_seek_recon_contract_discharged`: that function fulfils `ReconOK` in every world whose other
hypotheses hold (`World.Pre`), by `T2_reconstruct_pages_correct` (`Props/C02_WalkRecon.lean`).  So the seek theorems hold
without the contract hypothesis (`T5_seek_is_proveSpec_unconditional`).
-/
namespace Nomt.C05
open Nomt Nomt.Ovl Nomt.TriePos Nomt.Seek

variable {Node VH V : Type} [DecidableEq Node] [DecidableEq VH]

/-- **the contract of `reconstruct_pages` is discharged by the mirror of `page_walker.rs`**: with `Env.recon` = the mirrored
`reconstruct_pages` + the insert loop (`Seek.walkerRecon`), pool pages of 126 slots with arbitrary content, and the other
hypotheses of the seek theorems (`World.Pre`: sound hasher, b-tree, overlay, view, page universe representing the view),
`ReconOK` holds: (i) first elided page already in the working map ⇒ nothing happens; (ii) otherwise — at least two and fewer
than `PAGE_ELISION_THRESHOLD` leaves of the view below the position, the parent slot holding the reference node — no panic
site of `page_walker.rs` is reached (`assert_eq!(root, subtree_root)`, the `unwrap`s of the leaf counters, … included), the
new page set extends the old one, every page of it is good for the view, and it holds the child page. -/
theorem T5_seek_recon_contract_discharged (W : World Node VH V) (hpre : W.Pre) (fresh : PageId → List Node)
    (hfresh : ∀ P, (fresh P).length = 126) (hrec : W.env.recon = walkerRecon W.H fresh) : ReconOK W :=
  walkerRecon_ok W hpre fresh hfresh hrec

/-- **T5.seek without the contract hypothesis**: `T5_seek_is_proveSpec` for a world whose `reconstruct_pages` is the mirror
of `page_walker.rs` — for EVERY list of `push / step / supplyPage / supplyLeaf` operations in any order over any number of
interleaved keys no panic site (of `seek.rs` or of `page_walker.rs`) is reached and every completed request holds exactly
`proveSpec` of the session's view. -/
theorem T5_seek_is_proveSpec_unconditional (W : World Node VH V) (hpre : W.Pre) (fresh : PageId → List Node)
    (hfresh : ∀ P, (fresh P).length = 126) (hrec : W.env.recon = walkerRecon W.H fresh)
    (s0 : Sys Node VH V) (hps : PSInv W s0.ps) (hmem : MemOK W s0.cache) (hreqs : s0.reqs = [])
    (acts : List Seek.Action) (ha : ActsOK acts) :
    ∃ s, Seek.run W.env s0 acts = .ok s ∧
      ∀ (i : Nat) (r : Req Node VH V) (aw : Option Query) (res : SeekRes Node VH), s.reqs[i]? = some (r, aw) →
        r.result = some res →
        resultProof res.pos res.sibs res.terminal =
          (if W.env.record then proveSpec W.H KEY_BITS W.view r.key
           else { proveSpec W.H KEY_BITS W.view r.key with siblings := [] }) ∧
        res.pos.path = r.key.take res.pos.depth ∧
        res.pageId = (if res.pos.depth = 0 then none else some (specPage res.pos.path)) :=
  T5_seek_is_proveSpec W (World.OK.ofPre hpre (walkerRecon_ok W hpre fresh hfresh hrec)) s0 hps hmem hreqs acts ha

/-! ### non-vacuity: the two-key world of `Props/C05_Seek.lean` with the mirrored `reconstruct_pages` -/

def skEnvW : Env T Nat Nat := { skEnv with recon := walkerRecon TH (fun _ => List.replicate 126 T.term) }
def skWW : World T Nat Nat := { skW with env := skEnvW }

theorem skWW_pre : skWW.Pre := by
  have h := skW_ok.toPre
  exact ⟨h.sound, h.kind, h.root, h.prim, h.sec, h.leaves, h.firstSep, h.ov, h.viewEq, h.viewLen, h.baseLen, h.ovLen,
    ⟨h.rep.1, h.rep.2⟩⟩

/-- the hypotheses of `T5_seek_is_proveSpec_unconditional` are met -/
example : skWW.Pre ∧ (∀ P : PageId, ((fun _ => List.replicate 126 T.term) P : List T).length = 126) ∧
    skWW.env.recon = walkerRecon skWW.H (fun _ => List.replicate 126 T.term) ∧
    PSInv skWW ({} : Sys T Nat Nat).ps ∧ MemOK skWW ({} : Sys T Nat Nat).cache :=
  ⟨skWW_pre, fun _ => by simp, rfl, fun P pg o h => by simp [PageSet.get] at h, skW_mem⟩

/-! ### … and a world with an ELIDED page: the seek calls the mirrored `reconstruct_pages` (kernel evaluation) -/

/-- the world `pW` of `Props/C05_SeekMutants.lean` (two keys sharing 12 bits, page `[0,0]` elided) with the mirror -/
def pEnvW : Env T Nat Nat := { pEnv with recon := walkerRecon TH (fun _ => List.replicate 126 T.term) }
def pWW : World T Nat Nat := { pW with env := pEnvW }

theorem pWW_pre : pWW.Pre := by
  have h := pW_ok.toPre
  exact ⟨h.sound, h.kind, h.root, h.prim, h.sec, h.leaves, h.firstSep, h.ov, h.viewEq, h.viewLen, h.baseLen, h.ovLen,
    ⟨h.rep.1, h.rep.2⟩⟩

def pActs : List Seek.Action :=
  [.push pKey] ++ (List.replicate 5 [Seek.Action.step 0, .supplyPage 0, .supplyLeaf 0]).flatten

/-- the seek of `pKey` descends through the root page and page `[0]`, finds page `[0,0]` elided, fetches the two leaves,
runs the MIRROR of `reconstruct_pages` (which inserts page `[0,0]` into the page set) and completes at depth 13 with the leaf
`(pKey, 2)` and 13 siblings — exactly what the run with the specification `reconSpec` yields -/
example : skRes (Seek.run pEnvW {} pActs) 0 = skRes (Seek.run pEnv {} pActs) 0 ∧
    (skRes (Seek.run pEnvW {} pActs) 0).map (fun r => (r.1, r.2.1.length, r.2.2)) = some (some (pKey, 2), 13, 13) ∧
    (match Seek.run pEnvW {} pActs with | .ok s => s.ps.map.map (·.1) | _ => []) = [[0, 0], [0], []] := by
  decide +kernel

end Nomt.C05
