import NomtModel.Store.CacheNew
/-!
# C10 (topic: the caches across a reopen) — dropping the caches and opening with another configuration changes nothing
-/
namespace Nomt.C10
open Nomt Nomt.Cache

/-- **T10_reopen_caches_transparent**: run any history `before` on a coherent cache, drop the handle (both caches are
in-memory only), open again with ANY valid cache configuration (`PageCache::new` with the stored root page; shard count
1…64, any size — 0 MiB included —, any pinned levels; prepopulation is a `fill` operation of `after`) and run any history `after`: the
reads of `after` return what they return on the handle that was never closed — namely the store's values. -/
theorem T10_reopen_caches_transparent {P : Type} (s : PState P) (w : s.pc.WF) (h : Coh s.pc s.store)
    (before after : List (POp P)) (hvb : ∀ op ∈ before, op.Valid) (hva : ∀ op ∈ after, op.Valid)
    (dbg : Bool) (n size fl : Nat) (hn : 1 ≤ n ∧ n ≤ 64) (hs : size * 1024 * 1024 ≤ usizeMax) :
    ∃ s₁ o₁ s₂ o₂ pc s₃,
      prun {} s before = .ok (s₁, o₁) ∧
      prun {} s₁ after = .ok (s₂, o₂) ∧
      PageCache.new {} dbg (s₁.store []) n size fl = .ok pc ∧
      prun {} ⟨pc, s₁.store⟩ after = .ok (s₃, o₂) ∧ s₃.store = s₂.store := by
  obtain ⟨s₁, r₁, _, c₁, sm₁⟩ := prun_ok s w h before hvb
  obtain ⟨s₂, r₂, st₂, _, _⟩ := prun_ok s₁ (sm₁.wf w) c₁ after hva
  have e := PageCache.new_ok dbg (s₁.store []) n size fl hn.1 hn.2 hs
  obtain ⟨s₃, r₃, st₃, _, _⟩ := prun_ok ⟨_, s₁.store⟩
    ⟨by simp [freshShards_length]; exact hn.1, by simp [freshShards_length]; exact hn.2⟩
    (fresh_coh n _ fl (s₁.store []) s₁.store (fun r hr => hr)) after hva
  exact ⟨s₁, _, s₂, _, _, s₃, r₁, r₂, e, r₃, by rw [st₃, st₂]⟩

def exBefore : List (POp Nat) := [.commit [([], some ⟨1, 1⟩), ([7], some ⟨2, 2⟩)], .read [7]]
def exAfter : List (POp Nat) := [.fill [[7]], .read [7], .read [], .read [8]]

/-- non-vacuity: commit, reopen with 64 shards / `page_cache_size = 0` / 3 pinned levels and prepopulation, read -/
example : ∃ s₁ o₁ s₂ pc s₃,
    prun (P := Nat) {} ⟨{ shards := freshShards 1 4, root := none, fixedLevels := 0 }, fun _ => none⟩ exBefore = .ok (s₁, o₁) ∧
    prun {} s₁ exAfter = .ok (s₂, [some ⟨2, 2⟩, some ⟨1, 1⟩, none]) ∧
    PageCache.new {} false (s₁.store []) 64 0 3 = .ok pc ∧
    prun {} ⟨pc, s₁.store⟩ exAfter = .ok (s₃, [some ⟨2, 2⟩, some ⟨1, 1⟩, none]) := by
  have hvb : ∀ op ∈ exBefore, op.Valid := by
    intro op hop
    simp only [exBefore, List.mem_cons, List.mem_nil_iff, or_false] at hop
    rcases hop with rfl | rfl <;> simp [POp.Valid, ValidId]
  have hva : ∀ op ∈ exAfter, op.Valid := by
    intro op hop
    simp only [exAfter, List.mem_cons, List.mem_nil_iff, or_false] at hop
    rcases hop with rfl | rfl | rfl | rfl <;> simp [POp.Valid, ValidId]
  obtain ⟨s₁, o₁, s₂, o₂, pc, s₃, r₁, r₂, e, r₃, _⟩ := T10_reopen_caches_transparent (P := Nat)
    ⟨{ shards := freshShards 1 4, root := none, fixedLevels := 0 }, fun _ => none⟩
    ⟨by simp [freshShards_length], by simp [freshShards_length]⟩
    (fresh_coh 1 4 0 none _ (fun r hr => by cases hr)) exBefore exAfter hvb hva false 64 0 3 (by decide) (by decide)
  -- the observed values are those of the uncached run
  obtain ⟨s₁', q₁, st₁, c₁, sm₁⟩ := prun_ok (P := Nat)
    ⟨{ shards := freshShards 1 4, root := none, fixedLevels := 0 }, fun _ => none⟩
    ⟨by simp [freshShards_length], by simp [freshShards_length]⟩
    (fresh_coh 1 4 0 none _ (fun r hr => by cases hr)) exBefore hvb
  rw [r₁] at q₁; cases q₁
  obtain ⟨s₂', q₂, _, _, _⟩ := prun_ok s₁
    (sm₁.wf ⟨by simp [freshShards_length], by simp [freshShards_length]⟩) c₁ exAfter hva
  rw [r₂] at q₂; cases q₂
  have ho : (prefRun s₁.store exAfter).2 = [some ⟨2, 2⟩, some ⟨1, 1⟩, none] := by
    rw [st₁]; decide
  exact ⟨s₁, _, s₂, pc, s₃, r₁, ho ▸ r₂, e, ho ▸ r₃⟩

end Nomt.C10
