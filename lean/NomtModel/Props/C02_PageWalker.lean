import NomtModel.Store.WalkerSimTop
import NomtModel.Store.WalkerExample
/-!
# C02 — the page walker (`nomt/src/merkle/page_walker.rs`)

The mirror `Store/WalkerModel.lean` follows `PageWalker` statement by statement (every panic site a value) and is tied to
the real `PageWalker<Blake3Hasher>` by the `walker` differential (hook H14).  The theorems below are about that mirror.

Vocabulary (`Store/WalkerTreeSpec.lean`, `Store/WalkerTreeRun2.lean`, `Store/WalkerSimRun.lean`):
`KeysOK S` = strictly sorted 256-bit keys; `sub S p` = the keys below position `p`; `specNode H S p` = `nodeAt` of them;
`ScriptOK S S' steps` = the script of one walk: strictly ascending, prefix-free terminal positions of `S`, each replaced by
the keys of `S'` below it (or only visited by `advance`), and what branches away from every replaced terminal is unchanged;
`PSOK ps steps` = `fresh` hands out whole pages and every page on the way to a terminal is in the page set (loaded from the
hash table); `Represents H ps root S` = the root and every materialised slot whose parent is an internal node holds
`nodeAt`; `Walker.runM` = the calls `advance_and_replace` / `advance` in order.

Partial: for an UPDATING walker the page set holds only pages loaded from the hash table on the ways to the terminals (no
elided sub-trie is entered, so no `PageOrigin::Reconstructed` counters with real values take part — pages with the counters
`0 / 0` are admitted since unit Q35); the statements are about `S'` through `ScriptOK`, not through `kvApply`.  The
RECONSTRUCTING walker (`reconstruct_pages`) is covered without such a restriction by `Props/C02_WalkRecon.lean`
(`T2_reconstruct_pages_correct`), as are the one-step elision decisions (`T2_elision_*`); what is still missing for updating
walks that enter reconstructed pages is one guard of the counter arithmetic (`notes/Q35.md` (d) 1).  The sub-trie walk (walker with a parent page) is `T13_walker_child_roots_partial` in
`Props/C13_PageWalker.lean`.
-/
namespace Nomt.C02
open Nomt Nomt.Walker Nomt.TriePos

variable {Node VH : Type} [DecidableEq Node] [DecidableEq VH] (H : Hasher Node VH)

/-- **T2_walker_root (partial)** and **T2_walker_total (partial)**: an ascending in-scope script never reaches a panic
site — every call and `conclude` return `ok` — and `conclude` returns `Output::Root` with the specified root `nodeAt` of the
new key set.  (Elision may be active or inhibited; fresh pool pages may hold any garbage.) -/
theorem T2_walker_root_partial (hs : H.Sound) (ps : PageSet Node) (root : Node) {S S' : List (Key × VH)}
    (hS : KeysOK S) (hS' : KeysOK S') {steps : List (Step VH)} (hso : ScriptOK S S' steps) (hps : PSOK ps steps)
    (hrep : Represents H ps root S) (inhibit : Bool) :
    ∃ w' pages, (Walker.start root inhibit).runM H ps steps = .ok w' ∧
      w'.conclude H = .ok (.root (nodeAt H 256 0 S') pages) := by
  have hrepR := rep_matR H ps hS hso hrep
  have hDp : PathsIn (MatR ps steps) steps := by
    intro s hs' x hx hne
    have := pathsIn_of_psok ps hps s hs' x hx hne
    exact ⟨Or.inl this.1, Or.inl this.2⟩
  obtain ⟨w', hw', hinv⟩ := runInv_run H ps hs hS hS' hrepR (Or.inl (Or.inl rfl)) steps [] _ _
    (by simpa using hso) (by simpa using hps) (by simpa using hDp) (by intro P0 hp; cases hp)
    (runInv_start H ps _ none root S S' steps inhibit)
  simp only [List.nil_append] at hinv
  obtain ⟨pages, hc, _⟩ := conclude_spec H ps hs hS hS' hso hrepR (Or.inl (Or.inl rfl)) hinv
  exact ⟨w', pages, hw', hc⟩

/-- **T2_walker_pages (partial)**: every page `conclude` hands out is an `UpdatedPage` with 126 slots, and every slot of it
whose parent position is an internal node of the NEW key set holds `nodeAt` of the new key set — for the pages of the page
set as well as for the pages the walker created below replaced terminals.  (Not covered: that pages not handed out are
untouched, the elided-children bits, which pages are elided.) -/
theorem T2_walker_pages_partial (hs : H.Sound) (ps : PageSet Node) (root : Node) {S S' : List (Key × VH)}
    (hS : KeysOK S) (hS' : KeysOK S') {steps : List (Step VH)} (hso : ScriptOK S S' steps) (hps : PSOK ps steps)
    (hrep : Represents H ps root S) (inhibit : Bool) :
    ∃ w' pages, (Walker.start root inhibit).runM H ps steps = .ok w' ∧
      w'.conclude H = .ok (.root (nodeAt H 256 0 S') pages) ∧
      ∀ o ∈ pages, ∃ P pg d b, o = .updated P pg d b ∧ pg.nodes.length = 126 ∧
        ∀ q, q ≠ [] → q.length ≤ 256 → specPage q = P → MatR ps steps q → Mean S' q →
          pg.nodes.getD (specIndex q) H.term = specNode H S' q := by
  have hrepR := rep_matR H ps hS hso hrep
  have hDp : PathsIn (MatR ps steps) steps := by
    intro s hs' x hx hne
    have := pathsIn_of_psok ps hps s hs' x hx hne
    exact ⟨Or.inl this.1, Or.inl this.2⟩
  obtain ⟨w', hw', hinv⟩ := runInv_run H ps hs hS hS' hrepR (Or.inl (Or.inl rfl)) steps [] _ _
    (by simpa using hso) (by simpa using hps) (by simpa using hDp) (by intro P0 hp; cases hp)
    (runInv_start H ps _ none root S S' steps inhibit)
  simp only [List.nil_append] at hinv
  obtain ⟨pages, hc, hp⟩ := conclude_spec H ps hs hS hS' hso hrepR (Or.inl (Or.inl rfl)) hinv
  refine ⟨w', pages, hw', hc, ?_⟩
  intro o ho
  obtain ⟨P, pg, d, b, e, hl, hm, _⟩ := hp o ho
  exact ⟨P, pg, d, b, e, hl, hm⟩

/-- **T2_walker_total — the documented panics** (any walker state): advancing to a position that is not greater than the
previous one (backwards or the same) reaches `assert!(new_pos.path() > pos.path())`. -/
theorem T2_walker_panic_not_ascending (w : Walker Node) (lp p : Pos) (hl : w.lastPosition = some lp)
    (h : Nomt.bitsLt lp.path p.path = false) :
    w.advance H p = .panic "advance: assert!(new_pos.path() > pos.path())" := by
  unfold Walker.advance Walker.advancePrologue
  rw [hl]
  simp [h]

/-- … and with an ascending position that assertion is not reached: the first call of a walk passes the prologue -/
theorem T2_walker_first_call_passes (w : Walker Node) (p : Pos) (hl : w.lastPosition = none) :
    w.advancePrologue H p = .ok w := by
  unfold Walker.advancePrologue; rw [hl]

/-- advancing into the parent page itself reaches `assert!(&page_id != &parent_page)` -/
theorem T2_walker_panic_parent_page (w : Walker Node) (p : Pos) (pp : PageId) (hl : w.lastPosition = none)
    (hpar : w.parentPage = some pp) (hp : p.pageId = some (some pp)) :
    w.advance H p = .panic "assert_page_in_scope: assert!(&page_id != &parent_page)" := by
  unfold Walker.advance
  rw [T2_walker_first_call_passes H w p hl]
  simp only [hp, Walker.assertPageInScope, hpar, if_true]

/-- advancing to the root with a parent page reaches `assert!(self.parent_page.is_none())` -/
theorem T2_walker_panic_root_with_parent (w : Walker Node) (p : Pos) (pp : PageId) (hl : w.lastPosition = none)
    (hpar : w.parentPage = some pp) (hp : p.pageId = some none) :
    w.advance H p = .panic "assert_page_in_scope: assert!(self.parent_page.is_none())" := by
  unfold Walker.advance
  rw [T2_walker_first_call_passes H w p hl]
  simp [hp, Walker.assertPageInScope, hpar]

/-- **the sub-trie walk** (tree walker, `Store/WalkerTree.lean`; what `T13_6` of `Props/C13_Split.lean` assumes of every
worker): with a parent page, every child-page root delivered at `conclude` is the specified node `nodeAt` of the new key
set at a position of the bottom layer of the parent page, and every page left on the way held the specified nodes at its
meaningful slots. -/
theorem T2_tree_walk_children (hs : H.Sound) (D : Path → Prop) {S S' : List (Key × VH)} (hS : KeysOK S)
    (hS' : KeysOK S') {steps : List (Step VH)} (hso : ScriptOK S S' steps) (hDp : PathsIn D steps)
    {store0 : Store Node} (hrep : Rep0 H D S store0) (cfg : TWCfg Node) :
    let a' := (({ pos := [], store := store0, log := [], cpr := [] } : TW Node).run H cfg steps).conclude H cfg
    (∀ e ∈ a'.cpr, e.2 = specNode H S' e.1 ∧ e.1.length = cfg.top) ∧ (∀ e ∈ a'.log, LogOK H D S' e) :=
  tw_walk_children H D hs hS hS' hso hDp hrep cfg

/-- **the algorithm on a flat store** (tree walker without pages): the store after `conclude` represents the new key set
at the root and at every meaningful slot. -/
theorem T2_tree_walk_root (hs : H.Sound) (D : Path → Prop) {S S' : List (Key × VH)} (hS : KeysOK S)
    (hS' : KeysOK S') {steps : List (Step VH)} (hso : ScriptOK S S' steps) (hDp : PathsIn D steps)
    {store0 : Store Node} (hrep : Rep0 H D S store0) (cfg : TWCfg Node) (htop : cfg.top = 0)
    (hpar : cfg.hasParent = false) :
    let a' := (({ pos := [], store := store0, log := [], cpr := [] } : TW Node).run H cfg steps).conclude H cfg
    a'.pos = [] ∧ Rep0 H D S' a'.store ∧ (∀ e ∈ a'.log, LogOK H D S' e) ∧ a'.cpr = [] :=
  tw_walk_root H D hs hS hS' hso hDp hrep cfg htop hpar

/-- the visitor calls of `build_trie` are the post-order traversal of the specified sub-trie (what `replace_terminal`
folds its visitor over) -/
theorem T2_build_trie_visitor {S : List (Key × VH)} (hk : KeysOK S) (t : Path) (ht : t.length ≤ 256) :
    buildEvents H t.length (sub S t) =
      some (if sub S t = [] then [.terminator] else treeEv H t.length (256 - t.length) 0 (sub S t) none) :=
  buildEvents_sub H hk t ht

/-! ## non-vacuity: a concrete walk (`Store/WalkerExample.lean`; the free term hasher `TH` is `Sound`) -/

section Example
open Nomt.Walker.Ex

/-- the hypotheses of `T2_walker_root_partial` / `T2_walker_pages_partial` are met: building a two-key trie from the
empty one with a single `advance_and_replace` at the root position -/
example : ∃ w' pages, (Walker.start T.term false).runM TH exPs exSteps = .ok w' ∧
    w'.conclude TH = .ok (.root (nodeAt TH 256 0 exS') pages) :=
  T2_walker_root_partial TH TH_sound exPs T.term exKeys exKeys' exScript exPSOK exRep false

end Example

end Nomt.C02
