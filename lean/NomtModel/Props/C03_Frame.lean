import NomtModel.Props.C04_Frame
/-!
# C03 — process crash before the switch-over: the concrete decoder sees the old state
-/
namespace Nomt.C03
open Nomt.Store

/-- T3.7 **process crash before the switch-over, concrete decoder.**  A process crash loses nothing that was issued: the image
is the pre-image with ALL page writes of a prefix `p` of the accepted pre-switch-over events applied (the special case
`sub = p` of T4.10).  It decodes — `wfImage`, `absImage` — to the old state. -/
theorem T3_7_crash_images_before_switchover_decode_to_old_state {img : Image} {tr : List IoEv} {stP : PlacementStats}
    (h : checkPlacement img tr = .ok stP)
    (p : List IoEv) (hp : p <+: preMeta tr) (B : Image) (hmeta : B.metaF = img.metaF)
    (hln : Touched img.ln B.ln (writesOf "ln" p)) (hbbn : Touched img.bbn B.bbn (writesOf "bbn" p)) :
    wfImage B = wfImage img ∧ absImage B = absImage img :=
  let r := C04.T4_10_pre_switchover_images_decode_to_old_state h p p hp (List.Sublist.refl _) B hmeta hln hbbn
  ⟨r.1, r.2.1⟩

/-- non-vacuity: the fresh store, crash after the first write of its first sync. -/
example (c1 : ByteArray) (h1 : c1.size = PAGE) :
    let img := Fresh.mk (zeros PAGE)
    let B : Image := { img with ln := writePage img.ln 1 c1 }
    wfImage B = wfImage img ∧ absImage B = absImage img := by
  obtain ⟨stP, hacc⟩ := Fresh.accepted (zeros PAGE) (size_zeros _) (allZero_zeros _)
  intro img B
  refine T3_7_crash_images_before_switchover_decode_to_old_state hacc
    ((preMeta Fresh.tr).take 1) (List.take_prefix _ _) B rfl ?_ ?_
  · have : writesOf "ln" ((preMeta Fresh.tr).take 1) = [1] := by decide
    rw [this]
    exact writePage_touched _ _ _ h1
  · exact Touched.refl _ _

end Nomt.C03
