import NomtModel.Store.BranchUpdRun
import NomtModel.Store.BranchUpdExamples
import NomtModel.Store.LeafUpdKV
/-!
# C01 — the branch stage of the B-tree update (`BranchUpdater`, `BranchOpsTracker`, `BranchGauge`, `build_branch`,
`branch_stage.rs::run_worker`)

Property theorems about the mirror `Store/BranchUpdModel.lean` of `beatree/ops/update/branch_updater.rs`,
`branch_ops.rs` and of the `run_worker` loop of `branch_stage.rs` (every loop, every panic site; tied to the real code
line by line by `vharness branchupd` / `nomt_model branchupd`, hook H14: the step-wise real `BranchUpdater` and the whole
real `branch_stage::run`).

Vocabulary: a branch node is `Node` (prefix_len, prefix_compressed, items = separator key, page number, STORED separator
bit length); `DbOK kf db` — the nodes of the old level left to right (`NodeOK`: ascending keys below 2^256,
`1 ≤ prefix_compressed ≤ n`, compressed keys share the prefix, stored lengths as `BranchNodeBuilder::push` writes them;
index separators ascend, keys of a node between its separator and the next one); `ChOK lo cs` — the ascending change list
(keys in `[lo, 2^256)`, `Some(pn)` / `None`); `KFOK kf` — what the proofs ask of `prefix_len` / `separator_len`
(`kfReal_ok`: the real ones satisfy it; `kfReal` = the code; `kfPreF22` = the code before the repair of finding F22,
commit `d4be933`: a first separator shorter than the base's prefix could be kept as part of a chunk — it satisfies `KFOK`
too, so the theorems stated for every `kf` hold for both); `runWorker` — `BranchUpdater::new`, `reset_base` to the node covering the next
key, `ingest` while in scope, `digest` otherwise, `reset_base` to the next node on `NeedsMerge`, `digest` until
`Finished`; `none` = a panic site was reached.
-/
namespace Nomt.C01
open Nomt Nomt.BranchUpd
open Nomt.LeafUpd (Entry Sorted applyAll applyAll_sorted toKV toW encBits encBits_orderEmb map_applyAll)

/-- **T1.branch_update_total** — on a well-formed level and an ascending change list the branch stage reaches no panic
site (for the code and for the code before the repair of F22): no index out of range in `find_key_pos` / `keep_up_to` /
`push_chunk` / `try_split_keep_chunk` / `extract_insert_from_keep_chunk` / `replace_with_insert`, no `unwrap` on
`None` (`base`, `cutoff`), `assert!(self.valid_gauge)` and `assert!(self.prefix_compressed.is_none())` hold, none of the
subtractions of `compressed_separator_range_size` / `uncompressed_separator_range_size` / the chunk sums underflows, the
`assert!`s of `BranchNodeBuilder::push` / `push_chunk` hold, `u16::try_from(cell_pointer)` succeeds, the builder is
handed exactly `n` items whose compressed separators carry the node's prefix, and every loop terminates (the fuel of the
mirrors is never the answer). -/
theorem T1_branch_update_total (kf : KF) (hkf : KFOK kf) (db : List DbNode) (cs : List (Nat × Option Nat)) (lo : Nat)
    (hdb : DbOK kf db) (hcs : ChOK lo cs) (hfirst : ∀ l, db.head? = some l → l.sep ≤ lo) :
    runWorker kf db cs ≠ none := by
  obtain ⟨out, rel, e, _⟩ := runWorker_spec hkf db cs lo hdb hcs hfirst
  rw [e]; simp

/-- **T1.branch_update_is_applyAll** — nothing lost, nothing duplicated, order preserved, every `Update` carries the new
page number: the (separator, page number) entries of the new level (untouched old nodes and produced nodes, left to
right) are exactly the old entries with the changes applied one by one, and they are ascending. -/
theorem T1_branch_update_is_applyAll (kf : KF) (hkf : KFOK kf) (db : List DbNode) (cs : List (Nat × Option Nat))
    (lo : Nat) (hdb : DbOK kf db) (hcs : ChOK lo cs) (hfirst : ∀ l, db.head? = some l → l.sep ≤ lo) :
    ∃ out rel, runWorker kf db cs = some (out, rel) ∧ flatOut out = applyAll (flat db) (chs cs) ∧
      Sorted (flatOut out) := by
  obtain ⟨out, rel, e, h1, _⟩ := runWorker_spec hkf db cs lo hdb hcs hfirst
  exact ⟨out, rel, e, h1, by rw [h1]; exact applyAll_sorted hdb.sorted _⟩

theorem chOK_keys_lt : ∀ {cs : List (Nat × Option Nat)} {lo : Nat}, ChOK lo cs → ∀ c ∈ chs cs, c.1 < 2 ^ 256
  | [], _, _, c, hc => by cases hc
  | (k, pn) :: cs, lo, h, c, hc => by
    simp only [chs, List.map_cons, List.mem_cons] at hc
    rcases hc with rfl | hc
    · exact h.2.1
    · exact chOK_keys_lt (cs := cs) h.2.2 c hc

/-- **T1.branch_update_is_kvApply** — with the real `prefix_len` / `separator_len` and 256-bit keys: the content of the
new level, read as an association list of the sequential model (`Api/KV.lean`: keys = the 256 key bits, value = the page
number), is `kvApply` of the old content with the change list — the specification C01 is stated with. -/
theorem T1_branch_update_is_kvApply (db : List DbNode) (cs : List (Nat × Option Nat)) (lo : Nat)
    (hdb : DbOK kfReal db) (hcs : ChOK lo cs) (hfirst : ∀ l, db.head? = some l → l.sep ≤ lo) :
    ∃ out rel, runWorker kfReal db cs = some (out, rel) ∧
      (flatOut out).map (toKV (encBits 256)) =
        kvApply ((flat db).map (toKV (encBits 256))) ((chs cs).map (toW (encBits 256))) := by
  obtain ⟨out, rel, e, h1, _⟩ := runWorker_spec kfReal_ok db cs lo hdb hcs hfirst
  refine ⟨out, rel, e, ?_⟩
  rw [h1]
  exact map_applyAll encBits_orderEmb (chs cs) hdb.sorted hdb.below (chOK_keys_lt hcs)

/-- **T1.branch_sizes_bounded** — every node handed to `handle_new_branch` during the whole stage is non-empty, its
separator is its first key, `1 ≤ prefix_compressed ≤ n`, and the bytes its encoding occupies (`2n + ⌈(prefix_len + stored
separator bits) / 8⌉ + 4n`) are at least `BRANCH_MERGE_THRESHOLD` unless it was handed the cutoff `None` (the rightmost
node of the level) and at most `BRANCH_NODE_BODY_SIZE` (separators and node pointers do not overlap in the page).
Stated for the code (`kfReal`); before the repair of F22 the upper bound was false: `T1_F22_overfull_counterexample`. -/
theorem T1_branch_sizes_bounded (db : List DbNode) (cs : List (Nat × Option Nat)) (lo : Nat)
    (hdb : DbOK kfReal db) (hcs : ChOK lo cs) (hfirst : ∀ l, db.head? = some l → l.sep ≤ lo) :
    ∃ out rel, runWorker kfReal db cs = some (out, rel) ∧
      ∀ p, OutNode.new p ∈ out →
        p.node.items ≠ [] ∧ p.node.items.head?.map (·.key) = some p.sep ∧
          (1 ≤ p.node.pc ∧ p.node.pc ≤ p.node.items.length) ∧ (MERGE ≤ p.node.body ∨ p.cutoff = none) ∧
          p.node.body ≤ BODY := by
  obtain ⟨out, rel, e, _, h, _⟩ := runWorker_spec kfReal_ok db cs lo hdb hcs hfirst
  refine ⟨out, rel, e, ?_⟩
  intro p hp
  have g := h p hp
  exact ⟨g.ne, g.sep, g.pc, g.lower, g.upper kfReal_canon⟩

/-- the lower bounds hold for every `kf` with `KFOK` — also for the code before the repair of F22, whose produced nodes
can only be LARGER than the gauge counted -/
theorem T1_branch_sizes_lower (kf : KF) (hkf : KFOK kf) (db : List DbNode) (cs : List (Nat × Option Nat)) (lo : Nat)
    (hdb : DbOK kf db) (hcs : ChOK lo cs) (hfirst : ∀ l, db.head? = some l → l.sep ≤ lo) :
    ∃ out rel, runWorker kf db cs = some (out, rel) ∧
      ∀ p, OutNode.new p ∈ out →
        p.node.items ≠ [] ∧ p.node.items.head?.map (·.key) = some p.sep ∧
          (1 ≤ p.node.pc ∧ p.node.pc ≤ p.node.items.length) ∧ (MERGE ≤ p.node.body ∨ p.cutoff = none) := by
  obtain ⟨out, rel, e, _, h, _⟩ := runWorker_spec hkf db cs lo hdb hcs hfirst
  refine ⟨out, rel, e, ?_⟩
  intro p hp
  have g := h p hp
  exact ⟨g.ne, g.sep, g.pc, g.lower⟩

/-- **T1.branch_separators_chain** — in the new level (untouched old nodes and produced nodes, left to right) the
separators are correct bounds between the nodes: every node's separator is at most each of its keys, and every key of a
node is strictly below the separator of EVERY node behind it — across merges, skipped nodes and nodes that disappear.
(The separator of a produced node is its first key, `T1_branch_sizes_bounded`.) -/
theorem T1_branch_separators_chain (kf : KF) (hkf : KFOK kf) (db : List DbNode) (cs : List (Nat × Option Nat)) (lo : Nat)
    (hdb : DbOK kf db) (hcs : ChOK lo cs) (hfirst : ∀ l, db.head? = some l → l.sep ≤ lo) :
    ∃ out rel, runWorker kf db cs = some (out, rel) ∧
      out.Pairwise (fun o o' => ∀ e ∈ ents o.items, e.key < o'.sep) ∧
      ∀ o ∈ out, ∀ it ∈ o.items, o.sep ≤ it.key := by
  obtain ⟨out, rel, e, _, h2, h3, h4⟩ := runWorker_spec hkf db cs lo hdb hcs hfirst
  refine ⟨out, rel, e, h3, ?_⟩
  intro o ho it hit
  cases o with
  | old l => exact (h4 l ho).2 it hit
  | new p =>
    have g := h2 p ho
    show p.sep ≤ it.key
    obtain ⟨f0, rr, hfr⟩ := List.exists_cons_of_ne_nil g.ne
    have hsep : f0.key = p.sep := by
      have := g.sep; rw [hfr] at this; simpa using this
    have hit' : it ∈ f0 :: rr := by rw [← hfr]; exact hit
    rcases List.mem_cons.1 hit' with h | h
    · rw [h]; omega
    · have hs := g.sorted
      simp only [Node.keys, hfr, List.map_cons] at hs
      have := (List.pairwise_cons.1 hs).1 it.key (List.mem_map.2 ⟨it, h, rfl⟩)
      omega

/-- the constants the model uses are the ones of the Rust sources (`Generated/Constants.lean`) and the relations the
proofs use: a single item costs at most 38 bytes, which is why a node below the merge threshold never becomes over-full
by one uncompressed item, and the halves of a node that is split after the bulk split fit -/
theorem T1_const_branch_thresholds :
    BODY = Nomt.Gen.BRANCH_NODE_BODY_SIZE ∧ MERGE = BODY / 2 ∧ BULK_THRESHOLD = BODY * 9 / 5 ∧
      BULK_TARGET = BODY * 3 / 4 ∧ MERGE ≤ BULK_TARGET ∧ BULK_TARGET ≤ BODY ∧ MERGE + 38 ≤ BODY ∧
      BULK_THRESHOLD / 2 ≤ BODY := by
  decide

/-! ## the theorems are sharp: three kernel-checked counterexamples -/

/-- **F22, kernel-checked** — the code before the repair `d4be933` (`kfPreF22`): a well-formed level of one node (the all-zero key
in front of the small integers 1 … 120: prefix 249 bits, the first separator is stored with 0 bits), one inserted key
that shares 33 bits with them.  The node is rebuilt from a kept chunk under the prefix of 33 bits; the gauge counted
`1 - 33 = 0` bits for the first separator, `push_chunk` stores `0 + (249 - 33)` bits: the stage ends without a panic and
hands `handle_new_branch` a node whose encoding needs 4094 > 4086 = `BRANCH_NODE_BODY_SIZE` bytes (in the real page the
separators overwrite the first node pointers).  `T1_branch_sizes_bounded` is false for `kfPreF22`. -/
theorem T1_F22_overfull_counterexample :
    KFOK kfPreF22 ∧ DbOK kfPreF22 (f22Db 120) ∧ ChOK 0 [(f22Outsider, some 5)] ∧
      (∀ l, (f22Db 120).head? = some l → l.sep ≤ 0) ∧
      (runWorker kfPreF22 (f22Db 120) [(f22Outsider, some 5)]).map
        (fun r => r.1.map fun o => match o with | .new p => (p.node.items.length, p.node.pl, p.node.body) | .old _ => (0, 0, 0)) =
      some [(122, 33, 4094)] ∧ BODY = 4086 := by
  refine ⟨kfPreF22_ok, ?_⟩
  decide +kernel

/-- the code (`kfReal`: the short first separator becomes an `Insert`) gives a node of 4067 bytes on the same input -/
example :
    (runWorker kfReal (f22Db 120) [(f22Outsider, some 5)]).map
      (fun r => r.1.map fun o => match o with | .new p => (p.node.items.length, p.node.pl, p.node.body) | .old _ => (0, 0, 0)) =
    some [(122, 33, 4067)] := by
  decide +kernel

/-- **seeded change 1, kernel-checked** — `run_worker` with `if let NeedsMerge` (+ one more `digest`) instead of
`while let NeedsMerge` (`kf.seeded = 1`): on four small nodes with one delete in the first node the first merge leaves
the updater under-full again, the second `NeedsMerge` is ignored and the four entries the updater still holds are lost —
`T1_branch_update_is_applyAll` fails (3 entries instead of 7) although both rewritten nodes have been released. -/
theorem T1_seeded_single_merge_counterexample :
    DbOK kfReal exDb ∧ ChOK 0 [(exKey 0 5, none)] ∧
      (runWorker { kfReal with seeded := 1 } exDb [(exKey 0 5, none)]).map (fun r => ((kps r.1).length, r.2)) =
        some (3, [1, 2]) ∧
      (runWorker kfReal exDb [(exKey 0 5, none)]).map (fun r => ((kps r.1).length, r.2)) = some (7, [1, 2, 3, 4]) ∧
      (applyAll (flat exDb) (chs [(exKey 0 5, none)])).length = 7 := by
  decide +kernel

/-- **seeded change 2, kernel-checked** — `extract_ops_until` turning an `Update` that would overflow the node into an
`Insert` that carries the page number stored in the base (`kf.seeded = 2`): 24 keys under a long prefix and one far key
in one node, 96 more keys inserted under the prefix and the far key updated to page 8.  The update is lost (page 7
stays) — `T1_branch_update_is_applyAll` fails; the code (`seeded = 0`) writes page 8. -/
theorem T1_seeded_update_keeps_old_pn_counterexample :
    DbOK kfReal clDb ∧ ChOK 0 clCs ∧
      (runWorker { kfReal with seeded := 2 } clDb clCs).map (fun r => (kps r.1).getLast?) = some (some (clOutsider, 7)) ∧
      (runWorker kfReal clDb clCs).map (fun r => (kps r.1).getLast?) = some (some (clOutsider, 8)) ∧
      ((applyAll (flat clDb) (chs clCs)).map fun e => (e.key, e.val)).getLast? = some (clOutsider, 8) := by
  decide +kernel

/-! ## non-vacuity -/

/-- the hypotheses of the theorems are met by a concrete level of four nodes with a delete, an insert and an update;
the stage merges all four under-full nodes into one (the rightmost node may stay under-full) -/
example :
    KFOK kfReal ∧ DbOK kfReal exDb ∧ ChOK 0 [(exKey 0 5, none), (exKey 0 7, some 99), (exKey 1 3, some 77)] ∧
      (∀ l, exDb.head? = some l → l.sep ≤ 0) ∧
      (runWorker kfReal exDb [(exKey 0 5, none), (exKey 0 7, some 99), (exKey 1 3, some 77)]).map
        (fun r => (kps r.1, r.2)) =
      some ([(exKey 0 0, 10), (exKey 0 7, 99), (exKey 0 9, 12), (exKey 1 0, 20), (exKey 1 3, 77), (exKey 2 0, 30),
             (exKey 2 7, 31), (exKey 3 0, 40)], [1, 2, 3, 4]) := by
  refine ⟨kfReal_ok, ?_⟩
  decide +kernel

/-- a split: 130 keys without a common prefix (38 bytes each, 4932 bytes in all) inserted into an empty level are split
into two nodes of about half the size, both above the merge threshold and within `BRANCH_NODE_BODY_SIZE` -/
example :
    ChOK 0 ((List.range 130).map fun i => (wideKey i, some i)) ∧
      (runWorker kfReal [] ((List.range 130).map fun i => (wideKey i, some i))).map
        (fun r => r.1.map fun o => match o with
          | .new p => (p.node.items.length, p.node.body, decide (MERGE ≤ p.node.body), decide (p.node.body ≤ BODY))
          | .old _ => (0, 0, false, false)) =
      some [(66, 2500, true, true), (64, 2432, true, true)] := by
  decide +kernel

end Nomt.C01
