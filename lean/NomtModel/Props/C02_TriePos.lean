import NomtModel.Core.TriePosReach
import NomtModel.Api.ShardRegionsTable
import NomtModel.Store.ImgMerkleAddr
import NomtModel.Store.PageLayoutLemmas
import NomtModel.Generated.Constants
/-!
# C02 (with C05 / C16 / C13) — trie positions, page ids and page addressing

The glue between "bit path in the trie" and "(page id, node index)" that `seek`, `page_walker`, the proofs and the
image monitor rely on: `core/src/trie_pos.rs` (`TriePosition`), `core/src/page_id.rs` (`PageId`, `PageIdsIterator`,
`ChildPageIndex`), `nomt/src/page_region.rs` (`PageRegion`), `shard_regions` / `shard_index_for` and the node layout of
`nomt/src/page_cache.rs`.  The mirrors (`Core/TriePos.lean`, `Api/PageRegionModel.lean`, `Store/PageLayout.lean`) follow
the Rust statement by statement with every panic site explicit (`none`); the specification is

  a position of depth `d ≥ 1` with bit path `bs` lives in the page whose id is the list of 6-bit groups of its first
  `6·⌊(d−1)/6⌋` bits (`specPage`), at node index `2^r − 2 + (value of the last r bits)`, `r = ((d−1) mod 6) + 1`
  (`specIndex`).

`Reach` = everything the public API can build (`new`, `from_path_and_depth`, `from_bitslice`, `down`, `up`, `sibling`).
All theorems are for every depth `≤ 256` and every path.  Helper lemmas: `Core/TriePosSpec|Moves|Page|Reach.lean`,
`Core/PageIdOrder.lean`, `Api/PageRegionLemmas.lean`, `Store/ImgMerkleAddr.lean`, `Store/PageLayoutLemmas.lean`.
Tie to the code: harness command `triepos` (the real types, `nomt::verif_api::page_addr` for the private ones) vs
driver mode `triepos`, line by line.
-/
namespace Nomt.C02
open Nomt Nomt.TriePos

/-- **T2.node_index_spec** `TriePosition::from_path_and_depth(path, d)` for every `1 ≤ d ≤ 256` and every path: no
panic, and the position carries exactly the specified slot — `node_index() = 2^r − 2 + value(last r bits)`,
`page_id() = Some(sextets of the first 6·⌊(d−1)/6⌋ bits)`, `depth_in_page() = r`; it panics iff `d = 0` or `d > 256`. -/
theorem T2_node_index_spec (raw : List Bool) (depth : Nat) (hr : raw.length = 256) :
    (1 ≤ depth → depth ≤ 256 →
      ∃ p, Pos.fromPathAndDepth raw depth = some p ∧ p.path = raw.take depth ∧ p.depth = depth ∧
        p.nodeIndex = specIndex (raw.take depth) ∧ p.pageId = some (some (specPage (raw.take depth))) ∧
        p.depthInPage = specR depth) ∧
    (Pos.fromPathAndDepth raw depth = none ↔ depth = 0 ∨ 256 < depth) := by
  refine ⟨fun h1 h2 => ?_, fromPathAndDepth_none_iff raw depth hr⟩
  have hw := fromPathAndDepth_wf raw depth hr h1 h2
  exact ⟨_, fromPathAndDepth_eq raw depth hr h1 h2, rfl, rfl, rfl, pageId_eq _ hw h1, depthInPage_eq _ h1⟩

example : ∃ p, Pos.fromBitslice [true, false, true] = some p ∧ p.nodeIndex = 11 ∧ p.depth = 3 :=
  ⟨_, fromBitslice_eq _ (by decide) (by decide), by decide, rfl⟩
example : specIndex [true, false, true, true, false, false, true] = 1 ∧
    specPage [true, false, true, true, false, false, true] = [44] := by decide

/-- **T2.reach_invariant** every position the public API can build (any sequence of `new / from_path_and_depth /
from_bitslice / down / up / sibling`) has `depth ≤ 256`, carries `node_index = specIndex(path)` and, below the root,
`page_id = specPage(path)`, `depth_in_page = r`, and both `node_index()` and `sibling_index()` are `< 126 =
NODES_PER_PAGE`: `Page::node(index)` / `set_node(index)` are never called out of bounds through a position. -/
theorem T2_reach_invariant (p : Pos) (h : Reach p) :
    p.raw.length = 256 ∧ p.depth ≤ 256 ∧ p.path.length = p.depth ∧ p.nodeIndex = specIndex p.path ∧
    (p.depth = 0 → p.pageId = some none ∧ p.nodeIndex = 0) ∧
    (1 ≤ p.depth → p.pageId = some (some (specPage p.path)) ∧ p.depthInPage = specR p.depth ∧
      p.nodeIndex < NODES_PER_PAGE ∧ p.siblingIndex < NODES_PER_PAGE ∧
      ∀ pg : PageLayout.PageBytes, PageLayout.readNode pg p.nodeIndex ≠ none ∧
        PageLayout.readNode pg p.siblingIndex ≠ none) := by
  have hw := h.wf
  have hl := p.path_length hw
  refine ⟨hw.rawLen, hw.depthLe, hl, hw.idx, fun h0 => ⟨pageId_root p h0, ?_⟩, fun h1 => ?_⟩
  · have : p.path = [] := by apply List.length_eq_zero_iff.mp; rw [hl, h0]
    rw [hw.idx, this]; rfl
  · have hlt := wf_nodeIndex_lt p hw h1
    refine ⟨pageId_eq p hw h1, depthInPage_eq p h1, hlt.1, hlt.2, fun pg => ⟨?_, ?_⟩⟩
    · intro hn; have := (PageLayout.readNode_none_iff pg _).mp hn
      have := hlt.1; unfold NODES_PER_PAGE at this; unfold PageLayout.NODES_PER_PAGE at *; omega
    · intro hn; have := (PageLayout.readNode_none_iff pg _).mp hn
      have := hlt.2; unfold NODES_PER_PAGE at this; unfold PageLayout.NODES_PER_PAGE at *; omega

example : Reach Pos.new := Reach.new

/-- **T2.moves_total** on reachable positions the moves panic exactly where documented: `down` iff `depth = 256`,
`up(d)` iff `d > depth`, `sibling` / `peek_last_bit` iff at the root; `page_id` never (the two `unwrap`s inside it are
dead), and the `parent_node_index` underflow inside `up` is unreachable. -/
theorem T2_moves_total (p : Pos) (h : Reach p) :
    (∀ b, p.down b = none ↔ p.depth = 256) ∧ (∀ d, p.up d = none ↔ p.depth < d) ∧
    (p.sibling = none ↔ p.depth = 0) ∧ (p.peekLastBit = none ↔ p.depth = 0) ∧ p.pageId ≠ none := by
  have hw := h.wf
  refine ⟨fun b => down_none_iff p b hw, fun d => up_none_iff p d hw, sibling_none_iff p hw, ?_, ?_⟩
  · constructor
    · intro hn
      by_cases h0 : p.depth = 0
      · exact h0
      · obtain ⟨b, hb, _⟩ := wf_peekLastBit p hw (by omega)
        rw [hb] at hn; cases hn
    · intro h0; simp [Pos.peekLastBit, h0]
  · by_cases h0 : p.depth = 0
    · rw [pageId_root p h0]; simp
    · rw [pageId_eq p hw (by omega)]; simp

/-- **T2.down_spec / up_spec** `down(bit)` appends the bit, `up(d)` drops the last `d` bits (and the results are
reachable positions again, so every statement about reachable positions applies to them). -/
theorem T2_down_up_spec (p : Pos) (h : Reach p) :
    (∀ b, p.depth < 256 → ∃ q, p.down b = some q ∧ Reach q ∧ q.path = p.path ++ [b] ∧ q.depth = p.depth + 1) ∧
    (∀ d, d ≤ p.depth → ∃ q, p.up d = some q ∧ Reach q ∧ q.path = p.path.take (p.depth - d) ∧
      q.depth = p.depth - d) := by
  have hw := h.wf
  constructor
  · intro b hd
    obtain ⟨q, hq, _, hp, hd', _⟩ := wf_down p b hw hd
    exact ⟨q, hq, Reach.down p b q h hq, hp, hd'⟩
  · intro d hd
    obtain ⟨q, hq, _, hp, hd'⟩ := wf_up p d hw hd
    exact ⟨q, hq, Reach.up p d q h hq, hp, hd'⟩

/-- **T2.down_up** `down(b)` then `up(1)` gives the same position back (same depth, path and node index — only the
irrelevant bits of `raw_path` beyond the depth may differ), and `up(1)` then `down(last bit)` likewise. -/
theorem T2_down_up (p : Pos) (h : Reach p) :
    (∀ b q, p.down b = some q → ∃ q', q.up 1 = some q' ∧ q'.Same p) ∧
    (1 ≤ p.depth → ∃ q b q', p.up 1 = some q ∧ p.peekLastBit = some b ∧ q.down b = some q' ∧ q'.Same p) := by
  have hw := h.wf
  have hl := p.path_length hw
  constructor
  · intro b q hq
    have hd : p.depth < 256 := by
      have : p.depth ≠ 256 := fun h' => by rw [(down_none_iff p b hw).mpr h'] at hq; cases hq
      have := hw.depthLe; omega
    obtain ⟨q0, hq0, hqw, hqp, hqd, _⟩ := wf_down p b hw hd
    rw [hq0] at hq; injection hq with hq; subst hq
    obtain ⟨q', hq', hq'w, hq'p, _⟩ := wf_up q0 1 hqw (by omega)
    refine ⟨q', hq', wf_same_of_path q' p hq'w hw ?_⟩
    rw [hq'p, hqp, hqd, Nat.add_sub_cancel, ← hl, List.take_left']
    rfl
  · intro h1
    obtain ⟨q, hq, hqw, hqp, hqd⟩ := wf_up p 1 hw h1
    obtain ⟨b, hb, hsplit⟩ := wf_peekLastBit p hw h1
    obtain ⟨q', hq', hq'w, hq'p, _, _⟩ := wf_down q b hqw (by have := hw.depthLe; omega)
    refine ⟨q, b, q', hq, hb, hq', wf_same_of_path q' p hq'w hw ?_⟩
    rw [hq'p, hqp]
    conv => rhs; rw [hsplit]
    congr 1
    rw [← hl, ← List.dropLast_eq_take]

/-- **T2.sibling_involution** `sibling()` changes exactly the last bit of the path, lands on `sibling_index()`, and is
an involution. -/
theorem T2_sibling_involution (p : Pos) (h : Reach p) (h1 : 1 ≤ p.depth) :
    ∃ q b, p.sibling = some q ∧ Reach q ∧ p.path = p.path.dropLast ++ [b] ∧ q.path = p.path.dropLast ++ [!b] ∧
      q.depth = p.depth ∧ q.nodeIndex = p.siblingIndex ∧ q.siblingIndex = p.nodeIndex ∧
      ∃ q', q.sibling = some q' ∧ q'.Same p := by
  have hw := h.wf
  obtain ⟨q, b, hq, hqw, hp, hqp, hqd, hqi⟩ := wf_sibling p hw h1
  obtain ⟨q', b', hq', hq'w, hp', hq'p, _, _⟩ := wf_sibling q hqw (by omega)
  have hb' : b' = !b := by
    have := hp'
    rw [hqp] at this
    have e : [!b] = [b'] := List.append_inj_right' this (by simp)
    injection e with e
    exact e.symm
  refine ⟨q, b, hq, Reach.sibling p q h hq, hp, hqp, hqd, hqi, ?_, q', hq', wf_same_of_path q' p hq'w hw ?_⟩
  · rw [Pos.siblingIndex, hqi, Pos.siblingIndex, siblingIndexOf_involutive]
  · rw [hq'p, hqp, hb']
    conv => rhs; rw [hp]
    simp

/-- **T2.child_node_indices** inside a page (`depth_in_page ∈ 1…5`) `child_node_indices()` names exactly the node
indices `down(false)` / `down(true)` reach, in the same page (`in_next_page() = false`); on the bottom layer and at
the root it panics as documented and the children are the first layer `0 / 1` of the next page =
`ChildNodeIndices::from_left(0)` with `in_next_page() = true`. -/
theorem T2_child_node_indices (p : Pos) (h : Reach p) (hd : p.depth < 256) :
    (p.depth % 6 ≠ 0 → ∃ l, p.childNodeIndices = some l ∧ cniInNextPage l = false ∧
      ∀ b q, p.down b = some q → q.nodeIndex = (if b then cniRight l else cniLeft l) ∧ q.pageId = p.pageId) ∧
    (p.depth % 6 = 0 → p.childNodeIndices = none ∧ cniInNextPage 0 = true ∧
      ∀ b q, p.down b = some q → q.nodeIndex = (if b then cniRight 0 else cniLeft 0)) := by
  have hw := h.wf
  have hl := p.path_length hw
  constructor
  · intro h6
    have h1 : 1 ≤ p.depth := by omega
    refine ⟨_, wf_childNodeIndices_inside p hw h1 h6, by simp [cniInNextPage], ?_⟩
    intro b q hq
    obtain ⟨hpid, hidx, _⟩ := wf_down_inside p q b hw h1 h6 hq
    refine ⟨?_, hpid⟩
    rw [hidx]
    cases b <;> simp [cniLeft, cniRight] <;> omega
  · intro h6
    refine ⟨wf_childNodeIndices_boundary p h6, rfl, ?_⟩
    intro b q hq
    obtain ⟨q0, hq0, _, _, _, hqi⟩ := wf_down p b hw hd
    rw [hq0] at hq; injection hq with hq; subst hq
    rw [hqi, specIndex_single_page_start _ _ (by rw [hl]; exact h6)]
    cases b <;> rfl

/-- **T2.first_layer** `is_first_layer_in_page()` (the fast path `node_index & !1 == 0`) is true exactly for positions on
the first layer of their page (`depth ≡ 1 mod 6`) — and, a quirk of the encoding, at the root (`node_index = 0`). -/
theorem T2_first_layer (p : Pos) (h : Reach p) :
    p.isFirstLayerInPage = true ↔ p.depth = 0 ∨ p.depth % 6 = 1 := wf_isFirstLayer p h.wf

/-- **T2.page_slot_injective** two reachable positions below the root that share page id and node index have the
same path: two different trie positions never share a page slot. -/
theorem T2_page_slot_injective (p q : Pos) (hp : Reach p) (hq : Reach q) (h1 : 1 ≤ p.depth) (h2 : 1 ≤ q.depth)
    (hpid : p.pageId = q.pageId) (hidx : p.nodeIndex = q.nodeIndex) : p.path = q.path ∧ p.depth = q.depth := by
  have := wf_slot_injective p q hp.wf hq.wf h1 h2 hpid hidx
  exact ⟨this, (wf_same_of_path p q hp.wf hq.wf this).1⟩

/-- **T2.page_slot_surjective** every slot `i < 126` of every page id `P` (child indices `< 64`) whose layer still
lies inside the 256-bit key space — all 126 slots for depth `≤ 41`, the first 30 (four layers) for depth 42 — is the
slot of a reachable position, namely of `slotPath P i`. -/
theorem T2_page_slot_surjective (P : PageId) (i : Nat) (hP : PidValid P) (hi : i < 126)
    (hlen : 6 * P.length + layerOf i ≤ 256) :
    ∃ p, Reach p ∧ p.pageId = some (some P) ∧ p.nodeIndex = i ∧ p.path = slotPath P i := by
  obtain ⟨p, hp, _, hpid, hidx, hpath⟩ := slot_surjective P i hP hi hlen
  exact ⟨p, Reach.fromBitslice _ p hp, hpid, hidx, hpath⟩

example : slotPath [44, 3] 11 = [true, false, true, true, false, false, false, false, false, false, true, true,
    true, false, true] ∧ layerOf 11 = 3 ∧ layerOf 29 = 4 ∧ layerOf 30 = 5 := by decide

/-- **T2.child_page_round_trip** on the bottom layer of a page (`depth ≡ 0 mod 6`, `depth ≥ 6`) `child_page_index()`
is the last sextet of the path (`< 64`), `page_id().child_page_id(child_page_index())` succeeds and is the page id of
both children, whose `parent_page_id()` is the position's page again; above the bottom layer `child_page_index()`
panics (its `assert!`) and `down` stays in the page. -/
theorem T2_child_page_round_trip (p q : Pos) (b : Bool) (h : Reach p) (h1 : 1 ≤ p.depth) (hq : p.down b = some q) :
    (p.depth % 6 = 0 → ∃ P c, p.pageId = some (some P) ∧ p.childPageIndex = some c ∧ c < 64 ∧
      childPageId P c = .ok (P ++ [c]) ∧ q.pageId = some (some (P ++ [c])) ∧ parentPageId (P ++ [c]) = P ∧
      q.nodeIndex = b.toNat) ∧
    (p.depth % 6 ≠ 0 → q.pageId = p.pageId ∧ p.childPageIndex = none) := by
  constructor
  · intro h6; exact wf_down_page_boundary p q b h.wf h1 h6 hq
  · intro h6
    have := wf_down_inside p q b h.wf h1 h6 hq
    exact ⟨this.1, this.2.2⟩

/-- **T2.page_id_parent_child** `child_page_id` fails exactly at depth 42 (`PageIdOverflow`), otherwise appends the
index; `parent_page_id` undoes it, and every non-root id is the child of its parent at its last index. -/
theorem T2_page_id_parent_child (P : PageId) (c : Nat) :
    (P.length < MAX_PAGE_DEPTH → childPageId P c = .ok (P ++ [c]) ∧ parentPageId (P ++ [c]) = P ∧
      isDescendantOf (P ++ [c]) P = true ∧ pidLt P (P ++ [c]) = true) ∧
    (MAX_PAGE_DEPTH ≤ P.length → childPageId P c = .error .pageIdOverflow) ∧
    (∀ hne : P ≠ [], P.length ≤ MAX_PAGE_DEPTH → childPageId (parentPageId P) (P.getLast hne) = .ok P) ∧
    parentPageId [] = [] := by
  refine ⟨fun h => ⟨childPageId_ok P c h, parentPageId_child P c, ?_, ?_⟩, childPageId_err P c,
    fun hne hl => child_of_parent P hne hl, rfl⟩
  · exact (isDescendantOf_iff _ _).mpr ⟨[c], rfl⟩
  · have := pidLt_append_left P [] [c]
    rw [List.append_nil] at this
    rw [this]; rfl

/-- **T2.page_ids_iterator_spec** `PageIdsIterator::new(key)` yields exactly the page ids along the key path, root
first: item `j` is the list of the first `j` sextets of the key, 43 items (`j = 0 … 42`), then `None`; the
`ChildPageIndex::new(..).unwrap()` inside `next` never panics.  And it is the page path of positions: a reachable
position that contains the key (`subtrie_contains`) lives in item `⌊(depth−1)/6⌋`. -/
theorem T2_page_ids_iterator_spec (key : List Bool) (hk : key.length = 256) :
    (∀ n, PidIter.collect n (PidIter.new key) =
      some ((List.range (min n 43)).map fun j => sextetsOf (key.take (6 * j)))) ∧
    (∀ p, Reach p → 1 ≤ p.depth → p.subtrieContains key = true →
      p.pageId = some (some (sextetsOf (key.take (6 * ((p.depth - 1) / 6)))))) := by
  refine ⟨fun n => pidIter_collect key hk n, fun p hp h1 hc => ?_⟩
  have hw := hp.wf
  rw [pageId_eq p hw h1, specPage_of_prefix p.path key ((wf_subtrieContains p key).mp hc), p.path_length hw]

/-- **T2.key_range_spec** `min_key_path` / `max_key_path` never panic for depth `≤ 42` and bracket exactly the keys
whose path goes through the page: `min ≤ k ≤ max` (bit-lexicographic = the byte order of `[u8; 32]`) iff the bits of
the page id are a prefix of `k`; `is_descendant_of` is the prefix order on page ids, and the descendants of `p` are
exactly the ids in `[p, max_descendant(p)]` of the derived `Ord`. -/
theorem T2_key_range_spec (p : PageId) (hp : p.length ≤ MAX_PAGE_DEPTH) :
    (∃ lo hi, minKeyPath p = some lo ∧ maxKeyPath p = some hi ∧ lo.length = 256 ∧ hi.length = 256 ∧
      ∀ k : List Bool, k.length = 256 → ((bitsLe lo k && bitsLe k hi) = true ↔ pidBits p <+: k)) ∧
    (∀ q, isDescendantOf q p = true ↔ p <+: q) ∧
    (∀ q, PidOk q → ((pidLe p q && pidLe q (maxDescendant p)) = true ↔ p <+: q)) := by
  refine ⟨⟨_, _, keyPathFill_eq false p hp, keyPathFill_eq true p hp, ?_, ?_, ?_⟩,
    fun q => isDescendantOf_iff q p, fun q hq => ?_⟩
  · simp [pidBits_length]; unfold MAX_PAGE_DEPTH at hp; omega
  · simp [pidBits_length]; unfold MAX_PAGE_DEPTH at hp; omega
  · intro k hk
    rw [key_bracket_iff p k _ _ hp hk (keyPathFill_eq false p hp) (keyPathFill_eq true p hp)]
    exact List.isPrefixOf_iff_prefix
  · rw [descendant_iff_interval p q hp hq]; exact isDescendantOf_iff q p

example : minKeyPath [63] = some (pidBits [63] ++ List.replicate (256 - 6 * 1) false) :=
  keyPathFill_eq false [63] (by decide)

/-- **T2.subtrie_contains** `subtrie_contains(key)` iff the position's path is a prefix of the key; `shared_depth` is
the length of the common prefix of the two paths. -/
theorem T2_subtrie_contains (p : Pos) (key : List Bool) :
    (p.subtrieContains key = true ↔ p.path <+: key) ∧
    (∀ q : Pos, p.sharedDepth q = sharedBits p.path q.path) := ⟨wf_subtrieContains p key, fun _ => rfl⟩

/-- **T2.page_region_partition** what a worker owns: `PageRegion::from_page_id(p)` owns (exclusively) exactly the
descendants of `p`; a page it owns is `p` itself or lies in the region of exactly one child; the regions of distinct
children `excludes_unique` each other (both ways) and lie inside (`encompasses`) the parent's; and `excludes_unique` /
`encompasses` are sound for ownership — regions that exclude each other own no common page. -/
theorem T2_page_region_partition (p : PageId) (hp : p.length < MAX_PAGE_DEPTH) :
    (∀ q, PidOk q → ((Region.fromPageId p).containsExclusive q = true ↔ p <+: q)) ∧
    (∀ q, PidOk q → (Region.fromPageId p).containsExclusive q = true →
      q = p ∨ ∃ c, c < 64 ∧ (Region.fromPageId (p ++ [c])).containsExclusive q = true ∧
        ∀ c', c' < 64 → (Region.fromPageId (p ++ [c'])).containsExclusive q = true → c' = c) ∧
    (∀ c c', c < c' → (Region.fromPageId (p ++ [c])).excludesUnique (Region.fromPageId (p ++ [c'])) = true ∧
      (Region.fromPageId (p ++ [c'])).excludesUnique (Region.fromPageId (p ++ [c])) = true) ∧
    (∀ c, c < 64 → (Region.fromPageId p).encompasses (Region.fromPageId (p ++ [c])) = true) ∧
    (∀ (a b : Region) (q : PageId), a.excludesUnique b = true →
      ¬ (a.containsExclusive q = true ∧ b.containsExclusive q = true)) ∧
    (∀ (a b : Region) (q : PageId), a.encompasses b = true → b.containsExclusive q = true →
      a.containsExclusive q = true) := by
  refine ⟨fun q hq => ?_, fun q hq h => region_partition p q hp hq h, fun c c' h => excludesUnique_children p c c' h,
    fun c hc => encompasses_child p c hc hp, fun a b q h hab => excludesUnique_sound a b q h hab.1 hab.2,
    fun a b q h hb => encompasses_sound a b q h hb⟩
  rw [containsExclusive_fromPageId p q (by omega) hq]; exact isDescendantOf_iff q p

/-- **T2.region_descendants_spec** `PageRegion::from_page_id_descendants(p, lo, hi)` panics iff `lo > hi` or `p` is at
depth 42; otherwise it owns exactly the sub-trees of the children `lo … hi` of `p`. -/
theorem T2_region_descendants_spec (p : PageId) (lo hi : Nat) (hhi : hi < 64) :
    (Region.fromPageIdDescendants p lo hi = none ↔ hi < lo ∨ MAX_PAGE_DEPTH ≤ p.length) ∧
    (∀ r, Region.fromPageIdDescendants p lo hi = some r → ∀ q, PidOk q →
      (r.containsExclusive q = true ↔ ∃ c t, q = p ++ c :: t ∧ lo ≤ c ∧ c ≤ hi)) := by
  refine ⟨fromPageIdDescendants_none_iff p lo hi, fun r hr q hq => ?_⟩
  have hn : ¬ (hi < lo ∨ MAX_PAGE_DEPTH ≤ p.length) := fun h => by
    rw [(fromPageIdDescendants_none_iff p lo hi).mpr h] at hr; cases hr
  rw [fromPageIdDescendants_eq p lo hi (by omega) (by omega)] at hr
  injection hr with hr; subst hr
  exact containsExclusive_descendants p q lo hi (by omega) hhi hq

example : ∃ r, Region.fromPageIdDescendants [] 10 18 = some r ∧ r.containsExclusive [12, 63, 0] = true ∧
    r.containsExclusive [19] = false ∧ r.containsExclusive [] = false ∧ r.containsNonExclusive [] = true :=
  ⟨_, rfl, by decide, by decide, by decide, by decide⟩

/-- **T2.shard_owner** (C13) for every shard / worker count `1 ≤ n ≤ 64`: `shard_regions(n)` does not panic, has `n`
regions, and a non-root page `a :: t` is owned exclusively by the region of shard `i` iff `i = shard_index_for(n, a)`
(`= Shards.indexFor`, the table of T13.1) — the `debug_assert!` in `PageCache::shard_index_for` always holds and no
page belongs to two shards. -/
theorem T2_shard_owner (n : Nat) (h1 : 1 ≤ n) (h64 : n ≤ 64) (a : Nat) (t : PageId) (hq : PidOk (a :: t)) :
    ∃ rs, shardRegions n = some rs ∧ rs.length = n ∧ shardIndexFor n a = some (Shards.indexFor n a) ∧
      Shards.indexFor n a < n ∧
      ∀ i r c, rs[i]? = some (r, c) → (r.containsExclusive (a :: t) = true ↔ i = Shards.indexFor n a) :=
  shard_owner n h1 h64 a t hq

example : PidOk [17, 0, 63] :=
  ⟨by intro c hc; simp at hc; rcases hc with rfl | rfl | rfl <;> decide, by decide⟩

/-- **T2.monitor_slot_is_code_slot** the image monitor (`checkMerkle`, C16) looks where the code looks: its in-page
index arithmetic (`0 / 1`, then `2i+2 / 2i+3`) is `node_index`, its page-path arithmetic (`sextetVal`, `sextetBits`,
`pathBits`) is `PageId` of `trie_pos.rs`, and for a page `P` of depth `≤ 41` and every in-page path `b :: bs` (1…6
bits) through internal nodes, `checkPage` compares the page's node at the index of the reachable position
`P·(b :: bs)` with the specified node `nodeAt` of the keys below that position. -/
theorem T2_monitor_slot_is_code_slot (P : PageId) (s : List Store.KVH) (b : Bool) (bs : List Bool)
    (hPv : PidValid P) (hP : 6 * P.length + 6 ≤ 256) (h6 : bs.length ≤ 5)
    (ht : Store.Through (6 * P.length + 1) bs (side (6 * P.length) b s)) :
    (∃ p, Reach p ∧ p.path = pidBits P ++ b :: bs ∧ p.pageId = some (some P) ∧
      (p.nodeIndex, nodeAt blakeHasher (256 - p.depth) p.depth (Store.sidesAlong (6 * P.length) (b :: bs) s)) ∈
        Store.pageChecks P s) ∧
    Store.pathBits P = pidBits P ∧
    (∀ (k : Key) (j : Nat), 6 * j ≤ k.length →
      (List.range j).map (fun i => Store.sextetVal k (6 * i)) = sextetsOf (k.take (6 * j))) := by
  refine ⟨?_, Store.pathBits_eq_pidBits P, fun k j h => Store.monitor_page_path k j h⟩
  have hmem := Store.pageChecks_mem P s b bs hP h6 ht
  -- the reachable position with that path
  have hl1 : 1 ≤ (b :: bs).length := by simp
  have hl6 : (b :: bs).length ≤ 6 := by simp; omega
  have hlen : (pidBits P ++ b :: bs).length = 6 * P.length + (b :: bs).length := by
    rw [List.length_append, pidBits_length]
  have hne : pidBits P ++ b :: bs ≠ [] := by simp
  have h256 : (pidBits P ++ b :: bs).length ≤ 256 := by rw [hlen, List.length_cons]; omega
  have hpb : specPageBits (pidBits P ++ b :: bs).length = 6 * P.length := by
    rw [hlen, List.length_cons]; unfold specPageBits; omega
  obtain ⟨hw, hpath⟩ := wf_ofBits (pidBits P ++ b :: bs) h256
  have hlp : lp (pidBits P ++ b :: bs) = b :: bs := by
    unfold lp
    rw [hpb, List.drop_append_of_le_length (by rw [pidBits_length]; omega), ← pidBits_length P,
      List.drop_length, List.nil_append]
  have hfb := fromBitslice_eq (pidBits P ++ b :: bs) (by omega) h256
  refine ⟨_, Reach.fromBitslice _ _ hfb, hpath, ?_, ?_⟩
  · rw [pageId_eq _ hw (by show 1 ≤ (pidBits P ++ b :: bs).length; omega), hpath]
    unfold specPage
    rw [hpb, List.take_append_of_le_length (by rw [pidBits_length]; omega), ← pidBits_length P,
      List.take_length, sextetsOf_pidBits P hPv]
  · show (specIndex (pidBits P ++ b :: bs), _) ∈ _
    rw [specIndex_eq_nodeIndexOf_lp, hlp]
    show (_, nodeAt blakeHasher (256 - (pidBits P ++ b :: bs).length) (pidBits P ++ b :: bs).length _) ∈ _
    rw [hlen]
    exact hmem

/-- **T2.decode_not_inverse_of_encode** (recorded observation, DESIGN §6): `PageId::decode` is not the inverse of
`PageId::encode` as implemented — `decode(encode([23,18]))` is the depth-3 id `[23,17,63]`, `decode(encode([0]))` is
`[63]`.  Only the crate's own tests call `decode`. -/
theorem T2_decode_not_inverse_of_encode :
    pidDecode (pidEncode [23, 18]) = some (.ok [23, 17, 63]) ∧ pidDecode (pidEncode [0]) = some (.ok [63]) :=
  ⟨rfl, rfl⟩

/-- **T2.const** the literals of the mirrors are the constants of the sources (extracted on every run): `DEPTH = 6`,
`NODES_PER_PAGE = 2^(DEPTH+1) − 2 = 126`, `MAX_PAGE_DEPTH = 42`, `MAX_CHILD_INDEX = 63 = 2^DEPTH − 1`, `6·42 ≤ 256`,
and the 126 node slots end before the elided-children bitfield of the 4096-byte page. -/
theorem T2_const :
    DEPTH = Gen.DEPTH ∧ NODES_PER_PAGE = Gen.NODES_PER_PAGE ∧ MAX_PAGE_DEPTH = Gen.MAX_PAGE_DEPTH ∧
    MAX_CHILD_INDEX = Gen.MAX_CHILD_INDEX ∧ Gen.MAX_CHILD_INDEX + 1 = 2 ^ Gen.DEPTH ∧
    Gen.NODES_PER_PAGE = 2 ^ (Gen.DEPTH + 1) - 2 ∧ Gen.DEPTH * Gen.MAX_PAGE_DEPTH ≤ KEY_BITS ∧
    PageLayout.PAGE_SIZE = Gen.PAGE_SIZE ∧ PageLayout.NODES_PER_PAGE = Gen.NODES_PER_PAGE ∧
    32 * Gen.NODES_PER_PAGE ≤ PageLayout.ELIDED_OFF ∧ PageLayout.ELIDED_OFF + 8 = PageLayout.LABEL_OFF ∧
    PageLayout.LABEL_OFF + 32 = Gen.PAGE_SIZE := by decide

end Nomt.C02
