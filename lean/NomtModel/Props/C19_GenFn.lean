import NomtModel.Store.GenFnCheck
import NomtModel.Store.OvfArith
/-!
# C19 (topic: translated functions — how many pages an overflow value owns)

`total_needed_pages` decides how many pages the writer allocates, the readers follow and `delete` frees; the conservation theorems of
`Props/C19_Overflow.lean` are about the mirror `Ovf.totalNeededPages`, this file ties the mirror to the CURRENT Rust text.
-/
namespace Nomt.C19
open Nomt

/-- T19.fn the translated `total_needed_pages` / `needed_pages` equal the mirrors for every value size the store admits (and far beyond), and
never reach one of their panic sites (underflow of the three subtractions, overflow) -/
theorem T19_fn_total_needed_pages (v : Nat) (h : v < 2 ^ 48) :
    GenFn.total_needed_pages v = some (Ovf.totalNeededPages v) ∧ GenFn.needed_pages v = some (Ovf.neededPages v) :=
  ⟨GenFnCheck.total_needed_pages_eq v h,
   GenFnCheck.needed_pages_eq v (Nat.lt_trans h (by decide))⟩

example : GenFn.total_needed_pages 1 = some 1 ∧ GenFn.total_needed_pages (15 * 4092) = some 15 ∧ GenFn.total_needed_pages (15 * 4092 + 1) = some 16 := by decide

end Nomt.C19
