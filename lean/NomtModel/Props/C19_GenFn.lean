import NomtModel.Store.GenFnCheck4
import NomtModel.Store.OvfArith
/-!
# C19 (topic: translated functions — how many pages an overflow value owns)

`total_needed_pages` decides how many pages the writer allocates, the readers follow and `delete` frees; the conservation theorems of
`Props/C19_Overflow.lean` are about the mirror `Ovf.totalNeededPages`, this file ties the mirror to the CURRENT Rust text.
-/
namespace Nomt.C19
open Nomt

/-- T19.fn the translated `total_needed_pages` / `needed_pages` equal the mirrors for every value size the store admits (and far beyond), and
never reach one of their panic sites (underflow of the three subtractions, overflow) -/
theorem T19_fn_total_needed_pages (v : Nat) (h : v < 2 ^ 48) :
    GenFn.total_needed_pages v = some (Ovf.totalNeededPages v) ∧ GenFn.needed_pages v = some (Ovf.neededPages v) :=
  ⟨GenFnCheck.total_needed_pages_eq v h,
   GenFnCheck.needed_pages_eq v (Nat.lt_trans h (by decide))⟩

example : GenFn.total_needed_pages 1 = some 1 ∧ GenFn.total_needed_pages (15 * 4092) = some 15 ∧ GenFn.total_needed_pages (15 * 4092 + 1) = some 16 := by decide

/-- T19.fn-2 `CleanFreeList::get_nth_pop` of the CURRENT source (checked indexing into `portions`, `none` = out of bounds / underflow):
whenever it returns, it returns the value of the mirror `getNthPop` of `Store/FreeListNthPop.lean` (cap `1022 = MAX_PNS_PER_PAGE`), which
`getNthPop_spec` shows to be the `n`-th element of the pop sequence on well-shaped lists (partial: that the translated function does not
panic on well-shaped lists is not proved here; the examples below run it) -/
theorem T19_fn_get_nth_pop_partial (rp : List Store.FreeList.Portion) (frag : Bool) (n v : Nat) (hn : n < 2 ^ 63)
    (h : GenFn.get_nth_pop rp frag n = some v) : v = Store.FreeList.getNthPop 1022 rp frag n :=
  GenFnCheck.get_nth_pop_eq rp frag n v hn h

/-- T19.fn-3 `PageNumber::is_nil`: page number `0` is the nil page -/
theorem T19_fn_page_number_is_nil (pn : Nat) : GenFn.page_number_is_nil pn = some (decide (pn = 0)) := rfl

example : GenFn.get_nth_pop [(9, [20, 21]), (5, [10, 11, 12])] false 0 = some 12 ∧
    GenFn.get_nth_pop [(9, [20, 21]), (5, [10, 11, 12])] false 2 = some 10 ∧
    GenFn.get_nth_pop [(5, [10, 11, 12])] false 3 = none ∧ GenFn.get_nth_pop [(5, [10]), (6, [7])] true 0 = some 7 := by decide

end Nomt.C19
