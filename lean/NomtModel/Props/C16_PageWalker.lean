import NomtModel.Store.WalkerSimTop
import NomtModel.Store.WalkerF20
import NomtModel.Store.WalkerExample
/-!
# C16 — the `PageDiff` the page walker hands to the WAL (`nomt/src/merkle/page_walker.rs`)

`T3_redo_reproduces_iff` (`Props/C03_Wal.lean`): redo reproduces the writer's page **iff** the diff names every slot where
the bucket's old content differs.  The theorem below supplies that premise for the walker (as repaired by finding F20):
the diff of every page `conclude` hands out names every slot whose content differs from what the page started from (the
page of the page set, or the pool page `fresh` handed out).  The kernel-checked counterexample is finding F20: with the
`set_node` of before the repair the mirror produces a page whose diff omits a slot that changed.

Partial: same scope as `T2_walker_root_partial` (no elided sub-trie entered, no parent page); only the direction the WAL
needs — that every named slot was in fact (re)written is not stated; reconstructed and promoted pages: see
`Props/C16_WalkRecon.lean` (`T16_reconstruction_diff_names_changes`, `T16_promoted_page_diff`: the diff handed out is the join with
the reconstruction diff, `StackPage.totalDiff`; kernel-checked counterexample of the seeded change that drops it).
-/
namespace Nomt.C16
open Nomt Nomt.Walker Nomt.TriePos

variable {Node VH : Type} [DecidableEq Node] [DecidableEq VH] (H : Hasher Node VH)

/-- **T16_walker_diff_exact (partial: the direction the WAL needs)**: every page of the output is an `UpdatedPage` whose
`PageDiff` names every slot `i < 126` whose content differs from the content the page started from — the page the page set
holds under that id, or the page `fresh` handed out for it. -/
theorem T16_walker_diff_names_changes_partial (hs : H.Sound) (ps : PageSet Node) (root : Node) {S S' : List (Key × VH)}
    (hS : KeysOK S) (hS' : KeysOK S') {steps : List (Step VH)} (hso : ScriptOK S S' steps) (hps : PSOK ps steps)
    (hrep : Represents H ps root S) (inhibit : Bool) :
    ∃ w' r pages, (Walker.start root inhibit).runM H ps steps = .ok w' ∧ w'.conclude H = .ok (.root r pages) ∧
      ∀ o ∈ pages, ∃ P pg d b base, o = .updated P pg d b ∧
        (base = ps.fresh P ∨ ∃ e og, ps.get P = some (⟨base, e⟩, og)) ∧
        ∀ i, i < 126 → pg.nodes.getD i H.term ≠ base.getD i H.term → d.changed i = true := by
  have hrepR := rep_matR H ps hS hso hrep
  have hDp : PathsIn (MatR ps steps) steps := by
    intro s hs' x hx hne
    have := pathsIn_of_psok ps hps s hs' x hx hne
    exact ⟨Or.inl this.1, Or.inl this.2⟩
  obtain ⟨w', hw', hinv⟩ := runInv_run H ps hs hS hS' hrepR (Or.inl (Or.inl rfl)) steps [] _ _
    (by simpa using hso) (by simpa using hps) (by simpa using hDp) (by intro P0 hp; cases hp)
    (runInv_start H ps _ none root S S' steps inhibit)
  simp only [List.nil_append] at hinv
  obtain ⟨pages, hc, hp⟩ := conclude_spec H ps hs hS hS' hso hrepR (Or.inl (Or.inl rfl)) hinv
  refine ⟨w', _, pages, hw', hc, ?_⟩
  intro o ho
  obtain ⟨P, pg, d, b, e, _, _, base, hbase, hdn⟩ := hp o ho
  exact ⟨P, pg, d, b, base, e, hbase, hdn⟩

/-- the hypotheses are met by the concrete walk of `Store/WalkerExample.lean` -/
example : ∃ w' r pages, (Walker.start T.term false).runM TH Ex.exPs Ex.exSteps = .ok w' ∧
    w'.conclude TH = .ok (.root r pages) ∧
    ∀ o ∈ pages, ∃ P pg d b base, o = .updated P pg d b ∧
      (base = Ex.exPs.fresh P ∨ ∃ e og, Ex.exPs.get P = some (⟨base, e⟩, og)) ∧
      ∀ i, i < 126 → pg.nodes.getD i TH.term ≠ base.getD i TH.term → d.changed i = true :=
  T16_walker_diff_names_changes_partial TH TH_sound Ex.exPs T.term Ex.exKeys Ex.exKeys' Ex.exScript Ex.exPSOK Ex.exRep false

/-- **finding F20, kernel-checked on the mirror**: with `set_node` as it was before the repair (`preFix`), the two commits
`{a, b}` then `{delete a, delete b, insert c, d}` (page `[10]`: slot 0 internal → terminator, slot 1 terminator → internal)
end with page `[10]` handed out with a diff that does NOT name slot 0 although slot 0 changed. -/
theorem T16_walker_diff_prefix_counterexample : F20.verdict true = some (true, false) := by decide +kernel

/-- … and with the repaired `set_node` the same history names the slot -/
theorem T16_walker_diff_repaired_instance : F20.verdict false = some (true, true) := by decide +kernel

end Nomt.C16
