import NomtModel.Store.ExtRangePhase
import NomtModel.Store.ExtRangeSorted
import NomtModel.Store.ExtRangeToy
/-!
# C13 — the multi-worker split of the beatree update and its extend-range protocol

Mirror: `Store/ExtRangeModel.lean` (`NodesTracker`, `try_answer_left_neighbor`, `request_range_extension`, the
`run_worker` loops of `leaf_stage.rs` / `branch_stage.rs` as a labelled transition system over an abstract node updater
`Upd`; a schedule = a list of worker indices, EVERY interleaving of the worker threads is one), `Store/ExtRangePrep.lean`
(`prepare_workers`).  The one-worker mirrors of `LeafUpdater` / `BranchUpdater` are instances of `Upd`
(`Driver/ExtRangeMode.lean`): the theorems below hold for them.  Tie: `vharness extrange` ↔ `nomt_model extrange` (the real
`leaf_stage::run` / `branch_stage::run` with 1 … 8 workers: initial `WorkerParams`, every `ExtendRangeResponse`, every
worker's final tracker, the resulting level).
-/
namespace Nomt.C13
open Nomt Nomt.ExtRange

/-- **T13.prepare_workers_partition** — for EVERY worker count `≥ 1`, every level lookup that answers with a separator
`≤` the key, every non-empty ascending change list: `prepare_workers` returns between 1 and `count` workers; the first
starts at op 0 with `low = None` and no left neighbour, the last ends at the last op with `high = None` and no right
neighbour; consecutive workers are adjacent (`high = low'` a separator, `op_range.end = op_range.start'`, linked by a
channel); every op range is non-empty (so `changeset[op_range.start]` never panics) and every op of a worker lies in its
separator range `[low, high)`; separator ranges are non-empty (`low < high`). -/
theorem T13_prepare_workers_partition (look : Nat → Option Nat) (hlook : ∀ k s, look k = some s → s ≤ k)
    (keys : List Nat) (hasc : Asc keys) (hne : keys ≠ []) (count : Nat) :
    ChainOK keys keys.length none 0 false (prepareWorkers look keys count) ∧
      (prepareWorkers look keys count).length ≤ (count - 1) + 1 := by
  have hlen : 0 < keys.length := List.length_pos_iff.2 hne
  exact prepLoop_chain look hlook keys hasc keys.length (count - 1) 0 keys
    { low := none, high := none, start := 0, stop := keys.length, left := false, right := false }
    (by simp) (Nat.zero_le _) rfl rfl rfl (Nat.le_refl _) hlen (fun _ _ l _ _ h => by cases h)

/-- **T13.op_ranges_cover** — every op index belongs to some worker (with the adjacency of `ChainOK`: to exactly one). -/
theorem T13_op_ranges_cover (keys : List Nat) (total : Nat) : ∀ (ws : List WP) (low : Option Nat) (start : Nat) (left : Bool),
    ChainOK keys total low start left ws → ∀ j, start ≤ j → j < total → ∃ w ∈ ws, w.start ≤ j ∧ j < w.stop
  | [], _, _, _, h, _, _, _ => by simp [ChainOK] at h
  | [w], _, start, _, h, j, h1, h2 => by
    obtain ⟨_, hs, _, _, ht, _, _, _⟩ := h
    exact ⟨w, by simp, by omega, by omega⟩
  | w :: w' :: rest, _, start, _, h, j, h1, h2 => by
    obtain ⟨_, hs, _, _, _, _, _, hrest⟩ := h
    rcases Nat.lt_or_ge j w.stop with hj | hj
    · exact ⟨w, by simp, by omega, hj⟩
    · obtain ⟨x, hx, hx1, hx2⟩ := T13_op_ranges_cover keys total (w' :: rest) _ _ _ hrest j hj h2
      exact ⟨x, List.mem_cons_of_mem _ hx, hx1, hx2⟩

/-- **T13.protocol_invariant_every_schedule** — for every node updater, every level, every change list, every worker
count and EVERY interleaving `s` of the worker threads (the code as it is: `staleHigh = false`, `highMax = false`; leaf or branch stage, with
or without the `single-merge` change), started in the state `run` spawns the workers in: the run never reaches a PROTOCOL
panic site (`right_neighbor.unwrap()`, a `send` on a disconnected channel, `rx.recv().unwrap()` after the responder is gone,
a response to a requester that does not wait, a request dropped with its `Receiver`, `assert!(pending_left_request
.is_none())`) — a panic can only be one of the updater / tracker sites `updSites` (ruled out for the one-worker mirrors by
`T1_leaf_update_total` / `T1_branch_update_total` on their own levels) — and every state reached satisfies the protocol
invariant `AInv`: requests travel right (`i < j` for every sender `i` of channel `j`), every channel has at most one sender
and at most one outstanding request, whose sender is blocked until the answer; a worker that waits has its request in the
channel, pending at the neighbour, or its answer in its slot; the receiver of a live sender has not returned; `range.high =
Some` implies a right neighbour (before the worker finished its workload). -/
theorem T13_protocol_invariant_every_schedule {σ N C : Type} (U : Upd σ N C) (cfg : Cfg) (hs : cfg.staleHigh = false)
    (hm : cfg.highMax = false) (db : List (DbN N)) (cs : List (Nat × C)) (look : Nat → Option Nat) (hlook : ∀ k s, look k = some s → s ≤ k)
    (hasc : Asc (cs.map (·.1))) (hne : cs ≠ []) (count : Nat) (s : List Nat) :
    match runSched U cfg db s (initG U cfg db cs (prepareWorkers look (cs.map (·.1)) count)) with
    | .inr g' => AInv (absG g')
    | .inl site => site ∈ updSites := by
  have hc := (T13_prepare_workers_partition look hlook (cs.map (·.1)) hasc (by simpa using hne) count).1
  exact inv_runSched U cfg db hs hm s _ (inv_init U cfg db cs (cs.map (·.1)) _ none 0 false hc)

/-- **T13.no_deadlock** — no cyclic wait: in every reachable state (any state with the protocol invariant) in which some
worker has not returned, some worker can take a step that is not `blocked`: a move that keeps the invariant, or a panic of
the updater / tracker.  Requests travel right and responses left; a deferred request is answered at the latest when the
right worker has finished its workload (`answer … true ≠ none`).  Hence every FINITE maximal run ends with all workers
returned (or in an updater panic).  Fairness: none is needed for this statement — a blocking `recv` is a disabled step, not a
spin.  Termination of every run additionally needs that the updater's loops terminate (each `NeedsMerge` is followed by a
`reset_base` that consumes a node of the finite level or removes the cutoff) — not proved here for an abstract updater. -/
theorem T13_no_deadlock {σ N C : Type} (U : Upd σ N C) (cfg : Cfg) (hs : cfg.staleHigh = false) (hm : cfg.highMax = false) (db : List (DbN N))
    (g : G σ N C) (h : AInv (absG g)) (hnd : allDone g = false) :
    ∃ i, i < g.n ∧ ((∃ g', step U cfg db g i = .ok g' ∧ AInv (absG g')) ∨
      ∃ site, step U cfg db g i = .panic site ∧ site ∈ updSites) :=
  progress U cfg db hs hm g h hnd

/-- **T13.deferred_request_answered** — `try_answer_left_neighbor(.., has_finished_workload = true)` always answers. -/
theorem T13_deferred_request_answered {N : Type} (inner : Inner N) (low high right : Option Nat) :
    answer inner low high right true ≠ none := answer_fin inner low high right

/-- **T13.answer_stable** — the core of schedule independence: an answer that can be given from a tracker (before the
worker has finished) is the answer given from ANY later tracker that has the same entries followed by more — finished or
not — and the additional entries stay with the responder.  So it does not matter at which of its polls a worker answers a
request, provided the entries it produces later come behind the ones it has (`T13_tracker_keys_ascend_every_schedule`). -/
theorem T13_answer_stable {N : Type} (inner ext : Inner N) (low high right : Option Nat) (fin : Bool) (resp : Resp N)
    (inner' : Inner N) (relink : Bool) (h : answer inner low high right false = some (resp, inner', relink)) :
    answer (inner ++ ext) low high right fin = some (resp, inner' ++ ext, relink) :=
  answer_stable inner ext low high right fin resp inner' relink h

/-- **T13.tracker_keys_ascend_every_schedule** — for every updater that satisfies the key laws `KeyLaws` (the separators one
`digest` emits lie below the bound `lb` of the state it leaves, and no call lowers `lb` — the per-call form of "separators
ascend", `T1_*_separators_chain` for the real updaters along one worker's run), for every level, change list, worker count
and EVERY interleaving: in every state reached, every produced node a worker holds sits in its tracker under a separator
below `lb` of its updater, and in every response in flight only the last entry carries a node.  Hence `NodesTracker::insert`
never replaces a produced node (the next separators are `≥ lb`), and what a worker appends to its tracker later lies behind
its produced nodes — the premise of `T13_answer_stable`. -/
theorem T13_tracker_keys_ascend_every_schedule {σ N C : Type} (U : Upd σ N C) (lb : σ → Nat) (KL : KeyLaws U lb) (cfg : Cfg)
    (hs : cfg.staleHigh = false) (hm : cfg.highMax = false) (db : List (DbN N)) (cs : List (Nat × C))
    (look : Nat → Option Nat) (hlook : ∀ k s, look k = some s → s ≤ k) (hasc : Asc (cs.map (·.1))) (hne : cs ≠ [])
    (count : Nat) (s : List Nat) :
    match runSched U cfg db s (initG U cfg db cs (prepareWorkers look (cs.map (·.1)) count)) with
    | .inr g' => KInv lb g'
    | .inl _ => True := by
  have hc := (T13_prepare_workers_partition look hlook (cs.map (·.1)) hasc (by simpa using hne) count).1
  exact kinv_runSched KL cfg db hs hm s _ (inv_init U cfg db cs (cs.map (·.1)) _ none 0 false hc)
    (kinv_init U lb cfg db cs _)

/-- **T13.no_extension_in_scope_loop_every_schedule** — for every updater with the scope laws (`is_in_scope(k)` = "`k` below
the cutoff"; `NeedsMerge(c)` returns the cutoff), every level, change list, worker count and EVERY interleaving: in every
state reached (`PInv`) the remaining ops of every worker and the key it is about to hand to `reset_*_base` inside the
`while !is_in_scope(key)` loop are below its `range.high`, the program point "waiting for a response inside the scope loop"
is never reached, and a worker that has entered the final merge loop has no ops left.  So the range-extension branch of the
scope loop of both `run_worker`s is dead code, extensions happen in the final merge loop only, and a worker never polls its
left neighbour after it has extended its range: the answers it gives in the scope loop are computed from nodes of its own
initial range only. -/
theorem T13_no_extension_in_scope_loop_every_schedule {σ N C : Type} (U : Upd σ N C) (cutoffOf : σ → Option Nat)
    (SL : ScopeLaws U cutoffOf) (cfg : Cfg) (hs : cfg.staleHigh = false) (hm : cfg.highMax = false) (db : List (DbN N))
    (cs : List (Nat × C)) (look : Nat → Option Nat) (hlook : ∀ k s, look k = some s → s ≤ k) (hasc : Asc (cs.map (·.1)))
    (hne : cs ≠ []) (count : Nat) (s : List Nat) :
    match runSched U cfg db s (initG U cfg db cs (prepareWorkers look (cs.map (·.1)) count)) with
    | .inr g' => PInv g'
    | .inl _ => True := by
  have hc := (T13_prepare_workers_partition look hlook (cs.map (·.1)) hasc (by simpa using hne) count).1
  exact pinv_runSched SL cfg db hs hm s _ (inv_init U cfg db cs (cs.map (·.1)) _ none 0 false hc)
    (pinv_init U cfg db cs _ none 0 false hc)

/-- FULL statement wanted (NOT proved in general): for every updater, level, change list and worker count the level the
stage produces is the same for every two complete schedules. -/
def ScheduleIndependent {σ N C : Type} (U : Upd σ N C) (cfg : Cfg) (db : List (DbN N)) (cs : List (Nat × C))
    (wps : List WP) (res : G σ N C → Option (List (List Nat))) : Prop :=
  ∀ s1 s2 g1 g2, runSched U cfg db s1 (initG U cfg db cs wps) = .inr g1 → runSched U cfg db s2 (initG U cfg db cs wps) = .inr g2 →
    allDone g1 = true → allDone g2 = true → res g1 = res g2

/-- **T13.result_schedule_independent_partial** — kernel-checked on the toy instance `lvlA` / `csA` (2 workers, an
under-full last node, the right worker's first node emptied, an unchanged range granted, a split followed by a second
merge): ALL 128 schedules whose first 21 steps are 7 freely chosen bursts of three steps of either worker (then round
robin) produce the same level, and it is the level of the one-worker run.  Missing for the full statement `ScheduleIndependent`: an answer given at a later poll equals the one
given at an earlier poll (the scanned prefix of the tracker is final), for an abstract updater.  Evidence on the real code:
the `extrange` differential compares the real threads' result, node by node, with the mirror's under two fixed schedules. -/
theorem T13_result_schedule_independent_partial :
    (Toy.allPicks 7).all (fun s => Toy.stageSched {} Toy.lvlA Toy.csA (s.flatMap fun i => [i, i, i]) ==
      some [[10, 30, 31, 32], [33, 40, 41, 42], [50, 51, 52, 53]]) = true ∧
    (Toy.stage {} Toy.lvlA Toy.csA 1 false 1000).map (·.1) = some [[10, 30, 31, 32], [33, 40, 41, 42], [50, 51, 52, 53]] := by
  constructor <;> decide +kernel

/-- **T13.worker_count_independent_partial** — kernel-checked on the toy instance: 1, 2, 3, 4 and 5 workers, under the
schedule "each worker until it blocks, left to right" and under "one step each, right to left", produce the same level, whose
content is the specification (the key set with the changes applied). -/
theorem T13_worker_count_independent_partial :
    ([1, 2, 3, 4, 5].all fun n => [(false, 1000), (true, 1)].all fun p =>
      (Toy.stage {} Toy.lvlA Toy.csA n p.1 p.2).map (·.1) == some [[10, 30, 31, 32], [33, 40, 41, 42], [50, 51, 52, 53]]) = true ∧
    [[10, 30, 31, 32], [33, 40, 41, 42], [50, 51, 52, 53]].flatten = Toy.specKeys Toy.lvlA Toy.csA := by
  constructor <;> decide +kernel

/-- **T13.seeded_high_max_counterexample** — the mirror with `range.high = range.high.max(response.new_high_range)`
(seeded change `C13-extend-range-high-max`; `None` = unbounded sorts below `Some`): the last worker's first node is emptied
and an untouched tail follows, so its answer is "everything up to the end is yours" (`new_high_range = None`) and the left
worker keeps its stale finite bound; its second merge into the tail sends a bogus request (answered with "no right neighbour
left"), its third reaches `right_neighbor.as_ref().unwrap()` on `None`: with 2 and with 3 workers, under both schedule
policies, the stage PANICS (the result depends on the worker count — C13), while one worker, and the code as it is with any
worker count, produce the sequential content.  `T13_protocol_invariant_every_schedule` excludes exactly this site for the
code as it is. -/
theorem T13_seeded_high_max_counterexample :
    ([2, 3].all fun n => [(false, 1000), (true, 1)].all fun p =>
      Toy.stagePanic { highMax := true } Toy.lvlC Toy.csC n p.1 p.2 == some "right_neighbor.as_ref().unwrap()") = true ∧
    (Toy.stagePanic { highMax := true } Toy.lvlC Toy.csC 1 false 1000).isNone = true ∧
    ([1, 2, 3].all fun n => [(false, 1000), (true, 1)].all fun p =>
      ((Toy.stage {} Toy.lvlC Toy.csC n p.1 p.2).map fun r => r.1.flatten) == some (Toy.specKeys Toy.lvlC Toy.csC)) = true := by
  refine ⟨?_, ?_, ?_⟩ <;> decide +kernel

/-- **T13.worker_keys_once_every_schedule** — what DOES hold about the list handed to `filter_*_changeset`, for every updater,
level, change list, worker count and EVERY interleaving: every worker's tracker keeps strictly ascending keys (`SInv`; the
mirror's `upsert` / `extend` / `pop_first` keep the order the `BTreeMap` has by construction), so every worker hands every
separator to `apply_*_changes` AT MOST ONCE and in key order — the premise `hasc` of Q38's `T1_filter_disjoint_workers`.  The
other premise (`hdis`: no separator in two workers' lists) is false in general (`T13_trackers_disjoint_counterexample`): a
separator can occur in the lists of two workers.  That it then occurs exactly twice, once with `Some` and once with `None`
(Q38's `PairInv`, the contract of the duplicate branch), is what the real code showed in every run (`extrange` oracle: the
stage does not panic in `filter_*_changeset`, the content is the sequential one) and is NOT proved. -/
theorem T13_worker_keys_once_every_schedule {σ N C : Type} (U : Upd σ N C) (cfg : Cfg) (hs : cfg.staleHigh = false)
    (hm : cfg.highMax = false) (db : List (DbN N)) (cs : List (Nat × C)) (look : Nat → Option Nat)
    (hlook : ∀ k s, look k = some s → s ≤ k) (hasc : Asc (cs.map (·.1))) (hne : cs ≠ []) (count : Nat) (s : List Nat) :
    match runSched U cfg db s (initG U cfg db cs (prepareWorkers look (cs.map (·.1)) count)) with
    | .inr g' => ∀ i, (workerChanges (g'.ws i)).1.Pairwise (fun a b => a.1 < b.1)
    | .inl _ => True := by
  have hc := (T13_prepare_workers_partition look hlook (cs.map (·.1)) hasc (by simpa using hne) count).1
  have := sinv_runSched U cfg db hs hm s _ (inv_init U cfg db cs (cs.map (·.1)) _ none 0 false hc)
    (sinv_init U cfg db cs _)
  cases hr : runSched U cfg db s (initG U cfg db cs (prepareWorkers look (cs.map (·.1)) count)) with
  | inl _ => trivial
  | inr g' => rw [hr] at this; exact fun i => workerChanges_sorted _ (this i)

/-- FULL statement asked for — `T13_trackers_disjoint_every_schedule` — FALSE (see the two counterexamples below): "when the
workers have returned no separator is held by two workers' trackers". -/
def TrackersDisjoint {σ N C : Type} (g : G σ N C) : Prop :=
  ∀ i j, i < g.n → j < g.n → i ≠ j → ∀ k e e', (k, e) ∈ (g.ws i).tr.inner → (k, e') ∈ (g.ws j).tr.inner → False

/-- **T13.trackers_disjoint_counterexample** (kernel-checked; the real `leaf_stage::run` and `branch_stage::run` do the same:
`extrange` family `dup`) — the statement "no separator is ever held by two workers' trackers" is FALSE, for the `LeafUpdater`
convention too.  Toy updater that splits in the middle (`updH`), level `[10..13] [20,21] [30,31,32] [40,41,42]`, changes: delete
11, 12, 13 and 21, two workers, both schedule policies: the right worker merges its under-full first node `[20]` with
`[30,31,32]` — the node under 20 is handed to the left worker, the delete mark `(30, None)` of the merged-away node stays in
the right worker's tracker (its `next_separator` 40 became the right worker's `range.low`: the mark lies BELOW `low`); the left
worker merges its rest `[10]` with `[20,30,31,32]`, splits in the middle and produces a node under the separator 30.  When
both return, worker 0 hands `(10,Some) (20,None) (30,Some)` and worker 1 hands `(30,None)` to `apply_*_changes`: the
duplicate branch of `filter_*_changeset` is TAKEN (it keeps the `Some`), and the resulting level is the sequential content.
So `T1_filter_duplicate_branch_dead` is false as well; what does hold is the filter's own contract (Q38's `PairInv`: equal
separators come in pairs, one `Some` one `None`), which this instance satisfies. -/
theorem T13_trackers_disjoint_counterexample :
    ([(false, 1000), (true, 1)].all fun p =>
      Toy.stageParts Toy.updH Toy.lvlE Toy.csE 2 p.1 p.2 ==
        some ([[(10, true), (20, false), (30, true)], [(30, false)]], [[10, 20], [30, 31, 32], [40, 41, 42]])) = true ∧
    [[10, 20], [30, 31, 32], [40, 41, 42]].flatten = Toy.specKeys Toy.lvlE Toy.csE := by
  constructor <;> decide +kernel

/-- **T13.tracker_key_below_low_counterexample** (kernel-checked) — the lower side of the tracker law, "every key in a
worker's tracker is `≥` its `range.low`", is FALSE.  (a) `BranchUpdater` convention (`updB`: both halves of a split get the
cutoff as `next_separator`): the right worker's first node `[20..23]` + the inserts 24, 25 splits into the nodes under 20
and 24; after the answer that hands over the node under 20 the right worker's `range.low` is 30 and its tracker still holds
the produced node under 24.  (b) `LeafUpdater` convention (`updH`, the instance above): after the answer the right worker's
`range.low` is 40 and its tracker holds the delete mark under 30.  The real code shows both (`extrange` counters
`*_entry_held_below_low`: an entry handed over under a key below an earlier `new_high_range` of the same responder). -/
theorem T13_tracker_key_below_low_counterexample :
    Toy.trackersAt Toy.updB Toy.lvlD Toy.csD [] 8 = some [(none, [10]), (some 30, [24])] ∧
    Toy.trackersAt Toy.updH Toy.lvlE Toy.csE [] 9 = some [(none, [10, 20, 30]), (some 40, [30])] := by
  constructor <;> decide +kernel

/-! ## non-vacuity -/

/-- the toy updater satisfies the scope laws -/
example : ScopeLaws Toy.upd (fun st => st.cutoff) := by
  refine ⟨fun st k => rfl, ?_⟩
  intro st st' outs c h
  simp only [Toy.upd, Toy.digest, Toy.digestG, Bool.false_eq_true, if_false] at h
  split at h
  · cases h
  · split at h
    · split at h
      · cases h
      · split at h
        · cases h
        · split at h
          · rename_i c' hc; simp only [Option.some.injEq, Prod.mk.injEq] at h; rw [hc]; exact congrArg some h.2.2
          · cases h
    · split at h
      · cases h
      · split at h
        · rename_i c' hc; simp only [Option.some.injEq, Prod.mk.injEq] at h; rw [hc]; exact congrArg some h.2.2
        · cases h

/-- an updater that satisfies the key laws: it emits one node per `digest`, under the next free separator -/
example : KeyLaws (σ := Nat) (N := Unit) (C := Unit)
    { init := 0, inScope := fun _ _ => true, resetBase := fun st _ _ => st, removeCutoff := fun st => st,
      ingest := fun st _ _ => some st, digest := fun st => some (st + 1, [(st, (), none)], none) } (fun st => st) := by
  refine ⟨?_, fun _ _ _ => Nat.le_refl _, fun _ => Nat.le_refl _, ?_⟩
  · intro st st' outs r h
    simp only [Option.some.injEq, Prod.mk.injEq] at h
    obtain ⟨h1, h2, _⟩ := h
    subst h1 h2
    exact ⟨fun o ho => by simp at ho; subst ho; exact Nat.lt_succ_self _, Nat.le_succ _⟩
  · intro st k c st' h
    simp only [Option.some.injEq] at h; subst h; exact Nat.le_refl _


/-- `prepare_workers` on the toy level: two workers, adjacent at the separator 20 -/
example : prepareWorkers (Toy.look (Toy.mkDb Toy.lvlA)) (Toy.csA.map (·.1)) 2 =
    [{ low := none, high := some 20, start := 0, stop := 3, left := false, right := true },
     { low := some 20, high := none, start := 3, stop := 6, left := true, right := false }] := by decide

/-- the hypotheses of `T13_protocol_invariant_every_schedule` are met by the toy instance, whose run uses the protocol:
the left worker receives two responses' worth of entries and the run ends with all workers returned -/
example : Asc (Toy.csA.map (·.1)) ∧ Toy.csA ≠ [] := by
  constructor
  · unfold Asc; decide
  · decide

end Nomt.C13
