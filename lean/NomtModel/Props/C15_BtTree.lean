import NomtModel.Api.BtTreeInv
import NomtModel.Props.C05_BtIter
/-!
# C15 — the beatree `Tree` object: a read transaction reads ONE committed state, for as long as it lives

Property theorems about the state machine of `Api/BtTreeModel.lean` (mirror of `Shared`, `Tree::{commit, read_transaction,
prepare_sync, finish_sync}`, `SyncController`, `ReadTransactionCounter` of `nomt/src/beatree/mod.rs`; helper lemmas in
`Api/BtTreeFrame.lean`, `Api/BtTreeInv.lean`).  Tie to the code: harness command `bttree` (the REAL `Tree` on a scratch
directory, hook `verif_api::beatree_tree`) vs driver mode `bttree`, which runs `step` on every line and evaluates the
contract `finishOKb` of `ops::update` on the pages and the index the real sync produced.
-/
namespace Nomt.C15
open Nomt Nomt.Ovl Nomt.BtTree
variable {α : Type} [DecidableEq α]

/-- **T15.tree-snapshot** — for EVERY sequence of steps the protocol permits (commits at any time, also while a sync
is in flight; `gate` only when no read transaction lives; `write` only to pages that were free or fresh when the
previous sync finished; `finish` only with an index that satisfies the contract of `update`; read transactions begun
and dropped at any phase): a read transaction begun in state `s0` answers, in EVERY later state `s2` in which it has
not been dropped,

* every `lookup` (staging maps, then index → ONE leaf → cell → overflow chain, on the disk as it is in `s2`) with
  what `Tree::lookup` answered in `s0` = `kvGet` of all changesets committed before it was created, in order;
* every iterator range `[start, stop)` (from the first separator on), driven to exhaustion, without a panic, with the
  strictly ascending items that are exactly the keys of that state inside the range;
* and no page its index (or an overflow cell of its leaves) refers to has been written since (`rd` unchanged). -/
theorem T15_tree_snapshot (pre post : List (Step α)) (id : Nat) (s0 s1 s2 : St α)
    (h0 : run true {} pre = .ok s0) (h1 : step true s0 (.begin id) = .ok s1) (h2 : run true s1 post = .ok s2)
    (hnd : ∀ s ∈ post, s ≠ .drop id) :
    ∃ r, (id, r) ∈ s2.rtx ∧ r.view = s0.spec ∧ s0.spec = kvApplyAll [] (commitsOf pre) ∧
      (∀ k, r.lookup s2.disk k = s0.lookup k ∧ s0.lookup k = kvGet s0.spec k) ∧
      (∀ pn ∈ refs s1.disk r.idx, rd s2.disk pn = rd s1.disk pn) ∧
      (∀ start stop, (∀ s ∈ r.idx.head?, bitsLt start s.1 = false) →
        ∃ items n, r.iter s2.disk start stop = some (.ok (items, n)) ∧ KSorted items ∧
          ∀ k, kvGet items k = if inRange start stop k then kvGet s0.spec k else none) := by
  have inv0 : Inv s0 := run_inv pre inv_init h0
  have inv1 : Inv s1 := step_inv inv0 _ h1
  let r : Rtx α := { idx := s0.idx, prim := s0.prim, sec := s0.sec, view := s0.spec }
  have hm1 : (id, r) ∈ s1.rtx := by
    simp only [step] at h1
    split at h1
    · cases h1
    · injection h1 with h1; subst h1; exact List.mem_cons_self ..
  obtain ⟨hm2, inv2, hag⟩ := run_snapshot post inv1 hm1 h2 hnd
  have hv := inv2.readers (id, r) hm2
  refine ⟨r, hm2, rfl, by simpa using run_spec pre h0, fun k => ⟨?_, ?_⟩, hag, ?_⟩
  · show viewGet r.prim r.sec s2.disk r.idx k = viewGet s0.prim s0.sec s0.disk s0.idx k
    rw [viewGet_of_ok hv k, viewGet_of_ok inv0.shared k]
  · exact viewGet_of_ok inv0.shared k
  · intro start stop hstart
    obtain ⟨ls, hl, hok, hp, hs, hview⟩ := hv
    have hsec : OvSorted (r.sec.getD []) := by
      cases hx : r.sec with
      | none => exact List.Pairwise.nil
      | some s => exact hs s hx
    have hhead : ∀ l ∈ ls.head?, bitsLt start l.sep = false := by
      intro l hlm
      cases hidx : r.idx with
      | nil => rw [hidx] at hl; simp [leavesOf] at hl; subst hl; cases hlm
      | cons x xs =>
        rw [hidx] at hl
        obtain ⟨es, rest, _, _, hls⟩ := leavesOf_cons hl
        subst hls
        simp only [List.head?_cons, Option.mem_def, Option.some.injEq] at hlm
        subst hlm
        exact hstart x (by simp [hidx])
    obtain ⟨items, n, hrun, hsorted, hget⟩ :=
      Nomt.C05.T5_iterator_spec r.prim (r.sec.getD []) ls start stop hp hsec hok hhead
    refine ⟨items, n, by simp [Rtx.iter, hl, hrun], hsorted, fun k => ?_⟩
    rw [hget k, hview k]
    by_cases hr : inRange start stop k = true
    · simp only [hr, if_true, over, baseOf]
      cases wsLookup r.prim k with
      | some c => rfl
      | none =>
        simp only
        cases hx : r.sec with
        | none => simp [wsLookup]
        | some s => simp only [Option.getD_some]; cases wsLookup s k <;> rfl
    · simp [hr]

/-! ### non-vacuity: three syncs, a read transaction begun while the second is in flight, dropped before the third -/

def kA : Key := [false, false]
def kB : Key := [false, true]
def kC : Key := [true, false]

/-- sync 1 builds leaf page 1 `{kB ↦ [1], kC ↦ [3]}`; sync 2 rewrites it as page 2 with `kB ↦ [2]` and frees page 1;
sync 3 (`kC ↦ [4]`) reuses page 1 -/
def script (mid : List (Step Nat)) : List (Step Nat) :=
  [.commit [(kB, some [1]), (kC, some [3])], .gate, .take,
   .write 1 (.leaf [(kB, .inl [1]), (kC, .inl [3])]), .finish [(kA, 1)] [] 2,
   .commit [(kB, some [2])], .gate, .take, .begin 7,
   .write 2 (.leaf [(kB, .inl [2]), (kC, .inl [3])]), .finish [(kA, 2)] [1] 3,
   .commit [(kC, some [4])]] ++ mid ++
  [.gate, .take, .write 1 (.leaf [(kB, .inl [2]), (kC, .inl [4])]), .finish [(kA, 1)] [2] 3]

/-- what transaction `id` holds as its committed state for `k`, and what its lookup of `k` returns after the steps -/
def readerSees (g : Bool) (steps : List (Step Nat)) (id : Nat) (k : Key) :
    Option (Option (List Nat) × Option (List Nat)) :=
  match run g {} steps with
  | .ok st => (findRtx st.rtx id).map fun r => (kvGet r.view k, r.lookup st.disk k)
  | _ => none

def refused (g : Bool) (steps : List (Step Nat)) : Bool :=
  match run g {} steps with
  | .err _ => true
  | _ => false

def finalLookup (g : Bool) (steps : List (Step Nat)) (k : Key) : Option (Option (List Nat)) :=
  match run g {} steps with
  | .ok st => some (st.lookup k)
  | _ => none

/-- the protocol-following run (the transaction is dropped before the third sync starts) is permitted -/
example : finalLookup true (script [.drop 7]) kC = some (some [4]) ∧
    finalLookup true (script [.drop 7]) kB = some (some [2]) := by decide

/-- while it lives (here: just before it is dropped, two commits and one finished sync after it began) the
transaction reads its own state -/
example : readerSees true ((script []).take 12) 7 kC = some (some [3], some [3]) ∧
    readerSees true ((script []).take 12) 7 kB = some (some [2], some [2]) := by decide

/-- the window the comment in `prepare_sync` calls safe: a transaction begun AFTER `block_until_zero` returned and BEFORE
the staged changeset is taken lives through the whole sync (pages 2 is written, the index swapped) and still reads its
state; the NEXT sync does not start while it lives -/
example :
    let steps : List (Step Nat) := (script []).take 7 ++ [.begin 9, .take,
      .write 2 (.leaf [(kB, .inl [2]), (kC, .inl [3])]), .finish [(kA, 2)] [1] 3, .commit [(kC, some [4])]]
    readerSees true steps 9 kB = some (some [2], some [2]) ∧ readerSees true steps 9 kC = some (some [3], some [3]) ∧
    finalLookup true steps kC = some (some [4]) ∧ refused true (steps ++ [.gate]) = true := by decide

/-- **T15.counter-protocol is needed** (kernel-checked): the same steps with the read transaction still alive.  With
the code's `block_until_zero` (`g = true`) the third sync does not start (the `gate` step is refused).  With the wait
skipped (`g = false`) every step is permitted, sync 3 reuses page 1 — freed by sync 2 while transaction 7, begun during
sync 2, still routes `kC` to it — and the transaction, whose committed state holds `kC ↦ [3]`, now reads `kC ↦ [4]`:
a value committed after it began. -/
theorem T15_tree_ungated_counterexample :
    refused true (script []) = true ∧
    ∃ st r, run false {} (script []) = .ok st ∧ findRtx st.rtx 7 = some r ∧
      kvGet r.view kC = some [3] ∧ r.lookup st.disk kC = some [4] := by
  refine ⟨by decide, ?_⟩
  have h : readerSees false (script []) 7 kC = some (some [3], some [4]) := by decide
  unfold readerSees at h
  split at h
  · rename_i st hst
    cases hr : findRtx st.rtx 7 with
    | none => simp [hr] at h
    | some r =>
      simp only [hr, Option.map_some, Option.some.injEq, Prod.mk.injEq] at h
      exact ⟨st, r, hst, hr, h.1, h.2⟩
  · cases h

end Nomt.C15
