import NomtModel.Props.C05_Seek
import NomtModel.Props.C11_Index
/-!
# C11 — a seek of a session layered on uncommitted overlays sees the chain's view

`T11_seek_overlay_view` composes `T5_seek_is_proveSpec` (`Props/C05_Seek.lean`) with the theorems about the overlay
index (`Props/C11_Index.lean`): when the value changes the seek reads (`overlay.value_iter`, `Env.ov`) are what the
mirrored `LiveOverlay::value_iter` yields for a validated chain of a heap of overlays built by `new` / `finish`, the view
the completed seeks prove is "the youngest change of the key along the chain, else the b-tree's value" — for keys the
overlay inserts without the store ever holding them, for keys it deletes (also "naked" deletions of keys the store never
held), and for keys it does not touch.
-/
namespace Nomt.C11
open Nomt Nomt.Ovl Nomt.TriePos Nomt.Seek

variable {Node VH V Vb : Type} [DecidableEq Node] [DecidableEq VH]

/-- **T11.seek**: let the seek's overlay changes be `value_iter` of a validated chain `l` of any heap built by `new` /
`finish` (values hashed by `hash`).  Then (1) the view of `World.OK` reads every key as its youngest change along the
chain — an insertion gives the hashed value, a deletion (naked or not) gives absence — and as the b-tree's value when
the chain does not mention it; (2) under every schedule no panic site is reached and every completed seek holds the
specified path proof of its key in THAT view. -/
theorem T11_seek_overlay_view (W : World Node VH V) (hOK : W.OK) {h : Heap Vb} (hb : Built h) (l : Live) (ok : LiveOK h l)
    (hash : Vb → VH) (r : Writes Vb) (hr : l.valueIter h zeroKey none = .ok r)
    (hov : W.env.ov = r.map (fun e => (e.1, e.2.map hash)))
    (s0 : Sys Node VH V) (hps : PSInv W s0.ps) (hmem : MemOK W s0.cache) (hreqs : s0.reqs = [])
    (acts : List Seek.Action) (ha : ActsOK acts) :
    (∀ k : Key, k.length = KEY_BITS →
      kvGet W.view k = match chainLookup (chainData h l.chain) k with
        | some c => c.map hash
        | none => kvGet (vhMap W.env.vh (baseOf W.env.primary W.env.secondary W.env.leaves)) k) ∧
    ∃ s, Seek.run W.env s0 acts = .ok s ∧
      ∀ (i : Nat) (rq : Req Node VH V) (aw : Option Query) (res : SeekRes Node VH), s.reqs[i]? = some (rq, aw) →
        rq.result = some res →
        resultProof res.pos res.sibs res.terminal =
          (if W.env.record then proveSpec W.H KEY_BITS W.view rq.key
           else { proveSpec W.H KEY_BITS W.view rq.key with siblings := [] }) := by
  refine ⟨?_, ?_⟩
  · intro k hk
    obtain ⟨r', hr', _, hg, _⟩ := T11_value_iter_spec hb l ok zeroKey none
    rw [hr] at hr'
    cases hr'
    have hin : inRange zeroKey none k = true := by
      unfold inRange
      simp only [Bool.and_true, Bool.not_eq_true']
      exact bitsLt_zeros k _ hk
    have hbase : KSorted (vhMap W.env.vh (baseOf W.env.primary W.env.secondary W.env.leaves)) :=
      ksorted_vhMap _ (baseOf_sorted W hOK)
    conv => lhs; rw [hOK.viewEq]
    rw [kvGet_kvApply_distinct hbase (ovSorted_distinct hOK.ov), hov, wsLookup_map, wsLookup_eq_kvGet, hg k, if_pos hin]
    cases chainLookup (chainData h l.chain) k <;> rfl
  · obtain ⟨s, e1, e2⟩ := C05.T5_seek_is_proveSpec W hOK s0 hps hmem hreqs acts ha
    exact ⟨s, e1, fun i rq aw res hi hres => (e2 i rq aw res hi hres).1⟩

/-! ### non-vacuity: a session on one uncommitted overlay that holds a naked deletion -/

/-- the overlay deletes `11000…`, a key the store never held -/
def kDel : Key := true :: true :: List.replicate 254 false

def ovN : Ov Nat := match Live.finish ([] : Heap Nat) {} [(kDel, none)] with
  | .ok o => o | _ => { seqn := 0, index := {}, values := [], parent := none, anc := [] }
def nHeap : Heap Nat := [ovN]
def nLive : Live := { parent := some 0, anc := [], minSeqn := 0 }

theorem nHeap_built : Built nHeap := Built.push (h := []) (l := {}) Built.nil (by simp [LiveOK]) (by rfl)

def ovEnv : Env T Nat Nat := { C05.skEnv with ov := [(kDel, none)] }
def ovW : World T Nat Nat := { C05.skW with env := ovEnv }

theorem ovW_ok : ovW.OK where
  sound := TH_sound
  kind := rfl
  root := rfl
  prim := List.Pairwise.nil
  sec := List.Pairwise.nil
  leaves := C05.skW_ok.leaves
  firstSep := C05.skW_ok.firstSep
  ov := by unfold OvSorted; decide +kernel
  viewEq := by
    show C05.skView = kvApply (vhMap id (kvApply (flat C05.skLeaves) (smerge [] []))) [(kDel, none)]
    rw [smerge_nil_right]
    decide +kernel
  viewLen := C05.skW_ok.viewLen
  baseLen := C05.skW_ok.baseLen
  ovLen := by decide +kernel
  rep := by
    obtain ⟨h1, h2⟩ := C05.skW_rep
    exact ⟨h1, fun P hP h => h2 P hP h⟩
  recon := reconSpec_ok ovW rfl

/-- the hypotheses of `T11_seek_overlay_view` are met: the chain's `value_iter` is the naked deletion … -/
example : ovW.OK ∧ Built nHeap ∧ LiveOK nHeap nLive ∧ nLive.valueIter nHeap zeroKey none = .ok [(kDel, none)] ∧
    ovW.env.ov = ([(kDel, (none : Option Nat))] : Writes Nat).map (fun e => (e.1, e.2.map id)) :=
  ⟨ovW_ok, nHeap_built, ⟨ovN, rfl, by decide, rfl, rfl⟩, by decide +kernel, rfl⟩

/-- … and the mirror completes the seek of a key of that range: the leaf fetch skips nothing it should not (the
deletion is naked), the terminal is the b-tree's leaf `skB` -/
example : C05.skRes (Seek.run ovEnv {} [.push C05.skB, .step 0, .supplyPage 0, .step 0, .supplyLeaf 0]) 0 =
    some (some (C05.skB, 2), [T.leaf C05.skA 1], 1) := by decide +kernel

end Nomt.C11
