import NomtModel.Core.PathSound
import NomtModel.Core.Binding
import NomtModel.Core.VTop
import NomtModel.Core.Complete
import NomtModel.Core.TermHasher
/-!
# C08 — Proof verification never accepts a false statement

Property theorems only (helper lemmas live in `Core/`).  `H.Sound` is the collision-freedom /
domain-separation hypothesis on the node hasher (trusted for Blake3 / SHA-2, satisfied by `TH`).
`Canon L 0 S` is the structural form of "strictly sorted keys of length `L`" (`canon_of_sorted`).
-/
namespace Nomt.C08
open Nomt
variable {Node VH : Type} [DecidableEq Node] [DecidableEq VH] (H : Hasher Node VH)

/-- T8.1 **path-proof soundness**: for every set `S`, every proof object `P` (whatever bytes the prover
supplied), every key path `kp`: if `P` verifies against the root of `S` then every statement the verified
proof confirms — value, different-or-absent value, non-existence, existence — is true of `S`. -/
theorem T8_1_path_proof_sound (hs : H.Sound) (L : Nat) (S : List (Key × VH)) (hc : Canon L 0 S)
    (P : PathProof Node VH) (kp : List Bool) (v : Verified Node VH)
    (hv : verify H L P kp (nodeAt H L 0 S) = .ok v) (k : Key) (vh : VH) :
    (v.confirmValue k vh = some true → (k, vh) ∈ S) ∧
    (v.confirmValue k vh = some false → (k, vh) ∉ S) ∧
    (v.confirmNonexistence k = some true → ∀ vh', (k, vh') ∉ S) ∧
    (v.confirmNonexistence k = some false → ∃ vh', (k, vh') ∈ S) :=
  path_proof_sound H hs L S hc P kp v hv k vh

/-- T8.4 **binding**: the root determines the key-value set. -/
theorem T8_4_root_binding (hs : H.Sound) (L : Nat) (S S' : List (Key × VH))
    (hc : Canon L 0 S) (hc' : Canon L 0 S') (h : nodeAt H L 0 S = nodeAt H L 0 S') : S = S' :=
  rootOf_inj H hs L S S' hc hc' h

/-- T8.3 (algorithmic core) **update soundness**: the stack-based, compacting loop of `verify_update`
returns the specified root of the updated set `S'` whenever each path's replacement sub-root and its
untouched siblings are the specified nodes of `S'` (`PathOK`) and the paths are canonically arranged
(`PCanon`: ascending, none a prefix of another).
*Partial*: deriving `PathOK`/`PCanon` from `verify` + the argument checks is not yet proved in Lean;
that glue is held by the correspondence run (honest and malformed update streams vs. the reference root). -/
theorem T8_3_verifyUpdate_core_partial (hs : H.Sound) (L : Nat) (S' : List (Key × VH)) (hc' : Canon L 0 S')
    (prevRoot : Node) (paths : List (PathUpd Node)) (hne : paths ≠ [])
    (hpc : PCanon L 0 paths) (hok : ∀ p ∈ paths, PathOK H L S' paths 0 p) :
    verifyUpdate H prevRoot paths = nodeAt H L 0 S' :=
  verifyUpdate_eq_root H hs L S' hc' prevRoot paths hne hpc hok

/-! Non-vacuity: a concrete set over the (sound) term hasher, a concrete honest proof that verifies and
confirms a true statement, and a mutated one that is rejected. -/
def exS : List (Key × Nat) := [([false, false], 7), ([false, true], 8), ([true, true], 9)]
example : Canon 2 0 exS := by simp [exS, Canon, side]
example : ∃ v, verify TH 2 (proveSpec TH 2 exS [false, true]) [false, true] (nodeAt TH 2 0 exS) = .ok v
    ∧ v.confirmValue [false, true] 8 = some true := by
  refine ⟨_, rfl, ?_⟩; decide
example : verify TH 2 { terminal := .leaf [false, true] 99, siblings := (proveSpec TH 2 exS [false, true]).siblings }
    [false, true] (nodeAt TH 2 0 exS) = .error .rootMismatch := by rfl

end Nomt.C08
