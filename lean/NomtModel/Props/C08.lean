import NomtModel.Core.PathSound
import NomtModel.Core.Binding
import NomtModel.Core.VTop
import NomtModel.Core.Complete
import NomtModel.Core.TermHasher
import NomtModel.Core.UpdateApply
/-!
# C08 — Proof verification never accepts a false statement

Property theorems only (helper lemmas live in `Core/`).  `H.Sound` is the collision-freedom /
domain-separation hypothesis on the node hasher (trusted for Blake3 / SHA-2, satisfied by `TH`).
`Canon L 0 S` is the structural form of "strictly sorted keys of length `L`" (`canon_of_sorted`).
-/
namespace Nomt.C08
open Nomt
variable {Node VH : Type} [DecidableEq Node] [DecidableEq VH] (H : Hasher Node VH)

/-- T8.1 **path-proof soundness**: for every set `S`, every proof object `P` (whatever bytes the prover
supplied), every key path `kp`: if `P` verifies against the root of `S` then every statement the verified
proof confirms — value, different-or-absent value, non-existence, existence — is true of `S`. -/
theorem T8_1_path_proof_sound (hs : H.Sound) (L : Nat) (S : List (Key × VH)) (hc : Canon L 0 S)
    (P : PathProof Node VH) (kp : List Bool) (v : Verified Node VH)
    (hv : verify H L P kp (nodeAt H L 0 S) = .ok v) (k : Key) (vh : VH) :
    (v.confirmValue k vh = some true → (k, vh) ∈ S) ∧
    (v.confirmValue k vh = some false → (k, vh) ∉ S) ∧
    (v.confirmNonexistence k = some true → ∀ vh', (k, vh') ∉ S) ∧
    (v.confirmNonexistence k = some false → ∃ vh', (k, vh') ∈ S) :=
  path_proof_sound H hs L S hc P kp v hv k vh

/-- T8.4 **binding**: the root determines the key-value set. -/
theorem T8_4_root_binding (hs : H.Sound) (L : Nat) (S S' : List (Key × VH))
    (hc : Canon L 0 S) (hc' : Canon L 0 S') (h : nodeAt H L 0 S = nodeAt H L 0 S') : S = S' :=
  rootOf_inj H hs L S S' hc hc' h

/-- T8.3 (algorithmic core) **update soundness**: the stack-based, compacting loop of `verify_update`
returns the specified root of the updated set `S'` whenever each path's replacement sub-root and its
untouched siblings are the specified nodes of `S'` (`PathOK`) and the paths are canonically arranged
(`PCanon`: ascending, none a prefix of another).
(Name kept for compatibility: the glue deriving `PathOK`/`PCanon` from `verify` + the argument checks is now
proved, see `T8_3_verify_update_sound` / `T8_3_verify_update_complete` below.) -/
theorem T8_3_verifyUpdate_core_partial (hs : H.Sound) (L : Nat) (S' : List (Key × VH)) (hc' : Canon L 0 S')
    (prevRoot : Node) (paths : List (PathUpd Node)) (hne : paths ≠ [])
    (hpc : PCanon L 0 paths) (hok : ∀ p ∈ paths, PathOK H L S' paths 0 p) :
    verifyUpdate H prevRoot paths = nodeAt H L 0 S' :=
  verifyUpdate_eq_root H hs L S' hc' prevRoot paths hne hpc hok

/-! Non-vacuity: a concrete set over the (sound) term hasher, a concrete honest proof that verifies and
confirms a true statement, and a mutated one that is rejected. -/
def exS : List (Key × Nat) := [([false, false], 7), ([false, true], 8), ([true, true], 9)]
example : Canon 2 0 exS := by simp [exS, Canon, side]
example : ∃ v, verify TH 2 (proveSpec TH 2 exS [false, true]) [false, true] (nodeAt TH 2 0 exS) = .ok v
    ∧ v.confirmValue [false, true] 8 = some true := by
  refine ⟨_, rfl, ?_⟩; decide
example : verify TH 2 { terminal := .leaf [false, true] 99, siblings := (proveSpec TH 2 exS [false, true]).siblings }
    [false, true] (nodeAt TH 2 0 exS) = .error .rootMismatch := by rfl

/-- T8.3 **update soundness, end to end** (`verify_update` of path_proof.rs, with its argument checks,
`leaf_ops_spliced`, `build_trie` and the compacting stack loop): for every set `S` of `L`-bit keys, every list of
paths each produced by `PathProof::verify` against the root of `S` (whatever proofs the prover sent), and
every list of ops with `L`-bit keys: if `verify_update` answers `ok r` then `r` is the root of the set
obtained from `S` by applying all the ops with the sequential key-value model `kvApply` (Api/KV.lean).
The hypotheses `PCanon`/`PathOK` of `T8_3_verifyUpdate_core_partial` are *derived* here from `verify` and the
argument checks (`Core/UpdateGlue*.lean`). -/
theorem T8_3_verify_update_sound (hs : H.Sound) (L : Nat) (S : List (Key × VH)) (hc : Canon L 0 S)
    (hlen : ∀ kv ∈ S, kv.1.length = L) (paths : List (PathUpdateIn Node VH))
    (hv : ∀ p ∈ paths, ∃ P kp, kp.length = L ∧ verify H L P kp (nodeAt H L 0 S) = .ok p.inner)
    (hol : ∀ p ∈ paths, ∀ o ∈ p.ops, o.1.length = L)
    (r : Node) (h : pathVerifyUpdate H L (nodeAt H L 0 S) paths = .ok r) :
    r = nodeAt H L 0 (kvApply S (allOps paths)) :=
  pathVerifyUpdate_sound hs hc hlen (fun p hp => let ⟨P, kp, _, h⟩ := hv p hp; ⟨P, kp, h⟩) hol r h

/-- T8.3, positive half: if moreover the argument checks pass (paths strictly ascending, each with
non-empty, strictly ascending, in-scope ops) the verdict *is* `ok` of that root — no panic, no error. -/
theorem T8_3_verify_update_complete (hs : H.Sound) (L : Nat) (S : List (Key × VH)) (hc : Canon L 0 S)
    (hlen : ∀ kv ∈ S, kv.1.length = L) (paths : List (PathUpdateIn Node VH)) (hne : paths ≠ [])
    (hv : ∀ p ∈ paths, ∃ P kp, kp.length = L ∧ verify H L P kp (nodeAt H L 0 S) = .ok p.inner)
    (hol : ∀ p ∈ paths, ∀ o ∈ p.ops, o.1.length = L)
    (hchk : checkPaths (nodeAt H L 0 S) none paths = none) :
    pathVerifyUpdate H L (nodeAt H L 0 S) paths = .ok (nodeAt H L 0 (kvApply S (allOps paths))) :=
  pathVerifyUpdate_eq_kvApply
    ⟨hs, hc, hlen, fun p hp => let ⟨P, kp, _, h⟩ := hv p hp; ⟨P, kp, h⟩, hol, hchk⟩ hne

/-- T8.3, relational form: any strictly ascending `S'` with the right members (`UpdatedSet`) will do. -/
theorem T8_3_verify_update_eq_root (hs : H.Sound) (L : Nat) (S S' : List (Key × VH)) (hc : Canon L 0 S)
    (hlen : ∀ kv ∈ S, kv.1.length = L) (paths : List (PathUpdateIn Node VH)) (hne : paths ≠ [])
    (hv : ∀ p ∈ paths, ∃ P kp, kp.length = L ∧ verify H L P kp (nodeAt H L 0 S) = .ok p.inner)
    (hol : ∀ p ∈ paths, ∀ o ∈ p.ops, o.1.length = L)
    (hchk : checkPaths (nodeAt H L 0 S) none paths = none)
    (U : UpdatedSet S (allOps paths) S') :
    pathVerifyUpdate H L (nodeAt H L 0 S) paths = .ok (nodeAt H L 0 S') :=
  pathVerifyUpdate_eq_root
    ⟨hs, hc, hlen, fun p hp => let ⟨P, kp, _, h⟩ := hv p hp; ⟨P, kp, h⟩, hol, hchk⟩ hne U

/-! Non-vacuity of T8.3: two honestly verified paths of `exS` (a leaf terminal and a terminator), an
overwrite, an insert into the empty sub-trie and a delete; the verdict is the root of the updated set. -/
def exV (k : Key) : Verified T Nat :=
  match verify TH 2 (proveSpec TH 2 exS k) k (nodeAt TH 2 0 exS) with
  | .ok v => v
  | .error _ => ⟨[], none, [], T.term⟩
def exPaths : List (PathUpdateIn T Nat) :=
  [ { inner := exV [false, true], ops := [([false, true], some 5)] },
    { inner := exV [true, false], ops := [([true, false], some 1), ([true, true], none)] } ]
example : kvApply exS (allOps exPaths) = [([false, false], 7), ([false, true], 5), ([true, false], 1)] := by decide
example : pathVerifyUpdate TH 2 (nodeAt TH 2 0 exS) exPaths
    = .ok (nodeAt TH 2 0 [([false, false], 7), ([false, true], 5), ([true, false], 1)]) := by
  apply T8_3_verify_update_complete TH TH_sound 2 exS (by simp [exS, Canon, side]) (by simp [exS]) exPaths
    (by simp [exPaths])
  · intro p hp
    simp only [exPaths, List.mem_cons, List.not_mem_nil, or_false] at hp
    rcases hp with rfl | rfl
    · exact ⟨proveSpec TH 2 exS [false, true], [false, true], rfl, rfl⟩
    · exact ⟨proveSpec TH 2 exS [true, false], [true, false], rfl, rfl⟩
  · simp only [exPaths]; decide
  · decide
example (r : T) (h : pathVerifyUpdate TH 2 (nodeAt TH 2 0 exS) exPaths = .ok r) :
    r = nodeAt TH 2 0 [([false, false], 7), ([false, true], 5), ([true, false], 1)] := by
  apply T8_3_verify_update_sound TH TH_sound 2 exS (by simp [exS, Canon, side]) (by simp [exS]) exPaths _ _ r h
  · intro p hp
    simp only [exPaths, List.mem_cons, List.not_mem_nil, or_false] at hp
    rcases hp with rfl | rfl
    · exact ⟨proveSpec TH 2 exS [false, true], [false, true], rfl, rfl⟩
    · exact ⟨proveSpec TH 2 exS [true, false], [true, false], rfl, rfl⟩
  · simp only [exPaths]; decide

end Nomt.C08
