import NomtModel.Core.Complete
import NomtModel.Core.TermHasher
/-!
# C05 — Every key has a verifying, truthful path proof
-/
namespace Nomt.C05
open Nomt
variable {Node VH : Type} [DecidableEq Node] [DecidableEq VH] (H : Hasher Node VH)

/-- T5.1 **completeness**: for every canonical set `S` and **every** key `k` (present or absent, whatever
its divergence depth) the specified proof `proveSpec S k` verifies against the root of `S` and has `k` in
scope. -/
theorem T5_1_proveSpec_verifies (L : Nat) (S : List (Key × VH)) (hc : Canon L 0 S) (k : Key) (hk : k.length = L) :
    ∃ v, verify H L (proveSpec H L S k) k (nodeAt H L 0 S) = .ok v ∧ v.inScope k = true :=
  proveSpec_verifies H L S hc k hk

/-- T5.2 **truthfulness**: the verified specified proof confirms exactly the content of `S` for `k`:
`confirm_value` answers membership of `(k, vh)` for every `vh`, and `confirm_nonexistence` answers
absence of `k`. -/
theorem T5_2_proveSpec_truthful (hs : H.Sound) (L : Nat) (S : List (Key × VH)) (hc : Canon L 0 S)
    (k : Key) (hk : k.length = L) :
    ∃ v, verify H L (proveSpec H L S k) k (nodeAt H L 0 S) = .ok v ∧
      (∀ vh, v.confirmValue k vh = some (decide ((k, vh) ∈ S))) ∧
      ((v.confirmNonexistence k = some true ∧ ∀ vh, (k, vh) ∉ S) ∨
       (v.confirmNonexistence k = some false ∧ ∃ vh, (k, vh) ∈ S)) :=
  proveSpec_truthful H hs L S hc k hk

def exS : List (Key × Nat) := [([false, false], 7), ([false, true], 8), ([true, true], 9)]
example : ∃ v, verify TH 2 (proveSpec TH 2 exS [true, false]) [true, false] (nodeAt TH 2 0 exS) = .ok v
    ∧ v.confirmNonexistence [true, false] = some true := ⟨_, rfl, by decide⟩

end Nomt.C05
