import NomtModel.Core.Complete
import NomtModel.Core.TermHasher
import NomtModel.Store.ProbeInv
import NomtModel.Store.TableCheck
import NomtModel.Store.ConstantsAlloc
/-!
# C05 — Every key has a verifying, truthful path proof
-/
namespace Nomt.C05
open Nomt
variable {Node VH : Type} [DecidableEq Node] [DecidableEq VH] (H : Hasher Node VH)

/-- T5.1 **completeness**: for every canonical set `S` and **every** key `k` (present or absent, whatever
its divergence depth) the specified proof `proveSpec S k` verifies against the root of `S` and has `k` in
scope. -/
theorem T5_1_proveSpec_verifies (L : Nat) (S : List (Key × VH)) (hc : Canon L 0 S) (k : Key) (hk : k.length = L) :
    ∃ v, verify H L (proveSpec H L S k) k (nodeAt H L 0 S) = .ok v ∧ v.inScope k = true :=
  proveSpec_verifies H L S hc k hk

/-- T5.2 **truthfulness**: the verified specified proof confirms exactly the content of `S` for `k`:
`confirm_value` answers membership of `(k, vh)` for every `vh`, and `confirm_nonexistence` answers
absence of `k`. -/
theorem T5_2_proveSpec_truthful (hs : H.Sound) (L : Nat) (S : List (Key × VH)) (hc : Canon L 0 S)
    (k : Key) (hk : k.length = L) :
    ∃ v, verify H L (proveSpec H L S k) k (nodeAt H L 0 S) = .ok v ∧
      (∀ vh, v.confirmValue k vh = some (decide ((k, vh) ∈ S))) ∧
      ((v.confirmNonexistence k = some true ∧ ∀ vh, (k, vh) ∉ S) ∨
       (v.confirmNonexistence k = some false ∧ ∃ vh, (k, vh) ∈ S)) :=
  proveSpec_truthful H hs L S hc k hk

def exS : List (Key × Nat) := [([false, false], 7), ([false, true], 8), ([true, true], 9)]
example : ∃ v, verify TH 2 (proveSpec TH 2 exS [true, false]) [true, false] (nodeAt TH 2 0 exS) = .ok v
    ∧ v.confirmNonexistence [true, false] = some true := ⟨_, rfl, by decide⟩

/-! ## T5.5 — the bitbox probing model (`Store/ProbeModel.lean`, `Store/ProbeInv.lean`)

Mirror of `ProbeSequence::next`, the lookup loop of `PageLoader::probe` / `PageLoad::try_complete`,
`allocate_bucket` and `set_tombstone` over the meta bytes.  `hash` is any function from page ids to
hashes (the seeded XXH3-64 in the code). -/
section Probing
open Nomt.Store Nomt.Store.Probe

/-- T5.5a **period**: `T(k + 2n) ≡ T(k) (mod n)`, so the probe sequence repeats after `2n` steps … -/
theorem T5_5_period (h n k : Nat) : tri (k + 2 * n) % n = tri k % n ∧ pos h n (k + 2 * n) = pos h n k := by
  refine ⟨?_, pos_add_period h n k⟩
  rw [tri_add_two_mul, Nat.add_mul_mod_self_left]

/-- … and every bucket the sequence can ever reach is reached within the first `2n` steps. -/
theorem T5_5_orbit_covered (h n k : Nat) (hn : 0 < n) : ∃ j, j < 2 * n ∧ pos h n j = pos h n k :=
  pos_reached_early h n k hn

/-- T5.5a **the lookup terminates and the bound loses nothing**: with any fuel `≥ 2n + 2` the mirrored
loop answers (never `none` = out of fuel), every such fuel gives the same answer, and this answer is
the one of a search over ANY larger number `2n + 1 + e` of positions of the sequence. -/
theorem T5_5_lookup_total (hash : Nat → Nat) (T : Table) (p fuel : Nat) (hn : 0 < T.n)
    (hf : 2 * T.n + 2 ≤ fuel) :
    lookup hash T p fuel = some (find hash T p) ∧
    ∀ e, find hash T p = lookupF T (hash p) p (2 * T.n + 1 + e) 0 :=
  ⟨lookup_eq_find hash T p fuel hf, fun e => lookupF_bound_free T (hash p) p hn e⟩

/-- T5.5a **`allocate_bucket` terminates**: never out of fuel `≥ 2n + 2`; a success is the first
non-full bucket of the page's sequence; a failure in a table with `2n + 2 < 10000` means that NO
bucket of the whole unbounded sequence is free (the bound loses nothing). -/
theorem T5_5_allocate_total (hash : Nat → Nat) (lim : Nat) (T : Table) (p fuel : Nat) (hn : 0 < T.n)
    (hf : 2 * T.n + 2 ≤ fuel) :
    allocate hash lim T p fuel = some ((alloc hash lim T p).map (fun b => (b, T.setFull b (hash p) p))) ∧
    (∀ b, alloc hash lim T p = some b →
      ∃ j, j ≤ 2 * T.n ∧ b = pos (hash p) T.n j ∧ isFull (slotAt T.slots b) = false ∧
        ∀ x, x < j → isFull (slotAt T.slots (pos (hash p) T.n x)) = true) ∧
    (alloc hash lim T p = none → 2 * T.n + 2 < lim →
      ∀ k, isFull (slotAt T.slots (pos (hash p) T.n k)) = true) :=
  ⟨allocate_eq hash lim T p fuel hf, fun b e => allocTop_some e, fun e hl => allocTop_none hn hl e⟩

/-- T5.5b the reachability invariant holds for the empty table … -/
theorem T5_5_inv_empty (hash : Nat → Nat) (n : Nat) : Probe.Inv hash (emptyTable n) ∧ NoDup (emptyTable n) :=
  ⟨inv_empty hash n, noDup_empty n⟩

/-- … is kept by a successful `allocate` of a page that is not stored yet (which then is stored, in a
bucket that was not full; the occupancy grows by one) … -/
theorem T5_5_inv_allocate (hash : Nat → Nat) (lim : Nat) (T : Table) (p fuel b : Nat) (T' : Table)
    (hn : 0 < T.n) (hf : 2 * T.n + 2 ≤ fuel) (hI : Probe.Inv hash T) (hD : NoDup T)
    (hfresh : ∀ b, ¬ Stored T p b) (ha : allocate hash lim T p fuel = some (some (b, T'))) :
    Probe.Inv hash T' ∧ NoDup T' ∧ T'.n = T.n ∧ Stored T' p b ∧ isFull (slotAt T.slots b) = false ∧
    occupied T' = occupied T + 1 := by
  rw [allocate_eq hash lim T p fuel hf] at ha
  cases hal : alloc hash lim T p with
  | none => rw [hal] at ha; simp at ha
  | some b0 =>
    rw [hal] at ha
    simp at ha
    obtain ⟨e1, e2⟩ := ha
    subst e1; subst e2
    obtain ⟨j, hj, hb, hfree, hbefore⟩ := allocTop_some hal
    have hlt : b0 < T.n := by rw [hb]; exact pos_lt hn
    refine ⟨?_, noDup_setFull hD hlt hfresh, setFull_n _ _ _ _,
      (stored_setFull hlt p b0).mpr (Or.inl ⟨rfl, rfl⟩), hfree, occupied_setFull hlt hfree⟩
    rw [hb]; exact inv_setFull hI hn hj hbefore

/-- … and by `free` (tombstone) of any bucket; freeing a full bucket lowers the occupancy by one. -/
theorem T5_5_inv_free (hash : Nat → Nat) (T : Table) (b : Nat) (hI : Probe.Inv hash T) (hD : NoDup T) :
    Probe.Inv hash (free T b) ∧ NoDup (free T b) ∧ (free T b).n = T.n ∧
    (isFull (slotAt T.slots b) = true → occupied (free T b) + 1 = occupied T) :=
  ⟨inv_free hI b, noDup_free hD b, free_n T b, occupied_free⟩

/-- T5.5c whatever the table: an answered bucket is full, carries the page's tag and **the page's own
label** — the lookup never returns another page's bucket. -/
theorem T5_5_lookup_label_check (hash : Nat → Nat) (T : Table) (p fuel b : Nat) (hf : 2 * T.n + 2 ≤ fuel)
    (h : lookup hash T p fuel = some (some b)) :
    slotAt T.slots b = .full (tagOf (hash p)) ∧ T.label b = p := by
  rw [lookup_eq_find hash T p fuel hf] at h
  obtain ⟨_, _, _, _, hs, hl⟩ := lookupF_sound T (hash p) p _ _ _ (Option.some.inj h)
  exact ⟨hs, hl⟩

/-- T5.5c **lookups are exact under the invariant**: the mirrored lookup returns bucket `b` iff page
`p` is stored in `b`, and "absent" iff `p` is stored nowhere — a stored page is never missed. -/
theorem T5_5_lookup_correct (hash : Nat → Nat) (T : Table) (p fuel : Nat) (hf : 2 * T.n + 2 ≤ fuel)
    (hI : Probe.Inv hash T) (hD : NoDup T) :
    (∀ b, lookup hash T p fuel = some (some b) ↔ Stored T p b) ∧
    (lookup hash T p fuel = some none ↔ ∀ b, ¬ Stored T p b) := by
  rw [lookup_eq_find hash T p fuel hf]
  constructor
  · intro b
    rw [← lookupF_iff_stored hI hD p b]
    exact ⟨fun h => Option.some.inj h, fun h => congrArg some h⟩
  · rw [← lookupF_none_iff hI hD p]
    exact ⟨fun h => Option.some.inj h, fun h => congrArg some h⟩

/-- T5.5c `occupied` = number of full meta bytes = number of stored pages: the stored page ids in
bucket order form a duplicate-free list of exactly that length. -/
theorem T5_5_occupied (T : Table) (hD : NoDup T) :
    (storedPages T).Nodup ∧ (storedPages T).length = occupied T ∧
    ∀ p, p ∈ storedPages T ↔ ∃ b, Stored T p b :=
  storedPages_spec hD

/-- T5.5 **the table is a finite map**: every state reached from the empty table by the operations of
`prepare_sync` (fresh page ⇒ allocate, known page ⇒ same bucket, cleared page ⇒ tombstone its bucket)
satisfies the invariant; an inserted page is found in its bucket, a removed page is not found, and no
operation on `p` changes what a lookup of another page returns. -/
theorem T5_5_table_is_map (hash : Nat → Nat) (lim n : Nat) (hn : 0 < n) (ops : List Probe.Op) :
    let T := Probe.run hash lim (emptyTable n) ops
    Probe.Inv hash T ∧ NoDup T ∧ T.n = n ∧
    (∀ p b, find hash T p = none → alloc hash lim T p = some b →
        find hash (Probe.step hash lim T (.insert p)) p = some b) ∧
    (∀ p b, find hash T p = some b → find hash (Probe.step hash lim T (.insert p)) p = some b) ∧
    (∀ p, find hash (Probe.step hash lim T (.remove p)) p = none) ∧
    (∀ p q op, q ≠ p → op = Probe.Op.insert p ∨ op = Probe.Op.remove p →
        find hash (Probe.step hash lim T op) q = find hash T q) := by
  intro T
  have hn0 : (emptyTable n).n = n := by simp [emptyTable, Table.n]
  have hnT : T.n = n := by rw [run_n, hn0]
  obtain ⟨hI, hD⟩ := run_inv (lim := lim) ops (by rw [hn0]; exact hn) (inv_empty hash n) (noDup_empty n)
  have hnT' : 0 < T.n := by rw [hnT]; exact hn
  refine ⟨hI, hD, hnT, ?_, ?_, ?_, ?_⟩
  · intro p b h1 h2; exact (find_step_insert hnT' hI hD p).1 h1 b h2
  · intro p b h1; exact (find_step_insert hnT' hI hD p).2.1 b h1
  · intro p; exact (find_step_remove hnT' hI hD p).1
  · intro p q op hq hop
    rcases hop with e | e
    · rw [e]; exact (find_step_insert hnT' hI hD p).2.2 q hq
    · rw [e]; exact (find_step_remove hnT' hI hD p).2 q hq

/-- T5.5 the maintained counter (`occupied_buckets_delta`) equals `full_count` after every operation -/
theorem T5_5_occupied_counter (hash : Nat → Nat) (lim : Nat) (T : Table) (hn : 0 < T.n) (p : Nat) :
    occupied (Probe.step hash lim T (.insert p)) =
      occupied T + (if find hash T p = none ∧ (alloc hash lim T p).isSome then 1 else 0) ∧
    occupied (Probe.step hash lim T (.remove p)) + (if (find hash T p).isSome then 1 else 0) = occupied T :=
  ⟨occupied_step_insert hn p, occupied_step_remove p⟩

/-- T5.5 **lookups on an accepted image**: if the image monitor `wfTable` — the check the driver runs
on the real `ht` file of every snapshot — accepts, then in the table the file denotes
(`tableOfImage`: decoded meta bytes, labels of the data pages, hash = seeded XXH3-64 of the label)
the mirrored lookup of ANY page id `p` answers bucket `b` iff `b` is full, carries the tag of `p`'s
hash and is labelled `p`; it answers "absent" iff no full bucket is labelled `p`.  So every stored
merkle page is found and nothing else is; and the `full` count the monitor reports (compared with
`hash_table_utilization().occupied` by the harness) is the occupancy of that table. -/
theorem T5_5_lookup_on_accepted_image (ht : ByteArray) (m : Meta) (seed : Nat) (st : TableStats)
    (h : wfTable ht m seed = .ok st) (p fuel : Nat) (hf : 2 * m.bitboxNumPages + 2 ≤ fuel) :
    Probe.Inv (hashLabel seed) (tableOfImage ht m) ∧ NoDup (tableOfImage ht m) ∧
    (tableOfImage ht m).n = m.bitboxNumPages ∧ st.full = occupied (tableOfImage ht m) ∧
    (∀ b, lookup (hashLabel seed) (tableOfImage ht m) p fuel = some (some b) ↔
      slotAt (tableOfImage ht m).slots b = .full (tagOf (hashLabel seed p)) ∧ (tableOfImage ht m).label b = p) ∧
    (lookup (hashLabel seed) (tableOfImage ht m) p fuel = some none ↔
      ∀ b, ¬ (isFull (slotAt (tableOfImage ht m).slots b) = true ∧ (tableOfImage ht m).label b = p)) := by
  obtain ⟨hn, _, hI, hD, hfull⟩ := wfTable_inv h
  have hf' : 2 * (tableOfImage ht m).n + 2 ≤ fuel := by rw [hn]; exact hf
  obtain ⟨c1, c2⟩ := T5_5_lookup_correct (hashLabel seed) (tableOfImage ht m) p fuel hf' hI hD
  refine ⟨hI, hD, hn, hfull, ?_, c2⟩
  intro b
  constructor
  · intro e; exact T5_5_lookup_label_check (hashLabel seed) _ p fuel b hf' e
  · intro ⟨hs, hl⟩
    exact (c1 b).mpr ⟨by rw [hs]; rfl, hl⟩

/-- the pieces of the monitor on tiny inputs (the monitor as a whole is exercised on the real `ht`
file of every snapshot of every C16 / C19 run) -/
example : (probeReaches #[.full 0, .tombstone, .empty, .full 1] 4 0 3).toOption = some () ∧
    (probeReaches #[.full 0, .empty, .empty, .full 1] 4 0 3).toOption = none ∧
    firstAdjDup [1, 2, 2, 3] = some 2 ∧ firstAdjDup [1, 2, 3] = none := by decide

/-! ### non-vacuity: a 10-bucket table (not a power of two) and an 8-bucket table

All pages start at bucket 3 (worst collisions); tags alternate between 0 and 40.  Modulo 10 the triangular numbers
reach only the residues {0, 1, 3, 5, 6, 8}, so the sequence of every page is 3, 4, 6, 9, 3, 8, 4, 1, … -/

def exHash (p : Nat) : Nat := (p % 2) * (40 * 2 ^ 57) + 3

/-- insert 1, 2, 3; remove 2 (bucket 4 becomes a tombstone that keeps the stale label 2); insert 4
(re-uses the tombstone) -/
def exA : Table := Probe.run exHash ALLOC_ATTEMPTS (emptyTable 10) [.insert 1, .insert 2, .insert 3, .remove 2]
def exB : Table := Probe.step exHash ALLOC_ATTEMPTS exA (.insert 4)

example : exA.slots = [.empty, .empty, .empty, .full 40, .tombstone, .empty, .full 40, .empty, .empty, .empty] := by decide
example : exA.label 4 = 2 ∧ lookup exHash exA 2 22 = some none := by decide
example : lookup exHash exA 3 22 = some (some 6) ∧ lookup exHash exA 1 22 = some (some 3) := by decide
example : exB.slots = [.empty, .empty, .empty, .full 40, .full 0, .empty, .full 40, .empty, .empty, .empty] := by decide
example : lookup exHash exB 4 22 = some (some 4) ∧ lookup exHash exB 2 22 = some none
    ∧ lookup exHash exB 3 22 = some (some 6) ∧ occupied exB = 3 ∧ storedPages exB = [1, 4, 3] := by decide
/-- less fuel than `2n + 2` can be the reason for no answer: the hypothesis of T5.5a is needed -/
example : lookup exHash exB 2 1 = none := by decide

/-- six pages fill the whole orbit {3, 4, 6, 9, 8, 1} of bucket 3 modulo 10: the seventh allocation
fails with `Exhausted` although 4 of 10 buckets are empty, and looking up an absent page — no
reachable bucket is empty — terminates with "absent" (before the repair: an endless loop) -/
def exFull : Table := Probe.run exHash ALLOC_ATTEMPTS (emptyTable 10) [.insert 1, .insert 2, .insert 3, .insert 4, .insert 5, .insert 6]
example : occupied exFull = 6 ∧ alloc exHash ALLOC_ATTEMPTS exFull 7 = none
    ∧ (allocate exHash ALLOC_ATTEMPTS exFull 7 22).map (·.isSome) = some false
    ∧ lookup exHash exFull 7 22 = some none ∧ lookup exHash exFull 6 22 = some (some 1) := by decide

/-- a power of two: the orbit is the whole table; 8 pages fill all 8 buckets -/
def exP2 : Table := Probe.run exHash ALLOC_ATTEMPTS (emptyTable 8)
  [.insert 1, .insert 2, .insert 3, .insert 4, .insert 5, .insert 6, .insert 7, .insert 8, .remove 5, .insert 9]
example : occupied exP2 = 8 ∧ lookup exHash exP2 5 18 = some none ∧ lookup exHash exP2 10 18 = some none
    ∧ lookup exHash exP2 9 18 = some (some 5) ∧ storedPages exP2 = [7, 4, 6, 1, 2, 9, 3, 8] := by decide

/-- T5.5 (constants) the probing model uses the code's numbers: the give-up counter of
`allocate_bucket`, the tag bits of `full_entry` (`hash >> 57`, 7 bits), and the bound
`step > 2 * len ⇒ Exhausted` — extracted from `bitbox/mod.rs`, `meta_map.rs` on every run -/
theorem T5_5_const_probe :
    ALLOC_ATTEMPTS = Gen.ALLOCATE_BUCKET_ATTEMPTS ∧
    (∀ h, tagOf h = h / 2 ^ Gen.FULL_ENTRY_SHIFT % Gen.FULL_MASK) ∧
    (∀ (m : List Slot) (fuel : Nat) (s : PS), s.step > Gen.PROBE_BOUND_FACTOR * m.length →
      PS.next m (fuel + 1) s = some (.exhausted, s)) ∧
    Gen.PROBE_BOUND_FACTOR = 2 :=
  ⟨ConstantsCheck.alloc_attempts, ConstantsCheck.tag_of, ConstantsCheck.probe_bound, ConstantsCheck.probe_constants.1⟩

end Probing

end Nomt.C05
