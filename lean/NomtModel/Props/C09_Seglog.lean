import NomtModel.Store.SegTail
import NomtModel.Store.DeltaLemmas
import NomtModel.Store.SegFrameLemmas
import NomtModel.Store.CrashLog
/-!
# C09 / C03 / C10 — the segmented rollback log on disk (`nomt/src/seglog`, `rollback/delta.rs`)

The model (`Store/SegModel.lean`) is a **directory of segment files** with the in-memory `SegmentedLog` next to it;
`append`, `prune_oldest`, `prune_recent` and `open` (recovery) mirror the Rust and return their ordered file-system
effects.  The theorems below hold for every directory / payload / segment size / live range (no bounds):

* `T9_seglog_refines_list` — the abstraction "concatenate the records of the segments, restrict to the live range"
  of `open` / `append` / `prune_*` is the list-level log of `Store/CrashLog.lean` (`liveRecs`), which is what
  T3.2 / T4.2 / T9.x assume of the rollback log;
* `T9_seglog_open_total_on_crash_images` — `open` with the range the meta holds succeeds on every process-crash image
  of every operation (every prefix of its effects, every torn tail that keeps 0 or ≥ 12 bytes of the new record) and
  returns exactly the old / new live records;
* `T9_seglog_recovery_idempotent` — recovery interrupted at any of its own effects, to any depth, then run again,
  returns the same records;
* `T9_seglog_F16_old_unlink_order_gap` — the removal order before the repair of F16 is NOT crash safe;
* `T9_delta_roundtrip` — `Delta::decode ∘ Delta::encode = id`.
-/
namespace Nomt.C09
open Nomt Nomt.Seg

/-- the rollback log of `Store/CrashLog.lean` instantiated with segment records; the "meta" is the live range -/
def segLogParams (maxLen : Nat) : NomtDisk.LogParams (Nat × Nat) Rec :=
  { recId := fun r => r.id, startLive := fun m => m.1, endLive := fun m => m.2, maxLen := maxLen }

/-- the records `open(s, e)` returns are `liveRecs` of the concatenated segments -/
theorem T9_seglog_liveOf_is_liveRecs (maxLen s e : Nat) (d : Dir) :
    liveOf s e d = NomtDisk.liveRecs (segLogParams maxLen) (s, e) (flatRecs d) := rfl

/-- **Refinement (a).**  On a directory whose segment ids are contiguous, whose records are consecutive over the
files, with a torn tail at most in the last file and beyond `e` (`Recoverable`), `seglog::open(s, e)` succeeds,
publishes the range it was given and hands out exactly `liveRecs (s, e)` of the concatenated segments.  On a
consistent open log (`Inv`): `append` returns id `e + 1` and a later `open(s, e + 1)` returns the old live records
followed by the new one; `prune_oldest n` unlinks only whole files of records `< n` (so `liveRecs (n, e)` is unchanged
— `liveRecs_filter_keep` — and under the lagging start `absLog_drop_lagging` applies); `prune_recent n` (for a record
`n` that exists) leaves a directory whose `liveRecs (s', n)` are those of the old one. -/
theorem T9_seglog_refines_list (maxLen : Nat) :
    (∀ (maxSeg s e i0 a : Nat) (d : Dir), Recoverable s e i0 a d →
      ∃ L, (openM maxSeg s e d).out = .ok (L, NomtDisk.liveRecs (segLogParams maxLen) (s, e) (flatRecs d)) ∧
        L.startLive = s ∧ L.endLive = e) ∧
    (∀ (L : Log) (i0 a : Nat) (d : Dir) (p : List UInt8) (s : Nat), Inv L d i0 a → p.length ≤ MAXPAY → 0 < s →
      s ≤ L.endLive + 1 →
      (append L d p).out = .ok (L.endLive + 1) ∧
      ∃ i0' a', Recoverable s (L.endLive + 1) i0' a' (append L d p).dir ∧
        NomtDisk.liveRecs (segLogParams maxLen) (s, L.endLive + 1) (flatRecs (append L d p).dir) =
          NomtDisk.liveRecs (segLogParams maxLen) (s, L.endLive) (flatRecs d) ++ [⟨L.endLive + 1, p⟩]) ∧
    (∀ (L : Log) (i0 a n : Nat) (d : Dir), Inv L d i0 a → L.startLive ≤ n → n ≤ L.endLive →
      (pruneOldest L d n).out = .ok 0 ∧ (pruneOldest L d n).log.startLive = n ∧
      ∃ gone, flatRecs d = gone ++ flatRecs (pruneOldest L d n).dir ∧ ∀ r ∈ gone, r.id < n) ∧
    (∀ (L : Log) (i0 a n s' : Nat) (d : Dir), Inv L d i0 a → a ≤ n → n ≤ L.endLive → 0 < s' → s' ≤ n →
      (pruneRecent L d n).out = .ok 0 ∧ (pruneRecent L d n).log.endLive = n ∧
      NomtDisk.liveRecs (segLogParams maxLen) (s', n) (flatRecs (pruneRecent L d n).dir) =
        NomtDisk.liveRecs (segLogParams maxLen) (s', n) (flatRecs d)) := by
  refine ⟨?_, ?_, ?_, ?_⟩
  · intro maxSeg s e i0 a d R
    exact open_recoverable maxSeg s e i0 a d R
  · intro L i0 a d p s I hp hs hse
    obtain ⟨h1, _, _, i0', a', R, hl⟩ := append_refines L i0 a d p I hp s hs hse
    exact ⟨h1, i0', a', R, hl⟩
  · intro L i0 a n d I h1 h2
    obtain ⟨A, B, hd, _, hdead, hres⟩ := pruneOldest_spec L d i0 a n I h1 h2
    rw [hres]
    exact ⟨rfl, rfl, flatRecs A, by rw [hd, flatRecs_append], hdead⟩
  · intro L i0 a n s' d I h1 h2 hs' hsn
    obtain ⟨M, T, y, ny, _, _, _, _, _, heffs, _, hout, hend, _, _⟩ := pruneRecent_spec L d i0 a n I h1 h2
    refine ⟨hout, hend, ?_⟩
    -- the directory afterwards is the image after all effects
    obtain ⟨_, _, _, hl⟩ := pruneRecent_images L d i0 a n I h1 h2 s' hs' hsn ((pruneRecent L d n).effs.length)
    rw [List.take_length] at hl
    have hdir := pruneRecent_dir L d n
    rw [hdir]
    exact hl

/-- non-vacuity: a log of three records in two segments (`max_segment_size` = one page), live range `[2, 3]` -/
def exRec (i : Nat) : Rec := ⟨i, [UInt8.ofNat i]⟩
def exDir : Dir := [(1, ⟨[exRec 1], none⟩), (2, ⟨[exRec 2], none⟩), (3, ⟨[exRec 3], none⟩)]
def exLog : Log := ⟨4096, 2, 3, exDir.map metaOf, some 4096⟩

theorem exInv : Inv exLog exDir 1 1 := by
  refine ⟨by decide, ⟨rfl, rfl, rfl, trivial⟩, ?_, ?_, by decide, by decide, by decide, by decide, rfl, by decide, by decide⟩
  · exact ⟨⟨rfl, trivial⟩, fun _ => ⟨rfl, by decide⟩, trivial, ⟨rfl, trivial⟩, fun _ => ⟨rfl, by decide⟩, trivial,
      ⟨rfl, trivial⟩, fun h => absurd rfl h, trivial, trivial⟩
  · intro x hx
    simp only [exDir, List.mem_cons, List.not_mem_nil, or_false] at hx
    rcases hx with rfl | rfl | rfl <;> exact ⟨rfl, by decide⟩

example : (openM 4096 2 3 exDir).out = .ok (⟨4096, 2, 3, [⟨2, 2, 2⟩, ⟨3, 3, 3⟩], some 4096⟩, [exRec 2, exRec 3]) := by decide
example : (append exLog exDir [7]).effs =
    [.create 4, .write 4 ⟨4, [7]⟩ 12, .write 4 ⟨4, [7]⟩ 13, .setLen 4 4096, .fsync 4, .dirsync] := by decide
example : (pruneRecent exLog exDir 2).effs = [.unlink 3, .dirsync, .setLen 2 4096, .fsync 2] := by decide

/-- **(b) `open` never fails on a process-crash image.**  From a consistent state `(L, d)` with live range
`[s₀, e]` and for every range start `s` the meta may hold (`0 < s ≤ e`; the meta's start lags behind):

1. `append p` (both with and without segment roll-over), any prefix `k` of its effects (create, header, payload,
   padding `set_len`, fsync, directory fsync), then the file being written cut to any length that keeps `m = 0` or
   `m ≥ 12` bytes of the new record (`m` up to what the prefix wrote: torn append, un-fsynced tail lost): the image is
   `Recoverable` under the OLD range and `liveRecs` are the old ones — so `open` succeeds and returns them
   (`T9_seglog_refines_list`, first part).  After the last write the record is complete (`j = size`), and the
   completed image under the NEW range returns old ++ new (`T9_seglog_refines_list`, second part);
2. `prune_oldest n` (`s₀ ≤ n ≤ e`), any prefix: recoverable under every start `s'`, only records `< n` are gone;
3. `prune_recent n` (`a ≤ n ≤ e`), any prefix (unlinks newest first, directory fsync, cut, fsync): recoverable under
   `[s', n]` with exactly the live records of `[s', n]`;
4. `open(0, 0)` interrupted anywhere: `open(0, 0)` succeeds again.

Recovery's own effects: `T9_seglog_recovery_idempotent`. -/
theorem T9_seglog_open_total_on_crash_images :
    (∀ (L : Log) (i0 a : Nat) (base : Dir) (hid : Nat) (recs0 : List Rec) (p : List UInt8) (s k : Nat),
      Inv L (base ++ [(hid, ⟨recs0, none⟩)]) i0 a → p.length ≤ MAXPAY → recsSize recs0 < L.maxSeg → 0 < s → s ≤ L.endLive →
      ∃ j, j ≤ Rec.size ⟨L.endLive + 1, p⟩ ∧ (3 ≤ k → j = Rec.size ⟨L.endLive + 1, p⟩) ∧ ∀ m, m ≤ j → (m = 0 ∨ HDR ≤ m) →
        Recoverable s L.endLive i0 a
          (applyEff (applyEffs (base ++ [(hid, ⟨recs0, none⟩)])
            ((append L (base ++ [(hid, ⟨recs0, none⟩)]) p).effs.take k)) (.setLen hid (recsSize recs0 + m))) ∧
        liveOf s L.endLive
          (applyEff (applyEffs (base ++ [(hid, ⟨recs0, none⟩)])
            ((append L (base ++ [(hid, ⟨recs0, none⟩)]) p).effs.take k)) (.setLen hid (recsSize recs0 + m)))
          = liveOf s L.endLive (base ++ [(hid, ⟨recs0, none⟩)])) ∧
    (∀ (L : Log) (i0 a : Nat) (base : Dir) (hid : Nat) (recs0 : List Rec) (p : List UInt8) (s k : Nat),
      Inv L (base ++ [(hid, ⟨recs0, none⟩)]) i0 a → p.length ≤ MAXPAY → L.maxSeg ≤ recsSize recs0 → 0 < s → s ≤ L.endLive →
      ∃ j, j ≤ Rec.size ⟨L.endLive + 1, p⟩ ∧ (4 ≤ k → j = Rec.size ⟨L.endLive + 1, p⟩) ∧ ∀ m, m ≤ j → (m = 0 ∨ HDR ≤ m) →
        ∃ i0' a', Recoverable s L.endLive i0' a'
          (applyEff (applyEffs (base ++ [(hid, ⟨recs0, none⟩)])
            ((append L (base ++ [(hid, ⟨recs0, none⟩)]) p).effs.take k)) (.setLen (i0 + (base.length + 1)) m)) ∧
        liveOf s L.endLive
          (applyEff (applyEffs (base ++ [(hid, ⟨recs0, none⟩)])
            ((append L (base ++ [(hid, ⟨recs0, none⟩)]) p).effs.take k)) (.setLen (i0 + (base.length + 1)) m))
          = liveOf s L.endLive (base ++ [(hid, ⟨recs0, none⟩)])) ∧
    (∀ (L : Log) (d : Dir) (i0 a n k : Nat), Inv L d i0 a → L.startLive ≤ n → n ≤ L.endLive →
      ∃ gone, flatRecs d = gone ++ flatRecs (applyEffs d ((pruneOldest L d n).effs.take k)) ∧ (∀ r ∈ gone, r.id < n) ∧
        ∀ s', 0 < s' → s' ≤ L.endLive →
          ∃ i0' a', Recoverable s' L.endLive i0' a' (applyEffs d ((pruneOldest L d n).effs.take k))) ∧
    (∀ (L : Log) (d : Dir) (i0 a n s' k : Nat), Inv L d i0 a → a ≤ n → n ≤ L.endLive → 0 < s' → s' ≤ n →
      ∃ i0' a', Recoverable s' n i0' a' (applyEffs d ((pruneRecent L d n).effs.take k)) ∧
        liveOf s' n (applyEffs d ((pruneRecent L d n).effs.take k)) = liveOf s' n d) ∧
    (∀ (maxSeg i0 k : Nat) (d : Dir), 0 < i0 → SegIdsFrom i0 d →
      (openM maxSeg 0 0 (applyEffs d ((openM maxSeg 0 0 d).effs.take k))).out = .ok (⟨maxSeg, 0, 0, [], none⟩, [])) :=
  ⟨fun L i0 a base hid recs0 p s k I hp hr hs hse => append_noroll_crash L i0 a base hid recs0 p I hp hr s hs hse k,
   fun L i0 a base hid recs0 p s k I hp hr hs hse => append_roll_crash L i0 a base hid recs0 p I hp hr s hs hse k,
   fun L d i0 a n k I h1 h2 => pruneOldest_images L d i0 a n I h1 h2 k,
   fun L d i0 a n s' k I h1 h2 h3 h4 => pruneRecent_images L d i0 a n I h1 h2 s' h3 h4 k,
   fun maxSeg i0 k d hi hseg => open_empty_images maxSeg i0 d hi hseg k⟩

-- non-vacuity: the hypotheses hold for `exInv`; one torn image of the roll-over append (header only)
example : (openM 4096 2 3 (applyEffs exDir ((append exLog exDir [7]).effs.take 2))).out =
    .ok (⟨4096, 2, 3, [⟨2, 2, 2⟩, ⟨3, 3, 3⟩], some 4096⟩, [exRec 2, exRec 3]) := by decide

/-- **(b, nested) Recovery is idempotent under interruption.**  If `open(s, e)` can recover a directory
(`Recoverable`: every crash image of the theorem above), then after ANY number of recoveries each interrupted at ANY of
its own effects (unlink of a segment below the live range, oldest first; unlink of a segment above it, newest first;
cut of the head; fsync) the directory is still recoverable, `open(s, e)` succeeds on it and returns the same records. -/
theorem T9_seglog_recovery_idempotent (maxSeg s e i0 a : Nat) (d d' : Dir) (R : Recoverable s e i0 a d)
    (h : Interrupted maxSeg s e d d') :
    ∃ L, (openM maxSeg s e d').out = .ok (L, liveOf s e d) ∧ L.startLive = s ∧ L.endLive = e := by
  obtain ⟨i0', a', R', hl⟩ := recover_nested maxSeg s e i0 a d d' R h
  obtain ⟨L, hout, h1, h2⟩ := open_recoverable maxSeg s e i0' a' d' R'
  exact ⟨L, by rw [← hl]; exact hout, h1, h2⟩

/-- **The consistent states are closed under the operations** (so the one-step theorems above chain over whole
histories).  `Inv L d i0 a`: the in-memory `SegmentedLog` describes the directory (segments = files with their
(id, min, max), head writer at the end of the last file, records `a … end_live` consecutive over non-empty files without
torn tail).  It is (1) established by every successful `open` on a recoverable directory — in particular on every
crash image —, (2) kept by `append` (as long as the 32-bit segment id does not wrap), (3) by `prune_oldest n`
(`start ≤ n ≤ end`), (4) by `prune_recent n` (`max(a, start) ≤ n ≤ end`); the empty log (`InvEmpty`) is what
`open(0, 0)` and pruning to nil leave, and (5) its first `append` creates segment 1 holding record 1. -/
theorem T9_seglog_consistent_states_closed :
    (∀ (maxSeg s e i0 a : Nat) (d : Dir), Recoverable s e i0 a d → 0 < a → i0 + d.length < U32 →
      ∃ L recs i0' a', (openM maxSeg s e d).out = .ok (L, recs) ∧ Inv L (openM maxSeg s e d).dir i0' a') ∧
    (∀ (L : Log) (i0 a : Nat) (d : Dir) (p : List UInt8), Inv L d i0 a → p.length ≤ MAXPAY → i0 + d.length + 1 < U32 →
      Inv (append L d p).log (append L d p).dir i0 a) ∧
    (∀ (L : Log) (d : Dir) (i0 a n : Nat), Inv L d i0 a → L.startLive ≤ n → n ≤ L.endLive →
      ∃ i0' a', Inv (pruneOldest L d n).log (pruneOldest L d n).dir i0' a') ∧
    (∀ (L : Log) (d : Dir) (i0 a n : Nat), Inv L d i0 a → a ≤ n → n ≤ L.endLive → L.startLive ≤ n →
      Inv (pruneRecent L d n).log (pruneRecent L d n).dir i0 a) ∧
    (∀ (maxSeg i0 : Nat) (d : Dir), 0 < i0 → SegIdsFrom i0 d →
      ∃ L, (openM maxSeg 0 0 d).out = .ok (L, []) ∧ InvEmpty L (openM maxSeg 0 0 d).dir) ∧
    (∀ (L : Log) (d : Dir) (i0 a : Nat), Inv L d i0 a → InvEmpty (removeAll L d).log (removeAll L d).dir) ∧
    (∀ (L : Log) (p : List UInt8), p.length ≤ MAXPAY → InvEmpty L [] →
      (append L [] p).out = .ok 1 ∧ Inv (append L [] p).log (append L [] p).dir 1 1 ∧
        flatRecs (append L [] p).dir = [⟨1, p⟩]) :=
  ⟨fun maxSeg s e i0 a d R ha h32 => open_inv maxSeg s e i0 a d R ha h32,
   fun L i0 a d p I hp h32 => append_inv L i0 a d p I hp h32,
   fun L d i0 a n I h1 h2 => pruneOldest_inv L d i0 a n I h1 h2,
   fun L d i0 a n I h1 h2 h3 => pruneRecent_inv L d i0 a n I h1 h2 h3,
   fun maxSeg i0 d hi hseg => open_empty_inv maxSeg i0 d hi hseg,
   fun L d i0 a I => removeAll_empty L d i0 a I,
   fun L p hp E => append_from_empty L p hp E⟩

example : Inv (append exLog exDir [7]).log (append exLog exDir [7]).dir 1 1 :=
  T9_seglog_consistent_states_closed.2.1 exLog 1 1 exDir [7] exInv (by decide) (by decide)

/-- four one-record segments, live range `[1, 1]` (a rollback over three segments whose sync died after the meta) -/
def f16Dir : Dir := [(1, ⟨[exRec 1], none⟩), (2, ⟨[exRec 2], none⟩), (3, ⟨[exRec 3], none⟩), (4, ⟨[exRec 4], none⟩)]

example : Recoverable 1 1 1 1 f16Dir :=
  ⟨by decide, by decide, by decide, ⟨rfl, rfl, rfl, rfl, trivial⟩,
   ⟨⟨rfl, trivial⟩, fun _ => ⟨rfl, by decide⟩, trivial, ⟨rfl, trivial⟩, fun _ => ⟨rfl, by decide⟩, trivial,
    ⟨rfl, trivial⟩, fun _ => ⟨rfl, by decide⟩, trivial, ⟨rfl, trivial⟩, fun h => absurd rfl h, trivial, trivial⟩,
   by decide, by decide⟩

/-- **F16 (kernel-checked counterexample).**  With the removal order before the repair (`before ++ after`, both
ascending) recovery of `rollback.1 … rollback.4` under the live range `[1, 1]` unlinks 2, 3, 4 in this order; if it
dies after the first unlink the directory holds 1, 3, 4 and EVERY later `open` fails with
"Gap in segment IDs: this 3, last 1".  The repaired order (4, 3, 2) recovers from every prefix
(`T9_seglog_recovery_idempotent`). -/
theorem T9_seglog_F16_old_unlink_order_gap :
    (openOld 4096 1 1 f16Dir).effs = [.unlink 2, .unlink 3, .unlink 4, .setLen 1 4096, .fsync 1] ∧
    (openM 4096 1 1 (applyEffs f16Dir ((openOld 4096 1 1 f16Dir).effs.take 1))).out = .err (.gap 3 1) ∧
    (openM 4096 1 1 f16Dir).effs = [.unlink 4, .unlink 3, .unlink 2, .setLen 1 4096, .fsync 1] := by
  decide

/-- **What a torn tail may look like.**  `open` recognises a tail that is *short*: `k ≥ 12` bytes of the next record
(header complete) are skipped and cut away.  It does NOT tolerate 1 … 11 bytes of a header (`read_exact` fails:
"failed to fill whole buffer") nor a zero page after the last record ("IDs are not ordered").  Neither is produced by
a process crash (the 12-byte header is one `write` at a page start) or by keeping a page-aligned prefix of an append
(C04's quantifier); both are outside the theorems above (`m = 0 ∨ 12 ≤ m`). -/
theorem T9_seglog_torn_header_and_zero_tail_rejected :
    (openM 4096 1 1 [(1, ⟨[exRec 1], some (exRec 2, 5)⟩)]).out = .err .shortRead ∧
    (openM 4096 1 1 [(1, ⟨[exRec 1], some (exRec 2, 12)⟩)]).out =
      .ok (⟨4096, 1, 1, [⟨1, 1, 1⟩], some 4096⟩, [exRec 1]) ∧
    (openM 4096 1 1 [(1, ⟨[exRec 1, ⟨0, []⟩], none⟩)]).out = .err (.unordered 0 2) := by
  decide

/-- **(c) Power loss around recovery: the cut of the head durable, a suffix of the unlinks lost.**  `open` issues no
directory fsync; its unlinks (dead files `P` below the live range oldest first, dead files `T` above it newest first)
may be lost as a suffix while the fsynced cut of the head is durable: the directory is then
`P.drop j ++ (live files, head cut after e) ++ T.take t` — no longer consecutive over the whole directory.  `open(s, e)`
succeeds on every such image and returns the live records of the original directory (the files that came back are
scanned segment by segment, skipped and unlinked again).  Together with `T9_seglog_open_total_on_crash_images` (a lost
suffix of the unlinks of the prunes is a prefix image; an un-fsynced append tail lost is a torn cut) and
`T9_seglog_rollover_needs_dirsync` this covers ordered loss of directory operations. -/
theorem T9_seglog_recovery_lost_unlinks (maxSeg s e i0 a : Nat) (d : Dir) (R : Recoverable s e i0 a d) :
    ∃ P D T y m, d = P ++ (D ++ [y]) ++ T ∧ (openM maxSeg s e d).dir = liveDir D y m ∧
      (openM maxSeg s e d).effs = P.map (fun x => FsEff.unlink x.1) ++ T.reverse.map (fun x => FsEff.unlink x.1) ++
        [.setLen y.1 (recsSize (y.2.recs.take m)), .fsync y.1] ∧
      ∀ j t, ∃ L, (openM maxSeg s e ((P.drop j ++ liveDir D y m) ++ T.take t)).out = .ok (L, liveOf s e d) :=
  lost_unlinks_recover maxSeg s e i0 a d R

-- non-vacuity: `f16Dir` under `[1, 1]`: the head `rollback.1` is cut, `rollback.2` (unlinked last) is back
example : (openM 4096 1 1 ((openM 4096 1 1 f16Dir).dir ++ [(2, ⟨[exRec 2], none⟩)])).out =
    .ok (⟨4096, 1, 1, [⟨1, 1, 1⟩], some 4096⟩, [exRec 1]) := by decide

/-- **(c) Which directory fsync is needed.**  Un-dir-fsynced creates / unlinks are lost as a suffix in issue order.
For `prune_oldest`, `prune_recent` (its unlinks precede its own directory fsync, which precedes the cut) and the
unlinks of recovery, losing a suffix of the unlinks gives a *prefix image* — covered by
`T9_seglog_open_total_on_crash_images` / `T9_seglog_recovery_idempotent`.  For `append` with roll-over the create is
covered by the directory fsync that ends `append`, i.e. precedes the meta write; without it the meta could name the
record `e + 1` while the new segment is gone, and `open` fails ("Failed to find the last live segment"): -/
theorem T9_seglog_rollover_needs_dirsync :
    (append exLog exDir [7]).effs.getLast? = some .dirsync ∧
    (openM 4096 2 4 (append exLog exDir [7]).dir).out =
      .ok (⟨4096, 2, 4, [⟨2, 2, 2⟩, ⟨3, 3, 3⟩, ⟨4, 4, 4⟩], some 4096⟩, [exRec 2, exRec 3, ⟨4, [7]⟩]) ∧
    (openM 4096 2 4 exDir).out = .err .noLastLive := by
  decide

/-- **Record framing round trip** (`segment_rw.rs`).  The bytes of a modelled file are, record after record,
`payload_length: u32 LE ‖ record_id: u64 LE ‖ payload ‖ zero padding to a multiple of 4096`, followed by the first `k`
bytes of one more record (`bytesOf`; the differential run compares size and FNV-1a of every real file with it).  On
these bytes the mirror of `SegmentFileReader` (`parseFile`: `read_header` with the `next_pos >= file_size` test, the
`read_exact` of 12 bytes, the payload-length check, `seek_next`) finds exactly the complete records and then: nothing
(`k = 0`), a short header — an error — (`k < 12`), a header whose payload is short — skippable, not readable —
(`12 ≤ k < 12 + len`), or a readable record that lacks padding (`12 + len ≤ k`).  This is the case analysis `open` /
`scan_record_end` of the model perform on `SegFile.torn`. -/
theorem T9_seglog_frame_roundtrip (f : SegFile) (hrs : ∀ r ∈ f.recs, RecOK r)
    (ht : ∀ r k, f.torn = some (r, k) → RecOK r ∧ k < r.size) : parseFile (bytesOf f) = framesOf f :=
  parseFile_bytesOf f hrs ht

/-- the checksum of a file printed in every directory listing of the differential run (`fnvFile`, computed record by
record without materialising the zero padding) is FNV-1a 64 of the file's bytes `bytesOf f` — what the harness
computes over the real file -/
theorem T9_seglog_listing_checksum (f : SegFile) : fnvFile f = fnvBytes fnvInit (bytesOf f) := fnvFile_eq f

example : parseFile (bytesOf ⟨[exRec 1], some (exRec 2, 13)⟩) = ([.full (exRec 1), .full (exRec 2)], .eof) := by
  rw [T9_seglog_frame_roundtrip _ (by intro r hr; simp at hr; subst hr; exact ⟨by decide, by decide⟩)
    (by intro r k h; simp at h; obtain ⟨rfl, rfl⟩ := h; exact ⟨⟨by decide, by decide⟩, by decide⟩)]
  decide

/-- **`Delta::decode (Delta::encode d) = d`** for every delta with 32-byte keys, pairwise distinct, fewer than 2³²
entries per group and values shorter than 2³² bytes, in whatever order the hash map is iterated (`erase`, `reinstate`
are the two groups in iteration order), whatever bytes follow (the payload of a log record may be longer). -/
theorem T9_delta_roundtrip (d : Priors) (extra : Bytes)
    (hk1 : ∀ k ∈ d.erase, k.length = 32)
    (hk2 : ∀ kv ∈ d.reinstate, kv.1.length = 32 ∧ kv.2.length < 4294967296)
    (hn1 : d.erase.length < 4294967296) (hn2 : d.reinstate.length < 4294967296)
    (hdist : (d.erase ++ d.reinstate.map (·.1)).Nodup) :
    deltaDecode (deltaEncode d ++ extra) = .ok d.toMap :=
  delta_roundtrip d extra hk1 hk2 hn1 hn2 hdist

example : deltaDecode (deltaEncode ⟨[List.replicate 32 1], [(List.replicate 32 2, [9, 9])]⟩ ++ [5]) =
    .ok [(List.replicate 32 1, none), (List.replicate 32 2, some [9, 9])] := by rfl

end Nomt.C09
