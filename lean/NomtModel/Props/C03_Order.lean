import NomtModel.Store.ConcCrashLog
import NomtModel.Store.TraceOrderSim
import NomtModel.Store.ConcToyRec
/-!
# C03 — recovery interrupted at any point, for the real CONCURRENT recovery trace

T3.2 (`Props/C03.lean`) is about the sequential trace `recoverTrace d`.  The recovery `open` performs on a crashed
directory issues its writes and fsyncs through the same I/O pool as a sync; the order monitor `checkRecoveryOrder`
(`Store/TraceOrder.lean`) is run by the driver on the real Begin / End trace of every recovery of the crash enumeration.
This file links the two through the concurrent disk machine (`Store/ConcDisk.lean`, see `Props/C04_Order.lean`).
-/
namespace Nomt.C03
open NomtDisk Nomt.Store
variable {Content MetaRec WalRec LogRec TreeAbs : Type} (P : Params Content MetaRec WalRec TreeAbs)

/-- T3.3 **recovery is idempotent under interruption, for concurrent recovery traces**.  `d` is a crash image whose WAL
`w` carries the sequence number of its meta page (recovery redoes it).  If a concurrent recovery trace `ct` started on
`d` passes the order discipline of the post-switch-over phase (`ordChk` from phase 2: no meta write, no tree-page write,
the WAL is truncated only when no hash-table write is volatile) and its effects satisfy the content clauses (table
writes replay `w`; the WAL is truncated only when the table as the process sees it holds every diff; the rollback log is
only pruned outside the live range), then EVERY image — durable part plus ANY sub-list of the volatile effects — of
EVERY prefix of the concurrent execution abstracts (tree, table view, live rollback records) to the state of `d`, and
its WAL is `d`'s or empty, so the statement applies again to the recovery of that image (nested crashes). -/
theorem T3_3_concurrent_recovery_idempotent (L : LogParams MetaRec LogRec)
    (d : Disk Content MetaRec WalRec LogRec) (w : WalRec) (hw : d.wal = some w) (hs : P.walSeqn w = P.seqn d.mt)
    (ct : List (CEv Content MetaRec WalRec LogRec))
    (hord : cAll ordChk 2 (cinit d) ct)
    (hcont : cAll (contChk (AllowedPreL' P L d) (contPostL P L d d.mt w)) 2 (cinit d) ct) :
    ∀ cp, cp <+: ct → ∀ img, IsCImage (crun (cinit d) cp) img →
      absOfL P L img = absOfL P L d ∧ (img.wal = d.wal ∨ img.wal = none) :=
  conc_recovery_idempotent P L d w hw hs ct hord hcont

/-- T3.3b the case without redo: the WAL of the crash image `d` is absent or stale, recovery only truncates it and cleans
the rollback log outside the live range (`StaleAllowed`).  No order clause is needed: whatever the interleaving of these
effects and of fsyncs, every image of every prefix abstracts to the state of `d`. -/
theorem T3_3b_concurrent_recovery_idempotent_stale_wal (L : LogParams MetaRec LogRec)
    (d : Disk Content MetaRec WalRec LogRec) (hstale : ∀ w, d.wal = some w → P.walSeqn w ≠ P.seqn d.mt)
    (ct : List (CEv Content MetaRec WalRec LogRec)) (hall : ∀ e ∈ begun ct, StaleAllowed L d e) :
    ∀ cp, cp <+: ct → ∀ img, IsCImage (crun (cinit d) cp) img →
      absOfL P L img = absOfL P L d ∧ (img.wal = d.wal ∨ img.wal = none) :=
  conc_recovery_idempotent_stale P L d hstale ct hall

/-- non-vacuity of T3.3b: the old toy image with a stale WAL (sequence number 7 ≠ 1); the truncation and its fsync. -/
example : ∀ cp, cp <+: [CEv.effBegin 0 (Eff.walSet none), .fsyncBegin "t1" .fWal, .effEnd 0, .fsyncEnd "t1" .fWal,
      .fsyncBegin "t1" .fWal, .fsyncEnd "t1" .fWal] →
    ∀ img, IsCImage (crun (cinit ({ Toy.d0 with wal := some (7, []) } : Toy.D)) cp) img →
      absOfL Toy.P Toy.L img = absOfL Toy.P Toy.L ({ Toy.d0 with wal := some (7, []) } : Toy.D) :=
  fun cp hcp img himg =>
    (T3_3b_concurrent_recovery_idempotent_stale_wal Toy.P Toy.L _
      (fun w hw => by injection hw with hw; subst hw; show (7 : Nat) ≠ 1; decide) _
      (fun e he => by simp [begun] at he; subst he; trivial) cp hcp img himg).1

/-- T3.4 **acceptance by the recovery monitor ⇒ the order discipline of phase 2**: if `checkRecoveryOrder` accepts the
real trace of a recovery, then for every choice of contents and every start image the abstracted concurrent trace
passes `ordChk` from phase 2 (hypothesis `hord` of T3.3), and what is left volatile is what the monitor reports. -/
theorem T3_4_recovery_monitor_implies_order_discipline (C : Contents Content MetaRec WalRec)
    (tr : List IoEv2) (st : OrderSt) (h : checkRecoveryOrder tr = .ok st) (d : Disk Content MetaRec WalRec LogRec) :
    cAll ordChk 2 (cinit d) (absTrace C { phase := 2, walWritten := true } 0 tr) ∧
    (crun (cinit d) (absTrace C { phase := 2, walWritten := true } 0 tr)).vol = st.pend.filterMap (absP C) :=
  checkRecoveryOrder_ok_ordChk C tr st h d

/-- T3.5 end to end: an accepted real recovery trace whose abstracted effects satisfy the content clauses leaves, at
every point and under every loss of volatile writes, an image that recovers to the state of the image it started on. -/
theorem T3_5_accepted_real_recovery_trace_idempotent (L : LogParams MetaRec LogRec) (C : Contents Content MetaRec WalRec)
    (tr : List IoEv2) (st : OrderSt) (hacc : checkRecoveryOrder tr = .ok st)
    (d : Disk Content MetaRec WalRec LogRec) (w : WalRec) (hw : d.wal = some w) (hs : P.walSeqn w = P.seqn d.mt)
    (hcont : cAll (contChk (AllowedPreL' P L d) (contPostL P L d d.mt w)) 2 (cinit d)
      (absTrace C { phase := 2, walWritten := true } 0 tr)) :
    ∀ cp, cp <+: absTrace C { phase := 2, walWritten := true } 0 tr → ∀ img, IsCImage (crun (cinit d) cp) img →
      absOfL P L img = absOfL P L d ∧ (img.wal = d.wal ∨ img.wal = none) :=
  T3_3_concurrent_recovery_idempotent P L d w hw hs _ (checkRecoveryOrder_ok_ordChk C tr st hacc d).1 hcont

/-- non-vacuity of T3.3 – T3.5: `OToy.recGoodLines` (redo the table page, fsync the table, truncate the WAL, fsync it) is
a recovery trace in the format of the real hook; `checkRecoveryOrder` accepts it, its abstraction is `CToy.recGood`, and
every image of every prefix of its concurrent execution on the crash image `Toy.dR` recovers to the state of `Toy.dR`. -/
example :
    (checkRecoveryOrder OToy.recGoodLines).toBool = true ∧
    absTrace (LogRec := Nat) OToy.CR { phase := 2, walWritten := true } 0 OToy.recGoodLines = CToy.recGood ∧
    (∀ cp, cp <+: CToy.recGood → ∀ img, IsCImage (crun (cinit Toy.dR) cp) img →
      absOfL Toy.P Toy.L img = absOfL Toy.P Toy.L Toy.dR) :=
  ⟨OToy.recGood_accepted, OToy.recGood_abs, fun cp hcp img himg =>
    (T3_3_concurrent_recovery_idempotent Toy.P Toy.L Toy.dR Toy.w1 rfl rfl CToy.recGood CToy.recGood_ord
      CToy.recGood_cont cp hcp img himg).1⟩

/-- T3.6 **the recovery order without the table fsync, on the concurrent machine** (cf. T3.2d): in `CToy.recBad` the WAL
is truncated while the redone table page is still volatile.  There is a crash image (truncation on disk, table write
lost) whose table view differs from the one of the image recovery started on, and the order discipline rejects the
trace — already its prefix up to the Begin of the truncation, which has that image too. -/
theorem T3_6_truncation_before_table_fsync_rejected :
    (∃ img, IsCImage (crun (cinit Toy.dR) CToy.recBad) img ∧ absOfL Toy.P Toy.L img ≠ absOfL Toy.P Toy.L Toy.dR) ∧
    ¬ cAll ordChk 2 (cinit Toy.dR) CToy.recBad ∧
    CToy.recBadCut <+: CToy.recBad ∧ ¬ cAll ordChk 2 (cinit Toy.dR) CToy.recBadCut ∧
    (∃ img, IsCImage (crun (cinit Toy.dR) CToy.recBadCut) img ∧ absOfL Toy.P Toy.L img ≠ absOfL Toy.P Toy.L Toy.dR) :=
  ⟨⟨CToy.recBadImg, CToy.recBad_image, CToy.recBad_image_differs⟩, CToy.recBad_rejected, CToy.recBadCut_prefix,
    CToy.recBadCut_rejected, ⟨CToy.recBadImg, CToy.recBadCut_image, CToy.recBad_image_differs⟩⟩

/-- … and `checkRecoveryOrder` rejects its rendering `OToy.recBadLines`; the abstraction up to the rejected line is
`CToy.recBadCut`. -/
example :
    (checkRecoveryOrder OToy.recBadLines).toBool = false ∧
    absTrace (LogRec := Nat) OToy.CR { phase := 2, walWritten := true } 0 OToy.recBadLines = CToy.recBadCut :=
  ⟨OToy.recBad_rejected, OToy.recBad_abs⟩

end Nomt.C03
