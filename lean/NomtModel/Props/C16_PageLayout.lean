import NomtModel.Core.TriePosReach
import NomtModel.Store.PageLayoutLemmas
/-!
# C16 — the layout of a merkle page: node slots, elided-children bitfield, label

Mirror of `read_node` / `set_node` / `read_elided_children` / `set_elided_children` (`nomt/src/page_cache.rs`) and
`ElidedChildren` (`nomt/src/merkle/mod.rs`) in `Store/PageLayout.lean`; lemmas in `Store/PageLayoutLemmas.lean`.
Tie to the code: the `pgnode / pgset / pgel / pgsetel / pgpristine / elset / elget` lines of harness command `triepos`
(the real `PageMut` / `Page` / `ElidedChildren` through `nomt::verif_api::page_addr`) vs driver mode `triepos`, with the
changed bytes compared run by run.
-/
namespace Nomt.C16
open Nomt Nomt.PageLayout

/-- **T16.page_node_slots** on a 4096-byte page `set_node(i, node)` / `node(i)` panic iff `i ≥ 126`; for `i < 126`
`set_node` keeps the page size, `node(i)` reads back exactly what was written, and no other node, not the
elided-children bitfield and not the label (the page id the hash table is keyed by) changes. -/
theorem T16_page_node_slots (pg : PageBytes) (i : Nat) (node : List UInt8) (hpg : pg.length = PAGE_SIZE)
    (hn : node.length = 32) :
    (setNode pg i node = none ↔ NODES_PER_PAGE ≤ i) ∧ (readNode pg i = none ↔ NODES_PER_PAGE ≤ i) ∧
    (i < NODES_PER_PAGE → ∃ pg', setNode pg i node = some pg' ∧ pg'.length = PAGE_SIZE ∧
      readNode pg' i = some node ∧ (∀ j, j < NODES_PER_PAGE → j ≠ i → readNode pg' j = readNode pg j) ∧
      readElided pg' = readElided pg ∧ label pg' = label pg) :=
  ⟨setNode_none_iff pg i node, readNode_none_iff pg i, fun hi => setNode_spec pg i node hpg hn hi⟩

example : ∃ pg', setNode (List.replicate 4096 0) 125 (List.replicate 32 7) = some pg' ∧
    readNode pg' 125 = some (List.replicate 32 7) :=
  let ⟨pg', h, _, h2, _⟩ := setNode_spec (List.replicate 4096 0) 125 (List.replicate 32 7) (List.length_replicate ..)
    (List.length_replicate ..) (by decide)
  ⟨pg', h, h2⟩

/-- **T16.page_elided_bits** `set_elided_children` writes the `u64` (little endian) at `4096−40`: it reads back, no node
and not the label changes; `ElidedChildren::set_elide(c, on)` sets exactly bit `c` (`is_elided(c) = on`, every other
child's bit unchanged) and stays within 64 bits. -/
theorem T16_page_elided_bits (pg : PageBytes) (e : Nat) (hpg : pg.length = PAGE_SIZE) (he : e < 2 ^ 64) :
    ((setElided pg e).length = PAGE_SIZE ∧ readElided (setElided pg e) = e ∧
      (∀ j, j < NODES_PER_PAGE → readNode (setElided pg e) j = readNode pg j) ∧
      label (setElided pg e) = label pg) ∧
    (∀ c on, c < 64 → elidedGet (elidedSet e c on) c = on ∧ elidedSet e c on < 2 ^ 64 ∧
      ∀ c', c' < 64 → c' ≠ c → elidedGet (elidedSet e c on) c' = elidedGet e c') :=
  ⟨setElided_spec pg e hpg he, fun c on hc =>
    ⟨elidedGet_set_same e c on hc, elidedSet_lt e c on he hc, fun c' hc' hne => elidedGet_set_other e c c' on hc' hne⟩⟩

example : elidedSet 0 63 true = 2 ^ 63 ∧ elidedSet (2 ^ 64 - 1) 0 false = 2 ^ 64 - 2 := by decide

/-- **T16.position_slots_disjoint** two reachable trie positions with different paths that live in the same page
occupy different node indices, hence disjoint 32-byte ranges `[32·i, 32·i+32)`, both ending before the
elided-children bitfield at `4056`: writing one position's node never changes another position's node, the bitfield or
the label. -/
theorem T16_position_slots_disjoint (p q : TriePos.Pos) (hp : TriePos.Reach p) (hq : TriePos.Reach q)
    (h1 : 1 ≤ p.depth) (h2 : 1 ≤ q.depth) (hpid : p.pageId = q.pageId) (hne : p.path ≠ q.path) :
    p.nodeIndex ≠ q.nodeIndex ∧
    (32 * p.nodeIndex + 32 ≤ 32 * q.nodeIndex ∨ 32 * q.nodeIndex + 32 ≤ 32 * p.nodeIndex) ∧
    32 * p.nodeIndex + 32 ≤ ELIDED_OFF ∧ 32 * q.nodeIndex + 32 ≤ ELIDED_OFF := by
  have hidx : p.nodeIndex ≠ q.nodeIndex := fun h => hne (TriePos.wf_slot_injective p q hp.wf hq.wf h1 h2 hpid h)
  have hpl := (TriePos.wf_nodeIndex_lt p hp.wf h1).1
  have hql := (TriePos.wf_nodeIndex_lt q hq.wf h2).1
  unfold TriePos.NODES_PER_PAGE at hpl hql
  unfold ELIDED_OFF PAGE_SIZE
  refine ⟨hidx, ?_, ?_, ?_⟩ <;> omega

end Nomt.C16
