import NomtModel.Store.GenFnCheck5
/-!
# C14 (topic: translated function and constant of the I/O pool, `nomt/src/io/mod.rs`)

The I/O-pool theorems of `Props/C14_IoPool.lean` (every command is answered exactly once, a failing syscall is reported, no endless
reissue) are about the mirror `IoPool.getResult` and the bound `IoPool.MAX_IO_ATTEMPTS`; this file ties both to the CURRENT Rust text.
-/
namespace Nomt.C14
open Nomt

/-- T14.fn `IoKind::get_result` of the current source (regenerated on every run; the command by its variant tag, `errno` by the Bool
"the last OS error is `Interrupted`") is the mirror `getResult` for every kind, result and `errno`, and never panics -/
theorem T14_fn_get_result (k : GenFn.IoKind_kind) (res : Int) (errno : Nat) :
    GenFn.io_get_result k res (decide (errno = IoPool.EINTR)) =
      some (GenFnCheck.verdictGen (IoPool.getResult (decide (k = .Read)) res errno)) := GenFnCheck.io_get_result_eq k res errno

/-- T14.const `MAX_IO_ATTEMPTS` of the current source is the bound of `T14_execute_spec` / `T14_io_exactly_once` (and positive: at least one attempt) -/
theorem T14_const_max_io_attempts : Gen.MAX_IO_ATTEMPTS = IoPool.MAX_IO_ATTEMPTS ∧ 0 < Gen.MAX_IO_ATTEMPTS := by decide

example : GenFn.io_get_result .Read 0 false = some .Ok ∧ GenFn.io_get_result .Write 0 false = some .Retry ∧
    GenFn.io_get_result .WriteArc 4096 true = some .Ok ∧ GenFn.io_get_result .Write (-1) true = some .Retry ∧
    GenFn.io_get_result .Write (-1) false = some .Err ∧ GenFn.io_get_result .Read 100 false = some .Retry := by decide

end Nomt.C14
