import NomtModel.Api.ExecOverlay
/-!
# C11 — Overlays behave exactly like the commits they stand for  (first claim)

Theorems over `Api/Exec.lean` (helper lemmas and the definitions `ValidChain`, `commitSeq`, `directSeq`,
`core` are in `Api/ExecOverlay.lean`).
-/
namespace Nomt.C11
open Nomt Nomt.Api
variable {Node VH : Type} [DecidableEq Node] [DecidableEq VH]

/-- T11.1a: through a session built on a chain, a key changed by the youngest overlay reads that change -/
theorem T11_1a_view_youngest_wins (s : St Node VH) (o : Nat) (rest : List Nat) (ov : Ov Node VH) (k : Key)
    (w : Option VH) (ho : s.ov? o = some ov) (hw : wsLookup ov.changes k = some w) :
    viewGet s (o :: rest) k = w := by
  simp [viewGet, ho, hw]

/-- T11.1b: a key not changed by the youngest overlay is read from the rest of the chain, and from the
committed state when the chain is exhausted -/
theorem T11_1b_view_falls_through (s : St Node VH) (o : Nat) (rest : List Nat) (ov : Ov Node VH) (k : Key)
    (ho : s.ov? o = some ov) (hw : wsLookup ov.changes k = none) :
    viewGet s (o :: rest) k = viewGet s rest k := by
  simp [viewGet, ho, hw]

theorem T11_1c_view_empty_chain (s : St Node VH) (k : Key) : viewGet s [] k = kvGet s.kv k := rfl

/-- T11.2a: an empty ancestor list is always accepted (plain session on the committed state) -/
theorem T11_2a_empty_chain_ok (s : St Node VH) : newLive s [] = .ok [] := rfl

/-- T11.2b: a chain whose head is not a known overlay is refused -/
theorem T11_2b_unknown_refused (s : St Node VH) (p : Nat) (rest : List Nat) (h : s.ov? p = none) :
    newLive s (p :: rest) = .error .notAncestor := by
  simp [newLive, h]

/-- T11.3: committing a valid chain of overlays oldest-first.  For a chain `[o_n, …, o_1]` (child first) of
pairwise distinct overlay ids that is valid in `s` (`ValidChain`: every overlay exists and is held, `o_1`
passes the parent check and is based on the current root, `o_{i+1}.parent = some o_i` and
`o_{i+1}.prevRoot = o_i.root`), committing `o_1, …, o_n` in this order returns `ok` every time, and the
resulting committed state — values, root, rollback log, sequence number, overlay marker — is exactly the
one that direct commits of the same batches produce; in particular the values are the chain's list view
`viewKV s chain` and the root is the youngest overlay's root; every overlay of the chain ends up marked
committed with its handle consumed. -/
theorem T11_3_chain_commit (s : St Node VH) (chain : List Nat) (hnd : chain.Nodup) (hv : ValidChain s chain) :
    (commitSeq s chain.reverse).1 = true ∧
    obs (commitSeq s chain.reverse).2 = obs (directSeq s s chain.reverse) ∧
    (commitSeq s chain.reverse).2.kv = viewKV s chain ∧
    (commitSeq s chain.reverse).2.root = baseRoot s chain ∧
    (∀ o ∈ chain, ∃ ov, s.ov? o = some ov ∧
      (commitSeq s chain.reverse).2.ov? o = some { ov with held := false, committed := true }) := by
  obtain ⟨h1, h2, h3⟩ := commitSeq_chain s chain hnd hv
  have ho := obs_of_core h2
  refine ⟨h1, ho, ?_, ?_, h3⟩
  · have : (commitSeq s chain.reverse).2.kv = (directSeq s s chain.reverse).kv := congrArg (·.1) ho
    rw [this, directSeq_kv_viewKV]
  · have : (commitSeq s chain.reverse).2.root = (directSeq s s chain.reverse).root := congrArg (·.2.1) ho
    rw [this]
    apply directSeq_root_baseRoot
    intro c rest e
    subst e
    exact hv.head_some

/-- T11.3 for a single overlay, spelled out: a held overlay without uncommitted parent on the current root
commits `ok`, the values become `kvApply s.kv changes` and the root the overlay's root -/
theorem T11_3a_single_overlay_commit (s : St Node VH) (o : Nat) (ov : Ov Node VH) (ho : s.ov? o = some ov)
    (hh : ov.held = true) (hp : parentOk s ov = true) (hr : ov.prevRoot = s.root) :
    (commitOv s o).1 = .ok ∧ (commitOv s o).2.kv = kvApply s.kv ov.changes ∧ (commitOv s o).2.root = ov.root ∧
    (commitOv s o).2.lastMarker = some o := by
  rw [commitOv_ok s o ov ho hh hp hr.symm]
  refine ⟨rfl, ?_, rfl, rfl⟩
  show kvApply (dropOv s o).kv ov.changes = kvApply s.kv ov.changes
  rw [show (dropOv s o).kv = s.kv from congrArg (·.1) (core_dropOv s o)]

/-- T11.4: the per-key session view (first change along the chain, child first, else the committed value)
equals reading the chain's list view (overlays applied oldest first), provided the committed values are
sorted and each overlay's change keys are pairwise distinct (so that first-wins = last-wins inside one
overlay) -/
theorem T11_4_viewGet_eq_viewKV (s : St Node VH) (hs : KSorted s.kv) (chain : List Nat)
    (hd : ∀ o ∈ chain, ∀ ov, s.ov? o = some ov → WDistinct ov.changes) (k : Key) :
    viewGet s chain k = kvGet (viewKV s chain) k :=
  viewGet_eq_kvGet_viewKV s hs chain hd k

/-- T11.5: what a session built on a valid chain reads for a key is what a direct read returns after the
chain has been committed oldest-first -/
theorem T11_5_view_eq_after_commit (s : St Node VH) (hs : KSorted s.kv) (chain : List Nat) (hnd : chain.Nodup)
    (hv : ValidChain s chain) (hd : ∀ o ∈ chain, ∀ ov, s.ov? o = some ov → WDistinct ov.changes) (k : Key) :
    viewGet s chain k = kvGet (commitSeq s chain.reverse).2.kv k := by
  rw [(T11_3_chain_commit s chain hnd hv).2.2.1]
  exact viewGet_eq_kvGet_viewKV s hs chain hd k

/-- non-vacuity: a state with two stacked held overlays; the chain `[2, 1]` is valid and commits -/
example :
    let s : St Nat Nat := { root := 0, ovs := [
      { id := 2, parent := some 1, ancestors := [1], changes := [([false], some 2)], prevRoot := 10, root := 20,
        delta := [([false], none)] },
      { id := 1, parent := none, ancestors := [], changes := [([true], some 1)], prevRoot := 0, root := 10,
        delta := [([true], none)] }] }
    ValidChain s [2, 1] ∧ [2, 1].Nodup ∧ KSorted s.kv ∧ (commitSeq s [1, 2]).1 = true ∧
      (commitSeq s [1, 2]).2.kv = [([false], 2), ([true], 1)] := by
  intro s
  refine ⟨⟨⟨_, _, rfl, rfl, rfl, rfl, rfl⟩, _, rfl, rfl, rfl, rfl⟩, by decide, KSorted.nil, by decide, by decide⟩

end Nomt.C11
