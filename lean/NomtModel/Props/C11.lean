import NomtModel.Api.Exec
/-!
# C11 — Overlays behave exactly like the commits they stand for  (first claim)

Theorems over `Api/Exec.lean`; the chain-commit refinement (T11.3) is being added.
-/
namespace Nomt.C11
open Nomt Nomt.Api
variable {Node VH : Type} [DecidableEq Node] [DecidableEq VH]

/-- T11.1a: through a session built on a chain, a key changed by the youngest overlay reads that change -/
theorem T11_1a_view_youngest_wins (s : St Node VH) (o : Nat) (rest : List Nat) (ov : Ov Node VH) (k : Key)
    (w : Option VH) (ho : s.ov? o = some ov) (hw : wsLookup ov.changes k = some w) :
    viewGet s (o :: rest) k = w := by
  simp [viewGet, ho, hw]

/-- T11.1b: a key not changed by the youngest overlay is read from the rest of the chain, and from the
committed state when the chain is exhausted -/
theorem T11_1b_view_falls_through (s : St Node VH) (o : Nat) (rest : List Nat) (ov : Ov Node VH) (k : Key)
    (ho : s.ov? o = some ov) (hw : wsLookup ov.changes k = none) :
    viewGet s (o :: rest) k = viewGet s rest k := by
  simp [viewGet, ho, hw]

theorem T11_1c_view_empty_chain (s : St Node VH) (k : Key) : viewGet s [] k = kvGet s.kv k := rfl

/-- T11.2a: an empty ancestor list is always accepted (plain session on the committed state) -/
theorem T11_2a_empty_chain_ok (s : St Node VH) : newLive s [] = .ok [] := rfl

/-- T11.2b: a chain whose head is not a known overlay is refused -/
theorem T11_2b_unknown_refused (s : St Node VH) (p : Nat) (rest : List Nat) (h : s.ov? p = none) :
    newLive s (p :: rest) = .error .notAncestor := by
  simp [newLive, h]

end Nomt.C11
