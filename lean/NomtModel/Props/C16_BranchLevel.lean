import NomtModel.Store.BranchUpdRun
import NomtModel.Store.BranchUpdExamples
/-!
# C16 — the branch level stays well formed under the branch stage

`DbOK kf db` is what the decoders / the image monitor require of the bottom level of branch nodes (as far as the branch
stage is concerned): every node non-empty with ascending keys below 2^256, `1 ≤ prefix_compressed ≤ n`, the compressed
keys share the first `prefix_len` bits, the stored separator lengths are the ones `BranchNodeBuilder::push` writes, the
index separators ascend and bound the keys of their nodes.  The level the stage produces satisfies it again (false before
the repair of finding F22, commit `d4be933`: `Nomt.C01.T1_F22_overfull_counterexample`) — for every level, every change list
and every page-number assignment of the allocator — hence so does every level reachable by any sequence of stages.
-/
namespace Nomt.C16
open Nomt Nomt.BranchUpd
open Nomt.LeafUpd (applyAll)

/-- **T16.branch_level_closed** — one stage: the produced level is well formed and holds the old entries with the
changes applied. -/
theorem T16_branch_level_closed (db : List DbNode)
    (cs : List (Nat × Option Nat)) (lo : Nat) (hdb : DbOK kfReal db) (hcs : ChOK lo cs)
    (hfirst : ∀ l, db.head? = some l → l.sep ≤ lo) (f : Produced → Nat) :
    ∃ out rel, runWorker kfReal db cs = some (out, rel) ∧ DbOK kfReal (out.map (toDb f)) ∧
      flat (out.map (toDb f)) = applyAll (flat db) (chs cs) :=
  level_closed kfReal_ok kfReal_canon db cs lo hdb hcs hfirst f

/-- **T16.branch_level_invariant** — any number of stages: the level stays well formed and holds the original entries
with all change lists applied in order. -/
theorem T16_branch_level_invariant (f : Produced → Nat)
    (db db' : List DbNode) (css : List (List (Nat × Option Nat))) (hdb : DbOK kfReal db) (h : Rounds kfReal f db css db') :
    DbOK kfReal db' ∧ flat db' = css.foldl (fun l cs => applyAll l (chs cs)) (flat db) := by
  induction h with
  | nil db => exact ⟨hdb, rfl⟩
  | cons db cs css lo out rel db' h1 h2 h3 _ ih =>
    obtain ⟨out', rel', e, g1, g2⟩ := level_closed kfReal_ok kfReal_canon db cs lo hdb h1 h2 f
    rw [h3] at e
    cases e
    obtain ⟨i1, i2⟩ := ih g1
    exact ⟨i1, by rw [i2, g2]; rfl⟩

/-- non-vacuity: the hypotheses are met by the four-node level of the examples, and a round on
it exists -/
example : DbOK kfReal exDb ∧
    ∃ db', Rounds kfReal (fun _ => 99) exDb [[(exKey 0 5, none), (exKey 3 1, some 6)]] db' := by
  refine ⟨by decide +kernel, ?_⟩
  have h : (runWorker kfReal exDb [(exKey 0 5, none), (exKey 3 1, some 6)]).isSome = true := by
    decide +kernel
  obtain ⟨⟨out, rel⟩, e⟩ := Option.isSome_iff_exists.1 h
  exact ⟨_, .cons _ _ _ 0 out rel _ (by decide +kernel) (by decide +kernel) e (.nil _)⟩

end Nomt.C16
