import NomtModel.Store.GenFnCheck6
/-!
# C16 (topic: translated functions — page arithmetic of the on-disk formats)

`Generated/Functions.lean` is regenerated from the Rust sources on every run by `tools/gen_functions.py`; these theorems
say that the TRANSLATED functions are the mirrors the format theorems are stated with, for every argument.
-/
namespace Nomt.C16
open Nomt

/-- T16.fn-1 `leaf::node::body_size(n, sum)` of the current source is `34 n + sum` (cell pointers of 34 bytes, then values) and
does not overflow on anything a page can hold -/
theorem T16_fn_leaf_body_size (n sum : Nat) (h : n < 2 ^ 32) (hs : sum < 2 ^ 32) :
    GenFn.leaf_body_size n sum = some (LeafUpd.bodySize n sum) ∧ LeafUpd.bodySize n sum = n * 34 + sum :=
  ⟨GenFnCheck.leaf_body_size_eq n sum h hs, rfl⟩

/-- T16.fn-2 `branch::node::body_size(prefix_len, total_separator_lengths, n)` of the current source: 2-byte cells, the prefix and
separator BITS rounded up to whole bytes, 4-byte node pointers -/
theorem T16_fn_branch_body_size (pl tot n : Nat) (h : n < 2 ^ 32) (hp : pl < 2 ^ 32) (ht : tot < 2 ^ 32) :
    GenFn.branch_body_size pl tot n = some (2 * n + (pl + tot + 7) / 8 + 4 * n) :=
  GenFnCheck.branch_body_size_eq pl tot n h hp ht

/-- T16.fn-3 the hash-table file: `num_meta_byte_pages` / `expected_file_len` of the current source are the decoder's -/
theorem T16_fn_ht_file_len (n : Nat) (h : n < 2 ^ 31) :
    GenFn.num_meta_byte_pages n = some (Store.numMetaBytePages n) ∧
    GenFn.expected_file_len n = some ((Store.numMetaBytePages n + n) * 4096) :=
  ⟨GenFnCheck.num_meta_byte_pages_eq n (Nat.lt_trans h (by decide)), GenFnCheck.expected_file_len_eq n h⟩

/-- T16.fn-4 the chunk masks of `bitwise_memcpy` of the current source are the mirrors (same values, same panics) -/
theorem T16_fn_chunk_masks (s l n : Nat) (hb : s + l < 2 ^ 63) (hn : n < 2 ^ 57) :
    GenFn.first_chunk_mask s = BitOps.firstChunkMask s ∧ GenFn.last_chunk_mask s l n = BitOps.lastChunkMask s l n :=
  ⟨GenFnCheck.first_chunk_mask_eq s, GenFnCheck.last_chunk_mask_eq s l n hb hn⟩

/-- T16.fn-5 overflow page arithmetic of the current source -/
theorem T16_fn_needed_pages (v : Nat) (h : v < 2 ^ 48) :
    GenFn.needed_pages v = some (Ovf.neededPages v) ∧ GenFn.total_needed_pages v = some (Ovf.totalNeededPages v) :=
  ⟨GenFnCheck.needed_pages_eq v (Nat.lt_trans h (by decide)), GenFnCheck.total_needed_pages_eq v h⟩

example : GenFn.total_needed_pages 61381 = some 16 ∧ GenFn.total_needed_pages 61380 = some 15 ∧
    GenFn.branch_body_size 200 1000 100 = some 750 ∧ GenFn.expected_file_len 64000 = some ((16 + 64000) * 4096) ∧
    GenFn.first_chunk_mask 8 = none ∧ GenFn.last_chunk_mask 0 64 0 = none := by decide

/-- T16.fn-6 `PageDiff::{changed, set_changed, set_cleared, cleared, count, assert_not_cleared}` of the CURRENT source (the two `u64`
words of `changed_nodes` passed as arguments; a `&mut self` method returns the new words) are the mirrors of `Store/PageDiffModel.lean`
for ALL words and slots — same values, same panic sites (`changed_nodes[word]` out of bounds, `assert!(slot_index < NODES_PER_PAGE)`) -/
theorem T16_fn_page_diff (d : Wal.PageDiff) (slot : Nat) :
    GenFn.pd_changed d.w0 d.w1 slot = GenFnCheck.outOpt (d.changedM slot) ∧
    GenFn.pd_set_changed d.w0 d.w1 slot = (GenFnCheck.outOpt (d.setChanged slot)).map (fun d' => (d'.w0, d'.w1)) ∧
    GenFn.pd_set_cleared d.w0 d.w1 = some ((d.setCleared).w0, (d.setCleared).w1) ∧ GenFn.pd_cleared d.w0 d.w1 = some d.cleared ∧
    GenFn.pd_assert_not_cleared d.w0 d.w1 = (if d.w1 &&& Wal.CLEAR_BIT = 0 then some () else none) ∧
    GenFn.pd_count d.w0 d.w1 = some d.count :=
  ⟨GenFnCheck.pd_changed_eq d slot, GenFnCheck.pd_set_changed_eq d slot, (GenFnCheck.pd_cleared_eq d).1, (GenFnCheck.pd_cleared_eq d).2.1,
   (GenFnCheck.pd_cleared_eq d).2.2, GenFnCheck.pd_count_eq d⟩

/-- T16.fn-7 one step of `FastIterOnes` (`match self.0.trailing_zeros() { 64 => None, x => { self.0 &= !(1 << x); Some(x) } }`) of the
current source is the step of the mirror `fastIterOnes`: the lowest set bit, which is erased -/
theorem T16_fn_fast_iter_ones_next (w : Nat) :
    GenFn.fast_iter_ones_next w =
      some (if Wal.PageDiff.trailingZeros w = 64 then (none, w)
            else (some (Wal.PageDiff.trailingZeros w), w &&& (Wal.U64_MAX - 2 ^ Wal.PageDiff.trailingZeros w))) :=
  GenFnCheck.fast_iter_ones_next_eq w

/-- T16.fn-8 `PageDiff::join` of the current source (struct result = the two words) is the mirror's word-wise OR -/
theorem T16_fn_page_diff_join (a b : Wal.PageDiff) :
    GenFn.pd_join a.w0 a.w1 b.w0 b.w1 = some ((a.join b).w0, (a.join b).w1) := GenFnCheck.pd_join_eq a b

/-- T16.fn-9 `prefix_len(key_a, key_b)` of the current source — a NESTED loop: the outer `for byte in 0..32` translated as recursion on the
remaining iterations, the inner `for bit in 0..8` unrolled, `break 'byte_loop` leaving both — is the mirror `BitOps.prefixLen` on any two
32-byte keys (no panic: no index out of bounds, no overflow of `bit_len`) -/
theorem T16_fn_prefix_len (a b : List Nat) (ha : a.length = 32) (hb : b.length = 32) :
    GenFn.prefix_len a b = some (BitOps.prefixLen a b) := GenFnCheck.prefix_len_eq a b ha hb

set_option maxRecDepth 65536 in
example : GenFn.prefix_len (List.replicate 32 0) (List.replicate 31 0 ++ [1]) = some 255 ∧
    GenFn.prefix_len (0x80 :: List.replicate 31 0) (List.replicate 32 0) = some 0 ∧
    GenFn.prefix_len (List.replicate 31 0) (List.replicate 32 0) = none := by decide

example : GenFn.pd_set_changed 0 (2 ^ 63) 64 = some (0, 1) ∧ GenFn.pd_set_changed 0 0 126 = none ∧ GenFn.pd_changed 5 0 2 = some true ∧
    GenFn.pd_changed 5 0 128 = none ∧ GenFn.pd_count 7 (2 ^ 63) = some 4 ∧ GenFn.fast_iter_ones_next 12 = some (some 2, 8) ∧
    GenFn.fast_iter_ones_next 0 = some (none, 0) ∧ GenFn.pd_assert_not_cleared 0 (2 ^ 63) = none := by decide

end Nomt.C16
