import NomtModel.Api.Flock
/-!
# C20 — One directory has at most one live handle

Theorems about the lock protocol model (`Api/Flock.lean`), for every interleaving (= every list of steps
of any processes).  OS facts used by the model and listed as assumptions: `flock` is atomic and per open
file description, it is released at process death, `O_CREAT` on an existing `.lock` does not modify it.
-/
namespace Nomt.C20
open Nomt.Flock

theorem inv_init : Inv ({} : Dir) := by
  intro p
  constructor
  · intro h; exact absurd rfl h
  · intro h; cases h

theorem inv_step (d : Dir) (s : Step) (h : Inv d) : Inv (step d s).1 := by
  intro q
  cases s with
  | tryOpen p =>
    by_cases hp : d.phase p ≠ .idle
    · have e : step d (.tryOpen p) = (d, false) := by simp [step, hp]
      rw [e]; exact h q
    · cases hh : d.holder with
      | some x =>
        have e : step d (.tryOpen p) = (d, false) := by simp [step, hp, hh]
        rw [e]; exact h q
      | none =>
        have e : step d (.tryOpen p) = (setPhase { d with holder := some p } p .holding, true) := by
          simp [step, hp, hh]
        rw [e]
        simp only [setPhase]
        by_cases hq : q = p
        · subst hq; simp
        · have := h q
          simp only [hq, if_false]
          rw [hh] at this
          constructor
          · intro hne; exact absurd (this.mp hne) (by simp)
          · intro he; injection he with he; exact absurd he.symm hq
  | write p =>
    simp only [step]
    split <;> exact h q
  | beginDrop p =>
    simp only [step]
    split
    · rename_i hc
      simp only [setPhase]
      by_cases hq : q = p
      · subst hq; simp [hc.1]
      · simp only [hq, if_false]; exact h q
    · exact h q
  | endDrop p =>
    simp only [step]
    split
    · rename_i hc
      simp only [setPhase]
      by_cases hq : q = p
      · subst hq; simp
      · simp only [hq, if_false]
        have := h q
        constructor
        · intro hne
          have := this.mp hne
          rw [hc.1] at this; injection this with this; exact absurd this.symm hq
        · intro he; cases he
    · exact h q
  | kill p =>
    simp only [step, setPhase]
    by_cases hq : q = p
    · subst hq
      simp only [if_true]
      constructor
      · intro hne; exact absurd rfl hne
      · intro he
        split at he <;> simp_all
    · simp only [hq, if_false]
      have := h q
      constructor
      · intro hne
        have hh := this.mp hne
        rw [hh]
        have : ¬ (some q = some p) := by intro e; injection e with e; exact hq e
        simp [this]
      · intro he
        apply this.mpr
        split at he
        · cases he
        · exact he

theorem inv_run (steps : List Step) (d : Dir) (h : Inv d) : Inv (run d steps) := by
  induction steps generalizing d with
  | nil => exact h
  | cons s rest ih => exact ih _ (inv_step d s h)

/-- T20.1 **at most one live handle**: in every reachable state of every interleaving of opens, writes,
drops and kills by any processes, two processes that are not idle (holding a handle or still draining
one) are the same process. -/
theorem T20_1_at_most_one_handle (steps : List Step) (p q : Pid)
    (hp : (run {} steps).phase p ≠ .idle) (hq : (run {} steps).phase q ≠ .idle) : p = q := by
  have h := inv_run steps {} inv_init
  have a := (h p).mp hp
  have b := (h q).mp hq
  rw [a] at b; injection b

/-- T20.2 **a refused open changes nothing**: in any state, an open attempt that does not succeed returns
the directory — lock word, file contents, every process' phase — exactly as it was. -/
theorem T20_2_refused_open_changes_nothing (d : Dir) (p : Pid) (h : (step d (.tryOpen p)).2 = false) :
    (step d (.tryOpen p)).1 = d := by
  by_cases hp : d.phase p ≠ .idle
  · simp [step, hp]
  · cases hh : d.holder with
    | some x => simp [step, hp, hh]
    | none => simp [step, hp, hh] at h

/-- T20.3 **writers only under the lock**: a write step takes effect only for the process that holds the
lock; in particular after `endDrop p` (I/O pool drained, then unlocked) or `kill p` no write of `p` can
change a file, and the directory can be opened again. -/
theorem T20_3_no_write_without_lock (d : Dir) (p : Pid) (h : d.holder ≠ some p) :
    (step d (.write p)).1 = d := by
  simp [step, h]

theorem T20_3b_reopen_after_drop_or_kill (d : Dir) (p q : Pid) (hinv : Inv d) (hq : d.phase q = .idle ∨ q = p) :
    (d.holder = some p ∧ d.phase p = .draining → (step (step d (.endDrop p)).1 (.tryOpen q)).2 = true) ∧
    (d.holder = some p → (step (step d (.kill p)).1 (.tryOpen q)).2 = true) := by
  constructor
  · intro hc
    simp only [step, hc, and_self, if_true, setPhase]
    by_cases e : q = p
    · subst e; simp
    · rcases hq with hq | hq
      · simp [e, hq]
      · exact absurd hq e
  · intro hc
    simp only [step, hc, if_true, setPhase]
    by_cases e : q = p
    · subst e; simp
    · rcases hq with hq | hq
      · simp [e, hq]
      · exact absurd hq e

/-- non-vacuity: a concrete interleaving — 1 opens, 2 is refused, 1 writes, drops, 2 opens -/
example : ((run {} [.tryOpen 1, .tryOpen 2, .write 1, .beginDrop 1, .write 1, .endDrop 1, .tryOpen 2]).holder = some 2)
    ∧ ((run {} [.tryOpen 1, .tryOpen 2, .write 1, .beginDrop 1, .write 1, .endDrop 1, .tryOpen 2]).content = 2) := by
  decide

end Nomt.C20
