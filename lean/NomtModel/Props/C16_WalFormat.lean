import NomtModel.Store.WalEncode
import NomtModel.Store.WalExample
/-!
# C16 (topic: the on-disk format of the bitbox WAL and of the page diff)

The byte layout of the `wal` file as `WalBlobBuilder` writes it, that the reader mirror inverts it, and the 16-byte
encoding of `PageDiff`.  (Model: `Store/WalModel.lean`, `Store/PageDiffModel.lean`; tie: the `wal` differential and the
`walredo` monitor on real crash images — the WAL decoder is no longer unexercised.)
-/
namespace Nomt.C16
open Nomt Nomt.Wal Nomt.Wal.PageDiff

/-- T16.wal-1 **the layout**: `START(1) seqn:u32le | entries | END(2) | zeros up to a page multiple`; a clear entry is
`CLEAR(3) bucket:u64le`; an update entry is `UPDATE(4) page_id[32] diff[16] node[32]… elided:u64le bucket:u64le` with
the diff as two little-endian `u64` words. -/
theorem T16_wal_layout (seqn : Nat) (es : List Entry) (pid : Bytes) (d : PageDiff) (nodes : List Bytes) (el b : Nat) :
    encode seqn es = (1 :: (leBytes 4 seqn ++ (es.map encEntry).flatten ++ [2])) ++
        List.replicate (padLen (encBody seqn es).length) 0 ∧
    encEntry (.clear b) = 3 :: leBytes 8 b ∧
    encEntry (.update pid d nodes el b) =
      4 :: (pid ++ (leBytes 8 d.w0 ++ leBytes 8 d.w1) ++ nodes.flatten ++ leBytes 8 el ++ leBytes 8 b) ∧
    (encode seqn es).length % PAGE_SIZE = 0 :=
  ⟨rfl, rfl, rfl, Builder.encode_length_mod seqn es⟩

/-- T16.wal-2 decoder ∘ encoder = identity on every sequence number and every list of well-typed entries. -/
theorem T16_wal_roundtrip (seqn : Nat) (hs : seqn < 2 ^ 32) (es : List Entry) (hes : ∀ e ∈ es, e.Honest) :
    ∃ res, readAll (encode seqn es).toArray = .ok res ∧ res.seqn = seqn ∧ res.entries = es ∧ res.ending = .ok () :=
  readAll_encode seqn hs es hes

/-- T16.wal-3 the decoder is total: no byte string makes it index outside the file. -/
theorem T16_wal_reader_total (file : Array UInt8) :
    (readAll file).isPanic = false ∧ ∀ res, readAll file = .ok res → res.ending.isPanic = false :=
  readAll_total file

/-- T16.wal-4 the page diff on disk: `as_bytes` / `from_bytes` are mutually inverse exactly on the maps without
reserved bit; `from_bytes` rejects the others. -/
theorem T16_pagediff_bytes :
    (∀ d : PageDiff, d.WF → d.changed 126 = false → d.changed 127 = false → fromBytes d.asBytes = some d) ∧
    (∀ (b : Bytes) (d : PageDiff), b.length = 16 → fromBytes b = some d →
        d.WF ∧ d.changed 126 = false ∧ d.changed 127 = false ∧ d.asBytes = b) ∧
    (∀ b : Bytes, fromBytes b = none ↔
      ((⟨leNat (slice b 0 8), leNat (slice b 8 8)⟩ : PageDiff).changed 126 = true ∨
       (⟨leNat (slice b 0 8), leNat (slice b 8 8)⟩ : PageDiff).changed 127 = true)) :=
  ⟨fun _ h1 h2 h3 => fromBytes_asBytes h1 h2 h3, fun _ _ hb h => fromBytes_some hb h, fun _ => fromBytes_none_iff⟩

example : fromBytes (⟨5, 2 ^ 62⟩ : PageDiff).asBytes = none := by decide
example : fromBytes (⟨5, 2 ^ 61⟩ : PageDiff).asBytes = some ⟨5, 2 ^ 61⟩ := by decide
example : ∀ e ∈ [Entry.clear 9, updateOf exPage ⟨3, 0⟩ 7], e.Honest := by
  intro e he
  simp only [List.mem_cons, List.not_mem_nil, or_false] at he
  rcases he with rfl | rfl
  · show 9 < 2 ^ 64; omega
  · exact updateOf_honest exPage_length (by decide) plain_3 (by omega)

end Nomt.C16
