import NomtModel.Store.LeafPushChunk5
import NomtModel.Props.C16_GenFn
/-!
# C16 (topic: `LeafBuilder::{new, push_cell, push_chunk, finish}` at the byte level)

`Store/LeafPushChunk.lean` mirrors `nomt/src/beatree/leaf/node.rs` on a page given as a byte list (every assert,
slice bound and checked-arithmetic failure an `Outcome.panic`).  The builder invariant `LeafBInv b n total es`
(`Store/LeafPushChunk2.lean`) says: header `n`, cell pointers `0..index` = keys / offsets / overflow bits of `es`,
the cells of `es` laid out from `PAGE - total`, `remaining_value_size = total - Σ|cell|`, `index = |es|`;
`LeafBAt` is the same with the two untouched byte ranges named, which makes states comparable byte for byte.
-/
namespace Nomt.C16
open Nomt Nomt.Store

/-- T16.leafb-1 `LeafBuilder::new(n, total)` establishes the invariant with nothing pushed, for every content of
the allocated page, when `body_size(n, total) ≤ LEAF_NODE_BODY_SIZE`. -/
theorem T16_leaf_builder_new (pool : List UInt8) (n total : Nat) (hpool : pool.length = PAGE)
    (hfit : 2 + 34 * n + total ≤ PAGE) : LeafBInv (lbNew pool n total) n total [] :=
  ⟨_, _, lbNew_inv pool n total hpool hfit⟩

example : LeafBInv lbExB0 3 47 [] := T16_leaf_builder_new lbExPool 3 47 (by decide +kernel) (by decide)

/-- T16.leafb-2 `push_cell(key, value, overflow)` does not panic and keeps the invariant (the entry is appended),
when fewer than `n` entries were pushed, the key has 32 bytes and the value fits the remaining value size. -/
theorem T16_leaf_push_cell (b : LeafB) (n total : Nat) (es : List LeafEntry) (h : LeafBInv b n total es)
    (e : LeafEntry) (hlt : es.length < n) (hkey : e.key.size = 32) (hfit : e.cell.size ≤ b.rem) :
    ∃ b', lbPush b e.key.data.toList e.cell.data.toList e.overflow = .ok b' ∧ LeafBInv b' n total (es ++ [e]) := by
  obtain ⟨mid, tail, hat⟩ := h
  obtain ⟨b', h1, h2⟩ := lbPush_inv hat e hlt hkey hfit
  exact ⟨b', h1, _, _, h2⟩

example : ∃ b', lbPush lbExB0 lbExE1.key.data.toList lbExE1.cell.data.toList lbExE1.overflow = .ok b' ∧
    LeafBInv b' 3 47 ([] ++ [lbExE1]) :=
  T16_leaf_push_cell lbExB0 3 47 [] ⟨_, _, lbExB0_inv⟩ lbExE1 (by decide) (by decide +kernel) (by decide +kernel)

/-- T16.leafb-3 **`push_chunk` ≡ a loop of `push_cell`, byte for byte.**  For every builder state satisfying the
invariant, every base page `base` ACCEPTED BY THE ON-DISK DECODER (`decodeLeaf base = ok bes`) and every non-empty
range `from < to ≤ |bes|` with `index + (to - from) ≤ n` and `Σ|cell| of the range ≤ remaining_value_size`:
`push_chunk(base, from, to)` does not panic, returns EXACTLY the state (page bytes, index, remaining size) of
`for i in from..to { push_cell(base.key(i), base.value(i)) }` — cells copied as a block, cell pointers rebased by
`new_offset − base_offset`, overflow bits kept — and that state satisfies the invariant for `es ++ bes[from..to)`. -/
theorem T16_leaf_push_chunk_rt (b : LeafB) (n total : Nat) (es : List LeafEntry) (h : LeafBInv b n total es)
    (base : List UInt8) (bes : List LeafEntry) (hdec : decodeLeaf base.toByteArray = .ok bes)
    (from_ to : Nat) (hft : from_ < to) (hto : to ≤ bes.length)
    (hidx : b.index + (to - from_) ≤ n) (hfit : leafTotal (leafRange bes from_ to) ≤ b.rem) :
    ∃ b', lbPushChunk .none b base from_ to = .ok b' ∧
      lbPushMany b (leafRange bes from_ to) = .ok b' ∧
      LeafBInv b' n total (es ++ leafRange bes from_ to) := by
  obtain ⟨pad, rfl, hbase⟩ := decodeLeaf_surj base bes hdec
  obtain ⟨mid, tail, hat⟩ := h
  obtain ⟨b', h1, h2, h3⟩ := lbPushChunk_range hat bes pad hbase from_ to hft hto hidx hfit
  exact ⟨b', h1, h2, _, _, h3⟩

example : ∃ b', lbPushChunk .none lbExB0 lbExBase 0 2 = .ok b' ∧ lbPushMany lbExB0 (leafRange [lbExE1, lbExE2] 0 2) = .ok b' ∧
    LeafBInv b' 3 47 ([] ++ leafRange [lbExE1, lbExE2] 0 2) :=
  T16_leaf_push_chunk_rt lbExB0 3 47 [] ⟨_, _, lbExB0_inv⟩ lbExBase [lbExE1, lbExE2] (leaf_rt _ _ lbExBase_ok) 0 2 (by decide)
    (by decide) (by decide) (by decide +kernel)

/-- T16.leafb-3b the pages `decodeLeaf` accepts are exactly the encoder outputs `encodeLeafL bes pad` with
`leafOK bes pad` (`Store.leaf_rt` is the direction ⇐; ⇒ is new and is what lets T16.leafb-3 quantify over decoded
bases). -/
theorem T16_leaf_decoder_accepts_iff (L : List UInt8) (bes : List LeafEntry) :
    decodeLeaf L.toByteArray = .ok bes ↔ ∃ pad, L = encodeLeafL bes pad ∧ leafOK bes pad = true :=
  ⟨decodeLeaf_surj L bes, fun ⟨pad, h1, h2⟩ => h1 ▸ leaf_rt bes pad h2⟩

example : decodeLeaf lbExBase.toByteArray = .ok [lbExE1, lbExE2] :=
  (T16_leaf_decoder_accepts_iff lbExBase [lbExE1, lbExE2]).mpr ⟨lbExPad, rfl, lbExBase_ok⟩

/-- T16.leafb-4 `finish` after `n` entries with `remaining_value_size = 0`: no panic, the page is the encoder's
`encodeLeafL es mid` and the on-disk decoder reads back exactly the pushed list — provided every pushed entry is
admissible for the decoder (`leafEntryOK`: inline value ≤ `MAX_LEAF_VALUE_SIZE`, overflow cell `40 + 4k`, `1 ≤ k ≤ 15`;
entries taken from an accepted base leaf always are). -/
theorem T16_leaf_finish_decodes (b : LeafB) (n total : Nat) (es : List LeafEntry) (h : LeafBInv b n total es)
    (hn : es.length = n) (hpos : 0 < n) (hrem : b.rem = 0) (hok : ∀ e ∈ es, leafEntryOK e = true) :
    lbFinish b = .ok b.page ∧ decodeLeaf b.page.toByteArray = .ok es := by
  obtain ⟨mid, tail, hat⟩ := h
  obtain ⟨h1, _, _, h4⟩ := lbFinish_decodes hat hn hpos hrem hok
  exact ⟨h1, h4⟩

/-- T16.leafb-5 whole run: `new`, `push_chunk(base, from, to)` of a non-empty range, `push_cell` of further
entries `more`, `finish`, decoded: the base's range followed by `more` (the `example` below is also the
non-vacuity instance of T16.leafb-4). -/
theorem T16_leaf_chunk_then_cells_decode (pool : List UInt8) (hpool : pool.length = PAGE)
    (base : List UInt8) (bes : List LeafEntry) (hdec : decodeLeaf base.toByteArray = .ok bes)
    (from_ to : Nat) (hft : from_ < to) (hto : to ≤ bes.length) (more : List LeafEntry) (hmore : ∀ e ∈ more, leafEntryOK e = true)
    (hfit : 2 + 34 * ((to - from_) + more.length) + (leafTotal (leafRange bes from_ to) + leafTotal more) ≤ PAGE) :
    ∃ b1 b2, lbPushChunk .none (lbNew pool ((to - from_) + more.length)
        (leafTotal (leafRange bes from_ to) + leafTotal more)) base from_ to = .ok b1 ∧
      lbPushMany b1 more = .ok b2 ∧ lbFinish b2 = .ok b2.page ∧
      decodeLeaf b2.page.toByteArray = .ok (leafRange bes from_ to ++ more) := by
  obtain ⟨pad, rfl, hbase⟩ := decodeLeaf_surj base bes hdec
  have hat0 := lbNew_inv pool ((to - from_) + more.length) (leafTotal (leafRange bes from_ to) + leafTotal more) hpool hfit
  obtain ⟨b1, h1, _, hat1⟩ := lbPushChunk_range hat0 bes pad hbase from_ to hft hto
    (by show 0 + _ ≤ _; omega) (by show _ ≤ _ + _; omega)
  obtain ⟨hs, hl1, hl2⟩ := leafRange_split bes from_ to (by omega) hto
  have hlen : (leafRange bes from_ to).length = to - from_ := by omega
  have hr1 : b1.rem + leafTotal ([] ++ leafRange bes from_ to) = _ := hat1.2.2.2.2.1
  simp only [List.nil_append] at hr1
  obtain ⟨b2, h2, hat2⟩ := lbPushMany_inv more hat1 (fun e he => leafEntryOK_key (hmore e he))
    (by simp only [List.nil_append]; omega) (by omega)
  have hall : ∀ e ∈ [] ++ leafRange bes from_ to ++ more, leafEntryOK e = true := by
    intro e he
    simp only [List.nil_append] at he
    rcases List.mem_append.mp he with he | he
    · exact (leafOK_parts hbase).2.1 e (by rw [hs]; simp [he])
    · exact hmore e he
  have hr2 : b2.rem + leafTotal ([] ++ leafRange bes from_ to ++ more) = _ := hat2.2.2.2.2.1
  simp only [List.nil_append, leafTotal_append] at hr2
  obtain ⟨h3, _, _, h4⟩ := lbFinish_decodes hat2 (by simp; omega) (by omega) (by omega) hall
  simp only [List.nil_append] at h4
  exact ⟨b1, b2, h1, h2, h3, h4⟩

example : ∃ b1 b2, lbPushChunk .none (lbNew lbExPool ((2 - 0) + [lbExE3].length)
      (leafTotal (leafRange [lbExE1, lbExE2] 0 2) + leafTotal [lbExE3])) (encodeLeafL [lbExE1, lbExE2] lbExPad) 0 2 = .ok b1 ∧
    lbPushMany b1 [lbExE3] = .ok b2 ∧ lbFinish b2 = .ok b2.page ∧
    decodeLeaf b2.page.toByteArray = .ok (leafRange [lbExE1, lbExE2] 0 2 ++ [lbExE3]) :=
  T16_leaf_chunk_then_cells_decode lbExPool (by decide +kernel) _ [lbExE1, lbExE2] (leaf_rt _ lbExPad lbExBase_ok) 0 2 (by decide) (by decide)
    [lbExE3] (by decide +kernel) (by decide +kernel)

/-- T16.leafb-6 (counterexample, kernel-evaluated) rebasing the copied cell pointers with the WRONG SIGN of
`difference` (or with a `difference` taken two bytes — the header size — off): on the concrete builder `lbExB0`
and base `lbExBase` the correct code writes the cell-pointer words `[4049, 4051 | 0x8000]`, as the loop of
`push_cell` does; both mistakes write `[4051, 4053 | 0x8000]`. -/
theorem T16_leaf_push_chunk_rebase_cex :
    lbPtrWords (lbPushChunk .none lbExB0 lbExBase 0 2) 2 = some [4049, 36819] ∧
    lbPtrWords (lbPushMany lbExB0 [lbExE1, lbExE2]) 2 = some [4049, 36819] ∧
    lbPtrWords (lbPushChunk .wrongSign lbExB0 lbExBase 0 2) 2 = some [4051, 36821] ∧
    lbPtrWords (lbPushChunk .headerOff lbExB0 lbExBase 0 2) 2 = some [4051, 36821] := by decide +kernel

/-- T16.leafb-7 (counterexample, kernel-evaluated) LOSING THE OVERFLOW BIT when rebasing (`& !OVERFLOW_BIT` before
the addition): the second cell of the range is an overflow cell, its word must be `4051 | 0x8000 = 36819`; the
mistake writes `4051`. -/
theorem T16_leaf_push_chunk_overflow_bit_cex :
    lbPtrWords (lbPushChunk .none lbExB0 lbExBase 0 2) 2 = some [4049, 36819] ∧
    lbPtrWords (lbPushChunk .dropOverflow lbExB0 lbExBase 0 2) 2 = some [4049, 4051] := by decide +kernel

/-- T16.leafb-8 (boundary of T16.leafb-3, kernel-evaluated) EMPTY ranges: `push_chunk(base, 0, 0)` panics
(`to - 1`), `push_chunk(base, n_base, n_base)` panics (`cell_pointers[from]` out of bounds), an empty range strictly
inside is a no-op.  Hence the hypothesis `from < to` of T16.leafb-3. -/
theorem T16_leaf_push_chunk_empty_range :
    (lbPushChunk .none lbExB0 lbExBase 0 0).isPanic = true ∧
    (lbPushChunk .none lbExB0 lbExBase 2 2).isPanic = true ∧
    (lbPushChunk .none lbExB0 lbExBase 1 1).isPanic = false := by
  refine ⟨by decide +kernel, by decide +kernel, by decide +kernel⟩

/-- T16.leafb-10 **capacity from the gauge**: the hypothesis `2 + 34 n + total ≤ PAGE` of T16.leafb-1 (hence of the whole
builder run) is the callers' precondition in the terms of the CURRENT source: `leaf::node::body_size(n, total)` (the
translated function, `T16_fn_leaf_body_size`) is at most `LEAF_NODE_BODY_SIZE = 4096 − 2`. -/
theorem T16_leaf_fit_of_gauge (n total bs : Nat) (hg : GenFn.leaf_body_size n total = some bs) (hbs : bs ≤ 4096 - 2)
    (hn : n < 2 ^ 32) (ht : total < 2 ^ 32) : 2 + 34 * n + total ≤ PAGE := by
  obtain ⟨h1, h2⟩ := T16_fn_leaf_body_size n total hn ht
  rw [h1] at hg
  cases hg
  rw [h2] at hbs
  show 2 + 34 * n + total ≤ 4096
  omega

example : 2 + 34 * 3 + 47 ≤ PAGE := T16_leaf_fit_of_gauge 3 47 149 (by decide) (by decide) (by decide) (by decide)

end Nomt.C16

