import NomtModel.Store.PrepareSyncTheorems
import NomtModel.Store.PrepareSyncExample
/-!
# C17 (topic: `bitbox::DB::prepare_sync`) — the hash-table pages of the previous state stay intact

Hash-table writes happen only after the switch-over (`checkPlacement` rejects any before it, T17.2); what is written then —
and what recovery re-applies — must not touch the bucket of a page that the sync does not change.
-/
namespace Nomt.C17
open Nomt Nomt.Wal Nomt.Store Nomt.Store.Probe Nomt.PrepSync

/-- **T17_prepare_sync_touches_only_changed**: the page list `prepare_sync` hands to `write_ht` contains only (1) the page
of an updated (not cleared) page of the changeset, at the bucket that page got, and (2) the new content of a meta page
that holds the bucket of a cleared or freshly placed page; and for every page `q` stored in the OLD table that the
changeset does not name: its bucket is not in the list and its meta byte is unchanged. -/
theorem T17_prepare_sync_touches_only_changed {hash : Bytes → Nat} {debug : Bool} {S : St} {T : Wal.Table} {seqn : Nat}
    {ds : List Dirty} {b0 : Builder} {res : Res} (hB : Before hash S T) (hC : ChangesOK hash S T ds)
    (h : prepareSync hash debug S seqn ds b0 = .ok res) :
    (∀ y ∈ res.ht,
      (∃ x ∈ ups ds res.cells, y = (dataOffset S.mm.buckets + x.1, x.2.page)) ∨
      (y.1 < dataOffset S.mm.buckets ∧ y.2 = slice res.mm.bitvec (y.1 * 4096) 4096 ∧
        ∃ x ∈ pairs ds res.cells, y.1 = x.1 / 4096 ∧
          (x.2.diff.cleared = true ∨ x.2.bucket = .fresh ∨ x.2.bucket = .depUnset))) ∧
    (∀ q b, find (hashN hash) (viewOf S.mm T.pages) q = some b → (∀ d ∈ ds, pidN d.pid ≠ q) →
      (∀ y ∈ res.ht, y.1 ≠ dataOffset S.mm.buckets + b) ∧ res.mm.bitvec[b]? = S.mm.bitvec[b]?) :=
  prepareSync_touches_only_changed hB hC h

/-- **T17_prepare_sync_redo_touches_only_changed**: redo of the sync's WAL does not touch foreign buckets either: every
page stored in the old table that the changeset does not name keeps its bucket page and its meta byte through recovery. -/
theorem T17_prepare_sync_redo_touches_only_changed {hash : Bytes → Nat} {debug : Bool} {S : St} {T : Wal.Table}
    {seqn : Nat} {ds : List Dirty} {b0 : Builder} {res : Res} (hB : Before hash S T) (hC : ChangesOK hash S T ds)
    (hs : seqn < 2 ^ 32) (h : prepareSync hash debug S seqn ds b0 = .ok res) :
    ∃ U, recover hash seqn T res.wal.asSlice.toArray = .ok U ∧
      ∀ q b, find (hashN hash) (viewOf S.mm T.pages) q = some b → (∀ d ∈ ds, pidN d.pid ≠ q) →
        U.pages[b]? = T.pages[b]? ∧ U.meta[b]? = T.meta[b]? :=
  prepareSync_redo_touches_only_changed hB hC hs h

/-- non-vacuity: the table with `exPage` stored in bucket 0 and the update of that page (`Store/PrepareSyncExample.lean`) -/
example (debug : Bool) : ∃ res, prepareSync exHash debug exS3 7 [exD3] exB = .ok res ∧
    ∀ y ∈ res.ht, (∃ x ∈ ups [exD3] res.cells, y = (dataOffset exS3.mm.buckets + x.1, x.2.page)) ∨
      y.1 < dataOffset exS3.mm.buckets := by
  obtain ⟨res, h⟩ := exRuns3 debug
  refine ⟨res, h, fun y hy => ?_⟩
  rcases (T17_prepare_sync_touches_only_changed exBefore3 exChangesD3 h).1 y hy with a | a
  · exact Or.inl a
  · exact Or.inr a.1

end Nomt.C17
