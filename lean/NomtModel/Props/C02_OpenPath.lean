import NomtModel.Props.C10_OpenPath
/-!
# C02 — the root recomputed at open is the canonical commitment
-/
namespace Nomt.C02
open Nomt Nomt.Store Nomt.Ovl Nomt.OpenPath

variable {Node VH B : Type} [DecidableEq Node]

/-- **T2_root_at_open_canonical**: two well-formed stores (whatever their leaf boundaries, bucket placement or history)
that hold the same pairs — same keys, same value hashes — and whose root pages obey the invariant report the SAME root
when opened, and it is `nodeAt` of that set (`T10_root_at_open`) -/
theorem T2_root_at_open_canonical (H : Hasher Node VH) (hs : H.Sound) (hv : B → VH) (rp1 rp2 : Option (Node × Node))
    (l1 l2 : List (Leaf (Stored VH B))) (t1 : TreeOK l1) (t2 : TreeOK l2)
    (hsame : trieSet hv (flat l1) = trieSet hv (flat l2))
    (r1 : RootInv H (trieSet hv (flat l1)) rp1) (r2 : RootInv H (trieSet hv (flat l2)) rp2) :
    computeRootNode {} H hv rp1 l1 = computeRootNode {} H hv rp2 l2 ∧
    computeRootNode {} H hv rp1 l1 = .ok (nodeAt H 256 0 (trieSet hv (flat l1))) := by
  rw [C10.T10_root_at_open H hs hv rp1 l1 t1 r1, C10.T10_root_at_open H hs hv rp2 l2 t2 r2, hsame]
  exact ⟨rfl, rfl⟩

/-- non-vacuity: one leaf vs. two leaves holding the same two pairs (one of them an overflow value whose stored hash
is the value hash of the inline twin) -/
example :
    computeRootNode {} TH id C10.twoRightPage C10.twoRight =
    computeRootNode {} TH id C10.twoRightPage
      [{ sep := zeroKey, entries := [(C10.k10, .inline 5)] }, { sep := C10.k11, entries := [(C10.k11, .inline 7)] }] := by
  decide +kernel

end Nomt.C02
