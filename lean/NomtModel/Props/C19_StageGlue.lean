import NomtModel.Store.StageGlueLedger
import NomtModel.Props.C01_StageGlue
/-!
# C19 — pages are conserved by the whole update, across the stage boundary

`ops::update` hands `LeafStageOutput::freed_pages` to `leaf_finisher.finish` and `BranchStageOutput::freed_pages` to
`bbn_finisher.finish` (they become free-list entries: `Store/FreeList*.lean`).  The theorems are about the mirror
`Store/StageGlueModel.lean` (tied to the real `ops::update` by `vharness stageglue`: both released lists are compared in
order, and the harness checks the same ledger on the real page numbers).
-/
namespace Nomt.C19
open Nomt Nomt.StageGlue
open Nomt.LeafUpd (Entry DbLeaf OutLeaf Leaf CellSize applyAll)
open Nomt.BranchUpd (kfReal DbNode OutNode)

variable {V : Type} [CellSize V]

/-- **T19.update_pages_conserved** — for every well-formed non-empty tree and every ascending batch, `update` ends and:
* **leaf pages**: `lnFreed` = the pages of the released overflow cells followed by `fl`, and `fl` together with the page
  numbers of the untouched leaves of the new level is a permutation of the page numbers of the old leaves (released ⊎ kept
  = old: no leaf page dropped without being released, none released and kept, none released twice);
* **overflow cells**: the released cells are exactly the overflow cells of old entries whose key the batch names (deleted
  or overwritten; each once, in key order), and every old entry whose key the batch does not name — with its cell and its
  pages — is still part of the new content;
* **branch pages**: `bbnFreed` together with the page numbers of the untouched branch nodes is a permutation of the page
  numbers of the old branch nodes;
* **new = allocated**: every leaf the new branch level points to is an untouched old leaf under its old page number or the
  `i`-th produced leaf at `lnFresh (a0 + i)`, `i` below the number of produced leaves, and the leaf stage made exactly
  `a0` + that many allocations; the new index consists of the untouched nodes and the produced nodes at `bbnFresh i`, and
  the branch stage made exactly that many allocations. -/
theorem T19_update_pages_conserved (pagesOf : V → List Nat) (lnFresh bbnFresh : Nat → Nat) (a0 : Nat) (t : Tree V)
    (cs : List (Nat × Option (V × Bool))) (lo : Nat) (ht : TreeOK t) (hcs : LeafUpd.ChOK (2 ^ 256) lo cs)
    (ha0 : cs = [] → a0 = 0) :
    ∃ o fl, update LeafUpd.sepReal kfReal pagesOf lnFresh bbnFresh false t cs a0 = some o ∧
      o.lnFreed = (((LeafUpd.flat t.leaves).filter fun e => e.ovf && (cs.map (·.1)).contains e.key).map (·.val)).flatMap pagesOf ++ fl ∧
      (fl ++ (oldsOf o.leafLevel).map (fun l => t.lpn l.sep)).Perm (t.leaves.map fun l => t.lpn l.sep) ∧
      (LeafUpd.flatOut o.leafLevel).filter (fun e => decide (e.key ∉ cs.map (·.1))) =
        (LeafUpd.flat t.leaves).filter (fun e => decide (e.key ∉ cs.map (·.1))) ∧
      (o.bbnFreed ++ (oldsOfB o.branchLevel).map (·.bbn)).Perm (t.index.map (·.bbn)) ∧
      (∀ e ∈ BranchUpd.flat o.index, (∃ l ∈ oldsOf o.leafLevel, e.val = t.lpn l.sep) ∨
        (∃ i, i < (newsOf o.leafLevel).length ∧ e.val = lnFresh (a0 + i))) ∧
      o.lnAllocs = a0 + (newsOf o.leafLevel).length ∧
      o.index = idxOf bbnFresh 0 o.branchLevel ∧ o.bbnAllocs = (newsOfB o.branchLevel).length := by
  obtain ⟨o, e, h⟩ := update_spec pagesOf lnFresh bbnFresh a0 t cs lo ht hcs ha0
  obtain ⟨fl, hf1, hf2⟩ := h.ln_freed
  obtain ⟨hsasc, _⟩ := dbOK_seps_asc t.leaves ht.leaves.ok
  have hidxnd : (t.index.map (·.sep)).Nodup := by
    have hp := BranchUpd.DbOK.pairwise ht.index
    have hall := BranchUpd.DbOK.oldOK ht.index
    have : (t.index.map (·.sep)).Pairwise (· < ·) := by
      rw [List.pairwise_map]
      refine hp.imp_of_mem ?_
      intro a b ha _ hab
      obtain ⟨it, tl, hit⟩ := List.exists_cons_of_ne_nil (hall a ha).1.ne
      have h1 := (hall a ha).2 it (by rw [hit]; simp)
      have h2 := hab it (by rw [hit]; simp)
      omega
    exact this.imp (fun h => by omega)
  refine ⟨o, fl, e, hf1, ?_, ?_, ?_, ?_, h.ln_allocs, h.index_level, h.bbn_allocs⟩
  · have hnd : (t.leaves.map (·.sep)).Nodup := hsasc.imp (fun h => by omega)
    exact ledger_perm (fun l : DbLeaf V => l.sep) (fun l => t.lpn l.sep) t.leaves (oldsOf o.leafLevel) fl
      hnd (oldsOf_seps_nodup h.asc) (fun l hl => h.olds l (mem_oldsOf hl)) hf2
  · rw [h.content]
    exact filter_applyAll_notin (cs.map (·.1)) cs _ ht.leaves.ok.sorted (fun c hc => List.mem_map.2 ⟨c, hc, rfl⟩)
  · refine ledger_perm (fun n : DbNode => n.sep) (fun n => n.bbn) t.index (oldsOfB o.branchLevel) o.bbnFreed hidxnd
      (oldsOfB_seps_nodup h.branch_asc) ?_ h.bbn_freed
    exact h.branch_olds
  · intro x hx
    rw [h.level] at hx
    have hv : x.val ∈ (lvlEnts (lvlOf t.lpn lnFresh a0 o.leafLevel)).map (·.val) := by
      rw [← relabel0_vals]; exact List.mem_map.2 ⟨x, hx, rfl⟩
    obtain ⟨y, hy, hyv⟩ := List.mem_map.1 hv
    obtain ⟨z, hz, rfl⟩ := List.mem_map.1 hy
    have := lvlOf_pns t.lpn lnFresh o.leafLevel a0 z hz
    simp only at hyv
    rw [← hyv]
    exact this

theorem lvlOf_old_mem (lpn fresh : Nat → Nat) (l : DbLeaf V) : ∀ (out : List (OutLeaf V)) (a : Nat), l ∈ oldsOf out →
    (l.sep, lpn l.sep) ∈ lvlOf lpn fresh a out
  | [], _, h => by cases h
  | .old l' :: t, a, h => by
    rcases List.mem_cons.1 h with rfl | h
    · simp [lvlOf]
    · simp [lvlOf, lvlOf_old_mem lpn fresh l t a h]
  | .new l' :: t, a, h => by simp [lvlOf, lvlOf_old_mem lpn fresh l t (a + 1) h]

theorem idxOf_mem (fresh : Nat → Nat) (n : DbNode) : ∀ (out : List OutNode) (a : Nat), n ∈ idxOf fresh a out →
    n ∈ oldsOfB out ∨ ∃ i, n.bbn = fresh (a + i)
  | [], _, h => by cases h
  | .old l :: t, a, h => by
    rcases List.mem_cons.1 h with rfl | h
    · exact Or.inl (by simp [oldsOfB])
    · rcases idxOf_mem fresh n t a h with h | h
      · exact Or.inl (by simp [oldsOfB, h])
      · exact Or.inr h
  | .new p :: t, a, h => by
    rcases List.mem_cons.1 h with rfl | h
    · exact Or.inr ⟨0, rfl⟩
    · rcases idxOf_mem fresh n t (a + 1) h with h | ⟨i, hi⟩
      · exact Or.inl (by simpa [oldsOfB] using h)
      · exact Or.inr ⟨i + 1, by rw [hi]; congr 1; omega⟩

theorem idxOf_old_mem (fresh : Nat → Nat) (n : DbNode) : ∀ (out : List OutNode) (a : Nat), n ∈ oldsOfB out →
    n ∈ idxOf fresh a out
  | [], _, h => by cases h
  | .old l :: t, a, h => by
    rcases List.mem_cons.1 h with rfl | h
    · simp [idxOf]
    · simp [idxOf, idxOf_old_mem fresh n t a h]
  | .new p :: t, a, h => by simp [idxOf, idxOf_old_mem fresh n t (a + 1) h]

/-- **T19.update_released_once** — with pairwise different page numbers in the old tree and an allocator that hands out
none of them (what `SyncAllocator` guarantees: `T19.1`): no leaf page and no branch page is released twice; no page the
leaf stage released is referenced by the branch level the branch stage leaves (the pointer of a deleted leaf is gone —
across the stage boundary); no page the branch stage released belongs to the new index; and nothing leaks: every old
leaf page is released or still referenced, every old branch page is released or still part of the index. -/
theorem T19_update_released_once (pagesOf : V → List Nat) (lnFresh bbnFresh : Nat → Nat) (a0 : Nat) (t : Tree V)
    (cs : List (Nat × Option (V × Bool))) (lo : Nat) (ht : TreeOK t) (hcs : LeafUpd.ChOK (2 ^ 256) lo cs)
    (ha0 : cs = [] → a0 = 0)
    (hnd : (t.leaves.map fun l => t.lpn l.sep).Nodup) (hfresh : ∀ k, lnFresh k ∉ t.leaves.map (fun l => t.lpn l.sep))
    (hbnd : (t.index.map (·.bbn)).Nodup) (hbfresh : ∀ k, bbnFresh k ∉ t.index.map (·.bbn)) :
    ∃ o fl, update LeafUpd.sepReal kfReal pagesOf lnFresh bbnFresh false t cs a0 = some o ∧
      o.lnFreed = (((LeafUpd.flat t.leaves).filter fun e => e.ovf && (cs.map (·.1)).contains e.key).map (·.val)).flatMap pagesOf ++ fl ∧
      fl.Nodup ∧ (∀ e ∈ BranchUpd.flat o.index, e.val ∉ fl) ∧
      (∀ l ∈ t.leaves, t.lpn l.sep ∈ fl ∨ ∃ e ∈ BranchUpd.flat o.index, e.val = t.lpn l.sep) ∧
      o.bbnFreed.Nodup ∧ (∀ n ∈ o.index, n.bbn ∉ o.bbnFreed) ∧ (∀ n ∈ t.index, n.bbn ∈ o.bbnFreed ∨ n ∈ o.index) := by
  obtain ⟨o, fl, e, h1, h2, _, h4, h5, _, h7, _⟩ :=
    T19_update_pages_conserved pagesOf lnFresh bbnFresh a0 t cs lo ht hcs ha0
  have nd1 : (fl ++ (oldsOf o.leafLevel).map (fun l => t.lpn l.sep)).Nodup := h2.nodup_iff.2 hnd
  rw [List.nodup_append] at nd1
  have nd2 : (o.bbnFreed ++ (oldsOfB o.branchLevel).map (·.bbn)).Nodup := h4.nodup_iff.2 hbnd
  rw [List.nodup_append] at nd2
  obtain ⟨_, _, hu⟩ := update_spec pagesOf lnFresh bbnFresh a0 t cs lo ht hcs ha0
  refine ⟨o, fl, e, h1, nd1.1, ?_, ?_, nd2.1, ?_, ?_⟩
  · intro x hx hfl
    rcases h5 x hx with ⟨l, hl, hv⟩ | ⟨i, _, hv⟩
    · exact nd1.2.2 _ hfl _ (List.mem_map.2 ⟨l, hl, hv.symm⟩) rfl
    · have : x.val ∈ t.leaves.map (fun l => t.lpn l.sep) := h2.mem_iff.1 (List.mem_append_left _ hfl)
      rw [hv] at this
      exact hfresh _ this
  · intro l hl
    have : t.lpn l.sep ∈ fl ++ (oldsOf o.leafLevel).map (fun l => t.lpn l.sep) :=
      h2.mem_iff.2 (List.mem_map.2 ⟨l, hl, rfl⟩)
    rcases List.mem_append.1 this with h | h
    · exact Or.inl h
    · right
      obtain ⟨l', hl', hv⟩ := List.mem_map.1 h
      have hm := lvlOf_old_mem t.lpn lnFresh l' o.leafLevel a0 hl'
      have hv2 : t.lpn l'.sep ∈ (lvlEnts (lvlOf t.lpn lnFresh a0 o.leafLevel)).map (·.val) :=
        List.mem_map.2 ⟨⟨l'.sep, t.lpn l'.sep, false⟩, List.mem_map.2 ⟨_, hm, rfl⟩, rfl⟩
      rw [← relabel0_vals] at hv2
      obtain ⟨x, hx, hxv⟩ := List.mem_map.1 hv2
      have hl2 : o.index = o.index := rfl
      obtain ⟨o2, e2, hu2⟩ := update_spec pagesOf lnFresh bbnFresh a0 t cs lo ht hcs ha0
      rw [e] at e2
      cases e2
      exact ⟨x, by rw [hu2.level]; exact hx, by rw [hxv, hv]⟩
  · intro n hn hfr
    rw [h7] at hn
    rcases idxOf_mem bbnFresh n _ 0 hn with h | ⟨i, hi⟩
    · exact nd2.2.2 _ hfr _ (List.mem_map.2 ⟨n, h, rfl⟩) rfl
    · have : n.bbn ∈ t.index.map (·.bbn) := h4.mem_iff.1 (List.mem_append_left _ hfr)
      rw [hi] at this
      exact hbfresh _ this
  · intro n hn
    have : n.bbn ∈ o.bbnFreed ++ (oldsOfB o.branchLevel).map (·.bbn) := h4.mem_iff.2 (List.mem_map.2 ⟨n, hn, rfl⟩)
    rcases List.mem_append.1 this with h | h
    · exact Or.inl h
    · right
      obtain ⟨n', hn', hv⟩ := List.mem_map.1 h
      -- `n'` is a node of the old index with the same page number: the same node
      obtain ⟨o2, e2, hu2⟩ := update_spec pagesOf lnFresh bbnFresh a0 t cs lo ht hcs ha0
      rw [e] at e2
      cases e2
      have hn'idx : n' ∈ t.index := hu2.branch_olds n' hn'
      have : n' = n := by
        have key : ∀ (l : List DbNode), (l.map (·.bbn)).Nodup → n' ∈ l → n ∈ l → n'.bbn = n.bbn → n' = n := by
          intro l
          induction l with
          | nil => intro _ h; cases h
          | cons y r ih =>
            intro hnd h1 h2 he
            simp only [List.map_cons, List.nodup_cons] at hnd
            rcases List.mem_cons.1 h1 with rfl | h1' <;> rcases List.mem_cons.1 h2 with rfl | h2'
            · rfl
            · exact (hnd.1 (List.mem_map.2 ⟨n, h2', he.symm⟩)).elim
            · exact (hnd.1 (List.mem_map.2 ⟨n', h1', he⟩)).elim
            · exact ih hnd.2 h1' h2' he
        exact key t.index hbnd hn'idx hn hv
      rw [h7, ← this]
      exact idxOf_old_mem bbnFresh n' _ 0 hn'

/-! ## non-vacuity -/

/-- the hypotheses are met by the three-leaf tree of `Props/C01_StageGlue.lean` (page numbers 10, 11, 12 / 1, allocators
that start at 100 / 200), and on it (kernel-evaluated) the batch that empties the first and the third leaf releases the
leaf pages 10 and 12 and the branch page 1, and allocates one branch page -/
example : TreeOK C01.exTree ∧ (C01.exTree.leaves.map fun l => C01.exTree.lpn l.sep).Nodup ∧
    (∀ k, (100 + k) ∉ C01.exTree.leaves.map (fun l => C01.exTree.lpn l.sep)) ∧
    (update LeafUpd.sepReal kfReal (fun _ => []) (fun k => 100 + k) (fun k => 200 + k) false C01.exTree C01.exBatch 0).map
      (fun o => (o.lnFreed, o.bbnFreed, o.lnAllocs, o.bbnAllocs, o.index.map (·.bbn))) =
      some ([10, 12], [1], 0, 1, [200]) := by
  refine ⟨C01.exTree_ok, by decide +kernel, ?_, by decide +kernel⟩
  intro k hk
  have : C01.exTree.leaves.map (fun l => C01.exTree.lpn l.sep) = [10, 11, 12] := by decide +kernel
  rw [this] at hk
  simp at hk
  omega

end Nomt.C19
