import NomtModel.Store.WalRedoTable
import NomtModel.Store.WalExample
/-!
# C04 (topic: the WAL repairs any loss of the post-meta hash-table write-out)

After the meta page is durable the hash-table pages are written without ordering or atomicity between them; a power
loss keeps an arbitrary subset (4 KiB pages atomic).  Every position that write-out touches is a position the WAL
writes, so whatever subset reached the disk, recovery produces the same table.
-/
namespace Nomt.C04
open Nomt Nomt.Wal

/-- T4.wal **recovery repairs any partial write-out**: let `T1` be the hash table before the sync and `U` what
redoing the sync's WAL makes of it.  ANY table `T2` of the same size that differs from `T1` only at positions the WAL
writes — e.g. `T1` with an arbitrary subset of the sync's bucket pages and meta pages already written, or with a torn
mixture — is taken to the same `U` by the redo loop. -/
theorem T4_wal_redo_repairs_partial_writeout (hash : Bytes → Nat) (es : List Entry) (hes : ∀ e ∈ es, e.Honest)
    {T1 T2 : Table} (w1 : T1.WF) (w2 : T2.WF) (hs : T1.SameSize T2)
    (hag : ∀ p, ¬ writesAll es p → T1.at p = T2.at p) {U : Table} (h : redoAll hash T1 es = .ok U) :
    redoAll hash T2 es = .ok U :=
  redoAll_agree hash es hes w1 w2 hs hag h

/-- non-vacuity: the bucket of an update entry may hold anything in the slots named by the diff -/
example : ∀ o, (Entry.update (labelOf exPage) ⟨3, 0⟩ (packedOf exPage ⟨3, 0⟩) 0 1).writes (.byte 1 o) ↔
    (4056 ≤ o ∨ o / 32 ∈ (⟨3, 0⟩ : PageDiff).ones) := by
  intro o
  simp [Entry.writes]

end Nomt.C04
