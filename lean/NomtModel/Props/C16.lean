import NomtModel.Store.ImgCheck
import NomtModel.Store.ImgLemmas
/-!
# C16 — the on-disk image always decodes to the abstract state

The decoders `decodeMeta`, `decodeLeaf`, `decodeBranch`, `decodeOverflowCell`, `decodeFreeListPage`,
`decodeMetaMap`, `decodeMerklePage`, … (`Store/Img*.lean`) are written from the documented layouts
and run by the driver (`nomt_model image`) on directories produced by the real code; the
correspondence run compares `absImage` of every snapshot with the committed state of the harness
oracle and runs `wfImage` / `wfTable` / `checkMerkle`.  The theorems below are about those very
functions.

* `T16_rt_*` — the decoders invert the mirror encoders (`Meta::encode_to`, `overflow::encode_cell`,
  `encode_free_list_page`, seglog `RecordHeader`), for every in-range value.
* `T16_1` — an image accepted by `wfImage` decodes (`absImage` succeeds) to a list whose keys are
  strictly increasing; hence (`T16_1_nodup`, `T16_1_one_leaf`) no key is stored twice and every key
  lives in exactly one leaf (leaves are ordered among themselves).
* `T16_lookup` — the read path (separator routing + search of one leaf) agrees with `absImage`.
-/
namespace Nomt.C16
open Nomt Nomt.Store

/-- `Meta::decode ∘ Meta::encode_to = id` on the 64-byte manifest -/
theorem T16_rt_meta (m : Meta) (h : m.WF) : decodeMeta (encodeMeta m) = some m := meta_rt m h

/-- overflow cell `(value_size, value_hash, [page])` -/
theorem T16_rt_overflow_cell (c : OverflowCell) (hh : c.valueHash.size = 32) (hs : c.valueSize < 2^64)
    (hb : ∀ x ∈ c.pages, x < 2^32) (hne : c.pages ≠ []) :
    decodeOverflowCell (encodeOverflowCell c) = some c := overflowCell_rt c hh hs hb hne

/-- free-list page `(prev, item_count, items)`, zero padded to 4096 bytes -/
theorem T16_rt_free_list_page (prev : Nat) (items : List Nat) (hp : prev < 2^32)
    (hb : ∀ x ∈ items, x < 2^32) (hl : items.length ≤ MAX_PNS_PER_FREELIST_PAGE) :
    decodeFreeListPage (encodeFreeListPage prev items) = some (prev, items) := freelist_rt prev items hp hb hl

/-- seglog record header `(payload_length: u32, record_id: u64)` -/
theorem T16_rt_record_header (len id : Nat) (hl : len < 2^32) (hi : id < 2^64) :
    decodeRecordHeader (encodeRecordHeader len id) 0 = some (len, id) := recordHeader_rt len id hl hi

/-- **T16.1** a well-formed image decodes, and its key list is strictly increasing -/
theorem T16_1 (img : Image) (st : Stats) (h : wfImage img = .ok st) :
    ∃ kvs, absImage img = .ok kvs ∧ (kvs.map (fun kv => keyNat kv.1)).Pairwise (· < ·) := by
  obtain ⟨d, hd, hs, _, _⟩ := wfImage_decoded h
  exact ⟨d.ls.flatten, (absImage_of_decodeAll hd).2, pairwise_of_strictlySorted _ hs⟩

/-- no key is stored twice in a well-formed image -/
theorem T16_1_nodup (img : Image) (st : Stats) (h : wfImage img = .ok st) :
    ∃ kvs, absImage img = .ok kvs ∧ (kvs.map Prod.fst).Nodup := by
  obtain ⟨kvs, ha, hs⟩ := T16_1 img st h
  exact ⟨kvs, ha, nodup_keys_of_sorted hs⟩

/-- every key lives in exactly one leaf: the leaves' key lists are strictly increasing, and every
key of an earlier leaf is below every key of a later leaf -/
theorem T16_1_one_leaf (img : Image) (st : Stats) (h : wfImage img = .ok st) :
    ∃ ls, absLeaves img = .ok ls ∧ absImage img = .ok ls.flatten ∧
      ls.Pairwise (fun l₁ l₂ => ∀ a ∈ l₁, ∀ b ∈ l₂, keyNat a.1 < keyNat b.1) ∧
      ∀ l ∈ ls, (l.map (fun kv => keyNat kv.1)).Pairwise (· < ·) := by
  obtain ⟨d, hd, hs, _, _⟩ := wfImage_decoded h
  obtain ⟨h1, h2⟩ := absImage_of_decodeAll hd
  exact ⟨d.ls, h1, h2, leaves_ordered (pairwise_of_strictlySorted _ hs)⟩

/-- **T1.6 (read path)** on a well-formed image, routing a key through the separators
(`findLeaf`, the specification of `search_branch`) and searching only the selected leaf returns
exactly the value that the abstract state `absImage` associates with the key -/
theorem T16_lookup (img : Image) (st : Stats) (h : wfImage img = .ok st) (k : Nat) :
    ∃ kvs, absImage img = .ok kvs ∧ lookup img k = .ok (kvGet kvs k) := lookup_eq_kvGet h k

/-- a concrete manifest round trip, evaluated by the kernel -/
example : decodeMeta (encodeMeta sampleMeta) = some sampleMeta := by decide

end Nomt.C16
