import NomtModel.Store.ImgCheck
import NomtModel.Store.ImgLemmas
import NomtModel.Store.PageIdLemmas
import NomtModel.Store.LeafRt
import NomtModel.Store.BranchRt
import NomtModel.Store.ConstantsFormats
import NomtModel.Store.ConstantsAlloc
/-!
# C16 — the on-disk image always decodes to the abstract state

The decoders `decodeMeta`, `decodeLeaf`, `decodeBranch`, `decodeOverflowCell`, `decodeFreeListPage`,
`decodeMetaMap`, `decodeMerklePage`, … (`Store/Img*.lean`) are written from the documented layouts
and run by the driver (`nomt_model image`) on directories produced by the real code; the
correspondence run compares `absImage` of every snapshot with the committed state of the harness
oracle and runs `wfImage` / `wfTable` / `checkMerkle`.  The theorems below are about those very
functions.

* `T16_rt_*` — the decoders invert the mirror encoders (`Meta::encode_to`, `overflow::encode_cell`,
  `encode_free_list_page`, seglog `RecordHeader`), for every in-range value.
* `T16_1` — an image accepted by `wfImage` decodes (`absImage` succeeds) to a list whose keys are
  strictly increasing; hence (`T16_1_nodup`, `T16_1_one_leaf`) no key is stored twice and every key
  lives in exactly one leaf (leaves are ordered among themselves).
* `T16_lookup` — the read path (separator routing + search of one leaf) agrees with `absImage`.
-/
namespace Nomt.C16
open Nomt Nomt.Store

/-- `Meta::decode ∘ Meta::encode_to = id` on the 64-byte manifest -/
theorem T16_rt_meta (m : Meta) (h : m.WF) : decodeMeta (encodeMeta m) = some m := meta_rt m h

/-- overflow cell `(value_size, value_hash, [page])` -/
theorem T16_rt_overflow_cell (c : OverflowCell) (hh : c.valueHash.size = 32) (hs : c.valueSize < 2^64)
    (hb : ∀ x ∈ c.pages, x < 2^32) (hne : c.pages ≠ []) :
    decodeOverflowCell (encodeOverflowCell c) = some c := overflowCell_rt c hh hs hb hne

/-- free-list page `(prev, item_count, items)`, zero padded to 4096 bytes -/
theorem T16_rt_free_list_page (prev : Nat) (items : List Nat) (hp : prev < 2^32)
    (hb : ∀ x ∈ items, x < 2^32) (hl : items.length ≤ MAX_PNS_PER_FREELIST_PAGE) :
    decodeFreeListPage (encodeFreeListPage prev items) = some (prev, items) := freelist_rt prev items hp hb hl

/-- seglog record header `(payload_length: u32, record_id: u64)` -/
theorem T16_rt_record_header (len id : Nat) (hl : len < 2^32) (hi : id < 2^64) :
    decodeRecordHeader (encodeRecordHeader len id) 0 = some (len, id) := recordHeader_rt len id hl hi

/-- **T16.1** a well-formed image decodes, and its key list is strictly increasing -/
theorem T16_1 (img : Image) (st : Stats) (h : wfImage img = .ok st) :
    ∃ kvs, absImage img = .ok kvs ∧ (kvs.map (fun kv => keyNat kv.1)).Pairwise (· < ·) := by
  obtain ⟨d, hd, hs, _, _⟩ := wfImage_decoded h
  exact ⟨d.ls.flatten, (absImage_of_decodeAll hd).2, pairwise_of_strictlySorted _ hs⟩

/-- no key is stored twice in a well-formed image -/
theorem T16_1_nodup (img : Image) (st : Stats) (h : wfImage img = .ok st) :
    ∃ kvs, absImage img = .ok kvs ∧ (kvs.map Prod.fst).Nodup := by
  obtain ⟨kvs, ha, hs⟩ := T16_1 img st h
  exact ⟨kvs, ha, nodup_keys_of_sorted hs⟩

/-- every key lives in exactly one leaf: the leaves' key lists are strictly increasing, and every
key of an earlier leaf is below every key of a later leaf -/
theorem T16_1_one_leaf (img : Image) (st : Stats) (h : wfImage img = .ok st) :
    ∃ ls, absLeaves img = .ok ls ∧ absImage img = .ok ls.flatten ∧
      ls.Pairwise (fun l₁ l₂ => ∀ a ∈ l₁, ∀ b ∈ l₂, keyNat a.1 < keyNat b.1) ∧
      ∀ l ∈ ls, (l.map (fun kv => keyNat kv.1)).Pairwise (· < ·) := by
  obtain ⟨d, hd, hs, _, _⟩ := wfImage_decoded h
  obtain ⟨h1, h2⟩ := absImage_of_decodeAll hd
  exact ⟨d.ls, h1, h2, leaves_ordered (pairwise_of_strictlySorted _ hs)⟩

/-- **T1.6 (read path)** on a well-formed image, routing a key through the separators
(`findLeaf`, the specification of `search_branch`) and searching only the selected leaf returns
exactly the value that the abstract state `absImage` associates with the key -/
theorem T16_lookup (img : Image) (st : Stats) (h : wfImage img = .ok st) (k : Nat) :
    ∃ kvs, absImage img = .ok kvs ∧ lookup img k = .ok (kvGet kvs k) := lookup_eq_kvGet h k

/-- a concrete manifest round trip, evaluated by the kernel -/
example : decodeMeta (encodeMeta sampleMeta) = some sampleMeta := by decide

/-! ## page ids -/

/-- T16.rt (page id): `PageId::encode` as implemented (for every child index `c`: `word += c + 1;
word <<= 6`, 256-bit word) followed by the Lean label decoder of the `ht` monitor gives the path
back, for every path of child indices `< 64` of depth `≤ MAX_PAGE_DEPTH = 42` whose encoding fits
the word — which is every path of depth `≤ 41` -/
theorem T16_rt_page_id (p : List Nat) (hc : ∀ c ∈ p, c < 64) :
    (p.length ≤ MAX_PAGE_DEPTH → 64 * pageIdNum p < 2 ^ 256 → decodePageId (encodePageId p) = some p) ∧
    (p.length ≤ 41 → decodePageId (encodePageId p) = some p) :=
  ⟨fun hl hfit => decode_encode_pageId p hc hl hfit,
   fun hl => decode_encode_pageId p hc (by unfold MAX_PAGE_DEPTH; omega) (encode_fits_of_depth_le_41 p hc hl)⟩

/-- T16.rt (page id, converse): a label the monitor accepts IS the encoding of the decoded path,
whose depth is `≤ 42` and whose child indices are `< 64`; so two accepted labels are equal iff their
page ids are -/
theorem T16_page_id_decode_sound (label : Nat) (p : List Nat) (h : decodePageId label = some p) :
    encodePageId p = label ∧ p.length ≤ MAX_PAGE_DEPTH ∧ ∀ c ∈ p, c < 64 :=
  decodePageId_sound label p h

/-- depth 42: the deepest left-most page still fits the word and round-trips; but a depth-42 path
whose first child index `c₁` has `(c₁ + 1) % 16 = 0` loses exactly its first summand in the 256-bit
word of `encode` (`(c₁+1)·2^252·… ≡ 0`), so its label IS the label of the depth-41 page obtained by
dropping the first child — e.g. the deepest right-most page gets the label of `[63; 41]`.  The
hypothesis `64 * pageIdNum p < 2^256` of T16.rt is therefore needed; such pages are never stored
(`T16_const_last_level_elided`), so no stored label is ambiguous. -/
example : decodePageId (encodePageId (List.replicate 42 0)) = some (List.replicate 42 0) ∧
    encodePageId (List.replicate 42 63) = encodePageId (List.replicate 41 63) ∧
    encodePageId (15 :: List.replicate 41 7) = encodePageId (List.replicate 41 7) ∧
    decodePageId (encodePageId [0]) = some [0] ∧ encodePageId [0] = 64 ∧ decodePageId 1 = none := by decide

/-! ## leaf pages -/

/-- T16.rt (leaf page): the mirror of `LeafBuilder` (`new(n, total)`, `push_cell` × n, `finish`:
`n` u16 | (key ‖ u16 (offset | overflow bit)) × n | untouched bytes `pad` | cells, the first cell at
`PAGE_SIZE − total`) followed by `decodeLeaf` gives the entries back — keys, overflow flags and cell
bytes — for ANY content `pad` of the gap, under the decidable guard `leafOK`: at least one entry,
32-byte keys, inline cells `≤ MAX_LEAF_VALUE_SIZE`, overflow cells `8 + 32 + 4k` bytes with
`1 ≤ k ≤ 15`, and header + pointers + gap + cells = one page -/
theorem T16_rt_leaf (es : List LeafEntry) (pad : List UInt8) (hok : leafOK es pad = true) :
    (encodeLeaf es pad).size = PAGE ∧ decodeLeaf (encodeLeaf es pad) = .ok es :=
  ⟨size_encodeLeaf es pad hok, leaf_rt es pad hok⟩

/-- an inline value of 3 bytes, an overflow cell with one page number, an empty value; gap of
`4096 − 2 − 3·34 − 47` bytes of `0xAA` -/
def sampleLeaf : List LeafEntry :=
  [⟨(List.replicate 32 1).toByteArray, false, [7, 8, 9].toByteArray⟩,
   ⟨(List.replicate 32 2).toByteArray, true, (List.replicate 44 5).toByteArray⟩,
   ⟨(List.replicate 32 3).toByteArray, false, ByteArray.empty⟩]
example : leafOK sampleLeaf (List.replicate 3945 0xAA) = true := by decide +kernel
example : decodeLeaf (encodeLeaf sampleLeaf (List.replicate 3945 0xAA)) = .ok sampleLeaf :=
  (T16_rt_leaf _ _ (by decide +kernel)).2
/-- the guard is needed: an inline value longer than `MAX_LEAF_VALUE_SIZE` is refused -/
example : leafOK [⟨(List.replicate 32 1).toByteArray, false, (List.replicate 1333 0).toByteArray⟩]
    (List.replicate 2727 0) = false := by decide +kernel

/-! ## branch pages -/

/-- T16.rt (branch page, with prefix compression): the mirror of `set_bbn_pn` +
`BranchNodeBuilder::new(n, prefix_compressed, prefix_len)` + `push(key, separator_len, pn)` × n
(`bbn_pn | n | prefix_compressed | prefix_len | cells u16[n] | Msb0 bit vector: the first
`prefix_len` bits of the first key, then for separator `i` the bits `[prefix_len, separator_len)` of
its key if `i < prefix_compressed` (nothing if `separator_len ≤ prefix_len`) and the bits
`[0, separator_len)` otherwise | whatever bits the page held | node pointers u32[n]`) followed by
`decodeBranch` returns the header values and, for every separator, **the key itself** (as a 256-bit
number) with its node pointer — under the decidable guard `branchOK`: `n ≥ 1`, `bbn_pn, pn < 2^32`,
`prefix_compressed ≤ n`, `prefix_len ≤ 256`, every key `< 2^256` with only zero bits after
`separator_len ≤ 256`, the first `prefix_compressed` keys agree with the first key on the first
`prefix_len` bits, and cells + bits + node pointers fill the page exactly -/
theorem T16_rt_branch (x : BranchIn) (hok : branchOK x = true) :
    (encodeBranch x).size = PAGE ∧
    decodeBranch (encodeBranch x) = .ok
      { bbnPn := x.bbnPn, prefixLen := x.pl, prefixCompressed := x.pc,
        seps := x.items.map (fun it => (it.key, it.pn)) } :=
  ⟨size_encodeBranch x (branchOK_facts hok), branch_rt x hok⟩

/-- prefix `1010`, two compressed separators — `101` (shorter than the prefix: nothing stored) and
`101011` (stores `11`) — and an uncompressed one `1111`; the rest of the bit vector is ones -/
def sampleBranch : BranchIn :=
  { bbnPn := 7, pc := 2, pl := 4,
    items := [⟨0xA0 * 2 ^ 248, 3, 11⟩, ⟨0xAC * 2 ^ 248, 6, 12⟩, ⟨0xF0 * 2 ^ 248, 4, 13⟩],
    fill := List.replicate 32534 true }
example : branchOK sampleBranch = true := by decide +kernel
example : decodeBranch (encodeBranch sampleBranch) = .ok
    { bbnPn := 7, prefixLen := 4, prefixCompressed := 2,
      seps := [(0xA0 * 2 ^ 248, 11), (0xAC * 2 ^ 248, 12), (0xF0 * 2 ^ 248, 13)] } :=
  (T16_rt_branch sampleBranch (by decide +kernel)).2
/-- the guard is needed: a compressed key that does not start with the prefix is refused, and so is a
key with a one bit after its separator length -/
example : branchOK { sampleBranch with items := [⟨0xA0 * 2 ^ 248, 3, 11⟩, ⟨0xBC * 2 ^ 248, 6, 12⟩, ⟨0xF0 * 2 ^ 248, 4, 13⟩] } = false
    ∧ branchOK { sampleBranch with items := [⟨0xA0 * 2 ^ 248, 2, 11⟩, ⟨0xAC * 2 ^ 248, 6, 12⟩, ⟨0xF0 * 2 ^ 248, 4, 13⟩] } = false := by
  decide +kernel

/-! ## the decoders' constants are the constants of the Rust source

`Nomt.Gen.*` is generated from the current Rust sources by `tools/gen_constants.py` on every run;
the facts are proved in `Store/ConstantsCheck.lean` by kernel evaluation. -/

/-- T16.const (ties): page size, manifest size / magic / version, the leaf, overflow, free-list and
branch constants, the elision threshold and the merkle page constants used by the decoders and by
`wfImage` / `checkMerkle` equal the values extracted from the Rust source -/
theorem T16_const_decoders :
    PAGE = Gen.PAGE_SIZE ∧ PAGE = Gen.BRANCH_NODE_SIZE ∧ META_SIZE = Gen.META_SIZE ∧ MAGIC = Gen.META_MAGIC ∧
    VERSION = Gen.META_VERSION ∧ LEAF_NODE_BODY_SIZE = Gen.LEAF_NODE_BODY_SIZE ∧
    MAX_LEAF_VALUE_SIZE = Gen.MAX_LEAF_VALUE_SIZE ∧
    MAX_OVERFLOW_CELL_NODE_POINTERS = Gen.MAX_OVERFLOW_CELL_NODE_POINTERS ∧
    MAX_OVERFLOW_VALUE_SIZE = Gen.MAX_OVERFLOW_VALUE_SIZE ∧ OVERFLOW_BODY_SIZE = Gen.OVERFLOW_BODY_SIZE ∧
    MAX_PNS_PER_FREELIST_PAGE = Gen.FREELIST_MAX_PNS_PER_PAGE ∧ BRANCH_HEADER = Gen.BRANCH_NODE_HEADER_SIZE ∧
    PAGE_ELISION_THRESHOLD = Gen.PAGE_ELISION_THRESHOLD ∧ MAX_PAGE_DEPTH = Gen.MAX_PAGE_DEPTH ∧
    NODES_PER_PAGE = Gen.NODES_PER_PAGE ∧ (32768 : Nat) = Gen.LEAF_OVERFLOW_BIT ∧
    (∀ len id, (encodeRecordHeaderL len id).length = Gen.SEGLOG_HEADER_SIZE) :=
  ⟨ConstantsCheck.page_size, ConstantsCheck.branch_node_size, ConstantsCheck.meta_size, ConstantsCheck.meta_magic,
   ConstantsCheck.meta_version, ConstantsCheck.leaf_node_body_size, ConstantsCheck.max_leaf_value_size,
   ConstantsCheck.max_overflow_cell_node_pointers, ConstantsCheck.max_overflow_value_size,
   ConstantsCheck.overflow_body_size, ConstantsCheck.freelist_capacity, ConstantsCheck.branch_header,
   ConstantsCheck.page_elision_threshold, ConstantsCheck.max_page_depth, ConstantsCheck.nodes_per_page,
   ConstantsCheck.leaf_overflow_bit, ConstantsCheck.seglog_header_size⟩

/-- T16.const (manifest): `decodeMeta` reads every field at the offset where `Meta::encode_to`
writes it (offsets extracted from the Rust source; `encode_to` and `decode` agree — checked by the
generator); the fields are consecutive from 0 to `META_SIZE` with widths 8 × u32, 16, 2 × u64, so no
two overlap and all fit -/
theorem T16_const_meta_layout (b : ByteArray) (h : ¬ b.size < Gen.META_SIZE) :
    decodeMeta b = some
      { magic := u32le b Gen.META_MAGIC_START, version := u32le b Gen.META_VERSION_START,
        lnFreelistPn := u32le b Gen.META_LN_FREELIST_PN_START, lnBump := u32le b Gen.META_LN_BUMP_START,
        bbnFreelistPn := u32le b Gen.META_BBN_FREELIST_PN_START, bbnBump := u32le b Gen.META_BBN_BUMP_START,
        syncSeqn := u32le b Gen.META_SYNC_SEQN_START, bitboxNumPages := u32le b Gen.META_BITBOX_NUM_PAGES_START,
        seed0 := u64le b Gen.META_BITBOX_SEED_START, seed1 := u64le b (Gen.META_BITBOX_SEED_START + 8),
        rollbackStartLive := u64le b Gen.META_ROLLBACK_START_LIVE_START,
        rollbackEndLive := u64le b Gen.META_ROLLBACK_END_LIVE_START } ∧
    Gen.META_MAGIC_START = 0 ∧ Gen.META_MAGIC_END = Gen.META_VERSION_START ∧
    Gen.META_VERSION_END = Gen.META_LN_FREELIST_PN_START ∧ Gen.META_LN_FREELIST_PN_END = Gen.META_LN_BUMP_START ∧
    Gen.META_LN_BUMP_END = Gen.META_BBN_FREELIST_PN_START ∧ Gen.META_BBN_FREELIST_PN_END = Gen.META_BBN_BUMP_START ∧
    Gen.META_BBN_BUMP_END = Gen.META_SYNC_SEQN_START ∧ Gen.META_SYNC_SEQN_END = Gen.META_BITBOX_NUM_PAGES_START ∧
    Gen.META_BITBOX_NUM_PAGES_END = Gen.META_BITBOX_SEED_START ∧
    Gen.META_BITBOX_SEED_END = Gen.META_ROLLBACK_START_LIVE_START ∧
    Gen.META_ROLLBACK_START_LIVE_END = Gen.META_ROLLBACK_END_LIVE_START ∧
    Gen.META_ROLLBACK_END_LIVE_END = Gen.META_SIZE ∧ Gen.META_SIZE ≤ Gen.PAGE_SIZE := by
  have l := ConstantsCheck.meta_layout
  exact ⟨ConstantsCheck.decode_meta_offsets b h, l.1, l.2.1, l.2.2.1, l.2.2.2.1, l.2.2.2.2.1, l.2.2.2.2.2.1,
    l.2.2.2.2.2.2.1, l.2.2.2.2.2.2.2.1, l.2.2.2.2.2.2.2.2.1, l.2.2.2.2.2.2.2.2.2.1, l.2.2.2.2.2.2.2.2.2.2.1,
    l.2.2.2.2.2.2.2.2.2.2.2.1, l.2.2.2.2.2.2.2.2.2.2.2.2.2⟩

/-- T16.const (leaf / overflow): the largest overflow cell is not larger than the largest inline
value and fits in a leaf next to its key; a leaf can hold two values of maximal inline size; overflow
page = 4-byte header + body of `MAX_PNS` page numbers -/
theorem T16_const_overflow_cell_fits :
    8 + 32 + 4 * Gen.MAX_OVERFLOW_CELL_NODE_POINTERS ≤ Gen.MAX_LEAF_VALUE_SIZE ∧
    2 + (32 + 2) + (8 + 32 + 4 * Gen.MAX_OVERFLOW_CELL_NODE_POINTERS) ≤ Gen.PAGE_SIZE ∧
    2 + 2 * ((32 + 2) + Gen.MAX_LEAF_VALUE_SIZE) ≤ Gen.PAGE_SIZE ∧
    Gen.OVERFLOW_HEADER_SIZE + Gen.OVERFLOW_BODY_SIZE = Gen.PAGE_SIZE ∧
    Gen.OVERFLOW_MAX_PNS = Gen.OVERFLOW_BODY_SIZE / 4 :=
  ⟨ConstantsCheck.overflow_cell_fits.1, ConstantsCheck.overflow_cell_fits.2, ConstantsCheck.leaf_layout.2.2.2.2,
   ConstantsCheck.overflow_page_layout.1, ConstantsCheck.overflow_page_layout.2.1⟩

/-- T16.const (elision): a page below the last level would hold at most `2^4 = 16` leaves, fewer
than `PAGE_ELISION_THRESHOLD`: `checkMerkle` never has to expect a stored page deeper than
`MAX_PAGE_DEPTH`; a merkle page (nodes, elided-children bits, page id) fits in a page -/
theorem T16_const_last_level_elided :
    2 ^ (256 - Gen.DEPTH * Gen.MAX_PAGE_DEPTH) < Gen.PAGE_ELISION_THRESHOLD ∧
    256 - Gen.DEPTH * Gen.MAX_PAGE_DEPTH = 4 ∧
    Gen.NODES_PER_PAGE = 2 ^ (Gen.DEPTH + 1) - 2 ∧
    32 * Gen.NODES_PER_PAGE + Gen.NUM_CHILDREN / 8 + 32 ≤ Gen.PAGE_SIZE :=
  ⟨ConstantsCheck.last_level_elided.1, ConstantsCheck.last_level_elided.2,
   ConstantsCheck.merkle_page_layout.1, ConstantsCheck.merkle_page_layout.2.1⟩

end Nomt.C16
