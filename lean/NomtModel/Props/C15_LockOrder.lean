import NomtModel.Api.Locks2Order
/-!
# C15 (topic: the micro-step programs of the LTS are the source's step order)

`Generated/StepOrder.lean` is regenerated from the Rust text by `tools/gen_steps.py` on every run; the programs
`progOf` of `Api/Locks2.lean` — the objects T15.5 … T15.8 quantify over — are hand-written.  On the common vocabulary
(guard, poison check, marker check, root check, publication, log push, store commit; for `rollback` also the truncation
and the inner session) they are THE SAME LISTS, for every changeset / overlay id / I/O plan: a reordering of the
checks and effects in `lib.rs` (the kind of edit behind F1, F6, F21) breaks these `rfl`s on the next run.
-/
namespace Nomt.C15
open Nomt.Locks2 Nomt.GenOrder

variable {R W D : Type}

/-- T15.order-1 `FinishedSession::commit`: write guard, poison check, root check, publication, log push, store commit -/
theorem T15_order_commit (cs : CS R W D) (io : IoPlan) :
    orderI (progOf (.commit cs io)) = orderS finished_commit := rfl

/-- T15.order-2 `FinishedSession::try_commit_nonblocking`: `try_write`, poison check, root check, log push, THEN the
publication (the order that differs from the blocking commit), store commit -/
theorem T15_order_try_commit (cs : CS R W D) (io : IoPlan) :
    orderI (progOf (.tryCommit cs io)) = orderS finished_try_commit := rfl

/-- T15.order-3 `Overlay::commit`: marker check BEFORE the write guard, then as the session commit -/
theorem T15_order_ov_commit (cs : CS R W D) (id : Nat) (parent : Option Nat) (io : IoPlan) :
    orderI (progOf (.ovCommit cs id parent io)) = orderS overlay_commit := rfl

/-- T15.order-4 `Overlay::try_commit_nonblocking` -/
theorem T15_order_ov_try_commit (cs : CS R W D) (id : Nat) (parent : Option Nat) (io : IoPlan) :
    orderI (progOf (.ovTryCommit cs id parent io)) = orderS overlay_try_commit := rfl

/-- T15.order-5 `Nomt::rollback(n)`, `n > 0`: write guard, poison check, truncation, the inner session samples the root,
then `FinishedSession::commit` of the source WITHOUT guard and log push (poison check again, root check, publication,
store commit) -/
theorem T15_order_rollback (n : Nat) (hn : n ≠ 0) (io : IoPlan) :
    orderI (progOf (.rollback n io : Call R W D)) = inlineInner (orderS nomt_rollback) := by
  simp only [progOf, hn, if_false]; rfl

/-- what the two sides are (so that the equalities above are not between empty lists) -/
example : orderS finished_commit = [.guard_write, .poison_check, .root_check, .root_set, .rollback_commit, .store_commit] := by decide
example : orderS finished_try_commit = [.guard_try, .poison_check, .root_check, .rollback_commit, .root_set, .store_commit] := by decide
example : orderS overlay_commit =
    [.marker_check, .guard_write, .poison_check, .root_check, .root_set, .rollback_commit, .store_commit] := by decide
example : inlineInner (orderS nomt_rollback) =
    [.guard_write, .poison_check, .truncate, .begin_session, .poison_check, .root_check, .root_set, .store_commit] := by decide

/-- sensitivity: the F21 order of `rollback` (truncation before the poison check) is a different list -/
example : orderI ([.aWrite1, .aWrite2, .logPop 1, .mLock, .readRoot, .mUnlock, .chkPoison, .mLock, .chkSeen, .pubRb, .mUnlock,
    .storeRb true, .aWriteUnlock .ok, .ret .ok] : List (Instr Nat Nat Nat)) ≠ inlineInner (orderS nomt_rollback) := by decide

end Nomt.C15
