import NomtModel.Props.C04_Order
import NomtModel.Store.SyncGenToyAbs
/-!
# C04 — every I/O order the sync choreography can produce is accepted by the order monitor

`checkOrder` (T4.7 / T4.8) judges the Begin / End traces that were SAMPLED.  `Store/SyncGen.lean` writes the
synchronisation structure of the code that produces them — `Session::commit` → `rollback.commit` (seglog append) →
`Sync::sync` (bitbox / beatree / rollback `begin_sync`, both `wait_pre_meta`, `Meta::write`, the three `post_meta`,
`wait_post_meta`) — as a concurrent program: chains of synchronous calls, groups of asynchronous page writes, and the
happens-before edges the code enforces by joins, channel receives and `Fsyncer::wait`, nothing else.  `OpLang real P` is
the set of ALL its interleavings for the parameter choice `P`: any number of `ln` / `bbn` page writes and file growths,
any number of table pages, rollback delta appended or not, with or without segment roll-over, pruning or not.

* T4_sync_program_accepted — every word of `OpLang real P`, for every `P`, is accepted by `checkOrder`, ends with the
  switch-over durable, and no prefix of it is objected to.
* T4_sync_program_crash_atomic — hence (T4.8b) every crash and power-loss image of every prefix of every execution the
  choreography allows recovers to the old or the new state.
* T4_sync_program_member_sound — the executable membership check the driver runs on every recorded trace is sound: a
  trace it accepts is a word of the language (so for a recorded trace `member=1` implies the monitor's `ok`).
* T4_sync_program_edges_needed — five variants of the program, each without ONE edge / action the code has, generate
  an interleaving the monitor rejects.
-/
namespace Nomt.C04
open NomtDisk Nomt.Store
variable {Content MetaRec WalRec LogRec TreeAbs : Type} (P : NomtDisk.Params Content MetaRec WalRec TreeAbs)

/-- T4.10 **every interleaving of the sync choreography is accepted by the order monitor.**  For every parameter choice
`Pm` (segment names are not names of the five store files: `Pm.WF`) and every trace `tr` the program `SyncGen.real`
generates — the seglog append (with or without roll-over), then any run of the WAL task ∥ (page writes and growth of
`ln` / `bbn` in any order, all completed before the two concurrent fsyncs), `Meta::write`, then any run of the prune task ∥
(table writes in any order, all completed before the table fsync, then the WAL truncation) — `checkOrder` accepts `tr`,
the monitor ends in phase 2 (the switch-over record is durable when the operation returns), and the monitor's scan
raises no objection on any prefix of `tr` (an execution cut anywhere). -/
theorem T4_sync_program_accepted (Pm : SyncGen.Params) (hwf : Pm.WF) (tr : List IoEv2)
    (hrun : SyncGen.OpLang SyncGen.real Pm tr) :
    (∃ st, checkOrder tr = .ok st ∧ st.phase = 2) ∧ ∀ p, p <+: tr → ∃ st, orderRun {} 0 p = .ok st := by
  obtain ⟨st, hacc, hph⟩ := SyncGen.sync_accepted Pm hwf tr hrun
  refine ⟨⟨st, hacc, hph⟩, ?_⟩
  rintro p ⟨q, rfl⟩
  unfold checkOrder at hacc
  cases hr : orderRun {} 0 (p ++ q) with
  | error e => rw [hr] at hacc; cases hacc
  | ok st' => exact SyncGen.orderRun_prefix_ok p q {} st' 0 hr

/-- non-vacuity of T4.10: `Toy.exRun` — rollback delta appended after a roll-over, the WAL task overlapping three page
writes of `ln` / `bbn` and a growth of `ln` with completions out of order, overlapping fsyncer threads, `Meta::write`,
two table pages overlapping the prune task (an unlink, the directory fsync, truncation + fsync of the head segment) — is a
word of the language for the well-formed parameters `Toy.exP`; the parameters read off the trace are `exP`'s. -/
example : SyncGen.OpLang SyncGen.real SyncGen.Toy.exP SyncGen.Toy.exRun ∧ SyncGen.Toy.exP.WF ∧
    (checkOrder SyncGen.Toy.exRun).toBool = true ∧ (SyncGen.paramsOf SyncGen.Toy.exRun).bt = SyncGen.Toy.exP.bt :=
  ⟨SyncGen.memberOf_sound _ _ _ SyncGen.Toy.exRun_member, SyncGen.Toy.exP_wf, by decide, SyncGen.Toy.exRun_params.1⟩

/-- T4.11 **soundness of the membership check the driver runs on every recorded trace.**  `memberOf V Pm tr = true` (the
seglog-append prefix compared line by line, then `stepFn` finding for each line a step of the program that emits it)
implies `tr ∈ OpLang V Pm`; with T4.10: a recorded trace the driver reports as `member=1` (for well-formed parameters —
the driver checks `wfB`) is accepted by `checkOrder`.  The converse direction is what the differential run checks: every
recorded trace of the real code must be a member — the real order respects every happens-before edge of the model. -/
theorem T4_sync_program_member_sound (V : SyncGen.Variant) (Pm : SyncGen.Params) (tr : List IoEv2)
    (h : SyncGen.memberOf V Pm tr = true) :
    SyncGen.OpLang V Pm tr ∧ (V = SyncGen.real → Pm.wfB = true → ∃ st, checkOrder tr = .ok st ∧ st.phase = 2) := by
  refine ⟨SyncGen.memberOf_sound V Pm tr h, ?_⟩
  rintro rfl hwf
  exact SyncGen.sync_accepted Pm (SyncGen.Params.wfB_sound Pm hwf) tr (SyncGen.memberOf_sound _ Pm tr h)

example : SyncGen.memberOf SyncGen.real SyncGen.Toy.exP SyncGen.Toy.exRun = true ∧ SyncGen.Toy.exP.wfB = true :=
  ⟨SyncGen.Toy.exRun_member, by decide⟩

/-- T4.12 **the abstraction of every execution writes the meta page**: hypothesis `hsplit` of T4.8 / T4.8b holds for
every word of the language, for every choice of the contents the trace does not carry. -/
theorem T4_sync_program_writes_meta (C : Contents Content MetaRec WalRec) (Pm : SyncGen.Params) (hwf : Pm.WF)
    (tr : List IoEv2) (hrun : SyncGen.OpLang SyncGen.real Pm tr) :
    ∃ cpre id crest, absTrace (LogRec := LogRec) C {} 0 tr = cpre ++ CEv.effBegin id (.setMeta (C.mt id)) :: crest :=
  SyncGen.sync_abs_writes_meta C Pm hwf tr hrun

/-- T4.13 **every crash and power-loss image of every prefix of every execution the choreography allows recovers to
old or new.**  `tr` is ANY interleaving the sync program generates (no acceptance by the monitor is assumed: T4.10
provides it); its abstraction with the contents `C` splits at the meta write (`hsplit`; a split exists by T4.12); the
abstracted effects satisfy the content clauses of T4.2c (`hcont`, `hwal`, `hseq`: what the trace cannot show — decided
by the C17 placement monitor, `walredo` and the crash enumeration).  Then EVERY image — durable part plus ANY sub-list of
the volatile effects — of EVERY prefix of the concurrent execution recovers (tree, table view, live rollback records) to
exactly the old or exactly the new state, and to the new state once the operation has returned. -/
theorem T4_sync_program_crash_atomic (L : LogParams MetaRec LogRec) (C : Contents Content MetaRec WalRec)
    (Pm : SyncGen.Params) (hwf : Pm.WF) (tr : List IoEv2) (hrun : SyncGen.OpLang SyncGen.real Pm tr)
    (d0 : Disk Content MetaRec WalRec LogRec)
    (hinert : ∀ b, htView P d0 b = d0.pages File.fHt b)
    (cpre crest : List (CEv Content MetaRec WalRec LogRec)) (id : Nat) (m1 : MetaRec) (w1 : WalRec)
    (hsplit : absTrace C {} 0 tr = cpre ++ CEv.effBegin id (.setMeta m1) :: crest)
    (hcont : cAll (contChk (AllowedPreL' P L d0) (contPostL P L (crun (cinit d0) cpre).dur m1 w1)) 0 (cinit d0)
      (absTrace C {} 0 tr))
    (hwal : (crun (cinit d0) cpre).dur.wal = some w1)
    (hseq : P.walSeqn w1 = P.seqn m1) :
    (∀ cp, cp <+: absTrace C {} 0 tr → ∀ img, IsCImage (crun (cinit d0) cp) img →
       absOfL P L img = absOfL P L d0 ∨
       absOfL P L img = (absNew P (crun (cinit d0) cpre).dur m1 w1, absLog L m1 (crun (cinit d0) cpre).dur.log)) ∧
    (∀ img, IsCImage (crun (cinit d0) (absTrace C {} 0 tr)) img →
       absOfL P L img = (absNew P (crun (cinit d0) cpre).dur m1 w1, absLog L m1 (crun (cinit d0) cpre).dur.log)) := by
  obtain ⟨st, hacc, _⟩ := SyncGen.sync_accepted Pm hwf tr hrun
  exact T4_8b_accepted_real_trace_powerloss_atomic_with_rollback_log P L C tr st hacc d0 hinert cpre crest id m1 w1 hsplit
    hcont hwal hseq

/-- non-vacuity of T4.13: `Toy.toyRun` is a word of the language (one page write of `ln`, one table page) whose
abstraction over the toy disk satisfies every hypothesis; all crash images of all prefixes are old or new. -/
example :
    (∀ cp, cp <+: absTrace (LogRec := Nat) SyncGen.Toy.CT {} 0 SyncGen.Toy.toyRun → ∀ img,
      IsCImage (crun (cinit CToy.d0) cp) img →
        absOfL Toy.P Toy.L img = absOfL Toy.P Toy.L CToy.d0 ∨
        absOfL Toy.P Toy.L img = (absNew Toy.P (crun (cinit CToy.d0) SyncGen.Toy.cpreT).dur Toy.m1 Toy.w1,
          absLog Toy.L Toy.m1 (crun (cinit CToy.d0) SyncGen.Toy.cpreT).dur.log)) :=
  (T4_sync_program_crash_atomic Toy.P Toy.L SyncGen.Toy.CT SyncGen.Toy.PT SyncGen.Toy.PT_wf SyncGen.Toy.toyRun
    (SyncGen.memberOf_sound _ _ _ SyncGen.Toy.toyRun_member) CToy.d0 CToy.hinert SyncGen.Toy.cpreT SyncGen.Toy.crestT 12
    Toy.m1 Toy.w1 SyncGen.Toy.toyRun_abs (by rw [SyncGen.Toy.toyRun_abs]; exact SyncGen.Toy.toyRun_cont)
    SyncGen.Toy.hwalT Toy.hseq).1

/-- T4.14 **the edges are needed** (kernel-checked negative examples).  Each of the five variants drops ONE edge /
action the code has; each generates an interleaving (a word of ITS language, for well-formed parameters) that
`checkOrder` rejects, and that the program of the code as it is does not generate:
`noWaitBeatree` — `wait_pre_meta` does not wait for the fsyncers (meta page written while the fsync of `ln` is in flight);
`noWaitWrites` — the fsync of `ln` is requested before every completion was received (it does not cover the write);
`noDirsync` — no directory fsync after a segment roll-over (the seeded change `C04-segment-rollover-dirsync`);
`noHtFsync` — the WAL is truncated without a table fsync; `noWaitHt` — the table fsync is issued before the table
writes have completed (the shape of F2). -/
theorem T4_sync_program_edges_needed :
    (SyncGen.OpLang SyncGen.Toy.noWaitBeatree SyncGen.Toy.P0 SyncGen.Toy.runNoWaitBeatree ∧
      (checkOrder SyncGen.Toy.runNoWaitBeatree).toBool = false) ∧
    (SyncGen.OpLang SyncGen.Toy.noWaitWrites SyncGen.Toy.P0 SyncGen.Toy.runNoWaitWrites ∧
      (checkOrder SyncGen.Toy.runNoWaitWrites).toBool = false) ∧
    (SyncGen.OpLang SyncGen.Toy.noDirsync SyncGen.Toy.P1 SyncGen.Toy.runNoDirsync ∧
      (checkOrder SyncGen.Toy.runNoDirsync).toBool = false) ∧
    (SyncGen.OpLang SyncGen.Toy.noHtFsync SyncGen.Toy.P0 SyncGen.Toy.runNoHtFsync ∧
      (checkOrder SyncGen.Toy.runNoHtFsync).toBool = false) ∧
    (SyncGen.OpLang SyncGen.Toy.noWaitHt SyncGen.Toy.P0 SyncGen.Toy.runNoWaitHt ∧
      (checkOrder SyncGen.Toy.runNoWaitHt).toBool = false) ∧
    SyncGen.Toy.P0.WF ∧ SyncGen.Toy.P1.WF ∧
    SyncGen.memberOf SyncGen.real SyncGen.Toy.P0 SyncGen.Toy.runNoWaitBeatree = false ∧
    SyncGen.memberOf SyncGen.real SyncGen.Toy.P1 SyncGen.Toy.runNoDirsync = false :=
  ⟨⟨SyncGen.memberOf_sound _ _ _ SyncGen.Toy.noWaitBeatree_generated, SyncGen.Toy.noWaitBeatree_rejected⟩,
   ⟨SyncGen.memberOf_sound _ _ _ SyncGen.Toy.noWaitWrites_generated, SyncGen.Toy.noWaitWrites_rejected⟩,
   ⟨SyncGen.memberOf_sound _ _ _ SyncGen.Toy.noDirsync_generated, SyncGen.Toy.noDirsync_rejected⟩,
   ⟨SyncGen.memberOf_sound _ _ _ SyncGen.Toy.noHtFsync_generated, SyncGen.Toy.noHtFsync_rejected⟩,
   ⟨SyncGen.memberOf_sound _ _ _ SyncGen.Toy.noWaitHt_generated, SyncGen.Toy.noWaitHt_rejected⟩,
   SyncGen.Params.wfB_sound _ (by decide), SyncGen.Params.wfB_sound _ (by decide),
   SyncGen.Toy.negatives_not_real.1, SyncGen.Toy.negatives_not_real.2.2.1⟩

end Nomt.C04
