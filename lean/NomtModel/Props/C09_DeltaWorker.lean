import NomtModel.Api.DeltaWorkerRun
/-!
# C09 — the asynchronous prior-value worker (`rollback/reverse_delta_worker.rs`)

Property theorems about the mirror of `ReverseDeltaWorker` (`Api/DeltaWorker.lean`: `handle_lookup`, `handle_completion`,
`resubmit_overflow`, the shutdown rule, `beatree::AsyncLookup::{submit, try_finish}`, `overflow::AsyncReader::{submit,
complete, continue_parse}`).  The environment chooses how every `start_load` is answered (eagerly / pending leaf load /
leaf cached + pending overflow read; any overflow layout in which more page numbers are known than pages parsed) and in
which order the I/O completions arrive.  Helper lemmas: `Api/DeltaWorker{Basic,Inv,Resubmit,Steps,Completion,Run}.lean`.
Tie to the code: only through the result (`delta` differential: priors of inline / overflow / > 15-page values with cold
leaf cache, "wide" cases with more than `TARGET_OVERFLOW_REQUESTS` concurrent lookups) — the worker's internal state is
not observable.
-/
namespace Nomt.C09
open Nomt Nomt.Wk
variable {V : Type}

/-- **T9.worker — whatever the schedule, the worker records what the run-to-completion mirror records.**  From the fresh
worker, for every schedule of lookups and completions (`Sched`: lookups only before the command channel closes, each
answered in one of the three ways with a well-formed layout; a completion only for a request in flight) of fewer than
2^56 events: no panic site is reached — `requests.remove(&user_data).unwrap()`, `get_mut(&request_id).unwrap()`, both
`unreachable!()`, `initial_meta.take().unwrap()`, `self.pages[index]`, the `assert_eq!`s of `AsyncReader::complete`,
`dormant_request_count -= 1`, `requests.len() - dormant_request_count`, `overflow_request_index -= 1`,
`store.as_ref().unwrap()` —; and once nothing is in flight `requests` is empty (the `Join` loop ends) and `priors` is
exactly the map `Dlt.lookupAll` (the `handle_lookup` of `T9_delta_is_prior_view`) builds: `val k` for every key looked up. -/
theorem T9_worker_refines_lookupAll {val : Key → Option V} (evs : List Ev) (hs : Sched val ({} : W V) evs)
    (hlen : 129 * (evs.length + 1) ≤ MAXU64) :
    ∃ w', runEvs val ({} : W V) evs = .ok w' ∧ Inv val w' ∧
      (Quiescent w' → w'.reqs = [] ∧ Dlt.lookupAll (fun k => .ok (val k)) [] (lookedUp evs) = .ok w'.priors) :=
  worker_refines_lookupAll evs hs hlen

/-- **T9.worker.live — no request is ever stuck**: in every reachable state (`Inv`), as long as `requests` is not empty an
I/O command is in flight — in particular a dormant request (one that only dispatches overflow reads) always has an overflow
read outstanding: `resubmit_overflow` requested at least one more page whenever none was (`max(1, …)`), and one more page
number is always known than pages parsed (> 15-page values: the pages known "so far", F12). -/
theorem T9_worker_never_stuck {val : Key → Option V} {w : W V} (h : Inv val w) (hne : w.reqs ≠ []) : ∃ ud, Enabled w ud := by
  apply Classical.byContradiction
  intro hno
  exact hne (quiescent_empty h (fun ud he => hno ⟨ud, he⟩))

/-- every step keeps the invariant and reaches no panic site -/
theorem T9_worker_step {val : Key → Option V} {w : W V} (h : Inv val w) (hroom : w.reqIdx + 129 ≤ w.ovfIdx) :
    (∀ k sh, w.shutdown = false → ShapeOk sh → ∃ w', w.handleLookup val k sh = .ok w' ∧ Inv val w') ∧
    (∀ ud, Enabled w ud → ∃ w', w.handleCompletion val ud = .ok w' ∧ Inv val w') :=
  ⟨fun k sh hs hsh => by obtain ⟨w', a, b, _⟩ := handleLookup_inv h hs k sh hsh hroom; exact ⟨w', a, b⟩,
   fun ud hen => by obtain ⟨w', a, b, _⟩ := handleCompletion_inv h ud hen hroom; exact ⟨w', a, b⟩⟩

/-- **T9.worker.shutdown**: `start_shutdown` keeps the invariant, and once the remaining completions have arrived the store
handle has been dropped (`store = None`: the completion stream ends) and the final `assert!(worker.is_shut_down())` holds. -/
theorem T9_worker_shutdown {val : Key → Option V} {w : W V} (h : Inv val w) :
    Inv val w.startShutdown ∧
    (w.shutdown = true → Quiescent w → w.reqs = [] ∧ w.storeLive = false) :=
  ⟨startShutdown_inv h, fun hsd hq => shutdown_completes h hsd hq⟩

/-! ### non-vacuity: a value of 3 overflow pages of which the cell names 2; pages arrive out of order -/

def exLay : Layout := { total := 3, known := fun p => min 3 (2 + p) }
theorem exLay_wf : exLay.WF :=
  ⟨fun p => by simp [exLay]; omega, fun p q h => by simp [exLay]; omega, fun p h => by simp [exLay] at h ⊢; omega, by decide⟩

def exVal : Key → Option Nat := fun k => some k.length
def exEvs : List Ev :=
  [.lookup [true] (.leaf (some exLay)), .lookup [false, true] .eager, .complete 0,
   .complete (MAXU64 - 1), .complete MAXU64, .lookup [] (.cachedOverflow exLay), .complete (MAXU64 - 2),
   .complete 1, .complete (MAXU64 - 3), .complete (MAXU64 - 4)]

theorem sched_lookup {val : Key → Option V} {w wn : W V} (k : Key) (sh : Shape) (rest : List Ev) (h1 : w.shutdown = false)
    (h2 : ShapeOk sh) (hstep : w.step val (.lookup k sh) = .ok wn) (hr : Sched val wn rest) :
    Sched val w (.lookup k sh :: rest) :=
  ⟨h1, h2, fun w' hw' => by rw [hstep] at hw'; cases hw'; exact hr⟩

theorem sched_complete {val : Key → Option V} {w wn : W V} (ud : Nat) (rest : List Ev) (hen : Enabled w ud)
    (hstep : w.step val (.complete ud) = .ok wn) (hr : Sched val wn rest) : Sched val w (.complete ud :: rest) :=
  ⟨hen, fun w' hw' => by rw [hstep] at hw'; cases hw'; exact hr⟩

example : Sched exVal ({} : W Nat) exEvs :=
  sched_lookup _ _ _ rfl (fun _ h => by cases h; exact exLay_wf) rfl <|
  sched_lookup _ _ _ rfl trivial rfl <|
  sched_complete _ _ ⟨_, rfl, rfl⟩ rfl <|
  sched_complete _ _ ⟨_, rfl, rfl⟩ rfl <|
  sched_complete _ _ ⟨_, rfl, rfl⟩ rfl <|
  sched_lookup _ _ _ rfl exLay_wf rfl <|
  sched_complete _ _ ⟨_, rfl, rfl⟩ rfl <|
  sched_complete _ _ ⟨_, rfl, rfl⟩ rfl <|
  sched_complete _ _ ⟨_, rfl, rfl⟩ rfl <|
  sched_complete _ _ ⟨_, rfl, rfl⟩ rfl trivial

example : ∃ w', runEvs exVal ({} : W Nat) exEvs = .ok w' ∧ w'.reqs = [] ∧ w'.dormant = 0 ∧
    w'.priors = [([], some 0), ([false, true], some 2), ([true], some 1)] ∧ w'.ovfIdx = MAXU64 - 5 := by
  refine ⟨_, rfl, rfl, rfl, rfl, rfl⟩

end Nomt.C09
