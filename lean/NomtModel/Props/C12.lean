import NomtModel.Api.ApiRollback
import NomtModel.Api.ExecLemmas
/-!
# C12 — A rejected or deferred commit has no effect at all

Part A: theorems over the abstract commit protocol `Api/Api.lean` (state = values, root, rollback log, seqn),
including the F1 witness.  Part B: theorems over the executable API model `Api/Exec.lean`; `obs` is the
committed part of the state `(kv, root, log, seqn, lastMarker)` (helper lemmas: `Api/ExecLemmas.lean`).
-/
namespace Nomt.C12
open NomtApi
variable {K V R : Type} [DecidableEq K] [DecidableEq R]

/-- T12.1: a blocking commit whose base root is stale returns `err` and the whole state — values, root,
**rollback log**, sequence number — is unchanged. -/
theorem T12_1_commit_rejected_noop (cs : Changeset K V R) (s : St K V R) (h : s.root ≠ cs.prevRoot) :
    commit cs s = (.err, s) := commit_rejected_noop cs s h

/-- T12.2: the non-blocking commit (root checked before the delta is appended — the order the code has
after repair F1) is a no-op whenever it does not succeed: lock unavailable (deferred) or stale base. -/
theorem T12_2_nonblocking_noop (lockFree : Bool) (cs : Changeset K V R) (s : St K V R)
    (h : lockFree = false ∨ s.root ≠ cs.prevRoot) :
    (tryCommitNonblockingFixed lockFree cs s).2 = s ∧ (tryCommitNonblockingFixed lockFree cs s).1 ≠ .ok :=
  nonblocking_fixed_noop lockFree cs s h

/-- F1 witness: with the delta appended *before* the root check (the order of the unrepaired code) a
rejected attempt is **not** a no-op — the rollback log grows. -/
theorem F1_code_order_not_noop (cs : Changeset K V R) (s : St K V R) (h : s.root ≠ cs.prevRoot) :
    (tryCommitNonblockingCode true cs s).2.log = s.log ++ [cs.delta] :=
  nonblocking_code_not_noop cs s h

/-- non-vacuity: a concrete stale changeset -/
example : commit (K := Nat) (V := Nat) (R := Nat) { prevRoot := 1, newRoot := 2, writes := [(0, some 5)], delta := [(0, none)] }
    { kv := fun _ => none, root := 7, log := [], seqn := 0 } =
    (.err, { kv := fun _ => none, root := 7, log := [], seqn := 0 }) := by
  apply commit_rejected_noop; decide

end Nomt.C12

namespace Nomt.C12
open Nomt Nomt.Api
variable {Node VH : Type} [DecidableEq Node] [DecidableEq VH]

/-- T12.3: a blocking `FinishedSession::commit` that does not return `ok` leaves values, root, rollback
log, sequence number and overlay marker unchanged; the whole state is unchanged except that the changeset
is consumed. -/
theorem T12_3_commitFin_refused_noop (s : St Node VH) (fid : Nat) (h : (commitFin s fid).1 ≠ .ok) :
    obs (commitFin s fid).2 = obs s ∧
    ((commitFin s fid).2 = { s with fins := s.fins.filter (·.id != fid) } ∨ (commitFin s fid).2 = s) :=
  ⟨commitFin_not_ok_obs s fid h, commitFin_not_ok_state s fid h⟩

/-- T12.4: `try_commit_nonblocking` that does not return `ok` leaves the committed state unchanged, and a
deferred one (`busy`) leaves the *entire* state unchanged (the changeset is handed back). -/
theorem T12_4_tryCommitFin_refused_noop (s : St Node VH) (fid : Nat) :
    ((tryCommitFin s fid).1 ≠ .ok → obs (tryCommitFin s fid).2 = obs s) ∧
    ((tryCommitFin s fid).1 = .busy → (tryCommitFin s fid).2 = s) :=
  ⟨tryCommitFin_not_ok_obs s fid, tryCommitFin_busy s fid⟩

/-- T12.5: a refused `Overlay::commit` leaves the committed state unchanged and does not mark any overlay
as committed. -/
theorem T12_5_commitOv_refused_noop (s : St Node VH) (oid : Nat) (h : (commitOv s oid).1 ≠ .ok) :
    obs (commitOv s oid).2 = obs s ∧
    (∀ o ∈ (commitOv s oid).2.ovs, o.committed = true → ∃ o' ∈ s.ovs, o'.id = o.id ∧ o'.committed = true) ∧
    ((commitOv s oid).2 = s ∨ (commitOv s oid).2 = dropOv s oid) :=
  ⟨commitOv_not_ok_obs s oid h, commitOv_not_ok_committed s oid h, commitOv_not_ok s oid h⟩

/-- T12.6: a refused or deferred `Overlay::try_commit_nonblocking` leaves the committed state unchanged and
does not mark any overlay as committed; deferred (`busy`) leaves the entire state unchanged. -/
theorem T12_6_tryCommitOv_refused_noop (s : St Node VH) (oid : Nat) :
    ((tryCommitOv s oid).1 ≠ .ok →
      obs (tryCommitOv s oid).2 = obs s ∧
      (∀ o ∈ (tryCommitOv s oid).2.ovs, o.committed = true → ∃ o' ∈ s.ovs, o'.id = o.id ∧ o'.committed = true)) ∧
    ((tryCommitOv s oid).1 = .busy → (tryCommitOv s oid).2 = s) :=
  ⟨fun h => ⟨tryCommitOv_not_ok_obs s oid h, tryCommitOv_not_ok_committed s oid h⟩, tryCommitOv_busy s oid⟩

/-- T12.7: a refused rollback changes nothing at all -/
theorem T12_7_rollback_refused_noop (H : Hasher Node VH) (s : St Node VH) (n : Nat)
    (h : (rollback H s n).1 ≠ .ok) : (rollback H s n).2 = s :=
  rollback_not_ok H s n h

/-- non-vacuity (Exec): a finished session on a stale base root is refused -/
example : (commitFin (Node := Nat) (VH := Nat)
    { root := 7, fins := [{ id := 1, chain := [], writes := [([true], some 5)], prevRoot := 3, root := 4,
                            delta := [([true], none)] }] } 1).1 = .err := by decide

end Nomt.C12
