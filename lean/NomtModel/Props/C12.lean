import NomtModel.Api.ApiRollback
/-!
# C12 — A rejected or deferred commit has no effect at all  (first claim; Exec-level theorems follow)

Theorems over the abstract commit protocol `Api/Api.lean` (state = values, root, rollback log, seqn).
-/
namespace Nomt.C12
open NomtApi
variable {K V R : Type} [DecidableEq K] [DecidableEq R]

/-- T12.1: a blocking commit whose base root is stale returns `err` and the whole state — values, root,
**rollback log**, sequence number — is unchanged. -/
theorem T12_1_commit_rejected_noop (cs : Changeset K V R) (s : St K V R) (h : s.root ≠ cs.prevRoot) :
    commit cs s = (.err, s) := commit_rejected_noop cs s h

/-- T12.2: the non-blocking commit (root checked before the delta is appended — the order the code has
after repair F1) is a no-op whenever it does not succeed: lock unavailable (deferred) or stale base. -/
theorem T12_2_nonblocking_noop (lockFree : Bool) (cs : Changeset K V R) (s : St K V R)
    (h : lockFree = false ∨ s.root ≠ cs.prevRoot) :
    (tryCommitNonblockingFixed lockFree cs s).2 = s ∧ (tryCommitNonblockingFixed lockFree cs s).1 ≠ .ok :=
  nonblocking_fixed_noop lockFree cs s h

/-- F1 witness: with the delta appended *before* the root check (the order of the unrepaired code) a
rejected attempt is **not** a no-op — the rollback log grows. -/
theorem F1_code_order_not_noop (cs : Changeset K V R) (s : St K V R) (h : s.root ≠ cs.prevRoot) :
    (tryCommitNonblockingCode true cs s).2.log = s.log ++ [cs.delta] :=
  nonblocking_code_not_noop cs s h

/-- non-vacuity: a concrete stale changeset -/
example : commit (K := Nat) (V := Nat) (R := Nat) { prevRoot := 1, newRoot := 2, writes := [(0, some 5)], delta := [(0, none)] }
    { kv := fun _ => none, root := 7, log := [], seqn := 0 } =
    (.err, { kv := fun _ => none, root := 7, log := [], seqn := 0 }) := by
  apply commit_rejected_noop; decide

end Nomt.C12
