import NomtModel.Api.FinishExample
/-!
# C13 (topic: `Session::finish`) — `has_writes`, rebuilt vs advanced, and independence of the worker count
-/
namespace Nomt.C13
open Nomt Nomt.Api Nomt.Split Nomt.Dlt Nomt.Finish
variable {Node VH V : Type} [DecidableEq Node] [DecidableEq VH]

/-- **T13_finish_has_writes — a batch is rebuilt iff one of its operations is a write, with exactly its written
operations.**  For every successful `finish` (hypotheses of `T6_finish_ops_spec`): every completion a worker handles
carries `has_writes = "some operation of read_write[start..next] is a Write or a ReadThenWrite"` — the written VALUE
is not looked at —; an owned batch in an exclusive page is advanced past when it has no writes and rebuilt with the
`subtrie_ops` of its slice otherwise; no written operation is skipped. -/
theorem T13_finish_has_writes (H : Hasher Node VH) (hs : H.Sound) (hv : V → VH) (L : Nat) (view : KVL VH)
    (hvlen : ∀ kv ∈ view, kv.1.length = L) (hsorted : view.Pairwise KeyLt)
    (P : Params) (h1 : 1 ≤ P.n) (h64 : P.n ≤ 64) (hL : 6 ≤ L) (hnsup : P.superseded = false)
    (hord : P.order.Perm (List.range P.n))
    (load : Key → Outcome Unit (Option V)) (viewV : Key → Option V) (hl : ∀ k, load k = .ok (viewV k))
    (hints : List Key) (a : Actuals V) (hal : ∀ x ∈ a, x.1.length = L) (has : ASorted a) :
    ∃ out, Finish.finish false H hv L P load hints view a = .ok out ∧
      (∀ bs ∈ out.bss, ∀ b ∈ bs, b.hasWrites = (sliceOf out.ops (b.start, b.next)).any (fun o => o.2.isWrite)) ∧
      out.advances = out.bss.map (fun bs => (bs.filter (fun b => b.owned && !b.nonExcl)).map fun b =>
        (b.start, if b.hasWrites then some (subtrieOps (sliceOf out.ops (b.start, b.next))).length else none)) ∧
      out.applied = out.ops := by
  obtain ⟨delta, hfin, _⟩ := finalizeStep_total hl P hints a
  obtain ⟨bss0, w, hrun, _, hok⟩ := finish_ok H hs hv L view hvlen hsorted P h1 h64 hL a hal has load hints hnsup delta hfin hord
  exact ⟨_, hok, real_batches_hasWrites H hs hv L view hvlen hsorted P h1 h64 hL a hal bss0 hrun, rfl, rfl⟩

/-- **T13_finish_independent_of_workers — root, value changes, delta, operation list and canonical witness do not
depend on the number of commit workers nor on the order in which they complete.** -/
theorem T13_finish_independent_of_workers (H : Hasher Node VH) (hs : H.Sound) (hv : V → VH) (L : Nat) (view : KVL VH)
    (hvlen : ∀ kv ∈ view, kv.1.length = L) (hsorted : view.Pairwise KeyLt)
    (P P' : Params) (h1 : 1 ≤ P.n) (h64 : P.n ≤ 64) (h1' : 1 ≤ P'.n) (h64' : P'.n ≤ 64) (hL : 6 ≤ L)
    (hnsup : P.superseded = false) (hnsup' : P'.superseded = false)
    (hord : P.order.Perm (List.range P.n)) (hord' : P'.order.Perm (List.range P'.n))
    (hw : P'.witness = P.witness) (hr : P'.rollback = P.rollback)
    (load : Key → Outcome Unit (Option V)) (viewV : Key → Option V) (hl : ∀ k, load k = .ok (viewV k))
    (hints hints' : List Key) (a : Actuals V) (hal : ∀ x ∈ a, x.1.length = L) (has : ASorted a)
    (ht : RtwTruthful viewV a) :
    ∃ out out', Finish.finish false H hv L P load hints view a = .ok out ∧
      Finish.finish false H hv L P' load hints' view a = .ok out' ∧
      out'.root = out.root ∧ out'.ops = out.ops ∧ out'.changes = out.changes ∧ out'.delta = out.delta ∧
      out'.witness.map (·.canon) = out.witness.map (·.canon) := by
  have hc := canon_of_view L view hvlen hsorted
  obtain ⟨bss0, w, _, hw1, hok⟩ := finish_ok H hs hv L view hvlen hsorted P h1 h64 hL a hal has load hints hnsup _
    (finalizeStep_spec hl P hints a ht has) hord
  obtain ⟨bss0', w', _, hw2, hok'⟩ := finish_ok H hs hv L view hvlen hsorted P' h1' h64' hL a hal has load hints' hnsup' _
    (finalizeStep_spec hl P' hints' a ht has) hord'
  obtain ⟨w0, hw0, _, hcanon⟩ := assemble_any_order H hs L view hc hsorted P.n (compact hv a)
    (compact_len hv L a hal) (compact_sorted hv a has) hL h1 h64 P.order hord
  obtain ⟨w0', hw0', _, hcanon'⟩ := assemble_any_order H hs L view hc hsorted P'.n (compact hv a)
    (compact_len hv L a hal) (compact_sorted hv a has) hL h1' h64' P'.order hord'
  refine ⟨_, _, hok, hok', rfl, rfl, rfl, by simp [hr], ?_⟩
  rw [hw0] at hw1
  rw [hw0', hw] at hw2
  cases hwit : P.witness
  · rw [hwit] at hw1 hw2
    simp only [Bool.false_eq_true, if_false] at hw1 hw2
    injection hw1 with hw1; injection hw2 with hw2
    subst hw1; subst hw2; rfl
  · rw [hwit] at hw1 hw2
    simp only [if_true, Option.map_some] at hw1 hw2
    injection hw1 with hw1; injection hw2 with hw2
    subst hw1; subst hw2
    simp [hcanon, hcanon']

/-! ### instances -/
open Nomt.Finish.Ex

/-- non-vacuity of T13_finish_has_writes: a read-only batch in an exclusive page is only advanced past
(`00000010` read, `00000011` read: `(2, none)`), the batch with a write-back and a delete of an absent key is rebuilt -/
example : hwAdv (Finish.Ex.run false 2 true false Finish.Ex.view
      [ (k00000000, .rtw (some 1) (some 1)), (k00000001, .write none), (k00000010, .read (some 2)), (k00000011, .read none) ])
    = some ([[true, false], []], [[(0, some 2), (2, none)], []]) := by decide

example : ∃ out, Finish.finish false TH id 8 (P 5 true false) Finish.Ex.load [] Finish.Ex.view mixed = .ok out ∧
      (∀ bs ∈ out.bss, ∀ b ∈ bs, b.hasWrites = (sliceOf out.ops (b.start, b.next)).any (fun o => o.2.isWrite)) ∧
      out.advances = out.bss.map (fun bs => (bs.filter (fun b => b.owned && !b.nonExcl)).map fun b =>
        (b.start, if b.hasWrites then some (subtrieOps (sliceOf out.ops (b.start, b.next))).length else none)) ∧
      out.applied = out.ops :=
  T13_finish_has_writes TH TH_sound id 8 Finish.Ex.view (by decide) (by decide) (P 5 true false) (by decide) (by decide) (by decide) rfl
    (List.Perm.refl _) Finish.Ex.load (kvGet Finish.Ex.view) (fun _ => rfl) _ mixed (by decide) (by decide)

/-- 1 worker vs 5 workers completing in the order 4, 2, 0, 1, 3 -/
example : rootOf (Finish.Ex.run false 1 true false Finish.Ex.view mixed) =
    rootOf (Finish.finish false TH id 8 { P 5 true false with order := [4, 2, 0, 1, 3] } Finish.Ex.load [] Finish.Ex.view mixed) := by decide

end Nomt.C13
