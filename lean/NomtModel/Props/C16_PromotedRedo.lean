import NomtModel.Props.C04_PrepareSync
import NomtModel.Props.C03_Wal
/-!
# C16 / C03 / C04 — a page that goes to a FRESH bucket, written through the WAL and redone after a crash

The WAL entry of a page carries only the slots its diff names, and `recover` writes them over the OLD content of the page's
BUCKET — for a page the walk created, or a reconstructed page it promoted, that is a bucket some earlier occupant left its
bytes in (a tombstone keeps its page) — not over the pool page the walker built the page in.  So the question for the
crash theorem is not whether the diff names every slot that differs from the pool page (`DiffNames`, relative), but whether it names
every slot the trie DEFINES in the page (absolutely).  It does: `set_node` / `set_sibling` call `diff.set_changed`
unconditionally, and the walker writes every meaningful slot of such a page (`T16_walker_names_every_written_slot`,
`Store/WalkerTreeWrites.lean`; for a reconstructed page the reconstruction diff travels in `total_diff`,
`T16_promoted_page_diff`).  This file composes that with the real WAL writer and redo:

`T16_fresh_page_wal_redo`: for every table state inside the table invariant and every changeset inside the contract of
`prepare_sync`, `recover` on (the OLD table, the WAL blob) leaves, in the bucket of EVERY updated page `x` — whatever the bucket
held before —, a page that agrees with `x.page` on every slot named by the diff, on the elided-children field and on the
label.  With the diff naming every meaningful slot, the recovered page equals the walker's page wherever the trie reads it;
the other slots keep stale bytes (the pool page's in the write-out, the old bucket's after redo), which nothing reads: a
reader descends only below internal nodes.

Tied to the real code by the `walker --focus recon` run: the pages the REAL walker hands out with a fresh bucket go through the
REAL `prepare_sync` and the REAL `recover` over buckets filled with stale bytes (`prepsync::redo_of_walker_pages`, both a
crash before the write-out and in the middle of it): every meaningful slot, the label and the elided field come back.
-/
namespace Nomt.C16
open Nomt Nomt.Wal Nomt.Store Nomt.Store.Probe Nomt.PrepSync

/-- **T16_fresh_page_wal_redo** (the content clause of the crash theorem for pages in fresh buckets) -/
theorem T16_fresh_page_wal_redo {hash : Bytes → Nat} {debug : Bool} {S : St} {T : Wal.Table} {seqn : Nat}
    {ds : List Dirty} {b0 : Builder} {res : Res} (hB : Before hash S T) (hC : ChangesOK hash S T ds)
    (hs : seqn < 2 ^ 32) (h : prepareSync hash debug S seqn ds b0 = .ok res) :
    ∃ U, recover hash seqn T res.wal.asSlice.toArray = .ok U ∧
      ∀ x ∈ ups ds res.cells, ∃ F, U.pages[x.1]? = some F ∧ F.length = PAGE_SIZE ∧
        (∀ i, i ∈ x.2.diff.ones → ∀ j, j < 32 → F[i * 32 + j]? = x.2.page[i * 32 + j]?) ∧
        (∀ o, 4056 ≤ o → F[o]? = x.2.page[o]?) := by
  obtain ⟨U, hU, _, _, hlen, _, hups⟩ := C04.T4_prepare_sync_redo_vs_writeout hB hC hs h res.ht (List.Perm.refl _)
  have hWlen := (C04.T4_prepare_sync_abstraction hB hC h res.ht (List.Perm.refl _)).2.1
  refine ⟨U, hU, ?_⟩
  intro x hx
  obtain ⟨F, hF, hUF, _⟩ := hups x hx
  obtain ⟨hxp, hncl⟩ := ups_sub_pairs ds res.cells x hx
  have hd : x.2 ∈ ds := mem_pairs ds res.cells x hxp
  have hty := hC.typed x.2 hd
  obtain ⟨hplain, hlabel⟩ := hC.plain x.2 hd hncl
  -- the bucket exists, and holds a whole page
  have hlt : x.1 < T.pages.length := by
    have : x.1 < U.pages.length := by
      rcases Nat.lt_or_ge x.1 U.pages.length with h1 | h1
      · exact h1
      · rw [List.getElem?_eq_none h1] at hUF; cases hUF
    rw [hlen, hWlen] at this; exact this
  have hold : (T.pages.getD x.1 []).length = PAGE_SIZE := by
    rw [List.getD_eq_getElem?_getD, List.getElem?_eq_getElem hlt]
    exact hB.pagesWF _ (List.getElem_mem hlt)
  obtain ⟨F', hF', hFl, h1, h2, _⟩ := C03.T3_redo_slots (P := x.2.page) (old := T.pages.getD x.1 []) (d := x.2.diff)
    hty.page hold hplain
  have e : F' = F := by
    unfold redoOf at hF
    rw [← hlabel, hF'] at hF
    injection hF
  subst e
  exact ⟨F', hUF, hFl, h1, h2⟩

/-- non-vacuity: the empty two-bucket table and the fresh page `exD2` of `Store/PrepareSyncExample.lean`, whose diff names only
slot 1 of two written slots (the seeded change `C03-wal-diff-drops-reconstruction`): the call succeeds, recovery succeeds, and
the recovered bucket carries the page's slot 1, label and elided field — while slot 0, which the diff does not name, is lost
(`C04.T4_seeded_diff_drops_reconstruction_counterexample`): the theorem promises exactly the named slots. -/
example (debug : Bool) : ∃ res U, prepareSync exHash debug exS 7 [exD2] exB = .ok res ∧
    recover exHash 7 exT res.wal.asSlice.toArray = .ok U ∧
    ∀ x ∈ ups [exD2] res.cells, ∃ F, U.pages[x.1]? = some F ∧ F.length = PAGE_SIZE ∧
      (∀ i, i ∈ x.2.diff.ones → ∀ j, j < 32 → F[i * 32 + j]? = x.2.page[i * 32 + j]?) ∧
      (∀ o, 4056 ≤ o → F[o]? = x.2.page[o]?) := by
  obtain ⟨res, h⟩ := exRuns debug 2 (by omega) plain_2
  obtain ⟨U, hU, hx⟩ := T16_fresh_page_wal_redo exBefore exChangesD2 (by omega) h
  exact ⟨res, U, h, hU, hx⟩

end Nomt.C16
