import NomtModel.Store.GenFnCheck2
/-!
# C01 (topic: translated functions — the size gauges of the leaf and branch updaters)

`LeafGauge` / `BranchGauge` decide where the updaters split and merge nodes; the updater theorems (`Props/C01_LeafUpdater.lean`,
`Props/C01_BranchUpdater.lean`) are about the mirrors `LeafUpd.Gauge` / `BranchUpd.Gauge`, this file ties them to the CURRENT Rust text.
-/
namespace Nomt.C01
open Nomt

/-- T1.fn-1 `LeafGauge::{ingest, body_size_after, body_size}` of the current source (fields `n`, `value_size_sum` passed as arguments;
`ingest` returns the new fields) are the mirror's, without overflow for anything below `2^31` -/
theorem T1_fn_leaf_gauge (g : LeafUpd.Gauge) (n vs : Nat) (hn : g.n < 2 ^ 31) (hs : g.sum < 2 ^ 31) (h1 : n < 2 ^ 31) (h2 : vs < 2 ^ 31) :
    GenFn.leaf_gauge_ingest g.n g.sum n vs = some ((g.ingest n vs).n, (g.ingest n vs).sum) ∧
    GenFn.leaf_gauge_body_size_after g.n g.sum n vs = some (g.bodyAfter n vs) ∧
    GenFn.leaf_gauge_body_size g.n g.sum = some g.body := GenFnCheck.leaf_gauge_eq g n vs hn hs h1 h2

/-- T1.fn-2 `node::uncompressed_separator_range_size` / `compressed_separator_range_size` of the current source are the mirrors, with
their underflow panics (`… - first_contraction`, `prefix_compressed_items - 1`, `… - (items - 1) * prefix_len`) at the same arguments -/
theorem T1_fn_separator_range_sizes (a b c d : Nat) (h1 : a < 2 ^ 31) (h2 : b < 2 ^ 31) (h3 : c < 2 ^ 62) (h4 : d < 2 ^ 31) :
    GenFn.uncompressed_separator_range_size a c b d = BranchUpd.uncompressedRange a c b d ∧
    GenFn.compressed_separator_range_size a b c d = BranchUpd.compressedRange a b c d :=
  ⟨GenFnCheck.uncompressed_range_eq a c b d h1 h3 h2, GenFnCheck.compressed_range_eq a b c d h1 h2 h3 h4⟩

/-- T1.fn-3 `BranchGauge::{stop_prefix_compression, prefix_compressed_items, total_separator_lengths, body_size}` of the current source
are the mirror's (`body_size` = `branch_node::body_size(prefix_len, total_separator_lengths(prefix_len), n)`, panicking exactly where
the mirror's `compressedRange` underflows) -/
theorem T1_fn_branch_gauge (g : BranchUpd.Gauge) (h : GenFnCheck.GaugeSmall g) :
    GenFn.branch_gauge_stop_prefix_compression g.pc g.n = (g.stop).map (·.pc) ∧
    GenFn.branch_gauge_prefix_compressed_items g.pc g.n = some g.pcItems ∧
    GenFn.branch_gauge_body_size g.first g.pl g.sum g.pc g.n = g.body :=
  ⟨GenFnCheck.branch_gauge_stop_eq g, GenFnCheck.branch_gauge_pc_items_eq g, GenFnCheck.branch_gauge_body_size_eq g h⟩

example : GenFn.leaf_gauge_ingest 3 100 2 50 = some (5, 150) ∧ GenFn.leaf_gauge_body_size 3 100 = some 202 ∧
    GenFn.compressed_separator_range_size 100 3 300 40 = some 280 ∧ GenFn.compressed_separator_range_size 100 0 300 40 = none ∧
    GenFn.branch_gauge_body_size (some (7, 100)) 40 300 none 3 = some (6 + 40 + 12) ∧
    GenFn.branch_gauge_stop_prefix_compression (some 2) 3 = none := by decide

end Nomt.C01
