import NomtModel.Api.PipelineExamples
/-!
# C12 — a refused or deferred call performs no step with an effect (the pipelines of `lib.rs` step by step)

`Api/Pipeline.lean` mirrors the five mutating calls as the steps the code performs, in its order; a call returns the trace of
its steps.  The order of the CHECKS relative to the first step with an effect is what defects F1 (delta appended before the
root check) and F6 (`mark_committed` before the root check) were about.
-/
namespace Nomt.C12
open Nomt Nomt.Api Nomt.Api.Pipe
variable {Node VH : Type} [DecidableEq Node] [DecidableEq VH] (H : Hasher Node VH)

/-- T12 **refused means no step with an effect**: a call on an un-poisoned handle that does not return `Ok` although nothing
failed — stale base root, parent overlay not the last committed one, `try_write` found sessions alive, the rollback log's locks
busy, rollback disabled or asking for more than is logged — has a trace of guards and checks only: the rollback log was not
touched (F1's order), no `committed` flag set (F6's order), root, marker, sequence number, values, disk and poison flag are
unchanged.  In memory it leaves what the refused `Api.Exec` step leaves (the consumed handle), or — handed back — the very
same state; in particular the committed part `obs` is unchanged and no overlay became `committed`. -/
theorem T12_refused_is_noop_stepwise (E : Env) (hQ : E.Q = {}) (p : PSt Node VH) (c : Call) (hp : p.poisoned = false)
    (hc : (∀ n, c ≠ .rollback n) ∨ E.finishOk = true)
    (hne : (runCall H E p c).res ≠ .ok) (hnf : noFail (runCall H E p c).trace = true) :
    noEffect (runCall H E p c).trace = true ∧
    (runCall H E p c).st.disk = p.disk ∧ (runCall H E p c).st.poisoned = false ∧
    obs (runCall H E p c).st.mem = obs p.mem ∧
    (∀ x ∈ (runCall H E p c).st.mem.ovs, x.committed = true → ∃ y ∈ p.mem.ovs, y.id = x.id ∧ y.committed = true) ∧
    ((runCall H E p c).res = .busy → (runCall H E p c).st = p) ∧
    (E.rbLockFree = true →
      (runCall H E p c).res = (specCall H p.mem c).1 ∧ (runCall H E p c).st.mem = (specCall H p.mem c).2) := by
  have href := Shape.refused H (commit_shape H E hQ p c hp hc) hne hnf
  refine ⟨href.no_effect, href.disk, by rw [href.poisoned, hp], ?_, ?_, ?_, ?_⟩
  · rcases href.spec with ⟨h1, h2⟩ | ⟨_, _, h3⟩
    · rw [h2]; exact specCall_not_ok_obs H p.mem c (by rw [← h1]; exact href.not_ok)
    · rw [h3]
  · rcases href.spec with ⟨h1, h2⟩ | ⟨_, _, h3⟩
    · rw [h2]
      have hne' : (specCall H p.mem c).1 ≠ .ok := by rw [← h1]; exact href.not_ok
      cases c with
      | commit fid =>
        intro x hx hxc
        rcases commitFin_not_ok_state p.mem fid hne' with e | e
        · simp only [specCall] at hx; rw [e] at hx; exact ⟨x, hx, rfl, hxc⟩
        · simp only [specCall] at hx; rw [e] at hx; exact ⟨x, hx, rfl, hxc⟩
      | tryCommit fid =>
        intro x hx hxc
        simp only [specCall, tryCommitFin] at hx hne'
        split at hx
        · exact ⟨x, hx, rfl, hxc⟩
        · next hb =>
          simp only [hb] at hne'
          rcases commitFin_not_ok_state p.mem fid hne' with e | e
          · rw [e] at hx; exact ⟨x, hx, rfl, hxc⟩
          · rw [e] at hx; exact ⟨x, hx, rfl, hxc⟩
      | ocommit oid => exact commitOv_not_ok_committed p.mem oid hne'
      | otryCommit oid => exact tryCommitOv_not_ok_committed p.mem oid hne'
      | rollback n =>
        intro x hx hxc
        simp only [specCall] at hx hne'
        rw [rollback_not_ok H p.mem n hne'] at hx
        exact ⟨x, hx, rfl, hxc⟩
    · rw [h3]; intro x hx hxc; exact ⟨x, hx, rfl, hxc⟩
  · intro hb
    rcases href.spec with ⟨h1, h2⟩ | ⟨_, _, h3⟩
    · -- `busy` of the `Api.Exec` step hands the whole state back
      have hb' : (specCall H p.mem c).1 = .busy := by rw [← h1]; exact hb
      have hm : (specCall H p.mem c).2 = p.mem := by
        cases c with
        | commit fid => exact absurd hb' (commitFin_ne_busy p.mem fid)
        | tryCommit fid => exact tryCommitFin_busy p.mem fid hb'
        | ocommit oid => exact absurd hb' (commitOv_ne_busy p.mem oid)
        | otryCommit oid => exact tryCommitOv_busy p.mem oid hb'
        | rollback n =>
          simp only [specCall] at hb' ⊢
          exact rollback_not_ok H p.mem n (by rw [hb']; decide)
      have h4 := href.disk
      have h5 := href.poisoned
      cases hst : (runCall H E p c).st with
      | mk mem poisoned disk =>
        rw [hst] at h2 h4 h5
        simp only at h2 h4 h5
        rw [h2, h4, h5, hm]
    · exact h3
  · intro hl
    rcases href.spec with h | ⟨h, _, _⟩
    · exact h
    · rw [hl] at h; cases h

/-- non-vacuity: stale base (both flavours, session and overlay), child overlay before its parent, sessions alive, rollback
beyond the log -/
example : (runCall Ex.HN {} Ex.p0 (.commit 2)).res = .err ∧ noEffect (runCall Ex.HN {} Ex.p0 (.commit 2)).trace = true ∧
    (runCall Ex.HN {} Ex.p0 (.tryCommit 2)).res = .err ∧ (runCall Ex.HN {} Ex.p0 (.ocommit 12)).res = .err ∧
    (runCall Ex.HN {} Ex.p0 (.ocommit 11)).trace = [.markerCheck false] ∧
    (runCall Ex.HN {} Ex.pBusy (.tryCommit 1)).res = .busy ∧ (runCall Ex.HN {} Ex.pBusy (.otryCommit 10)).res = .busy ∧
    (runCall Ex.HN {} Ex.p0 (.rollback 2)).res = .err ∧
    (runCall Ex.HN { rbLockFree := false } Ex.p0 (.tryCommit 1)).res = .busy := by decide

/-! ### sharpness: the pre-repair orders violate the theorem (kernel-checked) -/

/-- **F1** (`try_commit_nonblocking` appended the delta BEFORE the root check): a stale changeset is refused — `Err`, nothing
failed — but its trace contains the append and the push, and the in-memory rollback log has grown: the next `rollback(1)` would
pop this delta instead of undoing the last real commit -/
example :
    let E : Env := { Q := { rbBeforeRootCheck := true } }
    (runCall Ex.HN E Ex.p0 (.tryCommit 2)).res = .err ∧ noFail (runCall Ex.HN E Ex.p0 (.tryCommit 2)).trace = true ∧
    noEffect (runCall Ex.HN E Ex.p0 (.tryCommit 2)).trace = false ∧
    (runCall Ex.HN E Ex.p0 (.tryCommit 2)).st.mem.log.length = 2 ∧ Ex.p0.mem.log.length = 1 ∧
    -- the code as it is
    (runCall Ex.HN {} Ex.p0 (.tryCommit 2)).st.mem.log.length = 1 := by decide

/-- **F6** (`Overlay::commit` called `mark_committed` BEFORE the root check): a stale overlay is refused — `Err`, nothing
failed — but it is flagged committed -/
example :
    let E : Env := { Q := { markBeforeRootCheck := true } }
    (runCall Ex.HN E Ex.p0 (.ocommit 12)).res = .err ∧ noFail (runCall Ex.HN E Ex.p0 (.ocommit 12)).trace = true ∧
    noEffect (runCall Ex.HN E Ex.p0 (.ocommit 12)).trace = false ∧
    ((runCall Ex.HN E Ex.p0 (.ocommit 12)).st.mem.ovs.map (fun o => (o.id, o.committed))) = [(10, false), (11, false), (12, true)] ∧
    ((runCall Ex.HN {} Ex.p0 (.ocommit 12)).st.mem.ovs.map (fun o => (o.id, o.committed))) = [(10, false), (11, false), (12, false)] ∧
    -- the same through the non-blocking entry point
    ((runCall Ex.HN E Ex.p0 (.otryCommit 12)).st.mem.ovs.map (fun o => (o.id, o.committed))) = [(10, false), (11, false), (12, true)] := by
  decide

end Nomt.C12
