import NomtModel.Props.C05_Seeker
import NomtModel.Store.SeekerMutants
/-!
# C05 / C13 — kernel-checked counterexamples for three one-line changes of the `Seeker`

Each theorem runs the mirror and ONE changed copy (`Store/SeekerMutants.lean`) on the same calls in the `OK` world `skW`
(`Props/C05_Seek.lean`) and shows where the changed one leaves a request behind resp. breaks the push order.
-/
namespace Nomt.C05
open Nomt Nomt.Ovl Nomt.TriePos Nomt.Seek Nomt.Seeker

/-- the root page is found at the first probe -/
def skHt0 : Ht := { probes := fun p => if p = [] then [9] else [], label := fun b => if b = 9 then some [] else none }

def bindO {α β : Type} (o : Outcome Unit α) (f : α → Outcome Unit β) : Outcome Unit β :=
  match o with | .ok a => f a | .panic m => .panic m | .err e => .err e

/-- completed flags of the live requests, waiter lists, `idle_requests`, reads in flight -/
structure MShape where
  done : List Bool
  waiters : List (List Nat)
  idleReqs : List Nat
  inflight : List Nat
deriving DecidableEq, Repr

def muxShape (o : Outcome Unit (Mux T Nat Nat)) : Option MShape :=
  match o with
  | .ok m => some ⟨m.reqs.map (·.isCompleted), m.waiters.map (·.2), m.idleReqs, m.inflight.map (·.1)⟩
  | _ => none

/-- two keys that need the same page (cold cache): push both, `submit_all`, the page arrives, `submit_all`, the leaf
arrives, `submit_all` -/
def runJoin (append : Bool) : Outcome Unit (Mux T Nat Nat) :=
  bindO (Seeker.push skEnv { maxInflight := 4 } skB) fun m =>
  bindO (Seeker.push skEnv m skA) fun m =>
  bindO (submitAllX append skEnv skHt0 m) fun m =>
  bindO (recv skEnv skHt0 m 0) fun m =>
  bindO (submitAllX append skEnv skHt0 m) fun m =>
  bindO (recv skEnv skHt0 m 0) fun m =>
  submitAllX append skEnv skHt0 m

/-- **waiter list replaced instead of appended** (`*occupied.get_mut() = vec![request_index]`): the first request
is dropped from the waiter list of the root page when the second one joins; the page is delivered to the second only;
the first is on no waiter list, not in the idle queue, nothing is in flight — it never completes, and since
completions leave in push order nothing is ever handed out.  The unchanged `Seeker` completes both. -/
theorem T5_seeker_waiters_replaced_counterexample :
    muxShape (runJoin true) = some ⟨[true, true], [], [], []⟩ ∧
    muxShape (runJoin false) = some ⟨[false, true], [], [], []⟩ ∧
    (match runJoin false with | .ok m => (takeCompletion m).2.isNone | _ => false) = true := by decide +kernel

/-- one key over a cold cache: push, `submit_all`, the root page arrives, `submit_all` -/
def runRequeue (requeue : Bool) : Outcome Unit (Mux T Nat Nat) :=
  bindO (Seeker.push skEnv { maxInflight := 4 } skB) fun m =>
  bindO (submitAll skEnv skHt0 m) fun m =>
  bindO (recvPageX requeue skEnv m 0) fun m =>
  submitAll skEnv skHt0 m

/-- **idle request not resubmitted after its page arrived** (`idle_requests.push_back(waiting_request)` dropped from
`handle_merkle_page_and_continue`): after the root page the request must still fetch its b-tree leaf; the unchanged
seeker re-queues it and the next `submit_all` starts the leaf read; the changed one leaves it nowhere — not completed,
no waiter list, idle queue empty, nothing in flight: a stall. -/
theorem T5_seeker_no_requeue_counterexample :
    muxShape (runRequeue true) = some ⟨[false], [[0]], [], [0]⟩ ∧
    muxShape (runRequeue false) = some ⟨[false], [], [], []⟩ := by decide +kernel

/-- two b-tree leaves; the root page is in the page cache, the first leaf in the leaf cache -/
def skEnv2 : Env T Nat Nat := { skEnv with leaves := [⟨skA, [(skA, 1)]⟩, ⟨skB, [(skB, 2)]⟩] }

/-- push `skB` (needs the second leaf: a read), push `skA` (everything cached), `submit_all` -/
def runOrder : Outcome Unit (Mux T Nat Nat) :=
  bindO (Seeker.push skEnv2 { maxInflight := 4, cache := [([], skRoot)], leafCache := [0] } skB) fun m =>
  bindO (Seeker.push skEnv2 m skA) fun m =>
  submitAll skEnv2 skHt0 m

/-- **completion delivered out of order** (`take_completion` looking for any completed request): the second request
completes first; the unchanged `take_completion` waits (`None`: the front request still reads its leaf), the changed
one hands out the second key — `RangeUpdater::update` would apply it to `read_write[start_index]`, the FIRST key. -/
theorem T5_seeker_take_any_counterexample :
    muxShape runOrder = some ⟨[false, true], [[0]], [], [0]⟩ ∧
    (match runOrder with
     | .ok m => ((takeCompletion m).2.map (·.key) = none ∧ (takeAny m).2.map (·.key) = some skA) | _ => False) := by
  refine ⟨by decide +kernel, ?_⟩
  have h : (match runOrder with
     | .ok m => decide ((takeCompletion m).2.map (·.key) = none ∧ (takeAny m).2.map (·.key) = some skA) | _ => false) = true := by
    decide +kernel
  revert h
  cases runOrder <;> simp

end Nomt.C05
