import NomtModel.Api.HasherKinds
/-!
# C13 (… "and hasher"): the model is generic in the hasher; both production instances are tied to the code

Every theorem of `Props/C02 … C08, C18` is stated for an arbitrary `Hasher` under `Hasher.Sound`; the drivers
instantiate the SAME definitions at `blakeHasher` and (driver mode `hasher`) at `shaHasher`, and the `hasher`
correspondence run executes one history on `Nomt<Blake3Hasher>` and on `Nomt<Sha2Hasher>`.  What can be proved about
the instances without a cryptographic assumption is proved here: both are `BinaryHasher<D>` for a 32-byte digest `D`,
and for EVERY 32-byte digest function the MSB labelling gives the kind clauses of `Sound`; `Sound` itself follows from
exactly three statements about the digest (no cleared internal digest is all-zero; leaf and internal preimages do not
collide).
-/
namespace Nomt.C13
open Nomt

/-- `BinaryHasher<D>` of `core/src/hasher.rs` for a digest function `D` -/
def binHasher (D : ByteArray → ByteArray) : Hasher ByteArray ByteArray where
  term := zeros32
  leaf := fun k v => setMsb (D (bytesOfBits k ++ v))
  internal := fun l r => unsetMsb (D (l ++ r))
  kind := kindByMsb

/-- **T13.h1** the two production hashers are the SAME construction over two digests — nothing else differs between
`Nomt<Blake3Hasher>` and `Nomt<Sha2Hasher>` in the model -/
theorem T13_hashers_are_binary_hashers :
    blakeHasher = binHasher Blake3.hash ∧ shaHasher = binHasher Sha256.hash := ⟨rfl, rfl⟩

/-- **T13.h2** both digests are 32 bytes long for every input -/
theorem T13_digest_sizes (b : ByteArray) : (Blake3.hash b).size = 32 ∧ (Sha256.hash b).size = 32 :=
  ⟨Blake3.size_hash b, Sha256.size_hash b⟩

/-- **T13.h3** domain separation by the most significant bit, for EVERY digest function with non-empty output: a leaf
hash is classified `Leaf`, an internal hash never is, the all-zero node is the terminator -/
theorem T13_msb_domain_separation (D : ByteArray → ByteArray) (hD : ∀ b, 0 < (D b).size) :
    (∀ k v, (binHasher D).kind ((binHasher D).leaf k v) = .leaf) ∧
    (∀ l r, (binHasher D).kind ((binHasher D).internal l r) ≠ .leaf) ∧
    (binHasher D).kind (binHasher D).term = .terminator :=
  ⟨fun k v => kind_setMsb _ (hD _), fun l r => kind_unsetMsb _ (hD _), by simp only [binHasher]; exact kind_zeros32⟩

/-- **T13.h4** `Hasher.Sound` for `BinaryHasher<D>` follows from exactly three statements about the digest `D` — the
cryptographic assumptions of the C02 / C05 / C06 / C07 / C08 / C18 theorems, spelled out: (a) no internal digest is
all-zero once its MSB is cleared, (b) leaf preimages do not collide, (c) internal preimages do not collide -/
theorem T13_sound_of_digest_assumptions (D : ByteArray → ByteArray) (hD : ∀ b, 0 < (D b).size)
    (hzero : ∀ l r, unsetMsb (D (l ++ r)) ≠ zeros32)
    (hleaf : ∀ k v k' v', setMsb (D (bytesOfBits k ++ v)) = setMsb (D (bytesOfBits k' ++ v')) → k = k' ∧ v = v')
    (hint : ∀ l r l' r', unsetMsb (D (l ++ r)) = unsetMsb (D (l' ++ r')) → l = l' ∧ r = r') :
    (binHasher D).Sound where
  kind_term := by simp only [binHasher]; exact kind_zeros32
  kind_leaf := fun k v => kind_setMsb _ (hD _)
  kind_internal := fun l r => by
    have h1 := kind_unsetMsb (D (l ++ r)) (hD _)
    have h2 := hzero l r
    show kindByMsb (unsetMsb (D (l ++ r))) = .internal
    unfold kindByMsb at h1 ⊢
    split
    · rename_i h; simp [h] at h1
    · split
      · rename_i h; exact absurd (ByteArray.eq_of_beq' h) h2
      · rfl
  term_only := fun n h => by
    show n = zeros32
    unfold binHasher kindByMsb at h
    simp only at h
    split at h
    · cases h
    · split at h
      · rename_i h'; exact ByteArray.eq_of_beq' h'
      · cases h
  leaf_inj := hleaf
  internal_inj := hint

/-- non-vacuity: both production digests meet the size hypothesis of T13.h3 / T13.h4 -/
example : (∀ b, 0 < (Blake3.hash b).size) ∧ (∀ b, 0 < (Sha256.hash b).size) :=
  ⟨fun b => by rw [Blake3.size_hash]; decide, fun b => by rw [Sha256.size_hash]; decide⟩

end Nomt.C13
