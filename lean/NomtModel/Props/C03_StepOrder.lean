import NomtModel.Store.StepOrderCheck
/-!
# C03 (topic: the order of the steps of `bitbox::recover`, read off the current Rust text)
-/
namespace Nomt.C03
open Nomt.GenOrder N

/-- T3.order `bitbox::recover`: a WAL of another sequence number is dropped at once; otherwise every entry is re-applied (bucket page read, diff applied, page
written; meta pages written), the table is FSYNCED, and only then the WAL is truncated (defect F17: the fsync was missing) -/
theorem T3_order_recover :
    names bitbox_recover = [wal_open, seqn_check, wal_truncate, early_return, read_entry, set_tombstone, set_full, read_bucket_page, apply_diff, ht_write, ht_write,
      ht_fsync, wal_truncate] ∧
    allBefore ht_write ht_fsync bitbox_recover = true ∧ allFallible ht_fsync bitbox_recover = true ∧ allFallible ht_write bitbox_recover = true ∧
    allFallible wal_truncate bitbox_recover = true ∧ allFallible read_entry bitbox_recover = true := by decide

end Nomt.C03
