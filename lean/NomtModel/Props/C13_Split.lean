import NomtModel.Api.SplitCanon
import NomtModel.Api.SplitRoot
import NomtModel.Api.SplitPending2
import NomtModel.Api.SplitExample
/-!
# C13 (topic: work splitting) — how one merkle update is split across the commit workers

`Updater::update_and_prove` hands the SAME sorted operation list to `commit_concurrency` workers; each
(`RangeUpdater::new`) takes the index range of the operations whose first six key bits fall into its region of
`shard_regions n` and walks it batch by batch (`handle_completion`: a batch = the operations under one terminal of
the prior trie).  A batch whose terminal straddles a worker boundary is handled by the worker in whose range it
STARTS, which runs past its own `range_end`; the worker on the right recognises it (`batch_starts_in_our_range`) and
skips it.  The last worker replays the deferred root-page terminals and the child-page roots the workers reported on
the root page.

The mirror (`Api/Split.lean`) is proved against its specification for every worker count `1 … 64`, every operation
list and every prior state: consecutive ranges (from T13.1), **ownership is a partition, monotone in key order**,
no panic site is reached, and the **root composition** gives `nodeAt` of the updated set — a statement in which the
worker count does not occur.  The trie work inside a worker (seek, `page_walker`) is specification-level; the
`shards` differential (hook H9) compares ranges, batches, owners, `witnessed_start`, the pending list, the
child-page roots and the root with the real workers.
-/
namespace Nomt.C13
open Nomt Nomt.Api Nomt.Split
variable {Node VH : Type} [DecidableEq Node] [DecidableEq VH]

/-- T13.2 **the workers' index ranges are consecutive and cover the operation list**, for every worker count
`n ∈ 1…64` (a consequence of the region table T13.1 and of the bit-level form of `min_key_path` / `max_key_path`):
worker 0 starts at 0, worker `i` stops where worker `i+1` starts, the last worker stops at the end, and
`range_start ≤ range_end` (so `start_index < range_end` is a meaningful loop guard). -/
theorem T13_2_worker_ranges_consecutive (L n : Nat) (ops : List (Op VH)) (hlen : ∀ o ∈ ops, o.1.length = L)
    (hL : 6 ≤ L) (h1 : 1 ≤ n) (h64 : n ≤ 64) :
    rangeStart L n 0 ops = 0 ∧ rangeEnd L n (n-1) ops = ops.length ∧
    (∀ i, i + 1 < n → rangeEnd L n i ops = rangeStart L n (i+1) ops) ∧
    (∀ i, i < n → rangeStart L n i ops ≤ rangeEnd L n i ops) :=
  ⟨rangeStart_zero L n ops hlen hL h1 h64, rangeEnd_last L n ops hlen hL h1 h64,
   fun i hi => rangeEnd_eq_next L n ops hlen hL h1 h64 i hi,
   fun i hi => rangeStart_le_rangeEnd L n ops hlen hL h1 h64 i hi⟩

/-- T13.2b comparing a key with the key-path bounds of a region is comparing its first six bits with the child
indices (`PageId::min_key_path` / `max_key_path` of the maximal descendant). -/
theorem T13_2b_key_bounds (L c : Nat) (k : Key) (hk : k.length = L) (hL : 6 ≤ L) (hc : c < 64) :
    bitsLt k (minKeyPath L c) = decide (childOf k < c) ∧ bitsLt (maxKeyPath L c) k = decide (c < childOf k) :=
  ⟨lt_minKeyPath L c k hk hL hc, maxKeyPath_lt L c k hk hL hc⟩

/-- T13.3 **one worker = its specification.**  Worker `i` of `n` reaches no panic site (`read_write[next_push]`,
`min(pushes, batch_size) - 1` with an empty batch, the `fuel` of the mirror) and the batches it OWNS are exactly the
runs of terminal positions that START in its index range `[bound i, bound (i+1))` — each ending at the next run
start, possibly beyond `range_end`; the only completion it handles without owning it is the first one of its range
when that run started further left. -/
theorem T13_3_worker_is_spec (L n : Nat) (prover : Key → PathProof Node VH) (ops : List (Op VH))
    (T : TermFn L (tpOf prover)) (hlen : ∀ o ∈ ops, o.1.length = L) (hL : 6 ≤ L) (h1 : 1 ≤ n) (h64 : n ≤ 64)
    (i : Nat) (hi : i < n) :
    ∃ bs, runWorker L n i (tpOf prover) ops = some bs ∧
      (bs.filter (·.owned)).map (fun b => (b.start, b.next)) = ownedRuns L n prover ops i ∧
      (∀ b ∈ bs.filter (·.owned), (∃ o, ops[b.start]? = some o ∧ b.pos = tpOf prover o.1) ∧
        b.nonExcl = !exclusivePage n i b.pos) ∧
      (∀ b ∈ bs, b.owned = false → b.start = bound L n ops i ∧
        runStart (terms (tpOf prover) ops) (bound L n ops i) = false) :=
  runWorker_spec L n prover ops T hlen hL h1 h64 i hi

/-- T13.4 **ownership is a partition.**  No worker panics, and the batches owned by the workers `0 … n-1`,
concatenated in worker order, are exactly the batches (runs of terminal positions) of the whole operation list, in
key order: nothing is handled twice, nothing is dropped. -/
theorem T13_4_ownership_partition (L n : Nat) (prover : Key → PathProof Node VH) (ops : List (Op VH))
    (T : TermFn L (tpOf prover)) (hlen : ∀ o ∈ ops, o.1.length = L) (hL : 6 ≤ L) (h1 : 1 ≤ n) (h64 : n ≤ 64) :
    (∃ bss, runWorkers L n (tpOf prover) ops = some bss ∧ bss.length = n) ∧
    ((List.range n).flatMap fun i => ownedRuns L n prover ops i) = allRuns (terms (tpOf prover) ops) :=
  ⟨⟨_, runWorkers_spec L n prover ops T hlen hL h1 h64, by simp⟩,
   owned_concat L n prover ops T hlen hL h1 h64⟩

/-- T13.4b **every batch has exactly one owner**, the worker whose index range holds the batch's first operation. -/
theorem T13_4b_exactly_one_owner (L n : Nat) (prover : Key → PathProof Node VH) (ops : List (Op VH))
    (T : TermFn L (tpOf prover)) (hlen : ∀ o ∈ ops, o.1.length = L) (hL : 6 ≤ L) (h1 : 1 ≤ n) (h64 : n ≤ 64)
    (r : Nat × Nat) (hr : r ∈ allRuns (terms (tpOf prover) ops)) :
    ∃ i, i < n ∧ r ∈ ownedRuns L n prover ops i ∧
      (bound L n ops i ≤ r.1 ∧ r.1 < bound L n ops (i+1)) ∧
      ∀ j, j < n → r ∈ ownedRuns L n prover ops j → j = i := by
  rw [← owned_concat L n prover ops T hlen hL h1 h64] at hr
  obtain ⟨i, hi, hri⟩ := List.mem_flatMap.mp hr
  have hin := List.mem_range.mp hi
  have rng := ownedRuns_range L n prover ops hlen hL h1 h64 i r hri
  exact ⟨i, hin, hri, ⟨rng.1, rng.2.1⟩, fun j hj hrj => owner_unique L n prover ops hlen hL h1 h64 j i hj hin r hrj hri⟩

/-- T13.4c **ownership is monotone in key order**: all batches of worker `i` end before any batch of a worker
`j > i` starts. -/
theorem T13_4c_ownership_monotone (L n : Nat) (prover : Key → PathProof Node VH) (ops : List (Op VH))
    (hlen : ∀ o ∈ ops, o.1.length = L) (hL : 6 ≤ L) (h1 : 1 ≤ n) (h64 : n ≤ 64)
    (i j : Nat) (hij : i < j) (hj : j < n) (a b : Nat × Nat)
    (ha : a ∈ ownedRuns L n prover ops i) (hb : b ∈ ownedRuns L n prover ops j) : a.2 ≤ b.1 :=
  owner_monotone L n prover ops hlen hL h1 h64 i j hij hj a b ha hb

/-- T13.4d the terminal positions of the reference trie are what the splitting needs (`TermFn`): a prefix of the
key, and the same for every key below it. -/
theorem T13_4d_reference_terminals (H : Hasher Node VH) (hs : H.Sound) (L : Nat) (view : KVL VH) (hc : Canon L 0 view) :
    TermFn L (tpOf (proveSpec H L view)) := termFn_spec H hs L view hc

/-- T13.5a **`compact_step` is the specification of an inner node**: compacting / hashing the two specified
children of a position gives the specified node of the position (two terminators ↦ terminator, a leaf and a
terminator ↦ the leaf moves up, otherwise the internal hash). -/
theorem T13_5a_compaction (H : Hasher Node VH) (hs : H.Sound) (f d : Nat) (s : List (Key × VH)) (hc : Canon (f+1) d s) :
    combine H (nodeAt H f (d+1) (side d false s)) (nodeAt H f (d+1) (side d true s)) = nodeAt H (f+1) d s :=
  combine_nodeAt H hs f d s hc

/-- T13.5 **root composition.**  Let `pend` be any root-page pending list such that every child-page root in it is
the node of the updated set at its position, every deferred terminal carries exactly the written operations below
it, every written key lies below some entry, and no entry is deeper than the root page.  Then placing / replacing
them in the root page and hashing up (`composeRoot`, the root-page pass of the last worker) gives
`nodeAt` of `kvApply view writes` — the root of C02.  The worker count does not occur: this is "for every number of
commit workers" for roots (the `shards` differential checks, for the real workers with 1 … 64 threads, that their
pending list is such a list: `pending`, `croots` and `root` lines). -/
theorem T13_5_root_composition (H : Hasher Node VH) (hs : H.Sound) (L : Nat) (old : KVL VH)
    (hlen : ∀ kv ∈ old, kv.1.length = L) (hsorted : old.Pairwise KeyLt)
    (ops : List (Op VH)) (hopslen : ∀ o ∈ ops, o.1.length = L) (hops : ops.Pairwise KeyLt)
    (pend : List (List Bool × Pend Node))
    (hnode : ∀ p n, (p, Pend.node n) ∈ pend → n = nodeAt H (L - p.length) p.length (under p (kvApply old (subtrieOps ops))))
    (hsub : ∀ p s e, (p, Pend.subtrie s e) ∈ pend → subtrieOps ((ops.drop s).take (e - s)) = under p (subtrieOps ops))
    (hcover : ∀ w ∈ subtrieOps ops, ∃ x ∈ pend, x.1 <+: w.1)
    (hdepth : ∀ x ∈ pend, x.1.length ≤ 6) (hL : 6 ≤ L) :
    composeRoot H L old ops pend = nodeAt H L 0 (kvApply old (subtrieOps ops)) :=
  composeRoot_spec H hs L old hlen hsorted ops hopslen hops pend hnode hsub hcover hdepth hL

/-- T13.6 **the root does not depend on the number of commit workers.**  For EVERY worker count `n ∈ 1…64`, every
sorted prior state and every key-sorted batch of `L`-bit keys (`L ≥ 6`): run the `n` workers (T13.3: no panic),
collect what they push to `root_page_pending` — the deferred root-page terminals of their owned batches and the roots
of the child pages they wrote, the latter as specified (`specNode` = `nodeAt` of the updated set, what the
`croots` line of the differential compares with the real page walkers) — and let the last worker replay the list on
the root page: the result is `nodeAt` of `kvApply view writes`, the root of C02 / T2.1, the same for all `n`.
(Uses T13.4: every batch has an owner, so every written key lies below an entry; sorted keys: a batch holds ALL
writes below its terminal; `range_spec`: an owned batch deeper than the root page lies in the worker's own region.) -/
theorem T13_6_root_independent_of_workers (H : Hasher Node VH) (hs : H.Sound) (L : Nat) (view : KVL VH)
    (hvlen : ∀ kv ∈ view, kv.1.length = L) (hsorted : view.Pairwise KeyLt) (n : Nat) (ops : List (Op VH))
    (hlen : ∀ o ∈ ops, o.1.length = L) (hsort : ops.Pairwise KeyLt) (hL : 6 ≤ L) (h1 : 1 ≤ n) (h64 : n ≤ 64) :
    composeRoot H L view ops
      (pendingOf (specNode H L view ops) ((runWorkers L n (tpOf (proveSpec H L view)) ops).getD []))
      = nodeAt H L 0 (kvApply view (subtrieOps ops)) :=
  root_of_workers H hs L view hvlen hsorted n ops hlen hsort hL h1 h64

/-- T13.6b on a key-sorted list the index range of worker `i` holds only operations whose first six key bits lie in
the worker's region (so an owned batch below the root page lives in a page the worker has exclusive access to). -/
theorem T13_6b_range_is_region (L n : Nat) (ops : List (Op VH)) (hlen : ∀ o ∈ ops, o.1.length = L) (hL : 6 ≤ L)
    (h1 : 1 ≤ n) (h64 : n ≤ 64) (hsort : ops.Pairwise KeyLt) (i : Nat) (hi : i < n) (j : Nat) (o : Op VH)
    (hj1 : bound L n ops i ≤ j) (hj2 : j < bound L n ops (i+1)) (ho : ops[j]? = some o) :
    firstChild n i ≤ childOf o.1 ∧ childOf o.1 ≤ lastChild n i :=
  range_spec L n ops hlen hL h1 h64 hsort i hi j o hj1 hj2 ho

/-! ### the instance of `Api/SplitExample.lean` -/
open Nomt.Split.Ex

/-- non-vacuity of T13.3 / T13.4: three workers, the batch `[0,2)` under the depth-1 terminal `0` straddles the
boundary between worker 0 (range `[0,1)`) and worker 1 (range `[1,3)`): worker 0 owns it, worker 1 skips it -/
example : bss.map (fun bs => bs.map fun b => (b.start, b.next, b.owned, b.nonExcl, b.hasWrites)) =
    [ [(0, 2, true, true, true)],
      [(1, 2, false, false, true), (2, 3, true, true, true)],
      [(3, 4, true, true, true)] ] := by decide

example : TermFn 8 (tpOf Ex.prover) :=
  T13_4d_reference_terminals TH TH_sound 8 Ex.view (by simp [Ex.view, Canon, side, k11000000, k11100000])

/-- non-vacuity of T13.5: the pending list of the instance (three deferred root-page terminals) composes to the
root of the updated set -/
example : pendingOf (fun _ => T.term) bss = [([false], Pend.subtrie 0 2), ([true, false], Pend.subtrie 2 3),
      ([true, true, false], Pend.subtrie 3 4)] ∧
    composeRoot TH 8 Ex.view Ex.ops (pendingOf (fun _ => T.term) bss)
      = nodeAt TH 8 0 (kvApply Ex.view (subtrieOps Ex.ops)) := by decide

/-- non-vacuity of T13.6: its hypotheses hold for the instance, for 1, 3 and 64 workers -/
example : ∀ n ∈ [1, 3, 64], composeRoot TH 8 Ex.view Ex.ops
      (pendingOf (specNode TH 8 Ex.view Ex.ops) ((runWorkers 8 n (tpOf (proveSpec TH 8 Ex.view)) Ex.ops).getD []))
      = nodeAt TH 8 0 (kvApply Ex.view (subtrieOps Ex.ops)) := by
  intro n hn
  have h : 1 ≤ n ∧ n ≤ 64 := by
    simp only [List.mem_cons, List.mem_nil_iff, or_false] at hn
    rcases hn with rfl | rfl | rfl <;> omega
  exact T13_6_root_independent_of_workers TH TH_sound 8 Ex.view (by decide) (by decide) n Ex.ops (by decide) (by decide)
    (by decide) h.1 h.2

end Nomt.C13
