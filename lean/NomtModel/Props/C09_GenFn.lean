import NomtModel.Store.GenFnCheck2
/-!
# C09 (topic: translated functions — record ids of the rollback log, `seglog/mod.rs`)
-/
namespace Nomt.C09
open Nomt

/-- T9.fn `RecordId::{next, prev, is_nil}` of the CURRENT source: ids count upwards from 1, `0` is nil and has no predecessor
(`prev` never panics; `next` overflows only at `u64::MAX`) -/
theorem T9_fn_record_id (r : Nat) (h : r < 2 ^ 64 - 1) :
    GenFn.record_id_next r = some (r + 1) ∧ GenFn.record_id_prev r = some (if r = 0 then none else some (r - 1)) ∧
    GenFn.record_id_is_nil r = some (decide (r = 0)) :=
  ⟨(GenFnCheck.record_id_eq r h).1, (GenFnCheck.record_id_eq r h).2.1, (GenFnCheck.record_id_eq r h).2.2.1⟩

example : GenFn.record_id_prev 0 = some none ∧ GenFn.record_id_prev 5 = some (some 4) ∧ GenFn.record_id_next (2 ^ 64 - 1) = none := by decide

end Nomt.C09
