import NomtModel.Core.MultiFind
import NomtModel.Core.MultiHonest
import NomtModel.Core.TermHasher
/-!
# C07 — completeness of `find_index_for`; the multi-proof answers every query as the path proofs do

`Props/C07.lean` (T7.2a–c) says that an index *returned* by `VerifiedMultiProof::find_index_for`
(multi_proof.rs:305) names the unique verified path covering the key.  This file proves the converse,
which T7.2 left to the differential run:

* **T7.2d** on a multi-proof accepted by `verify`, a key covered by the verified path at index `i` IS found,
  at `i` — `find_index_for` never answers `KeyOutOfScope` for a covered key.  The proof goes through the
  mirrored branch-free `slice::binary_search_by` of the toolchain (`binarySearchBy_sorted_found`) and needs
  both invariants of an accepted multi-proof: routes strictly ascending AND prefix-free
  (`PTree.vpaths_sorted`), which make the comparison closure `Less … Less, Equal, Greater … Greater`.
* **T7.2e** the three possible answers characterised (`Ok(i)` iff path `i` covers, `KeyOutOfScope` iff no
  path covers, never a panic).
* **T7.2f / T7.2g** `confirm_value` / `confirm_nonexistence` through the multi-proof answer exactly like the
  individually verified path proof (`PathProof::verify` + `VerifiedPathProof::confirm_*`) of the covering
  path, and `KeyOutOfScope` exactly when every individual path proof says `KeyOutOfScope`.
* **T7.2h** the same for the honest bundle: `from_path_proofs` of the specified path proofs of `ks`.
-/
namespace Nomt.C07
open Nomt
variable {Node VH : Type} [DecidableEq Node] [DecidableEq VH] (H : Hasher Node VH)

/-- T7.2d **completeness of `find_index_for`.**  `mp` ANY proof object accepted by `verify` against ANY
root; `key` at least as long as every verified depth (every 256-bit key is: `depth ≤ |path()| ≤ 256`, see
T7.2dr for the form without this hypothesis).  If the verified path at index `i` covers the key
(`path()[..depth] == key[..depth]`, the `in_scope` test of the `…_with_index` functions), then
`find_index_for(key)` returns `Ok(i)` — the binary search by `path()[..depth].cmp(key[..depth])` cannot
miss it and cannot land on another path. -/
theorem T7_2d_find_index_complete (mp : MultiProof Node VH) (root : Node) (v : VerifiedMulti Node VH)
    (hv : verifyMulti H mp root = .ok v) (key : Key) (hk : ∀ vp ∈ v.inner, vp.depth ≤ key.length)
    (i : Nat) (vi : VPath VH) (hi : v.inner[i]? = some vi) (hc : vi.covers key) :
    findIndexFor v key = .ok i :=
  findIndexFor_complete H mp root v hv key hk i vi hi hc

/-- every verified depth of a multi-proof accepted against the root of a canonical set of `L`-bit keys is
`≤ L` (needs `Sound`: a longer hash chain cannot end in the specified root) -/
theorem depth_le_of_verified (hs : H.Sound) (L : Nat) (S : List (Key × VH)) (hc : Canon L 0 S)
    (mp : MultiProof Node VH) (v : VerifiedMulti Node VH)
    (hv : verifyMulti H mp (nodeAt H L 0 S) = .ok v) : ∀ vp ∈ v.inner, vp.depth ≤ L := by
  intro vp hvp
  have hal := verifyMulti_aligned H mp _ v hv vp hvp
  obtain ⟨hlen, _⟩ := verifyMulti_routes H hs L S hc mp v hv vp hvp
  have hal' : vp.route = vp.terminal.path.take vp.depth := hal
  rw [hal'] at hlen
  obtain ⟨_, r, hr, _, _, hinner, _⟩ := verifyMulti_ok H mp _ v hv
  have hd := verifyRange_vdepths H _ _ _ _ _ _ r hr vp (hinner ▸ hvp)
  rw [List.length_take] at hlen
  omega

/-- T7.2dr the same against the root of a canonical set `S` of `L`-bit keys (`L` = 256 in the code), for
every `L`-bit key: no side condition on lengths is left. -/
theorem T7_2dr_find_index_complete_root (hs : H.Sound) (L : Nat) (S : List (Key × VH)) (hc : Canon L 0 S)
    (mp : MultiProof Node VH) (v : VerifiedMulti Node VH)
    (hv : verifyMulti H mp (nodeAt H L 0 S) = .ok v) (key : Key) (hkl : key.length = L)
    (i : Nat) (vi : VPath VH) (hi : v.inner[i]? = some vi)
    (hc' : vi.terminal.path.take vi.depth = key.take vi.depth) :
    findIndexFor v key = .ok i := by
  have hd := depth_le_of_verified H hs L S hc mp v hv
  obtain ⟨_, r, hr, _, _, hinner, _⟩ := verifyMulti_ok H mp _ v hv
  have hvi := List.mem_of_getElem? hi
  have hdp := verifyRange_vdepths H _ _ _ _ _ _ r hr vi (hinner ▸ hvi)
  exact findIndexFor_complete H mp _ v hv key (fun vp hvp => by rw [hkl]; exact hd vp hvp) i vi hi
    ⟨hdp, by rw [hkl]; exact hd vi hvi, hc'⟩

/-- T7.2e **the answer of `find_index_for`, characterised**: on an accepted multi-proof and a key at least
as long as every verified depth it is `Ok(i)` iff the verified path at `i` covers the key,
`Err(KeyOutOfScope)` iff NO verified path covers the key, and never a panic. -/
theorem T7_2e_find_index_iff (mp : MultiProof Node VH) (root : Node) (v : VerifiedMulti Node VH)
    (hv : verifyMulti H mp root = .ok v) (key : Key) (hk : ∀ vp ∈ v.inner, vp.depth ≤ key.length) :
    (∀ i, findIndexFor v key = .ok i ↔ ∃ vi, v.inner[i]? = some vi ∧ vi.covers key) ∧
    (findIndexFor v key = .err .keyOutOfScope ↔ ∀ vp ∈ v.inner, ¬ vp.covers key) ∧
    (findIndexFor v key).isPanic = false :=
  ⟨findIndexFor_eq_ok_iff H mp root v hv key hk, findIndexFor_err_iff H mp root v hv key hk,
   findIndexFor_no_panic H mp root v hv key hk⟩

/-! ### the multi-proof answers like the individual path proofs -/

/-- the answer of `VerifiedPathProof::confirm_*` (`None` = `KeyOutOfScope`) in the result type of the
multi-proof functions -/
def ofPathAnswer : Option Bool → Outcome KeyOutOfScope Bool
  | some b => .ok b
  | none => .err .keyOutOfScope

/-- `w` is an individually verified path proof for the verified multi-path `vp`: hashed along the same
bits (`path()[..depth]`) from the same terminal.  (This is what `PathProof::verify` returns for the path
proof of that terminal: T7.4b reconstructs such a path proof for every path of any accepted multi-proof,
T7.2h gives it for the honest bundle.) -/
def SamePath (w : Verified Node VH) (vp : VPath VH) : Prop :=
  w.path = vp.terminal.path.take vp.depth ∧ w.terminal = vp.terminal.asLeaf

theorem inScope_iff_covers (w : Verified Node VH) (vp : VPath VH) (hw : SamePath w vp) (key : Key)
    (h1 : vp.depth ≤ vp.terminal.path.length) (h2 : vp.depth ≤ key.length) :
    w.inScope key = true ↔ vp.covers key := by
  have hlen : w.path.length = vp.depth := by rw [hw.1, List.length_take]; omega
  simp only [Verified.inScope, beq_iff_eq, hlen, VPath.covers]
  rw [hw.1]
  exact ⟨fun h => ⟨h1, h2, h⟩, fun h => h.2.2⟩

/-- T7.2f **`confirm_value` / `confirm_nonexistence` through the multi-proof = through the path proof.**
On an accepted multi-proof: if `w` is the individually verified path proof of the verified path at index
`i` and the key is in scope of `w` (`VerifiedPathProof::in_scope`), then both confirmations through the
multi-proof return exactly what `w.confirm_value` / `w.confirm_nonexistence` return (in particular never
`KeyOutOfScope`). -/
theorem T7_2f_confirm_as_path_proof (mp : MultiProof Node VH) (root : Node) (v : VerifiedMulti Node VH)
    (hv : verifyMulti H mp root = .ok v) (key : Key) (hk : ∀ vp ∈ v.inner, vp.depth ≤ key.length)
    (i : Nat) (vp : VPath VH) (hi : v.inner[i]? = some vp) (w : Verified Node VH) (hw : SamePath w vp)
    (hin : w.inScope key = true) (vh : VH) :
    confirmValue v key vh = ofPathAnswer (w.confirmValue key vh) ∧
    confirmNonexistence v key = ofPathAnswer (w.confirmNonexistence key) := by
  obtain ⟨_, hroute⟩ := verifyMulti_routes_sorted H mp root v hv
  have hvp := List.mem_of_getElem? hi
  have hcov : vp.covers key := (inScope_iff_covers w vp hw key (hroute vp hvp).2.2 (hk vp hvp)).1 hin
  have hfind := findIndexFor_complete H mp root v hv key hk i vp hi hcov
  constructor
  · cases ht : vp.terminal with
    | terminator p =>
      simp [confirmValue, hfind, confirmValueInner, getIdx_some _ _ _ _ hi, ht, Verified.confirmValue, hin,
        hw.2, Terminal.asLeaf, ofPathAnswer]
    | leaf k x =>
      simp only [confirmValue, hfind, confirmValueInner, getIdx_some _ _ _ _ hi, ht, Verified.confirmValue,
        hin, hw.2, Terminal.asLeaf, ofPathAnswer, Outcome.ok_bind, Outcome.pure_eq, if_true]
      congr 1
      exact decide_eq_decide.2 (by simp)
  · cases ht : vp.terminal with
    | terminator p =>
      simp [confirmNonexistence, hfind, confirmNonexistenceInner, getIdx_some _ _ _ _ hi, ht,
        Verified.confirmNonexistence, hin, hw.2, Terminal.asLeaf, ofPathAnswer]
    | leaf k x =>
      simp [confirmNonexistence, hfind, confirmNonexistenceInner, getIdx_some _ _ _ _ hi, ht,
        Verified.confirmNonexistence, hin, hw.2, Terminal.asLeaf, ofPathAnswer]

/-- T7.2g **every query is answered exactly as the individual proofs answer it.**  `ws` = the individually
verified path proofs of ALL verified paths of an accepted multi-proof, in order.  For every key (at least
as long as every verified depth) and every value hash:

* at most one `w ∈ ws` has the key in scope, and if `ws[i]` has, both confirmations through the
  multi-proof are `ws[i]`'s answers;
* if no `w ∈ ws` has the key in scope — every individual proof says `KeyOutOfScope` — so does the
  multi-proof.

Hence `confirm_*` of the multi-proof is `Some`-for-`Some`, `KeyOutOfScope`-for-`KeyOutOfScope` the
answer of the path proofs it bundles. -/
theorem T7_2g_answers_as_individual_proofs (mp : MultiProof Node VH) (root : Node)
    (v : VerifiedMulti Node VH) (hv : verifyMulti H mp root = .ok v)
    (ws : List (Verified Node VH)) (hlen : ws.length = v.inner.length)
    (hws : ∀ (i : Nat) (w : Verified Node VH) (vp : VPath VH), ws[i]? = some w → v.inner[i]? = some vp →
      SamePath w vp)
    (key : Key) (hk : ∀ vp ∈ v.inner, vp.depth ≤ key.length) (vh : VH) :
    (∀ (i : Nat) (w : Verified Node VH), ws[i]? = some w → w.inScope key = true →
      confirmValue v key vh = ofPathAnswer (w.confirmValue key vh) ∧
      confirmNonexistence v key = ofPathAnswer (w.confirmNonexistence key)) ∧
    (∀ (i j : Nat) (wi wj : Verified Node VH), ws[i]? = some wi → ws[j]? = some wj →
      wi.inScope key = true → wj.inScope key = true → i = j) ∧
    ((∀ w ∈ ws, w.inScope key = false) →
      (∀ w ∈ ws, confirmValue v key vh = ofPathAnswer (w.confirmValue key vh) ∧
        confirmNonexistence v key = ofPathAnswer (w.confirmNonexistence key)) ∧
      confirmValue v key vh = .err .keyOutOfScope ∧ confirmNonexistence v key = .err .keyOutOfScope) := by
  obtain ⟨_, hroute⟩ := verifyMulti_routes_sorted H mp root v hv
  have hget : ∀ (i : Nat) (w : Verified Node VH), ws[i]? = some w → ∃ vp, v.inner[i]? = some vp := by
    intro i w hi
    have := (List.getElem?_eq_some_iff.1 hi).1
    exact ⟨v.inner[i]'(by omega), List.getElem?_eq_getElem (by omega)⟩
  have hget' : ∀ (i : Nat) (vp : VPath VH), v.inner[i]? = some vp → ∃ w, ws[i]? = some w := by
    intro i vp hi
    have := (List.getElem?_eq_some_iff.1 hi).1
    exact ⟨ws[i]'(by omega), List.getElem?_eq_getElem (by omega)⟩
  refine ⟨?_, ?_, ?_⟩
  · intro i w hi hin
    obtain ⟨vp, hvp⟩ := hget i w hi
    exact T7_2f_confirm_as_path_proof H mp root v hv key hk i vp hvp w (hws i w vp hi hvp) hin vh
  · intro i j wi wj hi hj hini hinj
    obtain ⟨vi, hvi⟩ := hget i wi hi
    obtain ⟨vj, hvj⟩ := hget j wj hj
    have hmi := List.mem_of_getElem? hvi
    have hmj := List.mem_of_getElem? hvj
    exact verifyMulti_cover_unique H mp root v hv key i j vi vj hvi hvj
      ((inScope_iff_covers wi vi (hws i wi vi hi hvi) key (hroute vi hmi).2.2 (hk vi hmi)).1 hini)
      ((inScope_iff_covers wj vj (hws j wj vj hj hvj) key (hroute vj hmj).2.2 (hk vj hmj)).1 hinj)
  · intro hnone
    have hnc : ∀ vp ∈ v.inner, ¬ vp.covers key := by
      intro vp hvp hc
      obtain ⟨i, hi⟩ := List.getElem?_of_mem hvp
      obtain ⟨w, hw⟩ := hget' i vp hi
      have := (inScope_iff_covers w vp (hws i w vp hw hi) key (hroute vp hvp).2.2 (hk vp hvp)).2 hc
      rw [hnone w (List.mem_of_getElem? hw)] at this
      cases this
    have hf := (findIndexFor_err_iff H mp root v hv key hk).2 hnc
    have h1 : confirmValue v key vh = .err .keyOutOfScope := by simp [confirmValue, hf]
    have h2 : confirmNonexistence v key = .err .keyOutOfScope := by simp [confirmNonexistence, hf]
    refine ⟨?_, h1, h2⟩
    intro w hw
    simp [h1, h2, Verified.confirmValue, Verified.confirmNonexistence, hnone w hw, ofPathAnswer]

/-- the verified path at index `j` of the honest bundle and the individually verified specified path proof
of `ks[j]` are the same path -/
theorem honest_samePath (L : Nat) (S : List (Key × VH)) (hc : Canon L 0 S)
    (hlen : ∀ kv ∈ S, kv.1.length = L) (ks : List Key) (hkl : ∀ k ∈ ks, k.length = L)
    (v : VerifiedMulti Node VH)
    (hterm : v.inner.map (·.terminal) = (ks.map (proveSpec H L S)).map (·.terminal))
    (hdepth : v.inner.map (·.depth) = (ks.map (proveSpec H L S)).map (·.siblings.length))
    (j : Nat) (k : Key) (hj : ks[j]? = some k) (vp : VPath VH) (hvp : v.inner[j]? = some vp)
    (w : Verified Node VH) (hw : verify H L (proveSpec H L S k) k (nodeAt H L 0 S) = .ok w) :
    SamePath w vp := by
  have ht : vp.terminal = (proveSpec H L S k).terminal := by
    have := congrArg (fun l => l[j]?) hterm
    simp only [List.getElem?_map, hvp, hj, Option.map] at this
    injection this
  have hd : vp.depth = (proveSpec H L S k).siblings.length := by
    have := congrArg (fun l => l[j]?) hdepth
    simp only [List.getElem?_map, hvp, hj, Option.map] at this
    injection this
  have hk := hkl k (List.mem_of_getElem? hj)
  have hp := proveAux_path H L 0 S k (fun kv hkv => ⟨by rw [hlen kv hkv]; omega, by simp⟩)
    (by rw [hk]; omega) hc
  rw [Nat.zero_add] at hp
  have hn := proveAux_len H L 0 S k
  have htake := prefix_take_eq _ _ hp (proveSpec H L S k).siblings.length (by
    simp only [proveSpec, List.length_take]; rw [hk]; omega)
  -- what `verify` returned
  unfold verify at hw
  split at hw
  · cases hw
  · simp only at hw
    split at hw
    · injection hw with hw
      subst hw
      refine ⟨?_, ?_⟩
      · simp only [ht, hd]
        simp only [proveSpec] at htake ⊢
        rw [htake, List.take_take, Nat.min_self]
      · simp only [ht]
        cases (proveSpec H L S k).terminal <;> rfl
    · cases hw

/-- T7.2h **the honest bundle answers like its path proofs.**  `S` canonical with `L`-bit keys, `ks`
`L`-bit keys whose specified path proofs have strictly ascending terminals (the hypotheses of T7.5).  The
bundle `from_path_proofs(proveSpec ks)` is accepted, and for every `L`-bit query key `q` (present, absent,
proved or not) and every value hash:

* every individual proof `verify(proveSpec ks[j], ks[j])` is accepted (T5.1), and if it has `q` in scope,
  `confirm_value(q, vh)` / `confirm_nonexistence(q)` through the multi-proof return exactly its answers —
  in particular for `q = ks[j]` itself;
* if none of the individual proofs has `q` in scope, the multi-proof answers `KeyOutOfScope` too. -/
theorem T7_2h_honest_bundle_answers (L : Nat) (S : List (Key × VH)) (hc : Canon L 0 S)
    (hlen : ∀ kv ∈ S, kv.1.length = L) (ks : List Key) (hne : ks ≠ []) (hkl : ∀ k ∈ ks, k.length = L)
    (hasc : (ks.map (fun k => (proveSpec H L S k).terminal.path)).Pairwise (fun a b => bitsLt a b = true)) :
    ∃ (mp : MultiProof Node VH) (v : VerifiedMulti Node VH) (ws : List (Verified Node VH)),
      fromPathProofs (ks.map (proveSpec H L S)) = .ok mp ∧
      verifyMulti H mp (nodeAt H L 0 S) = .ok v ∧
      ws.length = ks.length ∧
      (∀ (j : Nat) (k : Key), ks[j]? = some k → ∃ w, ws[j]? = some w ∧
        verify H L (proveSpec H L S k) k (nodeAt H L 0 S) = .ok w ∧ w.inScope k = true) ∧
      ∀ (q : Key), q.length = L → ∀ (vh : VH),
        (∀ (j : Nat) (w : Verified Node VH), ws[j]? = some w → w.inScope q = true →
          confirmValue v q vh = ofPathAnswer (w.confirmValue q vh) ∧
          confirmNonexistence v q = ofPathAnswer (w.confirmNonexistence q)) ∧
        ((∀ w ∈ ws, w.inScope q = false) →
          confirmValue v q vh = .err .keyOutOfScope ∧ confirmNonexistence v q = .err .keyOutOfScope) := by
  obtain ⟨mp, v, hfrom, hver, hterm, hdepth, _, _, _, _⟩ :=
    fromPathProofs_complete H L S hc hlen ks hne hkl hasc
  -- the individually verified proofs
  have hex : ∀ k ∈ ks, ∃ w, verify H L (proveSpec H L S k) k (nodeAt H L 0 S) = .ok w ∧ w.inScope k = true :=
    fun k hk => proveSpec_verifies H L S hc k (hkl k hk)
  let wOf : Key → Verified Node VH := fun k =>
    match verify H L (proveSpec H L S k) k (nodeAt H L 0 S) with
    | .ok w => w
    | .error _ => ⟨[], none, [], nodeAt H L 0 S⟩
  let ws : List (Verified Node VH) := ks.map wOf
  have hwsl : ws.length = ks.length := by simp [ws]
  have hwsj : ∀ (j : Nat) (k : Key), ks[j]? = some k → ∃ w, ws[j]? = some w ∧
      verify H L (proveSpec H L S k) k (nodeAt H L 0 S) = .ok w ∧ w.inScope k = true := by
    intro j k hj
    obtain ⟨w, hw, hin⟩ := hex k (List.mem_of_getElem? hj)
    refine ⟨w, ?_, hw, hin⟩
    simp only [ws, List.getElem?_map, hj, Option.map, wOf, hw]
  have hil : v.inner.length = ks.length := by
    have := congrArg List.length hterm
    simpa using this
  have hdL : ∀ vp ∈ v.inner, vp.depth ≤ L := by
    intro vp hvp
    obtain ⟨j, hj⟩ := List.getElem?_of_mem hvp
    have hjl := (List.getElem?_eq_some_iff.1 hj).1
    have := congrArg (fun l => l[j]?) hdepth
    simp only [List.getElem?_map, hj, List.getElem?_eq_getElem (by omega : j < ks.length), Option.map] at this
    injection this with this
    rw [this]
    exact proveAux_len H L 0 S _
  have hsame : ∀ (i : Nat) (w : Verified Node VH) (vp : VPath VH), ws[i]? = some w → v.inner[i]? = some vp →
      SamePath w vp := by
    intro i w vp hw hvp
    have hil' := (List.getElem?_eq_some_iff.1 hvp).1
    have hki : ks[i]? = some ks[i] := List.getElem?_eq_getElem (by omega)
    obtain ⟨w', hw', hver', _⟩ := hwsj i _ hki
    rw [hw] at hw'
    injection hw' with hw'
    subst hw'
    exact honest_samePath H L S hc hlen ks hkl v hterm hdepth i _ hki vp hvp w hver'
  refine ⟨mp, v, ws, hfrom, hver, hwsl, hwsj, ?_⟩
  intro q hq vh
  obtain ⟨h1, _, h3⟩ := T7_2g_answers_as_individual_proofs H mp _ v hver ws (by omega) hsame q
    (fun vp hvp => by rw [hq]; exact hdL vp hvp) vh
  exact ⟨h1, fun hn => (h3 hn).2⟩

/-! Non-vacuity (term hasher `TH`, `Sound`).  The four-key set of 3-bit keys of `Props/C07.lean`; the bundle
of the proofs of `010`, `011`, `110` (the last key is absent, its terminal is the leaf `100` at depth 1).
`find_index_for` finds the covering path for a proved key, for an absent key under a leaf of another
key, and answers `KeyOutOfScope` for the one key region (`00x`) that no path covers; T7.2d instantiated. -/
def exS4' : List (Key × Nat) :=
  [([false, false, false], 1), ([false, true, false], 2), ([false, true, true], 3), ([true, false, false], 4)]
def exVM : VerifiedMulti T Nat :=
  match fromPathProofs ([[false, true, false], [false, true, true], [true, true, false]].map
      (proveSpec TH 3 exS4')) with
  | .ok mp =>
    (match verifyMulti TH mp (nodeAt TH 3 0 exS4') with
     | .ok v => v
     | _ => ⟨[], [], [], T.term⟩)
  | _ => ⟨[], [], [], T.term⟩
def exMP : MultiProof T Nat :=
  match fromPathProofs ([[false, true, false], [false, true, true], [true, true, false]].map
      (proveSpec TH 3 exS4')) with
  | .ok mp => mp
  | _ => ⟨[], []⟩
theorem exVM_ok : verifyMulti TH exMP (nodeAt TH 3 0 exS4') = .ok exVM := by rfl

example : exVM.inner.map (·.depth) = [3, 3, 1] := by decide
example : findIndexFor exVM [true, true, true] = .ok 2 ∧ findIndexFor exVM [true, false, false] = .ok 2 ∧
    findIndexFor exVM [false, true, true] = .ok 1 ∧
    findIndexFor exVM [false, false, true] = .err .keyOutOfScope := by decide
/-- T7.2d used: the key `111` (never proved, absent) is covered by path 2 (leaf `100` at depth 1) -/
example : findIndexFor exVM [true, true, true] = .ok 2 := by
  have h2 : exVM.inner[2]? = some (exVM.inner[2]'(by decide)) := List.getElem?_eq_getElem (by decide)
  exact T7_2d_find_index_complete TH exMP _ exVM exVM_ok [true, true, true] (by decide) 2 _ h2
    ⟨by decide, by decide, by decide⟩
/-- T7.2h used: the hypotheses hold for the three keys -/
example : ∃ mp v, ∃ ws : List (Verified T Nat), fromPathProofs ([[false, true, false], [false, true, true], [true, true, false]].map
      (proveSpec TH 3 exS4')) = .ok mp ∧ verifyMulti TH mp (nodeAt TH 3 0 exS4') = .ok v ∧
      ws.length = 3 := by
  obtain ⟨mp, v, ws, h1, h2, h3, _⟩ := T7_2h_honest_bundle_answers TH 3 exS4' (by simp [exS4', Canon, side])
    (by simp [exS4']) [[false, true, false], [false, true, true], [true, true, false]] (by simp)
    (by decide) (by decide)
  exact ⟨mp, v, ws, h1, h2, h3⟩

end Nomt.C07
