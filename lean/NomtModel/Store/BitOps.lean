/-!
# Bit operations of the B-tree: mirror of `nomt/src/beatree/ops/bit_ops.rs`

`separate`, `prefix_len`, `separator_len`, `reconstruct_key`, `first_chunk_mask`, `last_chunk_mask`,
`bitwise_memcpy` — mirrored on bytes and 64-bit words exactly as the Rust does it (chunked big-endian
`u64` reads, masks, shifts, the remainder bytes carried between chunks, the "one more byte" tail), and
their bit-level specifications.

Conventions of the mirror:
* a byte string is a `List Nat` whose elements are `< 256` (predicate `Bytes`); a `u64` is a `Nat`
  `< 2^64`; every place where the Rust truncates (`<<` on `u64` / `u8`, `to_be_bytes()[i]`, `as u32`)
  truncates explicitly; `!m` on `u64` is `M64 ^^^ m`, on `u8` it is `255 ^^^ m`;
* `none` = the Rust code panics (debug build as the harness builds it: arithmetic overflow, shift
  overflow, slice / index out of bounds, `unwrap` on `None`, `assert_eq!`).  The sites are named in
  comments next to every `none`;
* `usize` itself is not bounded (lengths ≥ 2^61 bytes are not representable in memory anyway).

Bit positions are `Msb0`: position `p` of a byte string is bit `7 - p % 8` of byte `p / 8`.
-/
namespace Nomt.BitOps

/-- all elements are bytes -/
def Bytes (l : List Nat) : Prop := ∀ b ∈ l, b < 256

instance (l : List Nat) : Decidable (Bytes l) := by unfold Bytes; exact inferInstance

/-- `u64::MAX` -/
def M64 : Nat := 2 ^ 64 - 1

/-- bit `p` (Msb0) of a byte string; `false` beyond its end -/
def bitOf (l : List Nat) (p : Nat) : Bool := (l.getD (p / 8) 0).testBit (7 - p % 8)

/-- big-endian value of a byte string (`u64::from_be_bytes` for 8 bytes) -/
def beVal : List Nat → Nat
  | [] => 0
  | b :: r => 2 ^ (8 * r.length) * b + beVal r

/-- `u64::to_be_bytes` -/
def toBE (w : Nat) : List Nat :=
  [w >>> 56 % 256, w >>> 48 % 256, w >>> 40 % 256, w >>> 32 % 256,
   w >>> 24 % 256, w >>> 16 % 256, w >>> 8 % 256, w % 256]

/-- the 8 bytes at `o … o+7`, zero beyond the end (the zero-padded `buf` of the Rust) -/
def get8 (l : List Nat) (o : Nat) : List Nat :=
  [l.getD o 0, l.getD (o + 1) 0, l.getD (o + 2) 0, l.getD (o + 3) 0,
   l.getD (o + 4) 0, l.getD (o + 5) 0, l.getD (o + 6) 0, l.getD (o + 7) 0]

def word (l : List Nat) (o : Nat) : Nat := beVal (get8 l o)

/-- `dst[off .. off + bs.length].copy_from_slice(bs)` (callers make sure it is in range) -/
def writeAt (l : List Nat) (off : Nat) (bs : List Nat) : List Nat :=
  l.take off ++ bs ++ l.drop (off + bs.length)

/-! ## `first_chunk_mask`, `last_chunk_mask` -/

/-- `1u64.checked_shl(s)` -/
def checkedShl64 (s : Nat) : Option Nat := if s < 64 then some (2 ^ s) else none

/-- `first_chunk_mask(bit_start)`: the bits of a chunk from `bit_start` on.
`none`: `7 - bit_start` underflows. -/
def firstChunkMask (bitStart : Nat) : Option Nat :=
  if 7 < bitStart then none
  else
    let maskShift := (7 - bitStart) + 1 + 8 * 7
    match checkedShl64 maskShift with
    | some m => some (m - 1)
    | none => some M64

/-- `last_chunk_mask(bit_start, bit_len, n_chunks)`: the first `used` bits of the last chunk.
`none`: `n_chunks - 1` underflows. -/
def lastChunkMask (bitStart bitLen nChunks : Nat) : Option Nat :=
  if nChunks = 0 then none
  else
    let used := (bitStart + bitLen) - (nChunks - 1) * 64      -- saturating_sub
    let sh := 64 - used % 2 ^ 32                               -- 64u32.saturating_sub(used as u32)
    match checkedShl64 sh with
    | some m => some (M64 ^^^ (m - 1))
    | none => some 0

/-! ## `bitwise_memcpy` -/

inductive Shift where
  | none
  | left (amount : Nat)
  | right (amount : Nat)
deriving Repr, DecidableEq

/-- `destination_bit_start as isize - source_bit_start as isize` -/
def shiftOf (dbs sbs : Nat) : Shift :=
  if dbs = sbs then .none else if dbs < sbs then .left (sbs - dbs) else .right (dbs - sbs)

/-- `Shift::Right`: the bits of the chunk's last source byte that the right shift pushes out,
already placed at the top of the next destination byte (`curr_remainder`).
`none`: `1u8 << amount` with `amount ≥ 8`; index out of bounds. -/
def currRemainder (src : List Nat) (sbs len n ci : Nat) : Shift → Option (Option Nat)
  | .right a =>
    if 8 ≤ a then none
    else
      let mask0 := 2 ^ a - 1
      (if ci = n - 1 then (lastChunkMask sbs len n).map (fun l => mask0 &&& (l % 256)) else some mask0).bind fun mask =>
      (src[ci * 8 + 7]?).map fun b => some (((b &&& mask) <<< (8 - a)) % 256)
  | _ => some none

/-- `maybe_masks`: `(mask_from, mask_to)` for the first and / or last chunk -/
def chunkMasks (dbs sbs len n ci : Nat) : Option (Option (Nat × Nat)) :=
  (if ci = 0 then
     (firstChunkMask sbs).bind fun f => (firstChunkMask dbs).map fun t => some (f, t)
   else some none).bind fun m1 =>
  if ci = n - 1 then
    let (mf, mt) := m1.getD (M64, M64)
    (lastChunkMask sbs len n).bind fun ls => (lastChunkMask dbs len n).map fun ld => some (mf &&& ls, mt &&& ld)
  else some m1

/-- masking of the source chunk, shift, merge with the kept destination bits (`chunk_data`).
`none`: `<<=` / `>>=` by 64 or more. -/
def shiftedChunk (dst : List Nat) (doff : Nat) (chunk : Nat) (masks : Option (Nat × Nat)) (sh : Shift) : Option Nat :=
  let (chunk1, chunkData) := match masks with
    | some (mf, mt) => (chunk &&& mf, some (word dst doff &&& (M64 ^^^ mt)))
    | none => (chunk, none)
  (match sh with
   | .left a => if 64 ≤ a then none else some ((chunk1 <<< a) % 2 ^ 64)
   | .right a => if 64 ≤ a then none else some (chunk1 >>> a)
   | .none => some chunk1).map fun chunk2 =>
  match chunkData with
  | some d => chunk2 ||| d
  | none => chunk2

def setIdx (l : List Nat) (i : Nat) (v : Nat) : List Nat := l.set i v

/-- "move bits remainder between chunk boundaries": the fix-up of `chunk_shifted[7]` (left shift) or
`chunk_shifted[0]` (right shift); returns the bytes and the new `prev_remainder`.
`none`: index out of bounds (`destination[offset + 7]`, `source[(chunk_index + 1) * 8]`), `8 - amount`
underflow. -/
def fixRemainders (dst : List Nat) (doff dbs : Nat) (src : List Nat) (sbs len n btw ci : Nat)
    (bytes : List Nat) (prev curr : Option Nat) : Shift → Option (List Nat × Option Nat)
  | .left a =>
    if ci < n - 1 then
      (if doff + 8 = btw then
         (lastChunkMask sbs len n).bind fun l =>
         let mask := l >>> 56                              -- to_be_bytes()[0]
         let bitsToKeep := btw * 8 - (dbs + len)           -- never underflows
         if 8 ≤ bitsToKeep then none                       -- 1u8 << 8 (unreachable: bits_to_keep ≤ 7)
         else
           let maskTo := 2 ^ bitsToKeep - 1
           (dst[doff + 7]?).map fun d => (mask, d &&& maskTo)
       else some (255, 0)).bind fun (mask, unchanged) =>
      (src[(ci + 1) * 8]?).bind fun nb =>
      if 8 < a then none
      else
        let rem := (nb &&& mask) >>> (8 - a)
        some (setIdx bytes 7 (bytes.getD 7 0 ||| (rem ||| unchanged)), prev)
    else some (bytes, prev)
  | .right _ =>
    some (match prev with
          | some bits => setIdx bytes 0 (bytes.getD 0 0 ||| bits)
          | none => bytes, curr)
  | .none => some (bytes, prev)

structure LoopSt where
  dst : List Nat
  doff : Nat
  prev : Option Nat
deriving Repr, DecidableEq

/-- one iteration of `for chunk_index in 0..n_chunks`; the `Bool` is "break" -/
def chunkStep (dbs : Nat) (src : List Nat) (sbs len : Nat) (sh : Shift) (n btw ci : Nat) (st : LoopSt) :
    Option (LoopSt × Bool) :=
  (currRemainder src sbs len n ci sh).bind fun curr =>
  (if ci * 8 + 8 ≤ src.length then some (word src (ci * 8)) else none).bind fun chunk =>
  (chunkMasks dbs sbs len n ci).bind fun masks =>
  (shiftedChunk st.dst st.doff chunk masks sh).bind fun chunk3 =>
  (fixRemainders st.dst st.doff dbs src sbs len n btw ci (toBE chunk3) st.prev curr sh).map fun (bytes, prev') =>
  let nByte := min 8 (st.dst.length - st.doff)
  let dst' := writeAt st.dst st.doff (bytes.take nByte)
  let doff' := st.doff + nByte
  ({ dst := dst', doff := doff', prev := prev' }, decide (btw ≤ doff'))

def chunkLoop (dbs : Nat) (src : List Nat) (sbs len : Nat) (sh : Shift) (n btw : Nat) :
    (fuel ci : Nat) → LoopSt → Option LoopSt
  | 0, _, st => some st
  | fuel + 1, ci, st =>
    (chunkStep dbs src sbs len sh n btw ci st).bind fun (st', brk) =>
    if brk then some st' else chunkLoop dbs src sbs len sh n btw fuel (ci + 1) st'

/-- "handle possible right remainder left unapplied".
`none`: the `assert_eq!`, `n_chunks * 64 - (start + len)` / `amount - garbage_bits` / `8 - …` underflow,
`1u8 << 8`, index out of bounds. -/
def finalByte (sbs len : Nat) (sh : Shift) (n btw : Nat) (st : LoopSt) : Option (List Nat) :=
  if st.doff < btw then
    if btw - st.doff ≠ 1 then none
    else match sh, st.prev with
      | .right a, some prev =>
        if n * 64 < sbs + len then none
        else
          let garbage := n * 64 - (sbs + len)
          if a < garbage then none
          else
            let k := a - garbage
            if 8 < k then none
            else if k = 0 then none                      -- 1u8 << 8
            else
              let mask := 2 ^ (8 - k) - 1
              (st.dst[st.doff]?).map fun d => setIdx st.dst st.doff ((d &&& mask) ||| (prev &&& (255 ^^^ mask)))
      | _, _ => some st.dst
  else some st.dst

/-- `bitwise_memcpy(destination, destination_bit_start, source, source_bit_start, source_bit_len)`:
the destination afterwards, or `none` = panic -/
def bitwiseMemcpy (dst : List Nat) (dbs : Nat) (src : List Nat) (sbs len : Nat) : Option (List Nat) :=
  if len = 0 then some dst
  else
    let sh := shiftOf dbs sbs
    let n := src.length / 8
    let btw := (dbs + len + 7) / 8
    (chunkLoop dbs src sbs len sh n btw n 0 { dst := dst, doff := 0, prev := none }).bind
      (finalByte sbs len sh n btw)

/-! ### specification of `bitwise_memcpy` -/

/-- the number with `w` bits whose bit `j` (Msb0) is `f j` -/
def natOfBits (f : Nat → Bool) : Nat → Nat
  | 0 => 0
  | w + 1 => 2 * natOfBits f w + (if f w then 1 else 0)

/-- byte `i` of the bit string `f` -/
def byteOfBits (f : Nat → Bool) (i : Nat) : Nat := natOfBits (fun t => f (8 * i + t)) 8

/-- the first `n` bytes of the bit string `f` -/
def bytesOfBits (f : Nat → Bool) (n : Nat) : List Nat := (List.range n).map (byteOfBits f)

/-- bit `p` of the destination after the copy -/
def memcpyBit (dst : List Nat) (dbs : Nat) (src : List Nat) (sbs len : Nat) (p : Nat) : Bool :=
  if dbs ≤ p ∧ p < dbs + len then bitOf src (sbs + (p - dbs)) else bitOf dst p

/-- **specification**: same length; bits `[dbs, dbs+len)` are the source bits `[sbs, sbs+len)`, every other
bit is unchanged -/
def memcpySpec (dst : List Nat) (dbs : Nat) (src : List Nat) (sbs len : Nat) : List Nat :=
  bytesOfBits (memcpyBit dst dbs src sbs len) dst.length

/-- the contract of `bitwise_memcpy` (its doc comment made precise): nothing to copy, or both bit offsets
inside the first byte, the source holds **exactly** the chunks that contain the source bits, and the
destination has room for the last written bit -/
def MemcpyGuard (dstLen dbs srcLen sbs len : Nat) : Prop :=
  len = 0 ∨ (sbs ≤ 7 ∧ dbs ≤ 7 ∧ srcLen / 8 = (sbs + len + 63) / 64 ∧ (dbs + len + 7) / 8 ≤ dstLen)

instance (dstLen dbs srcLen sbs len : Nat) : Decidable (MemcpyGuard dstLen dbs srcLen sbs len) := by
  unfold MemcpyGuard; exact inferInstance

/-! ## `prefix_len`, `separator_len`, `separate` (keys are 32 bytes) -/

/-- the inner `for bit in 0..8`: number of equal bits from `bit` on, and whether a difference was met -/
def plBits (x y : Nat) : (fuel bit : Nat) → Nat × Bool
  | 0, _ => (0, false)
  | fuel + 1, bit =>
    let mask := 1 <<< (7 - bit)
    if (x &&& mask) ≠ (y &&& mask) then (0, true)
    else let (c, brk) := plBits x y fuel (bit + 1); (c + 1, brk)

/-- the outer `'byte_loop: for byte in 0..32` -/
def plBytes (a b : List Nat) : (fuel byte : Nat) → Nat
  | 0, _ => 0
  | fuel + 1, byte =>
    let (c, brk) := plBits (a.getD byte 0) (b.getD byte 0) 8 0
    if brk then c else c + plBytes a b fuel (byte + 1)

/-- `prefix_len(key_a, key_b)` -/
def prefixLen (a b : List Nat) : Nat := plBytes a b 32 0

/-- inner `for bit in (0..8).rev()`: trailing zero bits of a byte counted from `bit` downwards -/
def tzBits (x : Nat) : (fuel : Nat) → Nat × Bool
  | 0 => (0, false)
  | fuel + 1 =>
    let bit := fuel
    let mask := 1 <<< (7 - bit)
    if (x &&& mask) = mask then (0, true)
    else let (c, brk) := tzBits x fuel; (c + 1, brk)

/-- outer `'byte_offset: for byte in (0..32).rev()` -/
def tzBytes (k : List Nat) : (fuel : Nat) → Nat
  | 0 => 0
  | fuel + 1 =>
    let byte := fuel
    let (c, brk) := tzBits (k.getD byte 0) 8
    if brk then c else c + tzBytes k fuel

/-- `separator_len(key)` -/
def separatorLen (k : List Nat) : Nat :=
  if k = List.replicate 32 0 then 1 else 256 - tzBytes k 32

/-- `separate(a, b)`.  `none`: `separator[full_bytes]` with `full_bytes = 32` (only when `a = b`). -/
def separate (a b : List Nat) : Option (List Nat) :=
  let bitLen := prefixLen a b + 1
  let sep := List.replicate 32 0
  let fullBytes := bitLen / 8
  if 32 < fullBytes then none           -- slice end out of range (unreachable)
  else
    let sep := writeAt sep 0 (b.take fullBytes)
    let remaining := bitLen % 8
    if remaining ≠ 0 then
      let mask := 255 ^^^ ((1 <<< (8 - remaining)) - 1)
      if 32 ≤ fullBytes then none         -- index out of bounds
      else some (setIdx sep fullBytes (b.getD fullBytes 0 &&& mask))
    else some sep

/-- the first `n` bits of `k`, zero padded to 32 bytes -/
def prefixPad (k : List Nat) (n : Nat) : List Nat :=
  bytesOfBits (fun p => decide (p < n) && bitOf k p) 32

/-! ## `reconstruct_key` -/

/-- `reconstruct_key(maybe_prefix, (separator_bytes, separator_bit_start, separator_bit_len))`.
`none`: `key[start_destination..]` out of range, a panic of `bitwise_memcpy`, `maybe_prefix.unwrap()`,
the prefix slices / indices out of range. -/
def reconstructKey (prefix? : Option (List Nat × Nat)) (sepBytes : List Nat) (sepStart sepLen : Nat) :
    Option (List Nat) :=
  let key := List.replicate 32 0
  let pbl := match prefix? with | some p => p.2 | none => 0
  let pByteLen := (pbl + 7) / 8
  let pEnd := pbl % 8
  let startDest := if pByteLen = 0 then 0 else if pEnd = 0 then pByteLen else pByteLen - 1
  if 32 < startDest then none
  else
    (bitwiseMemcpy (key.drop startDest) pEnd sepBytes sepStart sepLen).bind fun tail =>
    let key := key.take startDest ++ tail
    if pByteLen ≠ 0 then
      match prefix? with
      | none => none
      | some (pbytes, _) =>
        if 32 < pByteLen - 1 ∨ pbytes.length < pByteLen - 1 then none
        else
          let key := writeAt key 0 (pbytes.take (pByteLen - 1))
          let maskShift := 8 - pbl % 8
          let mask := if maskShift < 8 then 255 ^^^ (2 ^ maskShift - 1) else 255
          match pbytes[pByteLen - 1]?, key[pByteLen - 1]? with
          | some pb, some kb => some (setIdx key (pByteLen - 1) (kb ||| (pb &&& mask)))
          | _, _ => none
    else some key

/-- bit `p` of the reconstructed key: prefix bits, then separator bits, then zeros -/
def reconstructBit (pbytes : List Nat) (pbl : Nat) (sepBytes : List Nat) (sepStart sepLen : Nat) (p : Nat) : Bool :=
  if p < pbl then bitOf pbytes p
  else if p < pbl + sepLen then bitOf sepBytes (sepStart + (p - pbl))
  else false

def reconstructSpec (pbytes : List Nat) (pbl : Nat) (sepBytes : List Nat) (sepStart sepLen : Nat) : List Nat :=
  bytesOfBits (reconstructBit pbytes pbl sepBytes sepStart sepLen) 32

end Nomt.BitOps
