import NomtModel.Store.PushChunkPush
/-!
# One-line mistakes in `BranchNodeBuilder::push_chunk`, and concrete nodes to run them on

`pushChunkMut m` is `builderPushChunk` with one flag: `.none` = the code as it is (`pushChunkMut_none`: definitionally
the mirror), `.signFlip` = the prefix difference taken the other way round (`self.prefix_len − base.prefix_len`),
`.noPrevCell` = `base_prev_cell_pointer` left at `0` for `from ≠ 0`, `.fastAlways` = the fast path taken whatever the
prefix difference.  The concrete base node `exBaseNode` (prefix `0xAB`, two keys) and builders are the instances the
kernel-checked counterexamples and the non-vacuity examples of `Props/C16_PushChunk.lean` run on.
-/
namespace Nomt.BitOps

inductive BMut where
  | none | signFlip | noPrevCell | fastAlways
deriving DecidableEq

def pushChunkMut (m : BMut) (b : Builder) (base : List Nat) (frm to : Nat) (updated : List (Nat × Nat)) : Option Builder :=
  if to < frm then none
  else
    let nItems := to - frm
    (nodePc b.page).bind fun pcNew =>
    if ¬ (b.index + nItems ≤ pcNew) then none
    else
      (if b.index = 0 then (getKey base frm).bind (setPrefix b.page) else some b.page).bind fun p0 =>
      (nodePl base).bind fun plBase =>
      (nodePl p0).bind fun plNew =>
      (nodeN base).bind fun nBase =>
      (nodeN p0).bind fun nNew =>
      let isExt := if m = .signFlip then (if plBase < plNew then 1 else 0) else (if plNew < plBase then 1 else 0)
      let diff := if plNew < plBase then plBase - plNew else plNew - plBase
      (if frm ≠ 0 ∧ m ≠ .noPrevCell then nodeCell base (frm - 1) else some 0).bind fun basePrev =>
      if ¬ (BRANCH_HEADER + nBase * 2 < PAGE_SIZE - BRANCH_HEADER) ∨ nBase < to then none
      else if ¬ (BRANCH_HEADER + nNew * 2 < PAGE_SIZE - BRANCH_HEADER) ∨ nNew < b.index + nItems then none
      else
        (copyCells base frm isExt diff 0 nItems b.index p0 basePrev b.sepBitOffset).bind fun (p1, cellPtr) =>
        if ¬ (nBase * 4 < PAGE_SIZE) ∨ ¬ (nNew * 4 < PAGE_SIZE) then none
        else
          let src := (base.drop (PAGE_SIZE - nBase * 4 + frm * 4)).take (nItems * 4)
          let p2 := writeAt p1 (PAGE_SIZE - nNew * 4 + b.index * 4) src
          (applyUpdated b.index updated p2).bind fun p3 =>
          (if diff = 0 ∨ m = .fastAlways then
            (rawSeparatorsData p3 b.index (b.index + nItems)).bind fun (sStart, sLen, sBitStart, _) =>
            (sliceOf p3 sStart (sStart + sLen)).bind fun d =>
            (rawSeparators base frm to).bind fun (bBytes, bBitStart, bBitLen) =>
            (bitwiseMemcpy d sBitStart bBytes bBitStart bBitLen).map fun out => writeAt p3 sStart out
           else copyAndShiftSeparators p3 base b.index nItems frm isExt diff).map fun p4 =>
          { b with page := p4, index := b.index + nItems, sepBitOffset := cellPtr }

theorem pushChunkMut_none (b : Builder) (base : List Nat) (frm to : Nat) (updated : List (Nat × Nat)) :
    pushChunkMut .none b base frm to updated = builderPushChunk b base frm to updated := by
  unfold pushChunkMut builderPushChunk
  simp

/-! ## concrete nodes -/

theorem bytes_of_all (l : List Nat) (h : l.all (fun b => decide (b < 256)) = true) : Bytes l := by
  intro b hb
  have := List.all_eq_true.mp h b hb
  simpa using this

def exKey (b1 : Nat) : List Nat := 0xAB :: b1 :: List.replicate 30 0
def exZeroKey : List Nat := List.replicate 32 0
def exPage0 : List Nat := List.replicate 4096 0
def pageOf (b : Option Builder) : List Nat := match b with | some b => b.page | none => []
def builderOf (b : Option Builder) : Builder := match b with | some b => b | none => ⟨[], 0, 0, 0, 0⟩

theorem ex_of_isSome {x : Option Builder} (P : Builder → Prop) (h : x.isSome = true) (hp : P (builderOf x)) :
    ∃ b', x = some b' ∧ P b' := by
  cases x with
  | none => cases h
  | some b => exact ⟨b, rfl, hp⟩

/-- base node: `n = 3`, all compressed, prefix `0xAB` (8 bits); keys `AB40…` (10 bits), `ABC0…` (10 bits), `ABD0…` (12 bits):
stored separators of 2, 2 and 4 bits (`01 11 1101` = `0x7D`), pointers 5, 7, 9.  The page is what
`new(3, 3, 8); push(AB40.., 10, 5); push(ABC0.., 10, 7); push(ABD0.., 12, 9)` builds on a zeroed page (`exBaseNodeBuilt`),
written out so that the kernel does not rebuild it for every check. -/
def exBaseNode : List Nat :=
  [0, 0, 0, 0, 3, 0, 3, 0, 8, 0, 2, 0, 4, 0, 8, 0, 0xAB, 0x7D] ++ List.replicate 4066 0 ++ [5, 0, 0, 0, 7, 0, 0, 0, 9, 0, 0, 0]
def exBaseNodeBuilt : List Nat :=
  pageOf ((builderNew exPage0 3 3 8).bind fun b => (builderPush b (exKey 0x40) 10 5).bind fun b =>
    (builderPush b (exKey 0xC0) 10 7).bind fun b => builderPush b (exKey 0xD0) 12 9)
def exBaseCells (i : Nat) : Nat := if i = 0 then 2 else if i = 1 then 4 else 8

/-- a fresh builder for 2 items with prefix length `pl` (= `builderNew` on a zeroed page) -/
def exNewBuilder (pl : Nat) : Builder :=
  ⟨[0, 0, 0, 0, 2, 0, 2, 0, pl, 0] ++ List.replicate 4086 0, 0, pl, 2, 0⟩
/-- a fresh builder for 3 items, prefix length 8 -/
def exNewBuilder3 : Builder := ⟨[0, 0, 0, 0, 3, 0, 3, 0, 8, 0] ++ List.replicate 4086 0, 0, 8, 3, 0⟩

/-- F22's shape: the first key is the zero key (`separator_len = 1`, stored with 0 bits under the 8-bit prefix `0x00`), the
second is `00 30 00…` (12 bits, stored `0011`); pointers 5, 7 (= `new(2, 2, 8); push(00.., 1, 5); push(0030.., 12, 7)`) -/
def exF22Base : List Nat :=
  [0, 0, 0, 0, 2, 0, 2, 0, 8, 0, 0, 0, 4, 0, 0, 0x30] ++ List.replicate 4072 0 ++ [5, 0, 0, 0, 7, 0, 0, 0]

end Nomt.BitOps
