import NomtModel.Store.IoPoolInv
/-!
# `run_worker`: what holds when the worker exits (nothing is left behind)
-/
namespace Nomt.IoPool

structure XInv (s : St) : Prop where
  x1 : (s.pc = .top ∨ s.pc = .reap) → s.sq = []
  x2 : s.pc = .accept → s.sq.length ≤ s.pending.len
  x3 : (s.pc = .top ∨ s.pc = .submit) → s.pending.len = 0 → s.retries = []
  x4 : s.shutdown = true → s.closed = true ∧ s.chan = []
  x5 : s.pc = .exited → s.pending.len = 0 ∧ s.retries = [] ∧ s.shutdown = true
  x6 : 0 < s.sqCap

theorem XInv_init (cap : Nat) (h : 0 < cap) : XInv { sqCap := cap } := by
  constructor <;> simp [Slab.len, h]

theorem insert_len (sl : Slab) (x : PendingIo) : (sl.insert x).1.len = sl.len + 1 := by
  simp [Slab.len, insert_occ]

theorem reapOne_fields (s : St) (key : Nat) (res : Int) (errno : Nat) :
    (reapOne s key res errno).sq = s.sq ∧ (reapOne s key res errno).shutdown = s.shutdown ∧
    (reapOne s key res errno).closed = s.closed ∧ (reapOne s key res errno).chan = s.chan ∧
    (reapOne s key res errno).sqCap = s.sqCap ∧
    ((reapOne s key res errno).pc = s.pc ∨ (reapOne s key res errno).pc = .panicked) := by
  unfold reapOne
  split
  · simp
  · simp only
    split
    · simp
    · split <;> simp
    · split <;> simp

theorem XInv_wstep {s : St} (sr : SubmitRes) (h : XInv s) : XInv (wstep s sr) := by
  obtain ⟨x1, x2, x3, x4, x5, x6⟩ := h
  unfold wstep
  split
  · -- top
    rename_i hpc
    split
    · constructor <;> simp_all
    · split
      · rename_i hl hs
        constructor <;> simp_all
      · constructor <;> simp_all
  · -- reap
    rename_i hpc
    split
    · constructor <;> simp_all
    · rename_i key res errno v hv
      obtain ⟨f1, f2, f3, f4, f5, f6⟩ := reapOne_fields { s with visible := v } key res errno
      constructor
      · intro _; rw [f1]; exact x1 (Or.inr hpc)
      · intro hp; cases f6 with
        | inl f6 => rw [f6] at hp; simp [hpc] at hp
        | inr f6 => rw [f6] at hp; cases hp
      · intro hp; cases f6 with
        | inl f6 => rw [f6] at hp; simp [hpc] at hp
        | inr f6 => rw [f6] at hp; simp at hp
      · rw [f2, f3, f4]; exact x4
      · intro hp; cases f6 with
        | inl f6 => rw [f6] at hp; simp [hpc] at hp
        | inr f6 => rw [f6] at hp; cases hp
      · rw [f5]; exact x6
  · -- accept
    rename_i hpc
    have x2' := x2 hpc
    split
    · rename_i hcond
      split
      · constructor <;> simp_all [insertPush, insert_len]
      · split
        · split
          · constructor <;> simp_all [insertPush, insert_len]
          · split
            · constructor <;> simp_all
            · exact ⟨x1, x2, x3, x4, x5, x6⟩
        · split
          · constructor <;> simp_all [insertPush, insert_len]
          · split
            · constructor <;> simp_all
            · constructor <;> simp_all
    · rename_i hcond
      constructor <;> simp_all
      intro hz
      have : MAX_IN_FLIGHT = 1024 := rfl
      omega
  · -- submit
    rename_i hpc
    split
    · constructor <;> simp_all
    · exact ⟨x1, x2, x3, x4, x5, x6⟩
    · simp only
      split
      · constructor <;> simp_all
      · constructor <;> simp_all
  · exact ⟨x1, x2, x3, x4, x5, x6⟩
  · exact ⟨x1, x2, x3, x4, x5, x6⟩

theorem XInv_step {s : St} (a : Act) (h : XInv s) : XInv (step s a) := by
  cases a with
  | worker sr => exact XInv_wstep sr h
  | close =>
    obtain ⟨x1, x2, x3, x4, x5, x6⟩ := h
    constructor <;> simp_all [step]
  | complete key res errno =>
    obtain ⟨x1, x2, x3, x4, x5, x6⟩ := h
    simp only [step]; split
    · constructor <;> simp_all
    · exact ⟨x1, x2, x3, x4, x5, x6⟩
  | spurious key res errno =>
    obtain ⟨x1, x2, x3, x4, x5, x6⟩ := h
    constructor <;> simp_all [step]
  | send hd r =>
    obtain ⟨x1, x2, x3, x4, x5, x6⟩ := h
    simp only [step]; split
    · exact ⟨x1, x2, x3, x4, x5, x6⟩
    · rename_i hc
      constructor <;> simp_all

theorem XInv_run {s : St} (acts : List Act) (h : XInv s) : XInv (run s acts) := by
  induction acts generalizing s with
  | nil => exact h
  | cons a l ih => exact ih (XInv_step a h)

end Nomt.IoPool
