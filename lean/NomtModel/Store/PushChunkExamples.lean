import NomtModel.Store.PushChunkMut
/-!
# Concrete runs of `push_chunk` (the mirror and its one-line mutations), one kernel evaluation per lemma

Every lemma is `decide +kernel` on a 4096-byte page and is kept to one or two evaluations of a builder so that no
declaration is slow; `Props/C16_PushChunk.lean` assembles them.
-/
namespace Nomt.BitOps

def key2 (a b : Nat) : List Nat := a :: b :: List.replicate 30 0

/-- base with an UNCOMPRESSED second item: `new(2, 1, 8); push(AB40.., 10, 5); push(AC00.., 6, 7)` -/
def exUBase : List Nat :=
  [0, 0, 0, 0, 2, 0, 1, 0, 8, 0, 2, 0, 8, 0, 0xAB, 0x6B] ++ List.replicate 4072 0 ++ [5, 0, 0, 0, 7, 0, 0, 0]

-- the base nodes read back
theorem exBase_k0 : getKey exBaseNode 0 = some (key2 0xAB 0x40) := by decide +kernel
theorem exBase_k1 : getKey exBaseNode 1 = some (key2 0xAB 0xC0) := by decide +kernel
theorem exBase_k2 : getKey exBaseNode 2 = some (key2 0xAB 0xD0) := by decide +kernel
theorem exF22_k0 : getKey exF22Base 0 = some exZeroKey := by decide +kernel
theorem exF22_k1 : getKey exF22Base 1 = some (key2 0 0x30) := by decide +kernel
theorem exU_k0 : getKey exUBase 0 = some (key2 0xAB 0x40) := by decide +kernel
theorem exU_k1 : getKey exUBase 1 = some (key2 0xAC 0) := by decide +kernel

/-- R1: items 1, 2 of the base into a fresh node with a 4-bit prefix, one `updated` page number -/
def runR1 : Option Builder := builderPushChunk (exNewBuilder 4) exBaseNode 1 3 [(1, 77)]
theorem runR1_some : runR1.isSome = true := by decide +kernel
theorem runR1_k0 : getKey (builderOf runR1).page 0 = some (key2 0xAB 0xC0) := by decide +kernel
theorem runR1_k1 : getKey (builderOf runR1).page 1 = some (key2 0xAB 0xD0) := by decide +kernel
theorem runR1_cells : nodeCell (builderOf runR1).page 0 = some 6 ∧ nodeCell (builderOf runR1).page 1 = some 14 := by decide +kernel
theorem runR1_ptrs : nodePointer (builderOf runR1).page 0 = some 7 ∧ nodePointer (builderOf runR1).page 1 = some 77 := by
  decide +kernel

/-- R2 / R3: a `push`, then a `push_chunk` that is not the first call -/
def runR2 : Option Builder := builderPush exNewBuilder3 (key2 0xAB 0x20) 11 4
def runR3 : Option Builder := builderPushChunk (builderOf runR2) exBaseNode 1 3 []
theorem runR2_some : runR2.isSome = true := by decide +kernel
theorem runR2_view : (builderOf runR2).index = 1 ∧ (builderOf runR2).sepBitOffset = 3 ∧ nodeCell (builderOf runR2).page 0 = some 3 := by
  decide +kernel
theorem runR3_some : runR3.isSome = true := by decide +kernel
theorem runR3_k0 : getKey (builderOf runR3).page 0 = some (key2 0xAB 0x20) := by decide +kernel
theorem runR3_k1 : getKey (builderOf runR3).page 1 = some (key2 0xAB 0xC0) := by decide +kernel
theorem runR3_k2 : getKey (builderOf runR3).page 2 = some (key2 0xAB 0xD0) := by decide +kernel

-- the empty range
theorem runE1 : builderPushChunk (exNewBuilder 8) exBaseNode 0 0 [] = none := by decide +kernel
theorem runE2 : builderPushChunk (exNewBuilder 8) exBaseNode 1 1 [] = none := by decide +kernel
theorem runE3 : (builderPushChunk (exNewBuilder 4) exBaseNode 0 0 []).isSome = true := by decide +kernel
theorem runE4 : builderPushChunk (builderOf runR2) exBaseNode 0 0 [] = none := by decide +kernel
theorem runE5 : (builderPushChunk (builderOf runR2) exBaseNode 1 1 []).map
    (fun b => (b.index, b.sepBitOffset, nodeCell b.page 0)) = some (1, 3, some 3) := by decide +kernel
theorem runE5_k0 : (builderPushChunk (builderOf runR2) exBaseNode 1 1 []).map (fun b => getKey b.page 0) =
    some (some (key2 0xAB 0x20)) := by decide +kernel

/-- F22's shape: `push_chunk` under a shorter prefix vs `push` of the same keys -/
def runF1 : Option Builder := builderPushChunk (exNewBuilder 4) exF22Base 0 2 []
def runF2 : Option Builder := (builderPush (exNewBuilder 4) exZeroKey 1 5).bind fun b => builderPush b (key2 0 0x30) 12 7
theorem runF1_some : runF1.isSome = true := by decide +kernel
theorem runF2_some : runF2.isSome = true := by decide +kernel
theorem runF1_k0 : getKey (builderOf runF1).page 0 = some exZeroKey := by decide +kernel
theorem runF1_k1 : getKey (builderOf runF1).page 1 = some (key2 0 0x30) := by decide +kernel
theorem runF2_k0 : getKey (builderOf runF2).page 0 = some exZeroKey := by decide +kernel
theorem runF2_k1 : getKey (builderOf runF2).page 1 = some (key2 0 0x30) := by decide +kernel
theorem runF1_ptrs : nodePointer (builderOf runF1).page 0 = some 5 ∧ nodePointer (builderOf runF1).page 1 = some 7 := by decide +kernel
theorem runF2_ptrs : nodePointer (builderOf runF2).page 0 = some 5 ∧ nodePointer (builderOf runF2).page 1 = some 7 := by decide +kernel
theorem runF1_cells : nodeCell (builderOf runF1).page 0 = some 4 ∧ (builderOf runF1).sepBitOffset = 12 := by decide +kernel
theorem runF2_cells : nodeCell (builderOf runF2).page 0 = some 0 ∧ (builderOf runF2).sepBitOffset = 8 := by decide +kernel

-- the prefix difference with the wrong sign
def runS1 : Option Builder := pushChunkMut .signFlip (exNewBuilder 4) exBaseNode 1 3 []
def runS2 : Option Builder := pushChunkMut .signFlip (exNewBuilder 9) exBaseNode 1 3 []
def runG2 : Option Builder := builderPushChunk (exNewBuilder 9) exBaseNode 1 3 []
theorem runS1_some : runS1.isSome = true := by decide +kernel
theorem runS1_k0 : getKey (builderOf runS1).page 0 = some (key2 0xA0 0) := by decide +kernel
theorem runS1_k1 : getKey (builderOf runS1).page 1 = some (key2 0xA0 0) := by decide +kernel
theorem runS2_some : runS2.isSome = true := by decide +kernel
theorem runS2_k0 : getKey (builderOf runS2).page 0 = some (key2 0xAB 0xF0) := by decide +kernel
theorem runS2_k1 : getKey (builderOf runS2).page 1 = some (key2 0xAB 0xF4) := by decide +kernel
theorem runG2_some : runG2.isSome = true := by decide +kernel
theorem runG2_k0 : getKey (builderOf runG2).page 0 = some (key2 0xAB 0xC0) := by decide +kernel
theorem runG2_k1 : getKey (builderOf runG2).page 1 = some (key2 0xAB 0xD0) := by decide +kernel

-- `base_prev_cell_pointer` left at 0
def runP1 : Option Builder := pushChunkMut .noPrevCell (exNewBuilder 8) exBaseNode 1 3 []
theorem runP1_some : runP1.isSome = true := by decide +kernel
theorem runP1_cell : nodeCell (builderOf runP1).page 0 = some 4 := by decide +kernel
theorem runP1_k0 : getKey (builderOf runP1).page 0 = some (key2 0xAB 0xF0) := by decide +kernel
theorem runP1_k1 : getKey (builderOf runP1).page 1 = some (key2 0xAB 0x40) := by decide +kernel

-- the fast path although the prefix lengths differ
def runQ1 : Option Builder := pushChunkMut .fastAlways (exNewBuilder 4) exBaseNode 1 3 []
theorem runQ1_some : runQ1.isSome = true := by decide +kernel
theorem runQ1_cells : nodeCell (builderOf runQ1).page 0 = some 6 ∧ nodeCell (builderOf runQ1).page 1 = some 14 := by decide +kernel
theorem runQ1_k0 : getKey (builderOf runQ1).page 0 = some (key2 0xAF 0x40) := by decide +kernel
theorem runQ1_k1 : getKey (builderOf runQ1).page 1 = some (key2 0xA0 0) := by decide +kernel

-- a chunk reaching an uncompressed base item
def runU1 : Option Builder := builderPushChunk (exNewBuilder 8) exUBase 0 2 []
theorem runU1_some : runU1.isSome = true := by decide +kernel
theorem runU1_k0 : getKey (builderOf runU1).page 0 = some (key2 0xAB 0x40) := by decide +kernel
theorem runU1_k1 : getKey (builderOf runU1).page 1 = some (key2 0xAB 0xAC) := by decide +kernel

theorem key2_ne (a b c d : Nat) (h : ¬ (a = c ∧ b = d)) : some (key2 a b) ≠ some (key2 c d) := by
  intro e
  simp only [key2, Option.some.injEq, List.cons.injEq, and_true] at e
  exact h e

end Nomt.BitOps
