import NomtModel.Store.ExtRangeModel
/-!
Mirror of `prepare_workers` (`leaf_stage.rs` and `branch_stage.rs`: the same loop; they differ in the lookup) and the
initial global state of the protocol.

`look key` = the separator of the node the pivot key falls into, or `none` where the code `break`s:
* branch stage: `bbn_index.lookup(key)` is `None`; else `get_key(&branch, 0)`;
* leaf stage: `indexed_leaf(bbn_index, key)` is `None` or its cutoff is `None` (the last leaf); else its separator.
-/
namespace Nomt.ExtRange

/-- the part of `WorkerParams` that `prepare_workers` decides -/
structure WP where
  low : Option Nat
  high : Option Nat
  start : Nat
  stop : Nat
  left : Bool
  right : Bool
deriving DecidableEq, Repr

/-- `changeset_remaining[..pivot_idx].iter().rev().take_while(|(k, _)| k >= &separator).count()` -/
def tailCount (l : List Nat) (sep : Nat) : Nat := (l.reverse.takeWhile fun k => decide (k ≥ sep)).length

/-- the `while remaining_workers > 0 && changeset_remaining.len() > 0` loop; `cur` is `workers.last_mut()`, `off` is
`changeset.len() - changeset_remaining.len()`.  Every iteration shortens `rem`: the fuel is its length. -/
def prepLoop (look : Nat → Option Nat) (total : Nat) : (fuel rw off : Nat) → (rem : List Nat) → (cur : WP) → List WP
  | 0, _, _, _, cur => [cur]
  | fuel + 1, rw, off, rem, cur =>
    if rw = 0 ∨ rem.length = 0 then [cur] else
    let pivot := rem.length / (rw + 1)
    if pivot = 0 then [cur] else
    match rem[pivot]? with
    | none => [cur]       -- `changeset_remaining[pivot_idx]`: in bounds (`prepLoop_index`)
    | some key =>
      match look key with
      | none => [cur]
      | some sep =>
        let prevOps := pivot - tailCount (rem.take pivot) sep
        if prevOps = 0 then prepLoop look total fuel rw (off + pivot) (rem.drop pivot) cur
        else
          let part := off + prevOps
          { cur with high := some sep, right := true, stop := part } ::
            prepLoop look total fuel (rw - 1) part (rem.drop prevOps)
              { low := some sep, high := none, start := part, stop := total, left := true, right := false }

/-- `prepare_workers(bbn_index, changeset, worker_count)` (`worker_count ≥ 1` is asserted by `run`) -/
def prepareWorkers (look : Nat → Option Nat) (keys : List Nat) (count : Nat) : List WP :=
  prepLoop look keys.length keys.length (count - 1) 0 keys
    { low := none, high := none, start := 0, stop := keys.length, left := false, right := false }

variable {σ N C : Type}

/-- the lookup of the branch stage: first key of the covering node (`k0`) -/
def lookBranch (k0 : N → Option Nat) (db : List (DbN N)) (key : Nat) : Option Nat :=
  match lookupDb key db with
  | none => none
  | some (nd, _) => some ((k0 nd.node).getD nd.sep)

/-- the lookup of the leaf stage -/
def lookLeaf (db : List (DbN N)) (key : Nat) : Option Nat :=
  match lookupDb key db with
  | some (nd, some _) => some nd.sep
  | _ => none

/-- the worker `run` spawns for the `i`-th `WorkerParams` (in the leaf stage with its prepared leaves) -/
def mkWorker (U : Upd σ N C) (cfg : Cfg) (db : List (DbN N)) (cs : List (Nat × C)) (i : Nat) (p : WP) : W σ N C :=
  let ops := (cs.drop p.start).take (p.stop - p.start)
  { st := U.init, left := p.left, right := if p.right then some (i + 1) else none, low := p.low, high := p.high,
    ops := ops, prepared := if cfg.leaf then prepare db (ops.map (·.1)) [] else [] }

def dummyW (U : Upd σ N C) : W σ N C :=
  { st := U.init, left := false, right := none, low := none, high := none, ops := [], pc := .done }

/-- the state after `run` spawned its workers -/
def initG (U : Upd σ N C) (cfg : Cfg) (db : List (DbN N)) (cs : List (Nat × C)) (wps : List WP) : G σ N C :=
  { n := wps.length,
    ws := fun i => match wps[i]? with
      | some p => mkWorker U cfg db cs i p
      | none => dummyW U,
    chans := fun _ => [] }

end Nomt.ExtRange
