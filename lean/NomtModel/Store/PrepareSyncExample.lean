import NomtModel.Store.PrepareSyncTheorems
import NomtModel.Store.WalExample
/-!
Concrete states for the non-vacuity examples and the counterexamples of `Props/C04_PrepareSync.lean`
(hash = the constant 0, a table of two buckets).

* `exS` / `exT`: the empty table; `exD`: the page `exPage` (slots 0 and 1 non-zero) as a fresh page with the diff
  `{0, 1}`; `exD2`: the same page with the diff `{1}` — the seeded change `C03-wal-diff-drops-reconstruction`
  (`diff: updated.diff` instead of `updated.total_diff()`): slot 0 was written by the reconstruction, only slot 1 by the
  update.
* `exS3` / `exT3`: `exPage` stored in bucket 0; `exD3`: finding F20 — slot 0 becomes a terminator (zeroed), slot 1 is
  rewritten, and the diff names only slot 1.
-/
namespace Nomt.PrepSync
open Nomt Nomt.Wal Nomt.Store Nomt.Store.Probe Nomt.Wal.Builder

def exHash : Bytes → Nat := fun _ => 0
def exPid : Bytes := List.replicate 32 0

def exS : St := { mm := { buckets := 2, bitvec := List.replicate 4096 0 }, occupied := 0 }
def exT : Wal.Table := { «meta» := List.replicate 4096 0, pages := [exOld, exOld] }
def exB : Builder := { size := 2 ^ 30, chunks := [], cur := 0 }

def exD : Dirty := { pid := exPid, page := exPage, diff := ⟨3, 0⟩, bucket := .fresh }
def exD2 : Dirty := { pid := exPid, page := exPage, diff := ⟨2, 0⟩, bucket := .fresh }

theorem slotAt_two (s0 s1 : Slot) (b : Nat) :
    slotAt [s0, s1] b = if b = 0 then s0 else if b = 1 then s1 else .empty := by
  unfold slotAt
  match b with
  | 0 => rfl
  | 1 => rfl
  | b + 2 => simp

theorem exB_size : SizeInv exB.size := by
  show 1 ≤ 2 ^ 30 ∧ 2 ^ 30 % PAGE_SIZE = 0
  refine ⟨?_, ?_⟩ <;> decide

theorem exS_slots : exS.mm.slots = [.empty, .empty] := by decide +kernel

theorem exLabel : labelOf exPage = exPid := by decide +kernel

theorem exBefore : Before exHash exS exT where
  hh := fun _ => by show (0 : Nat) < 2 ^ 64; omega
  wf := ⟨by decide, by decide, by decide +kernel⟩
  disk_meta := rfl
  disk_pages := rfl
  pagesWF := by
    intro p hp
    change p ∈ [exOld, exOld] at hp
    rcases List.mem_cons.1 hp with rfl | hp
    · exact exOld_length
    · rw [List.mem_singleton.1 hp]; exact exOld_length
  inv := by
    intro b tg h
    exfalso
    have hs : (viewOf exS.mm exT.pages).slots = [.empty, .empty] := exS_slots
    rw [hs, slotAt_two] at h
    by_cases h0 : b = 0
    · simp [h0] at h
    · by_cases h1 : b = 1
      · simp [h1] at h
      · simp [h0, h1] at h
  nodup := by
    intro b1 b2 h1 _ _
    exfalso
    have hs : (viewOf exS.mm exT.pages).slots = [.empty, .empty] := exS_slots
    rw [hs, slotAt_two] at h1
    by_cases h0 : b1 = 0
    · simp [h0, isFull] at h1
    · by_cases h1' : b1 = 1
      · simp [h1', isFull] at h1
      · simp [h0, h1', isFull] at h1

theorem exFindNone : find (hashN exHash) (viewOf exS.mm exT.pages) (pidN exPid) = none := by decide +kernel

theorem exChanges (w0 : Nat) (hw : w0 < 2 ^ 62) (hp : PageDiff.Plain ⟨w0, 0⟩) :
    ChangesOK exHash exS exT [{ pid := exPid, page := exPage, diff := ⟨w0, 0⟩, bucket := .fresh }] where
  typed := by
    intro d hd
    simp only [List.mem_singleton] at hd
    subst hd
    exact ⟨by show exPid.length = 32; decide, exPage_length,
      ⟨by show w0 < 2 ^ 64; omega, by show (0 : Nat) < 2 ^ 64; omega⟩, trivial⟩
  plain := by
    intro d hd _
    simp only [List.mem_singleton] at hd
    subst hd
    exact ⟨hp, exLabel⟩
  pids := by simp
  contract := by
    refine ⟨?_, trivial⟩
    unfold AgreesAt
    simp only
    refine ⟨?_, exFindNone⟩
    rw [PageDiff.cleared_eq]; exact hp.2

theorem exChangesD : ChangesOK exHash exS exT [exD] := exChanges 3 (by omega) plain_3
theorem exChangesD2 : ChangesOK exHash exS exT [exD2] := exChanges 2 (by omega) plain_2

theorem flatten_length_le : ∀ (l : List Bytes), (∀ x ∈ l, x.length ≤ 32) → l.flatten.length ≤ l.length * 32 := by
  intro l
  induction l with
  | nil => intro _; simp
  | cons x l ih =>
    intro h
    simp only [List.flatten_cons, List.length_append, List.length_cons]
    have := ih (fun y hy => h y (List.mem_cons_of_mem _ hy))
    have := h x (List.mem_cons_self ..)
    omega

theorem packed_length_le (P : Bytes) (d : PageDiff) : (packedOf P d).flatten.length ≤ 4096 := by
  have h1 := flatten_length_le (packedOf P d) (by
    intro x hx
    unfold packedOf at hx
    obtain ⟨i, _, rfl⟩ := List.mem_map.1 hx
    simp [slice]; omega)
  have h2 : (packedOf P d).length ≤ 128 := by
    unfold packedOf PageDiff.ones
    rw [List.length_map]
    exact Nat.le_trans (List.length_filter_le _ _) (by simp)
  have : (packedOf P d).length * 32 ≤ 128 * 32 := Nat.mul_le_mul_right _ h2
  omega

theorem encLen_le (d : Dirty) (hp : d.pid.length = 32) : encLen d ≤ 5000 := by
  unfold encLen entryOf
  split
  · simp [encEntry]
  · simp only [encEntry, List.length_cons, List.length_append, leBytes_length, PageDiff.asBytes, hp]
    have := packed_length_le d.page d.diff
    omega

theorem exEncLen (w0 : Nat) : 6 + ([({ pid := exPid, page := exPage, diff := ⟨w0, 0⟩, bucket := .fresh } : Dirty)].map encLen).sum < MAX_SIZE := by
  simp only [List.map_cons, List.map_nil, List.sum_cons, List.sum_nil]
  have := encLen_le { pid := exPid, page := exPage, diff := ⟨w0, 0⟩, bucket := .fresh } (by show exPid.length = 32; decide)
  unfold MAX_SIZE
  omega

/-- the call on the empty table with one fresh page succeeds -/
theorem exRuns (debug : Bool) (w0 : Nat) (hw : w0 < 2 ^ 62) (hp : PageDiff.Plain ⟨w0, 0⟩) :
    ∃ res, prepareSync exHash debug exS 7 [{ pid := exPid, page := exPage, diff := ⟨w0, 0⟩, bucket := .fresh }] exB = .ok res := by
  rcases prepareSync_total debug 7 exBefore (exChanges w0 hw hp) exB_size (exEncLen w0) with h | ⟨mm, k, d, _, g2, _, g4⟩
  · exact h
  · exfalso
    cases k with
    | zero =>
      simp only [List.getElem?_cons_zero] at g2
      injection g2 with g2
      subst g2
      have : alloc (hashN exHash) ALLOC_ATTEMPTS (viewOf exS.mm exT.pages) (pidN exPid) = some 0 := by decide +kernel
      have g4' : alloc (hashN exHash) ALLOC_ATTEMPTS (viewOf exS.mm exT.pages) (pidN exPid) = none := g4
      rw [this] at g4'
      cases g4'
    | succ k => simp at g2

/-- whatever bucket the fresh page got, its old content is the empty page -/
theorem exOldBucket (b : Nat) (hb : b < 2) : exT.pages.getD b [] = exOld := by
  match b, hb with
  | 0, _ => rfl
  | 1, _ => rfl

theorem exNotCovered : ¬ Covers exOld exD2 := by
  intro h
  have := h 0 (by omega) (by show 0 / 32 ∉ (⟨2, 0⟩ : PageDiff).ones; rw [ones_2]; simp)
  revert this
  decide +kernel

theorem exCovered : Covers exOld exD := exAgree

/-! ## finding F20 -/

def f20Page : Bytes := List.replicate 32 0 ++ List.replicate 32 2 ++ List.replicate 4032 0
def exS3 : St := { mm := { buckets := 2, bitvec := 128 :: List.replicate 4095 0 }, occupied := 1 }
def exT3 : Wal.Table := { «meta» := 128 :: List.replicate 4095 0, pages := [exPage, exOld] }
def exD3 : Dirty := { pid := exPid, page := f20Page, diff := ⟨2, 0⟩, bucket := .known 0 }

theorem f20Page_length : f20Page.length = PAGE_SIZE := by decide +kernel
theorem exS3_slots : exS3.mm.slots = [.full 0, .empty] := by decide +kernel
theorem f20Label : labelOf f20Page = exPid := by decide +kernel

theorem exBefore3 : Before exHash exS3 exT3 where
  hh := fun _ => by show (0 : Nat) < 2 ^ 64; omega
  wf := ⟨by decide, by decide, by decide +kernel⟩
  disk_meta := rfl
  disk_pages := rfl
  pagesWF := by
    intro p hp
    change p ∈ [exPage, exOld] at hp
    rcases List.mem_cons.1 hp with rfl | hp
    · exact exPage_length
    · rw [List.mem_singleton.1 hp]; exact exOld_length
  inv := by
    intro b tg h
    have hs : (viewOf exS3.mm exT3.pages).slots = [.full 0, .empty] := exS3_slots
    have hn : (viewOf exS3.mm exT3.pages).n = 2 := by show (viewOf exS3.mm exT3.pages).slots.length = 2; rw [hs]; rfl
    rw [hs, slotAt_two] at h
    by_cases h0 : b = 0
    · simp only [h0, if_true] at h
      injection h with h
      subst h0
      refine ⟨h.symm, 0, by omega, ?_, fun j hj => by omega⟩
      rw [hn]; rfl
    · by_cases h1 : b = 1
      · simp [h1] at h
      · simp [h0, h1] at h
  nodup := by
    intro b1 b2 h1 h2 _
    have hs : (viewOf exS3.mm exT3.pages).slots = [.full 0, .empty] := exS3_slots
    rw [hs, slotAt_two] at h1 h2
    have e1 : b1 = 0 := by
      apply Classical.byContradiction
      intro h0
      by_cases h1' : b1 = 1
      · simp [h1', isFull] at h1
      · simp [h0, h1', isFull] at h1
    have e2 : b2 = 0 := by
      apply Classical.byContradiction
      intro h0
      by_cases h1' : b2 = 1
      · simp [h1', isFull] at h2
      · simp [h0, h1', isFull] at h2
    rw [e1, e2]

theorem exFind3 : find (hashN exHash) (viewOf exS3.mm exT3.pages) (pidN exPid) = some 0 := by decide +kernel

theorem exChangesD3 : ChangesOK exHash exS3 exT3 [exD3] where
  typed := by
    intro d hd
    simp only [List.mem_singleton] at hd
    subst hd
    exact ⟨by show exPid.length = 32; decide, f20Page_length,
      ⟨by show (2 : Nat) < 2 ^ 64; omega, by show (0 : Nat) < 2 ^ 64; omega⟩, by show (0 : Nat) < 2 ^ 64; omega⟩
  plain := by
    intro d hd _
    simp only [List.mem_singleton] at hd
    subst hd
    exact ⟨plain_2, f20Label⟩
  pids := by simp
  contract := ⟨exFind3, trivial⟩

theorem exEncLen3 : 6 + ([exD3].map encLen).sum < MAX_SIZE := by
  simp only [List.map_cons, List.map_nil, List.sum_cons, List.sum_nil]
  have := encLen_le exD3 (by show exPid.length = 32; decide)
  unfold MAX_SIZE
  omega

theorem exRuns3 (debug : Bool) : ∃ res, prepareSync exHash debug exS3 7 [exD3] exB = .ok res := by
  rcases prepareSync_total debug 7 exBefore3 exChangesD3 exB_size exEncLen3 with h | ⟨mm, k, d, _, g2, g3, _⟩
  · exact h
  · exfalso
    cases k with
    | zero =>
      simp only [List.getElem?_cons_zero] at g2
      injection g2 with g2
      subst g2
      rcases g3.2 with e | e <;> cases e
    | succ k => simp at g2

theorem f20NotCovered : ¬ Covers exPage exD3 := by
  intro h
  have := h 0 (by omega) (by show 0 / 32 ∉ (⟨2, 0⟩ : PageDiff).ones; rw [ones_2]; simp)
  revert this
  decide +kernel

theorem exD2_cleared : exD2.diff.cleared = false := by decide
theorem exD3_cleared : exD3.diff.cleared = false := by decide
theorem exD3_bucket : exD3.bucket = .known 0 := rfl

theorem ups_single (d : Dirty) (b : Nat) (hc : d.diff.cleared = false) : ups [d] [b] = [(b, d)] := by
  simp [ups, hc]

theorem pairs_single (d : Dirty) (b : Nat) : pairs [d] [b] = [(b, d)] := rfl

theorem length_one {l : List Nat} (h : l.length = 1) : ∃ b, l = [b] := by
  match l, h with
  | [b], _ => exact ⟨b, rfl⟩

end Nomt.PrepSync
