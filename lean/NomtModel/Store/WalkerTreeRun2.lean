import NomtModel.Store.WalkerTreeRun
import NomtModel.Store.WalkerPaths
/-!
# The invariant of a script on the tree walker

Between two calls the walker sits at a position `c` such that everything below `c` and every left sibling on the way to `c`
holds the specified nodes of the NEW key set `S'`, everything to the right of `c` still holds what the store held at the
start, the replaced terminals processed so far lie under or left of `c` and the remaining terminals to its right (`InvB`).
-/
namespace Nomt.Walker
open Nomt Nomt.TriePos

variable {Node VH : Type} [DecidableEq Node] [DecidableEq VH] (H : Hasher Node VH) (D : Path → Prop)

abbrev Step (VH : Type) := Path × Option (List (Key × VH))

/-- the script of one walk: strictly ascending prefix-free terminal positions of `S`, each with the keys of `S'` below it
(`none`: visited by `advance`, nothing changes below it); what branches away from every replaced terminal is unchanged -/
structure ScriptOK (S S' : List (Key × VH)) (steps : List (Step VH)) : Prop where
  asc : steps.Pairwise (fun s1 s2 => LeftOf s1.1 s2.1)
  len : ∀ s ∈ steps, s.1.length ≤ 256
  term : ∀ s ∈ steps, (sub S s.1).length ≤ 1 ∧ Mean S s.1
  repl : ∀ s ∈ steps, ∀ ops, s.2 = some ops → ops = sub S' s.1
  out : ∀ q, q.length ≤ 256 → (∀ s ∈ steps, s.2.isSome = true → Diverge s.1 q) → sub S' q = sub S q

/-- the store the walk starts from represents `S` -/
def Rep0 (S : List (Key × VH)) (store0 : Store Node) : Prop :=
  ∀ q, q.length ≤ 256 → D q → Mean S q → store0 q = specNode H S q

/-- every slot on the way to a terminal (and its sibling slot) is materialised -/
def PathsIn (steps : List (Step VH)) : Prop :=
  ∀ s ∈ steps, ∀ x, x <+: s.1 → x ≠ [] → D x ∧ D (sibPath x)

/-- a sub-trie that branches away from every replaced terminal and is untouched is right for `S'` as well -/
theorem clean_good {S S' : List (Key × VH)} {steps : List (Step VH)} (hso : ScriptOK S S' steps)
    {store0 : Store Node} (hrep : Rep0 H D S store0) (st : Store Node) (R : Path) (hR : R.length ≤ 256)
    (hdiv : ∀ s ∈ steps, s.2.isSome = true → Diverge s.1 R) (hmean : Mean S R) (hDR : D R)
    (hst : ∀ q, R <+: q → st q = store0 q) :
    Good H S' st R ∧ SubOK H D S' st R := by
  have hsub : ∀ q, R <+: q → q.length ≤ 256 → sub S' q = sub S q := by
    intro q hq hl
    apply hso.out q hl
    intro s hs hsome
    exact diverge_symm (diverge_extend (diverge_symm (hdiv s hs hsome)) hq)
  have hspec : ∀ q, R <+: q → q.length ≤ 256 → specNode H S' q = specNode H S q := by
    intro q hq hl; unfold specNode; rw [hsub q hq hl]
  constructor
  · show st R = _
    rw [hst R (List.prefix_refl _), hspec R (List.prefix_refl _) hR]
    exact hrep R hR hDR hmean
  · intro r hpre hne hlen hD hm
    rw [hst r hpre, hspec r hpre hlen]
    apply hrep r hlen hD
    rcases hm with h | h
    · exact Or.inl h
    · right
      obtain ⟨b, rest, rfl⟩ := prefix_strict_cases hpre hne
      have hd : (R ++ b :: rest).dropLast = R ++ (b :: rest).dropLast := by
        rw [List.dropLast_append_of_ne_nil (by simp)]
      rw [hd] at h ⊢
      have hl2 : (R ++ (b :: rest).dropLast).length ≤ 256 := by
        have : (R ++ (b :: rest).dropLast).length ≤ (R ++ b :: rest).length := by simp
        omega
      rw [← hsub _ (List.prefix_append _ _) hl2]
      exact h

/-! ## the loop stops when the stack runs empty -/

theorem tw_compactStep_pos_length (a : TW Node) : (a.compactStep H).2.pos.length = a.pos.length := by
  rw [tw_compactStep_snd]
  split
  · rfl
  · split
    · simp [TW.setNode, sibPath_length]
    · rfl

theorem tw_up_pos (a : TW Node) : a.up.pos = a.pos.dropLast := by
  unfold TW.up; rfl

theorem tw_compactLoop_min (cfg : TWCfg Node) : ∀ (n : Nat) (a : TW Node), cfg.top < a.pos.length →
    TW.compactLoop H cfg n a = TW.compactLoop H cfg (min n (a.pos.length - cfg.top)) a := by
  intro n
  induction n with
  | zero => intro a _; simp
  | succ n ih =>
    intro a hlt
    have hm : min (n + 1) (a.pos.length - cfg.top) = min n (a.pos.length - cfg.top - 1) + 1 := by omega
    rw [hm, tw_compactLoop_succ, tw_compactLoop_succ]
    have hlen : ((a.compactStep H).2.up).pos.length = a.pos.length - 1 := by
      rw [tw_up_pos, List.length_dropLast, tw_compactStep_pos_length]
    by_cases he : ((a.compactStep H).2.up).stackEmpty cfg = true
    · rw [if_pos he, if_pos he]
    · rw [if_neg he, if_neg he]
      have hgt : cfg.top < (((a.compactStep H).2.up).setNode (a.compactStep H).1).pos.length := by
        unfold TW.stackEmpty at he
        simp only [decide_eq_true_eq] at he
        show cfg.top < ((a.compactStep H).2.up).pos.length
        omega
      rw [ih _ hgt]
      have : (((a.compactStep H).2.up).setNode (a.compactStep H).1).pos.length - cfg.top
          = a.pos.length - cfg.top - 1 := by
        show ((a.compactStep H).2.up).pos.length - cfg.top = _
        rw [hlen]; omega
      rw [this]

/-! ## the invariant -/

structure InvB (S S' : List (Key × VH)) (store0 : Store Node) (cfg : TWCfg Node) (done todo : List (Step VH))
    (a : TW Node) : Prop where
  len : a.pos.length ≤ 256
  good : (cfg.top < a.pos.length ∨ cfg.hasParent = false) → Good H S' a.store a.pos
  below : SubOK H D S' a.store a.pos
  left : ∀ x, (x ++ [true]) <+: a.pos → cfg.top ≤ x.length →
    Good H S' a.store (x ++ [false]) ∧ SubOK H D S' a.store (x ++ [false])
  right : ∀ q, LeftOf a.pos q → a.store q = store0 q
  doneP : ∀ s ∈ done, s.2.isSome = true → (a.pos <+: s.1 ∨ LeftOf s.1 a.pos)
  todoP : ∀ s ∈ todo, LeftOf a.pos s.1
  anc : ∀ x, x <+: a.pos → x ≠ a.pos → 2 ≤ (sub S x).length
  logok : ∀ e ∈ a.log, LogOK H D S' e
  cprok : ∀ e ∈ a.cpr, e.2 = specNode H S' e.1 ∧ e.1.length = cfg.top
  cprnil : cfg.hasParent = false → a.cpr = []
  onpath : ∀ x, x <+: a.pos → x ≠ [] → D x ∧ D (sibPath x)

/-- every remaining terminal branches right of the walker's position no deeper than the next one does -/
theorem todo_branch {S S' : List (Key × VH)} {done todo : List (Step VH)} {s : Step VH}
    (hso : ScriptOK S S' (done ++ s :: todo)) (p w r : Path) (ht : s.1 = p ++ true :: r) :
    ∀ s' ∈ s :: todo, ∃ p0 s0 r0, p0.length ≤ p.length ∧ p ++ false :: w = p0 ++ false :: s0 ∧
      s'.1 = p0 ++ true :: r0 := by
  intro s' hs'
  rcases List.mem_cons.mp hs' with h | h
  · subst h; exact ⟨p, w, r, Nat.le_refl _, rfl, ht⟩
  · have hpw := (List.pairwise_append.mp hso.asc).2.1
    have := (List.pairwise_cons.mp hpw).1 s' h
    rw [ht] at this
    exact leftOf_trans_depth p w r s'.1 this

theorem invB_compact (hs : H.Sound) {S S' : List (Key × VH)} (hS' : KeysOK S')
    {done todo : List (Step VH)} {s : Step VH} (hso : ScriptOK S S' (done ++ s :: todo))
    {store0 : Store Node} (hrep : Rep0 H D S store0) (cfg : TWCfg Node) (a : TW Node)
    (hinv : InvB H D S S' store0 cfg done (s :: todo) a) :
    InvB H D S S' store0 cfg done (s :: todo) (a.compactUp H cfg (some s.1)) ∧
    (a.compactUp H cfg (some s.1)).pos.length ≤ max (sharedBits (a.compactUp H cfg (some s.1)).pos s.1 + 1) cfg.top := by
  obtain ⟨p, w, r, hc, ht⟩ := hinv.todoP s (List.mem_cons_self ..)
  unfold TW.compactUp
  by_cases hse : a.stackEmpty cfg = true
  · rw [if_pos hse]
    refine ⟨hinv, ?_⟩
    unfold TW.stackEmpty at hse
    simp only [decide_eq_true_eq] at hse
    omega
  · rw [if_neg hse]
    have htop : cfg.top < a.pos.length := by
      unfold TW.stackEmpty at hse
      simp only [decide_eq_true_eq] at hse
      omega
    have hsb : sharedBits a.pos s.1 = p.length := by rw [hc, ht]; exact sharedBits_leftOf p w r
    have hclen : a.pos.length = p.length + 1 + w.length := by rw [hc]; simp; omega
    simp only [hsb]
    rw [tw_compactLoop_min H cfg _ a htop]
    -- the target
    obtain ⟨L, hL⟩ : ∃ L, L = max (p.length + 1) cfg.top := ⟨_, rfl⟩
    have hLle : L ≤ a.pos.length := by omega
    have hn : min (a.pos.length - (p.length + 1)) (a.pos.length - cfg.top) = a.pos.length - L := by omega
    rw [hn]
    have hsplit : a.pos = a.pos.take L ++ a.pos.drop L := (List.take_append_drop L a.pos).symm
    have hpl : (a.pos.take L).length = L := by rw [List.length_take]; omega
    have hpre : (a.pos.take L) <+: a.pos := List.take_prefix _ _
    have h256 : a.pos.length ≤ 256 := hinv.len
    have hspec := tw_compactLoop_spec H D hs hS' cfg (a.pos.length - L) a (a.pos.take L) (a.pos.drop L) hsplit
      (by rw [List.length_drop]) (by rw [hpl]; omega) (by rw [← hsplit]; exact h256)
      (by rw [← hsplit]; exact hinv.good (Or.inl htop)) (by rw [← hsplit]; exact hinv.below)
      (by
        intro s1 b1 hs1
        have hxc : (a.pos.take L ++ s1 ++ [b1]) <+: a.pos := by
          obtain ⟨u, hu⟩ := hs1
          refine ⟨u, ?_⟩
          conv => rhs; rw [hsplit, ← hu]
          simp
        have hxl : L ≤ (a.pos.take L ++ s1).length := by simp [hpl]
        cases b1 with
        | true => exact hinv.left _ hxc (by omega)
        | false =>
          simp only [Bool.not_false]
          have hxlen : (a.pos.take L ++ s1 ++ [true]).length ≤ 256 := by
            have := hxc.length_le
            simp at this ⊢; omega
          apply clean_good H D hso hrep a.store _ hxlen
          · intro s' hs' hsome
            rcases List.mem_append.mp hs' with hd | ht'
            · rcases hinv.doneP s' hd hsome with h | h
              · exact Or.inl (leftOf_rightSib_of_under hxc h)
              · exact diverge_rightSib_of_left hxc h
            · obtain ⟨p0, s0, r0, hp0, hc0, ht0⟩ := todo_branch hso p w r ht s' ht'
              right
              have hp0c : (p0 ++ [false]) <+: a.pos := by rw [hc, hc0]; exact ⟨s0, by simp⟩
              have hxpre : (a.pos.take L ++ s1) <+: a.pos :=
                List.IsPrefix.trans (List.prefix_append _ _) hxc
              have : (p0 ++ [false]) <+: (a.pos.take L ++ s1) := by
                rcases prefix_comparable hp0c hxpre with h | h
                · exact h
                · have hle := h.length_le
                  have hge : (p0 ++ [false]).length ≤ (a.pos.take L ++ s1).length := by
                    simp [hpl]; omega
                  rw [h.eq_of_length (by omega)]
                  exact List.prefix_refl _
              exact leftOf_of_branch (List.IsPrefix.trans this (List.prefix_append _ _)) (by rw [ht0]; exact ⟨r0, by simp⟩)
          · right
            rw [List.dropLast_concat]
            apply hinv.anc
            · exact List.IsPrefix.trans (List.prefix_append _ _) hxc
            · intro e
              have h1 := hxc.length_le
              have h2 := congrArg List.length e
              simp only [List.length_append, List.length_singleton] at h1 h2
              omega
          · have := (hinv.onpath _ hxc (by simp)).2
            rwa [sibPath_snoc] at this
          · intro q hq
            exact hinv.right q (leftOf_of_branch hxc hq))
    obtain ⟨hP, hSub, hFr, hLog, hLogMono, hZero, hPos⟩ := hspec
    have hnotunder : ∀ q, LeftOf (a.pos.take L) q → ¬ (a.pos.take L) <+: q := fun q h => (leftOf_not_prefix h).1
    constructor
    · constructor
      · rw [hP, hpl]; omega
      · intro hlt
        rw [hP] at hlt ⊢
        by_cases hn0 : a.pos.length - L = 0
        · rw [hZero hn0]
          have : a.pos.take L = a.pos := List.take_of_length_le (by omega)
          rw [this]; exact hinv.good (Or.inl htop)
        · have := hPos (by omega)
          rw [if_neg (by
            intro h
            rcases hlt with h' | h'
            · omega
            · rw [h'] at h; exact absurd h.2 (by simp))] at this
          exact this.2
      · rw [hP]; exact hSub
      · intro x hx hxt
        rw [hP] at hx
        obtain ⟨hg, hsu⟩ := hinv.left x (List.IsPrefix.trans hx hpre) hxt
        have hnu : ∀ q, (x ++ [false]) <+: q → ¬ (a.pos.take L) <+: q := by
          intro q hq h
          have h1 : (x ++ [true]) <+: q := List.IsPrefix.trans hx h
          have := not_prefix_flip x true q h1
          simp only [Bool.not_true] at this
          exact this hq
        constructor
        · show _ = _
          rw [hFr _ (hnu _ (List.prefix_refl _))]; exact hg
        · intro q hq hne hl hD hm
          rw [hFr _ (hnu _ hq)]; exact hsu q hq hne hl hD hm
      · intro q hq
        rw [hP] at hq
        rw [hFr q (hnotunder q hq)]
        exact hinv.right q (leftOf_extend_left hq hpre)
      · intro s' hs' hsome
        rw [hP]
        exact under_or_left_take (hinv.doneP s' hs' hsome) L
      · intro s' hs'
        rw [hP]
        obtain ⟨p0, s0, r0, hp0, hc0, ht0⟩ := todo_branch hso p w r ht s' hs'
        exact leftOf_take p0 s0 r0 (by rw [hc, hc0]) ht0 L (by omega)
      · intro x hx hne
        rw [hP] at hx hne
        apply hinv.anc x (List.IsPrefix.trans hx hpre)
        intro e
        apply hne
        rw [e] at hx
        have := hx.length_le
        rw [hpl] at this
        have : a.pos.take L = a.pos := List.take_of_length_le (by omega)
        rw [this, e]
      · intro e he
        rcases hLog e he with h | h
        · exact hinv.logok e h
        · exact h
      · intro e he
        by_cases hn0 : a.pos.length - L = 0
        · rw [hZero hn0] at he; exact hinv.cprok e he
        · have := hPos (by omega)
          split at this
          · rename_i hcond
            rw [this.1, List.mem_append, List.mem_singleton] at he
            rcases he with he | he
            · exact hinv.cprok e he
            · subst he
              refine ⟨rfl, ?_⟩
              rw [hpl]; rw [hpl] at hcond; omega
          · rw [this.1] at he; exact hinv.cprok e he
      · intro hpar
        by_cases hn0 : a.pos.length - L = 0
        · rw [hZero hn0]; exact hinv.cprnil hpar
        · have := hPos (by omega)
          rw [if_neg (by intro h; rw [hpar] at h; exact absurd h.2 (by simp))] at this
          rw [this.1]; exact hinv.cprnil hpar
      · intro x hx hne
        rw [hP] at hx
        exact hinv.onpath x (List.IsPrefix.trans hx hpre) hne
    · rw [hP, hpl]
      have : sharedBits (a.pos.take L) s.1 = p.length := by
        have e : a.pos.take L = p ++ false :: (w.take (L - (p.length + 1))) := by
          rw [hc, List.take_append, List.take_of_length_le (by omega)]
          congr 1
          have : L - p.length = (L - (p.length + 1)) + 1 := by omega
          rw [this, List.take_succ_cons]
        rw [e, ht]; exact sharedBits_leftOf _ _ _
      rw [this]; omega

/-! ## jumping to the next terminal and replacing it -/

theorem leftOf_trans {a b c : Path} (h1 : LeftOf a b) (h2 : LeftOf b c) : LeftOf a c := by
  obtain ⟨p, s, r, rfl, rfl⟩ := h1
  obtain ⟨p0, s0, r0, _, he, hc⟩ := leftOf_trans_depth p s r c h2
  exact ⟨p0, s0, r0, he, hc⟩

/-- the proper ancestors of a terminal of `S` are internal nodes of `S` -/
theorem anc_of_terminal {S : List (Key × VH)} (hS : KeysOK S) (t x : Path) (ht : t.length ≤ 256) (hm : Mean S t)
    (hx : x <+: t) (hne : x ≠ t) : 2 ≤ (sub S x).length := by
  rcases hm with h | h
  · subst h
    have : x = [] := List.prefix_nil.mp hx
    exact absurd this hne
  · obtain ⟨b, rest, rfl⟩ := prefix_strict_cases hx (Ne.symm hne)
    have hd : (x ++ b :: rest).dropLast = x ++ (b :: rest).dropLast := by
      rw [List.dropLast_append_of_ne_nil (by simp)]
    rw [hd] at h
    have hl2 : (x ++ (b :: rest).dropLast).length ≤ 256 := by
      have : (x ++ (b :: rest).dropLast).length ≤ (x ++ b :: rest).length := by simp
      omega
    have := sub_length_mono_prefix hS x ((b :: rest).dropLast) hl2
    omega

/-- what `replace_terminal` at the next terminal needs from the state it is entered in -/
structure PreRep (S S' : List (Key × VH)) (store0 : Store Node) (cfg : TWCfg Node) (done : List (Step VH))
    (a : TW Node) (t : Path) : Prop where
  left : ∀ x, (x ++ [true]) <+: t → cfg.top ≤ x.length →
    Good H S' a.store (x ++ [false]) ∧ SubOK H D S' a.store (x ++ [false])
  right : ∀ q, LeftOf t q → a.store q = store0 q
  doneP : ∀ s ∈ done, s.2.isSome = true → LeftOf s.1 t
  logok : ∀ e ∈ a.log, LogOK H D S' e
  cprok : ∀ e ∈ a.cpr, e.2 = specNode H S' e.1 ∧ e.1.length = cfg.top
  cprnil : cfg.hasParent = false → a.cpr = []
  onpath : ∀ x, x <+: t → x ≠ [] → D x ∧ D (sibPath x)

/-- a left sibling on the way to the next terminal that nothing has touched yet -/
theorem fresh_left_sibling {S S' : List (Key × VH)} (hS : KeysOK S) {done todo : List (Step VH)} {s : Step VH}
    (hso : ScriptOK S S' (done ++ s :: todo)) (hDp : PathsIn D (done ++ s :: todo))
    {store0 : Store Node} (hrep : Rep0 H D S store0) (st : Store Node)
    (x : Path) (hx : (x ++ [true]) <+: s.1)
    (hdone : ∀ s' ∈ done, s'.2.isSome = true → LeftOf s'.1 (x ++ [false]))
    (hst : ∀ q, (x ++ [false]) <+: q → st q = store0 q) :
    Good H S' st (x ++ [false]) ∧ SubOK H D S' st (x ++ [false]) := by
  have hsmem : s ∈ done ++ s :: todo := by simp
  have hlen := hso.len s hsmem
  have hLt : LeftOf (x ++ [false]) s.1 := leftOf_of_branch (List.prefix_refl _) hx
  apply clean_good H D hso hrep st
  · have := hx.length_le
    simp at this ⊢; omega
  · intro s' hs' hsome
    rcases List.mem_append.mp hs' with hd | ht'
    · exact Or.inl (hdone s' hd hsome)
    · rcases List.mem_cons.mp ht' with h | h
      · subst h; exact Or.inr hLt
      · have hpw := (List.pairwise_append.mp hso.asc).2.1
        have := (List.pairwise_cons.mp hpw).1 s' h
        exact Or.inr (leftOf_trans hLt this)
  · right
    rw [List.dropLast_concat]
    apply anc_of_terminal hS s.1 x hlen (hso.term s hsmem).2 (List.IsPrefix.trans (List.prefix_append _ _) hx)
    intro e
    rw [← e] at hx
    have := hx.length_le
    simp at this
    omega
  · have := (hDp s hsmem _ hx (by simp)).2
    rwa [sibPath_snoc] at this
  · exact hst

theorem preRep_of_invB {S S' : List (Key × VH)} (hS : KeysOK S) {done todo : List (Step VH)} {s : Step VH}
    (hso : ScriptOK S S' (done ++ s :: todo)) (hDp : PathsIn D (done ++ s :: todo))
    {store0 : Store Node} (hrep : Rep0 H D S store0) (cfg : TWCfg Node)
    (a : TW Node) (hinv : InvB H D S S' store0 cfg done (s :: todo) a)
    (hcomp : a.pos.length ≤ max (sharedBits a.pos s.1 + 1) cfg.top) :
    PreRep H D S S' store0 cfg done a s.1 := by
  have hL : LeftOf a.pos s.1 := hinv.todoP s (List.mem_cons_self ..)
  obtain ⟨p, w, r, hc, ht⟩ := id hL
  have hsb : sharedBits a.pos s.1 = p.length := by rw [hc, ht]; exact sharedBits_leftOf p w r
  have hclen : a.pos.length = p.length + 1 + w.length := by rw [hc]; simp; omega
  have hdoneL : ∀ s' ∈ done, s'.2.isSome = true → LeftOf s'.1 s.1 := by
    intro s' hs' hsome
    rcases hinv.doneP s' hs' hsome with h | h
    · exact leftOf_extend_left hL h
    · exact leftOf_trans h hL
  refine ⟨?_, ?_, hdoneL, hinv.logok, hinv.cprok, hinv.cprnil, hDp s (by simp)⟩
  · intro x hx hxt
    obtain ⟨u, hu⟩ := hx
    have h : p ++ true :: r = x ++ true :: u := by rw [← ht, ← hu]; simp
    rcases split_cases p x true true r u h with h1 | ⟨h2, _, _⟩ | h3
    · -- above the branch point: a left sibling of the old position as well
      exact hinv.left x (by rw [hc]; exact List.IsPrefix.trans h1 (List.prefix_append _ _)) hxt
    · -- the branch point itself: the old position
      subst h2
      have hw : w = [] := by
        rcases Nat.lt_or_ge cfg.top a.pos.length with hlt | hge
        · have : w.length = 0 := by omega
          exact List.eq_nil_of_length_eq_zero this
        · omega
      subst hw
      have hpos : a.pos = x ++ [false] := hc
      rw [← hpos]
      exact ⟨hinv.good (Or.inl (by rw [hpos]; simp; omega)), hinv.below⟩
    · -- below the branch point: untouched so far
      apply fresh_left_sibling H D hS hso hDp hrep a.store x ⟨u, hu⟩
      · intro s' hs' hsome
        have hxL : LeftOf a.pos (x ++ [false]) := by
          rw [hc]
          exact leftOf_of_branch ⟨w, by simp⟩ (List.IsPrefix.trans h3 (List.prefix_append _ _))
        rcases hinv.doneP s' hs' hsome with h | h
        · exact leftOf_extend_left hxL h
        · exact leftOf_trans h hxL
      · intro q hq
        apply hinv.right
        rw [hc]
        exact leftOf_of_branch ⟨w, by simp⟩ (List.IsPrefix.trans h3 (List.IsPrefix.trans (List.prefix_append _ _) hq))
  · intro q hq
    exact hinv.right q (leftOf_trans hL hq)

theorem preRep_init {S S' : List (Key × VH)} (hS : KeysOK S) {done todo : List (Step VH)} {s : Step VH}
    (hso : ScriptOK S S' (done ++ s :: todo)) (hDp : PathsIn D (done ++ s :: todo))
    {store0 : Store Node} (hrep : Rep0 H D S store0) (cfg : TWCfg Node)
    (a : TW Node) (hst : a.store = store0) (hlog : a.log = []) (hcpr : a.cpr = [])
    (hdone : ∀ s' ∈ done, s'.2.isSome = false) :
    PreRep H D S S' store0 cfg done a s.1 := by
  refine ⟨?_, ?_, ?_, ?_, ?_, ?_, hDp s (by simp)⟩
  · intro x hx _
    apply fresh_left_sibling H D hS hso hDp hrep a.store x hx
    · intro s' hs' hsome; rw [hdone s' hs'] at hsome; cases hsome
    · intro q _; rw [hst]
  · intro q _; rw [hst]
  · intro s' hs' hsome; rw [hdone s' hs'] at hsome; cases hsome
  · intro e he; rw [hlog] at he; cases he
  · intro e he; rw [hcpr] at he; cases he
  · intro _; exact hcpr

theorem invB_replace (hs : H.Sound) {S S' : List (Key × VH)} (hS : KeysOK S) (hS' : KeysOK S')
    {done todo : List (Step VH)} {s : Step VH} (hso : ScriptOK S S' (done ++ s :: todo))
    {store0 : Store Node} (cfg : TWCfg Node) (a : TW Node) (hpre : PreRep H D S S' store0 cfg done a s.1) :
    InvB H D S S' store0 cfg (done ++ [s]) todo
      (({ a with pos := s.1 } : TW Node).replaceTerminal H cfg (sub S' s.1)) := by
  have hsmem : s ∈ done ++ s :: todo := by simp
  have hlen := hso.len s hsmem
  obtain ⟨r1, r2, r3, r4, r5, r6, r7⟩ := tw_replace_spec H D hs hS' cfg ({ a with pos := s.1 } : TW Node) hlen
  simp only at r1 r2 r3 r4 r5 r6 r7
  refine ⟨by rw [r1]; exact hlen, fun _ => by rw [r1]; exact r2, by rw [r1]; exact r3, ?_, ?_, ?_, ?_, ?_, ?_, ?_, ?_, by rw [r1]; exact hpre.onpath⟩
  · intro x hx hxt
    rw [r1] at hx
    obtain ⟨hg, hsu⟩ := hpre.left x hx hxt
    have hnu : ∀ q, (x ++ [false]) <+: q → ¬ s.1 <+: q := by
      intro q hq h
      have h1 : (x ++ [true]) <+: q := List.IsPrefix.trans hx h
      have := not_prefix_flip x true q h1
      simp only [Bool.not_true] at this
      exact this hq
    constructor
    · show _ = _
      rw [r4 _ (hnu _ (List.prefix_refl _))]; exact hg
    · intro q hq hne hl hD hm
      rw [r4 _ (hnu _ hq)]; exact hsu q hq hne hl hD hm
  · intro q hq
    rw [r1] at hq
    rw [r4 q (leftOf_not_prefix hq).1]
    exact hpre.right q hq
  · intro s' hs' hsome
    rw [r1]
    rcases List.mem_append.mp hs' with h | h
    · exact Or.inr (hpre.doneP s' h hsome)
    · rw [List.mem_singleton] at h; subst h; exact Or.inl (List.prefix_refl _)
  · intro s' hs'
    rw [r1]
    have hpw := (List.pairwise_append.mp hso.asc).2.1
    exact (List.pairwise_cons.mp hpw).1 s' hs'
  · intro x hx hne
    rw [r1] at hx hne
    exact anc_of_terminal hS s.1 x hlen (hso.term s hsmem).2 hx hne
  · intro e he
    rcases r5 e he with h | h
    · exact hpre.logok e h
    · exact h
  · intro e he
    rw [r7] at he
    exact hpre.cprok e he
  · intro hpar
    rw [r7]; exact hpre.cprnil hpar

end Nomt.Walker
