import NomtModel.Store.WalkerBuild
import NomtModel.Core.TriePos
import NomtModel.Store.PageDiffModel
import NomtModel.Store.PageLayout
import NomtModel.Core.Bits
/-!
# Mirror of `nomt/src/merkle/page_walker.rs` (`PageWalker`)

The left-to-right walker that writes updated trie nodes into 126-node pages.  Statement by statement:
`new / new_reconstructor`, `advance`, `advance_and_replace`, `advance_and_place_node`, `place_node`, `replace_terminal` (the
`build_trie` visitor), `up`, `down`, `compact_up`, `compact_step`, `node / sibling_node / set_node / set_sibling` with the
`PageDiff` bookkeeping, `assert_page_in_scope`, `build_stack`, `handle_elision_threshold`, `count_leaves`, `conclude`,
`reconstruct`, `reconstruct_pages`.

* A page is its 126 node slots and the elided-children bitfield (`Page`); the page set is a function
  `PageId → Option (Page × Origin)` plus the content `fresh` hands out (pool pages are NOT zeroed: `fresh` is arbitrary).
* Every Rust panic site (`assert!`, `unwrap`, index, integer underflow with overflow checks) is `Outcome.panic "<site>"`.
* Vectors that the Rust pushes at the end (`sibling_stack`, `child_page_roots`, `output_pages`) are lists in push order;
  the page `stack` is a list with the TOP FIRST (`stack.last()` = `head`).
* `TriePosition` is the mirror of `Core/TriePos.lean` (`none` = panic).

No proofs in this file (the driver imports it).
-/
namespace Nomt.Walker
open Nomt Nomt.TriePos
open Nomt.Wal (PageDiff)

/-- results: `ok` or `panic site` (the walker has no error values) -/
abbrev WR (α : Type) := Outcome Unit α

def ofOpt {α : Type} (site : String) : Option α → WR α
  | some a => .ok a
  | none => .panic site

/-- `PAGE_ELISION_THRESHOLD` (`merkle/mod.rs`) -/
def PAGE_ELISION_THRESHOLD : Nat := 20

variable {Node VH : Type}

/-- the observable part of a merkle page -/
structure Page (Node : Type) where
  nodes : List Node
  elided : Nat

/-- `PageOrigin`; the bucket is `some n` = `BucketInfo::Known(n)`, `none` = `BucketInfo::Fresh` -/
inductive Origin where
  | persisted (bucket : Option Nat)
  | reconstructed (pageLeaves childrenLeaves : Nat) (diff : PageDiff)

/-- the `PageSet` trait: `get`, and the slots `fresh` (= `PageMut::pristine_empty` on a pool page) hands out -/
structure PageSet (Node : Type) where
  get : PageId → Option (Page Node × Origin)
  fresh : PageId → List Node

/-- `PageSet::contains` -/
def PageSet.contains (ps : PageSet Node) (p : PageId) : Bool := (ps.get p).isSome

/-- `PageSet::insert` -/
def PageSet.insert (ps : PageSet Node) (p : PageId) (pg : Page Node) (o : Origin) : PageSet Node :=
  { ps with get := fun q => if q = p then some (pg, o) else ps.get q }

/-- `PageSet::fresh`: the bitfield is cleared by `pristine_empty` -/
def PageSet.freshPage (ps : PageSet Node) (p : PageId) : Page Node := ⟨ps.fresh p, 0⟩

/-- `page.node(i)` (`read_node`: `assert!(index < NODES_PER_PAGE)`) -/
def Page.getNode (H : Hasher Node VH) (pg : Page Node) (i : Nat) : WR Node :=
  if i < NODES_PER_PAGE then .ok (pg.nodes.getD i H.term) else .panic "read_node: index out of bounds"

/-- `page.set_node(i, n)` -/
def Page.setNode (pg : Page Node) (i : Nat) (n : Node) : WR (Page Node) :=
  if i < NODES_PER_PAGE then .ok { pg with nodes := pg.nodes.set i n } else .panic "set_node: index out of bounds"

/-- `StackPage` -/
structure StackPage (Node : Type) where
  pageId : PageId
  page : Page Node
  diff : PageDiff
  /-- `bucket_info`: `none` for reconstructed / fresh pages -/
  bucket : Option (Option Nat)
  pageLeaves : Option Nat
  prevChildrenLeaves : Option Nat
  childrenLeaves : Option Nat
  elided : Nat
  reconDiff : Option PageDiff

/-- `StackPage::new` -/
def StackPage.new (pid : PageId) (pg : Page Node) (diff : PageDiff) (o : Origin) : StackPage Node :=
  match o with
  | .persisted b =>
    { pageId := pid, page := pg, diff := diff, bucket := some b, pageLeaves := none, prevChildrenLeaves := none,
      childrenLeaves := none, elided := pg.elided, reconDiff := none }
  | .reconstructed pl cl d =>
    { pageId := pid, page := pg, diff := diff, bucket := none, pageLeaves := some pl, prevChildrenLeaves := some cl,
      childrenLeaves := none, elided := pg.elided, reconDiff := some d }

/-- `StackPage::total_diff` -/
def StackPage.totalDiff (sp : StackPage Node) : PageDiff :=
  match sp.reconDiff with
  | some d => d.join sp.diff
  | none => sp.diff

/-- the origin of a page created by `down(.., fresh = true)` -/
def freshOrigin : Origin := .reconstructed 0 0 PageDiff.empty

/-- `PageWalkerPageOutput` -/
inductive PageOut (Node : Type) where
  | updated (pageId : PageId) (page : Page Node) (diff : PageDiff) (bucket : Option Nat)
  | reconstructed (pageId : PageId) (page : Page Node) (childrenLeaves : Nat) (diff : PageDiff)

def PageOut.isReconstructed : PageOut Node → Bool
  | .reconstructed .. => true
  | .updated .. => false

def PageOut.isUpdated : PageOut Node → Bool
  | .updated .. => true
  | .reconstructed .. => false

/-- `PageWalker` -/
structure Walker (Node : Type) where
  lastPosition : Option Pos
  position : Pos
  parentPage : Option PageId
  childPageRoots : List (Pos × Node)
  root : Node
  outputPages : List (PageOut Node)
  /-- top first -/
  stack : List (StackPage Node)
  siblingStack : List (Node × Nat)
  prevNode : Option Node
  reconstruction : Bool
  inhibitElision : Bool
  /-- NOT in the Rust: `true` selects the behaviour of `set_node` before the repair of finding F20 -/
  preFix : Bool := false
  /-- NOT in the Rust: `true` = the seeded changes `C02-elision-promoted-page-diff-drops-reconstruction` /
  `C03-wal-diff-drops-reconstruction`: `push_updated` hands out `updated.diff` instead of `updated.total_diff()` -/
  mutDropReconDiff : Bool := false
  /-- NOT in the Rust: `true` = the seeded change `C02-elision-stale-prev-counter`: the tail of
  `handle_elision_threshold` does not reset the parent's `prev_children_leaves_counter` -/
  mutStalePrev : Bool := false

/-- `Output` -/
inductive Output (Node : Type) where
  | root (node : Node) (pages : List (PageOut Node))
  | childPageRoots (roots : List (Pos × Node)) (pages : List (PageOut Node))

/-- `PageWalker::new_inner` -/
def Walker.newInner (root : Node) (parent : Option PageId) (reconstruction : Bool) : Walker Node :=
  { lastPosition := none, position := Pos.new, parentPage := parent, childPageRoots := [], root := root,
    outputPages := [], stack := [], siblingStack := [], prevNode := none, reconstruction := reconstruction,
    inhibitElision := false }

/-- `PageWalker::new` -/
def Walker.new (root : Node) (parent : Option PageId) : Walker Node := Walker.newInner root parent false

/-- `PageWalker::new_reconstructor` -/
def Walker.newReconstructor (root : Node) (parent : PageId) : Walker Node := Walker.newInner root (some parent) true

section
variable (H : Hasher Node VH) [DecidableEq Node]

/-! ## `count_leaves` -/

/-- The pre-order walk of `count_leaves` below the node at `idx` of in-page layer `7 - rem`: the Rust loop descends to the
left child while the node is internal and not in the last layer, counts a leaf, then climbs while it is a right child and
steps to the sibling — the depth-first pre-order of the in-page tree, written here as the recursion over the layers.
(Node indices stay below 126 by construction, so `page.node(..)` cannot fail.) -/
def countFrom (pg : Page Node) : (rem : Nat) → (idx : Nat) → Nat
  | 0, _ => 0
  | rem + 1, idx =>
    let node := pg.nodes.getD idx H.term
    if H.kind node = .internal ∧ rem ≠ 0 then
      countFrom pg rem (2 * idx + 2) + countFrom pg rem (2 * idx + 3)
    else if H.kind node = .leaf then 1 else 0

/-- `count_leaves` -/
def countLeaves (pg : Page Node) : Nat := countFrom H pg 6 0 + countFrom H pg 6 1

/-! ## node access -/

/-- `PageWalker::node` -/
def Walker.node (w : Walker Node) : WR Node :=
  match w.stack with
  | [] => .panic "node: stack.last().unwrap()"
  | top :: _ => top.page.getNode H w.position.nodeIndex

/-- `PageWalker::sibling_node` -/
def Walker.siblingNode (w : Walker Node) : WR Node :=
  match w.stack with
  | [] => .panic "sibling_node: stack.last().unwrap()"
  | top :: _ => top.page.getNode H w.position.siblingIndex

/-- `PageDiff::set_changed` as a walker result -/
def diffSetChanged (d : PageDiff) (i : Nat) : WR PageDiff :=
  match d.setChanged i with
  | .ok d => .ok d
  | .err _ => .panic "set_changed"
  | .panic s => .panic s

/-- `PageWalker::set_node`.  Since the repair of finding F20 the slot is ALWAYS recorded in the diff and the clear bit is
raised on top of it; with `w.preFix` the function behaves as before the repair (`set_cleared()` INSTEAD of
`set_changed(node_index)`) — kept for the kernel-checked counterexample `T16_walker_diff_exact_prefix_counterexample`. -/
def Walker.setNode (w : Walker Node) (node : Node) : WR (Walker Node) :=
  let idx := w.position.nodeIndex
  match w.siblingNode H with
  | .panic s => .panic s
  | .err e => .err e
  | .ok sib =>
    match w.stack with
    | [] => .panic "set_node: stack.last_mut().unwrap()"
    | top :: rest =>
      match top.page.setNode idx node with
      | .panic s => .panic s
      | .err e => .err e
      | .ok pg =>
        let clear : Bool := w.position.isFirstLayerInPage && decide (node = H.term) && decide (sib = H.term)
        if w.preFix ∧ clear then
          .ok { w with stack := { top with page := pg, diff := top.diff.setCleared } :: rest }
        else
          match diffSetChanged top.diff idx with
          | .panic s => .panic s
          | .err e => .err e
          | .ok d =>
            .ok { w with stack := { top with page := pg, diff := if clear then d.setCleared else d } :: rest }

/-- `PageWalker::set_sibling` -/
def Walker.setSibling (w : Walker Node) (node : Node) : WR (Walker Node) :=
  let idx := w.position.siblingIndex
  match w.stack with
  | [] => .panic "set_sibling: stack.last_mut().unwrap()"
  | top :: rest =>
    match top.page.setNode idx node with
    | .panic s => .panic s
    | .err e => .err e
    | .ok pg =>
      match diffSetChanged top.diff idx with
      | .panic s => .panic s
      | .err e => .err e
      | .ok d => .ok { w with stack := { top with page := pg, diff := d } :: rest }

/-! ## `handle_elision_threshold` -/

/-- the closure `push_reconstructed`; `unwrap_or` evaluates its argument eagerly -/
def pushReconstructed (w : Walker Node) (sp : StackPage Node) : WR (Walker Node) :=
  match sp.prevChildrenLeaves with
  | none => .panic "push_reconstructed: prev_children_leaves_counter.unwrap()"
  | some prev =>
    .ok { w with outputPages := w.outputPages ++
            [.reconstructed sp.pageId sp.page (sp.childrenLeaves.getD prev) sp.totalDiff] }

/-- the closure `push_updated` -/
def pushUpdated (w : Walker Node) (sp : StackPage Node) : Walker Node :=
  { w with outputPages := w.outputPages ++
      [.updated sp.pageId sp.page (if w.mutDropReconDiff then sp.diff else sp.totalDiff) (sp.bucket.getD none)] }

def pushOut (w : Walker Node) (sp : StackPage Node) : WR (Walker Node) :=
  if w.reconstruction then pushReconstructed w sp else .ok (pushUpdated w sp)

/-- the tail of `handle_elision_threshold`: the page is kept, the parent forgets its counters -/
def keepPage (w : Walker Node) (sp : StackPage Node) (parent : StackPage Node) (rest : List (StackPage Node)) :
    WR (Walker Node) :=
  match childIndexAtLevel sp.pageId (sp.pageId.length - 1) with
  | none => .panic "handle_elision_threshold: child_index_at_level"
  | some ci =>
    let parent := { parent with childrenLeaves := none,
                                prevChildrenLeaves := if w.mutStalePrev then parent.prevChildrenLeaves else none,
                                elided := PageLayout.elidedSet parent.elided ci false }
    pushOut { w with stack := parent :: rest } sp

/-- "Store the updated elided_children field into the page." (not for the root page) -/
def storeElided (sp0 : StackPage Node) : StackPage Node :=
  if sp0.pageId ≠ [] then { sp0 with page := { sp0.page with elided := sp0.elided } } else sp0

/-- the parent's counter of leaves in child pages when the page `sp` (`plc` leaves inside, `clc` below) is elided -/
def elideParentCounter (sp parent : StackPage Node) (plc clc : Nat) : WR (StackPage Node) :=
  match parent.childrenLeaves.or parent.prevChildrenLeaves with
  | none => .ok parent
  | some pclc =>
    let prevPlc := sp.pageLeaves.getD 0
    let pageDelta : Int := (plc : Int) - (prevPlc : Int)
    match sp.prevChildrenLeaves with
    | none => .panic "handle_elision_threshold: prev_children_leaves_counter.unwrap()"
    | some prevClc =>
      let childrenDelta : Int := (clc : Int) - (prevClc : Int)
      let n : Int := (pclc : Int) + pageDelta + childrenDelta
      if n < 0 then .panic "handle_elision_threshold: try_into().unwrap()"
      else .ok { parent with childrenLeaves := some n.toNat }

/-- the branch of `handle_elision_threshold` that elides the page -/
def elidePage (w : Walker Node) (sp parent : StackPage Node) (rest : List (StackPage Node)) (plc clc : Nat) :
    WR (Walker Node) :=
  match elideParentCounter sp parent plc clc with
  | .panic s => .panic s
  | .err e => .err e
  | .ok parent =>
    match childIndexAtLevel sp.pageId (sp.pageId.length - 1) with
    | none => .panic "handle_elision_threshold: child_index_at_level"
    | some ci =>
      let parent := { parent with elided := PageLayout.elidedSet parent.elided ci true }
      let w := { w with stack := parent :: rest }
      if w.reconstruction then pushReconstructed w sp
      else if sp.bucket.isSome then .ok (pushUpdated w { sp with diff := sp.diff.setCleared })
      else .ok w

/-- `PageWalker::handle_elision_threshold` -/
def Walker.handleElision (w : Walker Node) : WR (Walker Node) :=
  match w.stack with
  | [] => .ok w
  | sp0 :: below =>
    let sp := storeElided sp0
    let w := { w with stack := below }
    match below with
    | [] => pushOut w sp
    | parent :: rest =>
      if parentPageId sp.pageId = [] then pushOut w sp else
      match sp.childrenLeaves.or sp.prevChildrenLeaves with
      | none => keepPage w sp parent rest
      | some clc =>
        let plc := countLeaves H sp.page
        if plc + clc < PAGE_ELISION_THRESHOLD ∧ ¬ w.inhibitElision then elidePage w sp parent rest plc clc
        else keepPage w sp parent rest

/-! ## moves -/

/-- `PageWalker::up` -/
def Walker.up (w : Walker Node) : WR (Walker Node) :=
  let r := if w.position.depthInPage = 1 then w.handleElision H else .ok w
  match r with
  | .panic s => .panic s
  | .err e => .err e
  | .ok w =>
    match w.position.up 1 with
    | none => .panic "up: position.up(1)"
    | some p => .ok { w with position := p }

/-- one iteration of the loop of `PageWalker::down` -/
def Walker.downBit (ps : PageSet Node) (fresh : Bool) (w : Walker Node) (bit : Bool) : WR (Walker Node) :=
  let pushed : WR (Walker Node) :=
    if w.position.isRoot then
      if fresh then
        .ok { w with stack := StackPage.new [] (ps.freshPage []) PageDiff.empty freshOrigin :: w.stack }
      else
        match ps.get [] with
        | none => .panic "down: page_set.get(&ROOT_PAGE_ID).unwrap()"
        | some (pg, o) => .ok { w with stack := StackPage.new [] pg PageDiff.empty o :: w.stack }
    else if w.position.depthInPage = DEPTH then
      match w.stack with
      | [] => .panic "down: stack.last().unwrap()"
      | parent :: _ =>
        match w.position.childPageIndex with
        | none => .panic "down: child_page_index"
        | some ci =>
          match childPageId parent.pageId ci with
          | .error _ => .panic "down: child_page_id(..).unwrap()"
          | .ok cid =>
            if fresh then
              .ok { w with stack := StackPage.new cid (ps.freshPage cid) PageDiff.empty freshOrigin :: w.stack }
            else
              match ps.get cid with
              | none => .panic "down: page_set.get(&child_page_id).unwrap()"
              | some (pg, o) => .ok { w with stack := StackPage.new cid pg PageDiff.empty o :: w.stack }
    else .ok w
  match pushed with
  | .panic s => .panic s
  | .err e => .err e
  | .ok w =>
    match w.position.down bit with
    | none => .panic "down: position.down"
    | some p => .ok { w with position := p }

/-- `PageWalker::down` -/
def Walker.down (ps : PageSet Node) (w : Walker Node) : List Bool → Bool → WR (Walker Node)
  | [], _ => .ok w
  | b :: bs, fresh =>
    match w.downBit ps fresh b with
    | .panic s => .panic s
    | .err e => .err e
    | .ok w => Walker.down ps w bs fresh

/-! ## compaction -/

/-- `PageWalker::compact_step` -/
def Walker.compactStep (w : Walker Node) : WR (Node × Walker Node) :=
  match w.node H with
  | .panic s => .panic s
  | .err e => .err e
  | .ok node =>
    match w.siblingNode H with
    | .panic s => .panic s
    | .err e => .err e
    | .ok sibling =>
      match w.position.peekLastBit with
      | none => .panic "compact_step: peek_last_bit"
      | some bit =>
        match H.kind node, H.kind sibling with
        | .terminator, .terminator => .ok (H.term, w)
        | .leaf, .terminator =>
          match w.setNode H H.term with
          | .panic s => .panic s
          | .err e => .err e
          | .ok w => .ok (node, w)
        | .terminator, .leaf =>
          match w.position.sibling with
          | none => .panic "compact_step: position.sibling"
          | some p =>
            match ({ w with position := p } : Walker Node).setNode H H.term with
            | .panic s => .panic s
            | .err e => .err e
            | .ok w => .ok (sibling, w)
        | _, _ =>
          .ok (if bit then H.internal sibling node else H.internal node sibling, w)

/-- "save the final relevant sibling": in the last round the node about to be overwritten goes on the sibling stack -/
def Walker.saveSibling (w : Walker Node) (last : Bool) : WR (Walker Node) :=
  if last then
    match w.node H with
    | .panic s => .panic s
    | .err e => .err e
    | .ok n => .ok { w with siblingStack := w.siblingStack ++ [(n, w.position.depth)] }
  else .ok w

/-- the `for i in 0..compact_layers` loop of `compact_up` (`i` counts up, `n` = remaining iterations) -/
def Walker.compactLoop : Nat → Nat → Nat → Walker Node → WR (Walker Node)
  | 0, _, _, w => .ok w
  | n + 1, i, layers, w =>
    match w.compactStep H with
    | .panic s => .panic s
    | .err e => .err e
    | .ok (next, w) =>
      match w.up H with
      | .panic s => .panic s
      | .err e => .err e
      | .ok w =>
        if w.stack.isEmpty then
          if w.parentPage.isNone then .ok { w with root := next }
          else .ok { w with childPageRoots := w.childPageRoots ++ [(w.position, next)] }
        else
          match w.saveSibling H (decide (i = layers - 1)) with
          | .panic s => .panic s
          | .err e => .err e
          | .ok w =>
            match w.setNode H next with
            | .panic s => .panic s
            | .err e => .err e
            | .ok w => Walker.compactLoop n (i + 1) layers w

/-- `PageWalker::compact_up` -/
def Walker.compactUp (w : Walker Node) (target : Option Pos) : WR (Walker Node) :=
  if w.stack.isEmpty then .ok w else
  match target with
  | some t =>
    let currentDepth := w.position.depth
    let sharedDepth := w.position.sharedDepth t
    let w := { w with siblingStack := w.siblingStack.takeWhile (fun s => s.2 ≤ sharedDepth) }
    if currentDepth < sharedDepth + 1 then .panic "compact_up: current_depth - (shared_depth + 1)" else
    let layers := currentDepth - (sharedDepth + 1)
    let w : Walker Node :=
      if layers = 0 then
        match w.prevNode with
        | some pn => { w with prevNode := none, siblingStack := w.siblingStack ++ [(pn, currentDepth)] }
        | none => w
      else { w with prevNode := none }
    Walker.compactLoop H layers 0 layers w
  | none =>
    let w := { w with siblingStack := [] }
    Walker.compactLoop H w.position.depth 0 w.position.depth w

/-! ## the stack -/

/-- `PageWalker::assert_page_in_scope` -/
def Walker.assertPageInScope (w : Walker Node) (pid : Option PageId) : WR Unit :=
  match pid with
  | some p =>
    match w.parentPage with
    | some pp =>
      if p = pp then .panic "assert_page_in_scope: assert!(&page_id != &parent_page)"
      else if ¬ isDescendantOf p pp then .panic "assert_page_in_scope: assert!(page_id.is_descendant_of(&parent_page))"
      else .ok ()
    | none => .ok ()
  | none => if w.parentPage.isNone then .ok () else .panic "assert_page_in_scope: assert!(self.parent_page.is_none())"

/-- `while !self.stack.is_empty() { self.handle_elision_threshold() }` (each round pops one page) -/
def Walker.popAll : Nat → Walker Node → WR (Walker Node)
  | 0, w => .ok w
  | n + 1, w =>
    if w.stack.isEmpty then .ok w else
    match w.handleElision H with
    | .panic s => .panic s
    | .err e => .err e
    | .ok w => Walker.popAll n w

/-- the `while Some(&cur_ancestor) != target.as_ref()` loop of `build_stack`: the pages pushed, deepest first
(= top first after the `reverse`).  The fuel `cur.length + 1` is exact: every round shortens the id by one. -/
def pushLoop (ps : PageSet Node) (target : Option PageId) : Nat → PageId → WR (List (StackPage Node))
  | 0, _ => .panic "build_stack: fuel"
  | f + 1, cur =>
    if some cur = target then .ok [] else
    match ps.get cur with
    | none => .panic "build_stack: page_set.get(&cur_ancestor).unwrap()"
    | some (pg, o) =>
      let sp := StackPage.new cur pg PageDiff.empty o
      if cur = [] then .ok [sp] else
      match pushLoop ps target f (parentPageId cur) with
      | .panic s => .panic s
      | .err e => .err e
      | .ok l => .ok (sp :: l)

/-- the target of the loop of `build_stack`: the last item in the stack (guaranteed ancestor) or the over-arching parent
page (if any) or `None` -/
def Walker.stackTarget (w : Walker Node) : Option PageId :=
  match w.stack with
  | top :: _ => some top.pageId
  | [] => w.parentPage

/-- `PageWalker::build_stack` -/
def Walker.buildStack (ps : PageSet Node) (w : Walker Node) (position : Pos) : WR (Walker Node) :=
  match position.pageId with
  | none => .panic "build_stack: position.page_id()"
  | some newPid =>
    match w.assertPageInScope newPid with
    | .panic s => .panic s
    | .err e => .err e
    | .ok () =>
      let w := { w with position := position }
      match newPid with
      | none => Walker.popAll H (w.stack.length) w
      | some pid =>
        match pushLoop ps w.stackTarget (pid.length + 1) pid with
        | .panic s => .panic s
        | .err e => .err e
        | .ok pushed => .ok { w with stack := pushed ++ w.stack }

/-! ## `replace_terminal`, `place_node` -/

/-- "we assume pages are not necessarily zeroed. therefore, there might be some garbage in the sibling slot we need to
clear out." -/
def Walker.zeroSibling (w : Walker Node) (c : WriteNode Node VH) : WR (Walker Node) :=
  match c with
  | .internal l r _ =>
    match w.position.peekLastBit with
    | none => .panic "replace_terminal: peek_last_bit"
    | some bit =>
      let zero := if bit then decide (H.kind l = .terminator) else decide (H.kind r = .terminator)
      if zero then w.setSibling H.term else .ok w
  | _ => .ok w

/-- "avoid popping pages off the stack if we are jumping to a sibling." -/
def Walker.visitMove (w : Walker Node) (up : Bool) (down : List Bool) : WR (Walker Node × List Bool) :=
  match up, down with
  | true, d0 :: drest =>
    match w.position.peekLastBit with
    | none => .panic "replace_terminal: peek_last_bit"
    | some bit =>
      if d0 = !bit then
        match w.position.sibling with
        | none => .panic "replace_terminal: position.sibling"
        | some p => .ok ({ w with position := p }, drest)
      else
        match w.up H with
        | .panic s => .panic s
        | .err e => .err e
        | .ok w => .ok (w, d0 :: drest)
  | true, [] =>
    match w.up H with
    | .panic s => .panic s
    | .err e => .err e
    | .ok w => .ok (w, [])
  | false, d => .ok (w, d)

/-- the descent: "first bit is only fresh if we are at the start position and the start is at the end of its page (or at
the root). after that, definitely is." -/
def Walker.descend (ps : PageSet Node) (startDepth : Nat) (w : Walker Node) (down : List Bool) : WR (Walker Node) :=
  match decide (w.position.depth > startDepth), down with
  | false, d0 :: drest =>
    match w.down ps [d0] (decide (w.position.depthInPage = DEPTH) || w.position.isRoot) with
    | .panic s => .panic s
    | .err e => .err e
    | .ok w => w.down ps drest true
  | _, d => w.down ps d true

/-- `if self.position.is_root() { self.root = node } else { self.set_node(node) }` -/
def Walker.writeHere (w : Walker Node) (node : Node) : WR (Walker Node) :=
  if w.position.isRoot then .ok { w with root := node } else w.setNode H node

/-- the visitor closure of `replace_terminal` -/
def Walker.visit (ps : PageSet Node) (startDepth : Nat) (w : Walker Node) (c : WriteNode Node VH) : WR (Walker Node) :=
  match w.zeroSibling H c with
  | .panic s => .panic s
  | .err e => .err e
  | .ok w =>
    match w.visitMove H c.up c.down with
    | .panic s => .panic s
    | .err e => .err e
    | .ok (w, down) =>
      match w.descend ps startDepth down with
      | .panic s => .panic s
      | .err e => .err e
      | .ok w => w.writeHere H (c.node H)

def Walker.visitAll (ps : PageSet Node) (startDepth : Nat) (w : Walker Node) :
    List (WriteNode Node VH) → WR (Walker Node)
  | [] => .ok w
  | c :: cs =>
    match w.visit H ps startDepth c with
    | .panic s => .panic s
    | .err e => .err e
    | .ok w => Walker.visitAll ps startDepth w cs

/-- `PageWalker::replace_terminal` -/
def Walker.replaceTerminal (ps : PageSet Node) (w : Walker Node) (ops : List (Key × VH)) : WR (Walker Node) :=
  let nodeR : WR Node := if w.position.isRoot then .ok w.root else w.node H
  match nodeR with
  | .panic s => .panic s
  | .err e => .err e
  | .ok node =>
    let w := { w with prevNode := some node }
    if ¬ w.reconstruction ∧ H.kind node = .internal then .panic "replace_terminal: assert!(!trie::is_internal(&node))" else
    match buildEvents H w.position.depth ops with
    | none => .panic "build_trie: bit slice out of range"
    | some evs =>
      match w.visitAll H ps w.position.depth evs with
      | .panic s => .panic s
      | .err e => .err e
      | .ok w =>
        -- "build_trie should always return us to the original position."
        if ¬ w.position.isRoot then
          match w.stack with
          | [] => .panic "replace_terminal: stack.last().unwrap()"
          | top :: _ =>
            match w.position.pageId with
            | some (some pid) =>
              if top.pageId = pid then .ok w else .panic "replace_terminal: assert_eq!(stack.last().page_id, position.page_id())"
            | _ => .panic "replace_terminal: position.page_id().unwrap()"
        else if w.stack.isEmpty then .ok w else .panic "replace_terminal: assert!(self.stack.is_empty())"

/-- `PageWalker::place_node` -/
def Walker.placeNode (w : Walker Node) (node : Node) : WR (Walker Node) :=
  if w.position.isRoot then .ok { w with prevNode := some w.root, root := node }
  else
    match w.node H with
    | .panic s => .panic s
    | .err e => .err e
    | .ok n => ({ w with prevNode := some n } : Walker Node).setNode H node

/-! ## the public calls -/

/-- the common prologue: `assert!(new_pos.path() > pos.path()); self.compact_up(Some(new_pos))`; `Ord for BitSlice` is
lexicographic with a proper prefix smaller = `bitsLt` of `Core/Bits.lean` -/
def Walker.advancePrologue (w : Walker Node) (newPos : Pos) : WR (Walker Node) :=
  match w.lastPosition with
  | some pos =>
    if ¬ Nomt.bitsLt pos.path newPos.path then .panic "advance: assert!(new_pos.path() > pos.path())"
    else w.compactUp H (some newPos)
  | none => .ok w

/-- `PageWalker::advance_and_replace` -/
def Walker.advanceAndReplace (ps : PageSet Node) (w : Walker Node) (newPos : Pos) (ops : List (Key × VH)) :
    WR (Walker Node) :=
  match w.advancePrologue H newPos with
  | .panic s => .panic s
  | .err e => .err e
  | .ok w =>
    match ({ w with lastPosition := some newPos } : Walker Node).buildStack H ps newPos with
    | .panic s => .panic s
    | .err e => .err e
    | .ok w => w.replaceTerminal H ps ops

/-- `PageWalker::advance_and_place_node` -/
def Walker.advanceAndPlaceNode (ps : PageSet Node) (w : Walker Node) (newPos : Pos) (node : Node) : WR (Walker Node) :=
  match w.advancePrologue H newPos with
  | .panic s => .panic s
  | .err e => .err e
  | .ok w =>
    match ({ w with lastPosition := some newPos } : Walker Node).buildStack H ps newPos with
    | .panic s => .panic s
    | .err e => .err e
    | .ok w => w.placeNode H node

/-- `PageWalker::advance` -/
def Walker.advance (w : Walker Node) (newPos : Pos) : WR (Walker Node) :=
  match w.advancePrologue H newPos with
  | .panic s => .panic s
  | .err e => .err e
  | .ok w =>
    match newPos.pageId with
    | none => .panic "advance: new_pos.page_id()"
    | some pid =>
      match w.assertPageInScope pid with
      | .panic s => .panic s
      | .err e => .err e
      | .ok () => .ok { w with lastPosition := some newPos }

/-- `PageWalker::conclude` -/
def Walker.conclude (w : Walker Node) : WR (Output Node) :=
  if w.reconstruction then .panic "conclude: assert!(!self.reconstruction)" else
  match w.compactUp H none with
  | .panic s => .panic s
  | .err e => .err e
  | .ok w =>
    if w.outputPages.any PageOut.isReconstructed then
      .panic "conclude: unreachable!()"
    else if w.parentPage.isNone then .ok (.root w.root w.outputPages)
    else .ok (.childPageRoots w.childPageRoots w.outputPages)

/-! ## reconstruction of elided pages -/

/-- the prologue of `PageWalker::reconstruct`: the id and the content of the first elided page (slots 0 and 1 cleared
on a fresh page, diff `{0, 1}`), which `reconstruct` inserts into the page set before anything else;
`ok none` = "already in the page set" -/
def reconFirst (ps : PageSet Node) (parent : Option PageId) (position : Pos) : WR (Option (PageId × Page Node × Origin)) :=
  match parent with
  | none => .panic "reconstruct: parent_page.unwrap()"
  | some parent =>
    match position.childPageIndex with
    | none => .panic "reconstruct: child_page_index"
    | some ci =>
      match childPageId parent ci with
      | .error _ => .panic "reconstruct: child_page_id(..).unwrap()"
      | .ok first =>
        if ps.contains first then .ok none else
        let pg0 := ps.freshPage first
        let pg : Page Node := { pg0 with nodes := (pg0.nodes.set 0 H.term).set 1 H.term }
        -- set_changed(0); set_changed(1)
        .ok (some (first, pg, .reconstructed 0 0 ⟨3, 0⟩))

/-- `PageWalker::reconstruct`: `ok none` = "already in the page set"; the page set is returned because `reconstruct`
inserts the first elided page into it -/
def Walker.reconstruct (ps : PageSet Node) (w : Walker Node) (position : Pos) (ops : List (Key × VH)) :
    WR (PageSet Node × Option (Node × List (PageOut Node))) :=
  if ¬ w.reconstruction then .panic "reconstruct: assert!(self.reconstruction)" else
  match reconFirst H ps w.parentPage position with
  | .panic s => .panic s
  | .err e => .err e
  | .ok none => .ok (ps, none)
  | .ok (some (first, pg, o)) =>
    let ps := ps.insert first pg o
    let divisor := (w.parentPage.getD []).length * DEPTH + DEPTH
    let leftOps := ops.takeWhile (fun kv => !(kv.1.getD divisor false))
    let rightOps := ops.dropWhile (fun kv => !(kv.1.getD divisor false))
    match position.down false with
    | none => .panic "reconstruct: position.down(false)"
    | some lp =>
      match w.advanceAndReplace H ps lp leftOps with
      | .panic s => .panic s
      | .err e => .err e
      | .ok w =>
        match position.down true with
        | none => .panic "reconstruct: position.down(true)"
        | some rp =>
          match w.advanceAndReplace H ps rp rightOps with
          | .panic s => .panic s
          | .err e => .err e
          | .ok w =>
            match w.compactUp H none with
            | .panic s => .panic s
            | .err e => .err e
            | .ok w =>
              if w.outputPages.any PageOut.isUpdated then
                .panic "reconstruct: unreachable!()"
              else
                match w.childPageRoots with
                | [] => .panic "reconstruct: child_page_roots[0]"
                | (_, n) :: _ => .ok (ps, some (n, w.outputPages))

/-- a page `reconstruct_pages` yields: `(page_id, page, diff, page_leaves_counter, children_leaves_counter)` -/
structure Reconstructed (Node : Type) where
  pageId : PageId
  page : Page Node
  diff : PageDiff
  pageLeaves : Nat
  childrenLeaves : Nat

def reconMap : List (PageOut Node) → WR (List (Reconstructed Node))
  | [] => .ok []
  | .reconstructed pid pg cl d :: rest =>
    match reconMap rest with
    | .panic s => .panic s
    | .err e => .err e
    | .ok l => .ok (⟨pid, pg, d, countLeaves H pg, cl⟩ :: l)
  | .updated .. :: _ => .panic "reconstruct: unreachable!()"

/-- `reconstruct_pages` -/
def reconstructPages (page : Page Node) (pageId : PageId) (position : Pos) (ps : PageSet Node) (ops : List (Key × VH)) :
    WR (PageSet Node × Option (List (Reconstructed Node))) :=
  match page.getNode H position.nodeIndex with
  | .panic s => .panic s
  | .err e => .err e
  | .ok subtreeRoot =>
    match (Walker.newReconstructor subtreeRoot pageId).reconstruct H ps position ops with
    | .panic s => .panic s
    | .err e => .err e
    | .ok (ps, none) => .ok (ps, none)
    | .ok (ps, some (root, pages)) =>
      if root ≠ subtreeRoot then .panic "reconstruct_pages: assert_eq!(root, subtree_root)" else
      match reconMap H pages with
      | .panic s => .panic s
      | .err e => .err e
      | .ok l => .ok (ps, some l)

end

end Nomt.Walker
