import NomtModel.Store.WalkerReconIds
/-!
# The recursion of a canonical block, once and for all

`tw_visit_tree_rec`: a relation `R P a a'` between the state before and after the calls of the block below `P` holds for every
block when it holds for the single-key blocks (`Leaf` call) and is kept by the closing `Internal` call of a block with one or
two non-empty halves.  Instance here: the slots a block writes (`tw_visit_tree_wl`, `tw_replace_wl`) — its root and every
meaningful slot strictly below it, the terminator slots next to a one-sided branch included (`zero_sibling`).
-/
namespace Nomt.Walker
open Nomt Nomt.TriePos

variable {Node VH : Type} [DecidableEq Node] [DecidableEq VH] (H : Hasher Node VH)

theorem tw_visit_tree_rec (hs : H.Sound) {O : List (Key × VH)} (hk : KeysOK O) (cfg : TWCfg Node) (t : Path)
    (R : Path → TW Node → TW Node → Prop)
    (hleaf : ∀ (P : Path) (prev : Option Key) (J : Path) (a : TW Node) (k : Key) (v : VH),
      t <+: P → P.length ≤ 256 → sub O P = [(k, v)] → J <+: P → PreJ t.length t prev [(k, v)] J a.pos →
      R P a (TW.visit H cfg t.length a (leafEv H t.length (P.length - t.length) prev k v)))
    (hnode1 : ∀ (P : Path) (b : Bool) (a a1 : TW Node), t <+: P → P.length < 256 → 2 ≤ (sub O P).length →
      sub O (P ++ [!b]) = [] → R (P ++ [b]) a a1 → a1.pos = P ++ [b] →
      R P a (TW.visit H cfg t.length a1 (.internal (specNode H O (P ++ [false])) (specNode H O (P ++ [true]))
        (H.internal (specNode H O (P ++ [false])) (specNode H O (P ++ [true]))))))
    (hnode2 : ∀ (P : Path) (a a0 a1 : TW Node), t <+: P → P.length < 256 →
      sub O (P ++ [false]) ≠ [] → sub O (P ++ [true]) ≠ [] → R (P ++ [false]) a a0 → R (P ++ [true]) a0 a1 →
      a1.pos = P ++ [true] →
      R P a (TW.visit H cfg t.length a1 (.internal (specNode H O (P ++ [false])) (specNode H O (P ++ [true]))
        (H.internal (specNode H O (P ++ [false])) (specNode H O (P ++ [true])))))) :
    ∀ (f : Nat) (P : Path) (prev : Option Key) (J : Path) (a : TW Node),
      256 - P.length = f → t <+: P → P.length ≤ 256 → sub O P ≠ [] → J <+: P →
      PreJ t.length t prev (sub O P) J a.pos →
      R P a (TW.visitAll H cfg t.length a
          (treeEv H t.length (256 - P.length) (P.length - t.length) (sub O P) prev)) := by
  intro f
  induction f with
  | zero =>
    intro P prev J a hf htP hP hne hJ hpre
    have hP256 : P.length = 256 := by omega
    have h1 := sub_length_le_one_of_full hk P hP256
    match hB : sub O P, hne, h1 with
    | [(k, v)], _, _ =>
      rw [hB] at hpre
      simp only [treeEv_single, TW.visitAll]
      exact hleaf P prev J a k v htP hP hB hJ hpre
  | succ f ih =>
    intro P prev J a hf htP hP hne hJ hpre
    match hB : sub O P, hne with
    | [(k, v)], _ =>
      rw [hB] at hpre
      simp only [treeEv_single, TW.visitAll]
      exact hleaf P prev J a k v htP hP hB hJ hpre
    | x :: y :: rest, _ =>
      have h2 : 2 ≤ (sub O P).length := by rw [hB]; simp
      have hPlt : P.length < 256 := lt_of_two_le_sub hk P hP h2
      rw [← hB, treeEv_sub_two H t P htP hPlt h2 prev, tw_visitAll_append, tw_visitAll_append]
      simp only [TW.visitAll]
      have hf' : ∀ b : Bool, 256 - (P ++ [b]).length = f := by intro b; simp; omega
      have htP' : ∀ b : Bool, t <+: (P ++ [b]) := fun b => List.IsPrefix.trans htP (List.prefix_append _ _)
      have hP' : ∀ b : Bool, (P ++ [b]).length ≤ 256 := by intro b; simp; omega
      have hJ' : ∀ b : Bool, J <+: (P ++ [b]) := fun b => List.IsPrefix.trans hJ (List.prefix_append _ _)
      have hmono : ∀ b : Bool, ∀ kv ∈ sub O (P ++ [b]), kv ∈ sub O P :=
        fun b => sub_mono hk P (P ++ [b]) (List.prefix_append _ _) (hP' b)
      have hsplit := sub_length_split (S := O) P
      by_cases h0 : sub O (P ++ [false]) = []
      · have h1 : sub O (P ++ [true]) ≠ [] := by
          intro h1; rw [h0, h1] at hsplit; simp at hsplit; rw [hsplit] at h2; simp at h2
        rw [h0, treeEv_nil]
        simp only [TW.visitAll]
        have hpo : prevOf ([] : List (Key × VH)) prev = prev := rfl
        rw [hpo]
        have hpre1 := preJ_mono _ _ _ _ _ _ _ hpre (hmono true)
        have hr1 := ih (P ++ [true]) prev J a (hf' true) (htP' true) (hP' true) h1 (hJ' true) hpre1
        obtain ⟨p1, _⟩ := tw_visit_tree H (fun _ => True) hs hk cfg t f (P ++ [true]) prev J a (hf' true) (htP' true)
          (hP' true) h1 (hJ' true) hpre1
        exact hnode1 P true a _ htP hPlt h2 h0 hr1 p1
      · by_cases h1 : sub O (P ++ [true]) = []
        · rw [h1, treeEv_nil]
          simp only [TW.visitAll]
          have hpre0 := preJ_mono _ _ _ _ _ _ _ hpre (hmono false)
          have hr0 := ih (P ++ [false]) prev J a (hf' false) (htP' false) (hP' false) h0 (hJ' false) hpre0
          obtain ⟨p1, _⟩ := tw_visit_tree H (fun _ => True) hs hk cfg t f (P ++ [false]) prev J a (hf' false)
            (htP' false) (hP' false) h0 (hJ' false) hpre0
          exact hnode1 P false a _ htP hPlt h2 h1 hr0 p1
        · have hpre0 := preJ_mono _ _ _ _ _ _ _ hpre (hmono false)
          have hr0 := ih (P ++ [false]) prev J a (hf' false) (htP' false) (hP' false) h0 (hJ' false) hpre0
          obtain ⟨p1, _⟩ := tw_visit_tree H (fun _ => True) hs hk cfg t f (P ++ [false]) prev J a (hf' false)
            (htP' false) (hP' false) h0 (hJ' false) hpre0
          obtain ⟨init0, l0, hinit⟩ : ∃ init l, sub O (P ++ [false]) = init ++ [l] :=
            ⟨(sub O (P ++ [false])).dropLast, (sub O (P ++ [false])).getLast h0,
              (List.dropLast_concat_getLast h0).symm⟩
          have hl0m : l0 ∈ sub O (P ++ [false]) := by rw [hinit]; simp
          have hpo : prevOf (sub O (P ++ [false])) prev = some l0.1 := by
            rw [hinit]; exact prevOf_append_singleton _ _ _
          rw [hpo]
          have hle : t.length ≤ P.length := htP.length_le
          have hpre1 : PreJ t.length t (some l0.1) (sub O (P ++ [true])) (P ++ [true])
              (TW.visitAll H cfg t.length a (treeEv H t.length (256 - (P ++ [false]).length)
                ((P ++ [false]).length - t.length) (sub O (P ++ [false])) prev)).pos := by
            refine ⟨P, p1, rfl, hle, ?_⟩
            intro kv hkv
            have m0 := (mem_sub hk (P ++ [false]) (hP' false) l0).mp hl0m
            have m1 := (mem_sub hk (P ++ [true]) (hP' true) kv).mp hkv
            have hlen0 := hk.len l0 m0.1
            have hlen1 := hk.len kv m1.1
            have ht0 : l0.1.take (P ++ [false]).length = P ++ [false] := (bl_prefix_iff_take _ _).mp m0.2
            have ht1 : kv.1.take (P ++ [true]).length = P ++ [true] := (bl_prefix_iff_take _ _).mp m1.2
            have hPP0 : l0.1.take P.length = P := by
              have := congrArg (List.take P.length) ht0
              simpa [List.take_take] using this
            have hPP1 : kv.1.take P.length = P := by
              have := congrArg (List.take P.length) ht1
              simpa [List.take_take] using this
            have hb0' : l0.1.getD P.length false = false := by
              have := bl_getD_of_prefix _ _ m0.2 P.length (by simp)
              simpa using this
            have hb1' : kv.1.getD P.length false = true := by
              have := bl_getD_of_prefix _ _ m1.2 P.length (by simp)
              simpa using this
            have e : t.length + (P.length - t.length) = P.length := by omega
            apply sharedRel_split t.length (P.length - t.length) l0.1 kv.1
            · rw [e, hPP0, hPP1]
            · rw [e, hlen0]; exact hPlt
            · rw [e, hlen1]; exact hPlt
            · rw [e, hb0', hb1']; simp
          have hr1 := ih (P ++ [true]) (some l0.1) (P ++ [true]) _ (hf' true) (htP' true) (hP' true) h1
            (List.prefix_refl _) hpre1
          obtain ⟨r1, _⟩ := tw_visit_tree H (fun _ => True) hs hk cfg t f (P ++ [true]) (some l0.1) (P ++ [true]) _
            (hf' true) (htP' true) (hP' true) h1 (List.prefix_refl _) hpre1
          exact hnode2 P a _ _ htP hPlt h0 h1 hr0 hr1 r1


end Nomt.Walker
