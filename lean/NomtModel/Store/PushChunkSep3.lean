import NomtModel.Store.PushChunkFront
/-!
# `BranchNodeBuilder::push_chunk` — step 3 as `push_chunk` calls it (fast path / `copy_and_shift_separators`)
-/
namespace Nomt.BitOps

theorem Lay.prev {pg : List Nat} {n pc pl : Nat} {cell : Nat → Nat} {m : Nat} (L : Lay pg n pc pl cell m) (i : Nat) (hi : i ≤ m) :
    (if i ≠ 0 then nodeCell pg (i - 1) else some 0) = some (prevCell cell i) := by
  unfold prevCell
  by_cases h0 : i = 0
  · simp [h0]
  · rw [if_pos h0, if_neg h0]; exact L.hcell _ (by omega)

/-- `get_key` of a prefix-compressed item of a page with known layout -/
theorem getKey_of_lay {pg : List Nat} {n pc pl : Nat} {cell : Nat → Nat} {m : Nat} (L : Lay pg n pc pl cell m) (last : Nat)
    (F : Fit n pl last) (i : Nat) (hi : i < m) (hin : i < n) (hic : i < pc) (hmono : prevCell cell i ≤ cell i)
    (hlast : cell i ≤ last) (htot : pl + (cell i - prevCell cell i) ≤ 256) :
    getKey pg i = some (bytesOfBits
      (compKeyBit (fun q => bitOf pg (8 * (10 + n * 2) + q)) pl (prevCell cell i) (cell i - prevCell cell i)) 32) := by
  have hNode : NodeOK pg n pc pl (prevCell cell i) (cell i) last i :=
    ⟨L.bytes, L.len, L.hn, L.hpc, L.hpl, L.prev i (by omega), L.hcell i hi, F.hn, hin, F.hpl, hmono, hlast,
      by rw [if_pos hic]; exact htot, F.fit⟩
  rw [getKey_spec _ _ _ _ _ _ _ _ hNode]
  apply congrArg some
  apply bytesOfBits_congr
  intro p _
  exact storedKeyBit_comp pg n pc pl _ _ i p hic

/-- lengths add up: with no prefix difference the new cells are the base cells shifted -/
theorem tel_noext (cN cB : Nat → Nat) (idx frm nItems nB : Nat) (hto : frm + nItems ≤ nB)
    (monoB : ∀ i, i < nB → prevCell cB i ≤ cB i)
    (hN : ∀ j, j < nItems → prevCell cN (idx + j) ≤ cN (idx + j))
    (hlen : ∀ j, j < nItems → cN (idx + j) - prevCell cN (idx + j) = cB (frm + j) - prevCell cB (frm + j)) :
    ∀ j, j < nItems → prevCell cN (idx + j) - prevCell cN idx = prevCell cB (frm + j) - prevCell cB frm ∧
      prevCell cN idx ≤ prevCell cN (idx + j) ∧ prevCell cB frm ≤ prevCell cB (frm + j) := by
  intro j
  induction j with
  | zero => intro _; simp
  | succ j ih =>
    intro hj
    obtain ⟨i1, i2, i3⟩ := ih (by omega)
    have h1 := hN j (by omega)
    have h2 := hlen j (by omega)
    have h3 := monoB (frm + j) (by omega)
    have e1 : prevCell cN (idx + (j + 1)) = cN (idx + j) := prevCell_succ cN (idx + j)
    have e2 : prevCell cB (frm + (j + 1)) = cB (frm + j) := prevCell_succ cB (frm + j)
    rw [e1, e2]
    omega

/-- step 3 when the prefix does not get shorter: the fast path (`diff = 0`) or the growth loop -/
theorem seps_noext (p3 base : List Nat) (nB pcB plB : Nat) (cB : Nat → Nat) (LB : Lay base nB pcB plB cB nB)
    (nN pcN plN : Nat) (cN : Nat → Nat) (lastN lastB diff idx frm to : Nat) (FN : Fit nN plN lastN) (FB : Fit nB plB lastB)
    (L3 : Lay p3 nN pcN plN cN (idx + (to - frm))) (hiN : idx + (to - frm) ≤ nN) (hft : frm < to) (hto : to ≤ nB)
    (hdiff : diff ≤ 256) (monoB : ∀ i, i < nB → prevCell cB i ≤ cB i) (hlastB : ∀ i, i < nB → cB i ≤ lastB)
    (hN : ∀ j, j < to - frm → prevCell cN (idx + j) ≤ cN (idx + j) ∧ cN (idx + j) ≤ lastN)
    (hlen : ∀ j, j < to - frm → cN (idx + j) - prevCell cN (idx + j) = cB (frm + j) - prevCell cB (frm + j) - diff) :
    ∃ p4, (if diff = 0 then
          (rawSeparatorsData p3 idx (idx + (to - frm))).bind fun (sStart, sLen, sBitStart, _) =>
          (sliceOf p3 sStart (sStart + sLen)).bind fun d =>
          (rawSeparators base frm to).bind fun (bBytes, bBitStart, bBitLen) =>
          (bitwiseMemcpy d sBitStart bBytes bBitStart bBitLen).map fun out => writeAt p3 sStart out
        else copyAndShiftSeparators p3 base idx (to - frm) frm 0 diff) = some p4 ∧
      p4.length = p3.length ∧ Bytes p4 ∧
      (∀ j, j < to - frm → ∀ t, t < cN (idx + j) - prevCell cN (idx + j) →
        bitOf p4 (8 * (10 + nN * 2) + plN + prevCell cN (idx + j) + t) =
          bitOf base (8 * (10 + nB * 2) + plB + prevCell cB (frm + j) + diff + t)) ∧
      (∀ p, (p < 8 * (10 + nN * 2) + plN + prevCell cN idx ∨ 8 * (10 + nN * 2) + plN + lastN ≤ p) → bitOf p4 p = bitOf p3 p) := by
  have hB' : ∀ j, j < to - frm → prevCell cB (frm + j) ≤ cB (frm + j) ∧ cB (frm + j) ≤ lastB :=
    fun j hj => ⟨monoB _ (by omega), hlastB _ (by omega)⟩
  by_cases h0 : diff = 0
  · subst h0
    rw [if_pos rfl]
    have hlen' : ∀ j, j < to - frm → cN (idx + j) - prevCell cN (idx + j) = cB (frm + j) - prevCell cB (frm + j) :=
      fun j hj => by rw [hlen j hj, Nat.sub_zero]
    have tel := tel_noext cN cB idx frm (to - frm) nB (by omega) monoB (fun j hj => (hN j hj).1) hlen'
    have eN : idx + (to - frm) - 1 = idx + (to - frm - 1) := by omega
    have eB : to - 1 = frm + (to - frm - 1) := by omega
    obtain ⟨t1, t2, t3⟩ := tel (to - frm - 1) (by omega)
    have hNl := hN (to - frm - 1) (by omega)
    have hBl := hB' (to - frm - 1) (by omega)
    have hll := hlen' (to - frm - 1) (by omega)
    have hs := L3.rsd idx (idx + (to - frm)) (by omega) (Nat.le_refl _) (by rw [eN]; omega)
    have hb := LB.rsd frm to hft hto (by rw [eB]; omega)
    rw [eN] at hs
    rw [eB] at hb
    have hr1 := FN.slot (prevCell cN idx) (cN (idx + (to - frm - 1)) - prevCell cN idx) (by omega)
    have hr2 := FB.slot (prevCell cB frm) (cB (frm + (to - frm - 1)) - prevCell cB frm) (by omega)
    obtain ⟨p4, a1, a2, a3, a4, a5⟩ := fastPath_spec p3 base idx (to - frm) frm to _ _ _ _ _ _ _ _ L3.bytes LB.bytes hs hb
      (by omega) (by rw [L3.len]; exact hr1) (by rw [LB.len]; exact hr2)
    refine ⟨p4, a1, a2, a3, ?_, ?_⟩
    · intro j hj t ht
      obtain ⟨s1, s2, s3⟩ := tel j hj
      have hNj := hN j hj
      have hBj := hB' j hj
      have hlj := hlen' j hj
      have hch := mono_chain cB nB monoB (frm + (to - frm - 1)) (frm + j) (by omega) (by omega)
      have := a4 (prevCell cB (frm + j) - prevCell cB frm + t) (by omega)
      rw [show 8 * (10 + nN * 2) + plN + prevCell cN (idx + j) + t =
        8 * (10 + nN * 2 + (plN + prevCell cN idx) / 8) + (plN + prevCell cN idx) % 8 +
          (prevCell cB (frm + j) - prevCell cB frm + t) by omega, this]
      congr 1; omega
    · intro p hp
      exact a5 p (by omega)
  · rw [if_neg h0]
    obtain ⟨p4, a1, a2, a3, a4, a5⟩ := copyShiftLoop_grow base nB pcB plB cB LB nN pcN plN cN (idx + (to - frm)) lastN lastB diff
      FN FB hiN hdiff (to - frm) idx frm p3 L3 (Nat.le_refl _) (by omega) hN hB' hlen
    refine ⟨p4, ?_, a2, a3, a4, a5⟩
    unfold copyAndShiftSeparators
    rw [if_neg (by omega), if_neg (by decide), Option.bind_some]
    exact a1

/-- step 3 when the prefix gets shorter by `diff` bits -/
theorem seps_ext (p3 base : List Nat) (nB pcB plB : Nat) (cB : Nat → Nat) (LB : Lay base nB pcB plB cB nB)
    (nN pcN plN : Nat) (cN : Nat → Nat) (lastN lastB diff idx frm to : Nat) (FN : Fit nN plN lastN) (FB : Fit nB plB lastB)
    (L3 : Lay p3 nN pcN plN cN (idx + (to - frm))) (hiN : idx + (to - frm) ≤ nN) (hft : frm < to) (hto : to ≤ nB)
    (hdiff : 0 < diff) (hpl : plN + diff = plB) (monoB : ∀ i, i < nB → prevCell cB i ≤ cB i) (hlastB : ∀ i, i < nB → cB i ≤ lastB)
    (hN : ∀ j, j < to - frm → prevCell cN (idx + j) ≤ cN (idx + j) ∧ cN (idx + j) ≤ lastN)
    (hlen : ∀ j, j < to - frm → cN (idx + j) - prevCell cN (idx + j) = cB (frm + j) - prevCell cB (frm + j) + diff) :
    ∃ p4, (if diff = 0 then
          (rawSeparatorsData p3 idx (idx + (to - frm))).bind fun (sStart, sLen, sBitStart, _) =>
          (sliceOf p3 sStart (sStart + sLen)).bind fun d =>
          (rawSeparators base frm to).bind fun (bBytes, bBitStart, bBitLen) =>
          (bitwiseMemcpy d sBitStart bBytes bBitStart bBitLen).map fun out => writeAt p3 sStart out
        else copyAndShiftSeparators p3 base idx (to - frm) frm 1 diff) = some p4 ∧
      p4.length = p3.length ∧ Bytes p4 ∧
      (∀ j, j < to - frm → ∀ t, t < diff →
        bitOf p4 (8 * (10 + nN * 2) + plN + prevCell cN (idx + j) + t) = bitOf base (8 * (10 + nB * 2) + plN + t)) ∧
      (∀ j, j < to - frm → ∀ t, t < cB (frm + j) - prevCell cB (frm + j) →
        bitOf p4 (8 * (10 + nN * 2) + plN + prevCell cN (idx + j) + diff + t) =
          bitOf base (8 * (10 + nB * 2) + plB + prevCell cB (frm + j) + t)) ∧
      (∀ p, (p < 8 * (10 + nN * 2) + plN + prevCell cN idx ∨ 8 * (10 + nN * 2) + plN + lastN ≤ p) → bitOf p4 p = bitOf p3 p) := by
  have hB' : ∀ j, j < to - frm → prevCell cB (frm + j) ≤ cB (frm + j) ∧ cB (frm + j) ≤ lastB :=
    fun j hj => ⟨monoB _ (by omega), hlastB _ (by omega)⟩
  rw [if_neg (by omega)]
  obtain ⟨p4, a1, a2, a3, a4, a4', a5⟩ := copyShiftLoop_extend base nB pcB plB cB LB nN pcN plN cN (idx + (to - frm)) lastN lastB diff
    FN FB hiN hdiff hpl (to - frm) idx frm p3 L3 (Nat.le_refl _) (by omega) hN hB' hlen
  refine ⟨p4, ?_, a2, a3, a4, a4', a5⟩
  unfold copyAndShiftSeparators
  have e : plB - diff = plN := by omega
  rw [if_neg (by omega), if_pos rfl]
  simp only [LB.hpl, LB.hn, Option.bind_some, BRANCH_HEADER]
  rw [if_neg (by omega)]
  simp only [e, Option.bind_some]
  exact a1

end Nomt.BitOps
