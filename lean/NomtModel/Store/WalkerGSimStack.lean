import NomtModel.Store.WalkerSimStack
import NomtModel.Store.WalkerSimSafe
import NomtModel.Store.WalkerGSimSafe
/-!
# `build_stack` and `replace_terminal` of the mirror against the tree walker
-/
namespace Nomt.Walker.G
open Nomt Nomt.TriePos
open Nomt.Wal (PageDiff)

variable {Node VH : Type} [DecidableEq Node] [DecidableEq VH] (H : Hasher Node VH) (ps : PageSet Node)

/-- the origins `build_stack` may meet: a page loaded from the hash table (not for a reconstructor, `Z`), or a reconstructed page
with the counters `0 / 0` (the first elided page `reconstruct` inserts) -/
def OriginZ (Z : Prop) (o : Origin) : Prop :=
  (¬ Z) ∨ (∃ d, o = .reconstructed 0 0 d)

/-- a page of the page set that can be loaded on the stack: present with an admissible origin, 126 slots, and its slots are what
the flat store holds -/
def Loadable (Z : Prop) (st : Store Node) (Q : PageId) : Prop :=
  ∃ pg o, ps.get Q = some (pg, o) ∧ OriginZ Z o ∧ pg.nodes.length = 126 ∧
    (∀ q, q ≠ [] → q.length ≤ 256 → specPage q = Q → pg.nodes.getD (specIndex q) H.term = st q) ∧
    originOK ps Q = true

/-- what the simulation needs of a page `build_stack` pushes -/
def PushedOK (Z : Prop) (st : Store Node) (sp : StackPage Node) : Prop :=
  PageMatches H sp st ∧ CountersOK sp ∧ DiffOK H ps sp ∧ sp.childrenLeaves = none ∧
    (Z → sp.prevChildrenLeaves = some 0 ∧ sp.pageLeaves = some 0) ∧ (∀ ids, Acct ps ids sp)

theorem pushed_new (Z : Prop) (st : Store Node) (cur : PageId) (pg : Page Node) (o : Origin)
    (hget : ps.get cur = some (pg, o)) (ho : OriginZ Z o) (hl126 : pg.nodes.length = 126)
    (hm : ∀ q, q ≠ [] → q.length ≤ 256 → specPage q = cur → pg.nodes.getD (specIndex q) H.term = st q)
    (hok : originOK ps cur = true) :
    PushedOK H ps Z st (StackPage.new cur pg PageDiff.empty o) := by
  have hacct : ∀ ids, Acct ps ids (StackPage.new cur pg PageDiff.empty o) :=
    fun ids => acct_new ps ids cur pg PageDiff.empty o hget hok
  have hdiff : ∀ o' : Origin, ps.get cur = some (pg, o') → DiffOK H ps (StackPage.new cur pg PageDiff.empty o') := by
    intro o' hg
    refine ⟨pg.nodes, Or.inr ⟨pg.elided, o', ?_⟩, ?_⟩
    · cases o' <;> exact hg
    · intro i _ hne
      cases o' <;> exact absurd rfl hne
  have hcnt : ∀ o' : Origin, CountersOK (StackPage.new cur pg PageDiff.empty o') := by
    intro o' h
    cases o' <;> cases h
  have hcl : ∀ o' : Origin, (StackPage.new cur pg PageDiff.empty o').childrenLeaves = none := by
    intro o'; cases o' <;> rfl
  have hpm : ∀ o' : Origin, PageMatches H (StackPage.new cur pg PageDiff.empty o') st := by
    intro o'
    cases o' <;> exact ⟨hl126, fun q hq hql hqp => hm q hq hql hqp⟩
  rcases ho with hz | ⟨d, hd⟩
  · exact ⟨hpm o, hcnt o, hdiff _ hget, hcl o, fun h => absurd h hz, hacct⟩
  · subst hd
    exact ⟨hpm _, hcnt _, hdiff _ hget, rfl, fun _ => ⟨rfl, rfl⟩, hacct⟩

/-- the pages `build_stack` pushes below a target id `T` (a prefix of `cur`) -/
theorem pushLoop_some (Z : Prop) (st : Store Node) (T : PageId) : ∀ (n : Nat) (cur : PageId), cur.length = T.length + n → T <+: cur →
    (∀ Q, Q <+: cur → T.length < Q.length → Loadable H ps Z st Q) →
    ∃ l, pushLoop ps (some T) (cur.length + 1) cur = .ok l ∧ l.map (·.pageId) = idsDown cur n ∧
      (∀ sp ∈ l, PushedOK H ps Z st sp) := by
  intro n
  induction n with
  | zero =>
    intro cur hlen hpre _
    have hcur : cur = T := (hpre.eq_of_length (by omega)).symm
    refine ⟨[], ?_, rfl, ?_⟩
    · unfold pushLoop; rw [if_pos (by rw [hcur])]
    · intro sp h; cases h
  | succ n ih =>
    intro cur hlen hpre hload
    have hne : cur ≠ T := by intro e; rw [e] at hlen; omega
    have hcne : cur ≠ [] := by intro e; rw [e] at hlen; simp at hlen
    obtain ⟨pg, o, hget, ho, hl126, hm, hok⟩ := hload cur (List.prefix_refl _) (by omega)
    have hpar : parentPageId cur = cur.dropLast := by unfold parentPageId; rw [if_neg hcne]
    have hdl : cur.dropLast.length = T.length + n := by rw [List.length_dropLast]; omega
    have hpre' : T <+: cur.dropLast := by
      obtain ⟨u, hu⟩ := hpre
      rcases List.eq_nil_or_concat u with e | ⟨u', x, e⟩
      · subst e; simp at hu; exact absurd hu.symm hne
      · subst e
        rw [← hu]
        simp only [List.concat_eq_append, ← List.append_assoc, List.dropLast_concat]
        exact List.prefix_append _ _
    obtain ⟨l, hl, hids, hprops⟩ := ih cur.dropLast hdl hpre' (by
      intro Q hQ hQl
      exact hload Q (List.IsPrefix.trans hQ (List.dropLast_prefix _)) hQl)
    have hfuel : cur.dropLast.length + 1 = cur.length := by
      rw [List.length_dropLast]; have : 1 ≤ cur.length := List.length_pos_iff.mpr hcne; omega
    refine ⟨StackPage.new cur pg PageDiff.empty o :: l, ?_, ?_, ?_⟩
    · unfold pushLoop
      rw [if_neg (by intro e; injection e with e; exact hne e), hget]
      simp only
      rw [if_neg hcne, hpar, ← hfuel, hl]
    · simp only [List.map_cons, idsDown, hids, new_pageId]
    · intro sp hsp
      rcases List.mem_cons.mp hsp with e | hsp'
      · rw [e]
        exact pushed_new H ps Z st cur pg o hget ho hl126 hm hok
      · exact hprops sp hsp'

/-- the pages `build_stack` pushes without a target: down to the root page -/
theorem pushLoop_none (Z : Prop) (st : Store Node) : ∀ (n : Nat) (cur : PageId), cur.length = n →
    (∀ Q, Q <+: cur → Loadable H ps Z st Q) →
    ∃ l, pushLoop ps none (cur.length + 1) cur = .ok l ∧ l.map (·.pageId) = idsDown cur (n + 1) ∧
      (∀ sp ∈ l, PushedOK H ps Z st sp) := by
  intro n
  induction n with
  | zero =>
    intro cur hlen hload
    have hcur : cur = [] := List.eq_nil_of_length_eq_zero hlen
    subst hcur
    obtain ⟨pg, o, hget, ho, hl126, hm, hok⟩ := hload [] (List.prefix_refl _)
    refine ⟨[StackPage.new [] pg PageDiff.empty o], ?_, by simp [idsDown, new_pageId], ?_⟩
    · unfold pushLoop
      rw [if_neg (by simp), hget]
      simp
    · intro sp hsp
      rw [List.mem_singleton] at hsp
      rw [hsp]
      exact pushed_new H ps Z st [] pg o hget ho hl126 hm hok
  | succ n ih =>
    intro cur hlen hload
    have hcne : cur ≠ [] := by intro e; rw [e] at hlen; simp at hlen
    obtain ⟨pg, o, hget, ho, hl126, hm, hok⟩ := hload cur (List.prefix_refl _)
    have hpar : parentPageId cur = cur.dropLast := by unfold parentPageId; rw [if_neg hcne]
    have hdl : cur.dropLast.length = n := by rw [List.length_dropLast]; omega
    obtain ⟨l, hl, hids, hprops⟩ := ih cur.dropLast hdl (by
      intro Q hQ
      exact hload Q (List.IsPrefix.trans hQ (List.dropLast_prefix _)))
    have hfuel : cur.dropLast.length + 1 = cur.length := by omega
    refine ⟨StackPage.new cur pg PageDiff.empty o :: l, ?_, ?_, ?_⟩
    · unfold pushLoop
      rw [if_neg (by simp), hget]
      simp only
      rw [if_neg hcne, hpar, ← hfuel, hl]
    · simp only [List.map_cons, idsDown, hids, new_pageId]
    · intro sp hsp
      rcases List.mem_cons.mp hsp with e | hsp'
      · rw [e]
        exact pushed_new H ps Z st cur pg o hget ho hl126 hm hok
      · exact hprops sp hsp'

/-! ## chains of `idsDown` -/

/-! ## `build_stack` -/

/-- `build_stack` to a position below the root -/
theorem sim_buildStack {w : Walker Node} {a : TW Node} (h : Sim H ps w a) (position : Pos) (hpw : position.WF)
    (hne : position.path ≠ [])
    (hscope : ∀ pp, w.parentPage = some pp → pp <+: specPage position.path ∧ pp ≠ specPage position.path)
    (htarget : ∀ top rest, w.stack = top :: rest → top.pageId <+: specPage position.path)
    (hload : ∀ Q, Q <+: specPage position.path →
      (∀ top rest, w.stack = top :: rest → top.pageId.length < Q.length) →
      (∀ pp, w.parentPage = some pp → pp.length < Q.length) → Loadable H ps (w.reconstruction = true) a.store Q) :
    ∃ w', w.buildStack H ps position = .ok w' ∧ Sim H ps w' ({ a with pos := position.path } : TW Node) ∧ Same w w' ∧
      w'.childPageRoots = w.childPageRoots := by
  have hdepth : 1 ≤ position.depth := by
    rw [← position.path_length hpw]; exact List.length_pos_iff.mpr hne
  have hpid := pageId_eq position hpw hdepth
  have hplen : position.path.length ≤ 256 := by rw [position.path_length hpw]; exact hpw.depthLe
  have hspl : (specPage position.path).length = (position.path.length - 1) / 6 := specPage_length _
  -- the position is below the top layer
  have htop : 6 * k0 w.parentPage < position.path.length := by
    have h1 : 1 ≤ position.path.length := List.length_pos_iff.mpr hne
    cases hp : w.parentPage with
    | none => simp [k0]; omega
    | some pp =>
      obtain ⟨hpre, hneq⟩ := hscope pp hp
      have hlt : pp.length < (specPage position.path).length := by
        rcases Nat.lt_or_ge pp.length (specPage position.path).length with hlt | hge
        · exact hlt
        · exact absurd (hpre.eq_of_length (Nat.le_antisymm hpre.length_le hge)) hneq
      simp only [k0]
      rw [hspl] at hlt
      omega
  unfold Walker.buildStack
  rw [hpid]
  simp only
  -- the scope assertion
  have hassert : ({ w with } : Walker Node).assertPageInScope (some (specPage position.path)) = .ok () := by
    unfold Walker.assertPageInScope
    cases hp : w.parentPage with
    | none => rfl
    | some pp =>
      obtain ⟨hpre, hneq⟩ := hscope pp hp
      simp only
      rw [if_neg (Ne.symm hneq), if_neg (by
        rw [Bool.not_eq_true, ← Bool.not_eq_true]
        intro hh
        exact hh ((isDescendantOf_iff _ _).mpr hpre))]
  rw [show w.assertPageInScope (some (specPage position.path)) = .ok () from hassert]
  simp only
  -- the pages pushed
  have hpush : ∃ l, pushLoop ps w.stackTarget ((specPage position.path).length + 1) (specPage position.path) = .ok l ∧
      (∀ sp ∈ l, PushedOK H ps (w.reconstruction = true) a.store sp) ∧
      ChainBelow w.parentPage (l.map (·.pageId) ++ w.stack.map (·.pageId)) ∧
      (∀ sp rest, l ++ w.stack = sp :: rest → sp.pageId = specPage position.path) ∧ l ++ w.stack ≠ [] := by
    unfold Walker.stackTarget
    cases hst : w.stack with
    | cons top rest =>
      simp only
      have hT := htarget top rest hst
      obtain ⟨n, hn⟩ : ∃ n, (specPage position.path).length = top.pageId.length + n :=
        ⟨(specPage position.path).length - top.pageId.length, by have := hT.length_le; omega⟩
      obtain ⟨l, hl, hids, hprops⟩ := pushLoop_some H ps (w.reconstruction = true) a.store top.pageId n (specPage position.path) hn hT (by
        intro Q hQ hQl
        apply hload Q hQ
        · intro top' rest' e
          rw [hst] at e
          simp only [List.cons.injEq] at e
          rw [← e.1]; exact hQl
        · intro pp hp
          have hc := h.chain
          rw [hst] at hc
          have := chain_top_length w.parentPage top.pageId (rest.map (·.pageId)) (by simpa using hc)
          rw [hp] at this
          simp only [k0] at this
          omega)
      refine ⟨l, hl, hprops, ?_, ?_, by simp⟩
      · rw [hids]
        have hc := h.chain
        rw [hst] at hc
        simp only [List.map_cons] at hc ⊢
        exact chain_idsDown_onto w.parentPage top.pageId (rest.map (·.pageId)) hc n _ hn hT
      · intro sp rest' e
        cases n with
        | zero =>
          have hl0 : l = [] := by
            have := congrArg List.length hids
            simpa [idsDown_length] using this
          rw [hl0] at e
          simp only [List.nil_append, List.cons.injEq] at e
          rw [← e.1]
          exact hT.eq_of_length (by omega)
        | succ m =>
          obtain ⟨tl, htl⟩ := idsDown_head (specPage position.path) (m + 1) (by omega)
          cases l with
          | nil =>
            have := congrArg List.length hids
            simp [idsDown_length] at this
          | cons x xs =>
            simp only [List.cons_append, List.cons.injEq] at e
            rw [← e.1]
            rw [htl] at hids
            simp only [List.map_cons, List.cons.injEq] at hids
            exact hids.1
    | nil =>
      simp only
      cases hp : w.parentPage with
      | none =>
        obtain ⟨l, hl, hids, hprops⟩ := pushLoop_none H ps (w.reconstruction = true) a.store (specPage position.path).length
          (specPage position.path) rfl (by
            intro Q hQ
            apply hload Q hQ
            · intro top' rest' e; rw [hst] at e; cases e
            · intro pp hp'; rw [hp] at hp'; cases hp')
        refine ⟨l, hl, hprops, ?_, ?_, ?_⟩
        · rw [hids]; simpa using chain_idsDown_none _ (specPage position.path) rfl
        · intro sp rest' e
          obtain ⟨tl, htl⟩ := idsDown_head (specPage position.path) ((specPage position.path).length + 1) (by omega)
          cases l with
          | nil =>
            have := congrArg List.length hids
            simp [idsDown_length] at this
          | cons x xs =>
            simp only [List.append_nil, List.cons.injEq] at e
            rw [← e.1]
            rw [htl] at hids
            simp only [List.map_cons, List.cons.injEq] at hids
            exact hids.1
        · intro e
          have : l = [] := by simpa using e
          rw [this] at hids
          have := congrArg List.length hids
          simp [idsDown_length] at this
      | some pp =>
        obtain ⟨hpre, hneq⟩ := hscope pp hp
        have hlt : pp.length < (specPage position.path).length := by
          rcases Nat.lt_or_ge pp.length (specPage position.path).length with hlt | hge
          · exact hlt
          · exact absurd (hpre.eq_of_length (Nat.le_antisymm hpre.length_le hge)) hneq
        obtain ⟨n, hn⟩ : ∃ n, (specPage position.path).length = pp.length + n :=
          ⟨(specPage position.path).length - pp.length, by omega⟩
        obtain ⟨l, hl, hids, hprops⟩ := pushLoop_some H ps (w.reconstruction = true) a.store pp n (specPage position.path) hn hpre (by
          intro Q hQ hQl
          apply hload Q hQ
          · intro top' rest' e; rw [hst] at e; cases e
          · intro pp' hp'; rw [hp] at hp'; injection hp' with hp'; rw [← hp']; exact hQl)
        refine ⟨l, hl, hprops, ?_, ?_, ?_⟩
        · rw [hids]; simpa using chain_idsDown_some pp n _ (by omega) hn hpre
        · intro sp rest' e
          obtain ⟨tl, htl⟩ := idsDown_head (specPage position.path) n (by omega)
          cases l with
          | nil =>
            have := congrArg List.length hids
            simp [idsDown_length] at this
            omega
          | cons x xs =>
            simp only [List.append_nil, List.cons.injEq] at e
            rw [← e.1]
            rw [htl] at hids
            simp only [List.map_cons, List.cons.injEq] at hids
            exact hids.1
        · intro e
          have : l = [] := by simpa using e
          rw [this] at hids
          have := congrArg List.length hids
          simp [idsDown_length] at this
          omega
  obtain ⟨l, hl, hprops, hchain, hhead, hnonempty⟩ := hpush
  have hst' : ({ w with position := position } : Walker Node).stackTarget = w.stackTarget := rfl
  rw [hst', hl]
  refine ⟨_, rfl, ?_, Same.rfl' _, rfl⟩
  have hrecon : ReconInv H ({ w with position := position, stack := l ++ w.stack } : Walker Node)
      ({ a with pos := position.path } : TW Node) := by
    refine ⟨h.recon.kinds, ?_, ?_, h.recon.outIds⟩
    · intro hr
      obtain ⟨h1, h2⟩ := h.recon.rc hr
      refine ⟨h1, ?_⟩
      intro sp hsp
      rcases List.mem_append.mp hsp with h3 | h3
      · exact (hprops sp h3).2.2.2.2.1 hr
      · exact h2 sp h3
    · intro hr
      have hacc := h.recon.acct hr
      have hz : (l.map clOf).sum = 0 := sum_clOf_zero l (fun sp hsp => (hprops sp hsp).2.2.2.1)
      show ((l ++ w.stack).map clOf).sum ≤ (w.outputPages.map (outLeaves H)).sum
      rw [List.map_append, List.sum_append, hz]
      omega
  refine ⟨hpw, rfl, h.root, ?_, ?_, ?_, ?_, ?_, hrecon, h.cpr, h.outs, h.nofix, ?_, ?_,
    h.named.push (fun sp hsp => List.mem_append_right _ hsp) rfl rfl rfl⟩
  rotate_right
  · intro sp hsp
    have hsp' : sp ∈ l ++ w.stack := hsp
    rcases List.mem_append.mp hsp' with h1 | h1
    · exact (hprops sp h1).2.2.2.2.2 _
    · exact h.acct sp h1
  · show l ++ w.stack = [] ↔ position.path.length ≤ 6 * k0 w.parentPage
    constructor
    · intro e; exact absurd e hnonempty
    · intro hle; omega
  · intro sp rest e
    exact hhead sp rest e
  · show ChainBelow w.parentPage ((l ++ w.stack).map (·.pageId))
    rw [List.map_append]; exact hchain
  · intro sp hsp
    rcases List.mem_append.mp hsp with h1 | h1
    · exact (hprops sp h1).1
    · exact h.pages sp h1
  · intro sp hsp
    rcases List.mem_append.mp hsp with h1 | h1
    · exact (hprops sp h1).2.1
    · exact h.counters sp h1
  · intro sp hsp
    rcases List.mem_append.mp hsp with h1 | h1
    · exact (hprops sp h1).2.2.1
    · exact h.diffs sp h1

/-- `build_stack` to the root position (only possible with an empty stack and no parent page) -/
theorem sim_buildStack_root {w : Walker Node} {a : TW Node} (h : Sim H ps w a) (position : Pos) (hpw : position.WF)
    (hnil : position.path = []) (hst : w.stack = []) (hpar : w.parentPage = none) :
    ∃ w', w.buildStack H ps position = .ok w' ∧ Sim H ps w' ({ a with pos := [] } : TW Node) ∧ Same w w' ∧
      w'.childPageRoots = w.childPageRoots := by
  have hd0 : position.depth = 0 := by
    rw [← position.path_length hpw, hnil]; rfl
  unfold Walker.buildStack
  rw [pageId_root position hd0]
  simp only [Walker.assertPageInScope, hpar, Option.isNone_none, if_true]
  rw [hst]
  simp only [List.length_nil, Walker.popAll]
  refine ⟨_, rfl, ?_, ⟨hpar.symm, rfl, rfl, rfl, rfl⟩, rfl⟩
  refine ⟨hpw, hnil, h.root, ?_, ?_, ?_, ?_, ?_, h.recon.cast H rfl rfl rfl (by rw [hst]) rfl, h.cpr, h.outs, h.nofix, ?_, ?_,
    h.named.cast (by rw [hst]) rfl rfl rfl⟩
  · simp
  · intro sp rest e; cases e
  · trivial
  · intro sp hsp; cases hsp
  · intro sp hsp; cases hsp
  · intro sp hsp; cases hsp
  · intro sp hsp; cases hsp

/-! ## `replace_terminal` -/

theorem sim_replaceTerminal (hs : H.Sound) (hfresh : ∀ P, (ps.fresh P).length = 126) {S' : List (Key × VH)}
    (hk : KeysOK S') {w : Walker Node} {a : TW Node} (h : Sim H ps w a)
    (hscope : (a.pos = [] ∧ w.parentPage = none) ∨ 6 * k0 w.parentPage < a.pos.length)
    (hterm : w.reconstruction = false → H.kind a.cur ≠ .internal)
    (hclean : ∀ q, a.pos <+: q → q.length % 6 = 0 → q.length < 256 → fullSum ps (sextetsOf q) = 0)
    (Lfin : List (PageId × Store Node)) (hnd : (Lfin.map (·.1)).Nodup)
    (hfin : (w.reconstruction = true → SmallBy H ps Lfin) ∧
      (a.replaceTerminal H (cfgOf H ps w.parentPage) (sub S' a.pos)).log <+: Lfin) :
    ∃ w', w.replaceTerminal H ps (sub S' a.pos) = .ok w' ∧
      Sim H ps w' (a.replaceTerminal H (cfgOf H ps w.parentPage) (sub S' a.pos)) ∧ Same w w' ∧
      w'.childPageRoots = w.childPageRoots := by
  have hdep := pos_depth_pos h.wf h.pos
  have hlen := sim_len H ps h
  -- the node at the position
  have hnode : (if w.position.isRoot = true then (.ok w.root : WR Node) else w.node H) = .ok a.cur := by
    rcases hscope with ⟨hn, _⟩ | hd
    · have : w.position.isRoot = true := by unfold Pos.isRoot; rw [hdep, hn]; rfl
      rw [if_pos this, h.root]
      unfold TW.cur; rw [hn]
    · have hne := sim_pos_ne (w := w) hd
      have : ¬ w.position.isRoot = true := by
        unfold Pos.isRoot; rw [hdep]; simp; exact hne
      rw [if_neg this]
      exact sim_node H ps h hd
  unfold TW.replaceTerminal at hfin
  rw [buildEvents_sub H hk a.pos hlen] at hfin
  simp only at hfin
  unfold Walker.replaceTerminal TW.replaceTerminal
  rw [hnode]
  simp only
  rw [if_neg (by
    intro hh
    have hr : w.reconstruction = false := by
      have := hh.1
      cases hq : w.reconstruction with
      | false => rfl
      | true => rw [hq] at this; exact absurd rfl this
    exact hterm hr hh.2)]
  rw [hdep, buildEvents_sub H hk a.pos hlen]
  simp only
  -- the calls are safe
  have hsafe : SafeAll H (cfgOf H ps w.parentPage) (6 * k0 w.parentPage) w.parentPage.isNone a.pos.length a
      (if sub S' a.pos = [] then [.terminator]
       else treeEv H a.pos.length (256 - a.pos.length) 0 (sub S' a.pos) none) := by
    have hsc' : (a.pos = [] ∧ w.parentPage.isNone = true) ∨ 6 * k0 w.parentPage < a.pos.length := by
      rcases hscope with ⟨hn, hp⟩ | hd
      · exact Or.inl ⟨hn, by rw [hp]; rfl⟩
      · exact Or.inr hd
    by_cases he : sub S' a.pos = []
    · rw [if_pos he]
      exact ⟨hsc', trivial⟩
    · rw [if_neg he]
      have := tw_visit_tree_safe H hs hk (cfgOf H ps w.parentPage) a.pos (6 * k0 w.parentPage) w.parentPage.isNone
        (by
          intro hn
          have : w.parentPage = none := Option.isNone_iff_eq_none.mp hn
          rw [this]; rfl)
        hsc' (256 - a.pos.length) a.pos none a.pos a rfl (List.prefix_refl _) hlen he (List.prefix_refl _) ⟨rfl, rfl⟩
      simpa using this
  have hallq : AllQ H (cfgOf H ps w.parentPage) (VisitFresh ps) a.pos.length a
      (if sub S' a.pos = [] then [.terminator]
       else treeEv H a.pos.length (256 - a.pos.length) 0 (sub S' a.pos) none) := by
    by_cases he : sub S' a.pos = []
    · rw [if_pos he]
      exact ⟨trivial, trivial⟩
    · rw [if_neg he]
      have := tw_visit_tree_fresh H ps hs hk (cfgOf H ps w.parentPage) a.pos hclean
        (256 - a.pos.length) a.pos none a.pos a rfl (List.prefix_refl _) hlen he (List.prefix_refl _) ⟨rfl, rfl⟩
      simpa using this
  obtain ⟨w2, hw2, hs2, hsame2, hcpr2⟩ := sim_visitAll H ps hs hfresh a.pos.length Lfin hnd _
    ({ w with prevNode := some a.cur } : Walker Node) a (sim_other_fields H ps h w.siblingStack (some a.cur) w.lastPosition)
    hsafe hallq hfin
  rw [hw2]
  simp only
  -- the position is back where it started
  have hpos2 : (TW.visitAll H (cfgOf H ps w.parentPage) a.pos.length a
      (if sub S' a.pos = [] then [.terminator]
       else treeEv H a.pos.length (256 - a.pos.length) 0 (sub S' a.pos) none)).pos = a.pos := by
    have := (tw_replace_spec H (fun _ => True) hs hk (cfgOf H ps w.parentPage) a hlen).1
    unfold TW.replaceTerminal at this
    rw [buildEvents_sub H hk a.pos hlen] at this
    exact this
  have hdep2 := pos_depth_pos hs2.wf hs2.pos
  have hsame : Same w w2 := ⟨hsame2.1, hsame2.2.1, hsame2.2.2.1, hsame2.2.2.2.1, hsame2.2.2.2.2⟩
  rcases hscope with ⟨hn, hp⟩ | hd
  · have hroot2 : w2.position.isRoot = true := by
      unfold Pos.isRoot; rw [hdep2, hpos2, hn]; rfl
    have hst2 : w2.stack = [] := hs2.stackE.mpr (by rw [hpos2, hn]; simp)
    rw [if_neg (by simp [hroot2])]
    rw [if_pos (by rw [hst2]; rfl)]
    exact ⟨w2, rfl, hs2, hsame, hcpr2⟩
  · have hne := sim_pos_ne (w := w) hd
    have hroot2 : ¬ w2.position.isRoot = true := by
      unfold Pos.isRoot; rw [hdep2, hpos2]; simp; exact hne
    rw [if_pos hroot2]
    obtain ⟨top, rest, hst2, htop2⟩ := sim_stack_cons H ps hs2 (by
      show 6 * k0 w2.parentPage < _
      rw [hsame2.1, hpos2]; exact hd)
    rw [hst2]
    simp only
    have hd2 : 1 ≤ w2.position.depth := by
      rw [hdep2, hpos2]; exact List.length_pos_iff.mpr hne
    rw [pageId_eq w2.position hs2.wf hd2]
    simp only
    rw [if_pos (by rw [htop2, hs2.pos])]
    exact ⟨w2, rfl, hs2, hsame, hcpr2⟩

end Nomt.Walker.G
