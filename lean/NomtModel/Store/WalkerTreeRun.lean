import NomtModel.Store.WalkerTreeVisit
/-!
# A whole script on the tree walker

`tw_replace_spec`: `replace_terminal` at a position `t` with the keys `sub S' t` writes the specified sub-trie below `t`.
`tw_run_spec`: an ascending, prefix-free script of terminals over a store that represents `S` ends, after `conclude`, with
the specified root of `S'` and every meaningful slot specified (`Store/WalkerTreeRun2.lean`).
-/
namespace Nomt.Walker
open Nomt Nomt.TriePos

variable {Node VH : Type} [DecidableEq Node] [DecidableEq VH] (H : Hasher Node VH) (D : Path → Prop)

/-! ## `replace_terminal` -/

theorem buildEvents_sub {S : List (Key × VH)} (hk : KeysOK S) (t : Path) (ht : t.length ≤ 256) :
    buildEvents H t.length (sub S t) =
      some (if sub S t = [] then [.terminator] else treeEv H t.length (256 - t.length) 0 (sub S t) none) := by
  have hc := canon_sub hk t ht
  match hB : sub S t, hc with
  | [], _ => rfl
  | [(k, v)], _ =>
    simp only [buildEvents, treeEv_single, leafEv]
    have : (k.take (t.length + 0)).drop (t.length + (Option.map (fun p => sharedRel t.length p k) none).getD 0) = [] := by
      simp
    rw [this]; simp
  | x :: y :: rest, hc =>
    have hmem : ∀ kv ∈ x :: y :: rest, kv ∈ S ∧ t <+: kv.1 := by
      intro kv hkv; rw [← hB] at hkv; exact (mem_sub hk t ht kv).mp hkv
    have := runEv_block H t.length (256 - t.length) 0 (x :: y :: rest) none none [] t (by simp)
      (by simpa using hc)
      (by intro kv hkv; have := hk.len kv (hmem kv hkv).1; omega)
      (by intro kv hkv; simpa using (bl_prefix_iff_take t kv.1).mp (hmem kv hkv).2)
      (by intro a ha; cases ha) (by intro a ha; cases ha)
      (by intro k v h; simp at h) (by intro a ha; cases ha)
    simp only [buildEvents]
    rw [this]
    obtain ⟨kx, vx⟩ := x
    simp [blockEvents, tgt, hashUpEv]

theorem tw_visit_terminator (cfg : TWCfg Node) (skip : Nat) (a : TW Node) :
    TW.visit H cfg skip a (.terminator : WriteNode Node VH) = a.setNode H.term := by
  unfold TW.visit
  simp only [WriteNode.up, WriteNode.down, WriteNode.node, tw_descend_eq, TW.down]

/-- `replace_terminal` with the keys of `S'` below the position writes the specified sub-trie of `S'` there -/
theorem tw_replace_spec (hs : H.Sound) {S' : List (Key × VH)} (hk : KeysOK S') (cfg : TWCfg Node)
    (a : TW Node) (ht : a.pos.length ≤ 256) :
    let a' := a.replaceTerminal H cfg (sub S' a.pos)
    a'.pos = a.pos ∧ Good H S' a'.store a.pos ∧ SubOK H D S' a'.store a.pos ∧
    (∀ q, ¬ a.pos <+: q → a'.store q = a.store q) ∧
    (∀ e ∈ a'.log, e ∈ a.log ∨ LogOK H D S' e) ∧ (∀ e ∈ a.log, e ∈ a'.log) ∧ a'.cpr = a.cpr := by
  intro a'
  have ha' : a' = TW.visitAll H cfg a.pos.length a
      (if sub S' a.pos = [] then [.terminator] else treeEv H a.pos.length (256 - a.pos.length) 0 (sub S' a.pos) none) := by
    show a.replaceTerminal H cfg (sub S' a.pos) = _
    unfold TW.replaceTerminal
    rw [buildEvents_sub H hk a.pos ht]
  by_cases he : sub S' a.pos = []
  · rw [if_pos he] at ha'
    simp only [TW.visitAll, tw_visit_terminator] at ha'
    rw [ha']
    refine ⟨rfl, ?_, ?_, ?_, fun e he => Or.inl he, fun e he => he, rfl⟩
    · show (a.setNode H.term).store a.pos = _
      simp [TW.setNode, upd_same, specNode_nil_eq H S' _ he]
    · intro r hpre hner hlen hD hmean
      exact absurd hmean (not_mean_below hk a.pos r (by rw [he]; simp) hpre hner hlen)
    · intro q hq
      have : q ≠ a.pos := by intro e; apply hq; rw [e]; exact List.prefix_refl _
      simp [TW.setNode, upd_other _ _ _ _ this]
  · rw [if_neg he] at ha'
    have := tw_visit_tree H D hs hk cfg a.pos (256 - a.pos.length) a.pos none a.pos a rfl (List.prefix_refl _) ht he
      (List.prefix_refl _) ⟨rfl, rfl⟩
    simp only [Nat.sub_self] at this
    rw [ha']
    exact this

end Nomt.Walker
