import NomtModel.Store.StageGlueEnforce
/-!
# `enforce_first_leaf_separator`: the specification theorem (`enforceFirst_spec`)
-/
namespace Nomt.StageGlue
open Nomt
open Nomt.LeafUpd (Entry Sorted write1 applyAll)
open Nomt.BranchUpd (chs chOf)

/-- what `enforce_first_leaf_separator` may assume: the level ascends from the zero key, the changeset ascends, and its
deletions name leaves of the level -/
structure EnfPre (lvl : Level) (cs : List (Nat × Option Nat)) : Prop where
  lvl_asc : LvlAsc lvl
  lvl_zero : ∀ x, lvl.head? = some x → x.1 = 0
  cs_asc : CsAsc cs
  dels : ∀ k, (k, none) ∈ cs → ∃ pn, (k, pn) ∈ lvl

/-! ## index operations on `c0 :: (pre ++ post)` -/

theorem get_at (c0 : α) : ∀ (pre post : List α), (c0 :: (pre ++ post))[pre.length + 1]? = post.head?
  | [], post => by cases post <;> simp
  | a :: pre, post => by simpa using get_at a pre post

theorem set_at (c0 q y : α) : ∀ (pre post : List α),
    (c0 :: (pre ++ q :: post)).set (pre.length + 1) y = c0 :: (pre ++ y :: post)
  | [], post => by simp
  | a :: pre, post => by
    have := set_at a q y pre post
    simp only [List.length_cons, List.cons_append, List.set_cons_succ] at this ⊢
    rw [this]

theorem erase_at (c0 q : α) : ∀ (pre post : List α),
    (c0 :: (pre ++ q :: post)).eraseIdx (pre.length + 1) = c0 :: (pre ++ post)
  | [], post => by simp
  | a :: pre, post => by
    have := erase_at a q pre post
    simp only [List.length_cons, List.cons_append, List.eraseIdx_cons_succ] at this ⊢
    rw [this]

theorem insert_at (c0 y : α) : ∀ (pre post : List α),
    (c0 :: (pre ++ post)).insertIdx (pre.length + 1) y = c0 :: (pre ++ y :: post)
  | [], post => by simp
  | a :: pre, post => by
    have := insert_at a y pre post
    simp only [List.length_cons, List.cons_append, List.insertIdx_succ_cons] at this ⊢
    rw [this]

/-! ## the two shapes of a changeset that starts at the zero key -/

theorem apply_del_zero (pn0 : Nat) (D R2 : Level) (cs2 : List (Nat × Option Nat)) (h : LvlAsc ((0, pn0) :: D ++ R2)) :
    applyAll (lvlEnts ((0, pn0) :: D ++ R2)) (chs ((0, none) :: (D.map (fun x => (x.1, none)) ++ cs2))) =
      applyAll (lvlEnts R2) (chs cs2) :=
  applyAll_del_prefix ((0, pn0) :: D) R2 cs2 h

theorem apply_set_zero (pn0 p : Nat) (D R2 : Level) (cs2 : List (Nat × Option Nat)) (h : LvlAsc ((0, pn0) :: D ++ R2))
    (hcs : ∀ c ∈ cs2, 0 < c.1) (hD : ∀ x ∈ D, 0 < x.1) :
    applyAll (lvlEnts ((0, pn0) :: D ++ R2)) (chs ((0, some p) :: (D.map (fun x => (x.1, none)) ++ cs2))) =
      ⟨0, p, false⟩ :: applyAll (lvlEnts R2) (chs cs2) := by
  have h' := List.pairwise_cons.1 h
  show applyAll (write1 (lvlEnts ((0, pn0) :: D ++ R2)) 0 (some (p, false))) (chs (D.map (fun x => (x.1, none)) ++ cs2)) = _
  have : write1 (lvlEnts ((0, pn0) :: D ++ R2)) 0 (some (p, false)) = ⟨0, p, false⟩ :: lvlEnts (D ++ R2) := by
    simp only [List.cons_append, lvlEnts_cons]
    apply LeafUpd.write1_some_head_eq rfl
    intro e he
    obtain ⟨y, hy, rfl⟩ := List.mem_map.1 he
    exact h'.1 y hy
  rw [this, applyAll_cons_lt]
  · rw [applyAll_del_prefix D R2 cs2 h'.2]
  · intro c hc
    obtain ⟨c', hc', e⟩ := mem_chs hc
    show 0 < c.1
    rw [← e]
    rcases List.mem_append.1 hc' with h1 | h1
    · obtain ⟨y, hy, rfl⟩ := List.mem_map.1 h1
      exact hD y hy
    · exact hcs c' h1

end Nomt.StageGlue
