import NomtModel.Store.ExtRangePrep
/-!
`prepare_workers`: the workers it returns partition the change list and the key space (`ChainOK`), for every worker
count, every level lookup with `look k = some s → s ≤ k`, every ascending change list.
-/
namespace Nomt.ExtRange

/-- every key of the worker's op range lies in its separator range -/
def InR (keys : List Nat) (w : WP) : Prop :=
  ∀ j k, w.start ≤ j → j < w.stop → keys[j]? = some k →
    (∀ l, w.low = some l → l ≤ k) ∧ (∀ h, w.high = some h → k < h)

/-- the list of workers starts with a worker with the given `low` / `start` / `left`, consecutive workers are adjacent
(`high = low'`, `stop = start'`, linked), every op range is non-empty and inside its separator range, separator ranges are
non-empty, the last worker is unbounded -/
def ChainOK (keys : List Nat) (total : Nat) : Option Nat → Nat → Bool → List WP → Prop
  | _, _, _, [] => False
  | low, start, left, [w] =>
    w.low = low ∧ w.start = start ∧ w.left = left ∧ w.high = none ∧ w.stop = total ∧ w.right = false ∧ start < total ∧
      InR keys w
  | low, start, left, w :: w' :: rest =>
    w.low = low ∧ w.start = start ∧ w.left = left ∧ w.right = true ∧ start < w.stop ∧
      (∃ s, w.high = some s ∧ ∀ l, low = some l → l < s) ∧ InR keys w ∧
      ChainOK keys total w.high w.stop true (w' :: rest)

theorem dropWhile_head_not {α : Type} (p : α → Bool) : ∀ (l : List α) (x : α), (l.dropWhile p).head? = some x → p x = false
  | [], x, h => by simp at h
  | a :: t, x, h => by
    by_cases hp : p a = true
    · rw [List.dropWhile_cons_of_pos hp] at h; exact dropWhile_head_not p t x h
    · rw [List.dropWhile_cons_of_neg hp] at h
      simp at h; subst h; simpa using hp

theorem takeWhile_all {α : Type} (p : α → Bool) : ∀ (l : List α), ∀ x ∈ l.takeWhile p, p x = true
  | [], x, h => by simp at h
  | a :: t, x, h => by
    by_cases hp : p a = true
    · rw [List.takeWhile_cons_of_pos hp] at h
      rcases List.mem_cons.1 h with h | h
      · subst h; exact hp
      · exact takeWhile_all p t x h
    · rw [List.takeWhile_cons_of_neg hp] at h; simp at h

/-- the split `tailCount` computes: the last `tailCount l sep` elements are `≥ sep`, the one in front of them is `< sep` -/
theorem tailCount_spec (l : List Nat) (sep : Nat) :
    ∃ a b, l = a ++ b ∧ b.length = tailCount l sep ∧ (∀ x ∈ b, sep ≤ x) ∧ (∀ x, a.getLast? = some x → x < sep) := by
  let p : Nat → Bool := fun k => decide (k ≥ sep)
  refine ⟨(l.reverse.dropWhile p).reverse, (l.reverse.takeWhile p).reverse, ?_, ?_, ?_, ?_⟩
  · rw [← List.reverse_append, List.takeWhile_append_dropWhile, List.reverse_reverse]
  · simp [tailCount, p]
  · intro x hx
    have := takeWhile_all p l.reverse x (by simpa using hx)
    simpa [p] using this
  · intro x hx
    rw [List.getLast?_reverse] at hx
    have := dropWhile_head_not p l.reverse x hx
    simp [p] at this; omega

theorem tailCount_le (l : List Nat) (sep : Nat) : tailCount l sep ≤ l.length := by
  obtain ⟨a, b, h, hb, _, _⟩ := tailCount_spec l sep
  rw [← hb, h]; simp

/-- ascending -/
def Asc (l : List Nat) : Prop := l.Pairwise (· ≤ ·)

theorem Asc.getElem_le {l : List Nat} (h : Asc l) {i j : Nat} {x y : Nat} (hij : i ≤ j) (hx : l[i]? = some x)
    (hy : l[j]? = some y) : x ≤ y := by
  rcases Nat.lt_or_ge i j with hlt | hge
  · have hj : j < l.length := by
      rcases Nat.lt_or_ge j l.length with h' | h'
      · exact h'
      · rw [List.getElem?_eq_none h'] at hy; cases hy
    have hi : i < l.length := by omega
    rw [List.getElem?_eq_getElem hi] at hx
    rw [List.getElem?_eq_getElem hj] at hy
    cases hx; cases hy
    exact List.pairwise_iff_getElem.1 h i j hi hj hlt
  · have : i = j := by omega
    subst this; rw [hx] at hy; cases hy; exact Nat.le_refl _

/-- in an ascending list, with `c = tailCount (rem.take pivot) sep`: indices below `pivot - c` hold keys `< sep`,
indices from `pivot - c` up to `pivot` hold keys `≥ sep` -/
theorem tailCount_asc (rem : List Nat) (hasc : Asc rem) (pivot sep : Nat) (hp : pivot ≤ rem.length) :
    (∀ j k, j < pivot - tailCount (rem.take pivot) sep → rem[j]? = some k → k < sep) ∧
    (∀ j k, pivot - tailCount (rem.take pivot) sep ≤ j → j < pivot → rem[j]? = some k → sep ≤ k) := by
  obtain ⟨a, b, h, hb, hge, hlt⟩ := tailCount_spec (rem.take pivot) sep
  have hlen : a.length + b.length = pivot := by
    have := congrArg List.length h
    simp at this; omega
  have htake : ∀ j, j < pivot → rem[j]? = (a ++ b)[j]? := by
    intro j hj
    rw [← h, List.getElem?_take_of_lt hj]
  constructor
  · intro j k hj hk
    rw [← hb] at hj
    have hja : j < a.length := by omega
    rw [htake j (by omega), List.getElem?_append_left hja] at hk
    -- the last element of `a` is `< sep`, and `j` is at most its index
    have hne : a ≠ [] := by intro h0; subst h0; simp at hja
    obtain ⟨x, hx⟩ : ∃ x, a.getLast? = some x := by
      cases hl : a.getLast? with
      | none => exact absurd (List.getLast?_eq_none_iff.1 hl) hne
      | some x => exact ⟨x, rfl⟩
    have hxl := hlt x hx
    have hxi : rem[a.length - 1]? = some x := by
      rw [htake _ (by omega), List.getElem?_append_left (by omega)]
      rw [List.getLast?_eq_getElem?] at hx; exact hx
    have hk' : rem[j]? = some k := by rw [htake j (by omega), List.getElem?_append_left hja]; exact hk
    have := hasc.getElem_le (show j ≤ a.length - 1 by omega) hk' hxi
    omega
  · intro j k hj hjp hk
    rw [← hb] at hj
    rw [htake j hjp, List.getElem?_append_right (by omega)] at hk
    exact hge k (List.mem_of_getElem? hk)

theorem asc_drop {l : List Nat} (h : Asc l) (n : Nat) : Asc (l.drop n) :=
  List.Pairwise.sublist (List.drop_sublist n l) h

/-- the invariant of the loop of `prepare_workers` -/
theorem prepLoop_chain (look : Nat → Option Nat) (hlook : ∀ k s, look k = some s → s ≤ k) (keys : List Nat)
    (hasc : Asc keys) :
    ∀ (fuel rw off : Nat) (rem : List Nat) (cur : WP),
      rem = keys.drop off → off ≤ keys.length →
      cur.high = none → cur.right = false → cur.stop = keys.length → cur.start ≤ off → cur.start < keys.length →
      (∀ j k l, cur.start ≤ j → keys[j]? = some k → cur.low = some l → l ≤ k) →
      ChainOK keys keys.length cur.low cur.start cur.left (prepLoop look keys.length fuel rw off rem cur) ∧
        (prepLoop look keys.length fuel rw off rem cur).length ≤ rw + 1 := by
  intro fuel
  induction fuel with
  | zero =>
    intro rw off rem cur hrem hoff hh hr hs hst hlt hlow
    refine ⟨⟨rfl, rfl, rfl, hh, hs, hr, hlt, ?_⟩, by simp [prepLoop]⟩
    intro j k hj _ hk
    exact ⟨fun l hl => hlow j k l hj hk hl, fun h hh' => by rw [hh] at hh'; cases hh'⟩
  | succ fuel ih =>
    intro rw off rem cur hrem hoff hh hr hs hst hlt hlow
    have hbase : ChainOK keys keys.length cur.low cur.start cur.left [cur] ∧ [cur].length ≤ rw + 1 := by
      refine ⟨⟨rfl, rfl, rfl, hh, hs, hr, hlt, ?_⟩, by simp⟩
      intro j k hj _ hk
      exact ⟨fun l hl => hlow j k l hj hk hl, fun h hh' => by rw [hh] at hh'; cases hh'⟩
    unfold prepLoop
    split
    · exact hbase
    · rename_i hcond
      simp only []
      split
      · exact hbase
      · rename_i hpiv
        split
        · exact hbase
        · rename_i key hkey
          split
          · exact hbase
          · rename_i sep hsep
            have hrw : rw ≠ 0 := fun h => hcond (Or.inl h)
            have hremlen : rem.length = keys.length - off := by rw [hrem]; simp
            have hpl : rem.length / (rw + 1) < rem.length := by
              have hpos : 0 < rem.length := Nat.pos_of_ne_zero (fun h => hcond (Or.inr h))
              exact Nat.div_lt_self hpos (by omega)
            generalize hpv : rem.length / (rw + 1) = pivot at *
            have hsk : sep ≤ key := hlook key sep hsep
            have hascr : Asc rem := by rw [hrem]; exact asc_drop hasc off
            obtain ⟨hltsep, hgesep⟩ := tailCount_asc rem hascr pivot sep (Nat.le_of_lt hpl)
            have hremk : ∀ j, rem[j]? = keys[off + j]? := by
              intro j; rw [hrem, List.getElem?_drop]
            split
            · -- no op for the previous worker: skip the pivot's ops
              rename_i hz
              have := ih rw (off + pivot) (rem.drop pivot) cur
                (by rw [hrem, List.drop_drop]) (by omega) hh hr hs (by omega) hlt hlow
              exact this
            · rename_i hnz
              have hpo : pivot - tailCount (List.take pivot rem) sep ≤
                  pivot := Nat.sub_le _ _
              generalize hpo' : pivot - tailCount (List.take pivot rem) sep = po at *
              have hpopos : 0 < po := Nat.pos_of_ne_zero hnz
              have hrec := ih (rw - 1) (off + po) (rem.drop po)
                { low := some sep, high := none, start := off + po, stop := keys.length, left := true, right := false }
                (by rw [hrem, List.drop_drop]) (by omega) rfl rfl rfl (Nat.le_refl _) (show off + po < keys.length by omega)
                (by
                  intro j k l hj hk hl
                  dsimp only at hj hl
                  simp only [Option.some.injEq] at hl; subst hl
                  rcases Nat.lt_or_ge j (off + pivot) with hjl | hjg
                  · exact hgesep (j - off) k (by omega) (by omega) (by rw [hremk]; rw [show off + (j - off) = j by omega]; exact hk)
                  · have hkey' : keys[off + pivot]? = some key := by rw [← hremk]; exact hkey
                    have := hasc.getElem_le hjg hkey' hk
                    omega)
              obtain ⟨hchain, hlen⟩ := hrec
              -- the previous worker, now bounded by `sep`
              have hfirst : InR keys { cur with high := some sep, right := true, stop := off + po } := by
                intro j k hj hjs hk
                refine ⟨fun l hl => hlow j k l hj hk hl, ?_⟩
                intro h hh'
                simp only [Option.some.injEq] at hh'; subst hh'
                simp only at hjs
                -- the last op of the previous worker is `< sep`, and `j` is not behind it
                have hlastidx : (po - 1) < po := by omega
                obtain ⟨x, hx⟩ : ∃ x, rem[po - 1]? = some x := by
                  have : po - 1 < rem.length := by omega
                  exact ⟨rem[po - 1], List.getElem?_eq_getElem this⟩
                have hxl := hltsep (po - 1) x hlastidx hx
                have hx' : keys[off + (po - 1)]? = some x := by rw [← hremk]; exact hx
                have := hasc.getElem_le (show j ≤ off + (po - 1) by omega) hk hx'
                omega
              have hlowsep : ∀ l, cur.low = some l → l < sep := by
                intro l hl
                obtain ⟨x, hx⟩ : ∃ x, rem[0]? = some x := by
                  have : 0 < rem.length := by omega
                  exact ⟨rem[0], List.getElem?_eq_getElem this⟩
                have hxl := hltsep 0 x hpopos hx
                have hx' : keys[off]? = some x := by have h0 := hremk 0; rw [Nat.add_zero] at h0; rw [← h0]; exact hx
                have := hlow off x l hst hx' hl
                omega
              cases hrest : prepLoop look keys.length fuel (rw - 1) (off + po) (List.drop po rem)
                  { low := some sep, high := none, start := off + po, stop := keys.length, left := true, right := false } with
              | nil => rw [hrest] at hchain; exact absurd hchain (by simp [ChainOK])
              | cons w' rest =>
                rw [hrest] at hchain hlen
                refine ⟨⟨rfl, rfl, rfl, rfl, by simp only; omega, ⟨sep, rfl, hlowsep⟩, hfirst, hchain⟩, ?_⟩
                simp only [List.length_cons] at hlen ⊢
                omega

end Nomt.ExtRange
