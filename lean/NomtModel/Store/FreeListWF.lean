import NomtModel.Store.FreeListBounded
import NomtModel.Store.FreeListTotal
import NomtModel.Store.FreeListFresh
/-!
`WellShaped` (the `Prop` the general theorems use) is what the executable check `wellShaped` of the bounded
evidence / the `alloc` driver mode decides; unconditional forms of the conservation theorems.
-/
namespace Nomt.Store.FreeList

theorem wellShaped_iff {cap : Nat} (hc : 2 ≤ cap) : ∀ ps : List Portion, wellShaped cap ps = true ↔ WellShaped cap ps
  | [] => by simp [wellShaped, WellShaped]
  | [(h, items)] => by simp [wellShaped, WellShaped]
  | (h, items) :: (nh, second) :: rest => by
    simp only [wellShaped, WellShaped, TailFull, Bool.and_eq_true, Bool.or_eq_true, decide_eq_true_eq,
      beq_iff_eq, List.all_eq_true]
    constructor
    · rintro ⟨⟨⟨h1, h2⟩, h3⟩, h4⟩
      refine ⟨h1, h2, ?_, h4⟩
      rcases h3 with e | ⟨⟨e1, e2⟩, _⟩
      · exact Or.inl e
      · exact Or.inr ⟨e1, e2⟩
    · rintro ⟨h1, h2, h3, h4⟩
      refine ⟨⟨⟨h1, h2⟩, ?_⟩, h4⟩
      rcases h3 with e | ⟨e1, e2⟩
      · exact Or.inl e
      · exact Or.inr ⟨⟨e1, e2⟩, by omega⟩

/-- a sync on a well-shaped list: `finish` answers, the new list is well-shaped, page numbers are conserved, the
frontier does not move backwards, and the free-list pages written are fresh -/
theorem finish_all {cap : Nat} (hc : 2 ≤ cap) (s : State) (n : Nat) (freed live : List Nat)
    (hw : WellShaped cap s.portions) (hb : 1 ≤ s.bump) (hrel : s.released = [])
    (hpart : ∀ a, List.count a (pagesOf s.portions) + List.count a live = rng a 1 s.bump)
    (hn : freed.Nodup) (hsub : ∀ a ∈ freed, a ∈ live) :
    ∃ r, finish cap s n freed = some r ∧ WellShaped cap r.state.portions ∧
      s.bump ≤ r.state.bump ∧ r.state.released = [] ∧
      (∀ a, List.count a (pagesOf r.state.portions) + List.count a (liveAfter live freed (handedOut s n))
        = rng a 1 r.state.bump) ∧
      (∀ w ∈ r.written, w ∈ (itemsOf s.portions).drop n ∨ s.bump + (n - (itemsOf s.portions).length) ≤ w) := by
  obtain ⟨r, hfin, hw'⟩ := finish_total hc s n freed hw
  obtain ⟨c1, c2, c3⟩ := finish_conserves hb hrel hpart hn hsub hfin
  exact ⟨r, hfin, hw', c1, c2, c3, finish_written hc hw hfin⟩

/-! ### histories -/

/-- the allocator invariant: a well-shaped free list whose tracked pages, together with the live pages,
partition `[1, bump)` -/
structure Good (cap : Nat) (s : State) (live : List Nat) : Prop where
  shape : WellShaped cap s.portions
  bump : 1 ≤ s.bump
  rel : s.released = []
  part : ∀ a, List.count a (pagesOf s.portions) + List.count a live = rng a 1 s.bump

/-- the states (with their live sets) reachable from the empty store by syncs that free live pages -/
inductive Reachable (cap : Nat) : State → List Nat → Prop where
  | init : Reachable cap { portions := [], released := [], pop := false, bump := 1 } []
  | sync (s : State) (live : List Nat) (n : Nat) (freed : List Nat) (r : Committed) :
      Reachable cap s live → freed.Nodup → (∀ a ∈ freed, a ∈ live) → finish cap s n freed = some r →
      Reachable cap r.state (liveAfter live freed (handedOut s n))

theorem good_init (cap : Nat) : Good cap { portions := [], released := [], pop := false, bump := 1 } [] :=
  ⟨trivial, Nat.le_refl 1, rfl, by intro a; simp [pagesOf, rng]; omega⟩

theorem good_step {cap : Nat} (hc : 2 ≤ cap) {s : State} {live : List Nat} (g : Good cap s live) (n : Nat)
    (freed : List Nat) (hn : freed.Nodup) (hsub : ∀ a ∈ freed, a ∈ live) :
    ∃ r, finish cap s n freed = some r ∧ Good cap r.state (liveAfter live freed (handedOut s n)) := by
  obtain ⟨r, hfin, hw', c1, c2, c3, _⟩ := finish_all hc s n freed live g.shape g.bump g.rel g.part hn hsub
  exact ⟨r, hfin, hw', by have := g.bump; omega, c2, c3⟩

theorem reachable_good {cap : Nat} (hc : 2 ≤ cap) {s : State} {live : List Nat} (h : Reachable cap s live) :
    Good cap s live := by
  induction h with
  | init => exact good_init cap
  | sync s live n freed r _ hn hsub hfin ih =>
    obtain ⟨r', hfin', g'⟩ := good_step hc ih n freed hn hsub
    rw [hfin] at hfin'
    injection hfin' with e
    rw [e]; exact g'

end Nomt.Store.FreeList
