import NomtModel.Store.CacheLru
/-!
# Lemmas about the `lru` mirror: what every method does to the key → value view, sizes, fuel
-/
namespace Nomt.Cache
namespace Lru
variable {K V : Type} [DecidableEq K]

@[simp] theorem find?_nil (k : K) : find? ([] : List (K × V)) k = none := rfl

theorem find?_cons (k' : K) (v : V) (t : List (K × V)) (k : K) :
    find? ((k', v) :: t) k = if k' = k then some v else find? t k := rfl

@[simp] theorem find?_cons_self (k : K) (v : V) (t : List (K × V)) : find? ((k, v) :: t) k = some v := by
  simp [find?_cons]

theorem find?_cons_ne {k' k : K} (h : k' ≠ k) (v : V) (t : List (K × V)) : find? ((k', v) :: t) k = find? t k := by
  simp [find?_cons, h]

theorem find?_erase_self (l : List (K × V)) (k : K) : find? (erase l k) k = none := by
  induction l with
  | nil => rfl
  | cons h t ih =>
    obtain ⟨k', v⟩ := h
    by_cases hk : k' = k
    · simp [erase, List.filter_cons, hk]; exact ih
    · simp only [erase, List.filter_cons, hk, decide_false, Bool.not_false, if_true]
      rw [find?_cons_ne hk]; exact ih

theorem find?_erase_ne (l : List (K × V)) {k k' : K} (h : k' ≠ k) : find? (erase l k) k' = find? l k' := by
  induction l with
  | nil => rfl
  | cons hd t ih =>
    obtain ⟨k0, v⟩ := hd
    by_cases hk : k0 = k
    · have : k0 ≠ k' := by intro e; exact h (e ▸ hk)
      simp only [erase, List.filter_cons, hk, decide_true, Bool.not_true]
      rw [← hk, find?_cons_ne this]; simpa [erase, hk] using ih
    · simp only [erase, List.filter_cons, hk, decide_false, Bool.not_false, if_true]
      simp only [find?_cons]
      split
      · rfl
      · exact ih

theorem length_erase_le (l : List (K × V)) (k : K) : (erase l k).length ≤ l.length := List.length_filter_le _ _

theorem find?_dropLast (l : List (K × V)) (k : K) (v : V) (h : find? l.dropLast k = some v) : find? l k = some v := by
  induction l with
  | nil => simp at h
  | cons hd t ih =>
    obtain ⟨k0, v0⟩ := hd
    cases t with
    | nil => simp at h
    | cons hd2 t2 =>
      rw [List.dropLast_cons_cons] at h
      simp only [find?_cons] at h ⊢
      split
      · rename_i e; simpa [e] using h
      · rename_i e; simp only [e, if_false] at h; exact ih h

theorem find?_isSome_mem (l : List (K × V)) (k : K) (v : V) (h : find? l k = some v) : (k, v) ∈ l := by
  induction l with
  | nil => simp at h
  | cons hd t ih =>
    obtain ⟨k0, v0⟩ := hd
    simp only [find?_cons] at h
    split at h
    · rename_i e; cases h; simp [e]
    · exact List.mem_cons_of_mem _ (ih h)

/-! ## the view of a cache and what the methods do to it -/

theorem get_fst (c : Lru K V) (k : K) : (c.get k).1 = c.peek k := by
  unfold get peek; split <;> simp_all

theorem get_peek (c : Lru K V) (k k' : K) : (c.get k).2.peek k' = c.peek k' := by
  unfold get peek
  split
  · rename_i v hv
    by_cases h : k' = k
    · subst h; simp [hv]
    · have : k ≠ k' := fun e => h e.symm
      simp [find?_cons_ne this, find?_erase_ne _ h]
  · rfl

theorem get_len_le (c : Lru K V) (k : K) : (c.get k).2.capPred = c.capPred := by
  unfold get; split <;> rfl

theorem pushNew_peek_self (c : Lru K V) (k : K) (v : V) : (c.pushNew k v).peek k = some v := by
  unfold pushNew peek; split <;> simp

theorem pushNew_peek_ne (c : Lru K V) {k k' : K} (h : k' ≠ k) (v x : V) (hx : (c.pushNew k v).peek k' = some x) :
    c.peek k' = some x := by
  have hne : k ≠ k' := fun e => h e.symm
  unfold pushNew peek at *
  split at hx
  · simp only [find?_cons_ne hne] at hx; exact find?_dropLast _ _ _ hx
  · simpa [find?_cons_ne hne] using hx

theorem put_peek_self (c : Lru K V) (k : K) (v : V) : (c.put k v).peek k = some v := by
  unfold put; split
  · simp [peek]
  · exact pushNew_peek_self c k v

theorem put_peek_ne (c : Lru K V) {k k' : K} (h : k' ≠ k) (v x : V) (hx : (c.put k v).peek k' = some x) :
    c.peek k' = some x := by
  have hne : k ≠ k' := fun e => h e.symm
  unfold put at hx
  split at hx
  · simpa [peek, find?_cons_ne hne, find?_erase_ne _ h] using hx
  · exact pushNew_peek_ne c h v x hx

theorem getOrInsert_fst (c : Lru K V) (k : K) (v : V) : (c.getOrInsert k v).1 = (c.peek k).getD v := by
  unfold getOrInsert peek; split <;> simp_all

theorem getOrInsert_peek_self (c : Lru K V) (k : K) (v : V) :
    (c.getOrInsert k v).2.peek k = some ((c.peek k).getD v) := by
  unfold getOrInsert
  split
  · rename_i old h; simp [peek, h]
  · rename_i h; simp only [peek] at *; rw [h]; exact pushNew_peek_self c k v

theorem getOrInsert_peek_ne (c : Lru K V) {k k' : K} (h : k' ≠ k) (v x : V)
    (hx : (c.getOrInsert k v).2.peek k' = some x) : c.peek k' = some x := by
  have hne : k ≠ k' := fun e => h e.symm
  unfold getOrInsert at hx
  split at hx
  · simpa [peek, find?_cons_ne hne, find?_erase_ne _ h] using hx
  · exact pushNew_peek_ne c h v x hx

theorem pop_peek_self (c : Lru K V) (k : K) : (c.pop k).peek k = none := find?_erase_self _ _

theorem pop_peek_ne (c : Lru K V) {k k' : K} (h : k' ≠ k) : (c.pop k).peek k' = c.peek k' := find?_erase_ne _ h

theorem popLru_peek (c : Lru K V) (k : K) (x : V) (h : c.popLru.peek k = some x) : c.peek k = some x :=
  find?_dropLast _ _ _ h

theorem popLru_len (c : Lru K V) : c.popLru.len = c.len - 1 := by simp [popLru, len]

theorem evictLoop_peek (fuel : Nat) (c : Lru K V) (limit : Nat) (k : K) (x : V)
    (h : (evictLoop fuel c limit).peek k = some x) : c.peek k = some x := by
  induction fuel generalizing c with
  | zero => exact h
  | succ n ih =>
    unfold evictLoop at h
    split at h
    · exact popLru_peek c k x (ih _ h)
    · exact h

theorem evictLoop_len (fuel : Nat) (c : Lru K V) (limit : Nat) (hf : c.len ≤ limit + fuel) :
    (evictLoop fuel c limit).len ≤ limit := by
  induction fuel generalizing c with
  | zero => simpa [evictLoop] using hf
  | succ n ih =>
    unfold evictLoop
    split
    · apply ih; rw [popLru_len]; omega
    · omega

/-- fuel is never the answer: with `len` units the loop stops because its condition is false -/
theorem evictLoop_fuel (fuel : Nat) (c : Lru K V) (limit : Nat) (hf : c.len ≤ limit + fuel) :
    evictLoop (fuel + 1) c limit = evictLoop fuel c limit := by
  induction fuel generalizing c with
  | zero =>
    have : ¬ c.len > limit := by omega
    simp [evictLoop, this]
  | succ n ih =>
    rw [evictLoop]
    split
    · rw [ih]
      · conv => rhs; rw [evictLoop]
        simp [*]
      · rw [popLru_len]; omega
    · conv => rhs; rw [evictLoop]
      simp [*]

theorem evict_peek (c : Lru K V) (limit : Nat) (k : K) (x : V) (h : (c.evict limit).peek k = some x) :
    c.peek k = some x := evictLoop_peek _ c limit k x h

theorem evict_len (c : Lru K V) (limit : Nat) : (c.evict limit).len ≤ limit :=
  evictLoop_len _ c limit (by omega)

/-- the loop leaves the `limit` most recently used entries, in order -/
theorem evictLoop_items (fuel : Nat) (c : Lru K V) (limit : Nat) (hf : c.len ≤ limit + fuel) :
    (evictLoop fuel c limit).items = c.items.take limit := by
  induction fuel generalizing c with
  | zero =>
    simp only [evictLoop]
    exact (List.take_of_length_le (by simpa [len] using hf)).symm
  | succ n ih =>
    unfold evictLoop
    split
    · rename_i hgt
      rw [ih _ (by rw [popLru_len]; omega)]
      simp only [popLru, List.dropLast_eq_take]
      rw [List.take_take]
      congr 1
      simp only [len] at hgt; omega
    · rename_i hle
      exact (List.take_of_length_le (by simp only [len] at hle; omega)).symm

theorem evict_items (c : Lru K V) (limit : Nat) : (c.evict limit).items = c.items.take limit :=
  evictLoop_items _ c limit (by omega)

/-- a nomt cache is `unbounded`: `len == cap` needs 2^64 − 1 entries -/
theorem pushNew_unbounded (c : Lru K V) (k : K) (v : V) (h : c.len < c.cap) :
    (c.pushNew k v).items = (k, v) :: c.items := by
  unfold pushNew; split
  · omega
  · rfl

end Lru
end Nomt.Cache
