import NomtModel.Store.BranchUpdBuild
/-!
# Branch updater: `extract_ops_until`, `try_split`, `digest`
-/
namespace Nomt.BranchUpd
open Nomt.LeafUpd (Entry Sorted slice_length slice_append slice_succ slice_cons_of_lt mem_slice slice_self)

theorem mu_le (l : List Op) : mu l ≤ 2 * opsCount l + 1 := by
  have := headNonIns_le l; simp only [mu]; omega

theorem extractOpsUntil_spec {kf : KF} (hkf : KFOK kf) (b? : Option Base) (hbase : BaseOK kf b?) (ops : List Op)
    (target : Nat) (hwf : WF kf b? ops) (hs : Sorted (den b? ops)) (hbl : ∀ e ∈ den b? ops, e.key < 2 ^ 256)
    (hT1 : MERGE ≤ target) (hT2 : target ≤ BODY) :
    ∃ done todo g built, extractOpsUntil kf b? ops target = some (done, todo, g, built) ∧
      den b? done ++ den b? todo = den b? ops ∧ TrOK kf b? done g ∧ WF kf b? todo ∧
      ∃ bd, g.body = some bd ∧ bd ≤ BODY ∧ (built = true → MERGE ≤ bd) ∧ (built = false → todo = [] ∧ bd < target) := by
  obtain ⟨r, e, o⟩ := extractLoop_spec hkf b? hbase (2 * opsCount ops + ops.length + 2) {} [] ops target
    ⟨wf_nil _ _, GOK.nil kf, trivial⟩ hwf (by simpa using hs) (by simpa using hbl)
    ⟨0, rfl, by decide⟩ hT1 hT2 (by have := mu_le ops; omega)
  obtain ⟨g, done, todo, target'⟩ := r
  obtain ⟨bd, b1, b2, b3⟩ := o.body
  simp only at b1 b2 b3
  refine ⟨done, todo, g, decide (bd ≥ target'), by simp [extractOpsUntil, e, b1], by simpa using o.den_eq, o.tr, o.wf_todo,
    bd, b1, b2, ?_, ?_⟩
  · intro h
    have := o.target.1
    simp only [decide_eq_true_eq] at h
    simp only at this
    omega
  · intro h
    simp only [decide_eq_false_iff_not, Nat.not_le] at h
    have := o.target.2
    simp only at this
    exact ⟨b3 h, by omega⟩

/-- what `handle_new_branch` is handed -/
structure NodeGood (kf : KF) (cut : Option Nat) (p : Produced) : Prop where
  ne : p.node.items ≠ []
  sep : p.node.items.head?.map (·.key) = some p.sep
  cutoff : p.cutoff = cut
  lower : MERGE ≤ p.node.body ∨ cut = none
  upper : kf.canon = true → p.node.body ≤ BODY
  pc : 1 ≤ p.node.pc ∧ p.node.pc ≤ p.node.items.length
  sorted : SortedK p.node.keys
  below : Below p.node.keys
  pl_le : p.node.pl ≤ 256
  share : ∀ f, p.node.items.head? = some f → ∀ it ∈ p.node.items.take p.node.pc, top it.key p.node.pl = top f.key p.node.pl
  canon : kf.canon = true → ∀ i (h : i < p.node.items.length),
    p.node.items[i].slen = if i < p.node.pc then kf.sl p.node.items[i].key - p.node.pl else kf.sl p.node.items[i].key

/-- with the repair of F22 a produced node is a well-formed node again: it can be the base of a later stage -/
theorem NodeGood.nodeOK {kf : KF} {cut : Option Nat} {p : Produced} (h : NodeGood kf cut p) (hc : kf.canon = true) :
    NodeOK kf p.node :=
  ⟨h.ne, h.sorted, h.below, h.pc.1, h.pc.2, h.pl_le, h.share, h.canon hc⟩

/-- the entries of a list of produced nodes -/
def flatP (ls : List Produced) : List (Entry Nat) := ls.flatMap fun p => ents p.node.items

@[simp] theorem flatP_nil : flatP [] = [] := rfl
@[simp] theorem flatP_append (a b : List Produced) : flatP (a ++ b) = flatP a ++ flatP b := by simp [flatP]
@[simp] theorem flatP_single (p : Produced) : flatP [p] = ents p.node.items := by simp [flatP]

theorem opFirstKey_spec {kf : KF} (b? : Option Base) (hpc : ∀ b, b? = some b → b.node.pc ≤ b.node.items.length)
    (ops : List Op) (hwf : WF kf b? ops) (hne : den b? ops ≠ []) :
    ∃ sep, opFirstKey b? ops = some sep ∧ (den b? ops).head?.map (·.key) = some sep := by
  cases ops with
  | nil => exact absurd rfl hne
  | cons op r =>
    have hop := (wf_cons.1 hwf).1
    cases op with
    | ins k pn => exact ⟨k, rfl, by simp [denOp]⟩
    | upd pos pn =>
      obtain ⟨b, eb, h1, _⟩ := hop
      subst eb
      have hp : pos < b.node.items.length := by have := hpc b rfl; omega
      exact ⟨b.node.items[pos].key, by simp [opFirstKey, Node.key_of_lt _ _ hp],
        by simp [denOp, baseItems, List.getElem?_eq_getElem hp]⟩
    | keep s e sum =>
      obtain ⟨b, eb, h1, h2, _⟩ := hop
      subst eb
      have hp : s < b.node.items.length := by have := hpc b rfl; omega
      refine ⟨b.node.items[s].key, by simp [opFirstKey, Node.key_of_lt _ _ hp], ?_⟩
      simp [denOp, baseItems, slice_cons_of_lt _ _ _ h1 hp, Item.ent]

theorem den_ne_nil_of_body {kf : KF} {g : Gauge} {L : List Nat} (hg : GOK kf g L) (bd : Nat) (hb : g.body = some bd)
    (hpos : 0 < bd) : L ≠ [] := by
  intro hnil
  have := hg.empty hnil
  subst this
  simp [Gauge.body, bodySize] at hb
  omega

/-- building the node for a consistent, non-empty tracker whose gauge is within the node size -/
theorem produce_spec {kf : KF} (hkf : KFOK kf) (b? : Option Base) (hbase : BaseOK kf b?) (ops : List Op) (g : Gauge)
    (htr : TrOK kf b? ops g) (hs : Sorted (den b? ops)) (hbl : ∀ e ∈ den b? ops, e.key < 2 ^ 256) (bd : Nat)
    (hbd : g.body = some bd) (hle : bd ≤ BODY) (hpos : 0 < bd) (cut : Option Nat) (hlow : MERGE ≤ bd ∨ cut = none) :
    ∃ node sep, buildBranch kf b? ops g = some node ∧ opFirstKey b? ops = some sep ∧ ents node.items = den b? ops ∧
      NodeGood kf cut ⟨sep, node, cut⟩ := by
  have hsL : SortedK (ekeys (den b? ops)) := (sortedK_ekeys _).2 hs
  have hbL : Below (ekeys (den b? ops)) := by
    intro x hx
    obtain ⟨e, he, rfl⟩ := List.mem_map.1 hx
    exact hbl e he
  have hne : den b? ops ≠ [] := by
    have := den_ne_nil_of_body htr.gauge bd hbd hpos
    intro h; rw [h] at this; exact this rfl
  obtain ⟨node, n1, n2, n3, n4, k0, n5⟩ := buildBranch_spec hkf b? hbase ops g htr hs hbl ⟨bd, hbd, hle⟩
  obtain ⟨sep, s1, s2⟩ := opFirstKey_spec (kf := kf) b? hbase.pc_le ops htr.wf hne
  have hkeys : node.items.map (·.key) = ekeys (den b? ops) := by rw [← n4, ekeys_ents]
  have hbodyK : bd = bodyOfKeys kf g.pl g.pcItems (ekeys (den b? ops)) := by
    have := htr.gauge.body hkf hsL hbL
    rw [hbd] at this; exact Option.some.inj this
  have hnode : node = ⟨g.pl, g.pcItems, node.items⟩ := by
    cases node; simp only at n2 n3; subst n2; subst n3; rfl
  obtain ⟨q1, q2⟩ := node_body_of_good kf g.pl g.pcItems k0 node.items _ hkeys n5
  rw [← hnode, ← hbodyK] at q1 q2
  have hitems : node.items ≠ [] := by
    intro h; rw [h] at n4; exact hne n4.symm
  have hpcb := htr.gauge.pcItems_bounds (by intro h; apply hne; simpa [ekeys] using h)
  have hlenK : node.items.length = (ekeys (den b? ops)).length := by rw [← hkeys]; simp
  refine ⟨node, sep, n1, s1, n4, ⟨hitems, ?_, rfl, ?_, fun hc => by rw [q2 hc]; exact hle, ?_, ?_, ?_, ?_, ?_, ?_⟩⟩
  · rw [← s2, ← n4]
    cases hx : node.items with
    | nil => exact absurd hx hitems
    | cons a r => simp [Item.ent]
  · rcases hlow with h | h
    · exact Or.inl (by simp only; omega)
    · exact Or.inr h
  · simp only [n3]
    rw [hlenK]; exact hpcb
  · show SortedK (node.items.map (·.key)); rw [hkeys]; exact hsL
  · show Below (node.items.map (·.key)); rw [hkeys]; exact hbL
  · simp only [n2]; exact htr.gauge.pl_le
  · intro f hf it hit
    simp only [n2, n3] at hit ⊢
    have hhead : (ekeys (den b? ops)).head? = some f.key := by
      rw [← hkeys]
      cases hx : node.items with
      | nil => rw [hx] at hf; cases hf
      | cons a r => rw [hx] at hf; simp at hf; subst hf; rfl
    apply htr.gauge.share f.key hhead
    rw [← hkeys, ← List.map_take]
    exact List.mem_map.2 ⟨it, hit, rfl⟩
  · intro hc i hi
    have hgl := goodFrom_getElem kf g.pl g.pcItems k0 node.items 0 n5 i hi
    have := hgl.2.2 hc
    simp only [Nat.zero_add, canonLen] at this
    simp only [n2, n3]
    exact this

/-! ## `try_split` -/

structure SplitOut (kf : KF) (st st' : St) (ls : List Produced) (target : Nat) : Prop where
  den_eq : flatP ls ++ den st'.base st'.ops = den st.base st.ops
  base : st'.base = st.base
  cutoff : st'.cutoff = st.cutoff
  valid : st'.valid = true
  tr : TrOK kf st'.base st'.ops st'.gauge
  below : ∃ bd, st'.gauge.body = some bd ∧ bd < target
  nodes : ∀ p ∈ ls, NodeGood kf st.cutoff p

theorem splitLoopNodes_spec {kf : KF} (hkf : KFOK kf) (target : Nat) (hT1 : MERGE ≤ target) (hT2 : target ≤ BODY) :
    ∀ fuel (st : St) (acc : List Produced), BaseOK kf st.base → WF kf st.base st.ops → Sorted (den st.base st.ops) →
      (∀ e ∈ den st.base st.ops, e.key < 2 ^ 256) → opsCount st.ops < fuel →
      ∃ st' ls, splitLoopNodes kf target fuel st acc = some (st', acc ++ ls) ∧ SplitOut kf st st' ls target := by
  have hM := MERGE_eq
  intro fuel
  induction fuel with
  | zero => intro st acc _ _ _ _ h; omega
  | succ fuel ih =>
    intro st acc hbase hwf hs hbl hfuel
    obtain ⟨done, todo, g, built, e1, e2, e3, e4, bd, e5, e6, e7, e8⟩ :=
      extractOpsUntil_spec hkf st.base hbase st.ops target hwf hs hbl hT1 hT2
    simp only [splitLoopNodes, e1]
    cases built with
    | false =>
      obtain ⟨t1, t2⟩ := e8 rfl
      subst t1
      simp only [List.append_nil, den_nil] at e2 ⊢
      refine ⟨{ st with ops := done, gauge := g, valid := true }, [], by simp,
        ⟨by simpa using e2, rfl, rfl, rfl, e3, ⟨bd, e5, t2⟩, (by intro p hp; cases hp)⟩⟩
    | true =>
      have hge := e7 rfl
      have hsd : Sorted (den st.base done) := by rw [← e2] at hs; exact hs.append_left
      have hbd : ∀ e ∈ den st.base done, e.key < 2 ^ 256 := fun e he => hbl e (by rw [← e2]; exact List.mem_append_left _ he)
      obtain ⟨node, sep, p1, p2, p3, p4⟩ := produce_spec hkf st.base hbase done g e3 hsd hbd bd e5 e6 (by omega) st.cutoff
        (Or.inl hge)
      simp only [p1, p2]
      have hst : Sorted (den st.base todo) := by rw [← e2] at hs; exact hs.append_right
      have hbt : ∀ e ∈ den st.base todo, e.key < 2 ^ 256 := fun e he => hbl e (by rw [← e2]; exact List.mem_append_right _ he)
      have hcount : opsCount todo < fuel := by
        have h1 := den_length hbase.pc_le hwf
        have h2 := den_length hbase.pc_le e3.wf
        have h3 := den_length hbase.pc_le e4
        have h4 := congrArg List.length e2
        rw [List.length_append, h1, h2, h3] at h4
        have hne := den_ne_nil_of_body e3.gauge bd e5 (by omega)
        have : 0 < (den st.base done).length := by
          cases hx : den st.base done with
          | nil => rw [hx] at hne; exact absurd rfl hne
          | cons a r => simp
        omega
      obtain ⟨st', ls, r1, r2⟩ := ih { st with ops := todo, valid := false } (acc ++ [⟨sep, node, st.cutoff⟩]) hbase e4 hst hbt hcount
      refine ⟨st', ⟨sep, node, st.cutoff⟩ :: ls, by rw [r1]; simp, ⟨?_, r2.base, r2.cutoff, r2.valid, r2.tr, r2.below, ?_⟩⟩
      · have := r2.den_eq
        simp only at this
        rw [← e2, ← this]
        simp [flatP, p3]
      · intro p hp
        rcases List.mem_cons.1 hp with h | h
        · rw [h]; exact p4
        · exact r2.nodes p h

theorem trySplit_spec {kf : KF} (hkf : KFOK kf) (st : St) (target : Nat) (hT1 : MERGE ≤ target) (hT2 : target ≤ BODY)
    (hbase : BaseOK kf st.base) (hwf : WF kf st.base st.ops) (hs : Sorted (den st.base st.ops))
    (hbl : ∀ e ∈ den st.base st.ops, e.key < 2 ^ 256) :
    ∃ st' ls, trySplit kf st target = some (st', ls) ∧ SplitOut kf st st' ls target := by
  obtain ⟨st', ls, e1, e2⟩ := splitLoopNodes_spec hkf target hT1 hT2 (opsCount st.ops + st.ops.length + 2) st [] hbase hwf hs hbl
    (by omega)
  exact ⟨st', ls, by simpa [trySplit] using e1, e2⟩

/-! ## `digest` -/

structure DigestOut (kf : KF) (st st' : St) (ls : List Produced) (res : DigestResult) : Prop where
  content_eq : flatP ls ++ den st'.base st'.ops = content st
  rest_nil : restOf st'.base = []
  cutoff : st'.cutoff = st.cutoff
  node : st'.base.map (·.node) = st.base.map (·.node)
  nodes : ∀ p ∈ ls, NodeGood kf st.cutoff p
  valid : st'.valid = true
  tr : TrOK kf st'.base st'.ops st'.gauge
  base_ok : BaseOK kf st'.base
  fin : res = .finished → st'.ops = []
  merge : ∀ c, res = .needsMerge c → st.cutoff = some c ∧ AllIns st'.ops ∧ den st'.base st'.ops ≠ []

theorem st_body_of {kf : KF} (hkf : KFOK kf) (s : St) (hv : s.valid = true) (htr : TrOK kf s.base s.ops s.gauge)
    (hs : Sorted (den s.base s.ops)) (hb : ∀ e ∈ den s.base s.ops, e.key < 2 ^ 256) :
    ∃ bd, s.body = some bd ∧ s.gauge.body = some bd := by
  have hsL : SortedK (ekeys (den s.base s.ops)) := (sortedK_ekeys _).2 hs
  have hbL : Below (ekeys (den s.base s.ops)) := by
    intro x hx
    obtain ⟨e, he, rfl⟩ := List.mem_map.1 hx
    exact hb e he
  exact ⟨_, by simp [St.body, hv, htr.gauge.body hkf hsL hbL], htr.gauge.body hkf hsL hbL⟩

/-- the bulk split and the split of `digest` -/
theorem digestSplit_spec {kf : KF} (hkf : KFOK kf) (st0 : St) (k8 : st0.valid = true)
    (k4 : TrOK kf st0.base st0.ops st0.gauge) (k5 : BaseOK kf st0.base) (hs0 : Sorted (den st0.base st0.ops))
    (hb0 : ∀ e ∈ den st0.base st0.ops, e.key < 2 ^ 256) :
    ∃ st2 ls, digestSplit kf st0 = some (st2, ls) ∧ flatP ls ++ den st2.base st2.ops = den st0.base st0.ops ∧
      st2.base = st0.base ∧ st2.cutoff = st0.cutoff ∧ st2.valid = true ∧ TrOK kf st2.base st2.ops st2.gauge ∧
      (∀ p ∈ ls, NodeGood kf st0.cutoff p) ∧ ∃ b3, st2.gauge.body = some b3 ∧ b3 ≤ BODY := by
  have hB := BODY_eq
  have hM := MERGE_eq
  have hBT := BULK_TARGET_eq
  have hBH := BULK_THRESHOLD_eq
  obtain ⟨b1, hb1, hg1⟩ := st_body_of hkf st0 k8 k4 hs0 hb0
  -- the bulk split
  have step1 : ∃ st1 l1, (if b1 > BULK_THRESHOLD then trySplit kf st0 BULK_TARGET else some (st0, [])) = some (st1, l1) ∧
      flatP l1 ++ den st1.base st1.ops = den st0.base st0.ops ∧ st1.base = st0.base ∧ st1.cutoff = st0.cutoff ∧
      st1.valid = true ∧ TrOK kf st1.base st1.ops st1.gauge ∧ (∀ p ∈ l1, NodeGood kf st0.cutoff p) ∧
      ∃ b2, st1.gauge.body = some b2 ∧ b2 ≤ BULK_THRESHOLD ∧ (b1 > BULK_THRESHOLD → b2 < BULK_TARGET) := by
    by_cases h : b1 > BULK_THRESHOLD
    · simp only [h, if_true]
      obtain ⟨st1, l1, e1, o⟩ := trySplit_spec hkf st0 BULK_TARGET (by omega) (by omega) k5 k4.wf hs0 hb0
      obtain ⟨b2, q1, q2⟩ := o.below
      exact ⟨st1, l1, e1, o.den_eq, o.base, o.cutoff, o.valid, o.tr, o.nodes, b2, q1, by omega, fun _ => q2⟩
    · simp only [h, if_false]
      exact ⟨st0, [], rfl, by simp, rfl, rfl, k8, k4, (by intro p hp; cases hp), b1, hg1, by omega, fun h' => h'.elim⟩
  obtain ⟨st1, l1, s1, s2, s3, s4, s5, s6, s7, b2, s8, s9, s10⟩ := step1
  simp only [digestSplit, hb1, s1]
  have hs1 : Sorted (den st1.base st1.ops) := by rw [← s2] at hs0; exact hs0.append_right
  have hbl1 : ∀ e ∈ den st1.base st1.ops, e.key < 2 ^ 256 := fun e he => hb0 e (by rw [← s2]; exact List.mem_append_right _ he)
  have hbase1 : BaseOK kf st1.base := by rw [s3]; exact k5
  have hbody1 : st1.body = some b2 := by simp [St.body, s5, s8]
  simp only [hbody1]
  -- the split
  have step2 : ∃ st2 l2, (if b2 > BODY then trySplit kf st1 (b2 / 2) else some (st1, [])) = some (st2, l2) ∧
      flatP l2 ++ den st2.base st2.ops = den st1.base st1.ops ∧ st2.base = st1.base ∧ st2.cutoff = st1.cutoff ∧
      st2.valid = true ∧ TrOK kf st2.base st2.ops st2.gauge ∧ (∀ p ∈ l2, NodeGood kf st1.cutoff p) ∧
      ∃ b3, st2.gauge.body = some b3 ∧ b3 ≤ BODY := by
    by_cases h : b2 > BODY
    · simp only [h, if_true]
      obtain ⟨st2, l2, e1, o⟩ := trySplit_spec hkf st1 (b2 / 2) (by omega) (by omega) hbase1 s6.wf hs1 hbl1
      obtain ⟨b3, q1, q2⟩ := o.below
      exact ⟨st2, l2, e1, o.den_eq, o.base, o.cutoff, o.valid, o.tr, o.nodes, b3, q1, by omega⟩
    · simp only [h, if_false]
      exact ⟨st1, [], rfl, by simp, rfl, rfl, s5, s6, (by intro p hp; cases hp), b2, s8, by omega⟩
  obtain ⟨st2, l2, t1, t2, t3, t4, t5, t6, t7, b3, t8, t9⟩ := step2
  simp only [t1]
  refine ⟨st2, l1 ++ l2, rfl, by rw [flatP_append, List.append_assoc, t2, s2], by rw [t3, s3], by rw [t4, s4], t5, t6, ?_,
    b3, t8, t9⟩
  intro p hp
  rcases List.mem_append.1 hp with h | h
  · exact s7 p h
  · have := t7 p h; rwa [s4] at this

theorem digest_spec {kf : KF} (hkf : KFOK kf) (st : St) (hinv : TInv kf st) :
    ∃ st' ls res, digest kf st = some (st', ls, res) ∧ DigestOut kf st st' ls res := by
  have hB := BODY_eq
  have hM := MERGE_eq
  obtain ⟨st0, k1, k2, k3, k4, k5, k6, k7, k8⟩ :=
    keepUpTo_none_spec hkf st hinv.valid hinv.tr hinv.base hinv.sorted hinv.below
  simp only [digest, k1]
  have hs0 : Sorted (den st0.base st0.ops) := by rw [k2]; exact hinv.sorted
  have hb0 : ∀ e ∈ den st0.base st0.ops, e.key < 2 ^ 256 := by rw [k2]; exact hinv.below
  obtain ⟨st2, ls, d1, d2, d3, d4, t5, t6, d7, b3, t8, t9⟩ := digestSplit_spec hkf st0 k8 k4 k5 hs0 hb0
  simp only [d1]
  have hbody2 : st2.body = some b3 := by simp [St.body, t5, t8]
  simp only [hbody2]
  have hs2 : Sorted (den st2.base st2.ops) := by rw [← d2] at hs0; exact hs0.append_right
  have hbl2 : ∀ e ∈ den st2.base st2.ops, e.key < 2 ^ 256 := fun e he => hb0 e (by rw [← d2]; exact List.mem_append_right _ he)
  have hbase2 : BaseOK kf st2.base := by rw [d3]; exact k5
  have hcut2 : st2.cutoff = st.cutoff := by rw [d4, k7]
  have hcontent : flatP ls ++ den st2.base st2.ops = content st := by rw [d2, k2]
  have hnodes : ∀ p ∈ ls, NodeGood kf st.cutoff p := by
    intro p hp
    have := d7 p hp; rwa [k7] at this
  have hrest2 : restOf st2.base = [] := by rw [d3]; exact k3
  have hnode2 : st2.base.map (·.node) = st.base.map (·.node) := by rw [d3]; exact k6
  by_cases hz : b3 = 0
  · have hz' : (b3 == 0) = true := by simp [hz]
    simp only [hz', if_true]
    -- nothing is left
    have hnil : den st2.base st2.ops = [] := by
      cases hx : den st2.base st2.ops with
      | nil => rfl
      | cons a r =>
        exfalso
        have hsL : SortedK (ekeys (den st2.base st2.ops)) := (sortedK_ekeys _).2 hs2
        have hbL : Below (ekeys (den st2.base st2.ops)) := by
          intro x hx'
          obtain ⟨e, he, rfl⟩ := List.mem_map.1 hx'
          exact hbl2 e he
        have := t6.gauge.body hkf hsL hbL
        rw [t8, hz] at this
        have h0 := Option.some.inj this
        rw [hx] at h0
        simp [bodyOfKeys, bodySize] at h0
    have hops : st2.ops = [] := by
      have := den_length hbase2.pc_le t6.wf
      rw [hnil] at this
      cases hx : st2.ops with
      | nil => rfl
      | cons op r =>
        exfalso
        rw [hx] at this
        have hop := count_pos_of_ok ((wf_cons.1 (hx ▸ t6.wf)).1)
        simp at this
        omega
    exact ⟨st2, ls, .finished, rfl, ⟨hcontent, hrest2, hcut2, hnode2, hnodes, t5, t6, hbase2, fun _ => hops,
      by intro c hc; cases hc⟩⟩
  · have hz' : (b3 == 0) = false := by simp [hz]
    simp only [hz', Bool.false_eq_true, if_false]
    by_cases hbuild : (decide (b3 ≥ MERGE) || st2.cutoff.isNone) = true
    · simp only [hbuild, if_true]
      have hlow : MERGE ≤ b3 ∨ st2.cutoff = none := by
        simp only [Bool.or_eq_true, decide_eq_true_eq, Option.isNone_iff_eq_none] at hbuild
        exact hbuild
      obtain ⟨node, sep, p1, p2, p3, p4⟩ := produce_spec hkf st2.base hbase2 st2.ops st2.gauge t6 hs2 hbl2 b3 t8 t9
        (by omega) st2.cutoff hlow
      simp only [p1, p2]
      refine ⟨_, _, .finished, rfl, ⟨?_, hrest2, hcut2, hnode2, ?_, t5, ⟨wf_nil _ _, GOK.nil kf, trivial⟩, hbase2, fun _ => rfl,
        by intro c hc; cases hc⟩⟩
      · simp only [flatP_append, flatP_single, den_nil, List.append_nil, p3]
        exact hcontent
      · intro p hp
        rcases List.mem_append.1 hp with h | h
        · exact hnodes p h
        · simp only [List.mem_singleton] at h
          rw [h, ← hcut2]; exact p4
    · simp only [hbuild, Bool.false_eq_true, if_false]
      have hb' : ¬ (b3 ≥ MERGE) ∧ ¬ st2.cutoff = none := by
        simp only [Bool.or_eq_true, decide_eq_true_eq, not_or, Option.isNone_iff_eq_none] at hbuild
        exact hbuild
      obtain ⟨c, hc⟩ : ∃ c, st2.cutoff = some c := by
        cases hx : st2.cutoff with
        | none => exact absurd hx hb'.2
        | some c => exact ⟨c, rfl⟩
      obtain ⟨r, m1, m2, m3, _⟩ := mergeOps_spec hbase2.pc_le t6.wf
      simp only [m1, hc]
      have hne : den st2.base st2.ops ≠ [] := by
        have := den_ne_nil_of_body t6.gauge b3 t8 (by omega)
        intro h; rw [h] at this; exact this rfl
      refine ⟨_, _, .needsMerge c, rfl, ⟨by simp only [m2]; exact hcontent, hrest2, (by simp only; rw [← hc]; exact hcut2),
        hnode2, hnodes, t5, ⟨wf_allIns m3, by simp only [m2]; exact t6.gauge, PCOK.allIns m3⟩, hbase2,
        (by intro h; cases h), ?_⟩⟩
      intro c' hc'
      cases hc'
      exact ⟨by rw [← hcut2, hc], m3, by simp only [m2]; exact hne⟩

end Nomt.BranchUpd
