import NomtModel.Store.StageGlueLeafStage
import NomtModel.Store.StageGlueEnforce3
import NomtModel.Store.StageGlueEnforceKeys
import NomtModel.Store.StageGlueFilter
import NomtModel.Store.LeafUpdRun3
import NomtModel.Store.LeafUpdSep
import NomtModel.Store.StageGlueEmpty
/-!
# The leaf stage as a whole (`leafStage_spec`)

Composition of: the one-worker theorem of the leaf updater (`LeafUpd.runWorker_spec`), erasure and bookkeeping of the
instrumented worker, the tracker fold, `filter_leaves_changeset` on an ascending list, and the specification of
`enforce_first_leaf_separator`.
-/
namespace Nomt.StageGlue
open Nomt
open Nomt.LeafUpd (Entry DbLeaf OutLeaf Leaf CellSize Sorted write1 applyAll OutUpTo nextSep)
open Nomt.ExtRange (Tracker TE Inner Pn upsert lookupE filterCs)
open Nomt.BranchUpd (chs chOf)

variable {V : Type} [CellSize V]

/-- non-empty leaves whose keys lie between consecutive separators have strictly ascending separators -/
theorem outAsc_of_upTo : ∀ (out : List (OutLeaf V)) (s : Nat), OutUpTo out s → (∀ o ∈ out, o.ents ≠ []) →
    OutAsc out ∧ ∀ o ∈ out, nextSep out s ≤ o.sep
  | [], _, _, _ => ⟨List.Pairwise.nil, fun o ho => by cases ho⟩
  | A :: rest, s, h, hne => by
    obtain ⟨h1, h2, h3⟩ := h
    obtain ⟨i1, i2⟩ := outAsc_of_upTo rest s h3 (fun o ho => hne o (by simp [ho]))
    obtain ⟨e, t, he⟩ := List.exists_cons_of_ne_nil (hne A (by simp))
    have hlt : A.sep < nextSep rest s := by
      have a := h1 e (by rw [he]; simp)
      have b := h2 e (by rw [he]; simp)
      omega
    refine ⟨List.pairwise_cons.2 ⟨fun o ho => by have := i2 o ho; omega, i1⟩, ?_⟩
    intro o ho
    rcases List.mem_cons.1 ho with rfl | ho
    · exact Nat.le_refl _
    · have := i2 o ho
      show A.sep ≤ o.sep
      omega

theorem relabel0_of_head_zero {l : List (Entry Nat)} (hs : Sorted l) (h : getE l 0 ≠ none) : relabel0 l = l := by
  cases l with
  | nil => rfl
  | cons x t =>
    have hx : x.key = 0 := by
      by_cases hx : x.key = 0
      · exact hx
      · exfalso
        apply h
        rw [getE_cons, if_neg hx]
        apply getE_none_of_forall
        intro e he
        have := (List.pairwise_cons.1 hs).1 e he
        omega
    cases x
    simp only at hx
    subst hx
    rfl

/-- the pages the tracker reports as freed are the page numbers of its `delete` calls, each once -/
theorem trackerFreed_perm {N : Type} (f : Nat → Nat) (P : Nat → Prop) : ∀ (inner : Inner N), InnerAsc inner →
    (∀ k, delV inner k = none ∨ (P k ∧ delV inner k = some (f k))) → (∀ k, P k → delV inner k = some (f k)) →
    ∀ (S : List Nat), S.Nodup → (∀ k, k ∈ S ↔ P k) → (trackerFreed inner).Perm (S.map f) := by
  intro inner hasc hd hP S hS hmem
  -- the keys with a `delete` call
  have key : ∀ (inner : Inner N), InnerAsc inner →
      trackerFreed inner = (inner.filter fun x => x.2.deleted.isSome).map fun x => (x.2.deleted.getD 0) := by
    intro inner
    induction inner with
    | nil => intro _; rfl
    | cons x t ih =>
      intro h
      obtain ⟨k, e⟩ := x
      have iht := ih (List.pairwise_cons.1 h).2
      unfold trackerFreed at iht ⊢
      cases hdel : e.deleted with
      | none =>
        by_cases hi : e.inserted.isSome = true
        · simp [List.filter_cons, hdel, hi, iht]
        · simp [List.filter_cons, hdel, hi, iht]
      | some p => simp [List.filter_cons, hdel, iht]
  rw [key inner hasc]
  have hval : ∀ x ∈ inner.filter (fun x => x.2.deleted.isSome), x.2.deleted.getD 0 = f x.1 := by
    intro x hx
    obtain ⟨hm, hs⟩ := List.mem_filter.1 hx
    obtain ⟨k, e⟩ := x
    have hl := lookupE_of_mem hasc hm
    have hv : delV inner k = e.deleted := by simp [delV, hl]
    rcases hd k with h0 | ⟨_, h1⟩
    · rw [hv] at h0; simp only at hs; rw [h0] at hs; cases hs
    · rw [hv] at h1; simp only; rw [h1]; rfl
  rw [List.map_congr_left hval]
  have e : (inner.filter fun x => x.2.deleted.isSome).map (fun a => f a.1) =
      ((inner.filter fun x => x.2.deleted.isSome).map fun x => x.1).map f := by simp
  rw [e]
  apply List.Perm.map
  apply (List.perm_ext_iff_of_nodup ?_ hS).2
  · intro k
    rw [hmem k]
    constructor
    · intro hk
      obtain ⟨x, hx, rfl⟩ := List.mem_map.1 hk
      obtain ⟨hm, hs⟩ := List.mem_filter.1 hx
      obtain ⟨k, e⟩ := x
      have hl := lookupE_of_mem hasc hm
      have hv : delV inner k = e.deleted := by simp [delV, hl]
      rcases hd k with h0 | ⟨hp, _⟩
      · rw [hv] at h0; simp only at hs; rw [h0] at hs; cases hs
      · exact hp
    · intro hp
      have h1 := hP k hp
      unfold delV at h1
      cases hl : lookupE k inner with
      | none => rw [hl] at h1; cases h1
      | some e =>
        rw [hl] at h1
        simp only [Option.bind_some] at h1
        -- `(k, e) ∈ inner`
        have hin : ∀ (inner : Inner N), lookupE k inner = some e → (k, e) ∈ inner := by
          intro inner
          induction inner with
          | nil => intro h; cases h
          | cons y t ih =>
            intro h
            obtain ⟨k0, e0⟩ := y
            by_cases hk : k = k0
            · subst hk; simp [lookupE] at h; subst h; simp
            · simp only [lookupE, hk, if_false] at h
              exact List.mem_cons_of_mem _ (ih h)
        exact List.mem_map.2 ⟨(k, e), List.mem_filter.2 ⟨hin inner hl, by simp [h1]⟩, rfl⟩
  · -- ascending keys are pairwise different
    have : ((inner.filter fun x => x.2.deleted.isSome).map fun x => x.1).Pairwise (· < ·) := by
      rw [List.pairwise_map]
      exact List.Pairwise.filter _ hasc
    exact this.imp (fun h => by omega)

/-- what the leaf stage guarantees (`leafStage_spec`) -/
structure LeafStageOK (lpn fresh : Nat → Nat) (a0 : Nat) (db : List (DbLeaf V)) (cs : List (Nat × Option (V × Bool)))
    (pagesOf : V → List Nat) (o : LeafOut V) : Prop where
  /-- the leaves left behind hold the old content with the batch applied -/
  content : LeafUpd.flatOut o.level = applyAll (LeafUpd.flat db) cs
  run : LeafUpd.runWorker LeafUpd.sepReal db cs = some (o.level, LeafUpd.ovfLog (LeafUpd.flat db) (cs.map (·.1)))
  asc : OutAsc o.level
  news : ∀ l, OutLeaf.new l ∈ o.level → LeafUpd.NewGood l
  olds : ∀ l, OutLeaf.old l ∈ o.level → l ∈ db
  chain : ∃ s, OutUpTo o.level s
  /-- the leaf changeset is ascending … -/
  cs_asc : CsAsc o.changeset
  /-- … and turns the old leaf level into the new one, the first leaf under the zero key -/
  level : applyAll (lvlEnts (db.map fun l => (l.sep, lpn l.sep))) (chs o.changeset) =
    relabel0 (lvlEnts (lvlOf lpn fresh a0 o.level))
  allocs : o.allocs = a0 + (newsOf o.level).length
  /-- `PostIoWork`: exactly the produced leaves, each with the page number it was written to -/
  postio : ∀ pn l, (pn, l) ∈ o.postIo ↔ ∃ i, (newsOf o.level)[i]? = some l ∧ pn = fresh (a0 + i)
  /-- on the empty tree the changeset only inserts -/
  nones : db = [] → ∀ c ∈ o.changeset, c.2.isSome = true
  /-- every key of the changeset is a 256-bit key -/
  keys_lt : ∀ c ∈ o.changeset, c.1 < 2 ^ 256
  /-- released: the pages of the overflow cells of old entries whose key is in the batch, then the pages of the old leaves
  that are not part of the new level -/
  freed : ∃ fl, o.freed = (LeafUpd.ovfLog (LeafUpd.flat db) (cs.map (·.1))).flatMap pagesOf ++ fl ∧
    fl.Perm ((db.filter fun l => decide (l.sep ∉ (oldsOf o.level).map (·.sep))).map fun l => lpn l.sep)

end Nomt.StageGlue

namespace Nomt.StageGlue
open Nomt
open Nomt.LeafUpd (Entry DbLeaf OutLeaf Leaf CellSize Sorted write1 applyAll OutUpTo nextSep)
open Nomt.ExtRange (Tracker TE Inner Pn upsert lookupE filterCs)
open Nomt.BranchUpd (chs chOf)

variable {V : Type} [CellSize V]

theorem dbOK_seps_asc {KB : Nat} : ∀ (db : List (DbLeaf V)), LeafUpd.DbOK KB db →
    (db.map (·.sep)).Pairwise (· < ·) ∧ ∀ l ∈ db, ∀ h, db.head? = some h → h.sep ≤ l.sep
  | [], _ => ⟨List.Pairwise.nil, fun l hl => by cases hl⟩
  | [a], _ => ⟨by simp, fun l hl h hh => by simp at hl hh; subst hl; subst hh; exact Nat.le_refl _⟩
  | a :: b :: r, h => by
    obtain ⟨h1, h2⟩ := h
    obtain ⟨i1, i2⟩ := dbOK_seps_asc (b :: r) h2
    have hab : a.sep < b.sep := (h1.2.2.2.2 b.sep rfl).1
    refine ⟨?_, ?_⟩
    · simp only [List.map_cons]
      refine List.pairwise_cons.2 ⟨?_, by simpa using i1⟩
      intro s hs
      obtain ⟨l, hl, rfl⟩ : ∃ l ∈ b :: r, l.sep = s := by
        rcases List.mem_cons.1 hs with rfl | hs
        · exact ⟨b, by simp, rfl⟩
        · obtain ⟨l, hl, e⟩ := List.mem_map.1 hs
          exact ⟨l, by simp [hl], e⟩
      have := i2 l hl b rfl
      omega
    · intro l hl hd hh
      simp only [List.head?_cons, Option.some.injEq] at hh
      subst hh
      rcases List.mem_cons.1 hl with rfl | hl
      · exact Nat.le_refl _
      · have := i2 l hl b rfl
        omega

theorem mem_of_lookupE {N : Type} {k : Nat} {e : TE N} : ∀ {inner : Inner N}, lookupE k inner = some e → (k, e) ∈ inner
  | [], h => by cases h
  | (k0, e0) :: t, h => by
    by_cases hk : k = k0
    · subst hk; simp [lookupE] at h; subst h; simp
    · simp only [lookupE, hk, if_false] at h
      exact List.mem_cons_of_mem _ (mem_of_lookupE h)

/-- the nodes the tracker hands to the cache / the writer: the `insert` calls that survived, with their page numbers -/
theorem mem_trackerInserted {N : Type} (fresh : Nat → Nat) (inner : Inner N) (hasc : InnerAsc inner) (pn : Nat) (n : N) :
    (pn, n) ∈ trackerInserted fresh inner ↔ ∃ k p, insV inner k = some (n, p) ∧ pn = resolve fresh p := by
  unfold trackerInserted
  rw [List.mem_filterMap]
  constructor
  · rintro ⟨⟨k, e⟩, hm, he⟩
    cases hi : e.inserted with
    | none => simp [hi] at he
    | some y =>
      obtain ⟨n', p⟩ := y
      simp only [hi, Option.map_some, Option.some.injEq, Prod.mk.injEq] at he
      obtain ⟨rfl, rfl⟩ := he
      exact ⟨k, p, by simp [insV, lookupE_of_mem hasc hm, hi], rfl⟩
  · rintro ⟨k, p, hi, rfl⟩
    unfold insV at hi
    cases hl : lookupE k inner with
    | none => rw [hl] at hi; cases hi
    | some e =>
      rw [hl] at hi
      simp only [Option.bind_some] at hi
      exact ⟨(k, e), mem_of_lookupE hl, by simp [hi]⟩

theorem expInsL_iff {N : Type} (sepOf : N → Nat) (k : Nat) (n : N) (p : Pn) : ∀ (news : List N) (a : Nat),
    news.Pairwise (fun x y => sepOf x < sepOf y) →
    (expInsL a (news.map fun l => (sepOf l, l)) k = some (n, p) ↔
      ∃ i, news[i]? = some n ∧ sepOf n = k ∧ p = .new 0 (a + i))
  | [], _, _ => by simp [expInsL]
  | l :: t, a, h => by
    have h' := List.pairwise_cons.1 h
    simp only [List.map_cons, expInsL]
    by_cases hk : sepOf l = k
    · have hnone : expInsL (a + 1) (t.map fun l => (sepOf l, l)) k = none := expInsL_none (by
        intro x hx e
        obtain ⟨y, hy, rfl⟩ := List.mem_map.1 hx
        have := h'.1 y hy
        simp only at e
        omega)
      rw [hnone]
      simp only [hk, if_true, Option.some.injEq, Prod.mk.injEq]
      constructor
      · rintro ⟨rfl, rfl⟩
        exact ⟨0, by simp, hk, by simp⟩
      · rintro ⟨i, hi, hs, rfl⟩
        cases i with
        | zero => simp at hi; exact ⟨hi, by simp⟩
        | succ j =>
          simp only [List.getElem?_cons_succ] at hi
          have := h'.1 n (List.mem_of_getElem? hi)
          omega
    · have ih := expInsL_iff sepOf k n p t (a + 1) h'.2
      cases he : expInsL (a + 1) (t.map fun l => (sepOf l, l)) k with
      | none =>
        rw [he] at ih
        simp only [hk, if_false]
        constructor
        · intro h0; cases h0
        · rintro ⟨i, hi, hs, rfl⟩
          cases i with
          | zero => simp at hi; subst hi; exact absurd hs hk
          | succ j =>
            simp only [List.getElem?_cons_succ] at hi
            have := ih.2 ⟨j, hi, hs, by congr 1; omega⟩
            cases this
      | some y =>
        rw [he] at ih
        simp only [Option.some.injEq]
        constructor
        · intro h0
          obtain ⟨j, hj, hs, hp⟩ := ih.1 (by rw [h0])
          exact ⟨j + 1, by simpa using hj, hs, by rw [hp]; congr 1; omega⟩
        · rintro ⟨i, hi, hs, rfl⟩
          cases i with
          | zero => simp at hi; subst hi; exact absurd hs hk
          | succ j =>
            simp only [List.getElem?_cons_succ] at hi
            have := ih.2 ⟨j, hi, hs, by congr 1; omega⟩
            simpa using this

theorem newAt_some {fresh : Nat → Nat} {k p : Nat} : ∀ {news : List (Leaf V)} {a : Nat}, newAt fresh a news k = some p →
    ∃ l ∈ news, l.sep = k
  | [], _, h => by cases h
  | l :: t, a, h => by
    unfold newAt at h
    by_cases hk : l.sep = k
    · exact ⟨l, by simp, hk⟩
    · rw [if_neg hk] at h
      obtain ⟨l', hl', e⟩ := newAt_some (news := t) h
      exact ⟨l', by simp [hl'], e⟩

theorem mem_write1_key {l : List (Entry V)} {k : Nat} {ch : Option (V × Bool)} {e : Entry V} (h : e ∈ write1 l k ch) :
    e ∈ l ∨ e.key = k := by
  unfold write1 at h
  rcases List.mem_append.1 h with h | h
  · exact Or.inl (List.mem_filter.1 h).1
  · rcases List.mem_append.1 h with h | h
    · cases ch with
      | none => cases h
      | some vo => obtain ⟨v, o⟩ := vo; simp at h; subst h; exact Or.inr rfl
    · exact Or.inl (List.mem_filter.1 h).1

theorem mem_applyAll_key : ∀ (cs : List (Nat × Option (V × Bool))) (l : List (Entry V)) (e : Entry V),
    e ∈ applyAll l cs → e ∈ l ∨ ∃ c ∈ cs, c.1 = e.key
  | [], _, _, h => Or.inl h
  | c :: cs, l, e, h => by
    rcases mem_applyAll_key cs (write1 l c.1 c.2) e h with h | ⟨c', hc', hk⟩
    · rcases mem_write1_key h with h | h
      · exact Or.inl h
      · exact Or.inr ⟨c, by simp, h.symm⟩
    · exact Or.inr ⟨c', by simp [hc'], hk⟩

/-- the old tree as the leaf stage needs it -/
structure LeafTreeOK (db : List (DbLeaf V)) : Prop where
  ok : LeafUpd.DbOK (2 ^ 256) db
  nonempty : ∀ l ∈ db, l.ents ≠ []
  zero : ∀ l, db.head? = some l → l.sep = 0

/-- **the leaf stage** (one worker, the code as it is): on a well-formed non-empty tree and a non-empty ascending batch it
reaches no panic site — none of the updater's, not `assert!(entry.deleted.is_none())`, not the `assert!`s / `len() - 1` of
`filter_leaves_changeset`, not the `unwrap` / indexings of `enforce_first_leaf_separator` — and `LeafStageOK` holds. -/
theorem leafStage_spec (pagesOf : V → List Nat) (lpn fresh : Nat → Nat) (a0 : Nat) (db : List (DbLeaf V))
    (cs : List (Nat × Option (V × Bool))) (lo : Nat) (ht : LeafTreeOK db)
    (hcs : LeafUpd.ChOK (2 ^ 256) lo cs) (hcsne : cs ≠ []) :
    ∃ o, leafStage LeafUpd.sepReal pagesOf fresh false (db.map fun l => (l.sep, lpn l.sep)) lpn db cs a0 = some o ∧
      LeafStageOK lpn fresh a0 db cs pagesOf o := by
  obtain ⟨c0, cs', rfl⟩ := List.exists_cons_of_ne_nil hcsne
  obtain ⟨k0, ch0⟩ := c0
  have hfirst : ∀ l, db.head? = some l → l.sep ≤ lo := fun l hl => by rw [ht.zero l hl]; exact Nat.zero_le _
  obtain ⟨out, log, erun, hcontent, hlog, hnews, hchain⟩ :=
    LeafUpd.runWorker_spec LeafUpd.sepReal (2 ^ 256) LeafUpd.sepReal_ok db ((k0, ch0) :: cs') lo ht.ok hcs hfirst
  -- the instrumented worker
  have her := leafWorker_erase LeafUpd.sepReal lpn db k0 ch0 cs'
  rw [erun] at her
  cases hw : leafWorker LeafUpd.sepReal lpn db ((k0, ch0) :: cs') with
  | none => rw [hw] at her; cases her
  | some x =>
    rw [hw] at her
    simp only [Option.map_some, Option.some.injEq, Prod.mk.injEq] at her
    obtain ⟨hxo, hxl⟩ := her
    have hb := leafWorker_book LeafUpd.sepReal lpn db _ x hw
    obtain ⟨hsasc, _⟩ := dbOK_seps_asc db ht.ok
    -- untouched leaves are old leaves
    have holds : ∀ l, OutLeaf.old l ∈ out → l ∈ db := by
      intro l hl
      obtain ⟨⟨consumed, _, hperm⟩, _⟩ := hb
      apply hperm.mem_iff.1
      apply List.mem_append_right
      have : l ∈ oldsOf out := by
        have key : ∀ (o : List (OutLeaf V)), OutLeaf.old l ∈ o → l ∈ oldsOf o := by
          intro o
          induction o with
          | nil => intro h; cases h
          | cons y t ih =>
            intro h
            cases y with
            | old l' =>
              rcases List.mem_cons.1 h with e | h
              · cases e; simp [oldsOf]
              · simp [oldsOf, ih h]
            | new l' =>
              rcases List.mem_cons.1 h with e | h
              · cases e
              · simp [oldsOf, ih h]
        exact key out hl
      rw [← hxo, oldsOf_append, oldsOf_old] at this
      exact this
    have hallne : ∀ o ∈ out, o.ents ≠ [] := by
      intro o ho
      cases o with
      | old l => exact ht.nonempty l (holds l ho)
      | new l => exact (hnews l ho).1
    obtain ⟨s, hs⟩ := hchain
    obtain ⟨hoasc, _⟩ := outAsc_of_upTo out s hs hallne
    obtain ⟨tr, hr, hiasc, hxf, hcasc, hdels, hlevel, hdelV, hinsV, hinsFull⟩ :=
      leaf_level_change lpn fresh a0 db x hsasc hb (by rw [hxo]; exact hoasc)
    rw [hxo] at hlevel
    have hfilt := filterCs_of_asc true (trackerChanges fresh tr.inner) (Or.inl rfl) hcasc
    -- `enforce_first_leaf_separator`
    have hlvlasc : LvlAsc (db.map fun l => (l.sep, lpn l.sep)) := by
      unfold LvlAsc; rw [List.pairwise_map]; exact (List.pairwise_map).1 hsasc
    have hpre : EnfPre (db.map fun l => (l.sep, lpn l.sep)) (trackerChanges fresh tr.inner) := by
      refine ⟨hlvlasc, ?_, hcasc, ?_⟩
      · intro y hy
        cases hdb : db with
        | nil => rw [hdb] at hy; cases hy
        | cons l r =>
          rw [hdb] at hy
          simp only [List.map_cons, List.head?_cons, Option.some.injEq] at hy
          subst hy
          exact ht.zero l (by rw [hdb]; rfl)
      · intro k hk
        obtain ⟨l, hl, e⟩ := List.mem_map.1 (hdels k hk)
        exact ⟨lpn k, List.mem_map.2 ⟨l, hl, by simp [e]⟩⟩
    have hsortedNew : Sorted (lvlEnts (lvlOf lpn fresh a0 out)) := lvlEnts_sorted (lvlOf_asc lpn fresh out a0 hoasc)
    obtain ⟨enf, he, heasc, hact, hnoact⟩ : ∃ enf, enforceFirst false (db.map fun l => (l.sep, lpn l.sep))
        (trackerChanges fresh tr.inner) = some enf ∧ CsAsc enf ∧
        ((trackerChanges fresh tr.inner).head? = some (0, none) →
          applyAll (lvlEnts (db.map fun l => (l.sep, lpn l.sep))) (chs enf) =
            relabel0 (applyAll (lvlEnts (db.map fun l => (l.sep, lpn l.sep))) (chs (trackerChanges fresh tr.inner)))) ∧
        ((trackerChanges fresh tr.inner).head? ≠ some (0, none) → enf = trackerChanges fresh tr.inner) := by
      by_cases hh : (trackerChanges fresh tr.inner).head? = some (0, none)
      · obtain ⟨c, post, hcp⟩ : ∃ c post, trackerChanges fresh tr.inner = c :: post := by
          cases h : trackerChanges fresh tr.inner with
          | nil => rw [h] at hh; cases hh
          | cons c post => exact ⟨c, post, rfl⟩
        rw [hcp] at hh hpre ⊢
        simp only [List.head?_cons, Option.some.injEq] at hh
        subst hh
        obtain ⟨cs', e, a, b⟩ := enforceFirst_spec hpre
        exact ⟨cs', e, a, fun _ => b, fun hn => absurd rfl hn⟩
      · exact ⟨_, enforceFirst_noop false _ _ hh, hcasc, fun h' => absurd h' hh, fun _ => rfl⟩
    have hres : leafStage LeafUpd.sepReal pagesOf fresh false (db.map fun l => (l.sep, lpn l.sep)) lpn db
        ((k0, ch0) :: cs') a0 =
        some { changeset := enf,
               freed := x.r.log.flatMap pagesOf ++ trackerFreed tr.inner ++ tr.extraFreed.map (resolve fresh),
               submittedIo := a0 + (trackerInserted fresh tr.inner).length + tr.extraFreed.length,
               postIo := trackerInserted fresh tr.inner, allocs := a0 + (newsOf x.r.out).length,
               level := x.r.out ++ x.r.rest.map .old } := by
      simp only [leafStage, hw, hr, Bool.not_false, hfilt, he]
    refine ⟨_, hres, ?_⟩
    simp only [hxo]
    have hlvl2 : applyAll (lvlEnts (db.map fun l => (l.sep, lpn l.sep))) (chs enf) =
        relabel0 (lvlEnts (lvlOf lpn fresh a0 out)) := by
      by_cases hh : (trackerChanges fresh tr.inner).head? = some (0, none)
      · rw [hact hh, hlevel]
      · rw [hnoact hh, hlevel]
        symm
        by_cases hdbe : db = []
        · -- the empty tree: the updater itself gives the first leaf the zero key
          have hz := (runWorker_nil_head LeafUpd.sepReal (2 ^ 256) LeafUpd.sepReal_ok _ lo hcs out log
            (by rw [← hdbe]; exact erun)).1
          cases hout : out with
          | nil => rfl
          | cons o t =>
            have h0 : o.sep = 0 := hz o (by rw [hout]; rfl)
            cases o with
            | old l => simp only [OutLeaf.sep] at h0; simp [lvlOf, relabel0, h0]
            | new l => simp only [OutLeaf.sep] at h0; simp [lvlOf, relabel0, h0]
        have hdbne : db ≠ [] := hdbe
        apply relabel0_of_head_zero hsortedNew
        -- the new level holds something under the zero key: the first old leaf or its replacement
        rw [← hlevel, getE_applyAll _ _ 0 (chs_keys_ne hcasc)]
        cases hg : getC (chs (trackerChanges fresh tr.inner)) 0 with
        | none =>
          simp only []
          rw [getE_lvlEnts_db]
          obtain ⟨l, r, hdb⟩ := List.exists_cons_of_ne_nil hdbne
          have : (0 : Nat) ∈ db.map (·.sep) := by
            rw [hdb]; simp [ht.zero l (by rw [hdb]; rfl)]
          simp [this]
        | some w =>
          simp only []
          cases w with
          | some v => simp
          | none =>
            exfalso
            apply hh
            -- `(0, none)` is in the ascending changeset: it is its head
            unfold getC at hg
            cases hf : (chs (trackerChanges fresh tr.inner)).find? (fun c => c.1 == 0) with
            | none => rw [hf] at hg; cases hg
            | some c =>
              rw [hf] at hg
              simp only [Option.map_some, Option.some.injEq] at hg
              have hcm := List.mem_of_find?_eq_some hf
              have hc0 : c.1 = 0 := by have := List.find?_some hf; simpa using this
              obtain ⟨c', hc', hce⟩ := List.mem_map.1 hcm
              have hc'0 : c'.1 = 0 := by rw [← hce] at hc0; exact hc0
              have hc'n : c'.2 = none := by
                rw [← hce] at hg
                simp only [chOf] at hg
                cases h : c'.2 <;> simp [h] at hg ⊢
              cases htc : trackerChanges fresh tr.inner with
              | nil => rw [htc] at hc'; cases hc'
              | cons d t =>
                rw [htc] at hc' hcasc
                rcases List.mem_cons.1 hc' with e | hmem
                · subst e
                  obtain ⟨a, b⟩ := c'
                  simp only at hc'0 hc'n
                  subst hc'0; subst hc'n
                  rfl
                · have := (List.pairwise_cons.1 hcasc).1 c' hmem
                  omega
    -- every separator is a 256-bit key
    have hkb := (LeafUpd.DbOK.sizeOK ht.ok).2
    have hdbsep : ∀ l ∈ db, l.sep < 2 ^ 256 := by
      intro l hl
      obtain ⟨e, t, he⟩ := List.exists_cons_of_ne_nil (ht.nonempty l hl)
      have hmem : e ∈ LeafUpd.flat db := List.mem_flatMap.2 ⟨l, hl, by rw [he]; simp⟩
      have h1 := hkb e hmem
      have key : ∀ (d : List (DbLeaf V)), LeafUpd.DbOK (2 ^ 256) d → ∀ l ∈ d, ∀ e ∈ l.ents, l.sep ≤ e.key := by
        intro d
        induction d with
        | nil => intro _ l hl; cases hl
        | cons y r ih =>
          intro hd l hl e he
          rcases List.mem_cons.1 hl with rfl | hl
          · exact (LeafUpd.DbOK.head hd).2.2.2.1 e he
          · exact ih (LeafUpd.DbOK.tail hd) l hl e he
      have := key db ht.ok l hl e (by rw [he]; simp)
      omega
    have hnewsep : ∀ l, OutLeaf.new l ∈ out → l.sep < 2 ^ 256 := by
      intro l hl
      obtain ⟨hne, _, _, hlo, _⟩ := hnews l hl
      obtain ⟨e, t, he⟩ := List.exists_cons_of_ne_nil hne
      have h1 := hlo e (by rw [he]; simp)
      have hmem : e ∈ LeafUpd.flatOut out := List.mem_flatMap.2 ⟨.new l, hl, by simp [OutLeaf.ents, he]⟩
      rw [hcontent] at hmem
      rcases mem_applyAll_key _ _ e hmem with h | ⟨c, hc, hk⟩
      · have := hkb e h; omega
      · have := LeafUpd.ChOK.keys_lt hcs c hc
        omega
    have hchkeys : ∀ c ∈ trackerChanges fresh tr.inner, c.1 < 2 ^ 256 := by
      intro c hc
      unfold trackerChanges at hc
      obtain ⟨⟨k', e⟩, he, rfl⟩ := List.mem_map.1 hc
      obtain ⟨hmem', hp⟩ := List.mem_filter.1 he
      have hl := lookupE_of_mem hiasc hmem'
      show k' < 2 ^ 256
      cases hi : e.inserted with
      | some y =>
        have h1 : insV tr.inner k' = some y := by simp [insV, hl, hi]
        have h2 := hinsV k'
        rw [h1] at h2
        obtain ⟨l, hl', hk⟩ := newAt_some h2.symm
        have : OutLeaf.new l ∈ out := by rw [← hxo]; exact List.mem_append_left _ (mem_newsOf hl')
        rw [← hk]; exact hnewsep l this
      | none =>
        have hd : e.deleted.isSome = true := by simpa [hi] using hp
        have h1 : delV tr.inner k' = e.deleted := by simp [delV, hl]
        rw [hdelV k'] at h1
        split at h1
        · rename_i hcond
          obtain ⟨l, hl', hk⟩ := List.mem_map.1 hcond.1
          rw [← hk]; exact hdbsep l hl'
        · rw [← h1] at hd; cases hd
    have hkeys : ∀ c ∈ enf, c.1 < 2 ^ 256 := by
      intro c hc
      rcases enforceFirst_keys false _ _ enf he c hc with ⟨c0, hc0, e⟩ | ⟨y, hy, e⟩
      · rw [← e]; exact hchkeys c0 hc0
      · obtain ⟨l, hl, rfl⟩ := List.mem_map.1 hy
        rw [← e]; exact hdbsep l hl
    have hnewsasc : (newsOf x.r.out).Pairwise (fun a b => a.sep < b.sep) := by
      have := newsOf_asc hoasc
      rwa [← hxo, newsOf_append, newsOf_old, List.append_nil] at this
    have hpostio : ∀ pn l, (pn, l) ∈ trackerInserted fresh tr.inner ↔
        ∃ i, (newsOf out)[i]? = some l ∧ pn = fresh (a0 + i) := by
      intro pn l
      have hno : newsOf out = newsOf x.r.out := by rw [← hxo, newsOf_append, newsOf_old, List.append_nil]
      rw [mem_trackerInserted fresh tr.inner hiasc, hno]
      constructor
      · rintro ⟨k, p, hi, rfl⟩
        rw [hinsFull k] at hi
        obtain ⟨i, h1, _, rfl⟩ := (expInsL_iff (fun l : Leaf V => l.sep) k l p _ a0 hnewsasc).1 hi
        exact ⟨i, h1, rfl⟩
      · rintro ⟨i, h1, rfl⟩
        refine ⟨l.sep, .new 0 (a0 + i), ?_, rfl⟩
        rw [hinsFull l.sep]
        exact (expInsL_iff (fun l : Leaf V => l.sep) l.sep l _ _ a0 hnewsasc).2 ⟨i, h1, rfl, rfl⟩
    have hnones : db = [] → ∀ c ∈ enf, c.2.isSome = true := by
      intro hdbe c hc
      have hnn : ∀ c ∈ trackerChanges fresh tr.inner, c.2.isSome = true := by
        intro c hc
        obtain ⟨k, w⟩ := c
        cases w with
        | some p => rfl
        | none => have := hdels k hc; rw [hdbe] at this; cases this
      have hh : (trackerChanges fresh tr.inner).head? ≠ some (0, none) := by
        intro h0
        cases htc : trackerChanges fresh tr.inner with
        | nil => rw [htc] at h0; cases h0
        | cons d t =>
          rw [htc] at h0
          simp only [List.head?_cons, Option.some.injEq] at h0
          have := hnn d (by rw [htc]; simp)
          rw [h0] at this
          cases this
      rw [hnoact hh] at hc
      exact hnn c hc
    refine ⟨by rw [hcontent], by rw [erun, hlog], hoasc, hnews, holds, ⟨s, hs⟩, heasc, hlvl2, ?_, hpostio, hnones, hkeys, ?_⟩
    · show a0 + (newsOf x.r.out).length = a0 + (newsOf out).length
      rw [← hxo, newsOf_append, newsOf_old, List.append_nil]
    · refine ⟨trackerFreed tr.inner, ?_, ?_⟩
      · show x.r.log.flatMap pagesOf ++ trackerFreed tr.inner ++ tr.extraFreed.map (resolve fresh) = _
        rw [hxf, hxl, hlog]
        simp
      · have hdf : ((db.filter fun l => decide (l.sep ∉ (oldsOf out).map (·.sep))).map fun l => lpn l.sep) =
            ((db.filter fun l => decide (l.sep ∉ (oldsOf out).map (·.sep))).map (·.sep)).map lpn := by simp
        rw [hdf]
        have holdsEq : oldsOf out = oldsOf x.r.out ++ x.r.rest := by rw [← hxo, oldsOf_append, oldsOf_old]
        apply trackerFreed_perm lpn (fun k => k ∈ db.map (·.sep) ∧ k ∉ (oldsOf out).map (·.sep)) tr.inner hiasc
        · intro k
          rw [hdelV k, holdsEq]
          by_cases hc : k ∈ db.map (·.sep) ∧ k ∉ (oldsOf x.r.out ++ x.r.rest).map (·.sep)
          · exact Or.inr ⟨hc, by rw [if_pos hc]⟩
          · exact Or.inl (by rw [if_neg hc])
        · intro k hk
          rw [hdelV k, ← holdsEq, if_pos hk]
        · have : ((db.map (·.sep)).filter fun s => decide (s ∉ (oldsOf out).map (·.sep))).Nodup :=
            ((List.Pairwise.filter _ hsasc).imp (fun h => by omega))
          rw [List.filter_map] at this
          exact this
        · intro k
          simp only [List.mem_map, List.mem_filter, decide_eq_true_eq]
          constructor
          · rintro ⟨l, ⟨hl, hn⟩, rfl⟩
            exact ⟨⟨l, hl, rfl⟩, hn⟩
          · rintro ⟨⟨l, hl, rfl⟩, hn⟩
            exact ⟨l, ⟨hl, hn⟩, rfl⟩

end Nomt.StageGlue
