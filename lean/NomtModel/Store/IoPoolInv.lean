import NomtModel.Store.IoPoolExec
/-!
# `run_worker`: the accounting invariant (every sent command is in exactly one place; what is known about a packet in each place)
-/
namespace Nomt.IoPool

/-- every completed attempt in `h` was classified `Retry` -/
def AllRetry (isRead : Bool) (h : List (Int × Nat)) : Prop :=
  ∀ x ∈ h, getResult isRead (sysOf x.1) x.2 = .retry

/-- `r` is the result `run_worker` owes to a packet whose completed attempts are `h`: all but the last were classified `Retry`,
there were fewer than `MAX_IO_ATTEMPTS` of those, and the last one decides: `Ok` → `Ok(())`, `Err` → `Err(from_raw_os_error(|res|))`,
`Retry` → it was attempt number `MAX_IO_ATTEMPTS` and the result is `Err(short_io_error())`. -/
def Final (isRead : Bool) (h : List (Int × Nat)) (r : IoRes) : Prop :=
  ∃ pre last, h = pre ++ [last] ∧ AllRetry isRead pre ∧ pre.length < MAX_IO_ATTEMPTS ∧
    (match getResult isRead (sysOf last.1) last.2 with
     | .ok => r = .ok
     | .err => r = .os last.1.natAbs
     | .retry => pre.length + 1 = MAX_IO_ATTEMPTS ∧ r = .short)

def SentOK (sent : List (Nat × Bool)) (p : Packet) : Prop := sent[p.id]? = some (p.handle, p.isRead)

def ChanOK (sent : List (Nat × Bool)) (p : Packet) : Prop := p.hist = [] ∧ p.pushes = 0 ∧ SentOK sent p

def RetryOK (sent : List (Nat × Bool)) (x : Packet × Nat) : Prop :=
  x.2 = x.1.hist.length ∧ AllRetry x.1.isRead x.1.hist ∧ 0 < x.2 ∧ x.2 < MAX_IO_ATTEMPTS ∧ x.1.pushes = x.2 ∧ SentOK sent x.1

def PendOK (sent : List (Nat × Bool)) (x : Nat × PendingIo) : Prop :=
  x.2.attempts = x.2.packet.hist.length ∧ AllRetry x.2.packet.isRead x.2.packet.hist ∧ x.2.attempts < MAX_IO_ATTEMPTS ∧
    x.2.packet.pushes = x.2.attempts + 1 ∧ SentOK sent x.2.packet

def DoneOK (sent : List (Nat × Bool)) (x : Packet × IoRes) : Prop :=
  Final x.1.isRead x.1.hist x.2 ∧ x.1.pushes = x.1.hist.length ∧ SentOK sent x.1

/-- in how many places the command with sequence number `i` is: command channel, `retries`, the `pending` slab, delivered -/
def cnt (i : Nat) (s : St) : Nat :=
  (s.chan.map (·.id)).count i + (s.retries.map (·.1.id)).count i + (s.pending.occ.map (·.2.packet.id)).count i +
    (s.delivered.map (·.1.id)).count i

structure Inv (s : St) : Prop where
  bounded : s.bounded = true
  chan : ∀ p ∈ s.chan, ChanOK s.sent p
  retries : ∀ x ∈ s.retries, RetryOK s.sent x
  pending : ∀ x ∈ s.pending.occ, PendOK s.sent x
  delivered : ∀ x ∈ s.delivered, DoneOK s.sent x
  sentLen : s.sent.length = s.nextId
  cnt : ∀ i, cnt i s = if i < s.nextId then 1 else 0

theorem Inv_congr {s s' : St} (hb : s'.bounded = s.bounded) (hc : s'.chan = s.chan) (hr : s'.retries = s.retries)
    (hp : s'.pending.occ = s.pending.occ) (hd : s'.delivered = s.delivered) (hs : s'.sent = s.sent)
    (hn : s'.nextId = s.nextId) (h : Inv s) : Inv s' := by
  constructor
  · rw [hb]; exact h.bounded
  · rw [hc, hs]; exact h.chan
  · rw [hr, hs]; exact h.retries
  · rw [hp, hs]; exact h.pending
  · rw [hd, hs]; exact h.delivered
  · rw [hs, hn]; exact h.sentLen
  · intro i; have := h.cnt i; unfold cnt at *; rw [hc, hr, hp, hd, hn]; exact this

theorem Inv_init (cap : Nat) : Inv { sqCap := cap } := by
  constructor <;> simp [cnt]

theorem insert_occ (sl : Slab) (x : PendingIo) : (sl.insert x).1.occ = ((sl.insert x).2, x) :: sl.occ := by
  unfold Slab.insert; split <;> rfl

theorem takeKey_spec (key : Nat) : ∀ (l : List (Nat × PendingIo)) p l', takeKey key l = some (p, l') →
    (key, p) ∈ l ∧ (∀ x ∈ l', x ∈ l) ∧
      ∀ i, (l.map (·.2.packet.id)).count i = (l'.map (·.2.packet.id)).count i + (if p.packet.id = i then 1 else 0) := by
  intro l
  induction l with
  | nil => intro p l' h; simp [takeKey] at h
  | cons a l ih =>
    intro p l' h
    obtain ⟨k, q⟩ := a
    unfold takeKey at h
    by_cases hk : k = key
    · simp [hk] at h
      obtain ⟨h1, h2⟩ := h
      subst h1 h2
      refine ⟨by simp [hk], fun x hx => List.mem_cons_of_mem _ hx, ?_⟩
      intro i
      simp [List.count_cons]
    · simp [hk] at h
      cases ht : takeKey key l with
      | none => simp [ht] at h
      | some r =>
        obtain ⟨q', l''⟩ := r
        simp [ht] at h
        obtain ⟨h1, h2⟩ := h
        subst h1 h2
        obtain ⟨m, sub, c⟩ := ih _ _ ht
        refine ⟨List.mem_cons_of_mem _ m, ?_, ?_⟩
        · intro x hx
          cases hx with
          | head => exact List.mem_cons_self
          | tail _ hx => exact List.mem_cons_of_mem _ (sub x hx)
        · intro i
          have := c i
          simp [List.count_cons] at *
          omega

theorem AllRetry_snoc {isRead : Bool} {h : List (Int × Nat)} {x : Int × Nat} (ha : AllRetry isRead h)
    (hx : getResult isRead (sysOf x.1) x.2 = .retry) : AllRetry isRead (h ++ [x]) := by
  intro y hy
  simp at hy
  cases hy with
  | inl hy => exact ha y hy
  | inr hy => subst hy; exact hx


theorem insertPush_occ (s : St) (p : Packet) (a : Nat) :
    (insertPush s p a).pending.occ =
      ((s.pending.insert ⟨{ p with pushes := p.pushes + 1 }, a⟩).2, ⟨{ p with pushes := p.pushes + 1 }, a⟩) :: s.pending.occ := by
  simp [insertPush, insert_occ]

theorem Inv_insertPush_retry {s : St} {p : Packet} {a : Nat} {r : List (Packet × Nat)} (h : Inv s)
    (hr : s.retries = (p, a) :: r) : Inv (insertPush { s with retries := r } p a) := by
  have hp := h.retries (p, a) (by rw [hr]; exact List.mem_cons_self)
  obtain ⟨h1, h2, h3, h4, h5, h6⟩ := hp
  constructor
  · exact h.bounded
  · exact h.chan
  · intro x hx; exact h.retries x (by rw [hr]; exact List.mem_cons_of_mem _ hx)
  · intro x hx
    rw [insertPush_occ] at hx
    cases hx with
    | head => exact ⟨h1, h2, h4, by simp at h5 ⊢; omega, h6⟩
    | tail _ hx => exact h.pending x hx
  · exact h.delivered
  · exact h.sentLen
  · intro i
    have hc := h.cnt i
    unfold cnt at hc ⊢
    rw [insertPush_occ]
    have e1 : (insertPush { s with retries := r } p a).chan = s.chan := rfl
    have e2 : (insertPush { s with retries := r } p a).retries = r := rfl
    have e3 : (insertPush { s with retries := r } p a).delivered = s.delivered := rfl
    have e4 : (insertPush { s with retries := r } p a).nextId = s.nextId := rfl
    rw [e1, e2, e3, e4]; rw [hr] at hc
    simp only [List.map_cons, List.count_cons] at hc ⊢
    by_cases hi : p.id = i <;> simp [hi] at hc ⊢ <;> omega

theorem Inv_insertPush_chan {s : St} {p : Packet} {c : List Packet} (h : Inv s)
    (hc : s.chan = p :: c) : Inv (insertPush { s with chan := c } p 0) := by
  have hp := h.chan p (by rw [hc]; exact List.mem_cons_self)
  obtain ⟨h1, h2, h3⟩ := hp
  constructor
  · exact h.bounded
  · intro x hx; exact h.chan x (by rw [hc]; exact List.mem_cons_of_mem _ hx)
  · exact h.retries
  · intro x hx
    rw [insertPush_occ] at hx
    cases hx with
    | head =>
      refine ⟨by simp [h1], ?_, by simp [MAX_IO_ATTEMPTS], by simp [h2], h3⟩
      intro y hy; simp [h1] at hy
    | tail _ hx => exact h.pending x hx
  · exact h.delivered
  · exact h.sentLen
  · intro i
    have hk := h.cnt i
    unfold cnt at hk ⊢
    rw [insertPush_occ]
    have e1 : (insertPush { s with chan := c } p 0).chan = c := rfl
    have e2 : (insertPush { s with chan := c } p 0).retries = s.retries := rfl
    have e3 : (insertPush { s with chan := c } p 0).delivered = s.delivered := rfl
    have e4 : (insertPush { s with chan := c } p 0).nextId = s.nextId := rfl
    rw [e1, e2, e3, e4]; rw [hc] at hk
    simp only [List.map_cons, List.count_cons] at hk ⊢
    by_cases hi : p.id = i <;> simp [hi] at hk ⊢ <;> omega


theorem remove_spec {sl : Slab} {key : Nat} {pio : PendingIo} {sl' : Slab} (h : sl.remove key = some (pio, sl')) :
    takeKey key sl.occ = some (pio, sl'.occ) := by
  unfold Slab.remove at h
  cases ht : takeKey key sl.occ with
  | none => simp [ht] at h
  | some r =>
    obtain ⟨q, l⟩ := r
    simp [ht] at h
    obtain ⟨h1, h2⟩ := h
    subst h1 h2
    rfl

theorem Inv_reapOne {s : St} (key : Nat) (res : Int) (errno : Nat) (h : Inv s) : Inv (reapOne s key res errno) := by
  unfold reapOne
  cases hrm : s.pending.remove key with
  | none => exact h
  | some r =>
    obtain ⟨pio, slab⟩ := r
    have ht := remove_spec hrm
    obtain ⟨hmem, hsub, hcount⟩ := takeKey_spec key _ _ _ ht
    obtain ⟨p1, p2, p3, p4, p5⟩ := h.pending _ hmem
    simp only at p1 p2 p3 p4 p5
    have hb := h.bounded
    simp only
    cases hv : getResult pio.packet.isRead (sysOf res) errno with
    | ok =>
      simp only [hv]
      constructor
      · exact h.bounded
      · exact h.chan
      · exact h.retries
      · intro x hx; exact h.pending x (hsub x hx)
      · intro x hx
        simp at hx
        cases hx with
        | inl hx => exact h.delivered x hx
        | inr hx =>
          subst hx
          refine ⟨⟨pio.packet.hist, (res, errno), rfl, p2, by omega, ?_⟩, by simp; omega, p5⟩
          simp [hv]
      · exact h.sentLen
      · intro i
        have hk := h.cnt i
        have hc := hcount i
        unfold cnt at hk ⊢
        simp only [List.map_append, List.count_append, List.map_cons, List.map_nil, List.count_cons, List.count_nil] at hk ⊢
        by_cases hi : pio.packet.id = i <;> simp [hi] at hc hk ⊢ <;> omega
    | err =>
      simp only [hv]
      split
      · exact Inv_congr (s := s) rfl rfl rfl rfl rfl rfl rfl h
      · constructor
        · exact h.bounded
        · exact h.chan
        · exact h.retries
        · intro x hx; exact h.pending x (hsub x hx)
        · intro x hx
          simp at hx
          cases hx with
          | inl hx => exact h.delivered x hx
          | inr hx =>
            subst hx
            refine ⟨⟨pio.packet.hist, (res, errno), rfl, p2, by omega, ?_⟩, by simp; omega, p5⟩
            simp [hv]
        · exact h.sentLen
        · intro i
          have hk := h.cnt i
          have hc := hcount i
          unfold cnt at hk ⊢
          simp only [List.map_append, List.count_append, List.map_cons, List.map_nil, List.count_cons, List.count_nil] at hk ⊢
          by_cases hi : pio.packet.id = i <;> simp [hi] at hc hk ⊢ <;> omega
    | retry =>
      simp only [hv]
      by_cases hlt : pio.attempts + 1 < MAX_IO_ATTEMPTS
      · simp only [hb, hlt, Bool.true_eq_false, false_or, if_true]
        constructor
        · first | exact h.bounded | rfl | simp [hb]
        · exact h.chan
        · intro x hx
          simp at hx
          cases hx with
          | inl hx => exact h.retries x hx
          | inr hx =>
            subst hx
            exact ⟨by simp; omega, AllRetry_snoc p2 hv, by omega, hlt, by simp; omega, p5⟩
        · intro x hx; exact h.pending x (hsub x hx)
        · exact h.delivered
        · exact h.sentLen
        · intro i
          have hk := h.cnt i
          have hc := hcount i
          unfold cnt at hk ⊢
          simp only [List.map_append, List.count_append, List.map_cons, List.map_nil, List.count_cons, List.count_nil] at hk ⊢
          by_cases hi : pio.packet.id = i <;> simp [hi] at hc hk ⊢ <;> omega
      · simp only [hb, hlt, Bool.true_eq_false, false_or, if_false]
        constructor
        · first | exact h.bounded | rfl | simp [hb]
        · exact h.chan
        · exact h.retries
        · intro x hx; exact h.pending x (hsub x hx)
        · intro x hx
          simp at hx
          cases hx with
          | inl hx => exact h.delivered x hx
          | inr hx =>
            subst hx
            refine ⟨⟨pio.packet.hist, (res, errno), rfl, p2, by omega, ?_⟩, by simp; omega, p5⟩
            simp [hv]; omega
        · exact h.sentLen
        · intro i
          have hk := h.cnt i
          have hc := hcount i
          unfold cnt at hk ⊢
          simp only [List.map_append, List.count_append, List.map_cons, List.map_nil, List.count_cons, List.count_nil] at hk ⊢
          by_cases hi : pio.packet.id = i <;> simp [hi] at hc hk ⊢ <;> omega


theorem Inv_wstep {s : St} (sr : SubmitRes) (h : Inv s) : Inv (wstep s sr) := by
  unfold wstep
  split
  · -- top
    split
    · exact Inv_congr (s := s) rfl rfl rfl rfl rfl rfl rfl h
    · split <;> exact Inv_congr (s := s) rfl rfl rfl rfl rfl rfl rfl h
  · -- reap
    split
    · exact Inv_congr (s := s) rfl rfl rfl rfl rfl rfl rfl h
    · exact Inv_reapOne _ _ _ (Inv_congr (s := s) rfl rfl rfl rfl rfl rfl rfl h)
  · -- accept
    split
    · split
      · rename_i hr; exact Inv_insertPush_retry h hr
      · split
        · split
          · rename_i hc; exact Inv_insertPush_chan h hc
          · split
            · exact Inv_congr (s := s) rfl rfl rfl rfl rfl rfl rfl h
            · exact h
        · split
          · rename_i hc; exact Inv_insertPush_chan h hc
          · split <;> exact Inv_congr (s := s) rfl rfl rfl rfl rfl rfl rfl h
    · exact Inv_congr (s := s) rfl rfl rfl rfl rfl rfl rfl h
  · -- submit
    split
    · exact Inv_congr (s := s) rfl rfl rfl rfl rfl rfl rfl h
    · exact h
    · simp only
      split <;> exact Inv_congr (s := s) rfl rfl rfl rfl rfl rfl rfl h
  · exact h
  · exact h

theorem SentOK_append {sent : List (Nat × Bool)} {p : Packet} (x : Nat × Bool) (h : SentOK sent p) : SentOK (sent ++ [x]) p := by
  unfold SentOK at *
  have : p.id < sent.length := by
    cases hlt : decide (p.id < sent.length) with
    | true => exact of_decide_eq_true hlt
    | false =>
      have := of_decide_eq_false hlt
      rw [List.getElem?_eq_none (by omega)] at h
      cases h
  rw [List.getElem?_append_left this]; exact h

theorem Inv_step {s : St} (a : Act) (h : Inv s) : Inv (step s a) := by
  cases a with
  | worker sr => exact Inv_wstep sr h
  | close => exact Inv_congr (s := s) rfl rfl rfl rfl rfl rfl rfl h
  | complete key res errno =>
    simp only [step]; split
    · exact Inv_congr (s := s) rfl rfl rfl rfl rfl rfl rfl h
    · exact h
  | spurious key res errno => exact Inv_congr (s := s) rfl rfl rfl rfl rfl rfl rfl h
  | send hd r =>
    simp only [step]; split
    · exact h
    · constructor
      · exact h.bounded
      · intro p hp
        simp at hp
        cases hp with
        | inl hp => obtain ⟨a1, a2, a3⟩ := h.chan p hp; exact ⟨a1, a2, SentOK_append _ a3⟩
        | inr hp =>
          subst hp
          refine ⟨rfl, rfl, ?_⟩
          unfold SentOK
          simp [← h.sentLen]
      · intro x hx; obtain ⟨a1, a2, a3, a4, a5, a6⟩ := h.retries x hx; exact ⟨a1, a2, a3, a4, a5, SentOK_append _ a6⟩
      · intro x hx; obtain ⟨a1, a2, a3, a4, a5⟩ := h.pending x hx; exact ⟨a1, a2, a3, a4, SentOK_append _ a5⟩
      · intro x hx; obtain ⟨a1, a2, a3⟩ := h.delivered x hx; exact ⟨a1, a2, SentOK_append _ a3⟩
      · simp [h.sentLen]
      · intro i
        have hk := h.cnt i
        unfold cnt at hk ⊢
        simp only [List.map_append, List.count_append, List.map_cons, List.map_nil, List.count_cons, List.count_nil] at hk ⊢
        by_cases hi : s.nextId = i
        · subst hi; simp at hk ⊢; omega
        · have : (s.nextId == i) = false := by simp [hi]
          simp only [this] at ⊢
          by_cases h2 : i < s.nextId
          · have : i < s.nextId + 1 := by omega
            simp [h2, this] at hk ⊢; omega
          · have : ¬ i < s.nextId + 1 := by omega
            simp [h2, this] at hk ⊢; omega

theorem Inv_run {s : St} (acts : List Act) (h : Inv s) : Inv (run s acts) := by
  induction acts generalizing s with
  | nil => exact h
  | cons a l ih => exact ih (Inv_step a h)

end Nomt.IoPool
