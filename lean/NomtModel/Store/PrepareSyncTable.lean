import NomtModel.Store.PrepareSyncView
/-!
# `prepare_sync` on the table as a finite map (the probing model)

The caller contract (`ContractFrom`): at its turn, a page with a known bucket (`Known` / a filled cell) is stored in that
bucket, a fresh page (`FreshWithNoDependents` / an empty cell) is not stored, a cleared page has a known bucket.
`chain_view`: along a successful run of the loop the table view follows `Probe.step` (insert / remove) operation by
operation — hence `Inv` / `NoDup` are kept, the meta bytes are the ones redo computes (`metaRedo`), the occupancy delta
is the difference of the numbers of full buckets, every updated page is found in its bucket afterwards, every cleared page
is not found, every other page is found exactly as before.
-/
namespace Nomt.PrepSync
open Nomt Nomt.Wal Nomt.Store Nomt.Store.Probe

/-- the operation of the probing model a dirty page stands for -/
def opOf (d : Dirty) : Op := if d.diff.cleared then .remove (pidN d.pid) else .insert (pidN d.pid)

/-- the bucket information of `d` is the truth about the table `V` -/
def AgreesAt (hN : Nat → Nat) (V : Probe.Table) (d : Dirty) : Prop :=
  match d.bucket with
  | .known b => find hN V (pidN d.pid) = some b
  | .depSet b => find hN V (pidN d.pid) = some b
  | _ => d.diff.cleared = false ∧ find hN V (pidN d.pid) = none

/-- the page needs a bucket -/
def needsAlloc (d : Dirty) : Prop := d.diff.cleared = false ∧ (d.bucket = .fresh ∨ d.bucket = .depUnset)

/-- the caller contract, page by page against the table as the earlier pages of the changeset leave it -/
def ContractFrom (hN : Nat → Nat) (lim : Nat) : Probe.Table → List Dirty → Prop
  | _, [] => True
  | V, d :: ds => AgreesAt hN V d ∧ ContractFrom hN lim (step hN lim V (opOf d)) ds

/-- the bucket pages with the data pages of the loop applied, in changeset order -/
def pagesAfter : List Bytes → List Dirty → List Nat → List Bytes
  | P, d :: ds, b :: bs => pagesAfter (if d.diff.cleared then P else P.set b d.page) ds bs
  | P, _, _ => P

theorem pagesAfter_length : ∀ (ds : List Dirty) (bs : List Nat) (P : List Bytes), (pagesAfter P ds bs).length = P.length := by
  intro ds
  induction ds with
  | nil => intro bs P; cases bs <;> rfl
  | cons d ds ih =>
    intro bs P
    cases bs with
    | nil => rfl
    | cons b bs =>
      simp only [pagesAfter]
      rw [ih]
      split <;> simp

def Op.page : Op → Nat
  | .insert p => p
  | .remove p => p

/-- pages that no operation names are found exactly as before -/
theorem run_find_frame {hN : Nat → Nat} {lim : Nat} : ∀ (ops : List Op) {T : Probe.Table}, 0 < T.n → Inv hN T → NoDup T →
    ∀ q, (∀ op ∈ ops, Op.page op ≠ q) → find hN (run hN lim T ops) q = find hN T q := by
  intro ops
  induction ops with
  | nil => intro T _ _ _ q _; rfl
  | cons op ops ih =>
    intro T hn hI hD q hq
    obtain ⟨hI', hD'⟩ := step_inv (lim := lim) hn hI hD op
    have hn' : 0 < (step hN lim T op).n := by rw [step_n]; exact hn
    have := ih hn' hI' hD' q (fun o ho => hq o (List.mem_cons_of_mem _ ho))
    simp only [run, List.foldl] at this ⊢
    rw [this]
    have hne := hq op (List.mem_cons_self ..)
    cases op with
    | insert p => exact (find_step_insert hn hI hD p).2.2 q (fun e => hne e.symm)
    | remove p => exact (find_step_remove hn hI hD p).2 q (fun e => hne e.symm)

theorem find_lt {hN : Nat → Nat} {V : Probe.Table} (hn : 0 < V.n) {p b : Nat} (h : find hN V p = some b) :
    b < V.n ∧ slotAt V.slots b = .full (tagOf (hN p)) ∧ V.label b = p := by
  obtain ⟨j, _, _, hb, hs, hl⟩ := lookupF_sound V (hN p) p _ _ _ h
  exact ⟨by rw [hb]; exact pos_lt hn, hs, hl⟩

theorem getD_set {α : Type} (l : List α) (b x : Nat) (v dflt : α) :
    (l.set b v).getD x dflt = if b = x ∧ b < l.length then v else l.getD x dflt := by
  rw [List.getD_eq_getElem?_getD, List.getD_eq_getElem?_getD, List.getElem?_set]
  by_cases h : b = x
  · subst h
    by_cases h2 : b < l.length
    · simp [h2]
    · simp [h2, List.getElem?_eq_none (Nat.le_of_not_lt h2)]
  · simp [h]

theorem metaMap_ext {m1 m2 : MetaMap} (h1 : m1.buckets = m2.buckets) (h2 : m1.bitvec = m2.bitvec) : m1 = m2 := by
  cases m1; cases m2; simp only at h1 h2; rw [h1, h2]

/-- the table after one successful iteration is the table after the corresponding operation of the probing model -/
theorem step_view {hash : Bytes → Nat} (hh : ∀ p, hash p < 2 ^ 64) {off : Nat} {a a1 : Acc} {d : Dirty} {b : Nat} {c : Bool}
    (s : StepOk hash off a d a1 b c) (P : List Bytes) (hok : a.mm.Ok) (hP : P.length = a.mm.buckets)
    (hpid : d.pid.length = 32) (hlab : d.diff.cleared = false → labelOf d.page = d.pid)
    (hag : AgreesAt (hashN hash) (viewOf a.mm P) d) :
    viewOf a1.mm (if d.diff.cleared then P else P.set b d.page) =
        step (hashN hash) ALLOC_ATTEMPTS (viewOf a.mm P) (opOf d) ∧
      a1.mm.Ok ∧ b < a.mm.buckets ∧
      a1.mm.bitvec = a.mm.bitvec.set b (if d.diff.cleared then TOMBSTONE else fullEntry (hash d.pid)) ∧
      (if d.diff.cleared then find (hashN hash) (viewOf a.mm P) (pidN d.pid) = some b
       else if c then find (hashN hash) (viewOf a.mm P) (pidN d.pid) = none ∧
          alloc (hashN hash) ALLOC_ATTEMPTS (viewOf a.mm P) (pidN d.pid) = some b
       else find (hashN hash) (viewOf a.mm P) (pidN d.pid) = some b) := by
  have hn : 0 < (viewOf a.mm P).n := by rw [viewOf_n hok]; exact hok.pos
  have hnV := viewOf_n hok P
  have hhN : hashN hash (pidN d.pid) = hash d.pid := hashN_pidN hash hpid
  have hok1 : a1.mm.Ok := ⟨by rw [s.buckets]; exact hok.pos, by
    rw [s.buckets, s.bitvec]
    have := hok.le
    split
    · simpa using this
    · split
      · simpa using this
      · exact this⟩
  have src := s.src
  by_cases hc : d.diff.cleared = true
  · -- a cleared page
    simp only [hc, if_true] at src ⊢
    obtain ⟨hbk, hblt, _⟩ := src
    have hf : find (hashN hash) (viewOf a.mm P) (pidN d.pid) = some b := by
      unfold AgreesAt at hag
      rcases hbk with e | e <;> (rw [e] at hag; exact hag)
    obtain ⟨hbn, _, _⟩ := find_lt hn hf
    rw [hnV] at hbn
    have hbv : a1.mm.bitvec = a.mm.bitvec.set b TOMBSTONE := by rw [s.bitvec]; simp [hc]
    have hmm : a1.mm = { a.mm with bitvec := a.mm.bitvec.set b TOMBSTONE } := metaMap_ext s.buckets hbv
    refine ⟨?_, hok1, hbn, hbv, hf⟩
    simp only [opOf, hc, if_true, step, hf]
    unfold viewOf free
    rw [hmm, MetaMap.slots_set hok hbn, slotOfByte_tombstone]
  · have hc' : d.diff.cleared = false := by simpa using hc
    simp only [hc', Bool.false_eq_true, if_false] at src ⊢
    by_cases hcc : c = true
    · -- a fresh bucket
      simp only [hcc, if_true] at src ⊢
      obtain ⟨hbk, _, hal, hblt⟩ := src
      have hf : find (hashN hash) (viewOf a.mm P) (pidN d.pid) = none := by
        unfold AgreesAt at hag
        rcases hbk with e | e <;> (rw [e] at hag; exact hag.2)
      have hsl : a.mm.slots.length = a.mm.buckets := MetaMap.slots_length hok
      have hal' : alloc (hashN hash) ALLOC_ATTEMPTS (viewOf a.mm P) (pidN d.pid) = some b := by
        have := allocLoop_new_eq a.mm.slots ALLOC_ATTEMPTS (hash d.pid) (2 * a.mm.buckets + 2) (by rw [hsl]; omega)
        rw [hsl, hal] at this
        injection this with this
        unfold alloc
        rw [hhN]
        show allocTop a.mm.slots ALLOC_ATTEMPTS (hash d.pid) (2 * a.mm.slots.length + 1) 0 0 = some b
        rw [hsl]; exact this.symm
      obtain ⟨j, _, hbj, _, _⟩ := allocTop_some hal'
      have hbn : b < a.mm.buckets := by
        rw [hbj]
        show pos _ (viewOf a.mm P).slots.length j < _
        have := pos_lt (h := hashN hash (pidN d.pid)) (k := j) hn
        rw [← hnV]; exact this
      have hbv : a1.mm.bitvec = a.mm.bitvec.set b (fullEntry (hash d.pid)) := by rw [s.bitvec]; simp [hc', hcc]
      have hmm : a1.mm = { a.mm with bitvec := a.mm.bitvec.set b (fullEntry (hash d.pid)) } := metaMap_ext s.buckets hbv
      refine ⟨?_, hok1, hbn, hbv, hf, hal'⟩
      simp only [opOf, hc', Bool.false_eq_true, if_false, step, hf, hal']
      unfold viewOf Probe.Table.setFull
      rw [hmm, MetaMap.slots_set hok hbn, slotOfByte_fullEntry (hh _), hhN]
      congr 1
      funext x
      rw [getD_set]
      by_cases e : x = b
      · subst e
        simp only [true_and, hP, hbn, if_true, hlab hc']
      · have : ¬ (b = x ∧ b < P.length) := fun h => e h.1.symm
        simp only [this, if_false, e]
    · -- the bucket is known
      have hcc' : c = false := by simpa using hcc
      simp only [hcc', Bool.false_eq_true, if_false] at src ⊢
      have hf : find (hashN hash) (viewOf a.mm P) (pidN d.pid) = some b := by
        unfold AgreesAt at hag
        rcases src with e | e <;> (rw [e] at hag; exact hag)
      obtain ⟨hbn, hsl, hlb⟩ := find_lt hn hf
      rw [hnV] at hbn
      have hbv0 : a1.mm.bitvec = a.mm.bitvec := by rw [s.bitvec]; simp [hc', hcc']
      have hmm : a1.mm = a.mm := metaMap_ext s.buckets hbv0
      obtain ⟨x, hx1, hx2⟩ := MetaMap.slotAt_slots hok hbn
      have hxe : x = fullEntry (hash d.pid) := by
        apply byte_of_full (hh _)
        rw [← hx2, ← hhN]
        exact hsl
      have hbv : a1.mm.bitvec = a.mm.bitvec.set b (fullEntry (hash d.pid)) := by
        rw [hbv0, set_getElem?_self (by rw [hx1, hxe])]
      refine ⟨?_, hok1, hbn, hbv, hf⟩
      simp only [opOf, hc', Bool.false_eq_true, if_false, step, hf]
      rw [hmm]
      unfold viewOf
      congr 1
      funext y
      rw [getD_set]
      by_cases e : b = y ∧ b < P.length
      · obtain ⟨e1, e2⟩ := e
        subst e1
        simp only [true_and, e2, if_true, hlab hc']
        exact hlb.symm
      · simp only [e, if_false]

/-- **the loop follows the probing model**: the table after a successful run, the meta bytes, the buckets, the
occupancy delta, and where every page is found afterwards -/
theorem chain_view {hash : Bytes → Nat} (hh : ∀ p, hash p < 2 ^ 64) {off : Nat} {a a' : Acc} {ds : List Dirty}
    {bs : List Nat} {cs : List Bool} (h : Chain hash off a ds bs cs a') :
    ∀ (P : List Bytes), a.mm.Ok → P.length = a.mm.buckets →
    Inv (hashN hash) (viewOf a.mm P) → NoDup (viewOf a.mm P) →
    (∀ d ∈ ds, d.pid.length = 32 ∧ (d.diff.cleared = false → labelOf d.page = d.pid)) →
    (ds.map (fun d => pidN d.pid)).Nodup →
    ContractFrom (hashN hash) ALLOC_ATTEMPTS (viewOf a.mm P) ds →
    viewOf a'.mm (pagesAfter P ds bs) = run (hashN hash) ALLOC_ATTEMPTS (viewOf a.mm P) (ds.map opOf) ∧
    a'.mm.Ok ∧
    a'.mm.bitvec = metaRedo hash a.mm.bitvec ds bs ∧
    (∀ x ∈ pairs ds bs, x.1 < a.mm.buckets) ∧
    ((a'.delta - a.delta : Int) =
      (occupied (viewOf a'.mm (pagesAfter P ds bs)) : Int) - (occupied (viewOf a.mm P) : Int)) ∧
    (∀ x ∈ pairs ds bs, find (hashN hash) (viewOf a'.mm (pagesAfter P ds bs)) (pidN x.2.pid) =
      if x.2.diff.cleared then none else some x.1) ∧
    (∀ k d, ds[k]? = some d → needsAlloc d →
      (alloc (hashN hash) ALLOC_ATTEMPTS (run (hashN hash) ALLOC_ATTEMPTS (viewOf a.mm P) ((ds.take k).map opOf))
        (pidN d.pid)).isSome = true) := by
  induction h with
  | nil a =>
    intro P hok _ _ _ _ _ _
    refine ⟨rfl, hok, rfl, ?_, by simp [pagesAfter], ?_, ?_⟩
    · intro x hx; simp [pairs] at hx
    · intro x hx; simp [pairs] at hx
    · intro k d hk; simp at hk
  | @cons a a1 a' d ds b bs c cs s hch ih =>
    intro P hok hP hI hD hty hnd hct
    obtain ⟨hag, hct'⟩ := hct
    obtain ⟨hpid, hlab⟩ := hty d (List.mem_cons_self ..)
    have hn : 0 < (viewOf a.mm P).n := by rw [viewOf_n hok]; exact hok.pos
    obtain ⟨hv, hok1, hbn, hbv, hfind⟩ := step_view hh s P hok hP hpid hlab hag
    obtain ⟨hI1, hD1⟩ := step_inv (lim := ALLOC_ATTEMPTS) hn hI hD (opOf d)
    have hP1 : (if d.diff.cleared then P else P.set b d.page).length = a1.mm.buckets := by
      rw [s.buckets, ← hP]; split <;> simp
    simp only [List.map_cons, List.nodup_cons] at hnd
    rw [← hv] at hI1 hD1 hct'
    obtain ⟨i1, i2, i3, i4, i5, i6, i7⟩ := ih _ hok1 hP1 hI1 hD1 (fun d' hd' => hty d' (List.mem_cons_of_mem _ hd')) hnd.2 hct'
    have hn1 : 0 < (viewOf a1.mm (if d.diff.cleared then P else P.set b d.page)).n := by
      rw [viewOf_n hok1]; exact hok1.pos
    refine ⟨?_, i2, ?_, ?_, ?_, ?_, ?_⟩
    · simp only [pagesAfter, List.map_cons, run, List.foldl]
      rw [i1, hv]; rfl
    · simp only [metaRedo]; rw [i3, hbv]
    · intro x hx
      simp only [pairs, List.mem_cons] at hx
      rcases hx with rfl | hx
      · exact hbn
      · have := i4 x hx; rw [s.buckets] at this; exact this
    · -- occupancy
      simp only [pagesAfter]
      have hd := s.delta
      have ho : (occupied (viewOf a1.mm (if d.diff.cleared then P else P.set b d.page)) : Int) -
          (occupied (viewOf a.mm P) : Int) = a1.delta - a.delta := by
        rw [hv]
        by_cases hc : d.diff.cleared = true
        · simp only [hc, if_true] at hfind hd
          have := occupied_step_remove (hash := hashN hash) (lim := ALLOC_ATTEMPTS) (T := viewOf a.mm P) (pidN d.pid)
          rw [hfind] at this
          simp only [Option.isSome_some, if_true] at this
          simp only [opOf, hc, if_true]
          rw [hd]; omega
        · have hc' : d.diff.cleared = false := by simpa using hc
          simp only [hc', Bool.false_eq_true, if_false] at hfind hd
          have := occupied_step_insert (hash := hashN hash) (lim := ALLOC_ATTEMPTS) (T := viewOf a.mm P) hn (pidN d.pid)
          simp only [opOf, hc', Bool.false_eq_true, if_false]
          by_cases hcc : c = true
          · simp only [hcc, if_true] at hfind hd
            rw [hfind.1, hfind.2] at this
            simp only [Option.isSome_some, and_self, if_true] at this
            rw [hd]; omega
          · have hcc' : c = false := by simpa using hcc
            simp only [hcc', Bool.false_eq_true, if_false] at hfind hd
            rw [hfind] at this
            simp only [reduceCtorEq, false_and, if_false] at this
            rw [hd]; omega
      omega
    · -- where the pages are found
      intro x hx
      simp only [pairs, List.mem_cons] at hx
      simp only [pagesAfter]
      rcases hx with rfl | hx
      · -- the head page: established by its own step, kept by the others
        rw [i1, run_find_frame _ hn1 hI1 hD1]
        · rw [hv]
          simp only
          by_cases hc : d.diff.cleared = true
          · simp only [hc, if_true, opOf]
            exact (find_step_remove hn hI hD (pidN d.pid)).1
          · have hc' : d.diff.cleared = false := by simpa using hc
            simp only [hc', Bool.false_eq_true, if_false, opOf] at hfind ⊢
            by_cases hcc : c = true
            · simp only [hcc, if_true] at hfind
              exact (find_step_insert hn hI hD (pidN d.pid)).1 hfind.1 b hfind.2
            · have hcc' : c = false := by simpa using hcc
              simp only [hcc', Bool.false_eq_true, if_false] at hfind
              exact (find_step_insert (lim := ALLOC_ATTEMPTS) hn hI hD (pidN d.pid)).2.1 b hfind
        · intro op hop e
          obtain ⟨d', hd', rfl⟩ := List.mem_map.1 hop
          apply hnd.1
          have : pidN d'.pid = pidN d.pid := by
            unfold opOf at e
            split at e <;> exact e
          rw [← this]
          exact List.mem_map.2 ⟨d', hd', rfl⟩
      · exact i6 x hx
    · -- every page that needs a bucket got one
      intro k d' hk hna
      cases k with
      | zero =>
        simp only [List.getElem?_cons_zero] at hk
        injection hk with hk
        subst hk
        obtain ⟨hc', hbk⟩ := hna
        have src := s.src
        simp only [hc', Bool.false_eq_true, if_false] at src hfind
        by_cases hcc : c = true
        · simp only [hcc, if_true] at hfind
          show (alloc _ _ (viewOf a.mm P) _).isSome = true
          rw [hfind.2]; rfl
        · exfalso
          simp only [hcc, Bool.false_eq_true, if_false] at src
          rcases src with e | e <;> rcases hbk with f | f <;> (rw [e] at f; cases f)
      | succ k =>
        have := i7 k d' (by simpa using hk) hna
        rw [hv] at this
        exact this

end Nomt.PrepSync
