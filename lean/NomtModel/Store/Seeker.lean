import NomtModel.Store.Seek
/-!
# Mirror of `nomt/src/merkle/seek.rs`: the `Seeker` — request multiplexing over an I/O pool (C05 / C13 / C06)

`Seeker` runs any number of `SeekRequest`s (mirror: `Store/Seek.lean`, `Req`) at once:

* `requests` — the live requests in push order (`VecDeque`); `processed` = how many were handed out; a request is named
  by its absolute index `processed + position`;
* `io_waiters` — per page / leaf being loaded the list of the requests waiting for it (`HashMap<IoQuery, Vec<usize>>`;
  here an association list — the Rust never iterates the map);
* `io_slab` — the loads in progress (`slab::Slab`, mirrored with its free list: `Slab`); the slab index is the
  `user_data` of the read submitted to the I/O pool;
* `idle_requests` — requests that can take their next step; `idle_page_loads` — page loads whose last probe read a
  bucket holding another page (`PageLoad::try_complete` = `None`) and that must probe again;
* `has_room` — back-pressure: fewer than `MAX_INFLIGHT` loads (a parameter here: `maxInflight`).

Mirrored functions (same order of tests; every `unwrap` / index / `assert!` / `unreachable!` / `panic!()` an
`Outcome.panic`): `new`, `is_empty`, `has_room`, `first_key`, `has_live_requests`, `submit_all`, `take_completion`, `push`,
`submit_idle_page_loads`, `submit_idle_key_path_requests`, `submit_idle_page_load`, `submit_key_path_request`,
`handle_completion` (`recv`: what `try_recv_page` / `recv_page` do with the completion the I/O pool hands over),
`handle_merkle_page_and_continue`, `handle_leaf_page_and_continue`.

The I/O pool is the list `inflight` of the reads submitted and not yet completed; WHICH of them completes next is the
argument of `recv` — the scheduler's (the harness's) choice.  The hash table is seen through `Ht`: the buckets
`PageLoader::probe` reads one after the other for a page id (`ProbeSequence` skipping tombstones and foreign tags up to
the first empty bucket — another unit) and the label of the page a bucket holds.  The leaf cache of the read transaction
(`load_leaf_async` answers at once on a hit) is the list `leafCache`; `AsyncLeafLoad::finish` inserts.
-/
namespace Nomt.Seeker
open Nomt Nomt.Ovl Nomt.TriePos Nomt.Seek

/-- the hash table as the page loader sees it -/
structure Ht where
  /-- the buckets `probe` submits reads for, in order (`PossibleHit`s); after the last one `probe` returns `false` -/
  probes : PageId → List Nat
  /-- the page id in the label of the page stored in a bucket -/
  label : Nat → Option PageId

/-- `IoRequest`: `Merkle(PageLoad)` — page id, number of probes made, `PageLoadState::Submitted` — / `Leaf(AsyncLeafLoad)` -/
inductive IoReq where
  | merkle (pid : PageId) (k : Nat) (submitted : Bool)
  | leaf (l : Nat)
deriving DecidableEq, Repr

/-! ### `slab::Slab` (0.4): a vector of entries, the vacant ones chained from `next` -/

inductive Entry where
  | occ (r : IoReq)
  | vac (next : Nat)
deriving DecidableEq, Repr

structure Slab where
  entries : List Entry := []
  next : Nat := 0
  len : Nat := 0
deriving DecidableEq, Repr

/-- `Slab::get` -/
def Slab.get (s : Slab) (key : Nat) : Option IoReq :=
  match s.entries[key]? with
  | some (.occ r) => some r
  | _ => none

/-- `Slab::insert` (`vacant_key()` = `next`) -/
def Slab.insert (s : Slab) (v : IoReq) : Outcome Unit (Slab × Nat) :=
  if s.next = s.entries.length then
    .ok ({ entries := s.entries ++ [.occ v], next := s.next + 1, len := s.len + 1 }, s.next)
  else
    match s.entries[s.next]? with
    | some (.vac n) => .ok ({ entries := s.entries.set s.next (.occ v), next := n, len := s.len + 1 }, s.next)
    | _ => .panic "slab: unreachable"

/-- `Slab::remove` (`expect("invalid key")`) -/
def Slab.remove (s : Slab) (key : Nat) : Outcome Unit (Slab × IoReq) :=
  match s.entries[key]? with
  | some (.occ v) => .ok ({ entries := s.entries.set key (.vac s.next), next := key, len := s.len - 1 }, v)
  | _ => .panic "slab: invalid key"

/-- overwrite an occupied entry (`get_mut`) -/
def Slab.put (s : Slab) (key : Nat) (v : IoReq) : Slab := { s with entries := s.entries.set key (.occ v) }

/-! ### the seeker -/

/-- a read submitted to the I/O pool -/
inductive Cmd where
  | bucket (b : Nat)
  | leaf (l : Nat)
deriving DecidableEq, Repr

structure Mux (Node VH V : Type) where
  /-- `MAX_INFLIGHT` -/
  maxInflight : Nat := 1024
  processed : Nat := 0
  reqs : List (Req Node VH V) := []
  waiters : List (Query × List Nat) := []
  slab : Slab := {}
  idleReqs : List Nat := []
  idleLoads : List Nat := []
  /-- the caller's page set (handed to every call) -/
  ps : PageSet Node := {}
  cache : List (PageId × MPage Node) := []
  leafCache : List Nat := []
  /-- the I/O pool: `(user_data, read)` in submission order -/
  inflight : List (Nat × Cmd) := []

variable {Node VH V : Type}

def Mux.isEmpty (m : Mux Node VH V) : Bool := m.reqs.isEmpty
def Mux.hasRoom (m : Mux Node VH V) : Bool := decide (m.waiters.length < m.maxInflight)
def Mux.firstKey (m : Mux Node VH V) : Option Key := m.reqs.head?.map (·.key)
def Mux.hasLive (m : Mux Node VH V) : Bool := decide (m.idleLoads.length < m.slab.len)

/-- the fuel of the query loop of `submit_key_path_request`: every iteration lowers the request's measure
(`Store/SeekMeasure.lean`), which is at most `257·(2N + 6) + 2N + 3` -/
def reqFuel (env : Env Node VH V) : Nat := 257 * (2 * env.leaves.length + 6) + 2 * env.leaves.length + 5

/-- `io_waiters.entry(q)`: `Occupied` → `assert!(!contains)`, push; `none` = `Vacant` -/
def joinWaiters (ws : List (Query × List Nat)) (q : Query) (idx : Nat) : Option (Outcome Unit (List (Query × List Nat))) :=
  match ws.lookup q with
  | none => none
  | some w =>
    if w.contains idx then some (.panic "assert: !occupied.get().contains(&request_index)")
    else some (.ok (ws.map (fun e => if e.1 = q then (e.1, e.2 ++ [idx]) else e)))

/-- `submit_idle_page_load(slab_index)` -/
def submitIdleLoad (ht : Ht) (m : Mux Node VH V) (si : Nat) : Outcome Unit (Mux Node VH V) :=
  match m.slab.get si with
  | none => .panic "io_slab[slab_index]"
  | some (.leaf _) => .ok m
  | some (.merkle pid k _) =>
    match (ht.probes pid)[k]? with
    | none => .panic "unreachable: the page is not in the hash table"
    | some b => .ok { m with slab := m.slab.put si (.merkle pid (k + 1) true), inflight := m.inflight ++ [(si, .bucket b)] }

/-- `submit_idle_page_loads` -/
def submitIdleLoads (ht : Ht) : List Nat → Mux Node VH V → Outcome Unit (Mux Node VH V)
  | [], m => .ok m
  | si :: rest, m =>
    match submitIdleLoad ht { m with idleLoads := rest } si with
    | .ok m' => submitIdleLoads ht rest m'
    | .panic s => .panic s
    | .err e => .err e

/-- the in-memory sources of `submit_key_path_request`: the page set, else `get_in_memory_page` (overlay, page
cache) with the insert into the page set -/
def memPage (env : Env Node VH V) (m : Mux Node VH V) (pid : PageId) : Option (MPage Node × PageSet Node) :=
  match m.ps.get pid with
  | some (pg, _) => some (pg, m.ps)
  | none =>
    match env.ovPages.lookup pid with
    | some pg => some (pg, m.ps.insert pid pg .persisted)
    | none =>
      match m.cache.lookup pid with
      | some pg => some (pg, m.ps.insert pid pg .persisted)
      | none => none

/-- a leaf for a fetching request: `continue_leaf_fetch` / `continue_leaves_fetch` / `unreachable!()` -/
def feedLeaf (env : Env Node VH V) (ps : PageSet Node) (r : Req Node VH V) (l : Nat) :
    Outcome Unit (PageSet Node × Req Node VH V) :=
  match env.leaves[l]? with
  | none => .err ()
  | some leaf =>
    match r.st with
    | .fetchingLeaf .. =>
      (match continueLeafFetch env r (some leaf) with
       | .ok r' => .ok (ps, r')
       | .panic s => .panic s
       | .err e => .err e)
    | .fetchingLeaves .. => continueLeavesFetch env ps r (some leaf)
    | _ => .panic "unreachable: leaf for a request that is not fetching"

/-- `submit_key_path_request(page_set, request_index)` -/
def submitReq (env : Env Node VH V) (ht : Ht) : Nat → Mux Node VH V → Nat → Outcome Unit (Mux Node VH V)
  | 0, _, _ => .panic "fuel"
  | fuel + 1, m, idx =>
    if idx < m.processed then .ok m else
    let i := idx - m.processed
    match m.reqs[i]? with
    | none => .panic "requests[i]"
    | some r =>
      match nextQuery r with
      | .panic s => .panic s
      | .err e => .err e
      | .ok (_, none) => .ok m
      | .ok (r, some (.page pid)) =>
        (match memPage env m pid with
         | some (pg, ps) =>
           (match continueSeek env ps r pid pg with
            | .panic s => .panic s
            | .err e => .err e
            | .ok (ps', r') => submitReq env ht fuel { m with ps := ps', reqs := m.reqs.set i r' } idx)
         | none =>
           match joinWaiters m.waiters (.page pid) idx with
           | some (.ok ws) => .ok { m with reqs := m.reqs.set i r, waiters := ws }
           | some (.panic s) => .panic s
           | some (.err e) => .err e
           | none =>
             -- `note_io`, `start_load`, `vacant_entry.insert`, `io_slab.insert`, `submit_idle_page_load`
             match m.slab.insert (.merkle pid 0 false) with
             | .panic s => .panic s
             | .err e => .err e
             | .ok (slab, si) =>
               submitIdleLoad ht { m with reqs := m.reqs.set i { r with ios := r.ios + 1 },
                                          waiters := m.waiters ++ [(.page pid, [idx])], slab := slab } si)
      | .ok (r, some (.leaf l)) =>
        match joinWaiters m.waiters (.leaf l) idx with
        | some (.ok ws) => .ok { m with reqs := m.reqs.set i r, waiters := ws }
        | some (.panic s) => .panic s
        | some (.err e) => .err e
        | none =>
          if m.leafCache.contains l then
            -- `load_leaf_async` = `Ok(leaf)`
            match feedLeaf env m.ps r l with
            | .panic s => .panic s
            | .err e => .err e
            | .ok (ps', r') => submitReq env ht fuel { m with ps := ps', reqs := m.reqs.set i r' } idx
          else
            -- the read is submitted with `user_data = vacant_key()`; `note_io`; `assert_eq!(slab_index, insert(..))`
            match m.slab.insert (.leaf l) with
            | .panic s => .panic s
            | .err e => .err e
            | .ok (slab, si) =>
              .ok { m with reqs := m.reqs.set i { r with ios := r.ios + 1 },
                           waiters := m.waiters ++ [(.leaf l, [idx])], slab := slab,
                           inflight := m.inflight ++ [(si, .leaf l)] }

/-- `submit_idle_key_path_requests` (the list is `idle_requests`) -/
def submitIdleReqs (env : Env Node VH V) (ht : Ht) : List Nat → Mux Node VH V → Outcome Unit (Mux Node VH V)
  | [], m => .ok m
  | idx :: rest, m =>
    if !m.hasRoom then .ok m else
    match submitReq env ht (reqFuel env) { m with idleReqs := rest } idx with
    | .ok m' => submitIdleReqs env ht rest m'
    | .panic s => .panic s
    | .err e => .err e

/-- `submit_all(page_set)` -/
def submitAll (env : Env Node VH V) (ht : Ht) (m : Mux Node VH V) : Outcome Unit (Mux Node VH V) :=
  if !m.hasRoom then .ok m else
  match submitIdleLoads ht m.idleLoads m with
  | .ok m' => submitIdleReqs env ht m'.idleReqs m'
  | .panic s => .panic s
  | .err e => .err e

/-- `push(key)` -/
def push (env : Env Node VH V) (m : Mux Node VH V) (key : Key) : Outcome Unit (Mux Node VH V) :=
  match Req.new env key with
  | .ok r => .ok { m with reqs := m.reqs ++ [r], idleReqs := m.idleReqs ++ [m.processed + m.reqs.length] }
  | .panic s => .panic s
  | .err e => .err e

/-- `take_completion()` -/
def takeCompletion (m : Mux Node VH V) : Mux Node VH V × Option (Req Node VH V) :=
  match m.reqs with
  | r :: rest => if r.isCompleted then ({ m with reqs := rest, processed := m.processed + 1 }, some r) else (m, none)
  | [] => (m, none)

/-- the waiter loops of the two completion handlers: `deliver` = `continue_seek` with the page resp. the leaf fetch -/
def wakeLoop (deliver : PageSet Node → Req Node VH V → Outcome Unit (PageSet Node × Req Node VH V)) :
    List Nat → Mux Node VH V → Outcome Unit (Mux Node VH V)
  | [], m => .ok m
  | w :: rest, m =>
    if w < m.processed then wakeLoop deliver rest m else
    match m.reqs[w - m.processed]? with
    | none => .panic "requests[idx]"
    | some r =>
      if r.isCompleted then .panic "assert: !request.is_completed()" else
      match deliver m.ps r with
      | .panic s => .panic s
      | .err e => .err e
      | .ok (ps', r') =>
        wakeLoop deliver rest
          { m with ps := ps', reqs := m.reqs.set (w - m.processed) r',
                   idleReqs := if r'.isCompleted then m.idleReqs else m.idleReqs ++ [w] }

def removeWaiters (ws : List (Query × List Nat)) (q : Query) : List (Query × List Nat) × List Nat :=
  (ws.filter (fun e => e.1 ≠ q), (ws.lookup q).getD [])

/-- `handle_merkle_page_and_continue(page_set, slab_index, page_data, bucket_index)` -/
def handleMerkle (env : Env Node VH V) (m : Mux Node VH V) (si : Nat) (page : MPage Node) : Outcome Unit (Mux Node VH V) :=
  match m.slab.remove si with
  | .panic s => .panic s
  | .err e => .err e
  | .ok (_, .leaf _) => .panic "panic!(): not a merkle load"
  | .ok (slab, .merkle pid _ _) =>
    -- `page_cache.insert` keeps and returns an image that is already there
    let page' := match m.cache.lookup pid with
      | some pg => pg
      | none => page
    let cache' := match m.cache.lookup pid with
      | some _ => m.cache
      | none => (pid, page) :: m.cache
    wakeLoop (fun ps r => continueSeek env ps r pid page') (removeWaiters m.waiters (.page pid)).2
      { m with slab := slab, cache := cache', ps := m.ps.insert pid page' .persisted,
               waiters := (removeWaiters m.waiters (.page pid)).1 }

/-- `handle_leaf_page_and_continue(slab_index, page, page_set)` -/
def handleLeaf (env : Env Node VH V) (m : Mux Node VH V) (si : Nat) : Outcome Unit (Mux Node VH V) :=
  match m.slab.remove si with
  | .panic s => .panic s
  | .err e => .err e
  | .ok (_, .merkle ..) => .panic "panic!(): not a leaf load"
  | .ok (slab, .leaf l) =>
    wakeLoop (fun ps r => feedLeaf env ps r l) (removeWaiters m.waiters (.leaf l)).2
      { m with slab := slab, waiters := (removeWaiters m.waiters (.leaf l)).1, leafCache := l :: m.leafCache }

/-- `handle_completion(page_set, io)` for the read with this `user_data`; `.err ()` = no such read is in flight -/
def recv (env : Env Node VH V) (ht : Ht) (m : Mux Node VH V) (ud : Nat) : Outcome Unit (Mux Node VH V) :=
  match m.inflight.find? (fun c => c.1 == ud) with
  | none => .err ()
  | some (_, cmd) =>
    let m := { m with inflight := m.inflight.eraseP (fun c => c.1 == ud) }
    match m.slab.get ud with
    | none => .panic "io_slab.get_mut(slab_index).unwrap()"
    | some (.merkle pid k sub) =>
      -- `try_complete`: `assert!(self.needs_completion())`, then the label test
      if !sub then .panic "assert: needs_completion" else
      let hit := match cmd with
        | .bucket b => ht.label b == some pid
        | .leaf _ => false
      if hit then
        match env.disk.lookup pid with
        | none => .err ()
        | some page => handleMerkle env m ud page
      else
        .ok { m with slab := m.slab.put ud (.merkle pid k false),
                     idleLoads := m.idleLoads ++ [ud] }
    | some (.leaf _) => handleLeaf env m ud

/-- a completion that carries an I/O error: `io.result?` returns before anything is touched -/
def recvErr (m : Mux Node VH V) (ud : Nat) : Mux Node VH V :=
  { m with inflight := m.inflight.eraseP (fun c => c.1 == ud) }

end Nomt.Seeker
