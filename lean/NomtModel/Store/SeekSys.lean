import NomtModel.Store.SeekWalk
/-!
# `continue_seek` as a whole, and the operations of the simulation surface keep `SysInv`
(helper lemmas for `Props/C05_Seek.lean`)
-/
namespace Nomt.Seek
open Nomt Nomt.Ovl Nomt.TriePos

variable {Node VH V : Type} [DecidableEq Node] [DecidableEq VH]

theorem take6_len (k : Key) (d : Nat) (hk : k.length = KEY_BITS) (hd : d ≤ KEY_BITS) :
    d + ((k.drop d).take 6).length = min (d + 6) KEY_BITS := by
  rw [List.length_take, List.length_drop, hk]; omega

theorem take_take_len {α : Type} : ∀ (l : List α) (n : Nat), l.take n = l.take (l.take n).length
  | [], n => by simp
  | x :: xs, 0 => by simp
  | x :: xs, n + 1 => by
    simp only [List.take_succ_cons, List.length_cons]
    rw [← take_take_len xs n]

/-- **`continue_seek` with the good page of the request's position** -/
theorem continueSeek_ok (W : World Node VH V) (hOK : W.OK) (ps : PageSet Node) (hps : PSInv W ps) (r : Req Node VH V)
    (ht : Trail W r) (hst : r.st = .seeking) (h6 : r.pos.depth % 6 = 0)
    (h2 : 2 ≤ (under (r.key.take r.pos.depth) W.view).length) (page : MPage Node)
    (hgood : PGood W ps (sextetsOf (r.key.take r.pos.depth)) page) :
    ∃ ps' r', continueSeek W.env ps r (sextetsOf (r.key.take r.pos.depth)) page = .ok (ps', r') ∧ r'.key = r.key ∧
      r'.ios = r.ios ∧ PSInv W ps' ∧ Ext ps ps' ∧ ReqOK W ps' r' none ∧ r.pos.depth < r'.pos.depth := by
  have hd : r.pos.depth ≤ KEY_BITS := ht.wf.depthLe
  unfold continueSeek
  rw [hst]
  simp only
  have h6' : ¬ (r.pos.depth % DEPTH ≠ 0) := by unfold DEPTH; omega
  rw [if_neg h6']
  have ht0 : Trail W { r with pageId := some (sextetsOf (r.key.take r.pos.depth)) } := trail_congr ht rfl rfl rfl
  obtain ⟨w, hw, hwok⟩ := walkPage_ok W hOK ps r.key page r.pos.depth h6 hgood.1 ((r.key.drop r.pos.depth).take DEPTH)
    { r with pageId := some (sextetsOf (r.key.take r.pos.depth)) } rfl ht0 hst rfl (Nat.le_refl _)
    (by simp only [DEPTH]; exact take_take_len _ _)
    (by simp only [DEPTH]; exact take6_len r.key r.pos.depth ht.klen hd) h2
  rw [hst] at hw
  rw [hw]
  cases hwok with
  | @returned r' e1 e2 e3 e4 e5 e6 =>
    exact ⟨ps, r', rfl, e1, e2, hps, ext_refl ps, ⟨e3, e4, e5⟩, e6⟩
  | @bottom r' e1 e2 ht' hst' hpid' hdep h2' =>
    simp only
    simp only at hpid' e2
    have hk6 : r'.key.take r'.pos.depth = r.key.take (r.pos.depth + 6) := by rw [e1, hdep]
    have hlen6 : (r.key.take (r.pos.depth + 6)).length = r.pos.depth + 6 := by rw [← hk6]; rw [ht'.takeLen, hdep]
    have hlt : r.pos.depth + 6 < KEY_BITS := by
      have := two_lt hOK (r.key.take (r.pos.depth + 6)) (by rw [hlen6, ← hdep]; exact ht'.wf.depthLe) h2'
      rw [hlen6] at this; exact this
    have hne6 : r.key.take (r.pos.depth + 6) ≠ [] := by intro e; rw [e] at hlen6; simp at hlen6
    have hmod6 : (r.key.take (r.pos.depth + 6)).length % 6 = 0 := by rw [hlen6]; omega
    have hpg6 : specPage (r.key.take (r.pos.depth + 6)) = sextetsOf (r.key.take r.pos.depth) :=
      specPage_take_in_page r.key r.pos.depth (r.pos.depth + 5) h6 (by omega) (by omega) (by rw [ht.klen]; omega)
    have hPlen := sextets_len r.key r.pos.depth h6 (by rw [ht.klen]; exact hd)
    -- the child page index and id
    have hcpi := childPageIndex_eq r'.pos ht'.wf (by omega) (by rw [hdep]; omega)
    rw [ht'.path, hk6] at hcpi
    rw [hcpi]
    simp only
    have hchild : childPageId (sextetsOf (r.key.take r.pos.depth)) (loadBE (lp (r.key.take (r.pos.depth + 6)))) =
        .ok (sextetsOf (r.key.take (r.pos.depth + 6))) := by
      have hKB : KEY_BITS = 256 := rfl
      unfold childPageId MAX_PAGE_DEPTH
      rw [if_neg (by omega), sextetsOf_bottom _ hmod6 hne6, hpg6]
    rw [hchild]
    simp only
    -- what the parent page says about that child
    have hthr6 : Through W.view (6 * (sextetsOf (r.key.take r.pos.depth)).length) (r.key.take (r.pos.depth + 6)) := by
      intro j _ hj2
      rw [hlen6] at hj2
      rw [List.take_take]
      have e : min j (r.pos.depth + 6) = j := by omega
      rw [e]
      have := ht'.thr j (by rw [hdep]; exact hj2)
      rw [e1] at this
      exact this
    obtain ⟨hc1, hc2⟩ := hgood.2 (r.key.take (r.pos.depth + 6)) (by rw [hlen6]; omega) (by rw [hlen6]; omega) hpg6 hthr6 h2'
    have hpidok : PidOK r' := by
      unfold PidOK
      rw [hpid', if_neg (by omega), hk6, hpg6]
    cases hel : page.isElided (loadBE (lp (r.key.take (r.pos.depth + 6)))) with
    | false =>
      simp only [Bool.false_eq_true, if_false]
      refine ⟨ps, r', rfl, e1, e2, hps, ext_refl ps, ⟨ht', hpidok, ?_⟩, by rw [hdep]; omega⟩
      unfold StOK
      rw [hst']
      simp only
      rw [hk6]
      exact ⟨by rw [hdep]; omega, h2', hc2 hel, .inl trivial⟩
    | true =>
      simp only [if_true]
      cases hcont : ps.contains (sextetsOf (r.key.take (r.pos.depth + 6))) with
      | true =>
        simp only [if_true]
        refine ⟨ps, r', rfl, e1, e2, hps, ext_refl ps, ⟨ht', hpidok, ?_⟩, by rw [hdep]; omega⟩
        unfold StOK
        rw [hst']
        simp only
        rw [hk6]
        exact ⟨by rw [hdep]; omega, h2', .inl (contains_get hcont), .inl trivial⟩
      | false =>
        simp only [Bool.false_eq_true, if_false]
        obtain ⟨stop, hrb, hrange, hss⟩ := ht'.range
        unfold beginLeavesFetch
        rw [hrb]
        simp only
        have h0 : ∀ l ∈ W.env.leaves.head?, bitsLt r'.pos.raw l.sep = false := fun l hl => hOK.firstSep l hl _ ht'.wf.rawLen
        obtain ⟨binv, _⟩ := btNew_inv W.env.primary W.env.secondary W.env.leaves r'.pos.raw stop hOK.prim hOK.sec hOK.leaves h0
        have bsh := btNew_shape W.env.primary W.env.secondary W.env.leaves r'.pos.raw stop hOK.leaves h0 hss
        have hnode : page.node r'.pos.nodeIndex = some (specNode W.H W.view (r'.key.take r'.pos.depth)) := by
          rw [ht'.wf.idx, ht'.path, hk6]
          have hlt126 := specIndex_lt _ hne6
          unfold MPage.node
          rw [if_pos hlt126]
          congr 1
          exact hgood.1 _ hne6 (by rw [hlen6]; omega) hpg6 hthr6
        have ht'' : Trail W { r' with st := (RState.fetchingLeaves page (r'.pos.raw, stop)
            (BtIt.new W.env.primary W.env.secondary W.env.leaves r'.pos.raw stop)
            (neededOf W.env (BtIt.new W.env.primary W.env.secondary W.env.leaves r'.pos.raw stop)) []) } :=
          trail_congr ht' rfl rfl rfl
        obtain ⟨ps', r'', g1, g2, g3, g4, g5, g6, g7, g8, g9, _⟩ := leavesCore_ok W hOK ps hps _ ht'' hpidok rfl
          ⟨by simp only; omega, by simp only; rw [hdep]; omega, by simp only; rw [hk6]; exact h2',
            by simp only; rw [hk6]; exact hc1 hel, hnode, hrange,
            by simp only [List.nil_append]; rw [btNew_spec _ _ _ _ _ hOK.prim hOK.sec hOK.leaves h0]⟩
          binv bsh (neededOf_new W r'.pos.raw stop)
        refine ⟨ps', r'', g1, g2.trans e1, g6.trans e2, g7, g8, ⟨?_, ?_, g9⟩, by rw [g3, hdep]; omega⟩
        · exact trail_congr ht' g2 g3 g5
        · unfold PidOK
          rw [g4, g3, g2]
          exact hpidok

/-! ### a new request -/

theorem trail_new (W : World Node VH V) (key : Key) (hk : key.length = KEY_BITS) (st : RState Node VH V) :
    Trail W { key := key, pos := Pos.new, pageId := none, sibs := [], st := st, ios := 0 } := by
  refine ⟨hk, Pos.wf_new, ?_, ?_, ?_⟩
  · simp [Pos.new]
  · intro j _ hj; simp [Pos.new] at hj
  · simp only [Pos.new, specSibs, List.range_zero, List.map_nil]
    cases W.env.record <;> rfl

theorem under_root (W : World Node VH V) : specNode W.H W.view [] = nodeAt W.H KEY_BITS 0 W.view := rfl

/-- **`SeekRequest::new`** -/
theorem reqNew_ok (W : World Node VH V) (hOK : W.OK) (ps : PageSet Node) (key : Key) (hk : key.length = KEY_BITS) :
    ∃ r, Req.new W.env key = .ok r ∧ r.key = key ∧ r.ios = 0 ∧ ReqOK W ps r none := by
  unfold Req.new
  simp only
  rw [hOK.kind, hOK.root, ← under_root]
  have hc := view_canon W hOK
  by_cases hterm : W.H.kind (specNode W.H W.view []) = .terminator
  · have hb : (W.H.kind (specNode W.H W.view []) == Kind.terminator) = true := by simp [hterm]
    rw [if_pos hb]
    have hu := kind_term_under hOK.sound hc [] (by simp) hterm
    have ht := trail_new W key hk (.seeking : RState Node VH V)
    exact ⟨_, rfl, rfl, rfl, trail_congr ht rfl rfl rfl, by simp [PidOK, Pos.new],
      completed_term_ok W ps _ ht (by simpa [Pos.new] using hu)⟩
  · have hb : (W.H.kind (specNode W.H W.view []) == Kind.terminator) = false := by simp [hterm]
    rw [hb]
    simp only [Bool.false_eq_true, if_false]
    by_cases hleaf : W.H.kind (specNode W.H W.view []) = .leaf
    · have hb2 : (W.H.kind (specNode W.H W.view []) == Kind.leaf) = true := by simp [hleaf]
      rw [if_pos hb2]
      obtain ⟨k0, v0, hu⟩ := kind_leaf_under hOK.sound hc [] (by simp) hleaf
      have ht := trail_new W key hk (.seeking : RState Node VH V)
      obtain ⟨r', e1, e2, e3, e4, e5, e6, e7⟩ := startLeafFetch_ok W hOK ps _ k0 v0 ht (by simpa [Pos.new] using hu)
      refine ⟨r', e1, e2, e6, trail_congr ht e2 e3 e5, ?_, e7⟩
      unfold PidOK
      rw [e4, e3]
      simp [Pos.new]
    · have hb2 : (W.H.kind (specNode W.H W.view []) == Kind.leaf) = false := by simp [hleaf]
      rw [hb2]
      simp only [Bool.false_eq_true, if_false]
      obtain ⟨h2, _⟩ := kind_internal_under hOK.sound hc [] (by simp) hleaf hterm
      refine ⟨_, rfl, rfl, rfl, trail_new W key hk _, by simp [PidOK, Pos.new], ?_⟩
      unfold StOK
      simp only [Pos.new, List.take_zero]
      exact ⟨trivial, h2, .inr hOK.rep.1, .inl trivial⟩

/-! ### `next_query` of a seeking request names the page of the next six bits -/

theorem nextQuery_seeking (W : World Node VH V) (hOK : W.OK) (r : Req Node VH V) (ht : Trail W r) (hpid : PidOK r)
    (hst : r.st = .seeking) (h6 : r.pos.depth % 6 = 0) (h2 : 2 ≤ (under (r.key.take r.pos.depth) W.view).length) :
    nextQuery r = .ok (r, some (.page (sextetsOf (r.key.take r.pos.depth)))) := by
  have hlen := ht.takeLen
  have hlt : r.pos.depth < KEY_BITS := by
    have := two_lt hOK (r.key.take r.pos.depth) (by rw [hlen]; exact ht.wf.depthLe) h2
    rw [hlen] at this; exact this
  unfold nextQuery
  rw [hst]
  simp only
  unfold PidOK at hpid
  by_cases h0 : r.pos.depth = 0
  · rw [if_pos h0] at hpid
    rw [hpid, h0]
    rfl
  · rw [if_neg h0] at hpid
    rw [hpid]
    simp only
    have hcpi := childPageIndex_eq r.pos ht.wf (by omega) h6
    rw [ht.path] at hcpi
    rw [hcpi]
    simp only
    have hne : r.key.take r.pos.depth ≠ [] := by intro e; rw [e] at hlen; simp at hlen; omega
    have hKB : KEY_BITS = 256 := rfl
    unfold childPageId MAX_PAGE_DEPTH
    rw [if_neg (by rw [specPage_length, hlen]; omega), ← sextetsOf_bottom _ (by rw [hlen]; exact h6) hne]

/-! ### the in-memory sources -/

theorem memOK_insert {W : World Node VH V} {cache : List (PageId × MPage Node)} (hm : MemOK W cache) {C : PageId}
    {pg : MPage Node} (hov : W.env.ovPages.lookup C = none) (hc : cache.lookup C = none) (hu : W.U C = some pg)
    : MemOK W ((C, pg) :: cache) := by
  intro p
  have := hm p
  by_cases hp : p = C
  · subst hp
    rw [hov]
    simp only [List.lookup_cons, beq_self_eq_true]
    exact hu.symm
  · have hb : (p == C) = false := by simpa using hp
    simp only [List.lookup_cons, hb]
    exact this

/-- reading `U` through the sources -/
theorem mem_lookup {W : World Node VH V} {cache : List (PageId × MPage Node)} (hm : MemOK W cache) (C : PageId) :
    (∀ pg, W.env.ovPages.lookup C = some pg → W.U C = some pg) ∧
    (W.env.ovPages.lookup C = none → ∀ pg, cache.lookup C = some pg → W.U C = some pg) ∧
    (W.env.ovPages.lookup C = none → cache.lookup C = none → W.U C = W.env.disk.lookup C) := by
  have := hm C
  refine ⟨?_, ?_, ?_⟩
  · intro pg h; rw [h] at this; exact this.symm
  · intro h pg h2; rw [h, h2] at this; exact this.symm
  · intro h h2; rw [h, h2] at this; exact this.symm

end Nomt.Seek
