import NomtModel.Store.FrameWrite
/-!
# A kernel-checked accepted image: the freshly created database (non-vacuity of the frame / placement theorems)

`mk z`: meta page of a new store; `ln` and `bbn` hold only the reserved page 0 (`z`, an all-zero page).  Stated for a page
variable `z` so that the kernel never has to evaluate a 4096-byte literal; `zeros PAGE` is such a page.
-/
namespace Nomt.Store.Fresh

def m : Meta :=
  { magic := MAGIC, version := 1, lnFreelistPn := 0, lnBump := 1, bbnFreelistPn := 0, bbnBump := 1, syncSeqn := 0,
    bitboxNumPages := 1, seed0 := 0, seed1 := 0, rollbackStartLive := 0, rollbackEndLive := 0 }

def mk (z : ByteArray) : Image :=
  { metaF := encodeMeta m, ln := z, bbn := z, ht := ByteArray.empty, wal := ByteArray.empty, segs := [] }

theorem hmeta (z : ByteArray) : imageMeta (mk z) = .ok m := by
  unfold imageMeta
  have h1 : decodeMeta (mk z).metaF = some m := meta_rt m (by simp [Meta.WF, m, MAGIC])
  rw [h1]
  rfl

theorem pageOf_page0 (z : ByteArray) (hs : z.size = PAGE) : pageOf z 0 = some z := by
  rw [pageOf_some (by rw [hs]; simp)]
  congr 1
  have := @ByteArray.extract_zero_size z
  rw [hs] at this
  simpa using this

def marks1 : Array UInt8 := Array.replicate 1 0

theorem liveBranches_fresh (z : ByteArray) (hs : z.size = PAGE) (ha : allZero z 0 PAGE = true) (t : Array Bool) :
    liveBranches z 1 t = .ok [] := by
  unfold liveBranches
  have : List.range 1 = [0] := rfl
  rw [this]
  simp only [List.foldrM_cons, List.foldrM_nil, pure, Except.pure, bind, Except.bind, pageOf_page0 z hs, ha, if_true]

theorem hwalk (z : ByteArray) (hs : z.size = PAGE) (ha : allZero z 0 PAGE = true) :
    wfDetailM (mk z) = .ok (Stats.mk 0 0 0 0 0 0 0 0, marks1, marks1) := by
  unfold wfDetailM
  have c1 : ¬ 1 * PAGE > z.size := by rw [hs]; simp
  have f1 : freeListAll z 1 1 0 = .ok [] := by simp [freeListAll, pure, Except.pure]
  have hsp : allSeps ([] : List (Nat × Branch)) = [] := by simp [allSeps]
  have hc : countUnclaimed (Array.replicate 1 0) 1 = 0 := by
    unfold countUnclaimed
    have : List.range 1 = [0] := rfl
    rw [this]
    simp
  have e1 : (mk z).ln = z := rfl
  have e2 : (mk z).bbn = z := rfl
  have b1 : m.lnBump = 1 := rfl
  have b2 : m.bbnBump = 1 := rfl
  have b3 : m.lnFreelistPn = 0 := rfl
  have b4 : m.bbnFreelistPn = 0 := rfl
  simp only [bind, Except.bind, hmeta, e1, e2, b1, b2, b3, b4, c1, if_false, pure, Except.pure, f1,
    claimFreeList, ha, Bool.not_true, Bool.false_eq_true, liveBranches_fresh z hs ha, List.map_nil, claimAll, hsp, strictlySorted,
    leafWalk, List.length_nil, trackedOf, List.flatMap_nil, hc, marks1]

/-- one sync of the fresh store: two pages beyond the frontier of `ln`, one of `bbn`, fsyncs, then the switch-over -/
def tr : List IoEv :=
  [{ kind := "Write", file := "ln", offset := 4096, len := 4096, site := "io.send" },
   { kind := "Write", file := "ln", offset := 8192, len := 4096, site := "io.send" },
   { kind := "Write", file := "bbn", offset := 4096, len := 4096, site := "io.send" },
   { kind := "Fsync", file := "ln", offset := 0, len := 0, site := "fsyncer" },
   { kind := "Fsync", file := "bbn", offset := 0, len := 0, site := "fsyncer" },
   { kind := "Write", file := "meta", offset := 0, len := 4096, site := "meta.write" }]

theorem accepted (z : ByteArray) (hs : z.size = PAGE) (ha : allZero z 0 PAGE = true) :
    ∃ stP, checkPlacement (mk z) tr = .ok stP := by
  unfold checkPlacement
  simp only [bind, Except.bind, hmeta, hwalk z hs ha]
  simp [checkPlacement.go, tr, checkEv, pageCheck, pageCheckBbn, marks1, m, PAGE, Except.map, bind, Except.bind, pure, Except.pure]

end Nomt.Store.Fresh
