import NomtModel.Store.LeafUpdRun
import NomtModel.Api.KVLemmas
/-!
# `applyAll` is `kvApply` of the sequential model (C01's specification)

The sequential model of `Api/KV.lean` keys its association list by bit strings ordered by `bitsLt`; the leaf-updater
model keys its entries by numbers.  Along any order embedding `enc` of the numbers into the bit strings
(`OrderEmb`; `encBits 256`, the 256 key bits most significant first, is one on all keys below `2^256`) the filter-based
update `write1` of an ascending list is `kvWrite`, hence `applyAll` is `kvApply`.
-/
namespace Nomt.LeafUpd
variable {V : Type} [CellSize V]

/-- an entry as a pair of the sequential model: the value is the cell with its overflow flag -/
def toKV (enc : Nat → Key) (e : Entry V) : Key × (V × Bool) := (enc e.key, (e.val, e.ovf))

def toW (enc : Nat → Key) (c : Nat × Option (V × Bool)) : Key × Option (V × Bool) := (enc c.1, c.2)

/-- `enc` embeds the order of the keys in `D` into `bitsLt` -/
structure OrderEmb (enc : Nat → Key) (D : Nat → Prop) : Prop where
  lt : ∀ a b, D a → D b → (bitsLt (enc a) (enc b) = true ↔ a < b)
  inj : ∀ a b, D a → D b → enc a = enc b → a = b

theorem write1_cons_below {a : Entry V} {r : List (Entry V)} {k : Nat} (h : a.key < k) (ch : Option (V × Bool)) :
    write1 (a :: r) k ch = a :: write1 r k ch :=
  write1_append_below (a := [a]) (by intro e he; simp at he; subst he; exact h) ch

theorem write1_none_all_above {l : List (Entry V)} {k : Nat} (h : ∀ e ∈ l, k < e.key) : write1 l k none = l := by
  unfold write1
  rw [filter_none (p := fun e => decide (e.key < k)) (r := l) (fun x hx => by have := h x hx; simp; omega),
    filter_all (p := fun e => decide (k < e.key)) (r := l) (fun x hx => by simpa using h x hx)]
  simp

theorem write1_some_all_above {l : List (Entry V)} {k : Nat} (h : ∀ e ∈ l, k < e.key) (v : V) (o : Bool) :
    write1 l k (some (v, o)) = ⟨k, v, o⟩ :: l := by
  unfold write1
  rw [filter_none (p := fun e => decide (e.key < k)) (r := l) (fun x hx => by have := h x hx; simp; omega),
    filter_all (p := fun e => decide (k < e.key)) (r := l) (fun x hx => by simpa using h x hx)]
  simp

theorem write1_none_head_eq {a : Entry V} {r : List (Entry V)} {k : Nat} (hak : a.key = k) (h : ∀ e ∈ r, k < e.key) :
    write1 (a :: r) k none = r := by
  unfold write1
  rw [List.filter_cons, List.filter_cons]
  have h1 : ¬ a.key < k := by omega
  have h2 : ¬ k < a.key := by omega
  simp only [h1, h2, decide_false, Bool.false_eq_true, if_false]
  rw [filter_none (p := fun e => decide (e.key < k)) (r := r) (fun x hx => by have := h x hx; simp; omega),
    filter_all (p := fun e => decide (k < e.key)) (r := r) (fun x hx => by simpa using h x hx)]
  simp

theorem write1_some_head_eq {a : Entry V} {r : List (Entry V)} {k : Nat} (hak : a.key = k) (h : ∀ e ∈ r, k < e.key)
    (v : V) (o : Bool) : write1 (a :: r) k (some (v, o)) = ⟨k, v, o⟩ :: r := by
  unfold write1
  rw [List.filter_cons, List.filter_cons]
  have h1 : ¬ a.key < k := by omega
  have h2 : ¬ k < a.key := by omega
  simp only [h1, h2, decide_false, Bool.false_eq_true, if_false]
  rw [filter_none (p := fun e => decide (e.key < k)) (r := r) (fun x hx => by have := h x hx; simp; omega),
    filter_all (p := fun e => decide (k < e.key)) (r := r) (fun x hx => by simpa using h x hx)]
  simp

theorem kvErase_of_notin {VH : Type} : ∀ {m : KVL VH} {k : Key}, (∀ y ∈ m, (y.1 == k) = false) → kvErase m k = m := by
  intro m
  induction m with
  | nil => intro k _; rfl
  | cons y r ih =>
    intro k h
    obtain ⟨k', v'⟩ := y
    have h1 := h (k', v') (List.mem_cons_self ..)
    simp only at h1
    simp only [kvErase, h1, Bool.false_eq_true, if_false]
    rw [ih (fun z hz => h z (List.mem_cons_of_mem _ hz))]

theorem map_write1_none {enc : Nat → Key} {D : Nat → Prop} (he : OrderEmb enc D) (k : Nat) (hk : D k) :
    ∀ {l : List (Entry V)}, Sorted l → (∀ e ∈ l, D e.key) →
    (write1 l k none).map (toKV enc) = kvErase (l.map (toKV enc)) (enc k) := by
  intro l
  induction l with
  | nil => intro _ _; simp [write1, kvErase]
  | cons a r ih =>
    intro hs hd
    have hs' := List.pairwise_cons.1 hs
    have hda : D a.key := hd a (List.mem_cons_self ..)
    have hdr : ∀ e ∈ r, D e.key := fun e he' => hd e (List.mem_cons_of_mem _ he')
    by_cases hak : a.key = k
    · have hr : ∀ e ∈ r, k < e.key := fun e he' => by have := hs'.1 e he'; omega
      rw [write1_none_head_eq hak hr]
      have hbeq : (enc a.key == enc k) = true := by simp [hak]
      simp [kvErase, toKV, hbeq]
    · have hne : (enc a.key == enc k) = false := by
        simp; intro h; exact hak (he.inj _ _ hda hk h)
      by_cases hlt : a.key < k
      · rw [write1_cons_below hlt]
        simp only [List.map_cons, kvErase, toKV, hne, Bool.false_eq_true, if_false]
        rw [← ih hs'.2 hdr]
      · have hall : ∀ e ∈ a :: r, k < e.key := by
          intro e he'
          rcases List.mem_cons.1 he' with rfl | he'
          · omega
          · have := hs'.1 e he'; omega
        rw [write1_none_all_above hall]
        symm
        apply kvErase_of_notin
        intro y hy
        obtain ⟨e, hem, rfl⟩ := List.mem_map.1 hy
        simp only [toKV]
        have hek := hall e hem
        simp; intro h
        have := he.inj _ _ (hd e hem) hk h
        omega

theorem map_write1_some {enc : Nat → Key} {D : Nat → Prop} (he : OrderEmb enc D) (k : Nat) (hk : D k) (v : V) (o : Bool) :
    ∀ {l : List (Entry V)}, Sorted l → (∀ e ∈ l, D e.key) →
    (write1 l k (some (v, o))).map (toKV enc) = kvInsert (l.map (toKV enc)) (enc k) (v, o) := by
  intro l
  induction l with
  | nil => intro _ _; simp [write1, kvInsert, toKV]
  | cons a r ih =>
    intro hs hd
    have hs' := List.pairwise_cons.1 hs
    have hda : D a.key := hd a (List.mem_cons_self ..)
    have hdr : ∀ e ∈ r, D e.key := fun e he' => hd e (List.mem_cons_of_mem _ he')
    by_cases hak : a.key = k
    · have hr : ∀ e ∈ r, k < e.key := fun e he' => by have := hs'.1 e he'; omega
      rw [write1_some_head_eq hak hr]
      have hbeq : (enc a.key == enc k) = true := by simp [hak]
      simp [kvInsert, toKV, hbeq]
    · have hne : (enc a.key == enc k) = false := by
        simp; intro h; exact hak (he.inj _ _ hda hk h)
      by_cases hlt : a.key < k
      · rw [write1_cons_below hlt]
        have hnlt : bitsLt (enc k) (enc a.key) = false := by
          cases hb : bitsLt (enc k) (enc a.key) with
          | false => rfl
          | true => have := (he.lt _ _ hk hda).1 hb; omega
        simp only [List.map_cons, kvInsert, toKV, hne, hnlt, Bool.false_eq_true, if_false]
        rw [← ih hs'.2 hdr]
      · have hgt : k < a.key := by omega
        have hall : ∀ e ∈ a :: r, k < e.key := by
          intro e he'
          rcases List.mem_cons.1 he' with rfl | he'
          · exact hgt
          · have := hs'.1 e he'; omega
        rw [write1_some_all_above hall]
        have hblt : bitsLt (enc k) (enc a.key) = true := (he.lt _ _ hk hda).2 hgt
        simp [kvInsert, toKV, hne, hblt]

theorem map_write1 {enc : Nat → Key} {D : Nat → Prop} (he : OrderEmb enc D) (k : Nat) (hk : D k)
    (ch : Option (V × Bool)) {l : List (Entry V)} (hs : Sorted l) (hd : ∀ e ∈ l, D e.key) :
    (write1 l k ch).map (toKV enc) = kvWrite (l.map (toKV enc)) (enc k) ch := by
  cases ch with
  | none => exact map_write1_none he k hk hs hd
  | some vo => obtain ⟨v, o⟩ := vo; exact map_write1_some he k hk v o hs hd

/-- **`applyAll` is `kvApply`** along an order embedding of the keys -/
theorem map_applyAll {enc : Nat → Key} {D : Nat → Prop} (he : OrderEmb enc D) :
    ∀ (cs : List (Nat × Option (V × Bool))) {l : List (Entry V)}, Sorted l → (∀ e ∈ l, D e.key) →
      (∀ c ∈ cs, D c.1) →
      (applyAll l cs).map (toKV enc) = kvApply (l.map (toKV enc)) (cs.map (toW enc)) := by
  intro cs
  induction cs with
  | nil => intro l _ _ _; rfl
  | cons c cs ih =>
    intro l hs hd hc
    have hck : D c.1 := hc c (List.mem_cons_self ..)
    have h1 := map_write1 he c.1 hck c.2 hs hd
    have hd' : ∀ e ∈ write1 l c.1 c.2, D e.key := by
      intro e he'
      rcases mem_write1 he' with h | ⟨v, o, _, rfl⟩
      · exact hd e h
      · exact hck
    have := ih (write1_sorted hs c.1 c.2) hd' (fun x hx => hc x (List.mem_cons_of_mem _ hx))
    simp only [applyAll, List.foldl_cons, List.map_cons, kvApply, toW] at this ⊢
    rw [this, h1]

/-! ## the 256 key bits as the embedding -/

/-- the low `w` bits of `n`, most significant first -/
def encBits : Nat → Nat → Key
  | 0, _ => []
  | w + 1, n => n.testBit w :: encBits w n

theorem encBits_mod (w : Nat) : ∀ n, encBits w (n % 2 ^ w) = encBits w n := by
  induction w with
  | zero => intro n; rfl
  | succ w ih =>
    intro n
    simp only [encBits]
    have h1 : (n % 2 ^ (w + 1)).testBit w = n.testBit w := by
      rw [Nat.testBit_mod_two_pow]; simp
    rw [h1, ← ih (n % 2 ^ (w + 1)), ← ih n]
    congr 2
    rw [Nat.mod_mod_of_dvd]
    exact ⟨2, by rw [Nat.pow_succ]⟩

theorem split_top (w n : Nat) (hn : n < 2 ^ (w + 1)) :
    (n.testBit w = true → 2 ^ w ≤ n ∧ n % 2 ^ w = n - 2 ^ w) ∧ (n.testBit w = false → n < 2 ^ w ∧ n % 2 ^ w = n) := by
  have hP : 2 ^ (w + 1) = 2 * 2 ^ w := by rw [Nat.pow_succ]; omega
  constructor
  · intro ht
    have hge : 2 ^ w ≤ n := Nat.ge_two_pow_of_testBit ht
    refine ⟨hge, ?_⟩
    rw [Nat.mod_eq_sub_mod hge, Nat.mod_eq_of_lt]
    rw [hP] at hn; omega
  · intro ht
    have hlt : n < 2 ^ w := by
      apply Nat.lt_of_not_le
      intro hge
      have hm : n - 2 ^ w < 2 ^ w := by rw [hP] at hn; omega
      have : n = 2 ^ w + (n - 2 ^ w) := by omega
      rw [this, Nat.testBit_two_pow_add_eq, Nat.testBit_lt_two_pow hm] at ht
      simp at ht
    exact ⟨hlt, Nat.mod_eq_of_lt hlt⟩

theorem encBits_lt (w : Nat) : ∀ a b, a < 2 ^ w → b < 2 ^ w → (bitsLt (encBits w a) (encBits w b) = true ↔ a < b) := by
  induction w with
  | zero => intro a b ha hb; simp at ha hb; subst ha; subst hb; simp [encBits, bitsLt]
  | succ w ih =>
    intro a b ha hb
    simp only [encBits, bitsLt]
    have sa := split_top w a ha
    have sb := split_top w b hb
    have hma : a % 2 ^ w < 2 ^ w := Nat.mod_lt _ (Nat.two_pow_pos w)
    have hmb : b % 2 ^ w < 2 ^ w := Nat.mod_lt _ (Nat.two_pow_pos w)
    have ihm := ih _ _ hma hmb
    rw [encBits_mod, encBits_mod] at ihm
    cases hta : a.testBit w <;> cases htb : b.testBit w
    · obtain ⟨_, ea⟩ := sa.2 hta
      obtain ⟨_, eb⟩ := sb.2 htb
      simp only [beq_self_eq_true, if_true]
      rw [ihm, ea, eb]
    · obtain ⟨la, _⟩ := sa.2 hta
      obtain ⟨lb, _⟩ := sb.1 htb
      simp
      omega
    · obtain ⟨la, _⟩ := sa.1 hta
      obtain ⟨lb, _⟩ := sb.2 htb
      simp
      omega
    · obtain ⟨la, ea⟩ := sa.1 hta
      obtain ⟨lb, eb⟩ := sb.1 htb
      simp only [beq_self_eq_true, if_true]
      rw [ihm, ea, eb]
      omega

theorem encBits_inj (w : Nat) : ∀ a b, a < 2 ^ w → b < 2 ^ w → encBits w a = encBits w b → a = b := by
  intro a b ha hb h
  rcases Nat.lt_trichotomy a b with hlt | heq | hgt
  · have := (encBits_lt w a b ha hb).2 hlt
    rw [h] at this
    have hirr := bitsLt_irrefl (encBits w b)
    rw [hirr] at this; cases this
  · exact heq
  · have := (encBits_lt w b a hb ha).2 hgt
    rw [h] at this
    have hirr := bitsLt_irrefl (encBits w b)
    rw [hirr] at this; cases this

/-- the 256 key bits, most significant first, embed the order of all 256-bit keys -/
theorem encBits_orderEmb : OrderEmb (encBits 256) (fun k => k < 2 ^ 256) :=
  ⟨encBits_lt 256, encBits_inj 256⟩

end Nomt.LeafUpd
