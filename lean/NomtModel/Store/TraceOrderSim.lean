import NomtModel.Store.TraceOrderLemmas
/-!
# The order monitor simulates the concurrent disk machine (part 2: the simulation relation and its steps)
-/
namespace Nomt.Store
open NomtDisk

/-- invariants of the monitor's own state: ids are positions (`nid` = the next one), the pending effects have distinct
ids, and an in-flight fsync covers pending effects of its own file only -/
structure MInv (st : OrderSt) (nid : Nat) : Prop where
  plt : ∀ p ∈ st.pend, p.id < nid
  clt : ∀ s ∈ st.syncs, ∀ i ∈ s.covers, i < nid
  nodup : (st.pend.map (·.id)).Nodup
  cfile : ∀ s ∈ st.syncs, ∀ p ∈ st.pend, p.id ∈ s.covers → p.file = s.file

theorem MInv.push {st st' : OrderSt} {nid : Nat} (h : MInv st nid) (p : Pend) (hp : p.id = nid)
    (hpend : st'.pend = st.pend ++ [p]) (hsy : st'.syncs = st.syncs) : MInv st' (nid + 1) := by
  refine ⟨?_, ?_, ?_, ?_⟩
  · intro q hq
    rw [hpend, List.mem_append, List.mem_singleton] at hq
    rcases hq with hq | rfl
    · have := h.plt q hq; omega
    · omega
  · intro s hs i hi
    rw [hsy] at hs
    have := h.clt s hs i hi; omega
  · rw [hpend, List.map_append, List.nodup_append]
    refine ⟨h.nodup, by simp, ?_⟩
    intro a ha b hb
    simp only [List.map_cons, List.map_nil, List.mem_singleton] at hb
    obtain ⟨q, hq, rfl⟩ := List.mem_map.mp ha
    have := h.plt q hq
    omega
  · intro s hs q hq hqc
    rw [hsy] at hs
    rw [hpend, List.mem_append, List.mem_singleton] at hq
    rcases hq with hq | rfl
    · exact h.cfile s hs q hq hqc
    · have := h.clt s hs _ hqc; omega

theorem MInv.push_sync {st st' : OrderSt} {nid : Nat} (h : MInv st nid) (s : InFlight)
    (hcov : ∀ i ∈ s.covers, ∃ q ∈ st.pend, q.id = i ∧ q.file = s.file)
    (hpend : st'.pend = st.pend) (hsy : st'.syncs = st.syncs ++ [s]) : MInv st' (nid + 1) := by
  refine ⟨?_, ?_, ?_, ?_⟩
  · intro q hq; rw [hpend] at hq; have := h.plt q hq; omega
  · intro s' hs' i hi
    rw [hsy, List.mem_append, List.mem_singleton] at hs'
    rcases hs' with hs' | rfl
    · have := h.clt s' hs' i hi; omega
    · obtain ⟨q, hq, rfl, _⟩ := hcov i hi
      have := h.plt q hq; omega
  · rw [hpend]; exact h.nodup
  · intro s' hs' q hq hqc
    rw [hpend] at hq
    rw [hsy, List.mem_append, List.mem_singleton] at hs'
    rcases hs' with hs' | rfl
    · exact h.cfile s' hs' q hq hqc
    · obtain ⟨q', hq', hid, hfile⟩ := hcov _ hqc
      have := nodup_id_eq st.pend h.nodup q' q hq' hq hid
      rw [← this]; exact hfile

theorem MInv.shrink {st st' : OrderSt} {nid : Nat} (h : MInv st nid)
    (hnd : (st'.pend.map (·.id)).Nodup)
    (hpend : ∀ q ∈ st'.pend, ∃ p ∈ st.pend, q.id = p.id ∧ q.file = p.file)
    (hsy : ∀ s ∈ st'.syncs, s ∈ st.syncs) : MInv st' (nid + 1) := by
  refine ⟨?_, ?_, hnd, ?_⟩
  · intro q hq
    obtain ⟨p, hp, hid, _⟩ := hpend q hq
    have := h.plt p hp; omega
  · intro s hs i hi
    have := h.clt s (hsy s hs) i hi; omega
  · intro s hs q hq hqc
    obtain ⟨p, hp, hid, hfile⟩ := hpend q hq
    rw [hfile]
    exact h.cfile s (hsy s hs) p hp (by rw [← hid]; exact hqc)

section sim
variable {Content MetaRec WalRec LogRec : Type} (C : Contents Content MetaRec WalRec)

/-- **the simulation relation** between the monitor's state and the state and phase of the concurrent disk machine -/
structure Sim (st : OrderSt) (cs : CState Content MetaRec WalRec LogRec) (ph : Nat) (nid : Nat) : Prop where
  vol : cs.vol = st.pend.filterMap (absP C)
  syncs : SyncsRel (cs.vol.map (·.id)) st.syncs cs.syncs
  phase : st.phase = ph
  ple : ph ≤ 2
  ph1 : ph = 1 → ∃ pm v, st.pend = [pm] ∧ pm.id = st.metaId ∧ pm.file = "meta" ∧ absP (LogRec := LogRec) C pm = some v
  inv : MInv st nid

/-- an entry of the machine's volatile list comes from a pending effect of the monitor -/
theorem Sim.vol_mem {st : OrderSt} {cs : CState Content MetaRec WalRec LogRec} {ph nid : Nat} (h : Sim C st cs ph nid)
    (v : VEff Content MetaRec WalRec LogRec) (hv : v ∈ cs.vol) :
    ∃ p ∈ st.pend, absP C p = some v ∧ v.id = p.id := by
  rw [h.vol] at hv
  exact mem_filterMap_absP_id C st.pend v hv

/-- a step of the monitor that adds a pending effect without abstraction and nothing else -/
theorem Sim.push_none {st st' : OrderSt} {cs : CState Content MetaRec WalRec LogRec} {ph nid : Nat}
    (h : Sim C st cs ph nid) (p : Pend) (hp : p.id = nid) (hnone : absP (LogRec := LogRec) C p = none)
    (hpend : st'.pend = st.pend ++ [p]) (hsy : st'.syncs = st.syncs) (hph : st'.phase = st.phase)
    (hne : st.phase ≠ 1) : Sim C st' cs ph (nid + 1) := by
  refine ⟨?_, ?_, by rw [hph]; exact h.phase, h.ple, ?_, h.inv.push p hp hpend hsy⟩
  · rw [hpend, List.filterMap_append, h.vol]; simp [hnone]
  · rw [hsy]; exact h.syncs
  · intro h1; rw [← h.phase] at h1; exact absurd h1 hne

/-- the Begin of a data operation -/
theorem sim_begin_data {st st' : OrderSt} {cs : CState Content MetaRec WalRec LogRec} {ph nid : Nat}
    (h : Sim C st cs ph nid) (e : IoEv) (hk : isDataKind e.kind = true) (hd : beginData st nid e = .ok st') :
    cAll ordChk ph cs
      (match absEff (LogRec := LogRec) C nid e.kind e.file e.offset with | some eff => [CEv.effBegin nid eff] | none => []) ∧
    Sim C st'
      (crun cs (match absEff (LogRec := LogRec) C nid e.kind e.file e.offset with
        | some eff => [CEv.effBegin nid eff] | none => []))
      (phRun ph cs (match absEff (LogRec := LogRec) C nid e.kind e.file e.offset with
        | some eff => [CEv.effBegin nid eff] | none => []))
      (nid + 1) := by
  obtain ⟨hsy, hcase⟩ := beginData_ok st st' nid e hd
  have habsP : absP (LogRec := LogRec) C (mkPend nid e) =
      (absEff C nid e.kind e.file e.offset).map (fun eff => ⟨nid, eff, false⟩) := rfl
  have hfresh : ∀ i ∈ [nid], ∀ s ∈ st.syncs, i ∈ s.covers → i ∈ cs.vol.map (·.id) := by
    intro i hi s hs hic
    simp only [List.mem_singleton] at hi
    subst hi
    have := h.inv.clt s hs _ hic
    omega
  rcases hcase with ⟨hmeta, hp0, hpend0, hpend', hph', hmid⟩ | ⟨hnm, hp1, hpend', hph', hmid, hht, hwal, htree⟩
  · -- the switch-over record
    have heff : absEff (LogRec := LogRec) C nid e.kind e.file e.offset = some (.setMeta (C.mt nid)) := by
      rw [hmeta]; exact absEff_meta_some C nid e.kind e.offset hk
    have hvol0 : cs.vol = [] := by rw [h.vol, hpend0]; rfl
    have hph0 : ph = 0 := by rw [← h.phase]; exact hp0
    subst hph0
    simp only [heff]
    refine ⟨⟨by simp [ordChk, Eff.isMeta, hvol0], trivial⟩, ?_⟩
    have hpend'' : st'.pend = st.pend ++ [mkPend nid e] := by rw [hpend', hpend0]; rfl
    refine ⟨?_, ?_, ?_, by simp [phRun, nextPhase, Eff.isMeta], ?_, h.inv.push _ rfl hpend'' hsy⟩
    · simp only [crun, List.foldl_cons, List.foldl_nil, cstep, hvol0, hpend', List.nil_append, List.filterMap_cons,
        habsP, heff, Option.map_some, List.filterMap_nil]
    · simp only [crun, List.foldl_cons, List.foldl_nil, cstep, hvol0, List.nil_append, List.map_cons, List.map_nil]
      rw [hsy]
      exact h.syncs.change hfresh
    · simp [phRun, nextPhase, Eff.isMeta, hph']
    · intro _
      exact ⟨mkPend nid e, ⟨nid, .setMeta (C.mt nid), false⟩, hpend', hmid.symm, hmeta, by rw [habsP, heff]; rfl⟩
  · -- any other data operation
    have hphne : ph ≠ 1 := by rw [← h.phase]; exact hp1
    cases heff : absEff (LogRec := LogRec) C nid e.kind e.file e.offset with
    | none =>
      simp only
      refine ⟨trivial, ?_⟩
      exact h.push_none C (mkPend nid e) rfl (by rw [habsP, heff]; rfl) hpend' hsy hph' hp1
    | some eff =>
      simp only
      have hnotmeta : eff.isMeta = false := by
        cases hm : eff.isMeta with
        | false => rfl
        | true => exact absurd ((absEff_isMeta C _ _ _ _ _ heff).mp hm) hnm
      have hfile := absEff_file C _ _ _ _ _ heff
      constructor
      · refine ⟨?_, trivial⟩
        simp only [ordChk, hnotmeta, Bool.false_eq_true, if_false]
        refine ⟨by have := h.ple; omega, ?_, ?_, ?_⟩
        · intro hf
          rw [hf] at hfile
          have := hht (fileOf_name _ _ hfile)
          rw [← h.phase]; exact this
        · intro hp2
          have hst2 : st.phase = 2 := by rw [h.phase]; exact hp2
          constructor
          · intro hf
            obtain ⟨hw, hfl⟩ := absEff_tree_write C _ _ _ _ _ heff (Or.inl hf)
            exact htree hfl hw hst2
          · intro hf
            obtain ⟨hw, hfl⟩ := absEff_tree_write C _ _ _ _ _ heff (Or.inr hf)
            exact htree hfl hw hst2
        · intro hp2 hf v hv hvht
          have hst2 : st.phase = 2 := by rw [h.phase]; exact hp2
          rw [hf] at hfile
          obtain ⟨q, hq, hqv, _⟩ := h.vol_mem C v hv
          have hqf := absP_file C q v hqv
          rw [hvht] at hqf
          exact hwal (fileOf_name _ _ hfile) hst2 q hq (fileOf_name _ _ hqf)
      · have hnext : phRun ph cs [CEv.effBegin nid eff] = ph := by
          simp [phRun, nextPhase, hnotmeta]
        rw [hnext]
        refine ⟨?_, ?_, by rw [hph']; exact h.phase, h.ple, fun h1 => absurd h1 hphne, h.inv.push _ rfl hpend' hsy⟩
        · simp only [crun, List.foldl_cons, List.foldl_nil, cstep, hpend', List.filterMap_append, h.vol,
            List.filterMap_cons, habsP, heff, Option.map_some, List.filterMap_nil]
        · simp only [crun, List.foldl_cons, List.foldl_nil, cstep, List.map_append, List.map_cons, List.map_nil]
          rw [hsy]
          apply h.syncs.change
          intro i hi s hs hic
          rcases List.mem_append.mp hi with hi | hi
          · exact hi
          · exact hfresh i hi s hs hic

/-- the Begin of a create / unlink -/
theorem sim_begin_dir {st st' : OrderSt} {cs : CState Content MetaRec WalRec LogRec} {ph nid : Nat}
    (h : Sim C st cs ph nid) (e : IoEv) (hd : beginDirOp st nid e = .ok st') : Sim C st' cs ph (nid + 1) := by
  obtain ⟨hsy, hp1, hph', hmid, hpend'⟩ := beginDirOp_ok st st' nid e hd
  exact h.push_none C (mkDirPend nid e) rfl (absP_none_of_file C _ rfl) hpend' hsy hph' hp1

theorem Sim.mono {st : OrderSt} {cs : CState Content MetaRec WalRec LogRec} {ph nid : Nat} (h : Sim C st cs ph nid) :
    Sim C st cs ph (nid + 1) :=
  ⟨h.vol, h.syncs, h.phase, h.ple, h.ph1,
    h.inv.shrink h.inv.nodup (fun q hq => ⟨q, hq, rfl, rfl⟩) (fun s hs => hs)⟩

/-- in phase 1 the machine has exactly one volatile effect -/
theorem Sim.vol_ph1 {st : OrderSt} {cs : CState Content MetaRec WalRec LogRec} {nid : Nat} (h : Sim C st cs 1 nid) :
    ∃ pm v, st.pend = [pm] ∧ pm.id = st.metaId ∧ pm.file = "meta" ∧ absP (LogRec := LogRec) C pm = some v ∧ cs.vol = [v] := by
  obtain ⟨pm, v, h1, h2, h3, h4⟩ := h.ph1 rfl
  refine ⟨pm, v, h1, h2, h3, h4, ?_⟩
  rw [h.vol, h1]
  simp [h4]

/-- the Begin of an fsync of a file without abstraction, or of a directory fsync -/
theorem Sim.push_sync_none {st st' : OrderSt} {cs : CState Content MetaRec WalRec LogRec} {ph nid : Nat}
    (h : Sim C st cs ph nid) (s : InFlight) (hnone : fileOf s.file = none)
    (hcov : ∀ i ∈ s.covers, ∃ q ∈ st.pend, q.id = i ∧ q.file = s.file)
    (hpend : st'.pend = st.pend) (hsy : st'.syncs = st.syncs ++ [s]) (hph : st'.phase = st.phase)
    (hmid : st'.metaId = st.metaId) : Sim C st' cs ph (nid + 1) := by
  refine ⟨by rw [hpend]; exact h.vol, by rw [hsy]; exact h.syncs.append_skip s hnone, by rw [hph]; exact h.phase,
    h.ple, ?_, h.inv.push_sync s hcov hpend hsy⟩
  intro h1
  rw [hpend, hmid]
  exact h.ph1 h1

theorem filter_cov_mem (pend : List Pend) (c : Pend → Bool) (i : Nat) (hi : i ∈ (pend.filter c).map (·.id)) :
    ∃ q ∈ pend, q.id = i ∧ c q = true := by
  obtain ⟨q, hq, rfl⟩ := List.mem_map.mp hi
  exact ⟨q, (List.mem_filter.mp hq).1, rfl, (List.mem_filter.mp hq).2⟩

/-- the Begin of an fsync -/
theorem sim_begin_fsync {st st' : OrderSt} {cs : CState Content MetaRec WalRec LogRec} {ph nid : Nat}
    (h : Sim C st cs ph nid) (file thread : String)
    (hpend : st'.pend = st.pend)
    (hsy : st'.syncs = st.syncs ++
      [{ file := file, thread := thread, covers := (st.pend.filter (fun p => p.file == file && p.ended)).map (·.id) }])
    (hph : st'.phase = st.phase) (hmid : st'.metaId = st.metaId) :
    Sim C st'
      (crun cs (match fileOf file with | some f => [CEv.fsyncBegin thread f] | none => []))
      (phRun ph cs (match fileOf file with | some f => [CEv.fsyncBegin thread f] | none => []))
      (nid + 1) := by
  have hcov : ∀ i ∈ (st.pend.filter (fun p => p.file == file && p.ended)).map (·.id),
      ∃ q ∈ st.pend, q.id = i ∧ q.file = file := by
    intro i hi
    obtain ⟨q, hq, hid, hc⟩ := filter_cov_mem st.pend _ i hi
    simp only [Bool.and_eq_true, beq_iff_eq] at hc
    exact ⟨q, hq, hid, hc.1⟩
  cases hff : fileOf file with
  | none => exact h.push_sync_none C _ hff hcov hpend hsy hph hmid
  | some f =>
    simp only
    have hnext : phRun ph cs [CEv.fsyncBegin (Content := Content) (MetaRec := MetaRec) (WalRec := WalRec)
        (LogRec := LogRec) thread f] = ph := rfl
    rw [hnext]
    refine ⟨by rw [hpend]; exact h.vol, ?_, by rw [hph]; exact h.phase, h.ple, ?_, h.inv.push_sync _ hcov hpend hsy⟩
    · simp only [crun, List.foldl_cons, List.foldl_nil, cstep]
      rw [hsy]
      apply h.syncs.append_cons _ _ hff rfl
      · intro i hi
        simp only [List.mem_map, List.mem_filter] at hi
        obtain ⟨v, ⟨hv, hc⟩, rfl⟩ := hi
        simp only [coverable, Bool.and_eq_true, decide_eq_true_eq] at hc
        obtain ⟨q, hq, hqv, hid⟩ := h.vol_mem C v hv
        have hqf := absP_file C q v hqv
        rw [hc.1] at hqf
        have hfile : q.file = file := fileOf_inj _ _ _ hqf hff
        have hend : q.ended = true := by rw [← (absP_some C q v hqv).2.1]; exact hc.2
        simp only [List.mem_map, List.mem_filter]
        exact ⟨q, ⟨hq, by simp [hfile, hend]⟩, hid.symm⟩
      · intro i hi hic
        obtain ⟨v, hv, rfl⟩ := List.mem_map.mp hi
        obtain ⟨q, hq, hqv, hid⟩ := h.vol_mem C v hv
        obtain ⟨q', hq', hid', hc⟩ := filter_cov_mem st.pend _ _ hic
        simp only [Bool.and_eq_true, beq_iff_eq] at hc
        have : q' = q := nodup_id_eq st.pend h.inv.nodup q' q hq' hq (by rw [hid', hid])
        subst this
        have hqf := absP_file C q' v hqv
        rw [hc.1, hff] at hqf
        have hvf : v.eff.file = f := by injection hqf with hqf; exact hqf.symm
        have hvend : v.ended = true := by rw [(absP_some C q' v hqv).2.1]; exact hc.2
        simp only [List.mem_map, List.mem_filter]
        exact ⟨v, ⟨hv, by simp [coverable, hvf, hvend]⟩, rfl⟩
    · intro h1
      rw [hpend, hmid]
      exact h.ph1 h1

/-- the End of a data operation -/
theorem sim_end_data {st st' : OrderSt} {cs : CState Content MetaRec WalRec LogRec} {ph nid : Nat}
    (h : Sim C st cs ph nid) (e : IoEv)
    (hpend : st'.pend = endEffect e st.pend) (hsy : st'.syncs = st.syncs) (hph : st'.phase = st.phase)
    (hmid : st'.metaId = st.metaId) :
    Sim C st'
      (crun cs (match firstMatch e st.pend with
        | some p => if (absP (LogRec := LogRec) C p).isSome = true then [CEv.effEnd p.id] else []
        | none => []))
      (phRun ph cs (match firstMatch e st.pend with
        | some p => if (absP (LogRec := LogRec) C p).isSome = true then [CEv.effEnd p.id] else []
        | none => []))
      (nid + 1) := by
  have hinv : MInv st' (nid + 1) := by
    apply h.inv.shrink
    · rw [hpend, endEffect_ids]; exact h.inv.nodup
    · intro q hq
      rw [hpend] at hq
      obtain ⟨p, hp, h1, h2, _⟩ := endEffect_mem e st.pend q hq
      exact ⟨p, hp, h1, h2⟩
    · intro s hs; rw [hsy] at hs; exact hs
  have hvol := endEffect_abs (LogRec := LogRec) C e st.pend h.inv.nodup
  have hph1 : ph = 1 → ∃ pm v, st'.pend = [pm] ∧ pm.id = st'.metaId ∧ pm.file = "meta" ∧
      absP (LogRec := LogRec) C pm = some v := by
    intro h1
    obtain ⟨pm, v, hp, hid, hfile, hab⟩ := h.ph1 h1
    rw [hpend, hp, hmid, endEffect_cons]
    split
    · exact ⟨{ pm with ended := true }, { v with ended := true }, rfl, hid, hfile, by rw [absP_setEnded, hab]; rfl⟩
    · exact ⟨pm, v, rfl, hid, hfile, hab⟩
  cases hm : firstMatch e st.pend with
  | none =>
    rw [hm] at hvol
    simp only at hvol ⊢
    exact ⟨by rw [hpend, hvol]; exact h.vol, by rw [hsy]; exact h.syncs, by rw [hph]; exact h.phase, h.ple, hph1, hinv⟩
  | some p =>
    rw [hm] at hvol
    simp only at hvol ⊢
    by_cases hs : (absP (LogRec := LogRec) C p).isSome = true
    · simp only [hs, if_true] at hvol ⊢
      have hnext : phRun ph cs [CEv.effEnd (Content := Content) (MetaRec := MetaRec) (WalRec := WalRec)
          (LogRec := LogRec) p.id] = ph := rfl
      rw [hnext]
      refine ⟨?_, ?_, by rw [hph]; exact h.phase, h.ple, hph1, hinv⟩
      · simp only [crun, List.foldl_cons, List.foldl_nil, cstep]
        rw [hpend, hvol, h.vol]
      · simp only [crun, List.foldl_cons, List.foldl_nil, cstep, markEnded_ids]
        rw [hsy]; exact h.syncs
    · simp only [hs, Bool.false_eq_true, if_false] at hvol ⊢
      exact ⟨by rw [hpend, hvol]; exact h.vol, by rw [hsy]; exact h.syncs, by rw [hph]; exact h.phase, h.ple, hph1, hinv⟩

/-- the End of an fsync that was issued before the trace started: nothing happens -/
theorem sim_end_sync_none {st : OrderSt} {cs : CState Content MetaRec WalRec LogRec} {ph nid : Nat}
    (h : Sim C st cs ph nid) (f thread : String) (ht : takeSync f thread st.syncs = none) :
    Sim C st
      (crun cs (match fileOf f with | some ff => [CEv.fsyncEnd thread ff] | none => []))
      (phRun ph cs (match fileOf f with | some ff => [CEv.fsyncEnd thread ff] | none => []))
      (nid + 1) := by
  cases hff : fileOf f with
  | none => exact h.mono C
  | some ff =>
    have hc := (takeSync_rel _ f thread ff hff _ _ h.syncs).1 ht
    have hcs : cstep cs (CEv.fsyncEnd thread ff) = cs := by simp only [cstep, hc]
    simp only [crun, List.foldl_cons, List.foldl_nil, phRun, hcs]
    have hnext : nextPhase ph cs (CEv.fsyncEnd (Content := Content) (MetaRec := MetaRec) (WalRec := WalRec)
        (LogRec := LogRec) thread ff) = ph := by
      simp only [nextPhase]
      split
      · rename_i hc1
        obtain ⟨rfl, hemp⟩ := hc1
        obtain ⟨pm, v, _, _, _, _, hv⟩ := h.vol_ph1 C
        rw [hv] at hemp; cases hemp
      · rfl
    rw [hnext]
    exact h.mono C

/-- the End of an fsync -/
theorem sim_end_sync_some {st st' : OrderSt} {cs : CState Content MetaRec WalRec LogRec} {ph nid : Nat}
    (h : Sim C st cs ph nid) (f thread : String) (cov : List Nat) (rest : List InFlight)
    (ht : takeSync f thread st.syncs = some (cov, rest))
    (hpend : st'.pend = st.pend.filter (fun p => !cov.contains p.id)) (hsy : st'.syncs = rest)
    (hph : st'.phase = if (st.phase == 1 && f == "meta" && cov.contains st.metaId) = true then 2 else st.phase)
    (hmid : st'.metaId = st.metaId) :
    Sim C st'
      (crun cs (match fileOf f with | some ff => [CEv.fsyncEnd thread ff] | none => []))
      (phRun ph cs (match fileOf f with | some ff => [CEv.fsyncEnd thread ff] | none => []))
      (nid + 1) := by
  obtain ⟨⟨s, hs, hsf, hsc⟩, hrestsub⟩ := takeSync_mem f thread st.syncs cov rest ht
  -- a pending effect the fsync covers belongs to the file of the fsync
  have hcovfile : ∀ p ∈ st.pend, cov.contains p.id = true → p.file = f := by
    intro p hp hc
    rw [← hsf]
    apply h.inv.cfile s hs p hp
    rw [hsc]
    simpa using hc
  have hinv : MInv st' (nid + 1) := by
    apply h.inv.shrink
    · rw [hpend]
      exact List.Nodup.sublist ((List.filter_sublist).map _) h.inv.nodup
    · intro q hq
      rw [hpend] at hq
      exact ⟨q, (List.mem_filter.mp hq).1, rfl, rfl⟩
    · intro s' hs'; rw [hsy] at hs'; exact hrestsub s' hs'
  cases hff : fileOf f with
  | none =>
    simp only
    have hvol : st'.pend.filterMap (absP (LogRec := LogRec) C) = st.pend.filterMap (absP C) := by
      rw [hpend]
      apply flush_abs_none
      intro p hp hc
      apply absP_none_of_file
      rw [hcovfile p hp hc]; exact hff
    have hfm : (f == "meta") = false := by
      cases hfm : f == "meta" with
      | false => rfl
      | true => rw [beq_iff_eq] at hfm; rw [hfm] at hff; cases hff
    have hph' : st'.phase = st.phase := by rw [hph]; simp [hfm]
    refine ⟨by rw [hvol]; exact h.vol, ?_, by rw [hph']; exact h.phase, h.ple, ?_, hinv⟩
    · rw [hsy]
      exact takeSync_rel_none _ f thread hff _ _ h.syncs cov rest ht
    · intro h1
      obtain ⟨pm, v, hp, hid, hfile, hab⟩ := h.ph1 h1
      have hnc : cov.contains pm.id = false := by
        cases hc : cov.contains pm.id with
        | false => rfl
        | true =>
          have := hcovfile pm (by rw [hp]; simp) hc
          rw [hfile] at this
          rw [← this] at hff; cases hff
      have hnm : ¬ pm.id ∈ cov := by simpa using hnc
      exact ⟨pm, v, by rw [hpend, hp]; simp [hnm], by rw [hmid]; exact hid, hfile, hab⟩
  | some ff =>
    simp only
    obtain ⟨ccov, crest, htake, hrel, hsub, hsup⟩ := (takeSync_rel _ f thread ff hff _ _ h.syncs).2 cov rest ht
    have hcs : cstep cs (CEv.fsyncEnd thread ff) = flush cs ff ccov crest := by simp only [cstep, htake]
    -- the monitor and the machine drop the same effects
    have hiff : ∀ p ∈ st.pend, ∀ v, absP (LogRec := LogRec) C p = some v →
        (cov.contains p.id = true ↔ covered ff ccov v = true) := by
      intro p hp v hpv
      have hvid := (absP_some C p v hpv).1
      have hvmem : v.id ∈ cs.vol.map (·.id) := by
        rw [h.vol]
        exact List.mem_map.mpr ⟨v, List.mem_filterMap.mpr ⟨p, hp, hpv⟩, rfl⟩
      constructor
      · intro hc
        have hpf := absP_file C p v hpv
        rw [hcovfile p hp hc, hff] at hpf
        have hvf : v.eff.file = ff := by injection hpf with hpf; exact hpf.symm
        have : v.id ∈ ccov := hsup v.id hvmem (by rw [hvid]; simpa using hc)
        simp [covered, hvf, this]
      · intro hc
        simp only [covered, Bool.and_eq_true, decide_eq_true_eq, List.contains_iff_mem] at hc
        have := hsub v.id hc.2
        rw [hvid] at this
        simpa using this
    have hvol : (flush cs ff ccov crest).vol = st'.pend.filterMap (absP (LogRec := LogRec) C) := by
      simp only [flush]
      rw [hpend, flush_abs C st.pend cov ccov ff hiff, h.vol]
    have hsyncs : SyncsRel ((flush cs ff ccov crest).vol.map (·.id)) st'.syncs (flush cs ff ccov crest).syncs := by
      rw [hsy]
      apply hrel.change
      intro i hi _ _ _
      simp only [flush] at hi
      obtain ⟨v, hv, rfl⟩ := List.mem_map.mp hi
      exact List.mem_map.mpr ⟨v, (List.mem_filter.mp hv).1, rfl⟩
    simp only [crun, List.foldl_cons, List.foldl_nil, phRun, hcs]
    by_cases hp1 : ph = 1
    · subst hp1
      obtain ⟨pm, v, hp, hid, hfile, hab, hv⟩ := h.vol_ph1 C
      have hst1 : st.phase = 1 := h.phase
      by_cases hc : cov.contains pm.id = true
      · -- the fsync covers the meta write: the switch-over is durable
        have hfm : f = "meta" := by rw [← hcovfile pm (by rw [hp]; simp) hc]; exact hfile
        have hm : pm.id ∈ cov := by simpa using hc
        have hpend' : st'.pend = [] := by rw [hpend, hp]; simp [hm]
        have hph' : st'.phase = 2 := by rw [hph, hst1, hfm, ← hid, hc]; rfl
        have hemp : (flush cs ff ccov crest).vol = [] := by rw [hvol, hpend']; rfl
        have hnext : nextPhase 1 (flush cs ff ccov crest) (CEv.fsyncEnd (Content := Content) (MetaRec := MetaRec)
            (WalRec := WalRec) (LogRec := LogRec) thread ff) = 2 := by
          simp [nextPhase, hemp]
        rw [hnext]
        exact ⟨hvol, hsyncs, hph', Nat.le_refl 2, fun h2 => by omega, hinv⟩
      · have hc' : cov.contains pm.id = false := by simpa using hc
        have hnm : ¬ pm.id ∈ cov := by simpa using hc'
        have hpend' : st'.pend = [pm] := by rw [hpend, hp]; simp [hnm]
        have hph' : st'.phase = 1 := by rw [hph, hst1, ← hid, hc']; simp
        have hne : (flush cs ff ccov crest).vol = [v] := by rw [hvol, hpend']; simp [hab]
        have hnext : nextPhase 1 (flush cs ff ccov crest) (CEv.fsyncEnd (Content := Content) (MetaRec := MetaRec)
            (WalRec := WalRec) (LogRec := LogRec) thread ff) = 1 := by
          simp [nextPhase, hne]
        rw [hnext]
        exact ⟨hvol, hsyncs, hph', by omega, fun _ => ⟨pm, v, hpend', by rw [hmid]; exact hid, hfile, hab⟩, hinv⟩
    · have hst : st.phase ≠ 1 := by rw [h.phase]; exact hp1
      have hph' : st'.phase = st.phase := by
        rw [hph]
        have : (st.phase == 1) = false := by simpa using hst
        simp [this]
      have hnext : nextPhase ph (flush cs ff ccov crest) (CEv.fsyncEnd (Content := Content) (MetaRec := MetaRec)
          (WalRec := WalRec) (LogRec := LogRec) thread ff) = ph := by
        simp [nextPhase, hp1]
      rw [hnext]
      exact ⟨hvol, hsyncs, by rw [hph']; exact h.phase, h.ple, fun h1 => absurd h1 hp1, hinv⟩

/-! ## The abstraction of a trace and the simulation theorem -/

/-- the file whose in-flight fsync an End line completes -/
def syncFile (e : IoEv) : String := if (e.kind == "DirSync") = true then "dir" else e.file

/-- the concurrent events (none or one) a line of the real trace stands for, in the monitor state `st` before it -/
def absLine (st : OrderSt) (id : Nat) (l : IoEv2) : List (CEv Content MetaRec WalRec LogRec) :=
  if l.isBegin = true then
    if isDataKind l.ev.kind = true then
      (match absEff C id l.ev.kind l.ev.file l.ev.offset with | some eff => [.effBegin id eff] | none => [])
    else if isDirKind l.ev.kind = true then []
    else if (l.ev.kind == "Fsync") = true then
      (match fileOf l.ev.file with | some f => [.fsyncBegin l.thread f] | none => [])
    else []
  else
    if isDataKind l.ev.kind = true then
      (match firstMatch l.ev st.pend with
        | some p => if (absP (LogRec := LogRec) C p).isSome = true then [.effEnd p.id] else []
        | none => [])
    else if (l.ev.kind == "Fsync" || l.ev.kind == "DirSync") = true then
      (match fileOf (syncFile l.ev) with | some ff => [.fsyncEnd l.thread ff] | none => [])
    else []

theorem cAll_opt_fsyncBegin (ph : Nat) (cs : CState Content MetaRec WalRec LogRec) (t : String) (o : Option File) :
    cAll ordChk ph cs (match o with | some f => [CEv.fsyncBegin t f] | none => []) := by
  cases o with
  | none => trivial
  | some f => exact ⟨trivial, trivial⟩

theorem cAll_opt_fsyncEnd (ph : Nat) (cs : CState Content MetaRec WalRec LogRec) (t : String) (o : Option File) :
    cAll ordChk ph cs (match o with | some f => [CEv.fsyncEnd t f] | none => []) := by
  cases o with
  | none => trivial
  | some f => exact ⟨trivial, trivial⟩

theorem cAll_opt_effEnd (ph : Nat) (cs : CState Content MetaRec WalRec LogRec) (c : Pend → Bool) (o : Option Pend) :
    cAll ordChk ph cs (match o with | some p => if c p = true then [CEv.effEnd p.id] else [] | none => []) := by
  cases o with
  | none => trivial
  | some p =>
    simp only
    split
    · exact ⟨trivial, trivial⟩
    · trivial

/-- **one line**: if the monitor accepts the line, its abstraction passes the order discipline in the corresponding
state and phase of the concurrent machine, and the states correspond again -/
theorem orderStep_sim {st st' : OrderSt} {cs : CState Content MetaRec WalRec LogRec} {ph nid : Nat}
    (h : Sim C st cs ph nid) (l : IoEv2) (hs : orderStep st nid l = .ok st') :
    cAll ordChk ph cs (absLine C st nid l) ∧
    Sim C st' (crun cs (absLine C st nid l)) (phRun ph cs (absLine C st nid l)) (nid + 1) := by
  unfold orderStep at hs
  simp only at hs
  unfold absLine
  by_cases hb : l.isBegin = true
  · simp only [hb, if_true] at hs ⊢
    by_cases hd : isDataKind l.ev.kind = true
    · simp only [hd, if_true] at hs ⊢
      exact sim_begin_data C h l.ev hd hs
    · simp only [hd, if_false] at hs ⊢
      by_cases hdir : isDirKind l.ev.kind = true
      · simp only [hdir, if_true] at hs ⊢
        exact ⟨trivial, sim_begin_dir C h l.ev hs⟩
      · simp only [hdir, if_false] at hs ⊢
        by_cases hf : (l.ev.kind == "Fsync") = true
        · simp only [hf, if_true] at hs ⊢
          injection hs with hs
          subst hs
          exact ⟨cAll_opt_fsyncBegin ph cs l.thread _, sim_begin_fsync C h l.ev.file l.thread rfl rfl rfl rfl⟩
        · simp only [hf, if_false] at hs ⊢
          refine ⟨trivial, ?_⟩
          by_cases hds : (l.ev.kind == "DirSync") = true
          · simp only [hds, if_true] at hs
            injection hs with hs
            subst hs
            refine h.push_sync_none C _ rfl ?_ rfl rfl rfl rfl
            intro i hi
            obtain ⟨q, hq, hid, hc⟩ := filter_cov_mem st.pend _ i hi
            simp only [beq_iff_eq] at hc
            exact ⟨q, hq, hid, hc⟩
          · simp only [hds, if_false] at hs
            injection hs with hs
            subst hs
            exact h.mono C
  · simp only [hb, if_false] at hs ⊢
    by_cases hd : isDataKind l.ev.kind = true
    · simp only [hd, if_true] at hs ⊢
      injection hs with hs
      subst hs
      exact ⟨cAll_opt_effEnd ph cs _ _, sim_end_data C h l.ev rfl rfl rfl rfl⟩
    · simp only [hd, if_false] at hs ⊢
      by_cases hf : (l.ev.kind == "Fsync" || l.ev.kind == "DirSync") = true
      · simp only [hf, if_true] at hs ⊢
        refine ⟨cAll_opt_fsyncEnd ph cs l.thread _, ?_⟩
        change (match takeSync (syncFile l.ev) l.thread st.syncs with
          | none => Except.ok st
          | some (cov, rest) => _) = Except.ok st' at hs
        cases ht : takeSync (syncFile l.ev) l.thread st.syncs with
        | none =>
          rw [ht] at hs
          injection hs with hs
          subst hs
          exact sim_end_sync_none C h _ _ ht
        | some x =>
          obtain ⟨cov, rest⟩ := x
          rw [ht] at hs
          injection hs with hs
          subst hs
          exact sim_end_sync_some C h _ _ cov rest ht rfl rfl rfl rfl
      · simp only [hf, if_false] at hs ⊢
        injection hs with hs
        subst hs
        exact ⟨trivial, h.mono C⟩

/-- the abstraction of a trace, along the monitor's run -/
def absTrace : OrderSt → Nat → List IoEv2 → List (CEv Content MetaRec WalRec LogRec)
  | _, _, [] => []
  | st, id, l :: rest =>
    match orderStep st id l with
    | .error _ => absLine C st id l
    | .ok st' => absLine C st id l ++ absTrace st' (id + 1) rest

/-- **the whole run**: if the monitor's scan accepts the trace, the abstracted concurrent trace passes the order
discipline from the corresponding state, and the final states and phases correspond -/
theorem orderRun_sim (tr : List IoEv2) : ∀ {st stf : OrderSt} {cs : CState Content MetaRec WalRec LogRec} {ph nid : Nat},
    Sim C st cs ph nid → orderRun st nid tr = .ok stf →
      cAll ordChk ph cs (absTrace C st nid tr) ∧
      Sim C stf (crun cs (absTrace C st nid tr)) (phRun ph cs (absTrace C st nid tr)) (nid + tr.length) := by
  induction tr with
  | nil =>
    intro st stf cs ph nid h hr
    simp only [orderRun] at hr
    injection hr with hr
    subst hr
    exact ⟨trivial, h⟩
  | cons l rest ih =>
    intro st stf cs ph nid h hr
    simp only [orderRun] at hr
    cases hstep : orderStep st nid l with
    | error msg => rw [hstep] at hr; cases hr
    | ok st1 =>
      rw [hstep] at hr
      obtain ⟨hc1, hs1⟩ := orderStep_sim C h l hstep
      obtain ⟨hc2, hs2⟩ := ih hs1 hr
      simp only [absTrace, hstep]
      rw [cAll_append, crun_append, phRun_append]
      refine ⟨⟨hc1, hc2⟩, ?_⟩
      have : nid + (l :: rest).length = nid + 1 + rest.length := by simp; omega
      rw [this]
      exact hs2

theorem minv_init (st : OrderSt) (hp : st.pend = []) (hs : st.syncs = []) : MInv st 0 := by
  refine ⟨?_, ?_, ?_, ?_⟩
  · intro p h; rw [hp] at h; cases h
  · intro s h; rw [hs] at h; cases h
  · rw [hp]; exact List.nodup_nil
  · intro s h; rw [hs] at h; cases h

/-- the monitor's initial state corresponds to the flushed disk in phase 0 -/
theorem sim_init (d0 : Disk Content MetaRec WalRec LogRec) : Sim C {} (cinit d0) 0 0 :=
  ⟨rfl, .nil, rfl, by omega, fun h => by omega, minv_init {} rfl rfl⟩

/-- the initial state of the recovery monitor corresponds to a flushed disk in phase 2 -/
theorem sim_init_recovery (d : Disk Content MetaRec WalRec LogRec) :
    Sim C { phase := 2, walWritten := true } (cinit d) 2 0 :=
  ⟨rfl, .nil, rfl, by omega, fun h => by omega, minv_init _ rfl rfl⟩

/-- **monitor ⇒ order discipline** (`checkOrder`): if the order monitor accepts the real trace `tr` of an operation, then
for every choice of contents and every start disk the abstracted concurrent trace passes the order discipline `ordChk`
from the flushed start state; the phase it ends in is the monitor's and is not 1 (the operation does not return with the
meta page volatile); what is left volatile is what the monitor reports as pending. -/
theorem checkOrder_ok_ordChk (tr : List IoEv2) (st : OrderSt) (h : checkOrder tr = .ok st)
    (d0 : Disk Content MetaRec WalRec LogRec) :
    cAll ordChk 0 (cinit d0) (absTrace C {} 0 tr) ∧
    phRun 0 (cinit d0) (absTrace (LogRec := LogRec) C {} 0 tr) = st.phase ∧ st.phase ≠ 1 ∧
    (crun (cinit d0) (absTrace C {} 0 tr)).vol = st.pend.filterMap (absP C) := by
  unfold checkOrder at h
  cases hr : orderRun {} 0 tr with
  | error msg => rw [hr] at h; cases h
  | ok st1 =>
    rw [hr] at h
    simp only at h
    split at h
    · cases h
    · rename_i hne
      injection h with h
      subst h
      obtain ⟨hc, hs⟩ := orderRun_sim C tr (sim_init C d0) hr
      refine ⟨hc, hs.phase.symm, ?_, hs.vol⟩
      simpa using hne

/-- **monitor ⇒ order discipline** (`checkRecoveryOrder`): the trace of a recovery passes the discipline of phase 2 -/
theorem checkRecoveryOrder_ok_ordChk (tr : List IoEv2) (st : OrderSt) (h : checkRecoveryOrder tr = .ok st)
    (d : Disk Content MetaRec WalRec LogRec) :
    cAll ordChk 2 (cinit d) (absTrace C { phase := 2, walWritten := true } 0 tr) ∧
    (crun (cinit d) (absTrace C { phase := 2, walWritten := true } 0 tr)).vol = st.pend.filterMap (absP C) := by
  unfold checkRecoveryOrder at h
  obtain ⟨hc, hs⟩ := orderRun_sim C tr (sim_init_recovery C d) h
  exact ⟨hc, hs.vol⟩

/-! ## Started with pending effects

The driver checks every operation's trace on its own, from the empty monitor state.  An operation really starts with
the effects the previous one left volatile (every sync leaves its WAL truncation un-synced: `left_volatile=1`).  The
simulation holds from any such start: the monitor state whose pending list is `pend0` corresponds to the concurrent state
with the abstraction of `pend0` volatile. -/

theorem sim_of_pending (pend0 : List Pend) (nid : Nat) (hlt : ∀ p ∈ pend0, p.id < nid)
    (hnd : (pend0.map (·.id)).Nodup) (d0 : Disk Content MetaRec WalRec LogRec) :
    Sim C { pend := pend0 } ⟨d0, pend0.filterMap (absP C), []⟩ 0 nid :=
  ⟨rfl, .nil, rfl, by omega, fun h => by omega,
    ⟨hlt, fun s h => (by cases h), hnd, fun s h => (by cases h)⟩⟩

/-- **monitor ⇒ order discipline, started with pending effects**: if the monitor's scan, started with the pending list
`pend0` (ids below `nid`, distinct), accepts the trace, the abstracted concurrent trace passes the order discipline from
the concurrent state in which the abstraction of `pend0` is volatile. -/
theorem orderRun_ok_ordChk_from (pend0 : List Pend) (nid : Nat) (hlt : ∀ p ∈ pend0, p.id < nid)
    (hnd : (pend0.map (·.id)).Nodup) (tr : List IoEv2) (st : OrderSt)
    (h : orderRun { pend := pend0 } nid tr = .ok st) (d0 : Disk Content MetaRec WalRec LogRec) :
    cAll ordChk 0 ⟨d0, pend0.filterMap (absP C), []⟩ (absTrace C { pend := pend0 } nid tr) ∧
    phRun 0 ⟨d0, pend0.filterMap (absP (LogRec := LogRec) C), []⟩ (absTrace C { pend := pend0 } nid tr) = st.phase ∧
    (crun ⟨d0, pend0.filterMap (absP C), []⟩ (absTrace C { pend := pend0 } nid tr)).vol = st.pend.filterMap (absP C) := by
  obtain ⟨hc, hs⟩ := orderRun_sim C tr (sim_of_pending C pend0 nid hlt hnd d0) h
  exact ⟨hc, hs.phase.symm, hs.vol⟩

end sim
end Nomt.Store
