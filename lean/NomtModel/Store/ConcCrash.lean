import NomtModel.Store.ConcOrder
/-!
# The crash theorem of `Store/Crash3.lean` for concurrent traces

Instantiates the bridge of `Store/ConcOrder.lean` with the clauses of `sync_crash_atomic` (T4.1): before the switch-over
`AllowedPre`, after it `AllowedPost`, and the WAL truncation begins only when the table — as the process sees it — holds
every diff of the WAL (`FullHt` of the view); together with the ORDER clause "no hash-table effect is volatile when the
truncation begins" that is `FullHt` of the durable disk, the hypothesis of `PostOK`.
-/
namespace NomtDisk
variable {Content MetaRec WalRec LogRec TreeAbs : Type}
variable (P : Params Content MetaRec WalRec TreeAbs)

/-- acceptance of a post-switch-over effect on the durable disk `d` (`EvPostOK` of `Store/Crash2.lean`) -/
def okPost (w1 : WalRec) (d : Disk Content MetaRec WalRec LogRec) : Eff Content MetaRec WalRec LogRec → Prop
  | .page f b c => f = File.fHt ∧ lookupD (P.walDiffs w1) b = some c
  | .walSet none => FullHt P w1 d
  | _ => False

theorem okPost_iff (w1 : WalRec) (s : Exec Content MetaRec WalRec LogRec) (e : Eff Content MetaRec WalRec LogRec) :
    okPost P w1 s.dur e ↔ EvPostOK P w1 s (.eff e) := by
  cases e with
  | page f b c => exact Iff.rfl
  | walSet w => cases w <;> exact Iff.rfl
  | setMeta m => exact Iff.rfl
  | logSet l => exact Iff.rfl

theorem postG_postOK (w1 : WalRec) (tr : List (Ev Content MetaRec WalRec LogRec)) :
    ∀ s : Exec Content MetaRec WalRec LogRec, PostG (okPost P w1) s tr → PostOK P w1 s tr := by
  induction tr with
  | nil => intro s _; trivial
  | cons ev tr ih =>
    intro s h
    cases ev with
    | eff e => exact ⟨(okPost_iff P w1 s e).mp h.1, ih _ h.2⟩
    | fsync f => exact ⟨trivial, ih _ h⟩

theorem okPost_allowedPost (w1 : WalRec) (d : Disk Content MetaRec WalRec LogRec)
    (e : Eff Content MetaRec WalRec LogRec) (h : okPost P w1 d e) : AllowedPost P w1 e := by
  cases e with
  | page f b c => exact h
  | walSet w => cases w with
    | none => trivial
    | some w => exact h
  | setMeta m => exact h
  | logSet l => exact h

/-- acceptability on the durable disk survives the flush of an acceptable effect -/
theorem okPost_stab (w1 : WalRec) (d d' : Disk Content MetaRec WalRec LogRec)
    (e e' : Eff Content MetaRec WalRec LogRec) (h : okPost P w1 d e) (h' : okPost P w1 d' e') :
    okPost P w1 (applyEff d e') e := by
  cases e with
  | page f b c => exact h
  | walSet w => cases w with
    | none => exact fullHt_applyEff P w1 d e' (okPost_allowedPost P w1 d' e' h') h
    | some w => exact h
  | setMeta m => exact h
  | logSet l => exact h

/-- the content clause of a post-switch-over effect: `AllowedPost`, and a truncation of the WAL begins only when the
table as the process sees it (every issued write applied) holds every diff of the WAL -/
def contPost (w1 : WalRec) (s : CState Content MetaRec WalRec LogRec) (e : Eff Content MetaRec WalRec LogRec) : Prop :=
  AllowedPost P w1 e ∧ (IsTrunc e → FullHt P w1 s.view)

theorem pages_applyEffs_other (f : File) (es : List (Eff Content MetaRec WalRec LogRec)) :
    ∀ (d : Disk Content MetaRec WalRec LogRec), (∀ e ∈ es, e.file ≠ f) → ∀ b, (applyEffs d es).pages f b = d.pages f b := by
  induction es with
  | nil => intro d _ b; rfl
  | cons e es ih =>
    intro d h b
    simp only [applyEffs, List.foldl_cons]
    have := ih (applyEff d e) (fun e' he' => h e' (by simp [he'])) b
    simp only [applyEffs] at this
    rw [this]
    have he := h e (by simp)
    cases e with
    | page f' pn c =>
      simp only [applyEff]
      have : ¬ (f = f' ∧ b = pn) := fun hh => he hh.1.symm
      rw [if_neg this]
    | setMeta m => rfl
    | walSet w => rfl
    | logSet l => rfl

/-- order + content ⇒ the acceptance the bridge uses -/
theorem acc_of_ord_cont (d0 : Disk Content MetaRec WalRec LogRec) (w1 : WalRec) (ph : Nat)
    (s : CState Content MetaRec WalRec LogRec) (ev : CEv Content MetaRec WalRec LogRec)
    (ho : ordChk ph s ev) (hc : contChk (AllowedPre P d0) (contPost P w1) ph s ev) :
    accChk (AllowedPre P d0) (okPost P w1) ph s ev := by
  cases ev with
  | effBegin id e =>
    cases hm : e.isMeta with
    | true => simpa [accChk, ordChk, hm] using ho
    | false =>
      simp only [ordChk, hm, Bool.false_eq_true, if_false] at ho
      simp only [contChk, hm, true_implies] at hc
      simp only [accChk, hm, Bool.false_eq_true, if_false]
      obtain ⟨h1, hht, hlb, hwal⟩ := ho
      rcases h1 with rfl | rfl
      · exact Or.inl ⟨rfl, hc.1 rfl⟩
      · right
        refine ⟨rfl, ?_⟩
        obtain ⟨hpost, htr⟩ := hc.2 rfl
        cases e with
        | page f b c => exact hpost
        | walSet w =>
          cases w with
          | some w => exact hpost
          | none =>
            have hfull := htr trivial
            have hno := hwal rfl rfl
            intro b c hl
            have := hfull b c hl
            simp only [CState.view] at this
            rw [pages_applyEffs_other File.fHt s.volEffs s.dur ?_ b] at this
            · exact this
            · intro e he
              simp only [CState.volEffs, List.mem_map] at he
              obtain ⟨v, hv, rfl⟩ := he
              exact hno v hv
        | setMeta m => exact hpost
        | logSet l => exact hpost
  | effEnd _ => trivial
  | fsyncBegin _ _ => trivial
  | fsyncEnd _ _ => trivial

theorem evA_evPre (d0 : Disk Content MetaRec WalRec LogRec) (ev : Ev Content MetaRec WalRec LogRec)
    (h : EvA (AllowedPre P d0) ev) : EvPre P d0 ev := by
  cases ev with
  | eff e => exact h
  | fsync f => trivial

/-- **the crash theorem for concurrent traces** (helper form; the property theorem is `Nomt.C04.T4_3…`): a concurrent
trace `cpre ++ [Begin of the meta write] ++ crest` that passes the order discipline `ordChk` and whose effects satisfy
the content clauses.  Every image of every prefix of the concurrent execution abstracts to the old or to the new state;
once the switch-over is durable (phase 2) at the end of the trace, to the new state.  Proof: linearise the prefix
(`run_lin`), the bridge gives the hypotheses of `sync_crash_atomic` (T4.1) for the linearisation. -/
theorem conc_sync_crash_atomic
    (d0 : Disk Content MetaRec WalRec LogRec)
    (hinert : ∀ b, htView P d0 b = d0.pages File.fHt b)
    (cpre crest : List (CEv Content MetaRec WalRec LogRec)) (id : Nat) (m1 : MetaRec) (w1 : WalRec)
    (hord : cAll ordChk 0 (cinit d0) (cpre ++ CEv.effBegin id (.setMeta m1) :: crest))
    (hcont : cAll (contChk (AllowedPre P d0) (contPost P w1)) 0 (cinit d0)
      (cpre ++ CEv.effBegin id (.setMeta m1) :: crest))
    (hwal : (crun (cinit d0) cpre).dur.wal = some w1)
    (hseq : P.walSeqn w1 = P.seqn m1) :
    (∀ cp, cp <+: cpre ++ CEv.effBegin id (.setMeta m1) :: crest →
       ∀ img, IsCImage (crun (cinit d0) cp) img →
         absOf P img = absOf P d0 ∨ absOf P img = absNew P (crun (cinit d0) cpre).dur m1 w1) ∧
    (phRun 0 (cinit d0) (cpre ++ CEv.effBegin id (.setMeta m1) :: crest) = 2 →
       ∀ img, IsCImage (crun (cinit d0) (cpre ++ CEv.effBegin id (.setMeta m1) :: crest)) img →
         absOf P img = absNew P (crun (cinit d0) cpre).dur m1 w1) := by
  have hacc : cAll (accChk (AllowedPre P d0) (okPost P w1)) 0 (cinit d0)
      (cpre ++ CEv.effBegin id (.setMeta m1) :: crest) :=
    cAll_mono _ _ (fun ph s ev h => acc_of_ord_cont P d0 w1 ph s ev h.1 h.2) _ _ _ (cAll_and _ _ _ _ _ hord hcont)
  obtain ⟨hpreA, hfl, hdur, hshape⟩ :=
    accepted_bridge (AllowedPre P d0) (okPost P w1) (okPost_stab P w1) d0 cpre crest id m1 hacc
  have hpre : ∀ ev ∈ lin d0 cpre, EvPre P d0 ev := fun ev hev => evA_evPre P d0 ev (hpreA ev hev)
  have hwal' : (run ⟨d0, []⟩ (lin d0 cpre)).dur.wal = some w1 := by rw [hdur]; exact hwal
  have key : ∀ cp, cp <+: cpre ++ CEv.effBegin id (.setMeta m1) :: crest →
      ∀ img, IsCImage (crun (cinit d0) cp) img →
        (absOf P img = absOf P d0 ∨ absOf P img = absNew P (crun (cinit d0) cpre).dur m1 w1) ∧
        (phRun 0 (cinit d0) cp = 2 → absOf P img = absNew P (crun (cinit d0) cpre).dur m1 w1) := by
    intro cp hcp img himg
    rw [isCImage_lin] at himg
    have hs := hshape cp hcp
    generalize lin d0 cp = l at hs himg
    generalize phRun 0 (cinit d0) cp = ph at hs
    rw [← hdur]
    cases hs with
    | before _ h =>
      have hA0 : InvA P d0 (⟨d0, []⟩ : Exec Content MetaRec WalRec LogRec) :=
        ⟨⟨rfl, fun _ _ _ => rfl, Or.inl rfl⟩, fun e he => by cases he⟩
      have := phaseA_images P d0 hinert _
        (invA_run P d0 l _ hA0 (fun ev hev => evA_evPre P d0 ev (h ev hev))) img himg
      exact ⟨Or.inl this, fun h0 => by omega⟩
    | issued =>
      have h41 := (sync_crash_atomic P d0 hinert (lin d0 cpre) [] m1 w1 hpre hfl hwal' hseq trivial).1
        (lin d0 cpre ++ [Ev.eff (.setMeta m1)])
        ⟨[Ev.fsync File.fMeta], by simp⟩ img himg
      exact ⟨h41, fun h0 => by omega⟩
    | durable post h =>
      have hpost : PostOK P w1 ⟨applyEff (run ⟨d0, []⟩ (lin d0 cpre)).dur (.setMeta m1), []⟩ post := by
        rw [hdur]; exact postG_postOK P w1 post _ h
      have h41 := (sync_crash_atomic P d0 hinert (lin d0 cpre) post m1 w1 hpre hfl hwal' hseq hpost).2 img himg
      exact ⟨Or.inr h41, fun _ => h41⟩
  exact ⟨fun cp hcp img himg => (key cp hcp img himg).1,
    fun hph img himg => (key _ (List.prefix_refl _) img himg).2 hph⟩

end NomtDisk
