import NomtModel.Store.BranchUpdModel
/-!
# Branch updater: the first `n` bits of a key (`top`), what the proofs ask of `prefix_len` / `separator_len` (`KFOK`)
-/
namespace Nomt.BranchUpd

theorem top_le_top {a b : Nat} (h : a ≤ b) (n : Nat) : top a n ≤ top b n := Nat.div_le_div_right h

/-- keys between two keys that share their first `n` bits share them too -/
theorem top_squeeze {a b c n : Nat} (hab : a ≤ b) (hbc : b ≤ c) (h : top a n = top c n) : top b n = top a n := by
  have h1 := top_le_top hab n
  have h2 := top_le_top hbc n
  omega

theorem lt_of_top_lt {a b n : Nat} (h : top a n < top b n) : a < b := by
  apply Nat.lt_of_not_le
  intro hle
  have := top_le_top hle n
  omega

/-- sharing `n` bits implies sharing `m ≤ n` bits -/
theorem top_shorter {a b n m : Nat} (hm : m ≤ n) (hn : n ≤ 256) (h : top a n = top b n) : top a m = top b m := by
  unfold top at *
  have e : 256 - m = (256 - n) + (n - m) := by omega
  rw [e, Nat.pow_add, ← Nat.div_div_eq_div_mul, ← Nat.div_div_eq_div_mul, h]

theorem top_full (a : Nat) : top a 256 = a := by simp [top]

structure KFOK (kf : KF) : Prop where
  pl_le : ∀ a b, kf.pl a b ≤ 256
  /-- two keys share their first `prefix_len` bits -/
  pl_top : ∀ a b, a < 2 ^ 256 → b < 2 ^ 256 → top a (kf.pl a b) = top b (kf.pl a b)
  sl_le : ∀ k, kf.sl k ≤ 256
  /-- a key above a key with the same first `p` bits has a one behind them -/
  sl_gt : ∀ a b p, a < b → b < 2 ^ 256 → p ≤ 256 → top a p = top b p → p < kf.sl b
  seeded : kf.seeded = 0

end Nomt.BranchUpd
