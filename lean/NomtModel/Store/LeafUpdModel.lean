import NomtModel.Generated.Constants
/-!
# The leaf stage of the B-tree update: mirror of `LeafUpdater`
(`nomt/src/beatree/ops/update/leaf_updater.rs`) and of the loop of `leaf_stage.rs::run_worker` that drives it.

A base leaf is its decoded content: the ascending list of `(key, cell bytes, is_overflow)` (`Entry`; the page layout
itself is the subject of `Store/LeafRt.lean`).  Keys are natural numbers (the big-endian value of the 32 key
bytes: byte-lexicographic order = numeric order, `T16_key_order_is_lex`).  Cell contents are opaque: the updater only
looks at their length (`CellSize`).  `separate` is a parameter `sepf` (the real one is mirrored in `Store/BitOps.lean`;
all that the proofs need is `SepOK`).

Conventions of the mirror
* `Vec<LeafOp>` + a position index is a zipper (`done`, `todo`): `ops[pos]` is the head of `todo`,
  `ops.insert(pos, x)` conses, `pos += 1` moves the head to `done`.
* `none` = the Rust code panics (debug build: arithmetic underflow, index out of bounds, `unwrap` on `None`, `assert!`,
  the explicit `panic!`s) — or a loop mirror ran out of fuel (proved impossible under the guard, and impossible at all
  for the fuel the callers pass).  An over-full leaf handed to `LeafBuilder` is `none` as well (the builder's offsets
  underflow or the cell pointers overwrite the cells).
* `BaseLeaf::find_key` uses `binary_search_by` of `std` on the cell pointers from `low` on; on ascending distinct keys its
  answer is determined (`Ok(i)` for the match, `Err(partition point)` otherwise) and that is what `findKey` computes.
-/
namespace Nomt.LeafUpd

/-! ## constants (`beatree/leaf/node.rs`, `beatree/ops/update/mod.rs`) -/

/-- `LEAF_NODE_BODY_SIZE` -/
def BODY : Nat := Nomt.Gen.LEAF_NODE_BODY_SIZE
/-- `MAX_LEAF_VALUE_SIZE` -/
def MAXV : Nat := Nomt.Gen.MAX_LEAF_VALUE_SIZE
/-- `LEAF_MERGE_THRESHOLD = LEAF_NODE_BODY_SIZE / 2` -/
def MERGE : Nat := BODY / 2
/-- `LEAF_BULK_SPLIT_THRESHOLD = (LEAF_NODE_BODY_SIZE * 9) / 5` -/
def BULK_THRESHOLD : Nat := (BODY * 9) / 5
/-- `LEAF_BULK_SPLIT_TARGET = (LEAF_NODE_BODY_SIZE * 3) / 4` -/
def BULK_TARGET : Nat := (BODY * 3) / 4

theorem BODY_eq : BODY = 4094 := by decide
theorem MAXV_eq : MAXV = 1332 := by decide
theorem MERGE_eq : MERGE = 2047 := by decide
theorem BULK_THRESHOLD_eq : BULK_THRESHOLD = 7369 := by decide
theorem BULK_TARGET_eq : BULK_TARGET = 3070 := by decide

/-! ## data -/

/-- the only thing the updater asks of a cell's bytes -/
class CellSize (V : Type) where
  size : V → Nat

instance : CellSize ByteArray := ⟨ByteArray.size⟩
/-- for examples: a value that is just its length -/
instance : CellSize Nat := ⟨id⟩

structure Entry (V : Type) where
  key : Nat
  val : V
  ovf : Bool
deriving DecidableEq, Repr

variable {V : Type} [CellSize V]

def Entry.size (e : Entry V) : Nat := CellSize.size e.val

/-- `leaf_node::body_size(n, value_size_sum)` -/
def bodySize (n sum : Nat) : Nat := n * 34 + sum

/-- `LeafGauge` -/
structure Gauge where
  n : Nat := 0
  sum : Nat := 0
deriving DecidableEq, Repr

def Gauge.ingest (g : Gauge) (n vs : Nat) : Gauge := ⟨g.n + n, g.sum + vs⟩
def Gauge.bodyAfter (g : Gauge) (n vs : Nat) : Nat := bodySize (g.n + n) (g.sum + vs)
def Gauge.body (g : Gauge) : Nat := bodySize g.n g.sum

/-- `BaseLeaf` -/
structure Base (V : Type) where
  ents : List (Entry V)
  sep : Nat
  low : Nat := 0
deriving DecidableEq, Repr

/-- `LeafOp` -/
inductive Op (V : Type) where
  | ins (e : Entry V)
  | keep (f t vs : Nat)
deriving DecidableEq, Repr

/-- the fields of `LeafUpdater` (without the page pool) -/
structure St (V : Type) where
  base : Option (Base V) := none
  cutoff : Option Nat := none
  sepOv : Option Nat := none
  ops : List (Op V) := []
  gauge : Gauge := {}
deriving DecidableEq, Repr

/-- what `handle_new_leaf(separator, node, cutoff)` receives -/
structure Leaf (V : Type) where
  sep : Nat
  ents : List (Entry V)
  cutoff : Option Nat
deriving DecidableEq, Repr

inductive DigestResult where
  | needsMerge (cutoff : Nat)
  | finished
deriving DecidableEq, Repr

/-- entries `f … t-1` -/
def slice (l : List α) (f t : Nat) : List α := (l.drop f).take (t - f)

def total (l : List (Entry V)) : Nat := (l.map Entry.size).sum

/-- `LeafNode::values_size(from, to)` (callers make sure `from < to ≤ n`) -/
def valuesSize (ents : List (Entry V)) (f t : Nat) : Nat := total (slice ents f t)

/-! ## `LeafUpdater::new`, `is_in_scope`, `reset_base`, `remove_cutoff`, `separator` -/

def St.new (base : Option (Base V)) (cutoff : Option Nat) : St V := { base := base, cutoff := cutoff }

def inScope (st : St V) (key : Nat) : Bool :=
  match st.cutoff with
  | none => true
  | some k => decide (key < k)

def resetBase (st : St V) (base : Option (Base V)) (cutoff : Option Nat) : St V :=
  { st with base := base, cutoff := cutoff }

def removeCutoff (st : St V) : St V := { st with cutoff := none }

/-- the first leaf always gets a separator of all 0 -/
def separator (st : St V) : Nat :=
  match st.sepOv with
  | some s => s
  | none => match st.base with
    | some b => b.sep
    | none => 0

/-! ## `BaseLeaf::find_key`, `keep_up_to`, `ingest` -/

/-- `(answer, base with the new low)` -/
def findKey (b : Base V) (key : Nat) : Option (Bool × Nat) × Base V :=
  if b.low == b.ents.length then (none, b) else
  let rest := b.ents.drop b.low
  let pos := rest.findIdx (fun e => decide (key ≤ e.key))
  match rest[pos]? with
  | some e =>
    if e.key == key then (some (true, b.low + pos), { b with low := b.low + pos + 1 })
    else (some (false, b.low + pos), { b with low := b.low + pos })
  | none => (some (false, b.low + pos), { b with low := b.low + pos })

/-- the cells handed to `with_deleted_overflow` by one call -/
def overflowOf (b : Base V) (found : Bool) (to : Nat) : List V :=
  if found then
    match b.ents[to]? with      -- `base.cell(to)`: in range whenever `found`
    | some e => if e.ovf then [e.val] else []
    | none => []
  else []

/-- `keep_up_to(up_to, with_deleted_overflow)`; `old = true` is the code before the repair of F10
(`if from == to { return }` in front of the overflow callback) -/
def keepUpToG (old : Bool) (st : St V) (upTo : Option Nat) : St V × List V :=
  match st.base with
  | none => (st, [])
  | some b =>
    let f := b.low
    let r : Option (Bool × Nat × Base V) :=
      match upTo with
      | none => if f == b.ents.length then none else some (false, b.ents.length, { b with low := b.ents.length })
      | some k =>
        match findKey b k with
        | (some (found, to), b') => some (found, to, b')
        | (none, _) => none
    match r with
    | none => (st, [])
    | some (found, to, b') =>
      if f != to then
        let vs := valuesSize b.ents f to
        ({ st with base := some b', ops := st.ops ++ [.keep f to vs], gauge := st.gauge.ingest (to - f) vs },
          overflowOf b found to)
      else
        ({ st with base := some b' }, if old then [] else overflowOf b found to)

def keepUpTo (st : St V) (upTo : Option Nat) : St V × List V := keepUpToG false st upTo

/-- `ingest(key, value_change, overflow, with_deleted_overflow)`: the new state and the callback log -/
def ingestG (old : Bool) (st : St V) (key : Nat) (ch : Option (V × Bool)) : St V × List V :=
  let (st1, log) := keepUpToG old st (some key)
  match ch with
  | some (v, o) =>
    ({ st1 with gauge := st1.gauge.ingest 1 (CellSize.size v), ops := st1.ops ++ [.ins ⟨key, v, o⟩] }, log)
  | none => (st1, log)

def ingest (st : St V) (key : Nat) (ch : Option (V × Bool)) : St V × List V := ingestG false st key ch

/-! ## `try_split_keep_chunk`, `extract_insert_from_keep_chunk`, `consume_and_update_until` -/

/-- the `for pos in from..to` loop of `try_split_keep_chunk`: `(left_chunk_n_items, left_chunk_values_size)` -/
def splitLoop (b : Base V) (g : Gauge) (target limit : Nat) : (cnt pos n vs : Nat) → Option (Nat × Nat)
  | 0, _, n, vs => some (n, vs)
  | cnt + 1, pos, n, vs =>
    match b.ents[pos]? with
    | none => none                      -- `base.cell(pos)` out of range
    | some e =>
      let vs' := vs + e.size
      let n' := n + 1
      let after := g.bodyAfter n' vs'
      if after ≥ target then
        (if after > limit then some (n, vs) else some (n', vs'))
      else splitLoop b g target limit cnt (pos + 1) n' vs'

/-- `try_split_keep_chunk(base, gauge, ops, index, target, limit)` with `ops[index..] = todo` -/
def trySplit (b : Base V) (g : Gauge) (todo : List (Op V)) (target limit : Nat) :
    Option (Nat × Nat × List (Op V)) :=
  match todo with
  | .keep f t vs :: rest =>
    match splitLoop b g target limit (t - f) f 0 0 with
    | none => none
    | some (ln, lvs) =>
      if ln != 0 && t - f != ln then
        if vs < lvs then none             -- `values_size - left_chunk_values_size` underflows
        else some (ln, lvs, .keep f (f + ln) lvs :: .keep (f + ln) t (vs - lvs) :: rest)
      else some (ln, lvs, todo)
  | _ => none                             -- "Attempted to split non `LeafOp::KeepChunk` operation"

/-- `extract_insert_from_keep_chunk(index)` with `ops[index..] = todo` -/
def extractInsert (b? : Option (Base V)) (todo : List (Op V)) : Option (List (Op V)) :=
  match todo with
  | .keep f t vs :: rest =>
    match b? with
    | none => none                        -- `self.base.as_ref().unwrap()`
    | some b =>
      match b.ents[f]? with
      | none => none                      -- `base.node.key(from)`
      | some e =>
        if t == 0 then none               -- `to - 1`
        else if f == t - 1 then some (.ins e :: rest)
        else if vs < e.size then none     -- `values_size - value.len()`
        else some (.ins e :: .keep (f + 1) t (vs - e.size) :: rest)
  | _ => none                             -- "Attempted to extract `LeafOp::Insert` from non `LeafOp::KeepChunk` operation"

/-- the `while` loop of `consume_and_update_until`: `(gauge, done, todo, from_below_target_to_overfull)` -/
def consumeLoop (b? : Option (Base V)) (target : Nat) :
    (fuel : Nat) → Gauge → (done todo : List (Op V)) → Option (Gauge × List (Op V) × List (Op V) × Bool)
  | 0, _, _, _ => none
  | fuel + 1, g, done, todo =>
    match todo with
    | [] => some (g, done, [], false)
    | op :: rest =>
      if g.body ≥ target then some (g, done, todo, false) else
      match op with
      | .ins e =>
        if g.bodyAfter 1 e.size > BODY then some (g, done, todo, true)
        else consumeLoop b? target fuel (g.ingest 1 e.size) (done ++ [op]) rest
      | .keep f t vs =>
        if t < f then none                -- `to - from`
        else if g.bodyAfter (t - f) vs > target then
          match b? with
          | none => none                  -- `self.base.as_ref().unwrap()`
          | some b =>
            match trySplit b g todo target BODY with
            | none => none
            | some (ln, lvs, todo') =>
              if ln == 0 then
                match extractInsert b? todo' with
                | none => none
                | some todo'' => consumeLoop b? target fuel g done todo''
              else
                match todo' with
                | op' :: rest' => consumeLoop b? target fuel (g.ingest ln lvs) (done ++ [op']) rest'
                | [] => none
        else consumeLoop b? target fuel (g.ingest (t - f) vs) (done ++ [op]) rest

/-- number of items an op stands for -/
def Op.count : Op V → Nat
  | .ins _ => 1
  | .keep f t _ => t - f

def opsCount (ops : List (Op V)) : Nat := (ops.map Op.count).sum

/-- `consume_and_update_until(from, target)` with `ops[from..] = todo`.
`some (done, todo', g, true)`: `Some(done.length)`, the leaf is built from `done`; `some (done, todo', g, false)`: `None`,
`self.gauge = g`. -/
def consume (b? : Option (Base V)) (todo : List (Op V)) (target : Nat) :
    Option (List (Op V) × List (Op V) × Gauge × Bool) :=
  if target < MERGE then none             -- `assert!(target >= LEAF_MERGE_THRESHOLD)`
  else
    match consumeLoop b? target (2 * opsCount todo + 2) {} [] todo with
    | none => none
    | some (g, done, todo', flag) => some (done, todo', g, decide (g.body ≥ target) || flag)

/-! ## `build_leaf` (through `LeafBuilder`), `op_first_key`, `try_build_leaves` -/

/-- the entries an op contributes to a leaf; `none`: `push_chunk` / `finish` would go wrong -/
def opEnts (b? : Option (Base V)) : Op V → Option (List (Entry V))
  | .ins e => some [e]
  | .keep f t vs =>
    match b? with
    | none => none
    | some b =>
      if f < t ∧ t ≤ b.ents.length ∧ vs = valuesSize b.ents f t then some (slice b.ents f t) else none

def opsEnts (b? : Option (Base V)) : List (Op V) → Option (List (Entry V))
  | [] => some []
  | op :: rest =>
    match opEnts b? op, opsEnts b? rest with
    | some a, some r => some (a ++ r)
    | _, _ => none

/-- `build_leaf(ops)`: the content of the node `LeafBuilder` produces -/
def buildLeaf (b? : Option (Base V)) (ops : List (Op V)) : Option (List (Entry V)) :=
  match opsEnts b? ops with
  | none => none
  | some ents => if bodySize ents.length (total ents) > BODY then none else some ents

def opFirstKey (b? : Option (Base V)) : Op V → Option Nat
  | .ins e => some e.key
  | .keep f _ _ =>
    match b? with
    | none => none
    | some b => (b.ents[f]?).map (·.key)

/-- the `while let Some(item_count) = …` loop of `try_build_leaves`; `first` = (`start == 0`) -/
def buildLoop (sepf : Nat → Nat → Option Nat) (target : Nat) :
    (fuel : Nat) → St V → (first : Bool) → List (Leaf V) → Option (St V × List (Leaf V))
  | 0, _, _, _ => none
  | fuel + 1, st, first, acc =>
    match consume st.base st.ops target with
    | none => none
    | some (done, todo, g, false) => some ({ st with ops := done ++ todo, gauge := g }, acc)
    | some (done, todo, _, true) =>
      let sepr? : Option Nat := if first then some (separator st) else st.sepOv   -- `take().unwrap()`
      let st1 : St V := if first then st else { st with sepOv := none }
      match sepr?, buildLeaf st.base done with
      | some sepr, some ents =>
        let ov? : Option (Option Nat) :=
          match todo.head? with
          | none => some st1.sepOv
          | some op =>
            match opFirstKey st.base op, ents.getLast? with   -- `new_node.key(new_node.n() - 1)`
            | some next, some last => (sepf last.key next).map some
            | _, _ => none
        match ov? with
        | none => none
        | some ov =>
          let cut := match ov with | some s => some s | none => st.cutoff
          buildLoop sepf target fuel { st1 with sepOv := ov, ops := todo } false (acc ++ [⟨sepr, ents, cut⟩])
      | _, _ => none

/-- `try_build_leaves(new_leaves, target)` -/
def tryBuildLeaves (sepf : Nat → Nat → Option Nat) (st : St V) (target : Nat) : Option (St V × List (Leaf V)) :=
  buildLoop sepf target (opsCount st.ops + 2) st true []

/-! ## `prepare_merge_ops`, `digest` -/

def keyCells (b : Base V) : (cnt pos : Nat) → Option (List (Op V))
  | 0, _ => some []
  | cnt + 1, pos =>
    match b.ents[pos]?, keyCells b cnt (pos + 1) with       -- `base.key_cell(pos)`
    | some e, some r => some (.ins e :: r)
    | _, _ => none

/-- every `KeepChunk` replaced in place by the `Insert`s of its cells -/
def mergeOps (b : Base V) : List (Op V) → Option (List (Op V))
  | [] => some []
  | .ins e :: rest => (mergeOps b rest).map (.ins e :: ·)
  | .keep f t _ :: rest =>
    if t ≤ f then none                    -- `to - from - 1`
    else
      match keyCells b (t - f) f, mergeOps b rest with
      | some a, some r => some (a ++ r)
      | _, _ => none

def prepareMergeOps (st : St V) : Option (St V) :=
  match st.base with
  | none => some st
  | some b => (mergeOps b st.ops).map fun ops => { st with ops := ops }

/-- the two `try_build_leaves` calls of `digest` (bulk split, split) -/
def digestBuild (sepf : Nat → Nat → Option Nat) (st : St V) : Option (St V × List (Leaf V)) :=
  let r1 := if st.gauge.body > BULK_THRESHOLD then tryBuildLeaves sepf st BULK_TARGET else some (st, [])
  match r1 with
  | none => none
  | some (st, l1) =>
    let r2 := if st.gauge.body > BODY then tryBuildLeaves sepf st (st.gauge.body / 2) else some (st, [])
    match r2 with
    | none => none
    | some (st, l2) => some (st, l1 ++ l2)

/-- the separator override of a leaf that needs a merge: the pending one, else
`self.base.as_ref().unwrap().separator` (`none`: the `unwrap` panics) -/
def mergeSep (st : St V) : Option Nat :=
  match st.sepOv with
  | some s => some s
  | none => st.base.map (·.sep)

/-- `digest(new_leaves)`: the new state, the leaves handed to `handle_new_leaf` in order, the result -/
def digest (sepf : Nat → Nat → Option Nat) (st : St V) : Option (St V × List (Leaf V) × DigestResult) :=
  match digestBuild sepf (keepUpTo st none).1 with
  | none => none
  | some (st, ls) =>
    if st.gauge.body == 0 then some ({ st with sepOv := none }, ls, .finished)
    else if st.gauge.body ≥ MERGE || st.cutoff.isNone then
      match buildLeaf st.base st.ops with
      | none => none
      | some ents =>
        some ({ st with ops := [], gauge := {}, sepOv := none },
          ls ++ [⟨separator st, ents, st.cutoff⟩], .finished)
    else
      match mergeSep st, prepareMergeOps { st with sepOv := mergeSep st }, st.cutoff with
      | some _, some st', some c => some (st', ls, .needsMerge c)
      | _, _, _ => none

/-! ## the loop of `leaf_stage.rs::run_worker` (one worker over the whole tree, no range extension) -/

/-- a leaf of the tree before the update: its separator in the branch level and its content -/
structure DbLeaf (V : Type) where
  sep : Nat
  ents : List (Entry V)
deriving DecidableEq, Repr

/-- the leaves of the tree after the update, left to right -/
inductive OutLeaf (V : Type) where
  | old (l : DbLeaf V)
  | new (l : Leaf V)
deriving DecidableEq, Repr

def OutLeaf.ents : OutLeaf V → List (Entry V)
  | .old l => l.ents
  | .new l => l.ents

def OutLeaf.sep : OutLeaf V → Nat
  | .old l => l.sep
  | .new l => l.sep

structure Run (V : Type) where
  st : St V := {}
  /-- the leaves right of the current base -/
  rest : List (DbLeaf V)
  out : List (OutLeaf V) := []
  log : List V := []

/-- `indexed_leaf(key)` among the leaves right of the current one: the leaves in front of the one covering `key` are not
touched -/
def skipTo (key : Nat) : List (DbLeaf V) → List (DbLeaf V) × List (DbLeaf V)
  | a :: b :: rest =>
    if b.sep ≤ key then
      let r := skipTo key (b :: rest)
      (a :: r.1, r.2)
    else ([], a :: b :: rest)
  | l => ([], l)

/-- `reset_leaf_base(.., key)`: point the updater at the leaf covering `key` (nothing happens on an empty tree) -/
def resetTo (key : Nat) (r : Run V) : Run V :=
  match skipTo key r.rest with
  | (skipped, l :: rest') =>
    { r with st := resetBase r.st (some { ents := l.ents, sep := l.sep }) (rest'.head?.map (·.sep)),
             rest := rest', out := r.out ++ skipped.map .old }
  | (_, []) => r

/-- `while !leaf_updater.is_in_scope(&key) { digest; reset_leaf_base }` -/
def scopeLoop (sepf : Nat → Nat → Option Nat) (key : Nat) : (fuel : Nat) → Run V → Option (Run V)
  | 0, _ => none
  | fuel + 1, r =>
    if inScope r.st key then some r else
    match digest sepf r.st with
    | none => none
    | some (st', leaves, res) =>
      let k := match res with | .needsMerge c => c | .finished => key
      scopeLoop sepf key fuel (resetTo k { r with st := st', out := r.out ++ leaves.map .new })

def runChanges (sepf : Nat → Nat → Option Nat) : List (Nat × Option (V × Bool)) → Run V → Option (Run V)
  | [], r => some r
  | (key, ch) :: cs, r =>
    match scopeLoop sepf key (r.rest.length + 1) r with
    | none => none
    | some r =>
      let (st, log) := ingest r.st key ch
      runChanges sepf cs { r with st := st, log := r.log ++ log }

/-- `while let NeedsMerge(cutoff) = digest { reset_leaf_base(cutoff) }` -/
def finishLoop (sepf : Nat → Nat → Option Nat) : (fuel : Nat) → Run V → Option (Run V)
  | 0, _ => none
  | fuel + 1, r =>
    match digest sepf r.st with
    | none => none
    | some (st', leaves, res) =>
      let r' := { r with st := st', out := r.out ++ leaves.map .new }
      match res with
      | .finished => some r'
      | .needsMerge c => finishLoop sepf fuel (resetTo c r')

/-- the whole leaf stage: the leaves of the new tree left to right and the overflow cells handed to
`with_deleted_overflow`, in order -/
def runWorker (sepf : Nat → Nat → Option Nat) (db : List (DbLeaf V)) (cs : List (Nat × Option (V × Bool))) :
    Option (List (OutLeaf V) × List V) :=
  match cs with
  | [] => some (db.map .old, [])
  | (k, _) :: _ =>
    match runChanges sepf cs (resetTo k { rest := db }) with
    | none => none
    | some r =>
      match finishLoop sepf (r.rest.length + 1) r with
      | none => none
      | some r => some (r.out ++ r.rest.map .old, r.log)

end Nomt.LeafUpd
