import NomtModel.Store.SegOps
/-!
# `append` computed on a consistent state

Without roll-over (`file_size < max_segment_size`) and with roll-over (a new segment `i0 + d.length`): the effects in
order, the directory and the in-memory state afterwards; `Inv` is kept, the records grow by the appended one.
-/
namespace Nomt.Seg

theorem Inv.split {L : Log} {d : Dir} {i0 a : Nat} (I : Inv L d i0 a) :
    ∃ base hid recs0, d = base ++ [(hid, ⟨recs0, none⟩)] ∧ recs0 ≠ [] := by
  obtain ⟨x, hx⟩ : ∃ x, d.getLast? = some x := by
    cases h : d.getLast? with
    | none => exact absurd (List.getLast?_eq_none_iff.mp h) I.hne
    | some x => exact ⟨x, rfl⟩
  obtain ⟨base, hb⟩ := List.getLast?_eq_some_iff.mp hx
  obtain ⟨ht, hr⟩ := I.hclean x (by rw [hb]; simp)
  obtain ⟨hid, recs0, torn⟩ := x
  simp only at ht hr
  subst ht
  exact ⟨base, hid, recs0, hb, hr⟩

theorem segIds_last_any (i : Nat) (base : Dir) (hid : Nat) (f : SegFile) (h : SegIdsFrom i (base ++ [(hid, f)])) :
    ∀ g, SegIdsFrom i (base ++ [(hid, g)]) := by
  intro g
  rw [segIdsFrom_append] at h ⊢
  exact ⟨h.1, h.2.1, trivial⟩

def afterAppend (L : Log) (rid next : Nat) : Log :=
  { L with
    endLive := rid
    startLive := if L.startLive = 0 then rid else L.startLive
    segs := setLast (fun s => { s with min := if s.min = 0 then rid else s.min, max := rid }) L.segs
    head := some next }

theorem append_noroll (L : Log) (i0 a : Nat) (base : Dir) (hid : Nat) (recs0 : List Rec) (p : List UInt8)
    (I : Inv L (base ++ [(hid, ⟨recs0, none⟩)]) i0 a) (hp : p.length ≤ MAXPAY) (hroom : recsSize recs0 < L.maxSeg) :
    append L (base ++ [(hid, ⟨recs0, none⟩)]) p =
      ⟨withTail base hid recs0 ⟨L.endLive + 1, p⟩ (Rec.size ⟨L.endLive + 1, p⟩),
       afterAppend L (L.endLive + 1) (recsSize recs0 + Rec.size ⟨L.endLive + 1, p⟩),
       appendEffs hid (recsSize recs0) ⟨L.endLive + 1, p⟩, .ok (L.endLive + 1)⟩ := by
  have hp' : ¬ p.length > MAXPAY := by omega
  have hhead : L.head = some (recsSize recs0) := by
    rw [I.hhead]; simp [SegFile.size, tornLen]
  have hdec : decide (L.maxSeg ≤ recsSize recs0) = false := by simp; omega
  have hlast : L.segs.getLast? = some (metaOf (hid, ⟨recs0, none⟩)) := by rw [I.hsegs]; simp
  have hnext : nextPos (recsSize recs0 + HDR) p.length = recsSize recs0 + Rec.size ⟨L.endLive + 1, p⟩ :=
    nextPos_aligned _ _ (recsSize_mod recs0)
  obtain ⟨j, _, _, hj, himg⟩ := appendEffs_images i0 base hid recs0 ⟨L.endLive + 1, p⟩
    (segIds_last_any i0 base hid _ I.hseg) 4
  have hj' := hj (by omega)
  subst hj'
  have htk : (appendEffs hid (recsSize recs0) ⟨L.endLive + 1, p⟩).take 4 = appendEffs hid (recsSize recs0) ⟨L.endLive + 1, p⟩ := by
    simp [appendEffs]
  rw [htk] at himg
  unfold append
  simp only [hp', if_false, hhead, hdec, Bool.false_eq_true, hlast]
  unfold appendWrite
  simp only [hnext, List.append_nil, Bool.false_eq_true, if_false, List.nil_append]
  have : (metaOf (hid, (⟨recs0, none⟩ : SegFile))).id = hid := rfl
  simp only [this]
  have heffs : [FsEff.write hid ⟨L.endLive + 1, p⟩ HDR, .write hid ⟨L.endLive + 1, p⟩ (HDR + p.length),
      .setLen hid (recsSize recs0 + Rec.size ⟨L.endLive + 1, p⟩), .fsync hid] =
      appendEffs hid (recsSize recs0) ⟨L.endLive + 1, p⟩ := rfl
  rw [heffs, himg]
  rfl

theorem lookup_none_beyond (i : Nat) (d : Dir) (nid : Nat) (h : SegIdsFrom i d) (hn : i + d.length ≤ nid) :
    lookup d nid = none := by
  have : d.find? (fun x => decide (x.1 = nid)) = none := by
    rw [List.find?_eq_none]
    intro x hx
    have := segIdsFrom_mem d i h x hx
    simp; omega
  simp [lookup, this]

theorem append_roll (L : Log) (i0 a : Nat) (base : Dir) (hid : Nat) (recs0 : List Rec) (p : List UInt8)
    (I : Inv L (base ++ [(hid, ⟨recs0, none⟩)]) i0 a) (hp : p.length ≤ MAXPAY) (hfull : L.maxSeg ≤ recsSize recs0) :
    append L (base ++ [(hid, ⟨recs0, none⟩)]) p =
      ⟨withTail (base ++ [(hid, ⟨recs0, none⟩)]) (i0 + (base.length + 1)) [] ⟨L.endLive + 1, p⟩ (Rec.size ⟨L.endLive + 1, p⟩),
       afterAppend { L with segs := L.segs ++ [⟨i0 + (base.length + 1), L.endLive + 1, L.endLive + 1⟩], head := some 0 }
         (L.endLive + 1) (Rec.size ⟨L.endLive + 1, p⟩),
       [.create (i0 + (base.length + 1))] ++ (appendEffs (i0 + (base.length + 1)) 0 ⟨L.endLive + 1, p⟩ ++ [.dirsync]),
       .ok (L.endLive + 1)⟩ := by
  have hp' : ¬ p.length > MAXPAY := by omega
  have hhead : L.head = some (recsSize recs0) := by
    rw [I.hhead]; simp [SegFile.size, tornLen]
  have hdec : decide (L.maxSeg ≤ recsSize recs0) = true := by simp; omega
  have hlast : L.segs.getLast? = some (metaOf (hid, ⟨recs0, none⟩)) := by rw [I.hsegs]; simp
  have hhid : hid = i0 + base.length := ((segIdsFrom_append base _ i0).mp I.hseg).2.1
  have h32 := I.hid32
  simp only [List.length_append, List.length_cons, List.length_nil] at h32
  have hgen : genSegmentId L.segs = i0 + (base.length + 1) := by
    unfold genSegmentId
    rw [hlast]
    show (hid + 1) % U32 = _
    rw [hhid]
    have h : i0 + base.length + 1 < U32 := by omega
    rw [Nat.mod_eq_of_lt h]; omega
  have hlook : lookup (base ++ [(hid, (⟨recs0, none⟩ : SegFile))]) (i0 + (base.length + 1)) = none :=
    lookup_none_beyond i0 _ _ I.hseg (by simp)
  have hnext : nextPos (0 + HDR) p.length = Rec.size ⟨L.endLive + 1, p⟩ := by
    have := nextPos_aligned 0 p.length (by simp)
    simpa [Rec.size] using this
  have hsegNew : ∀ f, SegIdsFrom i0 ((base ++ [(hid, (⟨recs0, none⟩ : SegFile))]) ++ [(i0 + (base.length + 1), f)]) := by
    intro f
    rw [segIdsFrom_append]
    exact ⟨I.hseg, by simp, trivial⟩
  obtain ⟨j, _, _, hj, himg⟩ := appendEffs_images i0 (base ++ [(hid, ⟨recs0, none⟩)]) (i0 + (base.length + 1)) []
    ⟨L.endLive + 1, p⟩ hsegNew 4
  have hj' := hj (by omega)
  subst hj'
  have htk : (appendEffs (i0 + (base.length + 1)) (recsSize []) ⟨L.endLive + 1, p⟩).take 4 =
      appendEffs (i0 + (base.length + 1)) 0 ⟨L.endLive + 1, p⟩ := by
    simp [appendEffs, recsSize]
  rw [htk] at himg
  unfold append
  simp only [hp', if_false, hhead, hdec, if_true, hgen, hlook, Option.isSome_none, Bool.false_eq_true]
  unfold appendWrite
  simp only [hnext, if_true]
  have hcreate : applyEff (base ++ [(hid, (⟨recs0, none⟩ : SegFile))]) (.create (i0 + (base.length + 1))) =
      (base ++ [(hid, ⟨recs0, none⟩)]) ++ [(i0 + (base.length + 1), ⟨[], none⟩)] := rfl
  rw [hcreate]
  have heffs : [FsEff.write (i0 + (base.length + 1)) ⟨L.endLive + 1, p⟩ HDR,
      .write (i0 + (base.length + 1)) ⟨L.endLive + 1, p⟩ (HDR + p.length),
      .setLen (i0 + (base.length + 1)) (Rec.size ⟨L.endLive + 1, p⟩), .fsync (i0 + (base.length + 1))] =
      appendEffs (i0 + (base.length + 1)) 0 ⟨L.endLive + 1, p⟩ := by simp [appendEffs]
  rw [heffs, applyEffs_append, himg]
  rfl

end Nomt.Seg
