import NomtModel.Store.SegOps
/-!
# `append` computed on a consistent state

Without roll-over (`file_size < max_segment_size`) and with roll-over (a new segment `i0 + d.length`): the effects in
order, the directory and the in-memory state afterwards; `Inv` is kept, the records grow by the appended one.
-/
namespace Nomt.Seg

theorem Inv.split {L : Log} {d : Dir} {i0 a : Nat} (I : Inv L d i0 a) :
    ∃ base hid recs0, d = base ++ [(hid, ⟨recs0, none⟩)] ∧ recs0 ≠ [] := by
  obtain ⟨x, hx⟩ : ∃ x, d.getLast? = some x := by
    cases h : d.getLast? with
    | none => exact absurd (List.getLast?_eq_none_iff.mp h) I.hne
    | some x => exact ⟨x, rfl⟩
  obtain ⟨base, hb⟩ := List.getLast?_eq_some_iff.mp hx
  obtain ⟨ht, hr⟩ := I.hclean x (by rw [hb]; simp)
  obtain ⟨hid, recs0, torn⟩ := x
  simp only at ht hr
  subst ht
  exact ⟨base, hid, recs0, hb, hr⟩

theorem segIds_last_any (i : Nat) (base : Dir) (hid : Nat) (f : SegFile) (h : SegIdsFrom i (base ++ [(hid, f)])) :
    ∀ g, SegIdsFrom i (base ++ [(hid, g)]) := by
  intro g
  rw [segIdsFrom_append] at h ⊢
  exact ⟨h.1, h.2.1, trivial⟩

def afterAppend (L : Log) (rid next : Nat) : Log :=
  { L with
    endLive := rid
    startLive := if L.startLive = 0 then rid else L.startLive
    segs := setLast (fun s => { s with min := if s.min = 0 then rid else s.min, max := rid }) L.segs
    head := some next }

theorem append_noroll (L : Log) (i0 a : Nat) (base : Dir) (hid : Nat) (recs0 : List Rec) (p : List UInt8)
    (I : Inv L (base ++ [(hid, ⟨recs0, none⟩)]) i0 a) (hp : p.length ≤ MAXPAY) (hroom : recsSize recs0 < L.maxSeg) :
    append L (base ++ [(hid, ⟨recs0, none⟩)]) p =
      ⟨withTail base hid recs0 ⟨L.endLive + 1, p⟩ (Rec.size ⟨L.endLive + 1, p⟩),
       afterAppend L (L.endLive + 1) (recsSize recs0 + Rec.size ⟨L.endLive + 1, p⟩),
       appendEffs hid (recsSize recs0) ⟨L.endLive + 1, p⟩, .ok (L.endLive + 1)⟩ := by
  have hp' : ¬ p.length > MAXPAY := by omega
  have hhead : L.head = some (recsSize recs0) := by
    rw [I.hhead]; simp [SegFile.size, tornLen]
  have hdec : decide (L.maxSeg ≤ recsSize recs0) = false := by simp; omega
  have hlast : L.segs.getLast? = some (metaOf (hid, ⟨recs0, none⟩)) := by rw [I.hsegs]; simp
  have hnext : nextPos (recsSize recs0 + HDR) p.length = recsSize recs0 + Rec.size ⟨L.endLive + 1, p⟩ :=
    nextPos_aligned _ _ (recsSize_mod recs0)
  obtain ⟨j, _, _, hj, himg⟩ := appendEffs_images i0 base hid recs0 ⟨L.endLive + 1, p⟩
    (segIds_last_any i0 base hid _ I.hseg) 4
  have hj' := hj (by omega)
  subst hj'
  have htk : (appendEffs hid (recsSize recs0) ⟨L.endLive + 1, p⟩).take 4 = appendEffs hid (recsSize recs0) ⟨L.endLive + 1, p⟩ := by
    simp [appendEffs]
  rw [htk] at himg
  unfold append
  simp only [hp', if_false, hhead, hdec, Bool.false_eq_true, hlast]
  unfold appendWrite
  simp only [hnext, List.append_nil, Bool.false_eq_true, if_false, List.nil_append]
  have : (metaOf (hid, (⟨recs0, none⟩ : SegFile))).id = hid := rfl
  simp only [this]
  have heffs : [FsEff.write hid ⟨L.endLive + 1, p⟩ HDR, .write hid ⟨L.endLive + 1, p⟩ (HDR + p.length),
      .setLen hid (recsSize recs0 + Rec.size ⟨L.endLive + 1, p⟩), .fsync hid] =
      appendEffs hid (recsSize recs0) ⟨L.endLive + 1, p⟩ := rfl
  rw [heffs, himg]
  rfl

theorem lookup_none_beyond (i : Nat) (d : Dir) (nid : Nat) (h : SegIdsFrom i d) (hn : i + d.length ≤ nid) :
    lookup d nid = none := by
  have : d.find? (fun x => decide (x.1 = nid)) = none := by
    rw [List.find?_eq_none]
    intro x hx
    have := segIdsFrom_mem d i h x hx
    simp; omega
  simp [lookup, this]

theorem append_roll (L : Log) (i0 a : Nat) (base : Dir) (hid : Nat) (recs0 : List Rec) (p : List UInt8)
    (I : Inv L (base ++ [(hid, ⟨recs0, none⟩)]) i0 a) (hp : p.length ≤ MAXPAY) (hfull : L.maxSeg ≤ recsSize recs0) :
    append L (base ++ [(hid, ⟨recs0, none⟩)]) p =
      ⟨withTail (base ++ [(hid, ⟨recs0, none⟩)]) (i0 + (base.length + 1)) [] ⟨L.endLive + 1, p⟩ (Rec.size ⟨L.endLive + 1, p⟩),
       afterAppend { L with segs := L.segs ++ [⟨i0 + (base.length + 1), L.endLive + 1, L.endLive + 1⟩], head := some 0 }
         (L.endLive + 1) (Rec.size ⟨L.endLive + 1, p⟩),
       [.create (i0 + (base.length + 1))] ++ (appendEffs (i0 + (base.length + 1)) 0 ⟨L.endLive + 1, p⟩ ++ [.dirsync]),
       .ok (L.endLive + 1)⟩ := by
  have hp' : ¬ p.length > MAXPAY := by omega
  have hhead : L.head = some (recsSize recs0) := by
    rw [I.hhead]; simp [SegFile.size, tornLen]
  have hdec : decide (L.maxSeg ≤ recsSize recs0) = true := by simp; omega
  have hlast : L.segs.getLast? = some (metaOf (hid, ⟨recs0, none⟩)) := by rw [I.hsegs]; simp
  have hhid : hid = i0 + base.length := ((segIdsFrom_append base _ i0).mp I.hseg).2.1
  have h32 := I.hid32
  simp only [List.length_append, List.length_cons, List.length_nil] at h32
  have hgen : genSegmentId L.segs = i0 + (base.length + 1) := by
    unfold genSegmentId
    rw [hlast]
    show (hid + 1) % U32 = _
    rw [hhid]
    have h : i0 + base.length + 1 < U32 := by omega
    rw [Nat.mod_eq_of_lt h]; omega
  have hlook : lookup (base ++ [(hid, (⟨recs0, none⟩ : SegFile))]) (i0 + (base.length + 1)) = none :=
    lookup_none_beyond i0 _ _ I.hseg (by simp)
  have hnext : nextPos (0 + HDR) p.length = Rec.size ⟨L.endLive + 1, p⟩ := by
    have := nextPos_aligned 0 p.length (by simp)
    simpa [Rec.size] using this
  have hsegNew : ∀ f, SegIdsFrom i0 ((base ++ [(hid, (⟨recs0, none⟩ : SegFile))]) ++ [(i0 + (base.length + 1), f)]) := by
    intro f
    rw [segIdsFrom_append]
    exact ⟨I.hseg, by simp, trivial⟩
  obtain ⟨j, _, _, hj, himg⟩ := appendEffs_images i0 (base ++ [(hid, ⟨recs0, none⟩)]) (i0 + (base.length + 1)) []
    ⟨L.endLive + 1, p⟩ hsegNew 4
  have hj' := hj (by omega)
  subst hj'
  have htk : (appendEffs (i0 + (base.length + 1)) (recsSize []) ⟨L.endLive + 1, p⟩).take 4 =
      appendEffs (i0 + (base.length + 1)) 0 ⟨L.endLive + 1, p⟩ := by
    simp [appendEffs, recsSize]
  rw [htk] at himg
  unfold append
  simp only [hp', if_false, hhead, hdec, if_true, hgen, hlook, Option.isSome_none, Bool.false_eq_true]
  unfold appendWrite
  simp only [hnext, if_true]
  have hcreate : applyEff (base ++ [(hid, (⟨recs0, none⟩ : SegFile))]) (.create (i0 + (base.length + 1))) =
      (base ++ [(hid, ⟨recs0, none⟩)]) ++ [(i0 + (base.length + 1), ⟨[], none⟩)] := rfl
  rw [hcreate]
  have heffs : [FsEff.write (i0 + (base.length + 1)) ⟨L.endLive + 1, p⟩ HDR,
      .write (i0 + (base.length + 1)) ⟨L.endLive + 1, p⟩ (HDR + p.length),
      .setLen (i0 + (base.length + 1)) (Rec.size ⟨L.endLive + 1, p⟩), .fsync (i0 + (base.length + 1))] =
      appendEffs (i0 + (base.length + 1)) 0 ⟨L.endLive + 1, p⟩ := by simp [appendEffs]
  rw [heffs, applyEffs_append, himg]
  rfl

theorem Inv.recoverable {L : Log} {d : Dir} {i0 a : Nat} (I : Inv L d i0 a) (s : Nat) (hs : 0 < s) (hse : s ≤ L.endLive) :
    Recoverable s L.endLive i0 a d := by
  have hlen : 0 < (flatRecs d).length := by
    obtain ⟨base, hid, recs0, hd, hr⟩ := I.split
    rw [hd, flatRecs_append, List.length_append, flatRecs_single]
    have : 0 < recs0.length := List.length_pos_iff.mpr hr
    simp only; omega
  have := I.hend
  exact ⟨hs, hse, I.hi, I.hseg, I.hrec, by omega, by omega⟩

/-- **crash images of `append`** (no roll-over): after any prefix of its effects the file holds the first `j` bytes of
the new record; cut anywhere at or below that (keeping no byte or at least the 12-byte header) the directory recovers
under the old live range `[s, e]` to exactly the old live records -/
theorem append_noroll_crash (L : Log) (i0 a : Nat) (base : Dir) (hid : Nat) (recs0 : List Rec) (p : List UInt8)
    (I : Inv L (base ++ [(hid, ⟨recs0, none⟩)]) i0 a) (hp : p.length ≤ MAXPAY) (hroom : recsSize recs0 < L.maxSeg)
    (s : Nat) (hs : 0 < s) (hse : s ≤ L.endLive) (k : Nat) :
    ∃ j, j ≤ Rec.size ⟨L.endLive + 1, p⟩ ∧ (3 ≤ k → j = Rec.size ⟨L.endLive + 1, p⟩) ∧ ∀ m, m ≤ j → (m = 0 ∨ HDR ≤ m) →
      Recoverable s L.endLive i0 a
        (applyEff (applyEffs (base ++ [(hid, ⟨recs0, none⟩)])
          ((append L (base ++ [(hid, ⟨recs0, none⟩)]) p).effs.take k)) (.setLen hid (recsSize recs0 + m))) ∧
      liveOf s L.endLive
        (applyEff (applyEffs (base ++ [(hid, ⟨recs0, none⟩)])
          ((append L (base ++ [(hid, ⟨recs0, none⟩)]) p).effs.take k)) (.setLen hid (recsSize recs0 + m)))
        = liveOf s L.endLive (base ++ [(hid, ⟨recs0, none⟩)]) := by
  rw [append_noroll L i0 a base hid recs0 p I hp hroom]
  simp only
  have hsegall := segIds_last_any i0 base hid _ I.hseg
  obtain ⟨j, hj, _, hj3, himg⟩ := appendEffs_images i0 base hid recs0 ⟨L.endLive + 1, p⟩ hsegall k
  refine ⟨j, hj, hj3, ?_⟩
  intro m hm hm12
  rw [himg, withTail_cut i0 base hid recs0 _ hsegall j m hm hj]
  exact withTail_recoverable s L.endLive i0 a base hid recs0 _ m (I.recoverable s hs hse) I.hend rfl hm12

/-- **crash images of `append`** (roll-over into the new segment `i0 + d.length`) -/
theorem append_roll_crash (L : Log) (i0 a : Nat) (base : Dir) (hid : Nat) (recs0 : List Rec) (p : List UInt8)
    (I : Inv L (base ++ [(hid, ⟨recs0, none⟩)]) i0 a) (hp : p.length ≤ MAXPAY) (hfull : L.maxSeg ≤ recsSize recs0)
    (s : Nat) (hs : 0 < s) (hse : s ≤ L.endLive) (k : Nat) :
    ∃ j, j ≤ Rec.size ⟨L.endLive + 1, p⟩ ∧ (4 ≤ k → j = Rec.size ⟨L.endLive + 1, p⟩) ∧ ∀ m, m ≤ j → (m = 0 ∨ HDR ≤ m) →
      ∃ i0' a', Recoverable s L.endLive i0' a'
        (applyEff (applyEffs (base ++ [(hid, ⟨recs0, none⟩)])
          ((append L (base ++ [(hid, ⟨recs0, none⟩)]) p).effs.take k)) (.setLen (i0 + (base.length + 1)) m)) ∧
      liveOf s L.endLive
        (applyEff (applyEffs (base ++ [(hid, ⟨recs0, none⟩)])
          ((append L (base ++ [(hid, ⟨recs0, none⟩)]) p).effs.take k)) (.setLen (i0 + (base.length + 1)) m))
        = liveOf s L.endLive (base ++ [(hid, ⟨recs0, none⟩)]) := by
  rw [append_roll L i0 a base hid recs0 p I hp hfull]
  simp only
  have R := I.recoverable s hs hse
  cases k with
  | zero =>
    -- nothing has happened yet: the new file does not exist
    refine ⟨0, by omega, by omega, ?_⟩
    intro m hm _
    have hm0 : m = 0 := by omega
    subst hm0
    have hno : applyEff (base ++ [(hid, (⟨recs0, none⟩ : SegFile))]) (.setLen (i0 + (base.length + 1)) 0) =
        base ++ [(hid, ⟨recs0, none⟩)] := by
      simp only [applyEff, updFile]
      have : ∀ x ∈ base ++ [(hid, (⟨recs0, none⟩ : SegFile))], x.1 ≠ i0 + (base.length + 1) := by
        intro x hx
        have := segIdsFrom_mem _ i0 I.hseg x hx
        simp at this; omega
      conv => rhs; rw [← List.map_id (base ++ [(hid, (⟨recs0, none⟩ : SegFile))])]
      apply List.map_congr_left
      intro x hx
      simp [this x hx]
    simp only [List.take_zero, applyEffs, List.foldl_nil]
    rw [hno]
    exact ⟨i0, a, R, rfl⟩
  | succ k =>
    have hsegNew : ∀ f, SegIdsFrom i0 ((base ++ [(hid, (⟨recs0, none⟩ : SegFile))]) ++ [(i0 + (base.length + 1), f)]) := by
      intro f
      rw [segIdsFrom_append]
      exact ⟨I.hseg, by simp, trivial⟩
    obtain ⟨j, hj, _, hj3, himg⟩ := appendEffs_images i0 (base ++ [(hid, ⟨recs0, none⟩)]) (i0 + (base.length + 1)) []
      ⟨L.endLive + 1, p⟩ hsegNew k
    refine ⟨j, hj, fun h => hj3 (by omega), ?_⟩
    intro m hm hm12
    have htake : ([FsEff.create (i0 + (base.length + 1))] ++
        (appendEffs (i0 + (base.length + 1)) 0 ⟨L.endLive + 1, p⟩ ++ [FsEff.dirsync])).take (k + 1) =
        FsEff.create (i0 + (base.length + 1)) ::
          ((appendEffs (i0 + (base.length + 1)) 0 ⟨L.endLive + 1, p⟩ ++ [FsEff.dirsync]).take k) := by simp
    have hcreate : applyEff (base ++ [(hid, (⟨recs0, none⟩ : SegFile))]) (.create (i0 + (base.length + 1))) =
        (base ++ [(hid, ⟨recs0, none⟩)]) ++ [(i0 + (base.length + 1), ⟨[], none⟩)] := rfl
    have hds : applyEffs ((base ++ [(hid, (⟨recs0, none⟩ : SegFile))]) ++ [(i0 + (base.length + 1), ⟨[], none⟩)])
        ((appendEffs (i0 + (base.length + 1)) 0 ⟨L.endLive + 1, p⟩ ++ [FsEff.dirsync]).take k) =
        withTail (base ++ [(hid, ⟨recs0, none⟩)]) (i0 + (base.length + 1)) [] ⟨L.endLive + 1, p⟩ j := by
      rw [← himg, List.take_append]
      simp only [recsSize, applyEffs_append]
      -- the directory fsync changes nothing
      have : ∀ (X : Dir) (n : Nat), applyEffs X ([FsEff.dirsync].take n) = X := by
        intro X n; cases n <;> simp [applyEffs, applyEff]
      rw [this]
    rw [htake]
    simp only [applyEffs, List.foldl_cons, hcreate]
    have hds' := hds
    simp only [applyEffs] at hds'
    rw [hds']
    have hcut := withTail_cut i0 (base ++ [(hid, ⟨recs0, none⟩)]) (i0 + (base.length + 1)) [] ⟨L.endLive + 1, p⟩ hsegNew j m hm hj
    simp only [recsSize, Nat.zero_add] at hcut
    rw [hcut]
    -- the old directory with an empty new file is recoverable
    have R0 : Recoverable s L.endLive i0 a ((base ++ [(hid, (⟨recs0, none⟩ : SegFile))]) ++ [(i0 + (base.length + 1), ⟨[], none⟩)]) := by
      refine ⟨hs, hse, I.hi, hsegNew _, ?_, R.hae, ?_⟩
      · apply recsFrom_join _ _ _ _ I.hclean I.hrec
        exact ⟨trivial, by simp, trivial, trivial⟩
      · rw [flatRecs_append, List.length_append]; have := R.heb; omega
    have hend0 : a + (flatRecs ((base ++ [(hid, (⟨recs0, none⟩ : SegFile))]) ++ [(i0 + (base.length + 1), ⟨[], none⟩)])).length
        = L.endLive + 1 := by
      rw [flatRecs_append, List.length_append, flatRecs_single]; simp only [List.length_nil, Nat.add_zero]; exact I.hend
    obtain ⟨R1, hl1⟩ := withTail_recoverable s L.endLive i0 a _ _ [] ⟨L.endLive + 1, p⟩ m R0 hend0 rfl hm12
    refine ⟨i0, a, R1, ?_⟩
    rw [hl1]
    simp only [liveOf, flatRecs_append, flatRecs_single, List.append_nil]

theorem recsFrom_change_e (e e' : Nat) : ∀ (d : Dir) (nx : Nat), (∀ x ∈ d, x.2.torn = none) → RecsFrom e nx d →
    RecsFrom e' nx d
  | [], _, _, _ => trivial
  | x :: d, nx, ht, h => by
    obtain ⟨h1, h2, _, h4⟩ := h
    exact ⟨h1, h2, by rw [ht x (by simp)]; trivial, recsFrom_change_e e e' d _ (fun y hy => ht y (by simp [hy])) h4⟩

/-- the completed append under the new live range: the old live records and the new one -/
theorem withTail_full_recoverable (s e i0 a : Nat) (base : Dir) (hid : Nat) (recs0 : List Rec) (r : Rec)
    (hs : 0 < s) (hse : s ≤ e + 1) (hi : 0 < i0) (hseg : SegIdsFrom i0 (base ++ [(hid, ⟨recs0, none⟩)]))
    (hrec : RecsFrom e a (base ++ [(hid, ⟨recs0, none⟩)])) (hclean : ∀ x ∈ base, x.2.torn = none) (ha : a ≤ e + 1)
    (hend : a + (flatRecs (base ++ [(hid, ⟨recs0, none⟩)])).length = e + 1) (hr : r.id = e + 1) :
    Recoverable s (e + 1) i0 a (withTail base hid recs0 r r.size) ∧
      liveOf s (e + 1) (withTail base hid recs0 r r.size) =
        liveOf s e (base ++ [(hid, ⟨recs0, none⟩)]) ++ [r] := by
  have hlen : (flatRecs (base ++ [(hid, (⟨recs0, none⟩ : SegFile))])).length = (flatRecs base).length + recs0.length := by
    rw [flatRecs_append, List.length_append, flatRecs_single]
  rw [hlen] at hend
  have hsz := r.size_pos
  have hs0 : r.size ≠ 0 := by omega
  have hfile : withTail base hid recs0 r r.size = base ++ [(hid, ⟨recs0 ++ [r], none⟩)] := by
    simp [withTail, hs0]
  rw [hfile]
  have hids0 : IdsFrom (a + (flatRecs base).length) recs0 := (recsFrom_append e base [_] a hrec (by simp)).2.2.1
  have hids1 : IdsFrom (a + (flatRecs base).length) (recs0 ++ [r]) := by
    rw [idsFrom_append]; exact ⟨hids0, by rw [hr]; omega, trivial⟩
  have hrec1 : RecsFrom e a (base ++ [(hid, ⟨recs0 ++ [r], none⟩)]) :=
    recsFrom_replace_last e base _ (hid, ⟨recs0 ++ [r], none⟩) a hrec hids1 trivial
  have hrec2 : RecsFrom (e + 1) a (base ++ [(hid, ⟨recs0 ++ [r], none⟩)]) :=
    recsFrom_change_e e (e + 1) _ a (by
      intro x hx
      rcases List.mem_append.mp hx with hx | hx
      · exact hclean x hx
      · simp at hx; rw [hx]) hrec1
  have hseg1 : SegIdsFrom i0 (base ++ [(hid, (⟨recs0 ++ [r], none⟩ : SegFile))]) := segIds_last_any i0 base hid _ hseg _
  refine ⟨⟨hs, hse, hi, hseg1, hrec2, ha, ?_⟩, ?_⟩
  · rw [flatRecs_append, List.length_append, flatRecs_single]; simp only [List.length_append, List.length_cons, List.length_nil]; omega
  · have hflat := recsFrom_flat e _ a hrec
    have hold : ∀ x ∈ flatRecs (base ++ [(hid, (⟨recs0, none⟩ : SegFile))]), live s (e + 1) x = live s e x := by
      intro x hx
      have := idsFrom_mem _ _ hflat x hx
      rw [hlen] at this
      have h1 : x.id ≤ e := by omega
      have h2 : x.id ≤ e + 1 := by omega
      simp [live, h1, h2]
    simp only [liveOf]
    rw [flatRecs_append, flatRecs_single]
    have : flatRecs (base ++ [(hid, (⟨recs0, none⟩ : SegFile))]) = flatRecs base ++ recs0 := by
      rw [flatRecs_append, flatRecs_single]
    rw [this] at hold ⊢
    rw [← List.append_assoc, List.filter_append, List.filter_congr hold]
    have hr1 : live s (e + 1) r = true := by simp [live, hr]; omega
    simp [List.filter_cons, hr1]

/-- **`append` refines the list-level append**: on a consistent state it returns the next record id, and `open`
with the new live range returns the old live records followed by the new one -/
theorem append_refines (L : Log) (i0 a : Nat) (d : Dir) (p : List UInt8) (I : Inv L d i0 a) (hp : p.length ≤ MAXPAY)
    (s : Nat) (hs : 0 < s) (hse : s ≤ L.endLive + 1) :
    (append L d p).out = .ok (L.endLive + 1) ∧ (append L d p).log.endLive = L.endLive + 1 ∧
      (append L d p).log.startLive = L.startLive ∧
      ∃ i0' a', Recoverable s (L.endLive + 1) i0' a' (append L d p).dir ∧
        liveOf s (L.endLive + 1) (append L d p).dir = liveOf s L.endLive d ++ [⟨L.endLive + 1, p⟩] := by
  obtain ⟨base, hid, recs0, hd, _⟩ := I.split
  subst hd
  have hst : L.startLive ≠ 0 := by have := I.hstart; omega
  have hcl : ∀ x ∈ base, x.2.torn = none := fun x hx => (I.hclean x (by simp [hx])).1
  have ha : a ≤ L.endLive + 1 := by have := I.hend; omega
  by_cases hroom : recsSize recs0 < L.maxSeg
  · rw [append_noroll L i0 a base hid recs0 p I hp hroom]
    refine ⟨rfl, rfl, by simp [afterAppend, hst], i0, a, ?_⟩
    exact withTail_full_recoverable s L.endLive i0 a base hid recs0 _ hs hse I.hi I.hseg I.hrec hcl ha I.hend rfl
  · rw [append_roll L i0 a base hid recs0 p I hp (by omega)]
    refine ⟨rfl, rfl, by simp [afterAppend, hst], i0, a, ?_⟩
    have hsegNew : SegIdsFrom i0 ((base ++ [(hid, (⟨recs0, none⟩ : SegFile))]) ++ [(i0 + (base.length + 1), ⟨[], none⟩)]) := by
      rw [segIdsFrom_append]
      exact ⟨I.hseg, by simp, trivial⟩
    have hrecNew : RecsFrom L.endLive a ((base ++ [(hid, (⟨recs0, none⟩ : SegFile))]) ++ [(i0 + (base.length + 1), ⟨[], none⟩)]) := by
      apply recsFrom_join _ _ _ _ I.hclean I.hrec
      exact ⟨trivial, by simp, trivial, trivial⟩
    have hend0 : a + (flatRecs ((base ++ [(hid, (⟨recs0, none⟩ : SegFile))]) ++ [(i0 + (base.length + 1), ⟨[], none⟩)])).length
        = L.endLive + 1 := by
      rw [flatRecs_append, List.length_append, flatRecs_single]; simp only [List.length_nil, Nat.add_zero]; exact I.hend
    obtain ⟨R1, hl1⟩ := withTail_full_recoverable s L.endLive i0 a _ (i0 + (base.length + 1)) [] ⟨L.endLive + 1, p⟩
      hs hse I.hi hsegNew hrecNew (fun x hx => (I.hclean x hx).1) ha hend0 rfl
    refine ⟨R1, ?_⟩
    rw [hl1]
    simp only [liveOf, flatRecs_append, flatRecs_single, List.append_nil]

end Nomt.Seg
