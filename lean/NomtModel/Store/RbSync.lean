import NomtModel.Store.RbTruncate
/-!
The live-range bookkeeping of `Rollback` under the order `Nomt` imposes (every append and every truncation is followed
by its sync under the write guard) — C09 / C10.

`Good r m`: a quiescent state `r` of the mirror together with the live range `m` the last sync published in the meta.
From such a state, with `0 < max_rollback_log_len`:
* `commit d` + sync never reaches a panic site (`pop_oldest().unwrap()`, the two `panic!`s of `prune_oldest`), never fails
  (`prune_recent` finds its record), keeps `Good`, and the log — newest first — becomes `(d :: log).take maxLen`
  (the specification-level `Api.pushLog`): at most `maxLen` deltas, the oldest goes first, one per sync;
* `truncate n` + sync (`0 < n ≤` held) keeps `Good`, the log becomes `log.drop n` (`Api.rollback`);
* `Rollback::read` with the published range on ANY directory content that still holds the in-memory records preceded by
  older ones (whatever whole files `prune_oldest` removed) loads exactly the in-memory log again and is `Good`.
With `max_rollback_log_len = 0` the first sync panics (`maxLen0_first_sync_panics`).
-/
namespace Nomt.Rb
open Nomt
variable {V : Type}

/-- quiescent state + the range published by the last sync -/
structure Good (r : Rb V) (m : Nat × Nat) : Prop where
  pend : r.pending = none
  maxPos : 0 < r.maxLen
  len : r.log.length ≤ r.maxLen
  empty : r.log = [] → r.seg.startLive = 0 ∧ r.seg.endLive = 0 ∧ r.seg.recs = [] ∧ m = (0, 0)
  nonempty : r.log ≠ [] → ∃ f pre, 0 < f ∧ Ids r.log f ∧ f + r.log.length = r.seg.endLive + 1 ∧
      r.seg.recs = pre ++ r.log ∧ (∀ x ∈ pre, x.1 < f) ∧
      0 < r.seg.startLive ∧ r.seg.startLive ≤ f ∧ (r.seg.startLive = f ∨ r.log.length = r.maxLen) ∧
      m.2 = r.seg.endLive ∧ 0 < m.1 ∧ m.1 ≤ f ∧ (m.1 = f ∨ r.log.length = r.maxLen)

theorem good_init (maxLen : Nat) (h : 0 < maxLen) : Good ({ maxLen := maxLen } : Rb V) (0, 0) :=
  ⟨rfl, h, Nat.zero_le _, fun _ => ⟨rfl, rfl, rfl, rfl⟩, fun h => absurd rfl h⟩

/-- `commit` followed by the sync of the commit -/
def Rb.commitSync (r : Rb V) (d : Delta V) : Outcome Unit ((Nat × Nat) × Rb V) := (r.commit d).sync

theorem absLog_append_one (log : List (Nat × Delta V)) (x : Nat × Delta V) :
    ((log ++ [x]).map (·.2)).reverse = x.2 :: (log.map (·.2)).reverse := by simp

theorem commitSync_empty {r : Rb V} {m : Nat × Nat} (g : Good r m) (hl : r.log = []) (d : Delta V) :
    ∃ m' r', r.commitSync d = .ok (m', r') ∧ Good r' m' ∧ r'.absLog = (d :: r.absLog).take r.maxLen ∧
      r'.maxLen = r.maxLen := by
  obtain ⟨h1, h2, h3, _⟩ := g.empty hl
  have hmax := g.maxPos
  have hnot : ¬ (1 > r.maxLen) := by omega
  refine ⟨(1, 1), { r with log := [(1, d)], seg := { startLive := 1, endLive := 1, recs := [(1, d)] } }, ?_, ?_, ?_, rfl⟩
  · simp [Rb.commitSync, Rb.commit, Seg.append, Rb.sync, Rb.writeoutStart, Rb.writeoutEnd, hl, h1, h2, h3, g.pend, hnot]
  · refine ⟨g.pend, hmax, (by show 1 ≤ r.maxLen; omega), (fun h => by simp at h), fun _ => ?_⟩
    exact ⟨1, [], (by omega), ⟨rfl, trivial⟩, rfl, rfl, (fun x hx => by cases hx), (by simp), (by simp), Or.inl rfl, rfl,
      (by simp), (by simp), Or.inl rfl⟩
  · obtain ⟨k, hk⟩ : ∃ k, r.maxLen = k + 1 := ⟨r.maxLen - 1, by omega⟩
    simp [Rb.absLog, hl, hk]

theorem commitSync_nonempty {r : Rb V} {m : Nat × Nat} (g : Good r m) (hl : r.log ≠ []) (d : Delta V) :
    ∃ m' r', r.commitSync d = .ok (m', r') ∧ Good r' m' ∧ r'.absLog = (d :: r.absLog).take r.maxLen ∧
      r'.maxLen = r.maxLen := by
  obtain ⟨f, pre, hf, hids, hend, hrecs, hpre, hs0, hsf, hsl, hm2, hm0, hmf, hml⟩ := g.nonempty hl
  have hmax := g.maxPos
  have hlen := g.len
  have hs0' : r.seg.startLive ≠ 0 := by omega
  have hid : r.seg.endLive + 1 = f + r.log.length := by omega
  have hids' : Ids (r.log ++ [(r.seg.endLive + 1, d)]) f := by rw [hid]; exact hids.append_one d
  by_cases hover : r.log.length + 1 > r.maxLen
  · -- one delta too many: the oldest goes
    have hfull : r.log.length = r.maxLen := by omega
    cases hlog : r.log with
    | nil => exact absurd hlog hl
    | cons y rest =>
      have hy : y.1 = f := by rw [hlog] at hids; exact hids.1
      have hrl : rest.length + 1 = r.log.length := by rw [hlog]; rfl
      have hne : (r.seg.recs ++ [(r.seg.endLive + 1, d)]).isEmpty = false := by simp
      have hgt : ¬ (y.1 + 1 > r.seg.endLive + 1) := by omega
      have hlt : ¬ (y.1 + 1 < r.seg.startLive) := by omega
      have hovr : (rest.length + 1) + 1 > r.maxLen := by omega
      refine ⟨(r.seg.startLive, r.seg.endLive + 1),
        { r with log := rest ++ [(r.seg.endLive + 1, d)],
                 seg := { startLive := y.1 + 1, endLive := r.seg.endLive + 1,
                          recs := r.seg.recs ++ [(r.seg.endLive + 1, d)] } }, ?_, ?_, ?_, rfl⟩
      · simp only [Rb.commitSync, Rb.commit, Seg.append, Rb.sync, Rb.writeoutStart, g.pend, hlog, hs0', if_false,
          List.cons_append, List.length_cons, List.length_append, List.length_nil, Nat.zero_add, hovr, if_true,
          Rb.writeoutEnd, Seg.pruneOldest, Nat.succ_ne_zero, hne, Bool.false_eq_true, hgt, hlt]
      · refine ⟨g.pend, hmax, (by simp; omega), (fun h => by simp at h), fun _ => ?_⟩
        have htl : Ids (rest ++ [(r.seg.endLive + 1, d)]) (f + 1) := by
          rw [hlog] at hids'; exact hids'.2
        refine ⟨f + 1, pre ++ [y], (by omega), htl, (by simp; omega), ?_, ?_, (by simp), (by simp [hy]),
          Or.inl (by simp [hy]), rfl, hs0, (by simp; omega), Or.inr (by simp; omega)⟩
        · simp [hrecs, hlog]
        · intro x hx
          rcases List.mem_append.1 hx with h | h
          · have := hpre x h; omega
          · have : x = y := by simpa using h
            subst this; omega
      · simp only [Rb.absLog, hlog]
        rw [absLog_append_one]
        simp only [List.map_cons, List.reverse_cons]
        rw [← List.cons_append, List.take_append_of_le_length (by simp; omega), List.take_of_length_le (by simp; omega)]
  · -- room left
    have hlt : r.log.length < r.maxLen := by omega
    have hsf' : r.seg.startLive = f := by rcases hsl with h | h <;> omega
    have hnot : ¬ ((r.log ++ [(r.seg.endLive + 1, d)]).length > r.maxLen) := by simp; omega
    refine ⟨(r.seg.startLive, r.seg.endLive + 1),
      { r with log := r.log ++ [(r.seg.endLive + 1, d)],
               seg := { startLive := r.seg.startLive, endLive := r.seg.endLive + 1,
                        recs := r.seg.recs ++ [(r.seg.endLive + 1, d)] } }, ?_, ?_, ?_, rfl⟩
    · simp only [Rb.commitSync, Rb.commit, Seg.append, Rb.sync, Rb.writeoutStart, g.pend, hs0', if_false, hnot,
        Rb.writeoutEnd]
    · refine ⟨g.pend, hmax, (by simp; omega), (fun h => by simp at h), fun _ => ?_⟩
      exact ⟨f, pre, hf, hids', (by simp; omega), (by simp [hrecs]), hpre, hs0, hsf, Or.inl hsf', rfl, hs0,
        (by simp [hsf']), Or.inl hsf'⟩
    · simp only [Rb.absLog]
      rw [absLog_append_one, List.take_of_length_le (by simp; omega)]

/-- **`commit` + sync**: no panic, no error, `Good` kept, the log (newest first) is `(d :: log).take maxLen` -/
theorem commitSync_good {r : Rb V} {m : Nat × Nat} (g : Good r m) (d : Delta V) :
    ∃ m' r', r.commitSync d = .ok (m', r') ∧ Good r' m' ∧ r'.absLog = (d :: r.absLog).take r.maxLen ∧
      r'.maxLen = r.maxLen := by
  by_cases hl : r.log = []
  · exact commitSync_empty g hl d
  · exact commitSync_nonempty g hl d

/-- with `max_rollback_log_len = 0` the very first sync reaches `panic!("New live start is greater than the live end")` -/
theorem maxLen0_first_sync_panics (d : Delta V) :
    ({ maxLen := 0 } : Rb V).commitSync d = .panic "prune_oldest: New live start is greater than the live end" := by
  simp [Rb.commitSync, Rb.commit, Seg.append, Rb.sync, Rb.writeoutStart, Rb.writeoutEnd, Seg.pruneOldest]

/-! ### truncate + sync -/

theorem reverse_take_eq_drop {α : Type} (l : List α) (n : Nat) (hn : n ≤ l.length) :
    (l.take (l.length - n)).reverse = l.reverse.drop n := by
  conv => rhs; rw [← List.take_append_drop (l.length - n) l, List.reverse_append]
  rw [List.drop_append_of_le_length (by simp; omega), List.drop_of_length_le (by simp; omega)]
  rfl

theorem truncateSync_good {r : Rb V} {m : Nat × Nat} (g : Good r m) (n : Nat) (hn : 0 < n) (hle : n ≤ r.log.length) :
    ∃ r1 m' r', r.truncate n = .ok (some (tracebackOf (r.log.drop (r.log.length - n)).reverse []), r1) ∧
      r1.sync = .ok (m', r') ∧ Good r' m' ∧ r'.log = r.log.take (r.log.length - n) ∧
      r'.absLog = r.absLog.drop n ∧ r'.maxLen = r.maxLen := by
  have hl : r.log ≠ [] := by intro h; rw [h] at hle; simp at hle; omega
  obtain ⟨f, pre, hf, hids, hend, hrecs, hpre, hs0, hsf, hsl, hm2, hm0, hmf, hml⟩ := g.nonempty hl
  have hpos : ∀ x ∈ r.log, 0 < x.1 := fun x hx => by have := hids.mem x hx; omega
  obtain ⟨first, hfirst, hfpos, htr⟩ := (truncate_spec r n).2.2 hn hle hpos
  have hfv : first = f + (r.log.length - n) := by
    have := hids.head_drop (r.log.length - n) (by omega)
    rw [hfirst] at this
    exact Option.some.inj this
  have habs : ((r.log.take (r.log.length - n)).map (·.2)).reverse = ((r.log.map (·.2)).reverse).drop n := by
    have := reverse_take_eq_drop (r.log.map (·.2)) n (by simpa using hle)
    simpa [List.map_take] using this
  by_cases hall : r.log.length - n = 0
  · -- everything is rolled back: the range `(0, 0)` is published, the seglog is reset
    have htake : r.log.take (r.log.length - n) = [] := by rw [hall]; rfl
    refine ⟨_, (0, 0), { r with log := [], pending := none, seg := {} }, htr, ?_, ?_, (by simp [htake]), ?_, rfl⟩
    · simp [Rb.sync, Rb.writeoutStart, Rb.writeoutEnd, htake, Seg.pruneRecent]
    · exact ⟨rfl, g.maxPos, Nat.zero_le _, fun _ => ⟨rfl, rfl, rfl, rfl⟩, fun h => absurd rfl h⟩
    · simp only [Rb.absLog]
      rw [← habs, htake]
  · -- `k` deltas stay
    have hk : 0 < r.log.length - n := by omega
    obtain ⟨y, rest, hlog⟩ : ∃ y rest, r.log = y :: rest := by
      cases h : r.log with
      | nil => exact absurd h hl
      | cons y rest => exact ⟨y, rest, rfl⟩
    · have hy : y.1 = f := by rw [hlog] at hids; exact hids.1
      obtain ⟨k, hkk⟩ : ∃ k, r.log.length - n = k + 1 := ⟨r.log.length - n - 1, by omega⟩
      have htake : r.log.take (r.log.length - n) = y :: rest.take k := by rw [hkk, hlog]; rfl
      have hpt : first - 1 = f + k := by omega
      have hrne : r.seg.recs.isEmpty = false := by rw [hrecs, hlog]; simp
      -- the record the new range ends at exists
      have hex : r.seg.recs.any (fun x => x.1 == f + k) = true := by
        have hlt : k < r.log.length := by omega
        have hd := hids.head_drop k hlt
        cases hdk : r.log.drop k with
        | nil => rw [hdk] at hd; cases hd
        | cons z zs =>
          rw [hdk] at hd
          have hz : z.1 = f + k := by simpa using hd
          have hzm : z ∈ r.seg.recs := by
            rw [hrecs]
            exact List.mem_append_right _ (List.mem_of_mem_drop (by rw [hdk]; exact List.mem_cons_self ..))
          exact List.any_eq_true.2 ⟨z, hzm, by simp [hz]⟩
      have hfilt : r.seg.recs.filter (fun x => decide (x.1 ≤ f + k)) = pre ++ r.log.take (k + 1) := by
        rw [hrecs, List.filter_append, hids.filter_le]
        congr 1
        · apply List.filter_eq_self.2
          intro x hx
          have := hpre x hx
          simp; omega
        · congr 1; omega
      have hfk : f + k ≠ 0 := by omega
      have hfe : ¬ (f > r.seg.endLive) := by omega
      have hfs : ¬ (f < r.seg.startLive) := by omega
      have hf0 : f ≠ 0 := by omega
      refine ⟨_, (f, f + k),
        { r with log := y :: rest.take k, pending := none,
                 seg := { startLive := f, endLive := f + k, recs := pre ++ r.log.take (k + 1) } }, htr, ?_, ?_,
        (by simp [htake]), ?_, rfl⟩
      · by_cases hgt : f > r.seg.startLive
        · simp only [Rb.sync, Rb.writeoutStart, htake, List.head?_cons, hy, hpt, hgt, if_true, Rb.writeoutEnd,
            Seg.pruneOldest, hf0, if_false, hrne, Bool.false_eq_true, hfe, hfs, Seg.pruneRecent, hfk, hex, hfilt]
        · have hseq : r.seg.startLive = f := by omega
          simp only [Rb.sync, Rb.writeoutStart, htake, List.head?_cons, hy, hpt, hgt, if_false, Rb.writeoutEnd,
            Seg.pruneRecent, hfk, hrne, Bool.false_eq_true, hex, if_true, hfilt]
          rw [hseq]
      · have hlen' : (y :: rest.take k).length = k + 1 := by
          have := congrArg List.length htake
          simp only [List.length_take] at this
          rw [← this]; omega
        refine ⟨rfl, g.maxPos, ?_, (fun h => by simp at h), fun _ => ?_⟩
        · show (y :: rest.take k).length ≤ r.maxLen
          rw [hlen']; have := g.len; omega
        · have hidt : Ids (y :: rest.take k) f := by rw [← htake]; exact hids.take _
          refine ⟨f, pre, hf, hidt, (by show f + (y :: rest.take k).length = f + k + 1; rw [hlen']; omega), ?_, hpre, hf,
            Nat.le_refl _, Or.inl rfl, rfl, hf, Nat.le_refl _, Or.inl rfl⟩
          show pre ++ r.log.take (k + 1) = pre ++ (y :: rest.take k)
          rw [← htake, hkk]
      · simp only [Rb.absLog]
        rw [← htake, habs]

/-! ### reopen -/

theorem trim_append_full {α : Type} (maxLen : Nat) (x log : List (Nat × α)) (h : log.length = maxLen ∨ x = []) (hl : log.length ≤ maxLen) :
    (x ++ log).drop ((x ++ log).length - maxLen) = log := by
  rcases h with h | h
  · have : (x ++ log).length - maxLen = x.length := by simp; omega
    rw [this, List.drop_left]
  · subst h
    have : ([] ++ log).length - maxLen = 0 := by simp; omega
    rw [this]; rfl

/-- **`Rollback::read` with the published range gives the in-memory log back**, on any directory content that still
holds the in-memory records preceded by older ones -/
theorem read_good {r : Rb V} {m : Nat × Nat} (g : Good r m) (pre' : List (Nat × Delta V))
    (hp : ∀ x ∈ pre', ∀ y ∈ r.log, x.1 < y.1) (he : r.log = [] → pre' = []) :
    ∃ r', Rb.read r.maxLen m (pre' ++ r.log) = .ok r' ∧ r'.log = r.log ∧ Good r' m ∧ r'.maxLen = r.maxLen := by
  by_cases hl : r.log = []
  · obtain ⟨_, _, _, hm⟩ := g.empty hl
    subst hm
    refine ⟨{ log := [], pending := none, seg := {}, maxLen := r.maxLen }, ?_, hl.symm, ?_, rfl⟩
    · simp [Rb.read, liveRecs, trim]
    · exact ⟨rfl, g.maxPos, Nat.zero_le _, fun _ => ⟨rfl, rfl, rfl, rfl⟩, fun h => absurd rfl h⟩
  · obtain ⟨f, pre, hf, hids, hend, hrecs, hpre, hs0, hsf, hsl, hm2, hm0, hmf, hml⟩ := g.nonempty hl
    have hlen1 : 0 < r.log.length := List.length_pos_iff.2 hl
    have hm1 : m.1 ≠ 0 := by omega
    have hm2' : m.2 ≠ 0 := by omega
    have hpf : ∀ x ∈ pre', x.1 < f := by
      intro x hx
      cases hlog : r.log with
      | nil => exact absurd hlog hl
      | cons y rest =>
        have hy : y.1 = f := by rw [hlog] at hids; exact hids.1
        have := hp x hx y (by rw [hlog]; exact List.mem_cons_self ..)
        omega
    have hlogf : r.log.filter (fun x => decide (m.1 ≤ x.1) && decide (x.1 ≤ m.2)) = r.log := by
      apply List.filter_eq_self.2
      intro x hx
      have := hids.mem x hx
      simp only [Bool.and_eq_true, decide_eq_true_eq]; omega
    have hlogf2 : r.log.filter (fun x => decide (x.1 ≤ m.2)) = r.log := by
      apply List.filter_eq_self.2
      intro x hx
      have := hids.mem x hx
      simp only [Bool.and_eq_true, decide_eq_true_eq]; omega
    have hpref2 : pre'.filter (fun x => decide (x.1 ≤ m.2)) = pre' := by
      apply List.filter_eq_self.2
      intro x hx
      have := hpf x hx
      simp only [decide_eq_true_eq]; omega
    have hX : r.log.length = r.maxLen ∨ pre'.filter (fun x => decide (m.1 ≤ x.1) && decide (x.1 ≤ m.2)) = [] := by
      rcases hml with h | h
      · right
        apply List.filter_eq_nil_iff.2
        intro x hx
        have := hpf x hx
        simp only [Bool.and_eq_true, decide_eq_true_eq, not_and]; omega
      · exact Or.inl h
    refine ⟨{ log := r.log, pending := none,
              seg := { startLive := m.1, endLive := m.2, recs := pre' ++ r.log }, maxLen := r.maxLen }, ?_, rfl, ?_, rfl⟩
    · have hnot : ¬ ((m.1 = 0 ∧ m.2 ≠ 0) ∨ (m.1 ≠ 0 ∧ m.2 = 0)) := by omega
      unfold Rb.read
      rw [if_neg hnot]
      simp only [liveRecs, hm1, if_false, trim, List.filter_append, hlogf, hlogf2, hpref2]
      rw [trim_append_full r.maxLen _ r.log hX g.len]
    · refine ⟨rfl, g.maxPos, g.len, fun h => absurd h hl, fun _ => ?_⟩
      exact ⟨f, pre', hf, hids, (by show f + r.log.length = m.2 + 1; omega), rfl, hpf, hm0, hmf, hml, rfl, hm0, hmf, hml⟩

end Nomt.Rb
