import NomtModel.Store.BitOpsKeys
/-!
# Order properties of `separate`

Keys are compared as the Rust compares `[u8; 32]`: lexicographically by bytes, which for equal lengths is the
order of the big-endian numbers `keyNum` (`keyNum_lt_iff_lex`).
-/
namespace Nomt.BitOps

/-- a key as a 256-bit big-endian number -/
def keyNum (k : List Nat) : Nat := beVal k

theorem testBit_keyNum (k : List Nat) (hk : Bytes k) (hl : k.length = 32) (i : Nat) :
    (keyNum k).testBit i = (decide (i < 256) && bitOf k (255 - i)) := by
  unfold keyNum
  rw [testBit_beVal k hk, hl]

/-- the most significant differing bit decides -/
theorem lt_of_testBit_msb (x y e : Nat) (hx : x.testBit e = false) (hy : y.testBit e = true)
    (hh : ∀ j, e < j → x.testBit j = y.testBit j) : x < y := by
  have hq : x / 2 ^ (e + 1) = y / 2 ^ (e + 1) := by
    apply Nat.eq_of_testBit_eq
    intro i
    rw [Nat.testBit_div_two_pow, Nat.testBit_div_two_pow]
    exact hh _ (by omega)
  have hx0 : x / 2 ^ e % 2 = 0 := by
    rw [Nat.testBit_eq_decide_div_mod_eq] at hx
    have := Nat.mod_lt (x / 2 ^ e) (show 0 < 2 by decide)
    simp at hx; omega
  have hy1 : y / 2 ^ e % 2 = 1 := by
    rw [Nat.testBit_eq_decide_div_mod_eq] at hy
    simpa using hy
  have h1 := Nat.mod_pow_succ (x := x) (b := 2) (k := e)
  have h2 := Nat.mod_pow_succ (x := y) (b := 2) (k := e)
  rw [hx0] at h1
  rw [hy1] at h2
  have h3 := Nat.div_add_mod x (2 ^ (e + 1))
  have h4 := Nat.div_add_mod y (2 ^ (e + 1))
  rw [hq] at h3
  have h5 : x % 2 ^ e < 2 ^ e := Nat.mod_lt _ (Nat.pow_pos (by decide))
  simp only [Nat.mul_zero, Nat.add_zero, Nat.mul_one] at h1 h2
  omega

/-- a number whose set bits are all set in `y` is at most `y` -/
theorem le_of_submask (x y : Nat) (h : ∀ i, x.testBit i = true → y.testBit i = true) : x ≤ y := by
  have : x = x &&& y := by
    apply Nat.eq_of_testBit_eq
    intro i
    rw [Nat.testBit_and]
    cases hx : x.testBit i
    · simp
    · simp [h i hx]
  rw [this]
  exact Nat.and_le_right

/-- if `a < b` the keys differ within the first 256 bits, `a` has a 0 and `b` a 1 at the first difference -/
theorem first_difference (a b : List Nat) (ha : Bytes a) (hb : Bytes b) (hal : a.length = 32) (hbl : b.length = 32)
    (hlt : keyNum a < keyNum b) :
    prefixLen a b < 256 ∧ bitOf a (prefixLen a b) = false ∧ bitOf b (prefixLen a b) = true := by
  have hle := prefixLen_le a b
  have hlt256 : prefixLen a b < 256 := by
    apply Nat.lt_of_le_of_ne hle
    intro h
    have : a = b := by
      apply bytes_ext_bits ha hb (by omega)
      intro p hp
      exact prefixLen_agree a b p (by omega)
    rw [this] at hlt
    omega
  refine ⟨hlt256, ?_⟩
  have hd := prefixLen_differ a b hlt256
  cases hA : bitOf a (prefixLen a b) <;> cases hB : bitOf b (prefixLen a b)
  · rw [hA, hB] at hd; exact absurd rfl hd
  · exact ⟨rfl, rfl⟩
  · exfalso
    have : keyNum b < keyNum a := by
      apply lt_of_testBit_msb _ _ (255 - prefixLen a b)
      · rw [testBit_keyNum b hb hbl]
        have e : 255 - (255 - prefixLen a b) = prefixLen a b := by omega
        simp [e, hB]
      · rw [testBit_keyNum a ha hal]
        have e : 255 - (255 - prefixLen a b) = prefixLen a b := by omega
        have : 255 - prefixLen a b < 256 := by omega
        simp [e, hA, this]
      · intro j hj
        rw [testBit_keyNum a ha hal, testBit_keyNum b hb hbl]
        by_cases hj2 : j < 256
        · rw [prefixLen_agree a b (255 - j) (by omega)]
        · simp [hj2]
    omega
  · rw [hA, hB] at hd; exact absurd rfl hd

/-- the separator is strictly above `a` -/
theorem separator_gt (a b : List Nat) (ha : Bytes a) (hb : Bytes b) (hal : a.length = 32) (hbl : b.length = 32)
    (hlt : keyNum a < keyNum b) : keyNum a < keyNum (prefixPad b (prefixLen a b + 1)) := by
  obtain ⟨h256, hA, hB⟩ := first_difference a b ha hb hal hbl hlt
  have hp := bytes_prefixPad b (prefixLen a b + 1)
  have hpl := length_prefixPad b (prefixLen a b + 1)
  have e : 255 - (255 - prefixLen a b) = prefixLen a b := by omega
  have h1 : 255 - prefixLen a b < 256 := by omega
  apply lt_of_testBit_msb _ _ (255 - prefixLen a b)
  · rw [testBit_keyNum a ha hal]; simp [e, hA]
  · rw [testBit_keyNum _ hp hpl, e, bitOf_prefixPad _ _ _ h256]
    simp [h1, hB]
  · intro j hj
    rw [testBit_keyNum a ha hal, testBit_keyNum _ hp hpl]
    by_cases hj2 : j < 256
    · rw [bitOf_prefixPad _ _ _ (by omega), prefixLen_agree a b (255 - j) (by omega)]
      have : 255 - j < prefixLen a b + 1 := by omega
      simp [this]
    · simp [hj2]

/-- a zero-padded prefix of `b` is never above `b` -/
theorem prefixPad_le (b : List Nat) (hb : Bytes b) (hbl : b.length = 32) (m : Nat) : keyNum (prefixPad b m) ≤ keyNum b := by
  apply le_of_submask
  intro i hi
  rw [testBit_keyNum _ (bytes_prefixPad b m) (length_prefixPad b m)] at hi
  rw [testBit_keyNum b hb hbl]
  by_cases h : i < 256
  · rw [bitOf_prefixPad _ _ _ (by omega)] at hi
    simp [h] at hi ⊢
    exact hi.2
  · simp [h] at hi

/-- no shorter prefix of `b` separates: a prefix of at most `prefix_len a b` bits is not above `a` -/
theorem prefixPad_short_le (a b : List Nat) (ha : Bytes a) (hal : a.length = 32) (m : Nat) (hm : m ≤ prefixLen a b) :
    keyNum (prefixPad b m) ≤ keyNum a := by
  apply le_of_submask
  intro i hi
  rw [testBit_keyNum _ (bytes_prefixPad b m) (length_prefixPad b m)] at hi
  rw [testBit_keyNum a ha hal]
  by_cases h : i < 256
  · rw [bitOf_prefixPad _ _ _ (by omega)] at hi
    simp [h] at hi ⊢
    rw [prefixLen_agree a b (255 - i) (by omega)]
    exact hi.2
  · simp [h] at hi

/-- the order of the Rust on `[u8; 32]` (lexicographic by bytes = `<` on `List Nat`) is the numeric order of `keyNum` -/
theorem beVal_lt_iff_lex : ∀ (a b : List Nat), Bytes a → Bytes b → a.length = b.length → (beVal a < beVal b ↔ a < b) := by
  intro a
  induction a with
  | nil =>
    intro b _ _ hl
    have : b = [] := by cases b <;> simp_all
    subst this; simp [beVal]
  | cons x r ih =>
    intro b ha hb hl
    cases b with
    | nil => simp at hl
    | cons y s =>
      have hx : Bytes r := fun z hz => ha z (List.mem_cons_of_mem _ hz)
      have hy : Bytes s := fun z hz => hb z (List.mem_cons_of_mem _ hz)
      have hrs : r.length = s.length := by simpa using hl
      have h1 := beVal_lt r hx
      have h2 := beVal_lt s hy
      rw [List.cons_lt_cons_iff, ← ih s hx hy hrs]
      simp only [beVal, hrs] at *
      have hpos : 0 < 2 ^ (8 * s.length) := Nat.pow_pos (by decide)
      constructor
      · intro h
        by_cases hxy : x < y
        · left; exact hxy
        · by_cases hxy2 : x = y
          · right; subst hxy2; exact ⟨rfl, by omega⟩
          · exfalso
            have : y + 1 ≤ x := by omega
            have := Nat.mul_le_mul_left (2 ^ (8 * s.length)) this
            rw [Nat.mul_succ] at this
            omega
      · rintro (h | ⟨h, h'⟩)
        · have : x + 1 ≤ y := by omega
          have := Nat.mul_le_mul_left (2 ^ (8 * s.length)) this
          rw [Nat.mul_succ] at this
          omega
        · subst h; omega

end Nomt.BitOps
