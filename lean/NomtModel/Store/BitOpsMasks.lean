import NomtModel.Store.BitOpsBits
/-!
# `first_chunk_mask` / `last_chunk_mask`, the effective masks of a chunk, and the word-level form of the
byte fix-ups of `bitwise_memcpy`
-/
namespace Nomt.BitOps

theorem testBit_M64 (i : Nat) : M64.testBit i = decide (i < 64) := Nat.testBit_two_pow_sub_one 64 i

theorem and_M64 {x : Nat} (h : x < 2 ^ 64) : x &&& M64 = x := by
  unfold M64
  rw [Nat.and_two_pow_sub_one_eq_mod, Nat.mod_eq_of_lt h]

/-- `first_chunk_mask(bs)` for `bs ≤ 7`: the low `64 − bs` bits -/
theorem firstChunkMask_eq (bs : Nat) (h : bs ≤ 7) : firstChunkMask bs = some (2 ^ (64 - bs) - 1) := by
  unfold firstChunkMask checkedShl64
  have h1 : ¬ (7 < bs) := by omega
  simp only [h1, if_false]
  by_cases h0 : bs = 0
  · subst h0; simp [M64]
  · have e : 7 - bs + 1 + 8 * 7 = 64 - bs := by omega
    have : 64 - bs < 64 := by omega
    simp only [e, this, if_true]

theorem first_chunk_mask_panics (bs : Nat) (h : 7 < bs) : firstChunkMask bs = none := by
  simp [firstChunkMask, h]

/-- the first `used` bits (Msb0) of a 64-bit word -/
def lcmVal (used : Nat) : Nat := M64 ^^^ (2 ^ (64 - used) - 1)

theorem testBit_lcmVal (used i : Nat) : (lcmVal used).testBit i = decide (64 - used ≤ i ∧ i < 64) := by
  unfold lcmVal
  rw [Nat.testBit_xor, testBit_M64, Nat.testBit_two_pow_sub_one]
  by_cases h1 : i < 64 <;> by_cases h2 : i < 64 - used <;> simp [h1, h2] <;> omega

theorem lcmVal_lt (used : Nat) : lcmVal used < 2 ^ 64 := by
  apply Nat.lt_pow_two_of_testBit
  intro i hi
  rw [testBit_lcmVal]
  simp; omega

/-- `last_chunk_mask(bs, len, n)` for `n ≥ 1` and fewer than `2^32` used bits -/
theorem lastChunkMask_eq (bs len n : Nat) (hn : 0 < n) (hu : bs + len - (n - 1) * 64 < 2 ^ 32) :
    lastChunkMask bs len n = some (lcmVal (bs + len - (n - 1) * 64)) := by
  unfold lastChunkMask checkedShl64 lcmVal
  have h1 : n ≠ 0 := by omega
  simp only [h1, if_false, Nat.mod_eq_of_lt hu]
  by_cases h0 : bs + len - (n - 1) * 64 = 0
  · rw [h0]; simp [M64]
  · have : 64 - (bs + len - (n - 1) * 64) < 64 := by omega
    simp only [this, if_true]

theorem last_chunk_mask_panics (bs len : Nat) : lastChunkMask bs len 0 = none := by
  simp [lastChunkMask]

/-! ## the effective masks of chunk `ci` (a middle chunk has none, which is the same as all-ones) -/

def effMaskG (first last : Bool) (bs used : Nat) : Nat :=
  (if first then 2 ^ (64 - bs) - 1 else M64) &&& (if last then lcmVal used else M64)

theorem testBit_effMaskG (first last : Bool) (bs used i : Nat) :
    (effMaskG first last bs used).testBit i =
      decide (i < 64 ∧ (first = false ∨ i < 64 - bs) ∧ (last = false ∨ 64 - used ≤ i)) := by
  unfold effMaskG
  rw [Nat.testBit_and]
  cases first <;> cases last <;>
    simp only [if_true, if_false, Nat.testBit_two_pow_sub_one, testBit_M64, testBit_lcmVal, Bool.false_eq_true] <;>
    by_cases h2 : i < 64 <;> simp [h2] <;> omega

def effMask (bs len n ci : Nat) : Nat :=
  (if ci = 0 then 2 ^ (64 - bs) - 1 else M64) &&& (if ci = n - 1 then lcmVal (bs + len - (n - 1) * 64) else M64)

theorem testBit_effMask (bs len n ci i : Nat) :
    (effMask bs len n ci).testBit i =
      decide (i < 64 ∧ (ci ≠ 0 ∨ i < 64 - bs) ∧ (ci ≠ n - 1 ∨ 64 - (bs + len - (n - 1) * 64) ≤ i)) := by
  have h := testBit_effMaskG (decide (ci = 0)) (decide (ci = n - 1)) bs (bs + len - (n - 1) * 64) i
  simp only [effMaskG, decide_eq_true_eq, decide_eq_false_iff_not] at h
  exact h

theorem effMask_lt (bs len n ci : Nat) : effMask bs len n ci < 2 ^ 64 := by
  apply Nat.lt_pow_two_of_testBit
  intro i hi
  rw [testBit_effMask]
  simp; omega

theorem shiftedChunk_none (dst : List Nat) (doff chunk : Nat) (sh : Shift) (hc : chunk < 2 ^ 64) :
    shiftedChunk dst doff chunk none sh = shiftedChunk dst doff chunk (some (M64, M64)) sh := by
  unfold shiftedChunk
  simp only [and_M64 hc, Nat.xor_self, Nat.and_zero, Nat.or_zero]

/-- under the contract the masks the Rust computes act as the effective masks -/
theorem chunkMasks_eff (dst : List Nat) (doff chunk : Nat) (sh : Shift) (hc : chunk < 2 ^ 64)
    (dbs sbs len n ci : Nat) (hs : sbs ≤ 7) (hd : dbs ≤ 7) (hn : 0 < n)
    (hus : sbs + len - (n - 1) * 64 < 2 ^ 32) (hud : dbs + len - (n - 1) * 64 < 2 ^ 32) :
    ∃ m, chunkMasks dbs sbs len n ci = some m ∧
      shiftedChunk dst doff chunk m sh =
        shiftedChunk dst doff chunk (some (effMask sbs len n ci, effMask dbs len n ci)) sh := by
  unfold chunkMasks effMask
  rw [firstChunkMask_eq sbs hs, firstChunkMask_eq dbs hd, lastChunkMask_eq sbs len n hn hus,
    lastChunkMask_eq dbs len n hn hud]
  have hf : ∀ bs, 2 ^ (64 - bs) - 1 < 2 ^ 64 := by
    intro bs
    have : 2 ^ (64 - bs) ≤ 2 ^ 64 := Nat.pow_le_pow_right (by decide) (by omega)
    have : 0 < 2 ^ (64 - bs) := Nat.pow_pos (by decide)
    omega
  by_cases h0 : ci = 0 <;> by_cases h1 : ci = n - 1
  · simp only [if_pos h0, if_pos h1]
    exact ⟨_, rfl, rfl⟩
  · simp only [if_pos h0, if_neg h1]
    refine ⟨_, rfl, ?_⟩
    rw [and_M64 (hf sbs), and_M64 (hf dbs)]
  · simp only [if_neg h0, if_pos h1]
    refine ⟨_, rfl, ?_⟩
    show shiftedChunk dst doff chunk (some (M64 &&& lcmVal _, M64 &&& lcmVal _)) sh = _
    rw [Nat.and_comm M64, Nat.and_comm M64, and_M64 (lcmVal_lt _), and_M64 (lcmVal_lt _)]
  · simp only [if_neg h0, if_neg h1]
    refine ⟨_, rfl, ?_⟩
    show shiftedChunk dst doff chunk none sh = _
    rw [shiftedChunk_none _ _ _ _ hc, Nat.and_self]

/-! ## the byte fix-ups, at word level -/

theorem setIdx7_toBE (w r : Nat) (hr : r < 256) :
    setIdx (toBE w) 7 ((toBE w).getD 7 0 ||| r) = toBE (w ||| r) := by
  have h8 : (256 : Nat) = 2 ^ 8 := by decide
  have hz : ∀ k, 8 ≤ k → r >>> k = 0 := by
    intro k hk
    apply Nat.shiftRight_eq_zero
    exact Nat.lt_of_lt_of_le (h8 ▸ hr) (Nat.pow_le_pow_right (by decide) hk)
  simp only [toBE, setIdx, List.set, List.getD_eq_getElem?_getD]
  simp only [Nat.shiftRight_or_distrib, hz 56 (by decide), hz 48 (by decide), hz 40 (by decide), hz 32 (by decide),
    hz 24 (by decide), hz 16 (by decide), hz 8 (by decide), Nat.or_zero]
  rw [h8, Nat.or_mod_two_pow, ← h8, Nat.mod_eq_of_lt hr]
  simp

theorem setIdx0_toBE (w r : Nat) (hw : w < 2 ^ 64) (hr : r < 256) :
    setIdx (toBE w) 0 ((toBE w).getD 0 0 ||| r) = toBE (w ||| r <<< 56) := by
  have h8 : (256 : Nat) = 2 ^ 8 := by decide
  have hm : ∀ k, k ≤ 48 → (r <<< 56) >>> k % 256 = 0 := by
    intro k hk
    apply Nat.eq_of_testBit_eq
    intro i
    rw [h8, Nat.testBit_mod_two_pow, Nat.testBit_shiftRight, Nat.testBit_shiftLeft, Nat.zero_testBit]
    by_cases hi : i < 8
    · by_cases h2 : k + i ≥ 56
      · omega
      · simp [h2]
    · simp [hi]
  have h56 : (r <<< 56) >>> 56 = r := by
    rw [Nat.shiftLeft_eq, Nat.shiftRight_eq_div_pow, Nat.mul_div_cancel _ (Nat.pow_pos (by decide))]
  have hw56 : w >>> 56 < 256 := by
    rw [Nat.shiftRight_eq_div_pow]
    apply Nat.div_lt_of_lt_mul
    have : (2 : Nat) ^ 56 * 256 = 2 ^ 64 := by decide
    omega
  simp only [toBE, setIdx, List.set, List.getD_eq_getElem?_getD]
  simp only [Nat.shiftRight_or_distrib]
  rw [h8, Nat.or_mod_two_pow, Nat.or_mod_two_pow, Nat.or_mod_two_pow, Nat.or_mod_two_pow, Nat.or_mod_two_pow,
    Nat.or_mod_two_pow, Nat.or_mod_two_pow, Nat.or_mod_two_pow, ← h8]
  have e0 : (r <<< 56) % 256 = 0 := by simpa using hm 0 (by decide)
  rw [hm 48 (by decide), hm 40 (by decide), hm 32 (by decide), hm 24 (by decide), hm 16 (by decide),
    hm 8 (by decide), e0, h56, Nat.mod_eq_of_lt hr, Nat.mod_eq_of_lt hw56]
  simp

end Nomt.BitOps
