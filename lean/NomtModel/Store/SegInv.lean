import NomtModel.Store.SegEffs
/-!
# The operations re-establish the consistency invariant

`Inv` is kept by `append` (with and without roll-over), `prune_oldest`, `prune_recent`, and established by a
successful `open` on any recoverable directory — so the one-step theorems chain over whole histories.
-/
namespace Nomt.Seg

theorem setLast_append_single (g : SegMeta → SegMeta) : ∀ (l : List SegMeta) (x : SegMeta), setLast g (l ++ [x]) = l ++ [g x]
  | [], x => rfl
  | [y], x => rfl
  | y :: z :: l, x => by
    have := setLast_append_single g (z :: l) x
    simp only [List.cons_append] at this ⊢
    simp only [setLast, this]

theorem withTail_full (base : Dir) (hid : Nat) (recs0 : List Rec) (r : Rec) :
    withTail base hid recs0 r r.size = base ++ [(hid, ⟨recs0 ++ [r], none⟩)] := by
  have hs0 : r.size ≠ 0 := by have := r.size_pos; omega
  simp [withTail, hs0]

theorem append_inv (L : Log) (i0 a : Nat) (d : Dir) (p : List UInt8) (I : Inv L d i0 a) (hp : p.length ≤ MAXPAY)
    (h32 : i0 + d.length + 1 < U32) : Inv (append L d p).log (append L d p).dir i0 a := by
  obtain ⟨base, hid, recs0, hd, hr0⟩ := I.split
  subst hd
  have hst : L.startLive ≠ 0 := by have := I.hstart; omega
  have hcl : ∀ x ∈ base, x.2.torn = none := fun x hx => (I.hclean x (by simp [hx])).1
  have hend := I.hend
  have ha : a ≤ L.endLive + 1 := by omega
  have hids0 : IdsFrom (a + (flatRecs base).length) recs0 := (recsFrom_append _ base [_] a I.hrec (by simp)).2.2.1
  have hlen0 : 0 < recs0.length := List.length_pos_iff.mpr hr0
  rw [flatRecs_append, List.length_append, flatRecs_single] at hend
  simp only at hend
  by_cases hroom : recsSize recs0 < L.maxSeg
  · rw [append_noroll L i0 a base hid recs0 p I hp hroom]
    simp only
    obtain ⟨R, _⟩ := withTail_full_recoverable 1 L.endLive i0 a base hid recs0 ⟨L.endLive + 1, p⟩ (by omega) (by omega)
      I.hi I.hseg I.hrec hcl ha I.hend rfl
    rw [withTail_full] at R ⊢
    have hids1 : IdsFrom (a + (flatRecs base).length) (recs0 ++ [⟨L.endLive + 1, p⟩]) := by
      rw [idsFrom_append]; exact ⟨hids0, by simp only; omega, trivial⟩
    refine ⟨I.hi, R.hseg, R.hrec, ?_, by simp, I.ha, ?_, ?_, ?_, ?_, ?_⟩
    · intro x hx
      rcases List.mem_append.mp hx with hx | hx
      · exact I.hclean x (by simp [hx])
      · simp at hx; subst hx; exact ⟨rfl, by simp⟩
    · rw [flatRecs_append, List.length_append, flatRecs_single]
      simp only [afterAppend, List.length_append, List.length_cons, List.length_nil]; omega
    · simp only [afterAppend, hst, if_false]; have := I.hstart; omega
    · simp only [afterAppend, I.hsegs, List.map_append, List.map_cons, List.map_nil, setLast_append_single]
      congr 2
      rw [metaOf_clean hid _ recs0 hids0 hr0, metaOf_clean hid _ _ hids1 (by simp)]
      have hnx : a + (flatRecs base).length ≠ 0 := by have := I.ha; omega
      simp only [hnx, if_false, List.length_append, List.length_cons, List.length_nil]
      congr 1; omega
    · simp [afterAppend, SegFile.size, tornLen, recsSize_append, recsSize]
    · simpa using I.hid32
  · rw [append_roll L i0 a base hid recs0 p I hp (by omega)]
    simp only
    have hsegNew : SegIdsFrom i0 ((base ++ [(hid, (⟨recs0, none⟩ : SegFile))]) ++ [(i0 + (base.length + 1), ⟨[], none⟩)]) := by
      rw [segIdsFrom_append]
      exact ⟨I.hseg, by simp, trivial⟩
    have hrecNew : RecsFrom L.endLive a ((base ++ [(hid, (⟨recs0, none⟩ : SegFile))]) ++ [(i0 + (base.length + 1), ⟨[], none⟩)]) := by
      apply recsFrom_join _ _ _ _ I.hclean I.hrec
      exact ⟨trivial, by simp, trivial, trivial⟩
    have hend0 : a + (flatRecs ((base ++ [(hid, (⟨recs0, none⟩ : SegFile))]) ++ [(i0 + (base.length + 1), ⟨[], none⟩)])).length
        = L.endLive + 1 := by
      rw [flatRecs_append, List.length_append, flatRecs_single]; simp only [List.length_nil, Nat.add_zero]; exact I.hend
    obtain ⟨R, _⟩ := withTail_full_recoverable 1 L.endLive i0 a _ (i0 + (base.length + 1)) [] ⟨L.endLive + 1, p⟩
      (by omega) (by omega) I.hi hsegNew hrecNew (fun x hx => (I.hclean x hx).1) ha hend0 rfl
    rw [withTail_full] at R ⊢
    simp only [List.nil_append] at R ⊢
    have hids1 : IdsFrom (L.endLive + 1) [(⟨L.endLive + 1, p⟩ : Rec)] := ⟨rfl, trivial⟩
    refine ⟨I.hi, R.hseg, R.hrec, ?_, by simp, I.ha, ?_, ?_, ?_, ?_, ?_⟩
    · intro x hx
      rcases List.mem_append.mp hx with hx | hx
      · exact I.hclean x hx
      · simp at hx; subst hx; exact ⟨rfl, by simp⟩
    · rw [flatRecs_append, List.length_append, flatRecs_single, flatRecs_append, List.length_append, flatRecs_single]
      simp only [afterAppend, List.length_cons, List.length_nil]; omega
    · simp only [afterAppend, hst, if_false]; have := I.hstart; omega
    · simp only [afterAppend, I.hsegs, setLast_append_single, List.map_append, List.map_cons, List.map_nil]
      rw [metaOf_clean _ (L.endLive + 1) _ hids1 (by simp)]
      simp
    · simp [afterAppend, SegFile.size, tornLen, recsSize]
    · simp only [List.length_append, List.length_cons, List.length_nil] at h32 ⊢; omega

theorem metaOf_min (y : Nat × SegFile) (x : Rec) (l : List Rec) (h : y.2.recs = x :: l) : (metaOf y).min = x.id := by
  have hf : ∃ l', frameRecs y.2 = x :: l' := by
    unfold frameRecs
    cases y.2.torn with
    | none => exact ⟨l, h⟩
    | some rk =>
      obtain ⟨r, k⟩ := rk
      simp only
      split
      · exact ⟨l, h⟩
      · exact ⟨l ++ [r], by rw [h]; rfl⟩
  obtain ⟨l', hl'⟩ := hf
  have h0 : foldMin none (x :: l') = foldMin (some x.id) l' := rfl
  simp [metaOf, hl', h0, foldMin_some]

/-- the live files with the head cut after `n`, described by the segments list with the head's `max` set to `n` -/
theorem inv_of_cut (maxSeg s n i a e' : Nat) (M : Dir) (y : Nat × SegFile) (hi : 0 < i)
    (hseg : SegIdsFrom i (M ++ [y])) (hrec : RecsFrom e' a (M ++ [y])) (ha : 0 < a) (hs : 0 < s) (hsn : s ≤ n)
    (hny : a + (flatRecs M).length ≤ n) (hey : n < a + (flatRecs M).length + y.2.recs.length)
    (h32 : i + (M.length + 1) < U32) :
    Inv ⟨maxSeg, s, n, setLast (fun m => { m with max := n }) ((M ++ [y]).map metaOf),
         some (recsSize (y.2.recs.take (n - (a + (flatRecs M).length) + 1)))⟩
      (liveDir M y (n - (a + (flatRecs M).length) + 1)) i a := by
  obtain ⟨hMclean, _, hyrec⟩ := recsFrom_append e' M [y] a hrec (by simp)
  have hyids : IdsFrom (a + (flatRecs M).length) y.2.recs := hyrec.1
  have hm : n - (a + (flatRecs M).length) + 1 ≤ y.2.recs.length := by omega
  have hcutids : IdsFrom (a + (flatRecs M).length) (y.2.recs.take (n - (a + (flatRecs M).length) + 1)) :=
    idsFrom_take _ _ _ hyids
  have hcutne : y.2.recs.take (n - (a + (flatRecs M).length) + 1) ≠ [] := by
    intro h
    have := congrArg List.length h
    simp only [List.length_take, List.length_nil] at this
    omega
  have hcutlen : (y.2.recs.take (n - (a + (flatRecs M).length) + 1)).length = n - (a + (flatRecs M).length) + 1 := by
    rw [List.length_take]; omega
  have hsegcut : SegIdsFrom i (liveDir M y (n - (a + (flatRecs M).length) + 1)) := by
    unfold liveDir
    rw [segIdsFrom_append] at hseg ⊢
    exact ⟨hseg.1, hseg.2.1, trivial⟩
  have hrec' := recsFrom_cut_last e' M y a (n - (a + (flatRecs M).length) + 1) hrec
  have hallclean : ∀ x ∈ liveDir M y (n - (a + (flatRecs M).length) + 1), x.2.torn = none ∧ x.2.recs ≠ [] := by
    intro x hx
    rcases List.mem_append.mp hx with hx | hx
    · exact hMclean x hx
    · simp at hx; subst hx; exact ⟨rfl, hcutne⟩
  refine ⟨hi, hsegcut, recsFrom_change_e e' n _ a (fun x hx => (hallclean x hx).1) hrec', hallclean, by simp [liveDir],
    ha, ?_, ⟨hs, hsn⟩, ?_, ?_, ?_⟩
  · simp only [liveDir]
    rw [flatRecs_append, List.length_append, flatRecs_single]
    simp only [hcutlen]; omega
  · -- the segments list
    simp only [liveDir, List.map_append, List.map_cons, List.map_nil, setLast_append_single]
    congr 2
    obtain ⟨x, l, hxl⟩ : ∃ x l, y.2.recs = x :: l := by
      cases hr : y.2.recs with
      | nil => rw [hr] at hey; simp at hey; omega
      | cons x l => exact ⟨x, l, rfl⟩
    have hmin := metaOf_min y x l hxl
    have hxid : x.id = a + (flatRecs M).length := by rw [hxl] at hyids; exact hyids.1
    rw [metaOf_clean y.1 _ _ hcutids hcutne, hcutlen]
    have : (metaOf y).id = y.1 := rfl
    cases hmy : metaOf y with
    | mk mid mmin mmax =>
      rw [hmy] at hmin this
      simp only at hmin this ⊢
      rw [this, hmin, hxid]
      congr 1; omega
  · simp [liveDir, SegFile.size, tornLen]
  · simp only [liveDir, List.length_append, List.length_cons, List.length_nil]; exact h32

theorem pruneRecent_inv (L : Log) (d : Dir) (i0 a n : Nat) (I : Inv L d i0 a) (hn1 : a ≤ n) (hn2 : n ≤ L.endLive)
    (hsn : L.startLive ≤ n) : Inv (pruneRecent L d n).log (pruneRecent L d n).dir i0 a := by
  obtain ⟨M, T, y, ny, hd, _, hny, hnye, hey, _, hdir, _, _, _, hlog⟩ := pruneRecent_spec L d i0 a n I hn1 hn2
  rw [hdir, hlog]
  subst hny
  have hseg : SegIdsFrom i0 (M ++ [y]) := ((segIdsFrom_append _ T _).mp (hd ▸ I.hseg)).1
  have hrec : RecsFrom L.endLive a (M ++ [y]) := recsFrom_prefix _ _ T a (hd ▸ I.hrec)
  have h32 : i0 + (M.length + 1) < U32 := by
    have := I.hid32
    rw [hd] at this
    simp only [List.length_append, List.length_cons, List.length_nil] at this
    omega
  exact inv_of_cut L.maxSeg L.startLive n i0 a L.endLive M y I.hi hseg hrec I.ha I.hstart.1 hsn hnye hey h32

theorem pruneOldest_inv (L : Log) (d : Dir) (i0 a n : Nat) (I : Inv L d i0 a) (hn1 : L.startLive ≤ n) (hn2 : n ≤ L.endLive) :
    ∃ i0' a', Inv (pruneOldest L d n).log (pruneOldest L d n).dir i0' a' := by
  obtain ⟨A, B, hd, hB, _, hres⟩ := pruneOldest_spec L d i0 a n I hn1 hn2
  rw [hres]
  simp only
  obtain ⟨_, _, hrecB⟩ := recsFrom_append _ A B a (hd ▸ I.hrec) hB
  have hsegB : SegIdsFrom (i0 + A.length) B := ((segIdsFrom_append A B i0).mp (hd ▸ I.hseg)).2
  refine ⟨i0 + A.length, a + (flatRecs A).length, ⟨by have := I.hi; omega, hsegB, hrecB, ?_, hB, by have := I.ha; omega, ?_,
    ⟨by have := I.hstart; show 0 < n; omega, hn2⟩, rfl, ?_, ?_⟩⟩
  · intro x hx; exact I.hclean x (by rw [hd]; simp [hx])
  · have := I.hend
    rw [hd, flatRecs_append, List.length_append] at this
    simp only; omega
  · simp only
    rw [I.hhead, hd, List.getLast?_append]
    cases hb : B.getLast? with
    | none => exact absurd (List.getLast?_eq_none_iff.mp hb) hB
    | some z => simp
  · have := I.hid32
    rw [hd, List.length_append] at this
    omega

/-- a successful `open` leaves a consistent state -/
theorem open_inv (maxSeg s e i0 a : Nat) (d : Dir) (R : Recoverable s e i0 a d) (ha : 0 < a) (h32 : i0 + d.length < U32) :
    ∃ L recs i0' a', (openM maxSeg s e d).out = .ok (L, recs) ∧ Inv L (openM maxSeg s e d).dir i0' a' := by
  obtain ⟨P, D, T, y, ny, hd, _, _, hny, hnye, hey, _, hdir, hout⟩ :=
    open_ok maxSeg s e i0 a d R.hs R.hse R.hi R.hseg R.hrec R.hae R.heb
  refine ⟨_, _, i0 + P.length, a + (flatRecs P).length, hout, ?_⟩
  rw [hdir]
  have hd2 : d = P ++ ((D ++ [y]) ++ T) := by rw [hd]; simp
  have hsegL : SegIdsFrom (i0 + P.length) (D ++ [y]) :=
    ((segIdsFrom_append _ T _).mp ((segIdsFrom_append P _ i0).mp (hd2 ▸ R.hseg)).2).1
  have hrecL : RecsFrom e (a + (flatRecs P).length) (D ++ [y]) :=
    recsFrom_prefix e _ T _ (recsFrom_append e P _ a (hd2 ▸ R.hrec) (by simp)).2.2
  have hnyeq : ny = a + (flatRecs P).length + (flatRecs D).length := by
    rw [hny, flatRecs_append, List.length_append]; omega
  have h32' : i0 + P.length + (D.length + 1) < U32 := by
    rw [hd] at h32
    simp only [List.length_append, List.length_cons, List.length_nil] at h32
    omega
  have := inv_of_cut maxSeg s e (i0 + P.length) (a + (flatRecs P).length) e D y (by have := R.hi; omega) hsegL hrecL
    (by omega) R.hs R.hse (by omega) (by omega) h32'
  rw [← hnyeq] at this
  exact this

/-! ## the empty log -/

/-- the state after `open(0, 0)` / after pruning everything: no segment, no writer, range `(0, 0)` -/
def InvEmpty (L : Log) (d : Dir) : Prop :=
  d = [] ∧ L.segs = [] ∧ L.head = none ∧ L.startLive = 0 ∧ L.endLive = 0

theorem open_empty_inv (maxSeg i0 : Nat) (d : Dir) (hi : 0 < i0) (hseg : SegIdsFrom i0 d) :
    ∃ L, (openM maxSeg 0 0 d).out = .ok (L, []) ∧ InvEmpty L (openM maxSeg 0 0 d).dir := by
  rw [open_empty maxSeg i0 d hi hseg]
  exact ⟨_, rfl, rfl, rfl, rfl, rfl, rfl⟩

/-- the first append creates segment 1 with record 1 -/
theorem append_from_empty (L : Log) (p : List UInt8) (hp : p.length ≤ MAXPAY) (E : InvEmpty L []) :
    (append L [] p).out = .ok 1 ∧ Inv (append L [] p).log (append L [] p).dir 1 1 ∧
      flatRecs (append L [] p).dir = [⟨1, p⟩] := by
  obtain ⟨_, hsegs, hhead, hs, he⟩ := E
  have hp' : ¬ p.length > MAXPAY := by omega
  have hgen : genSegmentId L.segs = 1 := by rw [hsegs]; decide
  have hnext : nextPos (0 + HDR) p.length = Rec.size ⟨1, p⟩ := by
    have := nextPos_aligned 0 p.length (by simp)
    simpa [Rec.size] using this
  have hsegNew : ∀ f, SegIdsFrom 1 (([] : Dir) ++ [(1, f)]) := fun f => ⟨rfl, trivial⟩
  obtain ⟨j, _, _, hj, himg⟩ := appendEffs_images 1 [] 1 [] ⟨1, p⟩ hsegNew 4
  have hj' := hj (by omega)
  subst hj'
  have htk : (appendEffs 1 (recsSize []) ⟨1, p⟩).take 4 = appendEffs 1 0 ⟨1, p⟩ := by simp [appendEffs, recsSize]
  rw [htk, withTail_full] at himg
  simp only [List.nil_append] at himg
  have hres : append L [] p = ⟨[(1, ⟨[⟨1, p⟩], none⟩)],
      afterAppend { L with segs := L.segs ++ [⟨1, L.endLive + 1, L.endLive + 1⟩], head := some 0 } (L.endLive + 1) (Rec.size ⟨1, p⟩),
      [.create 1] ++ (appendEffs 1 0 ⟨1, p⟩ ++ [.dirsync]), .ok 1⟩ := by
    unfold append
    simp only [hp', if_false, hhead, if_true, hgen, lookup, List.find?_nil, Option.map_none, Option.isSome_none,
      Bool.false_eq_true]
    unfold appendWrite
    rw [he]
    simp only [hnext, if_true]
    have hcreate : applyEff ([] : Dir) (.create 1) = [(1, ⟨[], none⟩)] := rfl
    rw [hcreate]
    have heffs : [FsEff.write 1 ⟨0 + 1, p⟩ HDR, .write 1 ⟨0 + 1, p⟩ (HDR + p.length),
        .setLen 1 (Rec.size ⟨1, p⟩), .fsync 1] = appendEffs 1 0 ⟨1, p⟩ := by simp [appendEffs]
    rw [heffs, applyEffs_append, himg]
    rfl
  rw [hres]
  refine ⟨rfl, ?_, by simp [flatRecs]⟩
  have hids : IdsFrom 1 [(⟨1, p⟩ : Rec)] := ⟨rfl, trivial⟩
  refine ⟨by decide, ⟨rfl, trivial⟩, ⟨hids, by simp, trivial, trivial⟩, ?_, by simp, by decide, ?_, ?_, ?_, ?_, ?_⟩
  rotate_left 5
  · show 1 + 1 < U32; decide
  · intro x hx; simp at hx; subst hx; exact ⟨rfl, by simp⟩
  · simp [afterAppend, flatRecs, he]
  · simp [afterAppend, hs, he]
  · simp only [afterAppend, hsegs, List.nil_append, setLast, he, List.map_cons, List.map_nil]
    rw [metaOf_clean 1 1 _ hids (by simp)]
    simp
  · simp [afterAppend, SegFile.size, tornLen, recsSize]

/-- pruning to nil removes every segment file (oldest first) and leaves the empty log -/
theorem removeAll_empty (L : Log) (d : Dir) (i0 a : Nat) (I : Inv L d i0 a) :
    InvEmpty (removeAll L d).log (removeAll L d).dir := by
  have hd : applyEffs d (L.segs.map (fun s => FsEff.unlink s.id)) = [] := by
    rw [I.hsegs]
    have h1 : (d.map metaOf).map (fun s => FsEff.unlink s.id) = d.map (fun x => FsEff.unlink x.1) := by
      simp [metaOf, Function.comp_def]
    rw [h1]
    have := unlink_front i0 d [] (by simpa using I.hseg)
    simpa using this
  exact ⟨hd, rfl, rfl, rfl, rfl⟩

end Nomt.Seg
