import NomtModel.Store.IoPoolWait
/-!
# The waiting loops and the `Fsyncer`: lemmas
-/
namespace Nomt.IoPool

/-- the first result that is not `Ok` (in arrival order), `Ok` if there is none -/
def firstErr : List IoRes → IoRes
  | [] => .ok
  | r :: rs => if r = .ok then firstErr rs else r

theorem firstErr_ok_iff (rs : List IoRes) : firstErr rs = .ok ↔ ∀ x ∈ rs, x = .ok := by
  induction rs with
  | nil => simp [firstErr]
  | cons r rs ih =>
    unfold firstErr
    by_cases h : r = .ok
    · simp [h, ih]
    · simp [h]

@[simp] theorem firstErr_cons_ok (rs : List IoRes) : firstErr (.ok :: rs) = firstErr rs := by simp [firstErr]
theorem firstErr_cons_ne {r : IoRes} (rs : List IoRes) (h : r ≠ .ok) : firstErr (r :: rs) = r := by simp [firstErr, h]

theorem recvAll_spec : ∀ (rs : List IoRes) (n : Nat), rs.length = n →
    ∃ rest, recvAll n rs = some (firstErr rs, rest) ∧ (firstErr rs = .ok → rest = []) ∧
      (firstErr rs ≠ .ok → ∃ pre, rs = pre ++ firstErr rs :: rest ∧ ∀ x ∈ pre, x = .ok) := by
  intro rs
  induction rs with
  | nil => intro n h; subst h; exact ⟨[], rfl, fun _ => rfl, fun h => absurd rfl h⟩
  | cons r rs ih =>
    intro n h
    cases n with
    | zero => simp at h
    | succ n =>
      simp at h
      by_cases hr : r = .ok
      · subst hr
        obtain ⟨rest, e, h1, h2⟩ := ih n h
        refine ⟨rest, by simp [recvAll, e], by simpa using h1, ?_⟩
        intro hne
        simp at hne
        obtain ⟨pre, e2, h3⟩ := h2 hne
        refine ⟨.ok :: pre, by simp; exact e2, ?_⟩
        intro x hx
        cases hx with
        | head => rfl
        | tail _ hx => exact h3 x hx
      · rw [firstErr_cons_ne rs hr]
        exact ⟨rs, by simp [recvAll, hr], fun h => absurd h hr, fun _ => ⟨[], by simp, by simp⟩⟩

theorem writeHtLoop_spec : ∀ (rs : List IoRes) (n : Nat) (acc : IoRes), rs.length = n →
    writeHtLoop n acc rs = some (if acc = .ok then firstErr rs else acc, []) := by
  intro rs
  induction rs with
  | nil => intro n acc h; subst h; simp [writeHtLoop, firstErr]
  | cons r rs ih =>
    intro n acc h
    cases n with
    | zero => simp at h
    | succ n =>
      simp at h
      unfold writeHtLoop
      rw [ih n _ h]
      by_cases ha : acc = .ok <;> by_cases hr : r = .ok
      · subst ha hr; simp
      · subst ha; simp [hr, firstErr_cons_ne rs hr]
      · simp [ha]
      · simp [ha]

/-- fewer arrivals than counted: the loop blocks for ever -/
theorem recvAll_blocks : ∀ (rs : List IoRes) (n : Nat), rs.length < n → (∀ x ∈ rs, x = .ok) → recvAll n rs = none := by
  intro rs
  induction rs with
  | nil => intro n h _; cases n with | zero => omega | succ n => rfl
  | cons r rs ih =>
    intro n h hall
    cases n with
    | zero => simp at h
    | succ n =>
      simp at h
      unfold recvAll
      have : r = .ok := hall r List.mem_cons_self
      simp [this]
      exact ih n (by omega) (fun x hx => hall x (List.mem_cons_of_mem _ hx))

/-! ## `Fsyncer` -/

structure FInv (s : Fs) : Prop where
  gens : s.waits.map (·.1) = List.range' 1 s.waits.length
  state : match s.st with
    | .idle => s.running = none ∧ s.syncs = s.waits ∧ s.waits.length = s.req
    | .started => s.syncs = s.waits ∧ s.waits.length + 1 = s.req ∧ (s.running = none ∨ s.running = some s.req)
    | .done r g => s.running = none ∧ s.syncs = s.waits ++ [(g, r)] ∧ g = s.req ∧ s.waits.length + 1 = s.req
    | .handleDead => True

theorem FInv_init : FInv {} := ⟨rfl, ⟨rfl, rfl, rfl⟩⟩

theorem FInv_step {s : Fs} (a : FsAct) (h : FInv s) : FInv (fsStep s a) := by
  obtain ⟨st, running, we, req, syncs, waits, panics⟩ := s
  obtain ⟨hg, hs⟩ := h
  simp only at hg hs
  cases a with
  | fsync => cases st <;> simp only [fsStep] <;> constructor <;> simp_all
  | workerPick =>
    by_cases hc : we = true ∨ running.isSome = true
    · simp only [fsStep, hc, if_true]; exact ⟨hg, hs⟩
    · cases st <;> simp only [fsStep, hc, if_false] <;> constructor <;> simp_all
  | workerDone r =>
    cases running with
    | none => simp only [fsStep]; exact ⟨hg, hs⟩
    | some g => cases st <;> simp only [fsStep] <;> constructor <;> simp_all
  | waitTake =>
    cases st with
    | done r g =>
      simp only [fsStep]
      refine ⟨?_, by simp_all⟩
      simp only at hs
      simp [hg, List.range'_concat]
      omega
    | _ => simp only [fsStep]; exact ⟨hg, hs⟩
  | drop => exact ⟨hg, by simp [fsStep]⟩

theorem FInv_run {s : Fs} (acts : List FsAct) (h : FInv s) : FInv (fsRun s acts) := by
  induction acts generalizing s with
  | nil => exact h
  | cons a l ih => exact ih (FInv_step a h)

end Nomt.IoPool
