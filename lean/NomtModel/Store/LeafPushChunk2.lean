import NomtModel.Store.LeafPushChunk
/-!
# `LeafBuilder`: the invariant, `push_cell` / `push_chunk` preserve it, `finish` gives a decodable page
-/
namespace Nomt.Store
open Nomt (Outcome)

/-- the page of a builder `new(n, total)` after the entries `es` were pushed: `mid` = the untouched bytes
between the cell pointers written so far and the first cell, `tail` = the untouched bytes after the last
cell written so far -/
def lbPageOf (n total : Nat) (es : List LeafEntry) (mid tail : List UInt8) : List UInt8 :=
  le16 n ++ (leafPtrsL es (PAGE - total) ++ (mid ++ (leafCellsL es ++ tail)))

/-- builder invariant with the untouched bytes named -/
def LeafBAt (b : LeafB) (n total : Nat) (es : List LeafEntry) (mid tail : List UInt8) : Prop :=
  b.index = es.length ∧ es.length ≤ n ∧ (∀ e ∈ es, e.key.size = 32) ∧ 2 + 34 * n + total ≤ PAGE ∧
  b.rem + leafTotal es = total ∧ 2 + 34 * es.length + mid.length + total = PAGE ∧ tail.length = b.rem ∧
  b.page = lbPageOf n total es mid tail

/-- **builder invariant**: header `n`; cell pointers `0..index` hold the keys pushed so far, the offsets
`PAGE - total + Σ earlier cell sizes` and the overflow bits; the cells pushed so far are laid out from
`PAGE - total` on; `remaining_value_size = total - Σ cell sizes`; `index = |es|` -/
def LeafBInv (b : LeafB) (n total : Nat) (es : List LeafEntry) : Prop :=
  ∃ mid tail, LeafBAt b n total es mid tail

theorem LeafBAt_unique {b b' : LeafB} {n total es mid tail}
    (h : LeafBAt b n total es mid tail) (h' : LeafBAt b' n total es mid tail) : b = b' := by
  obtain ⟨h1, _, _, _, h5, _, _, h8⟩ := h
  obtain ⟨h1', _, _, _, h5', _, _, h8'⟩ := h'
  cases b; cases b'
  simp only at h1 h5 h8 h1' h5' h8'
  have : ‹Nat› = ‹Nat› := rfl
  simp only [LeafB.mk.injEq]
  refine ⟨by rw [h8, h8'], by omega, by omega⟩

theorem length_lbPageOf {n total es mid tail} (hk : ∀ e ∈ es, e.key.size = 32) :
    (lbPageOf n total es mid tail).length = 2 + 34 * es.length + mid.length + leafTotal es + tail.length := by
  simp only [lbPageOf, List.length_append, length_le16, length_leafPtrsL es _ hk, length_leafCellsL]
  omega

/-- the two copies of one step (cell pointers, then cells) on the page -/
theorem lbPageOf_step (n total : Nat) (es ch : List LeafEntry) (mid tail cp vals : List UInt8) (o1 o2 : Nat)
    (hk : ∀ e ∈ es, e.key.size = 32)
    (hcp : cp = leafPtrsL ch (PAGE - total + leafTotal es)) (hvals : vals = leafCellsL ch)
    (hmid : cp.length ≤ mid.length)
    (ho1 : o1 = 2 + 34 * es.length)
    (ho2 : o2 = 2 + 34 * es.length + mid.length + leafTotal es) :
    splice (splice (lbPageOf n total es mid tail) o1 cp) o2 vals =
      lbPageOf n total (es ++ ch) (mid.drop cp.length) (tail.drop vals.length) := by
  have e1 : lbPageOf n total es mid tail =
      (le16 n ++ leafPtrsL es (PAGE - total)) ++ (mid ++ (leafCellsL es ++ tail)) := by
    simp [lbPageOf]
  rw [e1, splice_append _ _ cp o1 (by simp [length_le16, length_leafPtrsL es _ hk, ho1])]
  rw [List.drop_append_of_le_length hmid]
  have e2 : le16 n ++ leafPtrsL es (PAGE - total) ++ (cp ++ (List.drop cp.length mid ++ (leafCellsL es ++ tail))) =
      (le16 n ++ (leafPtrsL es (PAGE - total) ++ (cp ++ (List.drop cp.length mid ++ leafCellsL es)))) ++ tail := by
    simp
  rw [e2, splice_append _ _ vals o2 (by
    simp only [List.length_append, length_le16, length_leafPtrsL es _ hk, length_leafCellsL, List.length_drop, ho2]
    omega)]
  subst hcp; subst hvals
  simp [lbPageOf, leafPtrsL_append, leafCellsL_append]

theorem rd16_lbPageOf {n total es mid tail} (hn : n < 65536) : rd16 (lbPageOf n total es mid tail) 0 = n := by
  unfold lbPageOf; exact rd16_le16 _ _ hn

/-! ## `new` -/

theorem lbNew_inv (pool : List UInt8) (n total : Nat) (hpool : pool.length = PAGE)
    (hfit : 2 + 34 * n + total ≤ PAGE) :
    LeafBAt (lbNew pool n total) n total [] ((pool.drop 2).take (PAGE - total - 2)) (pool.drop (PAGE - total)) := by
  have hP : PAGE = 4096 := rfl
  refine ⟨rfl, Nat.zero_le _, by simp, hfit, by simp [lbNew, leafTotal], ?_, ?_, ?_⟩
  · simp [List.length_take, List.length_drop, hpool]; omega
  · simp [lbNew, List.length_drop, hpool]; omega
  · have hmod : n % 65536 = n := Nat.mod_eq_of_lt (by omega)
    simp only [lbNew, lbPageOf, splice, hmod, leafPtrsL, leafCellsL, List.take_zero, List.nil_append, Nat.zero_add,
      length_le16]
    congr 1
    have e : pool.drop (PAGE - total) = (pool.drop 2).drop (PAGE - total - 2) := by
      rw [List.drop_drop]; congr 1; omega
    rw [e]
    exact (List.take_append_drop _ _).symm

/-! ## `push_cell` -/

theorem lbPush_inv {b : LeafB} {n total : Nat} {es : List LeafEntry} {mid tail : List UInt8}
    (h : LeafBAt b n total es mid tail) (e : LeafEntry)
    (hlt : es.length < n) (hkey : e.key.size = 32) (hfit : e.cell.size ≤ b.rem) :
    ∃ b', lbPush b e.key.data.toList e.cell.data.toList e.overflow = .ok b' ∧
      LeafBAt b' n total (es ++ [e]) (mid.drop 34) (tail.drop e.cell.size) := by
  obtain ⟨h1, h2, h3, h4, h5, h6, h7, h8⟩ := h
  have hP : PAGE = 4096 := rfl
  have hB : LEAF_NODE_BODY_SIZE = 4094 := rfl
  have hn0 : rd16 b.page 0 = n := by rw [h8]; exact rd16_lbPageOf (by omega)
  have hlen : b.page.length = PAGE := by rw [h8, length_lbPageOf h3]; omega
  have hvl : e.cell.data.toList.length = e.cell.size := by simp [ByteArray.size_data]
  have hkl : e.key.data.toList.length = 32 := by simp [ByteArray.size_data, hkey]
  unfold lbPush
  rw [hn0, hlen, hvl]
  rw [if_neg (by omega), if_neg (by omega), if_neg (by omega), if_neg (by omega), if_neg (by omega),
    if_neg (by omega), if_neg (by omega)]
  refine ⟨_, rfl, ?_⟩
  have ho : PAGE - b.rem = PAGE - total + leafTotal es := by omega
  have hcp : e.key.data.toList ++ le16 (PAGE - b.rem + (if e.overflow then 32768 else 0)) =
      leafPtrsL [e] (PAGE - total + leafTotal es) := by
    rw [ho]; simp [leafPtrsL]
  have hcl : (e.key.data.toList ++ le16 (PAGE - b.rem + (if e.overflow then 32768 else 0))).length = 34 := by
    simp [hkl, length_le16]
  have hvals : e.cell.data.toList = leafCellsL [e] := by simp [leafCellsL]
  have hstep := lbPageOf_step n total es [e] mid tail _ _ (2 + 34 * b.index) (PAGE - b.rem) h3 hcp hvals
    (by rw [hcl]; omega) (by rw [h1]) (by omega)
  rw [hcl, hvl] at hstep
  refine ⟨by simp [h1], by simp; omega, ?_, h4, ?_, ?_, ?_, ?_⟩
  · intro x hx
    rcases List.mem_append.mp hx with hx | hx
    · exact h3 x hx
    · simp at hx; subst hx; exact hkey
  · simp only [leafTotal_append, leafTotal]; omega
  · simp only [List.length_append, List.length_cons, List.length_nil, List.length_drop]; omega
  · simp only [List.length_drop]; omega
  · show splice (splice b.page _ _) _ _ = _
    rw [h8]; exact hstep

end Nomt.Store
