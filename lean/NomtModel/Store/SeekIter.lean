import NomtModel.Store.Seek
import NomtModel.Api.OvlBtNew
/-!
# What the seek needs from the b-tree iterator (`Api/OvlBt*.lean`)

* `Shape`: the leaves still to be provided are a suffix of the tree's leaves, and an iterator blocked on a leaf is
  blocked on one whose separator lies below the end of the range — so `needed_leaves` names that leaf next.  Kept by
  every `next`, advanced by `provide_leaf`.
* `btNew_spec`: the fresh iterator of a range yields the b-tree's content (leaves ⊕ secondary ⊕ primary staging)
  restricted to the range.
* `needList`: the arithmetic of `NeededLeavesIter`.
-/
namespace Nomt.Seek
open Nomt Nomt.Ovl

variable {V : Type}

/-- the b-tree's content: the leaves with the two staging maps applied -/
def baseOf (primary secondary : List (Key × Option V)) (leaves : List (Leaf V)) : KVL V :=
  kvApply (flat leaves) (smerge primary secondary)

structure Shape (leaves : List (Leaf V)) (lf : LeafIt V) : Prop where
  suffix : ∃ pre, leaves = pre ++ lf.pending
  blk : lf.st = .blocked → ∃ l rest, lf.pending = l :: rest ∧ beforeStop lf.stop l.sep = true

theorem shape_consumed {leaves : List (Leaf V)} {pending : List (Leaf V)} {stop : Option Key} {start : Option Key}
    (hs : ∃ pre, leaves = pre ++ pending) :
    Shape leaves { st := leafConsumed pending stop, pending := pending, start := start, stop := stop } := by
  refine ⟨hs, ?_⟩
  intro hst
  simp only at hst ⊢
  cases pending with
  | nil => simp [leafConsumed] at hst
  | cons l rest =>
    refine ⟨l, rest, rfl, ?_⟩
    cases hb : beforeStop stop l.sep with
    | true => rfl
    | false => simp [leafConsumed, hb] at hst

theorem shape_leafNext {leaves : List (Leaf V)} {lf : LeafIt V} (h : Shape leaves lf) :
    Shape leaves lf.next.1 ∧ lf.next.1.pending = lf.pending ∧ lf.next.1.stop = lf.stop := by
  unfold LeafIt.next
  cases hst : lf.st with
  | done => exact ⟨h, rfl, rfl⟩
  | blocked => exact ⟨h, rfl, rfl⟩
  | proceeding cur =>
    cases cur with
    | nil => exact ⟨⟨h.suffix, fun hh => by simp at hh⟩, rfl, rfl⟩
    | cons x cur =>
      cases cur with
      | nil =>
        simp only
        split
        · exact ⟨shape_consumed h.suffix, rfl, rfl⟩
        · exact ⟨⟨h.suffix, fun hh => by simp at hh⟩, rfl, rfl⟩
      | cons y ys =>
        simp only
        split
        · exact ⟨⟨h.suffix, fun hh => by simp at hh⟩, rfl, rfl⟩
        · exact ⟨⟨h.suffix, fun hh => by simp at hh⟩, rfl, rfl⟩

theorem shape_choose {leaves : List (Leaf V)} : ∀ (fuel : Nat) (it : BtIt V), Shape leaves it.leaf →
    Shape leaves (chooseAction fuel it).1.leaf ∧ (chooseAction fuel it).1.leaf.pending = it.leaf.pending ∧
      (chooseAction fuel it).1.leaf.stop = it.leaf.stop := by
  intro fuel
  induction fuel with
  | zero => intro it h; exact ⟨h, rfl, rfl⟩
  | succ fuel ih =>
    intro it h
    obtain ⟨n1, n2, n3⟩ := shape_leafNext h
    unfold chooseAction
    cases it.leaf.peekKey with
    | none =>
      cases it.mem.peek with
      | none => exact ⟨h, rfl, rfl⟩
      | some m =>
        obtain ⟨mk, mv⟩ := m
        cases mv with
        | none => exact ih { it with mem := it.mem.next.1 } h
        | some v => exact ⟨h, rfl, rfl⟩
    | some lp =>
      obtain ⟨lk, pending⟩ := lp
      cases it.mem.peek with
      | none => exact ⟨h, rfl, rfl⟩
      | some m =>
        obtain ⟨mk, mv⟩ := m
        simp only
        split
        · cases mv with
          | none => exact ih { it with mem := it.mem.next.1 } h
          | some v => exact ⟨h, rfl, rfl⟩
        · split
          · split
            · exact ⟨h, rfl, rfl⟩
            · cases mv with
              | none =>
                obtain ⟨i1, i2, i3⟩ := ih { mem := it.mem.next.1, leaf := it.leaf.next.1 } n1
                exact ⟨i1, i2.trans n2, i3.trans n3⟩
              | some v => exact ⟨n1, n2, n3⟩
          · exact ⟨h, rfl, rfl⟩

/-- `BeatreeIterator::next` keeps the shape, the pending leaves and the end of the range -/
theorem shape_next {leaves : List (Leaf V)} {it it' : BtIt V} {o : Option (ItOut V)} (h : Shape leaves it.leaf)
    (hn : it.next = .ok (it', o)) :
    Shape leaves it'.leaf ∧ it'.leaf.pending = it.leaf.pending ∧ it'.leaf.stop = it.leaf.stop := by
  unfold BtIt.next at hn
  simp only at hn
  obtain ⟨c1, c2, c3⟩ := shape_choose (it.mem.primary.length + it.mem.secondary.length + 1) it h
  cases hr : chooseAction (it.mem.primary.length + it.mem.secondary.length + 1) it with
  | mk it1 act =>
  rw [hr] at hn c1 c2 c3
  simp only at c1 c2 c3
  cases act with
  | finished => simp only at hn; cases hn; exact ⟨c1, c2, c3⟩
  | blocked => simp only at hn; cases hn; exact ⟨c1, c2, c3⟩
  | takeLeaf =>
    simp only at hn
    cases hn
    obtain ⟨n1, n2, n3⟩ := shape_leafNext c1
    exact ⟨n1, n2.trans c2, n3.trans c3⟩
  | takeMemory =>
    simp only at hn
    cases hm : it1.mem.next with
    | mk mem o2 =>
      rw [hm] at hn
      cases o2 with
      | none => cases hn
      | some kv =>
        obtain ⟨k, v⟩ := kv
        cases v with
        | none => cases hn
        | some v => simp only at hn; cases hn; exact ⟨c1, c2, c3⟩

/-- providing the leaf the iterator is blocked on -/
theorem provideLeaf_head {leaves : List (Leaf V)} {lf : LeafIt V} (h : Shape leaves lf) (hst : lf.st = .blocked)
    {l : Leaf V} {rest : List (Leaf V)} (hp : lf.pending = l :: rest) :
    provideLeaf lf l = lf.provide ∧
    ∀ lf', lf.provide = .ok lf' → Shape leaves lf' ∧ lf'.pending = rest ∧ lf'.stop = lf.stop := by
  refine ⟨?_, ?_⟩
  · unfold provideLeaf LeafIt.provide
    rw [hst, hp]
    rfl
  · intro lf' hlf
    rw [provide_eq hst hp] at hlf
    cases hlf
    obtain ⟨pre, hpre⟩ := h.suffix
    have hsuf : ∃ pre', leaves = pre' ++ rest := ⟨pre ++ [l], by rw [hpre, hp]; simp⟩
    refine ⟨?_, rfl, rfl⟩
    unfold provideSt
    cases skipStart lf.start l.entries with
    | nil => exact shape_consumed hsuf
    | cons x xs => exact ⟨hsuf, fun hh => by simp at hh⟩

/-! ### the fresh iterator of a range -/

theorem btNew_inv (primary secondary : List (Key × Option V)) (leaves : List (Leaf V)) (start : Key) (stop : Option Key)
    (hp : OvSorted primary) (hs : OvSorted secondary) (hl : LeavesOK leaves)
    (h0 : ∀ l ∈ leaves.head?, bitsLt start l.sep = false) :
    BtInv (BtIt.new primary secondary leaves start stop) ∧
    (BtIt.new primary secondary leaves start stop).spec =
      kvApply ((flat leaves).filter (fun e => inRange start stop e.1))
        (smerge (rangeOf primary start stop) (rangeOf secondary start stop)) := by
  obtain ⟨li, lstop, lstream⟩ := leafNew_spec hl start stop h0
  have inv : BtInv (BtIt.new primary secondary leaves start stop) := by
    refine ⟨li, List.Pairwise.filter _ hp, List.Pairwise.filter _ hs, ?_⟩
    intro e he
    show beforeStop (LeafIt.new leaves start stop).stop e.1 = true
    rw [lstop]
    have hin : inRange start stop e.1 = true := by
      rcases smerge_mem he with h | h
      · exact (List.mem_filter.1 h).2
      · exact (List.mem_filter.1 h).2
    simp only [inRange, Bool.and_eq_true] at hin
    exact hin.2
  refine ⟨inv, ?_⟩
  simp only [BtIt.spec]
  have hleaf : (BtIt.new primary secondary leaves start stop).leaf = LeafIt.new leaves start stop := rfl
  rw [hleaf, lstream]
  rfl

/-- the fresh iterator yields the b-tree's content restricted to the range -/
theorem btNew_spec (primary secondary : List (Key × Option V)) (leaves : List (Leaf V)) (start : Key) (stop : Option Key)
    (hp : OvSorted primary) (hs : OvSorted secondary) (hl : LeavesOK leaves)
    (h0 : ∀ l ∈ leaves.head?, bitsLt start l.sep = false) :
    (BtIt.new primary secondary leaves start stop).spec =
      (baseOf primary secondary leaves).filter (fun e => inRange start stop e.1) := by
  rw [(btNew_inv primary secondary leaves start stop hp hs hl h0).2]
  have hD : KSorted (flat leaves) := flat_sorted hl
  have hDf : KSorted ((flat leaves).filter (fun e => inRange start stop e.1)) := ksorted_filter hD _
  have hps : OvSorted (rangeOf primary start stop) := List.Pairwise.filter _ hp
  have hss : OvSorted (rangeOf secondary start stop) := List.Pairwise.filter _ hs
  apply kv_ext (kvApply_sorted hDf _) (ksorted_filter (kvApply_sorted hD _) _)
  intro k
  rw [kvGet_kvApply_distinct hDf (ovSorted_distinct (smerge_sorted hps hss)), wsLookup_smerge hps hss,
    kvGet_filter hD, kvGet_filter (kvApply_sorted hD _),
    kvGet_kvApply_distinct hD (ovSorted_distinct (smerge_sorted hp hs)), wsLookup_smerge hp hs]
  unfold rangeOf
  rw [wsLookup_filter_key primary (inRange start stop) k, wsLookup_filter_key secondary (inRange start stop) k]
  by_cases hr : inRange start stop k = true
  · simp only [hr, if_true]
    cases wsLookup primary k with
    | some c => cases c <;> simp [Option.filter, hr]
    | none =>
      simp only
      cases wsLookup secondary k with
      | some c => cases c <;> simp [Option.filter, hr]
      | none => rfl
  · have hr' : inRange start stop k = false := by simpa using hr
    simp only [hr', Bool.false_eq_true, if_false]
    have hF : ∀ o : Option V, Option.filter (fun _ => false) o = none := by
      intro o; cases o <;> rfl
    rw [hF, hF]

theorem btNew_state (primary secondary : List (Key × Option V)) (leaves : List (Leaf V)) (start : Key) (stop : Option Key) :
    (BtIt.new primary secondary leaves start stop).leaf.st = .blocked ∨
    (BtIt.new primary secondary leaves start stop).leaf.st = .done := by
  show (LeafIt.new leaves start stop).st = .blocked ∨ (LeafIt.new leaves start stop).st = .done
  unfold LeafIt.new
  cases leaves with
  | nil => exact .inr rfl
  | cons a as => simp only; split <;> simp

theorem btNew_shape (primary secondary : List (Key × Option V)) (leaves : List (Leaf V)) (start : Key) (stop : Option Key)
    (hl : LeavesOK leaves) (h0 : ∀ l ∈ leaves.head?, bitsLt start l.sep = false)
    (hss : beforeStop stop start = true) :
    Shape leaves (BtIt.new primary secondary leaves start stop).leaf := by
  show Shape leaves (LeafIt.new leaves start stop)
  unfold LeafIt.new
  cases leaves with
  | nil => exact ⟨⟨[], rfl⟩, fun hh => by simp at hh⟩
  | cons a as =>
    have ha : bitsLt start a.sep = false := h0 a (by simp)
    simp only [ha, Bool.false_eq_true, if_false]
    obtain ⟨pre, l, rest, e1, e2, _, e4, _⟩ := dropToStart_spec a as hl start ha
    refine ⟨⟨pre, by rw [e1]; exact e2⟩, fun _ => ⟨l, rest, e1, ?_⟩⟩
    simp only
    by_cases he : l.sep = start
    · rw [he]; exact hss
    · exact beforeStop_of_lt (bitsLt_of_not e4 (fun e => he e.symm)) hss

/-! ### `NeededLeavesIter` -/

/-- `n` consecutive leaf indices from `first` -/
def needList (first n : Nat) : List Nat := (List.range n).map (fun j => first + j)

theorem needList_zero (first : Nat) : needList first 0 = [] := rfl

theorem needList_succ (first n : Nat) : needList first (n + 1) = first :: needList (first + 1) n := by
  unfold needList
  rw [List.range_succ_eq_map]
  simp only [List.map_cons, List.map_map, Nat.add_zero]
  congr 1
  apply List.map_congr_left
  intro j _
  simp only [Function.comp]
  omega

end Nomt.Seek
