import NomtModel.Store.CrashLog
/-!
# Which state a sync that was cut short by a FAILING operation leaves on disk (C14)

`sync_crash_atomic(_log)` (T4.1 / T4.2) say: every image of every prefix of an accepted sync trace
`pre ++ [meta write, meta fsync] ++ post` is the old or the new state.  A sync that stops because an operation
*fails* (C14) stops at a known position, so more can be said — by the phase lemmas those theorems are built from, no disk
fact is proved again here:

* the failing operation is a pre-meta one, or the meta write itself (not performed): what has been issued is a list of
  accepted pre-meta events — ANY such list, not only a prefix of `pre` (the `begin_sync` tasks run concurrently and the
  others keep issuing writes after one has failed) — and every image is the **old** state;
* the meta fsync fails: the meta page is written but volatile; the images are the old and the new state, and the image a
  mere process exit leaves (every issued write stays) is the **new** state;
* a post-meta operation fails: every image is the **new** state.
-/
namespace NomtDisk
variable {Content MetaRec WalRec LogRec TreeAbs : Type}

/-- the image a process exit leaves: every issued effect stays -/
def procImage (s : Exec Content MetaRec WalRec LogRec) : Disk Content MetaRec WalRec LogRec := applyEffs s.dur s.vol

theorem procImage_isImage (s : Exec Content MetaRec WalRec LogRec) : IsImage s (procImage s) :=
  ⟨s.vol, List.Sublist.refl _, rfl⟩

theorem sync_fault_classified_log
    (P : Params Content MetaRec WalRec TreeAbs) (L : LogParams MetaRec LogRec)
    (d0 : Disk Content MetaRec WalRec LogRec)
    (hinert : ∀ b, htView P d0 b = d0.pages File.fHt b)
    (pre post : List (Ev Content MetaRec WalRec LogRec)) (m1 : MetaRec) (w1 : WalRec)
    (hpre : ∀ ev ∈ pre, EvPreL P L d0 ev)
    (hflushed : (run ⟨d0, []⟩ pre).vol = [])
    (hwal : (run ⟨d0, []⟩ pre).dur.wal = some w1)
    (hseq : P.walSeqn w1 = P.seqn m1)
    (hpost : PostOKL P L (run ⟨d0, []⟩ pre).dur m1 w1
      ⟨applyEff (run ⟨d0, []⟩ pre).dur (.setMeta m1), []⟩ post) :
    -- a pre-meta operation or the meta write fails
    (∀ issued, (∀ ev ∈ issued, EvPreL P L d0 ev) → ∀ img, IsImage (run ⟨d0, []⟩ issued) img →
       absOfL P L img = absOfL P L d0) ∧
    -- the meta fsync fails
    (∀ img, IsImage (run ⟨d0, []⟩ (pre ++ [Ev.eff (.setMeta m1)])) img →
       absOfL P L img = absOfL P L d0 ∨
       absOfL P L img = (absNew P (run ⟨d0, []⟩ pre).dur m1 w1, absLog L m1 (run ⟨d0, []⟩ pre).dur.log)) ∧
    absOfL P L (procImage (run ⟨d0, []⟩ (pre ++ [Ev.eff (.setMeta m1)]))) =
      (absNew P (run ⟨d0, []⟩ pre).dur m1 w1, absLog L m1 (run ⟨d0, []⟩ pre).dur.log) ∧
    -- a post-meta operation fails after the events `q` were issued
    (∀ q, q <+: post → ∀ img,
       IsImage (run ⟨d0, []⟩ (pre ++ ([Ev.eff (.setMeta m1), Ev.fsync File.fMeta] ++ q))) img →
       absOfL P L img = (absNew P (run ⟨d0, []⟩ pre).dur m1 w1, absLog L m1 (run ⟨d0, []⟩ pre).dur.log)) := by
  have hC : ∀ q, q <+: post → ∀ img,
      IsImage (run ⟨d0, []⟩ (pre ++ ([Ev.eff (.setMeta m1), Ev.fsync File.fMeta] ++ q))) img →
      absOfL P L img = (absNew P (run ⟨d0, []⟩ pre).dur m1 w1, absLog L m1 (run ⟨d0, []⟩ pre).dur.log) := by
    intro q hq img himg
    obtain ⟨r, hr⟩ := hq
    have hpq : PostOKL P L (run ⟨d0, []⟩ pre).dur m1 w1
        ⟨applyEff (run ⟨d0, []⟩ pre).dur (.setMeta m1), []⟩ q := by
      apply postOKL_prefix P L _ m1 w1 q r; rw [hr]; exact hpost
    exact (sync_crash_atomic_log P L d0 hinert pre q m1 w1 hpre hflushed hwal hseq hpq).2 img himg
  refine ⟨?_, ?_, ?_, hC⟩
  · intro issued hiss img himg
    exact phaseAL_images P L d0 hinert issued hiss img himg
  · intro img himg
    refine (sync_crash_atomic_log P L d0 hinert pre post m1 w1 hpre hflushed hwal hseq hpost).1 _ ?_ img himg
    exact ⟨Ev.fsync File.fMeta :: post, by simp⟩
  · -- the process image with the meta page volatile is the durable part once the fsync has been performed
    have h := hC [] (List.nil_prefix) (procImage (run ⟨d0, []⟩ (pre ++ [Ev.eff (.setMeta m1)]))) ?_
    · exact h
    · refine ⟨[], List.nil_sublist _, ?_⟩
      rcases hsA : run (⟨d0, []⟩ : Exec Content MetaRec WalRec LogRec) pre with ⟨dA, volA⟩
      rw [hsA] at hflushed
      simp only at hflushed
      subst hflushed
      have e1 : run (⟨d0, []⟩ : Exec Content MetaRec WalRec LogRec) (pre ++ [Ev.eff (.setMeta m1)]) =
          ⟨dA, [.setMeta m1]⟩ := by rw [run_append, hsA]; rfl
      have e2 : run (⟨d0, []⟩ : Exec Content MetaRec WalRec LogRec)
          (pre ++ ([Ev.eff (.setMeta m1), Ev.fsync File.fMeta] ++ [])) = ⟨applyEff dA (.setMeta m1), []⟩ := by
        rw [run_append, hsA]; simp [run, step, Eff.file, applyEffs]
      rw [e1, e2]; simp [procImage, applyEffs]

/-- the same without the rollback-log component (T4.1's abstraction) -/
theorem sync_fault_classified
    (P : Params Content MetaRec WalRec TreeAbs)
    (d0 : Disk Content MetaRec WalRec LogRec)
    (hinert : ∀ b, htView P d0 b = d0.pages File.fHt b)
    (pre post : List (Ev Content MetaRec WalRec LogRec)) (m1 : MetaRec) (w1 : WalRec)
    (hpre : ∀ ev ∈ pre, EvPre P d0 ev)
    (hflushed : (run ⟨d0, []⟩ pre).vol = [])
    (hwal : (run ⟨d0, []⟩ pre).dur.wal = some w1)
    (hseq : P.walSeqn w1 = P.seqn m1)
    (hpost : PostOK P w1 ⟨applyEff (run ⟨d0, []⟩ pre).dur (.setMeta m1), []⟩ post) :
    (∀ issued, (∀ ev ∈ issued, EvPre P d0 ev) → ∀ img, IsImage (run ⟨d0, []⟩ issued) img →
       absOf P img = absOf P d0) ∧
    (∀ img, IsImage (run ⟨d0, []⟩ (pre ++ [Ev.eff (.setMeta m1)])) img →
       absOf P img = absOf P d0 ∨ absOf P img = absNew P (run ⟨d0, []⟩ pre).dur m1 w1) ∧
    absOf P (procImage (run ⟨d0, []⟩ (pre ++ [Ev.eff (.setMeta m1)]))) = absNew P (run ⟨d0, []⟩ pre).dur m1 w1 ∧
    (∀ q, q <+: post → ∀ img,
       IsImage (run ⟨d0, []⟩ (pre ++ ([Ev.eff (.setMeta m1), Ev.fsync File.fMeta] ++ q))) img →
       absOf P img = absNew P (run ⟨d0, []⟩ pre).dur m1 w1) := by
  have hC : ∀ q, q <+: post → ∀ img,
      IsImage (run ⟨d0, []⟩ (pre ++ ([Ev.eff (.setMeta m1), Ev.fsync File.fMeta] ++ q))) img →
      absOf P img = absNew P (run ⟨d0, []⟩ pre).dur m1 w1 := by
    intro q hq img himg
    obtain ⟨r, hr⟩ := hq
    have hpq : PostOK P w1 ⟨applyEff (run ⟨d0, []⟩ pre).dur (.setMeta m1), []⟩ q := by
      apply PostOK_prefix P w1 q r; rw [hr]; exact hpost
    exact (sync_crash_atomic P d0 hinert pre q m1 w1 hpre hflushed hwal hseq hpq).2 img himg
  refine ⟨?_, ?_, ?_, hC⟩
  · intro issued hiss img himg
    have hA0 : InvA P d0 (⟨d0, []⟩ : Exec Content MetaRec WalRec LogRec) :=
      ⟨⟨rfl, fun _ _ _ => rfl, Or.inl rfl⟩, fun e he => by cases he⟩
    exact phaseA_images P d0 hinert _ (invA_run P d0 issued _ hA0 hiss) img himg
  · intro img himg
    refine (sync_crash_atomic P d0 hinert pre post m1 w1 hpre hflushed hwal hseq hpost).1 _ ?_ img himg
    exact ⟨Ev.fsync File.fMeta :: post, by simp⟩
  · have h := hC [] (List.nil_prefix) (procImage (run ⟨d0, []⟩ (pre ++ [Ev.eff (.setMeta m1)]))) ?_
    · exact h
    · refine ⟨[], List.nil_sublist _, ?_⟩
      rcases hsA : run (⟨d0, []⟩ : Exec Content MetaRec WalRec LogRec) pre with ⟨dA, volA⟩
      rw [hsA] at hflushed
      simp only at hflushed
      subst hflushed
      have e1 : run (⟨d0, []⟩ : Exec Content MetaRec WalRec LogRec) (pre ++ [Ev.eff (.setMeta m1)]) =
          ⟨dA, [.setMeta m1]⟩ := by rw [run_append, hsA]; rfl
      have e2 : run (⟨d0, []⟩ : Exec Content MetaRec WalRec LogRec)
          (pre ++ ([Ev.eff (.setMeta m1), Ev.fsync File.fMeta] ++ [])) = ⟨applyEff dA (.setMeta m1), []⟩ := by
        rw [run_append, hsA]; simp [run, step, Eff.file, applyEffs]
      rw [e1, e2]; simp [procImage, applyEffs]

end NomtDisk
