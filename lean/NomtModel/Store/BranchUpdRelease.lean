import NomtModel.Store.BranchUpdModel
/-!
# Branch stage: which old nodes are reported as released

The loop of `run_worker` hands every old node either to the new level unchanged (`.old`) or to
`branches_tracker.delete` (its page number is freed) — never both, never twice, never neither.  This is a property of
the loop alone (`resetTo`, `scopeLoop`, `runChanges`, `finishLoop`): `digest` only adds new nodes.
-/
namespace Nomt.BranchUpd

/-- the page numbers of the old nodes that are part of the new level -/
def oldBbns : List OutNode → List Nat
  | [] => []
  | .old l :: r => l.bbn :: oldBbns r
  | .new _ :: r => oldBbns r

@[simp] theorem oldBbns_nil : oldBbns [] = [] := rfl

theorem oldBbns_append (a b : List OutNode) : oldBbns (a ++ b) = oldBbns a ++ oldBbns b := by
  induction a with
  | nil => rfl
  | cons x r ih => cases x <;> simp [oldBbns, ih]

theorem oldBbns_old (l : List DbNode) : oldBbns (l.map .old) = l.map (·.bbn) := by
  induction l with
  | nil => rfl
  | cons x r ih => simp [oldBbns, ih]

theorem oldBbns_new (l : List Produced) : oldBbns (l.map .new) = [] := by
  induction l with
  | nil => rfl
  | cons x r ih => simp [oldBbns, ih]

theorem skipTo_append (key : Nat) : ∀ l : List DbNode, (skipTo key l).1 ++ (skipTo key l).2 = l
  | [] => rfl
  | [_] => rfl
  | a :: b :: rest => by
    unfold skipTo
    split
    · have := skipTo_append key (b :: rest)
      simp only [List.cons_append, this]
    · rfl

/-- the bookkeeping of a run: what has been released, what has been kept, what is still to come -/
def Run.ledger (r : Run) : List Nat := r.released ++ (oldBbns r.out ++ r.rest.map (·.bbn))

theorem resetTo_ledger (key : Nat) (r : Run) : (resetTo key r).ledger.Perm r.ledger := by
  unfold resetTo
  have hs := skipTo_append key r.rest
  split
  · rename_i skipped l rest' heq
    rw [heq] at hs
    simp only at hs
    split
    · simp only [Run.ledger, oldBbns_append, oldBbns_old]
      rw [← hs]
      simp only [List.map_append, List.map_cons, List.append_assoc]
      apply List.Perm.append_left
      -- [l.bbn] ++ (old ++ (skipped ++ rest')) ~ old ++ (skipped ++ (l.bbn :: rest'))
      refine (List.perm_append_comm).trans ?_
      simp only [List.append_assoc]
      apply List.Perm.append_left
      apply List.Perm.append_left
      exact (List.perm_append_comm (l₁ := List.map (·.bbn) rest') (l₂ := [l.bbn]))
    · exact List.Perm.refl _
  · exact List.Perm.refl _

theorem ledger_digest (r : Run) (st' : St) (nodes : List Produced) :
    ({ r with st := st', out := r.out ++ nodes.map .new } : Run).ledger = r.ledger := by
  simp [Run.ledger, oldBbns_append, oldBbns_new]

theorem scopeLoop_ledger (kf : KF) (key : Nat) : ∀ fuel r r', scopeLoop kf key fuel r = some r' → r'.ledger.Perm r.ledger := by
  intro fuel
  induction fuel with
  | zero => intro r r' h; simp [scopeLoop] at h
  | succ fuel ih =>
    intro r r' h
    simp only [scopeLoop] at h
    split at h
    · cases h; exact List.Perm.refl _
    · split at h
      · simp at h
      · rename_i st' nodes res _
        have := ih _ _ h
        exact this.trans ((resetTo_ledger _ _).trans (by rw [ledger_digest]))

theorem runChanges_ledger (kf : KF) : ∀ cs r r', runChanges kf cs r = some r' → r'.ledger.Perm r.ledger := by
  intro cs
  induction cs with
  | nil => intro r r' h; simp [runChanges] at h; cases h; exact List.Perm.refl _
  | cons c cs ih =>
    intro r r' h
    obtain ⟨key, pn⟩ := c
    simp only [runChanges] at h
    split at h
    · simp at h
    · rename_i r1 h1
      split at h
      · simp at h
      · rename_i st h2
        have := ih _ _ h
        have e : ({ r1 with st := st } : Run).ledger = r1.ledger := rfl
        rw [e] at this
        exact this.trans (scopeLoop_ledger kf key _ _ _ h1)

theorem finishLoop_ledger (kf : KF) : ∀ fuel r r', finishLoop kf fuel r = some r' → r'.ledger.Perm r.ledger := by
  intro fuel
  induction fuel with
  | zero => intro r r' h; simp [finishLoop] at h
  | succ fuel ih =>
    intro r r' h
    simp only [finishLoop] at h
    split at h
    · simp at h
    · rename_i st' nodes res _
      split at h
      · cases h; rw [ledger_digest]
      · split at h
        · split at h
          · simp at h
          · cases h
            rw [ledger_digest]
            exact (resetTo_ledger _ _).trans (by rw [ledger_digest])
        · have := ih _ _ h
          exact this.trans ((resetTo_ledger _ _).trans (by rw [ledger_digest]))

/-- every old node is either part of the new level or released, and only one of the two, once -/
theorem runWorker_ledger (kf : KF) (db : List DbNode) (cs : List (Nat × Option Nat)) (out : List OutNode) (rel : List Nat)
    (h : runWorker kf db cs = some (out, rel)) : (rel ++ oldBbns out).Perm (db.map (·.bbn)) := by
  unfold runWorker at h
  split at h
  · cases h; simp [oldBbns_old]
  · rename_i k pn cs'
    split at h
    · simp at h
    · rename_i r1 h1
      split at h
      · simp at h
      · rename_i r2 h2
        cases h
        have p1 := runChanges_ledger kf _ _ _ h1
        have p2 := finishLoop_ledger kf _ _ _ h2
        have p3 := resetTo_ledger k ({ rest := db } : Run)
        have p := p2.trans (p1.trans p3)
        simp only [Run.ledger, oldBbns_nil, List.nil_append] at p
        simpa [oldBbns_append, oldBbns_old] using p

end Nomt.BranchUpd
