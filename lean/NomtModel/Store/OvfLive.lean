import NomtModel.Store.OvfAsync
/-!
# The repaired `AsyncReader` never stalls its caller

The repair of F12 makes `submit` answer `None` while the next page number is not known yet.  A caller like the
rollback worker (`reverse_delta_worker.rs`: after every completion it submits until `None`, then waits for the next
completion) would wait forever if the reader could be in a state where the value is not complete, nothing is
outstanding and `submit` answers `None`.  `no_stall`: on a chain no schedule leads to such a state.

The facts about `continue_parse` / `complete` used here are structural (they hold for every state, chain or not).
-/
namespace Nomt.Ovf
open Nomt.Wal (Bytes)

/-- what `continue_parse` does to the page list: it only empties slots below the new `process_index` and appends -/
theorem continueParse_struct : ∀ (fuel : Nat) (r r' : AR), AR.continueParse fuel r = some r' →
    r'.req = r.req ∧ r'.total = r.total ∧ r.proc ≤ r'.proc ∧ r.pages.length ≤ r'.pages.length ∧
    (∀ i, r'.proc ≤ i → i < r.pages.length → r'.pages[i]? = r.pages[i]?) ∧
    (r.total - r.proc ≤ fuel → r'.total ≤ r'.proc ∨ ∃ pn, r'.pages[r'.proc]? = some (pn, none)) ∧
    (r.proc ≤ r.total → r'.proc ≤ r'.total)
  | 0, r, r', h => by
    simp only [AR.continueParse, Option.some.injEq] at h
    subst h
    exact ⟨rfl, rfl, Nat.le_refl _, Nat.le_refl _, fun _ _ _ => rfl, fun hf => Or.inl (by omega), id⟩
  | fuel + 1, r, r', h => by
    unfold AR.continueParse at h
    split at h
    · rename_i hp
      split at h
      · simp at h
      · rename_i pn heq
        simp only [Option.some.injEq] at h
        subst h
        exact ⟨rfl, rfl, Nat.le_refl _, Nat.le_refl _, fun _ _ _ => rfl, fun _ => Or.inr ⟨_, heq⟩, id⟩
      · rename_i pn page heq
        split at h
        · simp at h
        · rename_i pp bytes hparse
          obtain ⟨h1, h2, h3, h4, h5, h6, h7⟩ := continueParse_struct fuel _ r' h
          simp only at h1 h2 h3 h4 h5 h6 h7
          refine ⟨h1, h2, by omega, ?_, ?_, ?_, fun _ => h7 (by omega)⟩
          · simp only [List.length_append, List.length_set, List.length_map] at h4; omega
          · intro i hi hil
            rw [h5 i hi (by simp only [List.length_append, List.length_set, List.length_map]; omega)]
            rw [List.getElem?_append_left (by simpa using hil), List.getElem?_set]
            have : r.proc ≠ i := by omega
            simp [this]
          · intro hf
            exact h6 (by omega)
    · rename_i hp
      simp only [Option.some.injEq] at h
      subst h
      exact ⟨rfl, rfl, Nat.le_refl _, Nat.le_refl _, fun _ _ _ => rfl, fun _ => Or.inl (by omega), id⟩

/-- what `complete` does to the page list -/
theorem complete_struct (r r' : AR) (i : Nat) (page : Bytes) (res : Option Bytes)
    (h : r.complete i page = some (res, r')) (hpt : r.proc ≤ r.total) :
    r'.req = r.req ∧ r'.total = r.total ∧ r.proc ≤ r'.proc ∧ r.pages.length ≤ r'.pages.length ∧
    (∀ k, r'.proc ≤ k → k < r.pages.length → k ≠ i → r'.pages[k]? = r.pages[k]?) ∧
    (r'.proc ≤ i → ∃ pn, r'.pages[i]? = some (pn, some page)) ∧
    (res = none → (∀ pn x, i ≠ r.proc → r.pages[r.proc]? = some (pn, x) → x = none) →
      r'.proc < r'.total ∧ ∀ pn x, r'.pages[r'.proc]? = some (pn, x) → x = none) := by
  unfold AR.complete at h
  split at h
  · simp at h
  · rename_i pn x heq
    have hil : i < r.pages.length := by
      by_cases hil : i < r.pages.length
      · exact hil
      · rw [List.getElem?_eq_none (by omega)] at heq; simp at heq
    simp only at h
    -- the state after the slot was filled and `continue_parse` ran
    cases hmid : (if i = r.proc then AR.continueParse (r.total - r.proc) { r with pages := r.pages.set i (pn, some page) }
        else some { r with pages := r.pages.set i (pn, some page) }) with
    | none => rw [hmid] at h; simp at h
    | some r2 =>
      rw [hmid] at h
      simp only at h
      have hstruct : r2.req = r.req ∧ r2.total = r.total ∧ r.proc ≤ r2.proc ∧ r.pages.length ≤ r2.pages.length ∧
          (∀ k, r2.proc ≤ k → k < r.pages.length → r2.pages[k]? = (r.pages.set i (pn, some page))[k]?) ∧
          (r2.total ≤ r2.proc ∨ (∃ pn', r2.pages[r2.proc]? = some (pn', none)) ∨ (i ≠ r.proc ∧ r2.proc = r.proc ∧
            r2.pages = r.pages.set i (pn, some page))) ∧ r2.proc ≤ r2.total := by
        by_cases hip : i = r.proc
        · rw [if_pos hip] at hmid
          obtain ⟨h1, h2, h3, h4, h5, h6, h7⟩ := continueParse_struct _ _ _ hmid
          simp only [List.length_set] at h1 h2 h3 h4 h5 h6 h7
          refine ⟨h1, h2, h3, h4, h5, ?_, h7 hpt⟩
          rcases h6 (Nat.le_refl _) with h | h
          · exact Or.inl h
          · exact Or.inr (Or.inl h)
        · rw [if_neg hip] at hmid
          simp only [Option.some.injEq] at hmid
          subst hmid
          exact ⟨rfl, rfl, Nat.le_refl _, by simp, fun _ _ _ => rfl, Or.inr (Or.inr ⟨hip, rfl, rfl⟩), hpt⟩
      obtain ⟨s1, s2, s3, s4, s5, s6, s7⟩ := hstruct
      have hkeep : ∀ k, r2.proc ≤ k → k < r.pages.length → k ≠ i → r2.pages[k]? = r.pages[k]? := by
        intro k hk hkl hne
        rw [s5 k hk hkl, List.getElem?_set]
        simp [Ne.symm hne]
      have hat : r2.proc ≤ i → ∃ pn, r2.pages[i]? = some (pn, some page) := by
        intro hk
        refine ⟨pn, ?_⟩
        rw [s5 i hk hil, List.getElem?_set]
        simp [hil]
      split at h
      · rename_i hdone
        split at h
        · simp at h
        · split at h
          · simp at h
          · simp only [Option.some.injEq, Prod.mk.injEq] at h
            obtain ⟨rfl, rfl⟩ := h
            exact ⟨s1, s2, s3, s4, hkeep, hat, fun hn => by simp at hn⟩
      · rename_i hnd
        simp only [Option.some.injEq, Prod.mk.injEq] at h
        obtain ⟨rfl, rfl⟩ := h
        refine ⟨s1, s2, s3, s4, hkeep, hat, fun _ hq => ?_⟩
        refine ⟨by omega, ?_⟩
        rcases s6 with h | ⟨pn', h⟩ | ⟨hip, hproc, hpages⟩
        · omega
        · intro pn'' x hx
          rw [h] at hx
          simp only [Option.some.injEq, Prod.mk.injEq] at hx
          exact hx.2.symm
        · intro pn'' x hx
          rw [hpages, hproc, List.getElem?_set] at hx
          simp only [hip, if_false] at hx
          exact hq pn'' x hip hx

/-- the part of a run's state that excludes a stall: requests go to known pages only, the slot the parser waits for is
empty, and every requested page whose slot is still empty is outstanding -/
structure Live (s : Run) : Prop where
  req_pages : s.ar.req ≤ s.ar.pages.length
  waiting : ∀ pn x, s.ar.pages[s.ar.proc]? = some (pn, x) → x = none
  outst : ∀ i pn, s.ar.proc ≤ i → i < s.ar.req → s.ar.pages[i]? = some (pn, none) → (i, pn) ∈ s.out
  proc_lt : s.ar.proc < s.ar.total

/-- an event after which the caller still waits for the value -/
def Ev.waits : Ev → Prop
  | .value _ _ => False
  | .ioError _ => False
  | _ => True

theorem step_live {σ : Store} {s s' : Run} {a : Act} {e : Ev} (hl : Live s)
    (hstep : s.step true σ a = some (e, s')) (hw : e.waits) : Live s' := by
  cases a with
  | submit =>
    obtain ⟨res, r', hsub, hres⟩ := submit_fixed_some s.ar
    cases res with
    | none =>
      subst hres
      simp only [Run.step, hsub, Option.some.injEq, Prod.mk.injEq] at hstep
      obtain ⟨_, rfl⟩ := hstep
      exact hl
    | some ipn =>
      obtain ⟨i, pn⟩ := ipn
      obtain ⟨rfl, rfl, hne, hlt, x, hsx⟩ := hres
      simp only [Run.step, hsub, Option.some.injEq, Prod.mk.injEq] at hstep
      obtain ⟨_, rfl⟩ := hstep
      refine ⟨hlt, hl.waiting, ?_, hl.proc_lt⟩
      intro i pn' hpi hiq hs
      by_cases hi : i < s.ar.req
      · exact List.mem_append_left _ (hl.outst i pn' hpi hi hs)
      · have : i = s.ar.req := by
          have : i < s.ar.req + 1 := hiq
          omega
        subst this
        have hs' : s.ar.pages[s.ar.req]? = some (pn', none) := hs
        rw [hsx] at hs'
        simp only [Option.some.injEq, Prod.mk.injEq] at hs'
        rw [hs'.1]
        exact List.mem_append_right _ (List.mem_singleton.2 rfl)
  | complete j =>
    cases hget : s.out[j % s.out.length]? with
    | none =>
      simp only [Run.step, hget, Option.some.injEq, Prod.mk.injEq] at hstep
      obtain ⟨_, rfl⟩ := hstep
      exact hl
    | some ipn =>
      obtain ⟨i, pn⟩ := ipn
      cases hσ : σ pn with
      | none =>
        simp only [Run.step, hget, hσ, Option.some.injEq, Prod.mk.injEq] at hstep
        obtain ⟨rfl, _⟩ := hstep
        exact absurd hw (by simp [Ev.waits])
      | some page =>
        cases hc : s.ar.complete i page with
        | none => simp only [Run.step, hget, hσ, hc] at hstep; simp at hstep
        | some rr =>
          obtain ⟨res, r'⟩ := rr
          obtain ⟨c1, c2, c3, c4, c5, c6, c7⟩ := complete_struct _ _ _ _ _ hc (Nat.le_of_lt hl.proc_lt)
          cases res with
          | some v =>
            simp only [Run.step, hget, hσ, hc, Option.some.injEq, Prod.mk.injEq] at hstep
            obtain ⟨rfl, _⟩ := hstep
            exact absurd hw (by simp [Ev.waits])
          | none =>
            simp only [Run.step, hget, hσ, hc, Option.some.injEq, Prod.mk.injEq] at hstep
            obtain ⟨_, rfl⟩ := hstep
            obtain ⟨hlt', hwait'⟩ := c7 rfl (fun pn x _ hx => hl.waiting pn x hx)
            refine ⟨?_, hwait', ?_, hlt'⟩
            · show r'.req ≤ r'.pages.length
              have := hl.req_pages; omega
            · intro k pn' hpk hkq hs
              have hkq' : k < s.ar.req := by rw [← c1]; exact hkq
              have hkl : k < s.ar.pages.length := Nat.lt_of_lt_of_le hkq' hl.req_pages
              by_cases hki : k = i
              · subst hki
                obtain ⟨pn'', hsome⟩ := c6 hpk
                have hs' : r'.pages[k]? = some (pn', none) := hs
                rw [hsome] at hs'
                simp at hs'
              · have hs' : r'.pages[k]? = some (pn', none) := hs
                rw [c5 k hpk hkl hki] at hs'
                have hmem := hl.outst k pn' (Nat.le_trans c3 hpk) hkq' hs'
                exact List.mem_filter.2 ⟨hmem, by simpa using hki⟩

theorem run_live {σ : Store} {cell : List Nat} {parts : List Part} (hc : Chain σ cell parts) :
    ∀ (acts : List Act) (s : Run) (evs : List Ev) (s' : Run), RunInv σ cell parts s → Live s →
      Run.run true σ s acts = some (evs, s') → (∃ i v, Ev.value i v ∈ evs) ∨ Live s'
  | [], s, evs, s', _, hl, hrun => by
    simp only [Run.run, Option.some.injEq, Prod.mk.injEq] at hrun
    obtain ⟨_, rfl⟩ := hrun
    exact Or.inr hl
  | a :: acts, s, evs, s', hinv, hl, hrun => by
    obtain ⟨e, s1, hstep, hinv1, hev⟩ := step_inv hc hinv a
    simp only [Run.run, hstep] at hrun
    cases hrest : Run.run true σ s1 acts with
    | none => rw [hrest] at hrun; simp at hrun
    | some p =>
      obtain ⟨evs1, s2⟩ := p
      rw [hrest] at hrun
      simp only [Option.some.injEq, Prod.mk.injEq] at hrun
      obtain ⟨rfl, rfl⟩ := hrun
      by_cases hw : e.waits
      · rcases run_live hc acts s1 evs1 s2 hinv1 (step_live hl hstep hw) hrest with ⟨i, v, hm⟩ | hl'
        · exact Or.inl ⟨i, v, List.mem_cons_of_mem _ hm⟩
        · exact Or.inr hl'
      · cases e with
        | value i v => exact Or.inl ⟨i, v, List.mem_cons_self⟩
        | ioError pn => exact absurd hev (by simp [EvOK])
        | submitted _ _ => exact absurd trivial hw
        | nothing => exact absurd trivial hw
        | idle => exact absurd trivial hw
        | pending _ => exact absurd trivial hw

/-- **no stall**: while the value is not complete, a request is outstanding or `submit` hands out a new one -/
theorem no_stall {σ : Store} {cell : List Nat} {parts : List Part} (hc : Chain σ cell parts) {s : Run}
    (hinv : ARInv σ cell parts s.ar) (hl : Live s) :
    s.out ≠ [] ∨ ∃ i pn r', s.ar.submit true = some (some (i, pn), r') := by
  have hp : s.ar.proc < parts.length := by rw [← hinv.total]; exact hl.proc_lt
  have hlt := hinv.proc_lt_pages hc hp
  by_cases hpr : s.ar.proc < s.ar.req
  · left
    obtain ⟨⟨pn, x⟩, hs⟩ : ∃ e, s.ar.pages[s.ar.proc]? = some e := ⟨_, List.getElem?_eq_getElem hlt⟩
    have hx := hl.waiting pn x hs
    subst hx
    have := hl.outst s.ar.proc pn (Nat.le_refl _) hpr hs
    intro hnil
    rw [hnil] at this
    simp at this
  · right
    have heq : s.ar.req = s.ar.proc := by have := hinv.proc_req; omega
    obtain ⟨res, r', hsub, hres⟩ := submit_fixed_some s.ar
    cases res with
    | some ipn => exact ⟨ipn.1, ipn.2, r', hsub⟩
    | none =>
      exfalso
      unfold AR.submit at hsub
      have hg : ¬ (s.ar.req = s.ar.total ∨ (true = true ∧ s.ar.req ≥ s.ar.pages.length)) := by
        have := hl.proc_lt
        rintro (h | ⟨_, h⟩) <;> omega
      rw [if_neg hg] at hsub
      obtain ⟨⟨pn, x⟩, hs⟩ : ∃ e, s.ar.pages[s.ar.req]? = some e :=
        ⟨_, List.getElem?_eq_getElem (by omega)⟩
      rw [hs] at hsub
      simp at hsub

end Nomt.Ovf
