import NomtModel.Store.StageGlueUpdate
/-!
# Page ledger of `ops::update`: released + kept = old, new = allocated
-/
namespace Nomt.StageGlue
open Nomt
open Nomt.LeafUpd (Entry DbLeaf OutLeaf Leaf CellSize Sorted write1 applyAll OutUpTo)
open Nomt.BranchUpd (DbNode OutNode Produced Node KF kfReal chs)

variable {V : Type} [CellSize V]

theorem nodup_of_map {α β : Type} (f : α → β) {l : List α} (h : (l.map f).Nodup) : l.Nodup := by
  unfold List.Nodup at h ⊢
  rw [List.pairwise_map] at h
  exact h.imp (fun hne e => hne (congrArg f e))

/-- a sub-collection of a list with pairwise different keys is the filter by its keys -/
theorem perm_filter_of_subset {α : Type} (key : α → Nat) (db kept : List α) (hdb : (db.map key).Nodup)
    (hk : (kept.map key).Nodup) (hsub : ∀ x ∈ kept, x ∈ db) :
    kept.Perm (db.filter fun x => decide (key x ∈ kept.map key)) := by
  have inj : ∀ x ∈ db, ∀ y ∈ db, key x = key y → x = y := by
    intro x hx y hy e
    have key2 : ∀ (l : List α), (l.map key).Nodup → x ∈ l → y ∈ l → x = y := by
      intro l
      induction l with
      | nil => intro _ h; cases h
      | cons z t ih =>
        intro hnd h1 h2
        simp only [List.map_cons, List.nodup_cons] at hnd
        rcases List.mem_cons.1 h1 with rfl | h1' <;> rcases List.mem_cons.1 h2 with rfl | h2'
        · rfl
        · exact (hnd.1 (List.mem_map.2 ⟨y, h2', e.symm⟩)).elim
        · exact (hnd.1 (List.mem_map.2 ⟨x, h1', e⟩)).elim
        · exact ih hnd.2 h1' h2'
    exact key2 db hdb hx hy
  apply (List.perm_ext_iff_of_nodup (nodup_of_map key hk)
    ((nodup_of_map key hdb).sublist (List.filter_sublist))).2
  intro a
  simp only [List.mem_filter, decide_eq_true_eq]
  constructor
  · intro ha
    exact ⟨hsub a ha, List.mem_map.2 ⟨a, ha, rfl⟩⟩
  · rintro ⟨ha, hk'⟩
    obtain ⟨b, hb, e⟩ := List.mem_map.1 hk'
    have := inj b (hsub b hb) a ha e
    rw [← this]; exact hb

/-- released ⊎ kept = old -/
theorem ledger_perm {α : Type} (key pn : α → Nat) (db kept : List α) (freed : List Nat) (hdb : (db.map key).Nodup)
    (hk : (kept.map key).Nodup) (hsub : ∀ x ∈ kept, x ∈ db)
    (hf : freed.Perm ((db.filter fun x => decide (key x ∉ kept.map key)).map pn)) :
    (freed ++ kept.map pn).Perm (db.map pn) := by
  have h1 := perm_filter_of_subset key db kept hdb hk hsub
  have h2 : ((db.filter fun x => decide (key x ∉ kept.map key)) ++ (db.filter fun x => decide (key x ∈ kept.map key))).Perm db := by
    have := List.filter_append_perm (fun x => decide (key x ∈ kept.map key)) db
    refine List.Perm.trans (List.perm_append_comm) ?_
    have e : (db.filter fun x => decide (key x ∉ kept.map key)) = db.filter (fun x => !decide (key x ∈ kept.map key)) := by
      apply List.filter_congr
      intro x _
      simp only [decide_not]
    rw [e]
    exact this
  refine List.Perm.trans (List.Perm.append hf (h1.map pn)) ?_
  rw [← List.map_append]
  exact h2.map pn

theorem oldsOf_seps_nodup {out : List (OutLeaf V)} (h : OutAsc out) : ((oldsOf out).map (·.sep)).Nodup := by
  have : ((oldsOf out).map (·.sep)).Pairwise (· < ·) := by
    rw [List.pairwise_map]
    induction out with
    | nil => exact List.Pairwise.nil
    | cons x t ih =>
      have h' := List.pairwise_cons.1 h
      cases x with
      | old l =>
        refine List.pairwise_cons.2 ⟨?_, ih h'.2⟩
        intro y hy
        exact h'.1 _ (mem_oldsOf hy)
      | new l => exact ih h'.2
  exact this.imp (fun h => by omega)

theorem oldsOfB_seps_nodup {out : List OutNode} (h : OutAscB out) : ((oldsOfB out).map (·.sep)).Nodup := by
  have : ((oldsOfB out).map (·.sep)).Pairwise (· < ·) := by
    rw [List.pairwise_map]
    induction out with
    | nil => exact List.Pairwise.nil
    | cons x t ih =>
      have h' := List.pairwise_cons.1 h
      cases x with
      | old l =>
        refine List.pairwise_cons.2 ⟨?_, ih h'.2⟩
        intro y hy
        exact h'.1 _ (mem_oldsOfB hy)
      | new l => exact ih h'.2
  exact this.imp (fun h => by omega)

/-- the page numbers the new leaf level uses: old ones of untouched leaves, or freshly allocated ones -/
theorem lvlOf_pns (lpn fresh : Nat → Nat) : ∀ (out : List (OutLeaf V)) (a : Nat) (x : Nat × Nat),
    x ∈ lvlOf lpn fresh a out →
    (∃ l ∈ oldsOf out, x.2 = lpn l.sep) ∨ (∃ i, i < (newsOf out).length ∧ x.2 = fresh (a + i))
  | [], _, _, h => by cases h
  | .old l :: t, a, x, h => by
    rcases List.mem_cons.1 h with rfl | h
    · exact Or.inl ⟨l, by simp [oldsOf], rfl⟩
    · rcases lvlOf_pns lpn fresh t a x h with ⟨l', hl', e⟩ | ⟨i, hi, e⟩
      · exact Or.inl ⟨l', by simp [oldsOf, hl'], e⟩
      · exact Or.inr ⟨i, by simpa [newsOf] using hi, e⟩
  | .new l :: t, a, x, h => by
    rcases List.mem_cons.1 h with rfl | h
    · exact Or.inr ⟨0, by simp [newsOf], rfl⟩
    · rcases lvlOf_pns lpn fresh t (a + 1) x h with ⟨l', hl', e⟩ | ⟨i, hi, e⟩
      · exact Or.inl ⟨l', by simpa [oldsOf] using hl', e⟩
      · exact Or.inr ⟨i + 1, by simp [newsOf]; omega, by rw [e]; congr 1; omega⟩

theorem relabel0_vals (l : List (Entry Nat)) : (relabel0 l).map (·.val) = l.map (·.val) := by
  cases l <;> rfl

theorem filter_split (p : Entry V → Bool) (k : Nat) (hp : ∀ x, p x = true → x.key ≠ k) : ∀ (l : List (Entry V)), Sorted l →
    (l.filter fun a => p a && decide (a.key < k)) ++ (l.filter fun a => p a && decide (k < a.key)) = l.filter p
  | [], _ => rfl
  | x :: t, hs => by
    have hs' := List.pairwise_cons.1 hs
    have ih := filter_split p k hp t hs'.2
    simp only [List.filter_cons]
    by_cases hx : p x = true
    · have hne := hp x hx
      rcases Nat.lt_or_gt_of_ne hne with hlt | hgt
      · have : ¬ k < x.key := by omega
        simp only [hx, hlt, decide_true, Bool.and_self, if_true, this, decide_false, Bool.and_false,
          Bool.false_eq_true, if_false, List.cons_append, ih]
      · have : ¬ x.key < k := by omega
        have hnil : (t.filter fun a => p a && decide (a.key < k)) = [] := by
          rw [List.filter_eq_nil_iff]
          intro y hy
          have := hs'.1 y hy
          have : ¬ y.key < k := by omega
          simp [this]
        simp only [hx, this, decide_false, Bool.and_false, Bool.false_eq_true, if_false, hgt, decide_true,
          Bool.and_self, if_true]
        rw [hnil] at ih ⊢
        simp only [List.nil_append] at ih ⊢
        rw [ih]
    · have hx' : p x = false := by cases h : p x <;> simp_all
      simp only [hx', Bool.false_and, Bool.false_eq_true, if_false, ih]

/-- entries whose key the batch does not name survive it -/
theorem filter_applyAll_notin (ks : List Nat) : ∀ (cs : List (Nat × Option (V × Bool))) (l : List (Entry V)), Sorted l →
    (∀ c ∈ cs, c.1 ∈ ks) →
    (applyAll l cs).filter (fun e => decide (e.key ∉ ks)) = l.filter (fun e => decide (e.key ∉ ks))
  | [], _, _, _ => rfl
  | (k, ch) :: cs, l, hs, h => by
    show (applyAll (write1 l k ch) cs).filter _ = _
    rw [filter_applyAll_notin ks cs _ (LeafUpd.write1_sorted hs k ch) (fun c' hc' => h c' (by simp [hc']))]
    have hk : k ∈ ks := h (k, ch) (by simp)
    have key := filter_split (fun e => decide (e.key ∉ ks)) k (by
      intro x hx e
      simp only [decide_eq_true_eq] at hx
      exact hx (e ▸ hk)) l hs
    unfold write1
    cases ch with
    | none =>
      simp only [List.filter_append, List.filter_filter, List.filter_nil, List.nil_append]
      exact key
    | some vo =>
      obtain ⟨v, o⟩ := vo
      simp only [List.filter_append, List.filter_filter, List.filter_cons, hk, not_true_eq_false, decide_false,
        Bool.false_eq_true, if_false, List.filter_nil, List.nil_append]
      exact key

end Nomt.StageGlue
