import NomtModel.Store.LeafUpdKeep
/-!
# The invariant of the updater between calls, `keep_up_to(None)`, `ingest`

`Inv KB st`: the op list is well formed and the gauge is its size; the content (`content st`) is ascending, made of
cells of at most `MAX_LEAF_VALUE_SIZE` bytes with keys below `KB`, bounded below by `separator()` and above by the
cutoff; a separator override is only pending while there are ops.
-/
namespace Nomt.LeafUpd
variable {V : Type} [CellSize V]

structure Inv (KB : Nat) (st : St V) : Prop where
  wf : WF st.base st.ops
  gauge : st.gauge = gaugeOf (den st.base st.ops)
  low_le : ∀ b, st.base = some b → b.low ≤ b.ents.length
  sorted : Sorted (content st)
  size : SizeOK (content st)
  keys : KeysBelow KB (content st)
  lo : ∀ e ∈ content st, separator st ≤ e.key
  hi : ∀ c, st.cutoff = some c → ∀ e ∈ content st, e.key < c
  sepnil : den st.base st.ops = [] → st.sepOv = none
  cutbase : st.cutoff.isSome = true → st.base.isSome = true

theorem separator_congr {st st' : St V} (h1 : st'.sepOv = st.sepOv) (h2 : st'.base.map (·.sep) = st.base.map (·.sep)) :
    separator st' = separator st := by
  unfold separator
  rw [h1]
  cases st.sepOv with
  | some s => rfl
  | none =>
    cases hb : st.base <;> cases hb' : st'.base <;> simp_all

/-! ## `keep_up_to(None)` -/

theorem keepUpToG_none_spec (old : Bool) (st : St V)
    (hwf : WF st.base st.ops) (hg : st.gauge = gaugeOf (den st.base st.ops))
    (hll : ∀ b, st.base = some b → b.low ≤ b.ents.length) :
    let st' := (keepUpToG old st none).1
    den st'.base st'.ops = den st.base st.ops ++ restOf st.base ∧ restOf st'.base = [] ∧
      WF st'.base st'.ops ∧ st'.gauge = gaugeOf (den st'.base st'.ops) ∧ baseEnts st'.base = baseEnts st.base ∧
      st'.base.isSome = st.base.isSome ∧ st'.base.map (·.sep) = st.base.map (·.sep) ∧ st'.cutoff = st.cutoff ∧
      st'.sepOv = st.sepOv ∧ (∀ b, st'.base = some b → b.low ≤ b.ents.length) ∧ (keepUpToG old st none).2 = [] := by
  obtain ⟨base, cutoff, sepOv, ops, gauge⟩ := st
  simp only at hwf hg hll
  cases base with
  | none => simp only [keepUpToG]; exact ⟨by simp [restOf], by simp [restOf], hwf, hg, by simp, by simp, by simp, by simp, by simp, hll, by simp⟩
  | some b =>
    have hlle : b.low ≤ b.ents.length := hll b rfl
    simp only [keepUpToG]
    by_cases hlow : b.low = b.ents.length
    · have : (b.low == b.ents.length) = true := by simp [hlow]
      simp only [this, if_true]
      have hd : b.ents.drop b.low = [] := by rw [hlow]; simp
      exact ⟨by simp [restOf, hd], by simp [restOf, hd], hwf, hg, by simp, by simp, by simp, by simp, by simp, hll, by simp⟩
    · have h1 : (b.low == b.ents.length) = false := by simp [hlow]
      have h2 : (b.low != b.ents.length) = true := by simp [hlow]
      simp only [h1, Bool.false_eq_true, if_false, h2, if_true]
      have hden0 : den (some { b with low := b.ents.length }) ops = den (some b) ops :=
        den_congr (by simp [baseEnts]) _
      refine ⟨?_, by simp [restOf], ?_, ?_, by simp [baseEnts], by simp, by simp, by simp, by simp,
        by intro b' hb'; simp at hb'; subst hb'; simp, by simp [overflowOf]⟩
      · simp only [den_append, den_cons, den_nil, List.append_nil, denOp, baseEnts, hden0, restOf]
        rw [slice_eq_drop _ _ _ (Nat.le_refl _)]
      · apply wf_append.2
        refine ⟨WF.congr (by simp [baseEnts]) (by simp) hwf, ?_⟩
        intro op hop
        simp at hop; subst hop
        exact ⟨rfl, by omega, by simp [baseEnts], rfl⟩
      · simp only [den_append, den_cons, den_nil, List.append_nil, denOp, baseEnts, hden0]
        rw [gaugeOf_append, hg, slice_length _ _ _ (Nat.le_refl _), valuesSize_eq]

/-! ## `write1` on ascending lists -/

theorem filter_sorted {l : List (Entry V)} (h : Sorted l) (p : Entry V → Bool) : Sorted (l.filter p) :=
  List.Pairwise.sublist List.filter_sublist h

theorem write1_sorted {l : List (Entry V)} (h : Sorted l) (k : Nat) (ch : Option (V × Bool)) :
    Sorted (write1 l k ch) := by
  unfold write1 Sorted
  rw [List.pairwise_append]
  refine ⟨filter_sorted h _, ?_, ?_⟩
  · rw [List.pairwise_append]
    refine ⟨?_, filter_sorted h _, ?_⟩
    · cases ch with
      | none => simp
      | some vo => obtain ⟨v, o⟩ := vo; simp
    · intro a ha b hb
      cases ch with
      | none => simp at ha
      | some vo =>
        obtain ⟨v, o⟩ := vo
        simp at ha; subst ha
        simpa using (List.mem_filter.1 hb).2
  · intro a ha b hb
    have h1 : a.key < k := by simpa using (List.mem_filter.1 ha).2
    rcases List.mem_append.1 hb with hb | hb
    · cases ch with
      | none => simp at hb
      | some vo => obtain ⟨v, o⟩ := vo; simp at hb; subst hb; exact h1
    · have h2 : k < b.key := by simpa using (List.mem_filter.1 hb).2
      omega

theorem mem_write1 {l : List (Entry V)} {k : Nat} {ch : Option (V × Bool)} {e : Entry V} (h : e ∈ write1 l k ch) :
    e ∈ l ∨ (∃ v o, ch = some (v, o) ∧ e = ⟨k, v, o⟩) := by
  unfold write1 at h
  rcases List.mem_append.1 h with h | h
  · exact Or.inl (List.mem_filter.1 h).1
  · rcases List.mem_append.1 h with h | h
    · cases ch with
      | none => simp at h
      | some vo => obtain ⟨v, o⟩ := vo; simp at h; exact Or.inr ⟨v, o, rfl, h⟩
    · exact Or.inl (List.mem_filter.1 h).1

theorem write1_append_below {a r : List (Entry V)} {k : Nat} (ha : ∀ e ∈ a, e.key < k) (ch : Option (V × Bool)) :
    write1 (a ++ r) k ch = a ++ write1 r k ch := by
  unfold write1
  rw [List.filter_append, List.filter_append]
  rw [filter_all (p := fun e => decide (e.key < k)) (r := a) (fun x hx => by simpa using ha x hx)]
  rw [filter_none (p := fun e => decide (k < e.key)) (r := a) (fun x hx => by have := ha x hx; simp; omega)]
  simp

theorem write1_append_above {l r : List (Entry V)} {k : Nat} (hr : ∀ e ∈ r, k < e.key) (ch : Option (V × Bool)) :
    write1 (l ++ r) k ch = write1 l k ch ++ r := by
  unfold write1
  rw [List.filter_append, List.filter_append]
  rw [filter_all (p := fun e => decide (k < e.key)) (r := r) (fun x hx => by simpa using hr x hx)]
  rw [filter_none (p := fun e => decide (e.key < k)) (r := r) (fun x hx => by have := hr x hx; simp; omega)]
  simp

theorem ovfAt_append (a r : List (Entry V)) (k : Nat) : ovfAt (a ++ r) k = ovfAt a k ++ ovfAt r k := by
  simp [ovfAt]

theorem ovfAt_of_ne {a : List (Entry V)} {k : Nat} (h : ∀ e ∈ a, e.key ≠ k) : ovfAt a k = [] := by
  unfold ovfAt
  rw [filter_none (fun x hx => by simp; intro h'; exact absurd h' (h x hx))]
  rfl

/-! ## `ingest` -/

theorem ingest_spec (KB : Nat) (st : St V) (k : Nat) (ch : Option (V × Bool)) (hinv : Inv KB st)
    (hbelow : ∀ e ∈ den st.base st.ops, e.key < k) (hklo : separator st ≤ k)
    (hkhi : ∀ c, st.cutoff = some c → k < c) (hkKB : k < KB)
    (hch : ∀ v o, ch = some (v, o) → CellSize.size v ≤ MAXV) :
    content (ingest st k ch).1 = write1 (content st) k ch ∧
    (ingest st k ch).2 = ovfAt (content st) k ∧
    Inv KB (ingest st k ch).1 ∧
    (∀ e ∈ den (ingest st k ch).1.base (ingest st k ch).1.ops, e.key ≤ k) ∧
    (ingest st k ch).1.cutoff = st.cutoff ∧
    (ingest st k ch).1.base.map (·.sep) = st.base.map (·.sep) ∧
    baseEnts (ingest st k ch).1.base = baseEnts st.base ∧
    (ingest st k ch).1.sepOv = st.sepOv := by
  have hsr : Sorted (restOf st.base) := hinv.sorted.append_right
  obtain ⟨ko, klog⟩ := keepUpToG_some_spec false st k hinv.wf hinv.gauge hsr hinv.low_le
  have klog := klog rfl
  generalize hst1 : (keepUpToG false st (some k)).1 = st1 at ko klog
  generalize hlog : (keepUpToG false st (some k)).2 = log at klog
  have hpair : keepUpToG false st (some k) = (st1, log) := by rw [← hst1, ← hlog]
  -- content after `keep_up_to`: the entry stored under `k` is gone
  have hcont1 : content st1 = write1 (content st) k none := by
    unfold content
    rw [write1_append_below hbelow, ko.den_eq, ko.rest_eq]
    simp [write1]
  have hlogeq : log = ovfAt (content st) k := by
    unfold content
    rw [ovfAt_append, ovfAt_of_ne (fun e he => by have := hbelow e he; omega), klog]; rfl
  have hden1_le : ∀ e ∈ den st1.base st1.ops, e.key < k := by
    intro e he
    rw [ko.den_eq] at he
    rcases List.mem_append.1 he with he | he
    · exact hbelow e he
    · simpa using (List.mem_filter.1 he).2
  have hrest1 : ∀ e ∈ restOf st1.base, k < e.key := by
    intro e he; rw [ko.rest_eq] at he; simpa using (List.mem_filter.1 he).2
  have hsep1 : separator st1 = separator st := separator_congr ko.sepOv ko.sep
  have hc_sorted := write1_sorted hinv.sorted k ch
  have hcb1 : st1.cutoff.isSome = true → st1.base.isSome = true := by
    intro h; rw [ko.isSome_eq]; exact hinv.cutbase (by rw [← ko.cutoff]; exact h)
  have hmem : ∀ e ∈ write1 (content st) k ch, separator st ≤ e.key ∧ e.size ≤ MAXV ∧ e.key < KB ∧
      (∀ c, st.cutoff = some c → e.key < c) := by
    intro e he
    rcases mem_write1 he with h | ⟨v, o, hc, rfl⟩
    · exact ⟨hinv.lo e h, hinv.size e h, hinv.keys e h, fun c hc => hinv.hi c hc e h⟩
    · exact ⟨hklo, hch v o hc, hkKB, hkhi⟩
  cases ch with
  | none =>
    have hres : ingest st k none = (st1, log) := by simp [ingest, ingestG, hpair]
    rw [hres]
    refine ⟨hcont1, hlogeq, ?_, fun e he => Nat.le_of_lt (hden1_le e he), ko.cutoff, ko.sep, ko.ents, ko.sepOv⟩
    refine ⟨ko.wf, ko.gauge, ko.low_le, by rw [hcont1]; exact hc_sorted, ?_, ?_, ?_, ?_, ?_, hcb1⟩
    · intro e he; rw [hcont1] at he; exact (hmem e he).2.1
    · intro e he; rw [hcont1] at he; exact (hmem e he).2.2.1
    · intro e he; rw [hcont1] at he; rw [hsep1]; exact (hmem e he).1
    · intro c hc e he; rw [hcont1] at he; rw [ko.cutoff] at hc; exact (hmem e he).2.2.2 c hc
    · intro hn
      rw [ko.sepOv]
      apply hinv.sepnil
      rw [ko.den_eq] at hn
      exact (List.append_eq_nil_iff.1 hn).1
  | some vo =>
    obtain ⟨v, o⟩ := vo
    have hres : ingest st k (some (v, o)) =
        ({ st1 with gauge := st1.gauge.ingest 1 (CellSize.size v), ops := st1.ops ++ [.ins ⟨k, v, o⟩] }, log) := by
      simp [ingest, ingestG, hpair]
    rw [hres]
    have hden2 : den st1.base (st1.ops ++ [.ins ⟨k, v, o⟩]) = den st1.base st1.ops ++ [⟨k, v, o⟩] := by
      simp [denOp]
    have hcont2 : content ({ st1 with gauge := st1.gauge.ingest 1 (CellSize.size v), ops := st1.ops ++ [.ins ⟨k, v, o⟩] } : St V) = write1 (content st) k (some (v, o)) := by
      unfold content
      simp only [hden2]
      rw [write1_append_below hbelow, ko.den_eq, ko.rest_eq]
      simp [write1]
    refine ⟨hcont2, hlogeq, ?_, ?_, ko.cutoff, ko.sep, ko.ents, ko.sepOv⟩
    · refine ⟨?_, ?_, ko.low_le, by rw [hcont2]; exact hc_sorted, ?_, ?_, ?_, ?_, ?_, hcb1⟩
      · exact wf_append.2 ⟨ko.wf, by intro op hop; simp at hop; subst hop; trivial⟩
      · simp only [hden2, gaugeOf_append, ko.gauge]; rfl
      · intro e he; rw [hcont2] at he; exact (hmem e he).2.1
      · intro e he; rw [hcont2] at he; exact (hmem e he).2.2.1
      · intro e he; rw [hcont2] at he
        have : separator ({ st1 with gauge := st1.gauge.ingest 1 (CellSize.size v), ops := st1.ops ++ [.ins ⟨k, v, o⟩] } : St V) = separator st := by
          rw [← hsep1]; rfl
        rw [this]; exact (hmem e he).1
      · intro c hc e he; rw [hcont2] at he
        have hc' : st.cutoff = some c := by rw [← ko.cutoff]; exact hc
        exact (hmem e he).2.2.2 c hc'
      · intro hn; simp only [hden2] at hn; simp at hn
    · intro e he
      simp only [hden2] at he
      rcases List.mem_append.1 he with he | he
      · exact Nat.le_of_lt (hden1_le e he)
      · simp at he; subst he; exact Nat.le_refl _

end Nomt.LeafUpd
