import NomtModel.Generated.Constants
import NomtModel.Store.ImgCheck
import NomtModel.Store.ImgMerkle
/-!
# Constants of the on-disk formats (decoders of `ImgBytes / ImgFormats / ImgTable / ImgMerkle`) — used by C16

`Nomt.Gen.*` (`Generated/Constants.lean`) is produced by `tools/gen_constants.py` from the current Rust
sources on every run of `tools/check.py` / `tools/setup.py`.  Every fact is closed arithmetic checked by the
kernel (`decide` / `rfl` / `omega`): either a **tie** (a constant carried by hand in the Lean model equals the
generated value) or a **layout law** (a relation between generated values a property relies on).  A changed
constant in the Rust source changes the generated file and makes the fact — and the property theorem of
`Props/` that re-exports it — fail to build.
-/
namespace Nomt.Store.ConstantsCheck
open Nomt Nomt.Store

theorem page_size : PAGE = Gen.PAGE_SIZE := by decide

theorem branch_node_size : PAGE = Gen.BRANCH_NODE_SIZE := by decide

theorem meta_size : META_SIZE = Gen.META_SIZE := by decide

theorem meta_magic : MAGIC = Gen.META_MAGIC := by decide

theorem meta_version : VERSION = Gen.META_VERSION := by decide

theorem leaf_node_body_size : LEAF_NODE_BODY_SIZE = Gen.LEAF_NODE_BODY_SIZE := by decide

theorem max_leaf_value_size : MAX_LEAF_VALUE_SIZE = Gen.MAX_LEAF_VALUE_SIZE := by decide

theorem max_overflow_cell_node_pointers :
    MAX_OVERFLOW_CELL_NODE_POINTERS = Gen.MAX_OVERFLOW_CELL_NODE_POINTERS := by decide

theorem max_overflow_value_size : MAX_OVERFLOW_VALUE_SIZE = Gen.MAX_OVERFLOW_VALUE_SIZE := by decide

theorem overflow_body_size : OVERFLOW_BODY_SIZE = Gen.OVERFLOW_BODY_SIZE := by decide

theorem branch_header : BRANCH_HEADER = Gen.BRANCH_NODE_HEADER_SIZE := by decide

theorem page_elision_threshold : PAGE_ELISION_THRESHOLD = Gen.PAGE_ELISION_THRESHOLD := by decide

theorem max_page_depth : MAX_PAGE_DEPTH = Gen.MAX_PAGE_DEPTH := by decide

theorem nodes_per_page : NODES_PER_PAGE = Gen.NODES_PER_PAGE := by decide

/-- the literal `32768` of `decodeLeaf` (bit 15 of a cell offset marks an overflow cell) -/
theorem leaf_overflow_bit : (32768 : Nat) = Gen.LEAF_OVERFLOW_BIT := by decide

/-- `decodeMeta` reads every field at the offset `Meta::encode_to` writes it to -/
theorem decode_meta_offsets (b : ByteArray) (h : ¬ b.size < Gen.META_SIZE) :
    decodeMeta b = some
      { magic := u32le b Gen.META_MAGIC_START, version := u32le b Gen.META_VERSION_START,
        lnFreelistPn := u32le b Gen.META_LN_FREELIST_PN_START, lnBump := u32le b Gen.META_LN_BUMP_START,
        bbnFreelistPn := u32le b Gen.META_BBN_FREELIST_PN_START, bbnBump := u32le b Gen.META_BBN_BUMP_START,
        syncSeqn := u32le b Gen.META_SYNC_SEQN_START, bitboxNumPages := u32le b Gen.META_BITBOX_NUM_PAGES_START,
        seed0 := u64le b Gen.META_BITBOX_SEED_START, seed1 := u64le b (Gen.META_BITBOX_SEED_START + 8),
        rollbackStartLive := u64le b Gen.META_ROLLBACK_START_LIVE_START,
        rollbackEndLive := u64le b Gen.META_ROLLBACK_END_LIVE_START } := by
  have h' : ¬ b.size < META_SIZE := h
  unfold decodeMeta
  rw [if_neg h']
  rfl

/-- the record header of the seglog has the length the Lean decoder assumes (`o + 12`) -/
theorem seglog_header_size (len id : Nat) : (encodeRecordHeaderL len id).length = Gen.SEGLOG_HEADER_SIZE := rfl

/-- the manifest fields are consecutive, start at 0, end at `META_SIZE`, and have the widths the
decoder reads (eight u32, a 16-byte seed, two u64): no two fields overlap and all fit -/
theorem meta_layout :
    Gen.META_MAGIC_START = 0 ∧
    Gen.META_MAGIC_END = Gen.META_VERSION_START ∧
    Gen.META_VERSION_END = Gen.META_LN_FREELIST_PN_START ∧
    Gen.META_LN_FREELIST_PN_END = Gen.META_LN_BUMP_START ∧
    Gen.META_LN_BUMP_END = Gen.META_BBN_FREELIST_PN_START ∧
    Gen.META_BBN_FREELIST_PN_END = Gen.META_BBN_BUMP_START ∧
    Gen.META_BBN_BUMP_END = Gen.META_SYNC_SEQN_START ∧
    Gen.META_SYNC_SEQN_END = Gen.META_BITBOX_NUM_PAGES_START ∧
    Gen.META_BITBOX_NUM_PAGES_END = Gen.META_BITBOX_SEED_START ∧
    Gen.META_BITBOX_SEED_END = Gen.META_ROLLBACK_START_LIVE_START ∧
    Gen.META_ROLLBACK_START_LIVE_END = Gen.META_ROLLBACK_END_LIVE_START ∧
    Gen.META_ROLLBACK_END_LIVE_END = Gen.META_SIZE ∧
    [Gen.META_MAGIC_END - Gen.META_MAGIC_START, Gen.META_VERSION_END - Gen.META_VERSION_START,
     Gen.META_LN_FREELIST_PN_END - Gen.META_LN_FREELIST_PN_START, Gen.META_LN_BUMP_END - Gen.META_LN_BUMP_START,
     Gen.META_BBN_FREELIST_PN_END - Gen.META_BBN_FREELIST_PN_START, Gen.META_BBN_BUMP_END - Gen.META_BBN_BUMP_START,
     Gen.META_SYNC_SEQN_END - Gen.META_SYNC_SEQN_START, Gen.META_BITBOX_NUM_PAGES_END - Gen.META_BITBOX_NUM_PAGES_START,
     Gen.META_BITBOX_SEED_END - Gen.META_BITBOX_SEED_START,
     Gen.META_ROLLBACK_START_LIVE_END - Gen.META_ROLLBACK_START_LIVE_START,
     Gen.META_ROLLBACK_END_LIVE_END - Gen.META_ROLLBACK_END_LIVE_START] = [4, 4, 4, 4, 4, 4, 4, 4, 16, 8, 8] ∧
    Gen.META_SIZE ≤ Gen.PAGE_SIZE := by decide

/-- the leaf constants are the documented functions of the page size -/
theorem leaf_layout :
    Gen.LEAF_NODE_BODY_SIZE = Gen.PAGE_SIZE - 2 ∧
    Gen.MAX_LEAF_VALUE_SIZE = Gen.LEAF_NODE_BODY_SIZE / 3 - 32 ∧
    Gen.PAGE_SIZE < Gen.LEAF_OVERFLOW_BIT ∧          -- every cell offset leaves bit 15 free
    2 + (32 + 2) + Gen.MAX_LEAF_VALUE_SIZE ≤ Gen.PAGE_SIZE ∧   -- a leaf can hold a value of maximal inline size
    2 + 2 * ((32 + 2) + Gen.MAX_LEAF_VALUE_SIZE) ≤ Gen.PAGE_SIZE := by decide

/-- **an overflow cell always fits in a leaf**: the largest cell (`u64` size, 32-byte hash,
`MAX_OVERFLOW_CELL_NODE_POINTERS` page numbers) is not larger than the largest inline value -/
theorem overflow_cell_fits :
    8 + 32 + 4 * Gen.MAX_OVERFLOW_CELL_NODE_POINTERS ≤ Gen.MAX_LEAF_VALUE_SIZE ∧
    2 + (32 + 2) + (8 + 32 + 4 * Gen.MAX_OVERFLOW_CELL_NODE_POINTERS) ≤ Gen.PAGE_SIZE := by decide

/-- an overflow page is a 4-byte header plus body; the body holds `MAX_PNS` page numbers; a value
just above the inline limit needs one page, so its cell is a legal one (≥ 1 pointer) -/
theorem overflow_page_layout :
    Gen.OVERFLOW_HEADER_SIZE + Gen.OVERFLOW_BODY_SIZE = Gen.PAGE_SIZE ∧
    Gen.OVERFLOW_MAX_PNS = Gen.OVERFLOW_BODY_SIZE / 4 ∧
    4 * Gen.OVERFLOW_MAX_PNS ≤ Gen.OVERFLOW_BODY_SIZE ∧
    Gen.MAX_OVERFLOW_CELL_NODE_POINTERS ≤ Gen.OVERFLOW_MAX_PNS ∧
    Gen.MAX_LEAF_VALUE_SIZE < Gen.MAX_OVERFLOW_VALUE_SIZE := by decide

theorem branch_layout :
    Gen.BRANCH_NODE_HEADER_SIZE + Gen.BRANCH_NODE_BODY_SIZE = Gen.BRANCH_NODE_SIZE ∧
    Gen.BRANCH_NODE_SIZE = Gen.PAGE_SIZE := by decide

/-- a merkle page: `NODES_PER_PAGE = 2^(DEPTH+1) − 2` nodes of 32 bytes, the elided-children bit
field (one bit per child: `NUM_CHILDREN = 64` bits = 8 bytes) and the 32-byte page id fit in a page -/
theorem merkle_page_layout :
    Gen.NODES_PER_PAGE = 2 ^ (Gen.DEPTH + 1) - 2 ∧
    32 * Gen.NODES_PER_PAGE + Gen.NUM_CHILDREN / 8 + 32 ≤ Gen.PAGE_SIZE ∧
    Gen.DEPTH * Gen.MAX_PAGE_DEPTH ≤ 256 := by decide

/-- **a page of the last level is never stored**: below a node of a depth-`MAX_PAGE_DEPTH` page
there are `256 − 6·42 = 4` key bits left, i.e. at most `2^4 = 16` leaves, fewer than the elision
threshold -/
theorem last_level_elided :
    2 ^ (256 - Gen.DEPTH * Gen.MAX_PAGE_DEPTH) < Gen.PAGE_ELISION_THRESHOLD ∧
    256 - Gen.DEPTH * Gen.MAX_PAGE_DEPTH = 4 := by decide

/-- seglog records are page aligned; the header is `u32` length + `u64` id -/
theorem seglog_layout :
    Gen.SEGLOG_RECORD_ALIGNMENT = Gen.PAGE_SIZE ∧ Gen.SEGLOG_HEADER_SIZE = 4 + 8 ∧
    Gen.SEGLOG_HEADER_SIZE < Gen.SEGLOG_RECORD_ALIGNMENT ∧ Gen.SEGLOG_MAX_RECORD_PAYLOAD_SIZE < 2 ^ 32 := by decide

end Nomt.Store.ConstantsCheck
