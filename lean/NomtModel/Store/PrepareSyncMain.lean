import NomtModel.Store.PrepareSyncTop
/-!
# `prepare_sync`: the facts about a successful call under the caller contract

`Before`: the state a sync starts from — the in-memory meta map is well-formed and equals the meta pages of the
hash-table file, the file has one page per bucket, the table satisfies the invariant of the probing model (`Inv`,
`NoDup`: what `wfTable` accepts).  `ChangesOK`: the changeset as the store builds it — typed pages labelled with their
page id, diffs without reserved bit, every page id once, bucket infos truthful (`ContractFrom`).
`prepareSync_facts` collects everything the property theorems need.
-/
namespace Nomt.PrepSync
open Nomt Nomt.Wal Nomt.Store Nomt.Store.Probe

structure Before (hash : Bytes → Nat) (S : St) (T : Wal.Table) : Prop where
  /-- the hash is a `u64` -/
  hh : ∀ p, hash p < 2 ^ 64
  wf : S.mm.WF
  disk_meta : T.meta = S.mm.bitvec
  disk_pages : T.pages.length = S.mm.buckets
  pagesWF : T.WF
  inv : Inv (hashN hash) (viewOf S.mm T.pages)
  nodup : NoDup (viewOf S.mm T.pages)

structure ChangesOK (hash : Bytes → Nat) (S : St) (T : Wal.Table) (ds : List Dirty) : Prop where
  typed : ∀ d ∈ ds, d.Typed
  plain : ∀ d ∈ ds, d.diff.cleared = false → PageDiff.Plain d.diff ∧ labelOf d.page = d.pid
  /-- the changeset is the content of a map keyed by page id -/
  pids : (ds.map (fun d => pidN d.pid)).Nodup
  contract : ContractFrom (hashN hash) ALLOC_ATTEMPTS (viewOf S.mm T.pages) ds

theorem ups_pids_sublist : ∀ (ds : List Dirty) (bs : List Nat),
    ((ups ds bs).map (fun x => pidN x.2.pid)).Sublist (ds.map (fun d => pidN d.pid)) := by
  intro ds
  induction ds with
  | nil => intro bs; cases bs <;> exact List.Sublist.refl _
  | cons d ds ih =>
    intro bs
    cases bs with
    | nil => exact List.nil_sublist _
    | cons b bs =>
      simp only [ups, List.map_append, List.map_cons]
      by_cases hc : d.diff.cleared = true
      · simp only [hc, if_true, List.map_nil, List.nil_append]
        exact List.Sublist.cons _ (ih bs)
      · simp only [hc, Bool.false_eq_true, if_false, List.map_cons, List.map_nil, List.singleton_append]
        exact List.Sublist.cons_cons _ (ih bs)

theorem mem_entriesOf : ∀ (ds : List Dirty) (bs : List Nat) (e : Entry), e ∈ entriesOf ds bs →
    ∃ x ∈ pairs ds bs, e = entryOf x.2 x.1 := by
  intro ds
  induction ds with
  | nil => intro bs e h; cases bs <;> simp [entriesOf] at h
  | cons d ds ih =>
    intro bs e h
    cases bs with
    | nil => simp [entriesOf] at h
    | cons b bs =>
      simp only [entriesOf, List.mem_cons] at h
      rcases h with rfl | h
      · exact ⟨(b, d), by simp [pairs], rfl⟩
      · obtain ⟨x, hx, e'⟩ := ih bs e h
        exact ⟨x, by simp [pairs, hx], e'⟩

theorem mem_pairs : ∀ (ds : List Dirty) (bs : List Nat) (x : Nat × Dirty), x ∈ pairs ds bs → x.2 ∈ ds := by
  intro ds
  induction ds with
  | nil => intro bs x h; cases bs <;> simp [pairs] at h
  | cons d ds ih =>
    intro bs x h
    cases bs with
    | nil => simp [pairs] at h
    | cons b bs =>
      simp only [pairs, List.mem_cons] at h
      rcases h with rfl | h
      · exact List.mem_cons_self ..
      · exact List.mem_cons_of_mem _ (ih bs x h)

theorem pagesAfter_spec : ∀ (ds : List Dirty) (bs : List Nat) (P : List Bytes),
    ((ups ds bs).map (·.1)).Nodup → (∀ x ∈ ups ds bs, x.1 < P.length) →
    (∀ x ∈ ups ds bs, (pagesAfter P ds bs)[x.1]? = some x.2.page) ∧
    (∀ b, b ∉ (ups ds bs).map (·.1) → (pagesAfter P ds bs)[b]? = P[b]?) := by
  intro ds
  induction ds with
  | nil =>
    intro bs P _ _
    refine ⟨?_, ?_⟩
    · intro x hx; cases bs <;> simp [ups] at hx
    · intro b _; cases bs <;> rfl
  | cons d ds ih =>
    intro bs P hnd hlt
    cases bs with
    | nil => exact ⟨fun x hx => by simp [ups] at hx, fun b _ => rfl⟩
    | cons b bs =>
      by_cases hc : d.diff.cleared = true
      · have hups : ups (d :: ds) (b :: bs) = ups ds bs := by simp [ups, hc]
        rw [hups] at hnd hlt ⊢
        simp only [pagesAfter, hc, if_true]
        exact ih bs P hnd hlt
      · have hc' : d.diff.cleared = false := by simpa using hc
        have hups : ups (d :: ds) (b :: bs) = (b, d) :: ups ds bs := by simp [ups, hc']
        rw [hups] at hnd hlt ⊢
        simp only [List.map_cons, List.nodup_cons] at hnd
        simp only [pagesAfter, hc', Bool.false_eq_true, if_false]
        have hbl := hlt (b, d) (List.mem_cons_self ..)
        obtain ⟨i1, i2⟩ := ih bs (P.set b d.page) hnd.2
          (fun x hx => by rw [List.length_set]; exact hlt x (List.mem_cons_of_mem _ hx))
        refine ⟨?_, ?_⟩
        · intro x hx
          rcases List.mem_cons.1 hx with rfl | hx
          · rw [i2 _ hnd.1, List.getElem?_set]
            simp only at hbl
            simp [hbl]
          · exact i1 x hx
        · intro b' hb'
          simp only [List.map_cons, List.mem_cons, not_or] at hb'
          rw [i2 b' hb'.2, List.getElem?_set]
          have : b ≠ b' := fun e => hb'.1 e.symm
          simp [this]

/-- **the write-out in closed form**: any order of the returned pages applied to the file gives the new meta map and
the bucket pages with the data pages of the loop applied -/
theorem applyHt_canon (off : Nat) (T : Wal.Table) (hlen : T.meta.length = off * 4096) (ds : List Dirty) (bs : List Nat)
    (hb : ∀ x ∈ ups ds bs, x.1 < T.pages.length ∧ x.2.page.length = 4096)
    (hnd : ((ups ds bs).map (·.1)).Nodup) (C : List Nat) (hC : C.Nodup) (hCr : ∀ p ∈ C, p < off)
    (M' : Bytes) (hM'len : M'.length = T.meta.length) (hCc : ∀ j, T.meta[j]? ≠ M'[j]? → j / 4096 ∈ C)
    (ht' : List (Nat × Bytes)) (hperm : ht'.Perm (htCanon off ds bs C M')) :
    applyHt off T ht' = { «meta» := M', pages := pagesAfter T.pages ds bs } := by
  have hkeys : (ht'.map (·.1)).Nodup := (hperm.map (·.1)).nodup_iff.2 (htCanon_keys_nodup hnd hC hCr)
  have hmem : ∀ x, x ∈ ht' ↔ x ∈ htCanon off ds bs C M' := fun x => hperm.mem_iff
  have hok : HtOK off T.meta.length ht' := by
    intro x hx
    rw [hmem] at hx
    unfold htCanon at hx
    rcases List.mem_append.1 hx with hx | hx
    · obtain ⟨y, hy, rfl⟩ := List.mem_map.1 hx
      exact ⟨(hb y hy).2, fun hlt => by simp only at hlt; omega⟩
    · obtain ⟨p, hp, rfl⟩ := List.mem_map.1 hx
      have hpo := hCr p hp
      have hbd : p * 4096 + 4096 ≤ T.meta.length := by
        rw [hlen]
        have : (p + 1) * 4096 ≤ off * 4096 := Nat.mul_le_mul_right _ hpo
        omega
      exact ⟨slice_length (by rw [hM'len]; exact hbd), fun _ => hbd⟩
  obtain ⟨hl1, hl2⟩ := applyHt_lengths off ht' T hok
  obtain ⟨p1, p2⟩ := pagesAfter_spec ds bs T.pages hnd (fun x hx => (hb x hx).1)
  have em : (applyHt off T ht').meta = M' := by
    apply List.ext_getElem?
    intro j
    by_cases hj : j / 4096 ∈ C
    · have hx : (j / 4096, slice M' (j / 4096 * 4096) 4096) ∈ ht' := by
        rw [hmem]; unfold htCanon
        exact List.mem_append_right _ (List.mem_map.2 ⟨_, hj, rfl⟩)
      have := applyHt_meta_hit off ht' T hok hkeys _ hx (hCr _ hj) (j % 4096) (Nat.mod_lt _ (by omega))
      simp only at this
      have e : j / 4096 * 4096 + j % 4096 = j := by omega
      rw [e] at this
      rw [this, getElem?_slice, if_pos (Nat.mod_lt _ (by omega)), e]
    · rw [applyHt_meta_frame off ht' T hok j]
      · apply Classical.byContradiction
        intro hne
        exact hj (hCc j hne)
      · intro x hx hlt e
        rw [hmem] at hx
        unfold htCanon at hx
        rcases List.mem_append.1 hx with hx | hx
        · obtain ⟨y, _, rfl⟩ := List.mem_map.1 hx
          simp only at hlt; omega
        · obtain ⟨p, hp, rfl⟩ := List.mem_map.1 hx
          simp only at e
          exact hj (e ▸ hp)
  have ep : (applyHt off T ht').pages = pagesAfter T.pages ds bs := by
    apply List.ext_getElem?
    intro b
    by_cases hbm : b ∈ (ups ds bs).map (·.1)
    · obtain ⟨x, hx, rfl⟩ := List.mem_map.1 hbm
      have hin : (off + x.1, x.2.page) ∈ ht' := by
        rw [hmem]; unfold htCanon
        exact List.mem_append_left _ (List.mem_map.2 ⟨x, hx, rfl⟩)
      have := applyHt_pages_hit off ht' T hkeys _ hin (by simp) (by simp only; have := (hb x hx).1; omega)
      simp only [Nat.add_sub_cancel_left] at this
      rw [this, p1 x hx]
    · rw [p2 b hbm, applyHt_pages_frame off ht' T b]
      intro x hx hle e
      rw [hmem] at hx
      unfold htCanon at hx
      rcases List.mem_append.1 hx with hx | hx
      · obtain ⟨y, hy, rfl⟩ := List.mem_map.1 hx
        apply hbm
        simp only at e
        have : y.1 = b := by omega
        rw [← this]
        exact List.mem_map_of_mem hy
      · obtain ⟨p, hp, rfl⟩ := List.mem_map.1 hx
        have := hCr p hp
        simp only at hle; omega
  rw [← em, ← ep]

theorem entryOf_honest {d : Dirty} {b : Nat} (ht : d.Typed) (hp : d.diff.cleared = false → PageDiff.Plain d.diff)
    (hb : b < 2 ^ 64) : (entryOf d b).Honest := by
  unfold entryOf
  by_cases hc : d.diff.cleared = true
  · simp only [hc, if_true]; exact hb
  · have hc' : d.diff.cleared = false := by simpa using hc
    simp only [hc', Bool.false_eq_true, if_false]
    have hpl := hp hc'
    exact ⟨ht.pid, ht.diff, packedOf_node_length ht.page hpl, elidedOf_lt ht.page, hb, packedOf_length _ _, hpl.1, hpl.2⟩

theorem div_lt_numMeta {b n : Nat} (h : b < n) : b / 4096 < numMetaBytePages n := by
  unfold numMetaBytePages PAGE; omega

/-- the buckets a successful run of the loop assigned: inside the table; those of the updated pages pairwise
distinct; the changed meta pages: duplicate-free and inside the meta map -/
theorem chain_core {hash : Bytes → Nat} {S : St} {T : Wal.Table} {ds : List Dirty} {w0 : Builder} {bs : List Nat}
    {cs : List Bool} {a : Acc} (hB : Before hash S T) (hC : ChangesOK hash S T ds)
    (hch : Chain hash (dataOffset S.mm.buckets) (acc0 S w0) ds bs cs a) :
    (∀ x ∈ pairs ds bs, x.1 < S.mm.buckets) ∧ ((ups ds bs).map (·.1)).Nodup ∧
    (sortNat a.changed).Nodup ∧ (∀ p ∈ sortNat a.changed, p < dataOffset S.mm.buckets) := by
  have hok0 : (acc0 S w0).mm.Ok := hB.wf.ok
  obtain ⟨v1, v2, v3, v4, v5, v6, v7⟩ := chain_view hB.hh hch T.pages hok0 hB.disk_pages hB.inv hB.nodup
    (fun d hd => ⟨(hC.typed d hd).pid, fun hc => (hC.plain d hd hc).2⟩) hC.pids hC.contract
  obtain ⟨c1, c2, c3, c4⟩ := hch.changed_spec
  have hbk : ∀ x ∈ pairs ds bs, x.1 < S.mm.buckets := v4
  refine ⟨hbk, ?_, ?_, ?_⟩
  · -- each updated page is found in its own bucket afterwards
    have hpn : ((ups ds bs).map (fun x => pidN x.2.pid)).Nodup := (ups_pids_sublist ds bs).nodup hC.pids
    have hn' : 0 < (viewOf a.mm (pagesAfter T.pages ds bs)).n := by rw [viewOf_n v2]; exact v2.pos
    have e : (ups ds bs).map (fun x => pidN x.2.pid) =
        ((ups ds bs).map (·.1)).map (viewOf a.mm (pagesAfter T.pages ds bs)).label := by
      rw [List.map_map]
      apply List.map_congr_left
      intro x hx
      obtain ⟨hx1, hx2⟩ := ups_sub_pairs ds bs x hx
      have := v6 x hx1
      rw [hx2] at this
      simp only [Bool.false_eq_true, if_false] at this
      exact (find_lt hn' this).2.2.symm
    rw [e] at hpn
    exact List.Pairwise.of_map _ (fun a b h e => h (by rw [e])) hpn
  · exact (sortNat_perm _).nodup_iff.2 (c1 (by simp [acc0]))
  · intro p hp
    rcases c4 p ((sortNat_perm _).mem_iff.1 hp) with h1 | ⟨x, hx, e, _⟩
    · simp [acc0] at h1
    · rw [e]; exact div_lt_numMeta (hbk x hx)

/-- everything a successful call under the contract satisfies -/
theorem prepareSync_facts {hash : Bytes → Nat} {debug : Bool} {S : St} {T : Wal.Table} {seqn : Nat} {ds : List Dirty}
    {b0 : Builder} {res : Res} (hB : Before hash S T) (hC : ChangesOK hash S T ds)
    (h : prepareSync hash debug S seqn ds b0 = .ok res) :
    ∃ C : List Nat, C.Nodup ∧ (∀ p ∈ C, p < dataOffset S.mm.buckets) ∧
      (∀ p ∈ C, ∃ x ∈ pairs ds res.cells, p = x.1 / 4096 ∧
        (x.2.diff.cleared = true ∨ x.2.bucket = .fresh ∨ x.2.bucket = .depUnset)) ∧
      res.ht.Perm (htCanon (dataOffset S.mm.buckets) ds res.cells C res.mm.bitvec) ∧
      res.wal.asSlice = encode seqn (entriesOf ds res.cells) ∧
      (∀ e ∈ entriesOf ds res.cells, e.Honest) ∧
      res.mm.bitvec = metaRedo hash T.meta ds res.cells ∧
      res.mm.buckets = S.mm.buckets ∧
      (∀ j, T.meta[j]? ≠ res.mm.bitvec[j]? → j / 4096 ∈ C) ∧
      (∀ x ∈ pairs ds res.cells, x.1 < S.mm.buckets) ∧
      ((ups ds res.cells).map (·.1)).Nodup ∧
      viewOf res.mm (pagesAfter T.pages ds res.cells) =
        run (hashN hash) ALLOC_ATTEMPTS (viewOf S.mm T.pages) (ds.map opOf) ∧
      res.occupied = applyDelta S.occupied
        ((occupied (viewOf res.mm (pagesAfter T.pages ds res.cells)) : Int) - (occupied (viewOf S.mm T.pages) : Int)) ∧
      (∀ x ∈ pairs ds res.cells, find (hashN hash) (viewOf res.mm (pagesAfter T.pages ds res.cells)) (pidN x.2.pid) =
        if x.2.diff.cleared then none else some x.1) ∧
      (∀ k d, ds[k]? = some d → needsAlloc d →
        (alloc (hashN hash) ALLOC_ATTEMPTS (run (hashN hash) ALLOC_ATTEMPTS (viewOf S.mm T.pages) ((ds.take k).map opOf))
          (pidN d.pid)).isSome = true) ∧
      res.cells.length = ds.length ∧
      (∀ x ∈ pairs ds res.cells, x.2.bucket = .known x.1 ∨ x.2.bucket = .depSet x.1 ∨
        (x.2.diff.cleared = false ∧ (x.2.bucket = .fresh ∨ x.2.bucket = .depUnset))) := by
  obtain ⟨w0, a, cs, mp, hch, hrun, hmp, hperm, hmm, hocc, _⟩ :=
    prepareSync_ok (fun d hd => (hC.typed d hd).page) h
  have hok0 : (acc0 S w0).mm.Ok := hB.wf.ok
  obtain ⟨v1, v2, v3, v4, v5, v6, v7⟩ := chain_view hB.hh hch T.pages hok0 hB.disk_pages hB.inv hB.nodup
    (fun d hd => ⟨(hC.typed d hd).pid, fun hc => (hC.plain d hd hc).2⟩) hC.pids hC.contract
  obtain ⟨c1, c2, c3, c4⟩ := hch.changed_spec
  have hn32 : S.mm.buckets < 2 ^ 32 := hB.wf.2.1
  obtain ⟨hbk, hnd, hCn, hCr⟩ := chain_core hB hC hch
  refine ⟨sortNat a.changed, ?_, ?_, ?_, ?_, ?_, ?_, ?_, ?_, ?_, hbk, hnd, ?_, ?_, ?_, v7, hch.lengths.1, hch.src_spec⟩
  · exact hCn
  · exact hCr
  · intro p hp
    rcases c4 p ((sortNat_perm _).mem_iff.1 hp) with h1 | h1
    · simp [acc0] at h1
    · exact h1
  · rw [hmm]
    refine hperm.trans ?_
    rw [metaPages_eq hmp, hch.ht_eq, dataPages_eq]
    simp only [acc0, List.nil_append]
    unfold htCanon
    exact List.Perm.refl _
  · exact Builder.run_ok hrun
  · intro e he
    obtain ⟨x, hx, rfl⟩ := mem_entriesOf ds res.cells e he
    have hd : x.2 ∈ ds := mem_pairs ds res.cells x hx
    exact entryOf_honest (hC.typed _ hd) (fun hc => (hC.plain _ hd hc).1) (by have := hbk x hx; omega)
  · rw [hmm, v3, hB.disk_meta]; rfl
  · rw [hmm, hch.buckets_eq]; rfl
  · intro j hj
    apply (sortNat_perm _).mem_iff.2
    apply c3
    rw [hmm, hB.disk_meta] at hj
    exact hj
  · rw [hmm]; exact v1
  · rw [hocc, hmm]
    congr 1
    have := v5
    simp only [acc0] at this
    omega
  · rw [hmm]; exact v6

end Nomt.PrepSync
