import NomtModel.Store.BtLookup
/-!
# Mirror of `beatree::ops::reconstruct` (`nomt/src/beatree/ops/reconstruction.rs`) — C10 / C16

`SeqFileReader` walks the pages `0 .. bump` of the bbn file.  A page is skipped when it is all zero (`view.n() == 0 &&
node == [0; 4096]`) or when the free list tracks it (`bbn_freelist_tracked`: the free-list pages and the pages they
list); any other page must carry its own page number (`ensure!(view.bbn_pn() == pn)`) and is inserted into the index
under `prefix ++ separator(0)` padded with zero bits; two nodes under one key are an error.

HOW A LIVE NODE IS TOLD FROM A STALE ONE: only by the free list (and the bump).  A freed node keeps its bytes — its
`bbn_pn` still equals its page number — until the page is handed out again; nothing in the page (no sequence number: the
"skip future BBNs according to the commit sequence number" of the module comment is not in the code) marks it as dead.
`reconstruct` is therefore exactly as good as the invariant "every non-zero page below the bump that is not a node of the
current tree is tracked by the free list" (no leaked bbn page), which `wfImage` checks on every image (`liveBranches`
applies the same rule and then demands strictly ascending separators over ALL nodes found).
-/
namespace Nomt.BtRecon
open Nomt Nomt.Store Nomt.BtLookup

/-- the key `reconstruct` files a node under: `prefix()` followed by `separator(0)`, zero padded; the slicing panics
of `bitvec` are explicit -/
def reconKey (p : ByteArray) : Outcome String Nat :=
  let n := u16le p 4
  let pl := u16le p 8
  let start := BRANCH_HEADER + 2 * n
  if start > PAGE then .panic "inner[start_separators..]" else
  let avail := (PAGE - start) * 8
  if pl > avail then .panic "view_bits()[..prefix_len]" else
  let len := u16le p BRANCH_HEADER          -- `cell(0)`
  if pl + len > avail then .panic "view_bits()[bit_offset_start..bit_offset_end]" else
  if pl > 256 then .panic "separator[..prefix.len()]" else
  if pl + len > 256 then .panic "separator[prefix.len()..prefix.len() + first.len()]" else
  .ok ((bitsNat p start 0 pl * 2 ^ len + bitsNat p start pl len) * 2 ^ (256 - (pl + len)))

/-- the index under construction: `(key, page number of the node)` ascending (the node itself is the page) -/
abbrev RIndex := List (Nat × Nat)

def rinsert : RIndex → Nat → Nat → RIndex × Bool
  | [], k, pn => ([(k, pn)], false)
  | (s, q) :: rest, k, pn =>
    if k = s then ((k, pn) :: rest, true)
    else if k < s then ((k, pn) :: (s, q) :: rest, false)
    else let r := rinsert rest k pn; ((s, q) :: r.1, r.2)

inductive RErr where
  | bump        -- "bump is out of bounds"
  | small       -- "file is too small for BBN store"
  | pn (pn : Nat)   -- "pn mismatch"
  | dup         -- "2 branch nodes with same separator"
deriving DecidableEq, Repr

/-- the `while let Some((pn, node)) = chunker.next()?` loop; `fuel` = pages left -/
def reconLoop (bbn : ByteArray) (tracked : Nat → Bool) (bump : Nat) : Nat → Nat → RIndex → Outcome RErr RIndex
  | 0, _, idx => .ok idx
  | fuel + 1, pn, idx =>
    if pn ≥ bump then .ok idx else
    match pageOf bbn pn with
    | none => .panic "mmap: page beyond the end of the file"
    | some pg =>
      if u16le pg 4 == 0 && allZero pg 0 PAGE then reconLoop bbn tracked bump fuel (pn + 1) idx
      else if tracked pn then reconLoop bbn tracked bump fuel (pn + 1) idx
      else if u32le pg 0 ≠ pn then .err (.pn pn)
      else
        match reconKey pg with
        | .panic m => .panic m
        | .err _ => .panic "unreachable"
        | .ok key =>
          let r := rinsert idx key pn
          if r.2 then .err .dup else reconLoop bbn tracked bump fuel (pn + 1) r.1

/-- `reconstruct(bn_fd, page_pool, bbn_freelist_tracked, bump)` -/
def reconstruct (bbn : ByteArray) (tracked : Nat → Bool) (bump : Nat) : Outcome RErr RIndex :=
  if numPages bbn < 1 then .err .small
  else if bump > numPages bbn then .err .bump
  else reconLoop bbn tracked bump bump 0 []

end Nomt.BtRecon
