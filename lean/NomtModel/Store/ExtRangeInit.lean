import NomtModel.Store.ExtRangeRun
import NomtModel.Store.ExtRangePrepLemmas
/-! the state `run` starts the workers in satisfies the protocol invariant, for every output of `prepare_workers` -/
namespace Nomt.ExtRange

variable {σ N C : Type}

/-- what `ChainOK` says about the neighbour links: a worker with a right neighbour is followed by a worker with a left
neighbour; a bounded range has a right neighbour -/
theorem chain_link (keys : List Nat) (total : Nat) : ∀ (ws : List WP) (low : Option Nat) (start : Nat) (left : Bool),
    ChainOK keys total low start left ws → ∀ i p, ws[i]? = some p →
      (p.right = true → ∃ q, ws[i + 1]? = some q ∧ q.left = true) ∧ (p.high.isSome → p.right = true)
  | [], _, _, _, h, _, _, _ => by simp [ChainOK] at h
  | [w], low, start, left, h, i, p, hp => by
    obtain ⟨_, _, _, hh, _, hr, _, _⟩ := h
    cases i with
    | zero =>
      simp only [List.getElem?_cons_zero, Option.some.injEq] at hp; subst hp
      exact ⟨fun e => (by rw [hr] at e; cases e), fun e => (by rw [hh] at e; cases e)⟩
    | succ i => simp at hp
  | w :: w' :: rest, low, start, left, h, i, p, hp => by
    obtain ⟨_, _, _, hr, _, ⟨s, hs, _⟩, _, hrest⟩ := h
    cases i with
    | zero =>
      simp only [List.getElem?_cons_zero, Option.some.injEq] at hp; subst hp
      refine ⟨fun _ => ⟨w', by simp, ?_⟩, fun _ => hr⟩
      cases rest with
      | nil => exact hrest.2.2.1
      | cons _ _ => exact hrest.2.2.1
    | succ i =>
      simp only [List.getElem?_cons_succ] at hp
      have := chain_link keys total (w' :: rest) w.high w.stop true hrest i p hp
      simpa using this

theorem initG_pv (U : Upd σ N C) (cfg : Cfg) (db : List (DbN N)) (cs : List (Nat × C)) (wps : List WP) (i : Nat)
    (p : WP) (hp : wps[i]? = some p) :
    (absG (initG U cfg db cs wps)).pv i =
      { left := p.left, right := if p.right then some (i + 1) else none, pending := none, resp := none,
        highSome := p.high.isSome, kind := .run, fin := false } := by
  simp [absG, initG, hp, view, mkWorker, kindOf, finOf]

/-- the initial state satisfies the protocol invariant -/
theorem inv_init (U : Upd σ N C) (cfg : Cfg) (db : List (DbN N)) (cs : List (Nat × C)) (keys : List Nat)
    (wps : List WP) (low : Option Nat) (start : Nat) (left : Bool) (hc : ChainOK keys keys.length low start left wps) :
    AInv (absG (initG U cfg db cs wps)) := by
  have hn : (absG (initG U cfg db cs wps)).n = wps.length := rfl
  have hch : ∀ j, (absG (initG U cfg db cs wps)).chans j = [] := fun _ => rfl
  have hget : ∀ i, i < wps.length → ∃ p, wps[i]? = some p := fun i hi => ⟨wps[i], List.getElem?_eq_getElem hi⟩
  have link := chain_link keys keys.length wps low start left hc
  have hright : ∀ i j, i < wps.length → ((absG (initG U cfg db cs wps)).pv i).right = some j →
      j = i + 1 ∧ j < wps.length ∧ ((absG (initG U cfg db cs wps)).pv j).left = true ∧
        ((absG (initG U cfg db cs wps)).pv j).kind = .run := by
    intro i j hi hr
    obtain ⟨p, hp⟩ := hget i hi
    rw [initG_pv U cfg db cs wps i p hp] at hr
    by_cases hpr : p.right = true
    · simp only [hpr, if_true, Option.some.injEq] at hr
      obtain ⟨q, hq, hql⟩ := (link i p hp).1 hpr
      subst hr
      have hlt : i + 1 < wps.length := by
        rcases Nat.lt_or_ge (i + 1) wps.length with h | h
        · exact h
        · rw [List.getElem?_eq_none h] at hq; cases hq
      refine ⟨rfl, hlt, ?_, ?_⟩ <;> rw [initG_pv U cfg db cs wps (i + 1) q hq]
      exact hql
    · simp [hpr] at hr
  have hresp : ∀ i, i < wps.length → ((absG (initG U cfg db cs wps)).pv i).resp = none := by
    intro i hi; obtain ⟨p, hp⟩ := hget i hi; rw [initG_pv U cfg db cs wps i p hp]
  have hkind : ∀ i, i < wps.length → ((absG (initG U cfg db cs wps)).pv i).kind = .run := by
    intro i hi; obtain ⟨p, hp⟩ := hget i hi; rw [initG_pv U cfg db cs wps i p hp]
  have hpend : ∀ i, i < wps.length → ((absG (initG U cfg db cs wps)).pv i).pending = none := by
    intro i hi; obtain ⟨p, hp⟩ := hget i hi; rw [initG_pv U cfg db cs wps i p hp]
  constructor
  · intro i j hi he
    rw [hn] at hi
    rw [effRight_of_resp_none (hresp i hi)] at he
    obtain ⟨h1, h2, h3, h4⟩ := hright i j hi he
    exact ⟨by omega, by rw [hn]; exact h2, h3, by rw [h4]; decide⟩
  · intro i i' j hi hi' he he'
    rw [hn] at hi hi'
    rw [effRight_of_resp_none (hresp i hi)] at he
    rw [effRight_of_resp_none (hresp i' hi')] at he'
    have := (hright i j hi he).1
    have := (hright i' j hi' he').1
    omega
  · intro j r _ hm; rw [hch] at hm; cases hm
  · intro j r hj hp; rw [hn] at hj; rw [hpend j hj] at hp; cases hp
  · intro i hi hk; rw [hn] at hi; rw [hkind i hi] at hk; cases hk
  · intro i hi hr; rw [hn] at hi; rw [hresp i hi] at hr; cases hr
  · intro i hi _ _ hh
    rw [hn] at hi
    rw [effRight_of_resp_none (hresp i hi)]
    rw [effHigh_of_resp_none (hresp i hi)] at hh
    obtain ⟨p, hp⟩ := hget i hi
    rw [initG_pv U cfg db cs wps i p hp] at hh ⊢
    simp only at hh ⊢
    rw [(link i p hp).2 hh]; rfl
  · intro i hi hk; rw [hn] at hi; rw [hkind i hi] at hk; cases hk
  · intro j hj hp; rw [hn] at hj; rw [hpend j hj] at hp; cases hp
  · intro j _ hc; exact absurd (hch j) hc
  · intro i hi hk; rw [hn] at hi; rw [hkind i hi] at hk; cases hk
  · intro j _; exact hch j

end Nomt.ExtRange
