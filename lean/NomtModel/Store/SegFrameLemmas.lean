import NomtModel.Store.SegOpen
import NomtModel.Store.DeltaLemmas
/-!
# Record framing round trip: the reader on the writer's bytes

`parseFile (bytesOf f) = framesOf f`: on the bytes of complete records followed by ANY strict prefix of the encoding of
one more record, the mirror of `SegmentFileReader` finds exactly the complete records and classifies the tail as
nothing (`k = 0`), a short header (`k < 12`, `read_exact` fails), a header with short payload (skippable, not
readable) or a readable record whose padding is short.
-/
namespace Nomt.Seg

def RecOK (r : Rec) : Prop := r.payload.length ≤ MAXPAY ∧ r.id < 18446744073709551616

theorem encHeader_length (r : Rec) : (encHeader r).length = HDR := by
  simp [encHeader, leBytes_length, HDR]

theorem encRec_length (r : Rec) : (encRec r).length = r.size := by
  have := r.size_ge
  simp only [encRec, List.length_append, encHeader_length, List.length_replicate, padLen]
  omega

theorem leVal_len (r : Rec) (h : RecOK r) : leVal (leBytes 4 r.payload.length) = r.payload.length := by
  apply leVal_leBytes4
  have := h.1
  unfold MAXPAY at this
  omega

theorem leVal_id (r : Rec) (h : RecOK r) : leVal (leBytes 8 r.id) = r.id := by
  rw [leVal_leBytes]
  exact Nat.mod_eq_of_lt (by have := h.2; simpa using this)

/-- the header fields read back from any byte string that starts with at least the header of `r` -/
theorem header_fields (r : Rec) (h : RecOK r) (tail : List UInt8) :
    leVal ((encHeader r ++ tail).take 4) = r.payload.length ∧
    leVal (((encHeader r ++ tail).drop 4).take 8) = r.id ∧ (encHeader r ++ tail).drop HDR = tail := by
  have h4 : (leBytes 4 r.payload.length).length = 4 := leBytes_length _ _
  have h8 : (leBytes 8 r.id).length = 8 := leBytes_length _ _
  refine ⟨?_, ?_, ?_⟩
  · simp only [encHeader, List.append_assoc]
    rw [List.take_left' h4, leVal_len r h]
  · simp only [encHeader, List.append_assoc]
    rw [List.drop_left' h4, List.take_left' h8, leVal_id r h]
  · rw [List.drop_left' (encHeader_length r)]

/-- one complete record followed by more bytes -/
theorem parse_full_more (fuel : Nat) (r : Rec) (h : RecOK r) (rest : List UInt8) (hrest : rest ≠ []) :
    parse (fuel + 1) (encRec r ++ rest) = (Frame.full r :: (parse fuel rest).1, (parse fuel rest).2) := by
  have hsz := r.hdr_lt_size
  have hlen : (encRec r ++ rest).length = r.size + rest.length := by rw [List.length_append, encRec_length]
  have hrl : 0 < rest.length := List.length_pos_iff.mpr hrest
  have hform : encRec r ++ rest = encHeader r ++ (r.payload ++ (List.replicate (padLen r) 0 ++ rest)) := by
    simp [encRec]
  obtain ⟨f1, f2, f3⟩ := header_fields r h (r.payload ++ (List.replicate (padLen r) 0 ++ rest))
  have h0 : ¬ (encRec r ++ rest).length = 0 := by omega
  have h12 : ¬ (encRec r ++ rest).length < HDR := by omega
  have hmax : ¬ MAXPAY < r.payload.length := by have := h.1; omega
  have hnext : roundUp (HDR + r.payload.length) = r.size := rfl
  have hdrop : (encRec r ++ rest).drop r.size = rest := List.drop_left' (encRec_length r)
  conv => lhs; unfold parse
  simp only [h0, h12, if_false]
  rw [hform, f1, f2, f3, ← hform]
  simp only [hmax, if_false, hnext, hdrop]
  have hbody : r.payload.length ≤ (r.payload ++ (List.replicate (padLen r) 0 ++ rest)).length := by simp
  have hnle : ¬ (encRec r ++ rest).length ≤ r.size := by omega
  simp only [hbody, if_true, hnle, if_false, List.take_left' rfl]

/-- a strict prefix (possibly everything but the padding, possibly nothing) of one record at the end of the file -/
theorem parse_tail (fuel : Nat) (r : Rec) (h : RecOK r) (k : Nat) (hk : k ≤ r.size) :
    parse (fuel + 1) ((encRec r).take k) =
      if k = 0 then ([], .eof)
      else if k < HDR then ([], .shortHeader)
      else if HDR + r.payload.length ≤ k then ([.full r], .eof)
      else ([.short r.id r.payload.length (r.payload.take (k - HDR))], .eof) := by
  have hlen : ((encRec r).take k).length = k := by rw [List.length_take, encRec_length]; omega
  by_cases hk0 : k = 0
  · subst hk0; simp [parse]
  · by_cases hk12 : k < HDR
    · unfold parse
      simp [hlen, hk0, hk12]
    · have hge : HDR ≤ k := by omega
      -- the prefix starts with the whole header
      have hform : (encRec r).take k = encHeader r ++ (r.payload ++ List.replicate (padLen r) 0).take (k - HDR) := by
        have : encRec r = encHeader r ++ (r.payload ++ List.replicate (padLen r) 0) := by simp [encRec]
        rw [this, List.take_append, encHeader_length, List.take_of_length_le (by rw [encHeader_length]; exact hge)]
      obtain ⟨f1, f2, f3⟩ := header_fields r h ((r.payload ++ List.replicate (padLen r) 0).take (k - HDR))
      have hmax : ¬ MAXPAY < r.payload.length := by have := h.1; omega
      have hnext : roundUp (HDR + r.payload.length) = r.size := rfl
      have hbl : ((r.payload ++ List.replicate (padLen r) 0).take (k - HDR)).length = k - HDR := by
        have := r.size_ge
        simp only [List.length_take, List.length_append, List.length_replicate, padLen]; omega
      unfold parse
      simp only [hlen, hk0, hk12, if_false]
      rw [hform, f1, f2, f3]
      simp only [hmax, if_false, hnext, hbl, hk, if_true]
      by_cases hfull : HDR + r.payload.length ≤ k
      · have h1 : r.payload.length ≤ k - HDR := by omega
        simp only [hfull, h1, if_true]
        rw [List.take_take, Nat.min_eq_left h1, List.take_left' rfl]
      · have h1 : ¬ r.payload.length ≤ k - HDR := by omega
        simp only [hfull, h1, if_false]
        rw [List.take_append_of_le_length (by omega)]

theorem framesOf_cons (r : Rec) (rs : List Rec) (t : Option (Rec × Nat)) :
    framesOf ⟨r :: rs, t⟩ = (Frame.full r :: (framesOf ⟨rs, t⟩).1, (framesOf ⟨rs, t⟩).2) := by
  unfold framesOf
  cases t with
  | none => rfl
  | some rk =>
    obtain ⟨r', k⟩ := rk
    simp only
    split <;> try rfl
    split <;> try rfl
    split <;> rfl

theorem bytesOf_cons (r : Rec) (rs : List Rec) (t : Option (Rec × Nat)) :
    bytesOf ⟨r :: rs, t⟩ = encRec r ++ bytesOf ⟨rs, t⟩ := by
  simp [bytesOf]

theorem parse_bytesOf : ∀ (rs : List Rec) (t : Option (Rec × Nat)) (fuel : Nat),
    (∀ r ∈ rs, RecOK r) → (∀ r k, t = some (r, k) → RecOK r ∧ k < r.size) → rs.length < fuel →
    parse fuel (bytesOf ⟨rs, t⟩) = framesOf ⟨rs, t⟩
  | [], t, fuel, _, ht, hf => by
    obtain ⟨fuel, rfl⟩ : ∃ f, fuel = f + 1 := ⟨fuel - 1, by simp at hf; omega⟩
    cases t with
    | none => simp [bytesOf, tornBytes, parse, framesOf]
    | some rk =>
      obtain ⟨r, k⟩ := rk
      obtain ⟨hr, hk⟩ := ht r k rfl
      have := parse_tail fuel r hr k (by omega)
      simp only [bytesOf, tornBytes, List.flatMap_nil, List.nil_append, this, framesOf, List.map_nil, List.nil_append]
  | r :: rs, t, fuel, hrs, ht, hf => by
    obtain ⟨fuel, rfl⟩ : ∃ f, fuel = f + 1 := ⟨fuel - 1, by simp at hf; omega⟩
    have hr := hrs r (by simp)
    have ih := parse_bytesOf rs t fuel (fun x hx => hrs x (by simp [hx])) ht (by simp at hf; omega)
    rw [bytesOf_cons, framesOf_cons]
    by_cases hrest : bytesOf ⟨rs, t⟩ = []
    · -- the record ends the file
      rw [hrest, List.append_nil]
      have h1 := parse_tail fuel r hr r.size (Nat.le_refl _)
      rw [List.take_of_length_le (by rw [encRec_length]; exact Nat.le_refl _)] at h1
      have hsz := r.size_pos
      have hge := r.size_ge
      have hlt := r.hdr_lt_size
      simp only [show r.size ≠ 0 by omega, show ¬ r.size < HDR by omega, hge, if_true, if_false] at h1
      rw [h1]
      -- nothing follows: the remaining frames are empty
      have h2 : parse fuel (bytesOf ⟨rs, t⟩) = ([], .eof) := by
        rw [hrest]
        cases fuel <;> simp [parse]
      rw [ih] at h2
      rw [h2]
    · rw [parse_full_more fuel r hr _ hrest, ih]

/-- **the reader on the writer's bytes** -/
theorem parseFile_bytesOf (f : SegFile) (hrs : ∀ r ∈ f.recs, RecOK r)
    (ht : ∀ r k, f.torn = some (r, k) → RecOK r ∧ k < r.size) : parseFile (bytesOf f) = framesOf f := by
  unfold parseFile
  apply parse_bytesOf f.recs f.torn _ hrs ht
  -- every record occupies at least one page
  have hlen : ∀ (rs : List Rec) (t : Option (Rec × Nat)), rs.length * ALIGN ≤ (bytesOf ⟨rs, t⟩).length := by
    intro rs t
    induction rs with
    | nil => simp
    | cons r rs ih =>
      rw [bytesOf_cons, List.length_append, encRec_length]
      have h1 := r.hdr_lt_size
      have h2 := roundUp_mod (HDR + r.payload.length)
      have h3 : ALIGN ≤ r.size := by
        unfold Rec.size at *
        unfold HDR ALIGN at *
        omega
      simp only [List.length_cons]
      have : (rs.length + 1) * ALIGN = rs.length * ALIGN + ALIGN := by
        rw [Nat.add_mul]; simp
      omega
  have := hlen f.recs f.torn
  have h4 : f.recs.length ≤ (bytesOf f).length / ALIGN := by
    rw [Nat.le_div_iff_mul_le (by decide)]
    exact this
  omega

/-! ## the FNV-1a of the listings is the FNV-1a of the file's bytes -/

theorem fnvBytes_append (h : UInt64) (a b : List UInt8) : fnvBytes h (a ++ b) = fnvBytes (fnvBytes h a) b := by
  simp [fnvBytes, List.foldl_append]

theorem fnvBytes_zeros : ∀ (n : Nat) (h : UInt64), fnvBytes h (List.replicate n 0) = h * powU64 fnvPrime n
  | 0, h => by simp [fnvBytes, powU64]
  | n + 1, h => by
    have ih := fnvBytes_zeros n ((h ^^^ (0 : UInt8).toUInt64) * fnvPrime)
    simp only [fnvBytes, List.replicate_succ, List.foldl_cons] at ih ⊢
    rw [ih]
    have : (0 : UInt8).toUInt64 = 0 := rfl
    rw [this, UInt64.xor_zero, powU64, UInt64.mul_assoc]

theorem fnvRec_eq (h : UInt64) (r : Rec) : fnvRec h r = fnvBytes h (encRec r) := by
  simp only [fnvRec, encRec, fnvBytes_append, fnvBytes_zeros]

theorem fnvFile_eq (f : SegFile) : fnvFile f = fnvBytes fnvInit (bytesOf f) := by
  have : ∀ (rs : List Rec) (h : UInt64), rs.foldl fnvRec h = fnvBytes h (rs.flatMap encRec) := by
    intro rs
    induction rs with
    | nil => intro h; simp [fnvBytes]
    | cons r rs ih => intro h; simp only [List.foldl_cons, List.flatMap_cons, fnvBytes_append, fnvRec_eq, ih]
  simp only [fnvFile, bytesOf, fnvBytes_append, this]

end Nomt.Seg
