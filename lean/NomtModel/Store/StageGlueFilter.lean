import NomtModel.Store.ExtRangeModel
/-!
# `filter_leaves_changeset` / `filter_branch_changeset`: specification

`ExtRange.filterCs` is the mirror (stable sort by key, the scan over adjacent pairs with its two `assert!`s, the removal of
the collected indices from the back).  Producer invariant `PairInv` on the SORTED list: a key occurs at most twice, and
if twice then one entry is `Some` and the other `None`.  Under it: no `assert!` fires, and the result is `mergePairs`:
strictly ascending, every key once, a key with a `Some` entry keeps that entry.
-/
namespace Nomt.StageGlue
open Nomt Nomt.ExtRange

variable {α : Type}

/-- the producer invariant on the sorted changeset -/
def PairInv : List (Nat × Option α) → Prop
  | a :: b :: t =>
    (if a.1 = b.1 then (a.2.isSome = !b.2.isSome) ∧ (∀ c ∈ t, b.1 < c.1) else a.1 < b.1) ∧ PairInv (b :: t)
  | _ => True

/-- the specification: adjacent equal keys collapse to the `Some` entry -/
def mergePairs : List (Nat × Option α) → List (Nat × Option α)
  | a :: b :: t => if a.1 = b.1 then (if a.2.isSome then a else b) :: mergePairs t else a :: mergePairs (b :: t)
  | l => l

theorem removeIdx_cons (l : List β) (j : Nat) (r : List Nat) : removeIdx l (j :: r) = (removeIdx l r).eraseIdx j := by
  simp [removeIdx, List.foldl_append]

theorem removeIdx_nil (l : List β) : removeIdx l [] = l := rfl

theorem eraseIdx_append_len (pre : List β) (x : β) (t : List β) : (pre ++ x :: t).eraseIdx pre.length = pre ++ t := by
  induction pre with
  | nil => rfl
  | cons a pre ih => simp [ih]

theorem mergePairs_cons_of_lt {a : Nat × Option α} : ∀ {t : List (Nat × Option α)}, (∀ c ∈ t, a.1 < c.1) →
    mergePairs (a :: t) = a :: mergePairs t
  | [], _ => rfl
  | b :: t, h => by
    have : a.1 ≠ b.1 := by have := h b (by simp); omega
    simp [mergePairs, this]

/-- **the scan + removal is `mergePairs`**, for any offset of the indices -/
theorem filterIdx_spec : ∀ (s : List (Nat × Option α)) (i : Nat), PairInv s →
    ∃ r, filterIdx i s = some r ∧ ∀ pre : List (Nat × Option α), pre.length = i → removeIdx (pre ++ s) r = pre ++ mergePairs s
  | [], i, _ => ⟨[], rfl, fun pre _ => by simp [removeIdx_nil, mergePairs]⟩
  | [a], i, _ => ⟨[], rfl, fun pre _ => by simp [removeIdx_nil, mergePairs]⟩
  | a :: b :: t, i, h => by
    obtain ⟨h1, h2⟩ := h
    obtain ⟨r, hr, hrm⟩ := filterIdx_spec (b :: t) (i + 1) h2
    by_cases hab : a.1 = b.1
    · rw [if_pos hab] at h1
      obtain ⟨hx, hlt⟩ := h1
      have hm : mergePairs (b :: t) = b :: mergePairs t := mergePairs_cons_of_lt hlt
      cases ha : a.2 with
      | some va =>
        have hb : b.2.isNone = true := by rw [ha] at hx; simp at hx; simp [hx]
        refine ⟨(i + 1) :: r, ?_, ?_⟩
        · simp [filterIdx, hr, hab, ha, hb]
        · intro pre hpre
          rw [removeIdx_cons]
          have := hrm (pre ++ [a]) (by simp [hpre])
          simp only [List.append_assoc, List.singleton_append] at this
          rw [this, hm]
          have e : pre ++ a :: b :: mergePairs t = (pre ++ [a]) ++ b :: mergePairs t := by simp
          have e2 : i + 1 = (pre ++ [a]).length := by simp [hpre]
          rw [e, e2, eraseIdx_append_len]
          simp [mergePairs, hab, ha]
      | none =>
        have hb : b.2.isSome = true := by rw [ha] at hx; simp at hx; simp [hx]
        refine ⟨i :: r, ?_, ?_⟩
        · simp [filterIdx, hr, hab, ha, hb]
        · intro pre hpre
          rw [removeIdx_cons]
          have := hrm (pre ++ [a]) (by simp [hpre])
          simp only [List.append_assoc, List.singleton_append] at this
          rw [this, hm, ← hpre, eraseIdx_append_len]
          simp [mergePairs, hab, ha]
    · refine ⟨r, ?_, ?_⟩
      · simp [filterIdx, hr, hab]
      · intro pre hpre
        have := hrm (pre ++ [a]) (by simp [hpre])
        simp only [List.append_assoc, List.singleton_append] at this
        rw [this]
        simp [mergePairs, hab]

/-- the result is strictly ascending -/
theorem mergePairs_asc : ∀ (s : List (Nat × Option α)), PairInv s →
    (mergePairs s).Pairwise (fun a b => a.1 < b.1) ∧ ∀ c ∈ mergePairs s, ∃ c' ∈ s, c'.1 = c.1
  | [], _ => by simp [mergePairs]
  | [a], _ => by simp [mergePairs]
  | a :: b :: t, h => by
    obtain ⟨h1, h2⟩ := h
    by_cases hab : a.1 = b.1
    · rw [if_pos hab] at h1
      obtain ⟨_, hlt⟩ := h1
      have h3 : PairInv t := by
        cases t with
        | nil => trivial
        | cons c t' => exact h2.2
      obtain ⟨i1, i2⟩ := mergePairs_asc t h3
      simp only [mergePairs, hab, if_true]
      constructor
      · refine List.pairwise_cons.2 ⟨?_, i1⟩
        intro c hc
        obtain ⟨c', hc', e⟩ := i2 c hc
        have := hlt c' hc'
        split <;> omega
      · intro c hc
        rcases List.mem_cons.1 hc with rfl | hc
        · split
          · exact ⟨a, by simp, rfl⟩
          · exact ⟨b, by simp, rfl⟩
        · obtain ⟨c', hc', e⟩ := i2 c hc
          exact ⟨c', by simp [hc'], e⟩
    · rw [if_neg hab] at h1
      obtain ⟨i1, i2⟩ := mergePairs_asc (b :: t) h2
      simp only [mergePairs, hab, if_false]
      constructor
      · refine List.pairwise_cons.2 ⟨?_, i1⟩
        intro c hc
        obtain ⟨c', hc', e⟩ := i2 c hc
        rw [← e]
        -- every key of `b :: t` is at least `b.1`
        have hge : ∀ (l : List (Nat × Option α)) (x : Nat × Option α), PairInv (x :: l) → ∀ y ∈ x :: l, x.1 ≤ y.1 := by
          intro l
          induction l with
          | nil => intro x _ y hy; simp at hy; subst hy; exact Nat.le_refl _
          | cons z l ih =>
            intro x hx y hy
            rcases List.mem_cons.1 hy with rfl | hy
            · exact Nat.le_refl _
            · have := ih z hx.2 y hy
              have hxz : x.1 ≤ z.1 := by
                have := hx.1
                by_cases e : x.1 = z.1
                · omega
                · rw [if_neg e] at this; omega
              omega
        have := hge t b h2 c' hc'
        omega
      · intro c hc
        rcases List.mem_cons.1 hc with rfl | hc
        · exact ⟨c, by simp, rfl⟩
        · obtain ⟨c', hc', e⟩ := i2 c hc
          exact ⟨c', by simp [hc'], e⟩

/-- on a list without equal adjacent keys nothing is removed -/
theorem mergePairs_of_asc : ∀ (s : List (Nat × Option α)), s.Pairwise (fun a b => a.1 < b.1) → mergePairs s = s
  | [], _ => rfl
  | [a], _ => rfl
  | a :: b :: t, h => by
    have h' := List.pairwise_cons.1 h
    have : a.1 ≠ b.1 := by have := h'.1 b (by simp); omega
    simp [mergePairs, this, mergePairs_of_asc (b :: t) h'.2]

theorem pairInv_of_asc : ∀ (s : List (Nat × Option α)), s.Pairwise (fun a b => a.1 < b.1) → PairInv s
  | [], _ => trivial
  | [a], _ => trivial
  | a :: b :: t, h => by
    have h' := List.pairwise_cons.1 h
    have hlt : a.1 < b.1 := h'.1 b (by simp)
    have : a.1 ≠ b.1 := by omega
    exact ⟨by rw [if_neg this]; exact hlt, pairInv_of_asc (b :: t) h'.2⟩

/-! ## the stable sort -/

theorem insSorted_of_ge (x : Nat × β) : ∀ (l : List (Nat × β)), (∀ y ∈ l, y.1 ≤ x.1) → insSorted x l = l ++ [x]
  | [], _ => rfl
  | y :: t, h => by
    have : ¬ x.1 < y.1 := by have := h y (by simp); omega
    simp [insSorted, this, insSorted_of_ge x t (fun z hz => h z (by simp [hz]))]

/-- an ascending list is left alone by the sort -/
theorem sortCs_of_asc (l : List (Nat × β)) (h : l.Pairwise (fun a b => a.1 < b.1)) : sortCs l = l := by
  unfold sortCs
  have key : ∀ (l acc : List (Nat × β)), (acc ++ l).Pairwise (fun a b => a.1 < b.1) →
      l.foldl (fun acc x => insSorted x acc) acc = acc ++ l := by
    intro l
    induction l with
    | nil => intro acc _; simp
    | cons x t ih =>
      intro acc hp
      simp only [List.foldl_cons]
      rw [insSorted_of_ge x acc (fun y hy => by
        have := (List.pairwise_append.1 hp).2.2 y hy x (by simp); omega)]
      rw [ih (acc ++ [x]) (by simpa using hp)]
      simp
  simpa using key l [] (by simpa using h)

/-- **`filter_*_changeset` on the merged workers' lists** -/
theorem filterCs_spec (leaf : Bool) (l : List (Nat × Option α)) (hne : leaf = true ∨ l ≠ []) (h : PairInv (sortCs l)) :
    filterCs leaf l = some (mergePairs (sortCs l)) := by
  unfold filterCs
  have : (l.isEmpty && !leaf) = false := by
    rcases hne with h | h
    · simp [h]
    · cases l with
      | nil => exact absurd rfl h
      | cons a t => simp
  rw [this]
  obtain ⟨r, hr, hrm⟩ := filterIdx_spec (sortCs l) 0 h
  have := hrm [] rfl
  simp only [List.nil_append] at this
  simp [hr, this]

/-- one worker: the tracker's entries are ascending, the filter changes nothing -/
theorem filterCs_of_asc (leaf : Bool) (l : List (Nat × Option α)) (hne : leaf = true ∨ l ≠ [])
    (h : l.Pairwise (fun a b => a.1 < b.1)) : filterCs leaf l = some l := by
  have hs := sortCs_of_asc l h
  rw [filterCs_spec leaf l hne (by rw [hs]; exact pairInv_of_asc l h), hs, mergePairs_of_asc l h]

end Nomt.StageGlue
