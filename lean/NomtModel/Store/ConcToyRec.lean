import NomtModel.Store.ConcCrashLog
import NomtModel.Store.TraceOrderToy
/-! Two tiny concurrent recovery traces on the crash image `Toy.dR` (new meta, matching WAL, table not yet written), and
their renderings in the format of the real I/O trace. -/
namespace NomtDisk.CToy
open NomtDisk.Toy

/-- redo the table page, fsync the table, THEN truncate the WAL and fsync it -/
def recGood : List CE :=
  [.effBegin 0 (.page .fHt 5 9), .effEnd 0, .fsyncBegin "t1" .fHt, .fsyncEnd "t1" .fHt,
   .effBegin 4 (.walSet none), .effEnd 4, .fsyncBegin "t1" .fWal, .fsyncEnd "t1" .fWal]

/-- the order without the table fsync -/
def recBad : List CE :=
  [.effBegin 0 (.page .fHt 5 9), .effEnd 0,
   .effBegin 2 (.walSet none), .effEnd 2, .fsyncBegin "t1" .fWal, .fsyncEnd "t1" .fWal]

/-- `recBad` up to the Begin of the truncation -/
def recBadCut : List CE := [.effBegin 0 (.page .fHt 5 9), .effEnd 0, .effBegin 2 (.walSet none)]

theorem recBadCut_prefix : recBadCut <+: recBad := ⟨[.effEnd 2, .fsyncBegin "t1" .fWal, .fsyncEnd "t1" .fWal], rfl⟩

theorem recGood_ord : cAll ordChk 2 (cinit dR) recGood := by
  simp [recGood, cAll, ordChk, nextPhase, cstep, cinit, markEnded, takeCSync, flush, covered, coverable,
    Eff.file, Eff.isMeta]

theorem recGood_cont : cAll (contChk (AllowedPreL' P L dR) (contPostL P L dR dR.mt w1)) 2 (cinit dR) recGood := by
  simp [recGood, cAll, contChk, nextPhase, cstep, cinit, markEnded, takeCSync, flush, covered, coverable,
    Eff.file, Eff.isMeta]
  refine ⟨⟨⟨rfl, rfl⟩, fun h => h.elim⟩, trivial, fun _ => ?_⟩
  intro b c h
  simp only [P, w1, lookupD] at h
  by_cases hb : 5 = b
  · subst hb; simp at h; subst h; rfl
  · simp [hb] at h

theorem recBad_rejected : ¬ cAll ordChk 2 (cinit dR) recBad := by
  simp [recBad, cAll, ordChk, nextPhase, cstep, cinit, markEnded, takeCSync, flush, covered, coverable,
    Eff.file, Eff.isMeta]

theorem recBadCut_rejected : ¬ cAll ordChk 2 (cinit dR) recBadCut := by
  simp [recBadCut, cAll, ordChk, nextPhase, cstep, cinit, markEnded, takeCSync, flush, covered, coverable,
    Eff.file, Eff.isMeta]

/-- the WAL truncation reached the disk, the (un-synced) table write did not -/
def recBadImg : D := applyEffs dR [.walSet none]

theorem recBad_image : IsCImage (crun (cinit dR) recBad) recBadImg := by
  refine ⟨[], List.nil_sublist _, ?_⟩
  simp [recBad, crun, cstep, cinit, markEnded, takeCSync, flush, covered, coverable, Eff.file, recBadImg, applyEffs]

theorem recBadCut_image : IsCImage (crun (cinit dR) recBadCut) recBadImg := by
  refine ⟨[.walSet none], ?_, ?_⟩
  · simp [recBadCut, crun, cstep, cinit, CState.volEffs]
  · simp [recBadCut, crun, cstep, cinit, recBadImg]

theorem recBad_image_differs : absOfL P L recBadImg ≠ absOfL P L dR := by
  intro h
  have h1 := congrArg (fun x => x.1.2 5) h
  revert h1
  show (0 : Nat) = 9 → False
  decide

end NomtDisk.CToy

namespace Nomt.Store.OToy
open NomtDisk NomtDisk.Toy

def recGoodLines : List IoEv2 :=
  [ln true "Write" "ht" (5 * PAGE) "t1",
   ln false "Write" "ht" (5 * PAGE) "t4",
   ln true "Fsync" "ht" 0 "t1",
   ln false "Fsync" "ht" 0 "t1",
   ln true "SetLen" "wal" 0 "t1",
   ln false "SetLen" "wal" 0 "t1",
   ln true "Fsync" "wal" 0 "t1",
   ln false "Fsync" "wal" 0 "t1"]

def recBadLines : List IoEv2 :=
  [ln true "Write" "ht" (5 * PAGE) "t1",
   ln false "Write" "ht" (5 * PAGE) "t4",
   ln true "SetLen" "wal" 0 "t1",
   ln false "SetLen" "wal" 0 "t1",
   ln true "Fsync" "wal" 0 "t1",
   ln false "Fsync" "wal" 0 "t1"]

/-- the contents the recovery trace does not carry -/
def CR : Contents Nat TMeta (Nat × List (Nat × Nat)) where
  page := fun _ => 9
  mt := fun _ => m1
  wal := fun _ => w1

theorem recGood_accepted : (checkRecoveryOrder recGoodLines).toBool = true := by decide
theorem recBad_rejected : (checkRecoveryOrder recBadLines).toBool = false := by decide

theorem recGood_abs : absTrace (LogRec := Nat) CR { phase := 2, walWritten := true } 0 recGoodLines = CToy.recGood := by rfl
/-- the abstraction stops at the first line the monitor rejects: the Begin of the truncation -/
theorem recBad_abs : absTrace (LogRec := Nat) CR { phase := 2, walWritten := true } 0 recBadLines = CToy.recBadCut := by rfl

end Nomt.Store.OToy
