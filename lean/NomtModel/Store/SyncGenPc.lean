import NomtModel.Store.SyncGenFile
/-!
# The sync choreography: shape of the chains, counting of the group operations in flight, invariants of the program
counters, and the table that reads the monitor's per-file state off the program counters
-/
namespace Nomt.Store.SyncGen
open Nomt.Store

/-! ## The lines of the chains, by index -/

theorem call_cases (th : String) (e : IoEv) (k : Nat) (l : IoEv2) (h : (call th e)[k]? = some l) :
    (k = 0 ∧ l = ⟨true, e, th⟩) ∨ (k = 1 ∧ l = ⟨false, e, th⟩) := by
  match k, h with
  | 0, h => left; simp [call] at h; exact ⟨rfl, h.symm⟩
  | 1, h => right; simp [call] at h; exact ⟨rfl, h.symm⟩
  | n + 2, h => simp [call] at h

theorem walLines_length (P : Params) : (walLines P).length = 6 := rfl
theorem metaLines_length (P : Params) : (metaLines P).length = 4 := rfl

theorem wal_cases (P : Params) (k : Nat) (l : IoEv2) (h : (walLines P)[k]? = some l) :
    (k = 0 ∧ l = ⟨true, ev "SetLen" "wal" 0 0 "wal.write.set_len", P.tWal⟩) ∨
    (k = 1 ∧ l = ⟨false, ev "SetLen" "wal" 0 0 "wal.write.set_len", P.tWal⟩) ∨
    (k = 2 ∧ l = ⟨true, ev "Append" "wal" 0 P.walLen "wal.write", P.tWal⟩) ∨
    (k = 3 ∧ l = ⟨false, ev "Append" "wal" 0 P.walLen "wal.write", P.tWal⟩) ∨
    (k = 4 ∧ l = ⟨true, ev "Fsync" "wal" 0 0 "wal.write.fsync", P.tWal⟩) ∨
    (k = 5 ∧ l = ⟨false, ev "Fsync" "wal" 0 0 "wal.write.fsync", P.tWal⟩) := by
  match k, h with
  | 0, h => simp [walLines, call] at h; simp [h]
  | 1, h => simp [walLines, call] at h; simp [h]
  | 2, h => simp [walLines, call] at h; simp [h]
  | 3, h => simp [walLines, call] at h; simp [h]
  | 4, h => simp [walLines, call] at h; simp [h]
  | 5, h => simp [walLines, call] at h; simp [h]
  | n + 6, h => simp [walLines, call] at h

theorem meta_cases (P : Params) (k : Nat) (l : IoEv2) (h : (metaLines P)[k]? = some l) :
    (k = 0 ∧ l = ⟨true, ev "Write" "meta" 0 P.metaLen "meta.write", P.tMain⟩) ∨
    (k = 1 ∧ l = ⟨false, ev "Write" "meta" 0 P.metaLen "meta.write", P.tMain⟩) ∨
    (k = 2 ∧ l = ⟨true, ev "Fsync" "meta" 0 0 "meta.fsync", P.tMain⟩) ∨
    (k = 3 ∧ l = ⟨false, ev "Fsync" "meta" 0 0 "meta.fsync", P.tMain⟩) := by
  match k, h with
  | 0, h => simp [metaLines, call] at h; simp [h]
  | 1, h => simp [metaLines, call] at h; simp [h]
  | 2, h => simp [metaLines, call] at h; simp [h]
  | 3, h => simp [metaLines, call] at h; simp [h]
  | n + 4, h => simp [metaLines, call] at h

theorem tail_cases (P : Params) (k : Nat) (l : IoEv2) (h : (tailLines real P)[k]? = some l) :
    (k = 0 ∧ l = ⟨true, ev "Fsync" "ht" 0 0 "ht.fsync", P.tMain⟩) ∨
    (k = 1 ∧ l = ⟨false, ev "Fsync" "ht" 0 0 "ht.fsync", P.tMain⟩) ∨
    (k = 2 ∧ l = ⟨true, ev "SetLen" "wal" 0 0 "wal.truncate", P.tMain⟩) ∨
    (k = 3 ∧ l = ⟨false, ev "SetLen" "wal" 0 0 "wal.truncate", P.tMain⟩) := by
  match k, h with
  | 0, h => simp [tailLines, real, call] at h; simp [h]
  | 1, h => simp [tailLines, real, call] at h; simp [h]
  | 2, h => simp [tailLines, real, call] at h; simp [h]
  | 3, h => simp [tailLines, real, call] at h; simp [h]
  | n + 4, h => simp [tailLines, real, call] at h

theorem unlinkLines_length (th : String) (us : List (String × String)) : (unlinkLines th us).length = 2 * us.length := by
  induction us with
  | nil => rfl
  | cons u us ih => obtain ⟨n, s⟩ := u; simp [unlinkLines, call, ih]; omega

theorem unlinkLines_mem (th : String) (us : List (String × String)) (l : IoEv2) (h : l ∈ unlinkLines th us) :
    ∃ b n site, l = ⟨b, ev "Unlink" n 0 0 site, th⟩ := by
  induction us with
  | nil => cases h
  | cons u us ih =>
    obtain ⟨n, s⟩ := u
    simp only [unlinkLines, call, List.cons_append, List.nil_append, List.mem_cons] at h
    rcases h with rfl | rfl | h
    · exact ⟨true, n, s, rfl⟩
    · exact ⟨false, n, s, rfl⟩
    · exact ih h

theorem pruneTail_cases (th : String) (hd : String) (n : Nat) (k : Nat) (l : IoEv2)
    (h : (pruneTailLines th (some (hd, n)))[k]? = some l) :
    (k = 0 ∧ l = ⟨true, ev "DirSync" "dir" 0 0 "seglog.prune_recent.dirsync", th⟩) ∨
    (k = 1 ∧ l = ⟨false, ev "DirSync" "dir" 0 0 "seglog.prune_recent.dirsync", th⟩) ∨
    (k = 2 ∧ l = ⟨true, ev "SetLen" hd n 0 "seglog.truncate_head", th⟩) ∨
    (k = 3 ∧ l = ⟨false, ev "SetLen" hd n 0 "seglog.truncate_head", th⟩) ∨
    (k = 4 ∧ l = ⟨true, ev "Fsync" hd 0 0 "seglog.truncate_head.fsync", th⟩) ∨
    (k = 5 ∧ l = ⟨false, ev "Fsync" hd 0 0 "seglog.truncate_head.fsync", th⟩) := by
  match k, h with
  | 0, h => simp [pruneTailLines, call] at h; simp [h]
  | 1, h => simp [pruneTailLines, call] at h; simp [h]
  | 2, h => simp [pruneTailLines, call] at h; simp [h]
  | 3, h => simp [pruneTailLines, call] at h; simp [h]
  | 4, h => simp [pruneTailLines, call] at h; simp [h]
  | 5, h => simp [pruneTailLines, call] at h; simp [h]
  | n + 6, h => simp [pruneTailLines, call] at h

/-! ## Group operations in flight, by key -/

theorem BtOp.ekey_evE (o : BtOp) : ekey o.evE = ekey o.evB := by
  unfold BtOp.evE BtOp.evB; split <;> rfl

theorem HtOp.ekey_evE (o : HtOp) : ekey o.evE = ekey o.evB := rfl

/-- beatree operations on `ln` (`bbn = false`) / `bbn` in flight with key `k` -/
def openBt (bbn : Bool) (k : Key) : List BtOp → List Nat → Nat
  | o :: os, x :: xs => (if x = 1 ∧ o.bbn = bbn ∧ ekey o.evB = k then 1 else 0) + openBt bbn k os xs
  | _, _ => 0

def openHt (k : Key) : List HtOp → List Nat → Nat
  | o :: os, x :: xs => (if x = 1 ∧ ekey o.evB = k then 1 else 0) + openHt k os xs
  | _, _ => 0

theorem openBt_set (bbn : Bool) (k : Key) : ∀ (os : List BtOp) (xs : List Nat) (i : Nat) (o : BtOp) (x y : Nat),
    os[i]? = some o → xs[i]? = some x →
    openBt bbn k os (xs.set i y) = openBt bbn k os xs - (if x = 1 ∧ o.bbn = bbn ∧ ekey o.evB = k then 1 else 0) +
      (if y = 1 ∧ o.bbn = bbn ∧ ekey o.evB = k then 1 else 0) := by
  intro os
  induction os with
  | nil => intro xs i o x y ho; simp at ho
  | cons o0 os ih =>
    intro xs i o x y ho hx
    cases xs with
    | nil => simp at hx
    | cons x0 xs =>
      cases i with
      | zero =>
        simp only [List.getElem?_cons_zero, Option.some.injEq] at ho hx
        subst ho; subst hx
        simp only [List.set_cons_zero, openBt]
        split <;> split <;> omega
      | succ i =>
        simp only [List.getElem?_cons_succ] at ho hx
        simp only [List.set_cons_succ, openBt]
        rw [ih xs i o x y ho hx]
        have hle : (if x = 1 ∧ o.bbn = bbn ∧ ekey o.evB = k then 1 else 0) ≤ openBt bbn k os xs := by
          clear ih
          induction os generalizing xs i with
          | nil => simp at ho
          | cons o1 os ih2 =>
            cases xs with
            | nil => simp at hx
            | cons x1 xs =>
              cases i with
              | zero =>
                simp only [List.getElem?_cons_zero, Option.some.injEq] at ho hx
                subst ho; subst hx
                simp only [openBt]; omega
              | succ i =>
                simp only [List.getElem?_cons_succ] at ho hx
                simp only [openBt]
                have := ih2 xs i ho hx
                omega
        omega

theorem openHt_set (k : Key) : ∀ (os : List HtOp) (xs : List Nat) (i : Nat) (o : HtOp) (x y : Nat),
    os[i]? = some o → xs[i]? = some x →
    openHt k os (xs.set i y) = openHt k os xs - (if x = 1 ∧ ekey o.evB = k then 1 else 0) +
      (if y = 1 ∧ ekey o.evB = k then 1 else 0) := by
  intro os
  induction os with
  | nil => intro xs i o x y ho; simp at ho
  | cons o0 os ih =>
    intro xs i o x y ho hx
    cases xs with
    | nil => simp at hx
    | cons x0 xs =>
      cases i with
      | zero =>
        simp only [List.getElem?_cons_zero, Option.some.injEq] at ho hx
        subst ho; subst hx
        simp only [List.set_cons_zero, openHt]
        split <;> split <;> omega
      | succ i =>
        simp only [List.getElem?_cons_succ] at ho hx
        simp only [List.set_cons_succ, openHt]
        rw [ih xs i o x y ho hx]
        have hle : (if x = 1 ∧ ekey o.evB = k then 1 else 0) ≤ openHt k os xs := by
          clear ih
          induction os generalizing xs i with
          | nil => simp at ho
          | cons o1 os ih2 =>
            cases xs with
            | nil => simp at hx
            | cons x1 xs =>
              cases i with
              | zero =>
                simp only [List.getElem?_cons_zero, Option.some.injEq] at ho hx
                subst ho; subst hx
                simp only [openHt]; omega
              | succ i =>
                simp only [List.getElem?_cons_succ] at ho hx
                simp only [openHt]
                have := ih2 xs i ho hx
                omega
        omega

theorem openBt_zero (bbn : Bool) (k : Key) : ∀ (os : List BtOp) (xs : List Nat), (∀ x ∈ xs, x ≠ 1) → openBt bbn k os xs = 0 := by
  intro os
  induction os with
  | nil => intro xs _; cases xs <;> rfl
  | cons o os ih =>
    intro xs h
    cases xs with
    | nil => rfl
    | cons x xs =>
      simp only [openBt]
      have h1 : x ≠ 1 := h x (by simp)
      rw [ih xs (fun y hy => h y (by simp [hy]))]
      simp [h1]

theorem openHt_zero (k : Key) : ∀ (os : List HtOp) (xs : List Nat), (∀ x ∈ xs, x ≠ 1) → openHt k os xs = 0 := by
  intro os
  induction os with
  | nil => intro xs _; cases xs <;> rfl
  | cons o os ih =>
    intro xs h
    cases xs with
    | nil => rfl
    | cons x xs =>
      simp only [openHt]
      have h1 : x ≠ 1 := h x (by simp)
      rw [ih xs (fun y hy => h y (by simp [hy]))]
      simp [h1]

theorem allDone_iff (xs : List Nat) : allDone xs = true ↔ ∀ x ∈ xs, x = 2 := by
  simp [allDone, List.all_eq_true]

theorem allDone_getElem (xs : List Nat) (i x : Nat) (h : allDone xs = true) (hx : xs[i]? = some x) : x = 2 :=
  (allDone_iff xs).mp h x (List.mem_of_getElem? hx)

theorem mem_set_cases (xs : List Nat) (i y z : Nat) (h : z ∈ xs.set i y) : z = y ∨ z ∈ xs := by
  rcases List.mem_or_eq_of_mem_set h with h | h
  · exact Or.inr h
  · exact Or.inl h

/-! ## Invariants of the program counters (the code as it is: `real`) -/

structure PcInv (P : Params) (s : PSt) : Prop where
  flDone : 0 < s.fl → allDone s.bt = true
  fbDone : 0 < s.fb → allDone s.bt = true
  pre : 0 < s.m → s.w = 6 ∧ s.fl = 2 ∧ s.fb = 2 ∧ allDone s.bt = true
  post : s.m < 4 → s.tl = 0 ∧ s.pr = 0 ∧ ∀ x ∈ s.ht, x = 0
  tlDone : 0 < s.tl → allDone s.ht = true

theorem pcinv_init (P : Params) : PcInv P (init P) := by
  refine ⟨fun h => ?_, fun h => ?_, fun h => ?_, fun _ => ⟨rfl, rfl, ?_⟩, fun h => ?_⟩
  · simp [init] at h
  · simp [init] at h
  · simp [init] at h
  · intro x hx; simp [init] at hx; exact hx.2.symm
  · simp [init] at h

theorem pcinv_step (P : Params) (s s' : PSt) (l : IoEv2) (h : PcInv P s) (hs : Step real P s l s') : PcInv P s' := by
  cases hs with
  | wal l hl =>
    refine ⟨h.flDone, h.fbDone, fun hm => ?_, h.post, h.tlDone⟩
    have := h.pre hm
    have hlt : s.w < 6 := by
      have := (List.getElem?_eq_some_iff.mp hl).1
      simpa [walLines_length] using this
    omega
  | btBegin i o th ho hx =>
    have hnot : ¬ allDone s.bt = true := fun hd => by have := allDone_getElem _ _ _ hd hx; omega
    refine ⟨fun hf => absurd (h.flDone hf) hnot, fun hf => absurd (h.fbDone hf) hnot,
      fun hm => absurd (h.pre hm).2.2.2 hnot, h.post, h.tlDone⟩
  | btEnd i o th ho hx =>
    have hnot : ¬ allDone s.bt = true := fun hd => by have := allDone_getElem _ _ _ hd hx; omega
    refine ⟨fun hf => absurd (h.flDone hf) hnot, fun hf => absurd (h.fbDone hf) hnot,
      fun hm => absurd (h.pre hm).2.2.2 hnot, h.post, h.tlDone⟩
  | fsLn l hl hg =>
    refine ⟨fun _ => hg rfl, h.fbDone, fun hm => ?_, h.post, h.tlDone⟩
    have := h.pre hm
    have hlt : s.fl < 2 := by
      have := (List.getElem?_eq_some_iff.mp hl).1
      simpa [fsLnLines, call] using this
    omega
  | fsBbn l hl hg =>
    refine ⟨h.flDone, fun _ => hg rfl, fun hm => ?_, h.post, h.tlDone⟩
    have := h.pre hm
    have hlt : s.fb < 2 := by
      have := (List.getElem?_eq_some_iff.mp hl).1
      simpa [fsBbnLines, call] using this
    omega
  | metaW l hl hg =>
    have hlt : s.m < 4 := by
      have := (List.getElem?_eq_some_iff.mp hl).1
      simpa [metaLines_length] using this
    simp only [metaGuard, real, Bool.and_eq_true, beq_iff_eq, Bool.not_true, Bool.false_or, walLines_length] at hg
    refine ⟨h.flDone, h.fbDone, fun _ => ⟨hg.1.1, hg.2.1, hg.2.2, hg.1.2⟩, fun hm => ?_, h.tlDone⟩
    exact h.post hlt
  | htBegin i o ho hx hm =>
    rw [metaLines_length] at hm
    have hnot : ¬ allDone s.ht = true := fun hd => by have := allDone_getElem _ _ _ hd hx; omega
    refine ⟨h.flDone, h.fbDone, h.pre, fun hlt => ?_, fun hf => absurd (h.tlDone hf) hnot⟩
    simp only at hlt; omega
  | htEnd i o th ho hx =>
    have hnot : ¬ allDone s.ht = true := fun hd => by have := allDone_getElem _ _ _ hd hx; omega
    refine ⟨h.flDone, h.fbDone, h.pre, fun hlt => ?_, fun hf => absurd (h.tlDone hf) hnot⟩
    have := (h.post hlt).2.2 1 (List.mem_of_getElem? hx)
    omega
  | tail l hl hm hg =>
    rw [metaLines_length] at hm
    refine ⟨h.flDone, h.fbDone, h.pre, fun hlt => ?_, fun _ => hg rfl⟩
    simp only at hlt; omega
  | prune l hl hm =>
    rw [metaLines_length] at hm
    refine ⟨h.flDone, h.fbDone, h.pre, fun hlt => ?_, h.tlDone⟩
    simp only at hlt; omega

end Nomt.Store.SyncGen
